(* C12 — results do not depend on how the OS splits reads and writes.
   Statements only; every proof is one [exact] of a lemma from C12/RetryProofs.v or
   C12/IStreamProofs.v.  The OS is an outcome stream (IoModel.v): one of Xfer n | Eintr | Zero | Fail
   per call; [benign] = no Zero, no Fail; an exhausted stream means "every further call completes".
   Every model function is structurally recursive on the outcome stream (or on explicit fuel), so
   it terminates on every stream; the call-count theorems bound the work. *)
From Coq Require Import List NArith ZArith Bool.
From SqfsV Require Import Gen.Constants C12.ListN C12.IoModel C12.RetryProofs C12.IStreamProofs C12.GetLineProofs.
Import ListNotations.
Local Open Scope N_scope.

(* ------------------------------------------------------------------ *)
(* file.c: stdio_read_at / stdio_write_at / stdio_truncate              *)
(* ------------------------------------------------------------------ *)

(* for every benign stream the status and the buffer are the one-shot ones *)
Theorem read_at_chunk_free : forall f off size outs,
  benign outs ->
  exists t rest, read_at f off size outs = (read_at_result f off size, t, rest)
                 /\ benign rest /\ (outs = [] -> rest = []).
Proof. exact read_at_spec. Qed.
Print Assumptions read_at_chunk_free.

(* ... and the one-shot result is the requested range, or OUT_OF_BOUNDS when it is not inside the file *)
Theorem read_at_result_is : forall f off size,
  (size = 0 \/ off + size <= lenN (f_content f) ->
     read_at_result f off size = Ok (takeN size (dropN off (f_content f)))) /\
  (0 < size -> lenN (f_content f) < off + size -> read_at_result f off size = Err e_oob).
Proof. exact read_at_result_char. Qed.
Print Assumptions read_at_result_is.

(* every stream: at most size + #EINTR (+1 to find the end) calls; a failed call is an error;
   a success delivered exactly the requested range *)
Theorem read_at_every_stream : forall f off size outs r t rest,
  read_at f off size outs = (r, t, rest) ->
  lenN t <= size + eintr_count t + 1 /\
  (is_err r = false -> lenN t <= size + eintr_count t) /\
  (has_failed t = true -> is_err r = true) /\
  (forall b, r = Ok b -> b = takeN size (dropN off (f_content f)) /\ lenN b = size).
Proof. exact read_at_any. Qed.
Print Assumptions read_at_every_stream.

Theorem write_at_chunk_free : forall f off data outs,
  benign outs ->
  exists t rest, write_at f off data outs = (Ok tt, write_at_state f off data, t, rest)
                 /\ benign rest /\ (outs = [] -> rest = []).
Proof. exact write_at_spec. Qed.
Print Assumptions write_at_chunk_free.

(* the file model: consecutive pwrites of a loop are one pwrite of the concatenation *)
Theorem pwrite_pieces_compose : forall c off a b,
  0 < lenN a ->
  pwrite_content (pwrite_content c off a) (off + lenN a) b = pwrite_content c off (a ++ b).
Proof. exact pwrite_content_app. Qed.
Print Assumptions pwrite_pieces_compose.

(* every stream: at most size + #EINTR calls; a failed / zero call is an error and leaves the
   recorded size alone; the file has received a prefix of the data, all of it on success *)
Theorem write_at_every_stream : forall f off data outs r f' t rest,
  write_at f off data outs = (r, f', t, rest) ->
  lenN t <= lenN data + eintr_count t /\
  (has_failed t = true -> is_err r = true) /\
  (exists wr s, data = wr ++ s /\ f_content f' = apply_written (f_content f) off wr /\
                (r = Ok tt -> s = [])) /\
  (is_err r = true -> f_size f' = f_size f).
Proof. exact write_at_any. Qed.
Print Assumptions write_at_every_stream.

Theorem truncate_chunk_free : forall f len outs,
  benign outs ->
  exists t rest, truncate_file f len outs = (Ok tt, truncate_state f len, t, rest)
                 /\ benign rest /\ (outs = [] -> rest = []).
Proof. exact truncate_file_spec. Qed.
Print Assumptions truncate_chunk_free.

Theorem ftruncate_every_stream : forall len outs r t rest,
  ftruncate_loop len outs = (r, t, rest) ->
  (existsb (fun x => match snd x with Fail => true | _ => false end) t = true -> is_err r = true) /\
  lenN t <= 1 + eintr_count t.
Proof. exact ftruncate_loop_any. Qed.
Print Assumptions ftruncate_every_stream.

(* ------------------------------------------------------------------ *)
(* ostream.c                                                            *)
(* ------------------------------------------------------------------ *)

Theorem write_all_chunk_free : forall outs data,
  benign outs ->
  exists t rest, write_all data outs = (Ok tt, data, t, rest) /\ benign rest /\ (outs = [] -> rest = []).
Proof. exact write_all_spec. Qed.
Print Assumptions write_all_chunk_free.

Theorem write_all_every_stream : forall outs data r wr t rest,
  write_all data outs = (r, wr, t, rest) ->
  (exists s, data = wr ++ s) /\
  (has_failed t = true -> is_err r = true) /\
  (r = Ok tt -> wr = data) /\
  lenN t <= lenN data + eintr_count t.
Proof. exact write_all_any. Qed.
Print Assumptions write_all_every_stream.

(* append (data or hole) and flush: holes become zeros, whichever way they are realised and
   however the writes are split; zchunk is the 1024 of realize_sparse, any positive value *)
Theorem ostream_append_chunk_free : forall zchunk o data n outs,
  0 < zchunk -> benign outs ->
  exists t rest, ostream_append zchunk o data n outs = (Ok tt, append_state o data n, t, rest)
                 /\ benign rest /\ (outs = [] -> rest = []).
Proof. exact ostream_append_spec. Qed.
Print Assumptions ostream_append_chunk_free.

Theorem ostream_flush_chunk_free : forall zchunk o outs,
  0 < zchunk -> benign outs ->
  exists t rest, ostream_flush zchunk o outs = (Ok tt, realized o, t, rest)
                 /\ benign rest /\ (outs = [] -> rest = []).
Proof. exact realize_sparse_spec. Qed.
Print Assumptions ostream_flush_chunk_free.

Theorem ostream_content_flag_independent : forall c s d n b1 b2,
  o_content (append_state {| o_content := c; o_sparse := s; o_nosparse := b1 |} d n)
  = o_content (append_state {| o_content := c; o_sparse := s; o_nosparse := b2 |} d n).
Proof. exact append_state_flag_independent. Qed.
Print Assumptions ostream_content_flag_independent.

(* ------------------------------------------------------------------ *)
(* istream.c                                                            *)
(* ------------------------------------------------------------------ *)

(* the refill loop is a function of the source alone *)
Theorem precache_refill_chunk_free : forall bufsz outs used src,
  benign outs ->
  exists t rest,
    refill bufsz used src outs
      = (Ok tt, takeN (bufsz - used) src, lenN src <? bufsz - used, dropN (bufsz - used) src, t, rest)
    /\ benign rest /\ (outs = [] -> rest = []).
Proof. exact refill_spec. Qed.
Print Assumptions precache_refill_chunk_free.

Theorem get_buffered_data_chunk_free : forall bufsz st src want,
  chunk_free (get_buffered_data bufsz st src want).
Proof. exact gbd_chunk_free. Qed.
Print Assumptions get_buffered_data_chunk_free.

(* every stream, failures included: nothing is lost, duplicated or reordered, at most
   room + #EINTR + 1 calls, an error iff a call failed, eof only once the kernel said so *)
Theorem refill_every_stream : forall bufsz outs used src r g e s t rest,
  refill bufsz used src outs = (r, g, e, s, t, rest) ->
  src = g ++ s /\
  used + lenN g <= N.max used bufsz /\
  (has_fail t = is_err r) /\
  (has_zero t = false -> e = true -> s = []) /\
  (e = false -> is_err r = false -> bufsz <= used + lenN g) /\
  (is_err r = true -> e = false /\ r = Err e_io) /\
  lenN t <= (bufsz - used) + eintr_count t + 1 /\
  (benign outs -> trace_benign t /\ benign rest).
Proof. exact refill_any. Qed.
Print Assumptions refill_every_stream.

(* get_buffered_data for every stream: the unconsumed bytes (window ++ rest of the descriptor)
   never change; a data window is never empty; GErr iff a call failed; GEof only with an empty
   window and the eof flag set -- hence (eof_ok) never before the last byte was delivered *)
Theorem istream_every_stream : forall bufsz st src want outs g st' src' t rest,
  0 < bufsz -> wf bufsz st ->
  get_buffered_data bufsz st src want outs = (g, st', src', t, rest) ->
  wf bufsz st' /\ pending st' src' = pending st src /\
  (eof_ok st src -> has_zero t = false -> eof_ok st' src') /\
  (benign outs -> trace_benign t /\ benign rest) /\
  match g with
  | GData w => w = window st' /\ w <> [] /\ has_fail t = false
  | GEof => window st' = [] /\ i_eof st' = true /\ has_fail t = false
  | GErr e => e = e_io /\ has_fail t = true
  end.
Proof. exact gbd_any. Qed.
Print Assumptions istream_every_stream.

Theorem advance_buffer_consumes : forall bufsz st src n,
  wf bufsz st ->
  wf bufsz (advance_buffer st n) /\
  pending (advance_buffer st n) src = dropN (N.min n (lenN (window st))) (pending st src) /\
  window (advance_buffer st n) = dropN n (window st) /\
  i_eof (advance_buffer st n) = i_eof st.
Proof. exact advance_any. Qed.
Print Assumptions advance_buffer_consumes.

(* ------------------------------------------------------------------ *)
(* every process: any deterministic program that reaches the kernel     *)
(* only through these objects computes the same result, leaves the      *)
(* same streams and the same file, under every benign outcome stream    *)
(* ------------------------------------------------------------------ *)

Theorem istream_chunk_free : forall bufsz zchunk,
  0 < zchunk ->
  forall (R : Type) (c : client R) (w : world), chunk_free (run bufsz zchunk c w).
Proof. exact run_chunk_free. Qed.
Print Assumptions istream_chunk_free.

(* instance: any list of read / skip / splice / get_line / record_to_memory / header / raw
   get+advance / append / flush / read_at / write_at / truncate operations *)
Theorem op_list_chunk_free : forall bufsz zchunk fuel,
  0 < zchunk ->
  forall ops w outs, benign outs ->
  exists xs xs0 w' rest,
    run_ops bufsz zchunk fuel ops w outs = (xs, w', rest) /\
    run_ops bufsz zchunk fuel ops w [] = (xs0, w', []) /\
    map fst xs = map fst xs0 /\ benign rest.
Proof. exact run_ops_chunk_free. Qed.
Print Assumptions op_list_chunk_free.

(* ------------------------------------------------------------------ *)
(* stream_api.c: sqfs_istream_read                                      *)
(* ------------------------------------------------------------------ *)

(* every stream: the bytes returned are exactly the next unconsumed bytes; a short count means
   the stream is at its end (window empty, eof flag set); an error iff a call failed; the fuel of
   the model suffices as soon as it is >= the bytes delivered *)
Theorem istream_read_every_stream : forall bufsz zchunk,
  0 < bufsz -> forall fuel size acc w outs r w' t rest,
  wf bufsz (w_in w) ->
  run bufsz zchunk (read_c fuel size acc) w outs = (r, w', t, rest) ->
  wf bufsz (w_in w') /\ w_out w' = w_out w /\ w_file w' = w_file w /\
  (eof_ok (w_in w) (w_src w) -> has_zero t = false -> eof_ok (w_in w') (w_src w')) /\
  (benign outs -> trace_benign t /\ benign rest) /\
  (exists got,
     pending (w_in w) (w_src w) = got ++ pending (w_in w') (w_src w') /\ lenN got <= size /\
     match r with
     | RRet n d => n = lenN d /\ d = acc ++ got /\ has_fail t = false /\
                   (lenN got < size -> window (w_in w') = [] /\ i_eof (w_in w') = true)
     | RErr e => e = e_io /\ has_fail t = true
     | RFuel => N.of_nat fuel <= lenN got /\ lenN got < size
     end).
Proof. exact read_c_any. Qed.
Print Assumptions istream_read_every_stream.

(* benign streams: sqfs_istream_read returns min(size, 2^31-1, what is left) bytes, the next ones *)
Theorem istream_read_contract : forall bufsz zchunk fuel size w outs r w' t rest,
  0 < bufsz -> wf bufsz (w_in w) -> eof_ok (w_in w) (w_src w) -> benign outs ->
  clamp32 size <= N.of_nat fuel ->
  run bufsz zchunk (istream_read fuel size) w outs = (r, w', t, rest) ->
  let P := pending (w_in w) (w_src w) in
  r = RRet (lenN (takeN (clamp32 size) P)) (takeN (clamp32 size) P) /\
  pending (w_in w') (w_src w') = dropN (clamp32 size) P /\
  wf bufsz (w_in w') /\ eof_ok (w_in w') (w_src w') /\ benign rest.
Proof. exact istream_read_spec. Qed.
Print Assumptions istream_read_contract.

(* sqfs_istream_skip, every stream: same shape as read (the skipped bytes are [got]) *)
Theorem istream_skip_every_stream : forall bufsz zchunk,
  0 < bufsz -> forall fuel size w outs r w' t rest,
  wf bufsz (w_in w) ->
  run bufsz zchunk (skip_c fuel size) w outs = (r, w', t, rest) ->
  wf bufsz (w_in w') /\ w_out w' = w_out w /\ w_file w' = w_file w /\
  (eof_ok (w_in w) (w_src w) -> has_zero t = false -> eof_ok (w_in w') (w_src w')) /\
  (benign outs -> trace_benign t /\ benign rest) /\
  (exists got,
     pending (w_in w) (w_src w) = got ++ pending (w_in w') (w_src w') /\ lenN got <= size /\
     match r with
     | RRet n d => n = 0 /\ d = [] /\ has_fail t = false /\
                   (lenN got < size -> window (w_in w') = [] /\ i_eof (w_in w') = true)
     | RErr e => e = e_io /\ has_fail t = true
     | RFuel => N.of_nat fuel <= lenN got /\ lenN got < size
     end).
Proof. exact skip_c_any. Qed.
Print Assumptions istream_skip_every_stream.

Theorem istream_skip_contract : forall bufsz zchunk fuel size w outs r w' t rest,
  0 < bufsz -> wf bufsz (w_in w) -> eof_ok (w_in w) (w_src w) -> benign outs ->
  size <= N.of_nat fuel ->
  run bufsz zchunk (skip_c fuel size) w outs = (r, w', t, rest) ->
  r = RRet 0 [] /\
  pending (w_in w') (w_src w') = dropN size (pending (w_in w) (w_src w)) /\
  wf bufsz (w_in w') /\ eof_ok (w_in w') (w_src w') /\ benign rest /\
  w_out w' = w_out w /\ w_file w' = w_file w.
Proof. exact istream_skip_spec. Qed.
Print Assumptions istream_skip_contract.

(* ------------------------------------------------------------------ *)
(* get_line.c: istream_get_line = the byte-at-a-time automaton spec_gl  *)
(* on the unsplit input (lines spanning refills, CR before LF, blank-   *)
(* line skipping, last line without terminator), for every benign stream *)
(* ------------------------------------------------------------------ *)

Theorem get_line_chunk_free : forall bufsz zchunk flags,
  0 < bufsz ->
  forall fuel line skipped w outs r w' t rest,
  wf bufsz (w_in w) -> eof_ok (w_in w) (w_src w) -> benign outs ->
  lenN (pending (w_in w) (w_src w)) < N.of_nat fuel ->
  run bufsz zchunk (get_line_c fuel flags line skipped) w outs = (r, w', t, rest) ->
  (r, pending (w_in w') (w_src w')) = spec_gl flags line skipped (pending (w_in w) (w_src w)) /\
  wf bufsz (w_in w') /\ eof_ok (w_in w') (w_src w') /\ benign rest /\
  w_out w' = w_out w /\ w_file w' = w_file w.
Proof. exact get_line_spec. Qed.
Print Assumptions get_line_chunk_free.

(* sqfs_istream_splice: exactly the next min(size, 2^31-1, what is left) bytes move from the
   input stream to the output stream, in order, whatever the splitting of reads and writes *)
Theorem splice_total : forall bufsz zchunk fuel size w outs r w' t rest,
  0 < bufsz -> 0 < zchunk ->
  wf bufsz (w_in w) -> eof_ok (w_in w) (w_src w) -> benign outs ->
  clamp32 size <= N.of_nat fuel ->
  run bufsz zchunk (istream_splice fuel size) w outs = (r, w', t, rest) ->
  let P := pending (w_in w) (w_src w) in
  r = RRet (lenN (takeN (clamp32 size) P)) [] /\
  pending (w_in w') (w_src w') = dropN (clamp32 size) P /\
  w_out w' = append_data (w_out w) (takeN (clamp32 size) P) /\
  wf bufsz (w_in w') /\ eof_ok (w_in w') (w_src w') /\ benign rest /\ w_file w' = w_file w.
Proof. exact istream_splice_spec. Qed.
Print Assumptions splice_total.

(* ------------------------------------------------------------------ *)
(* tar: header read and record_to_memory see the unsplit bytes          *)
(* ------------------------------------------------------------------ *)

Theorem tar_header_chunk_free : forall bufsz zchunk fuel w outs r w' t rest,
  0 < bufsz -> wf bufsz (w_in w) -> eof_ok (w_in w) (w_src w) -> benign outs ->
  sizeof_tar_header_t <= N.of_nat fuel ->
  run bufsz zchunk (header_read fuel) w outs = (r, w', t, rest) ->
  let P := pending (w_in w) (w_src w) in
  r = (if lenN P <? sizeof_tar_header_t then TShort else TData (takeN sizeof_tar_header_t P)) /\
  pending (w_in w') (w_src w') = dropN sizeof_tar_header_t P /\
  wf bufsz (w_in w') /\ eof_ok (w_in w') (w_src w') /\ benign rest.
Proof. exact header_read_spec. Qed.
Print Assumptions tar_header_chunk_free.

Theorem tar_record_chunk_free : forall bufsz zchunk fuel size w outs r w' t rest,
  0 < bufsz -> wf bufsz (w_in w) -> eof_ok (w_in w) (w_src w) -> benign outs ->
  size <= s32_max -> size + tar_rec <= N.of_nat fuel ->
  run bufsz zchunk (record_to_memory fuel size) w outs = (r, w', t, rest) ->
  let P := pending (w_in w) (w_src w) in
  r = (if lenN P <? size then TShort else TData (takeN size P)) /\
  pending (w_in w') (w_src w') = (if lenN P <? size then [] else dropN (size + record_pad size) P) /\
  wf bufsz (w_in w') /\ eof_ok (w_in w') (w_src w') /\ benign rest.
Proof. exact record_to_memory_spec. Qed.
Print Assumptions tar_record_chunk_free.

(* ------------------------------------------------------------------ *)
(* non-vacuity: concrete streams, small BUFSZ so that refills happen    *)
(* ------------------------------------------------------------------ *)

Definition ex_src : list N := [1;2;3;4;5;6;7;8;9;10;11].
Definition ex_world : world :=
  {| w_in := istate_init; w_src := ex_src;
     w_out := {| o_content := []; o_sparse := 0; o_nosparse := true |};
     w_file := {| f_content := [20;21;22;23;24]; f_size := 5 |} |}.
Definition ex_outs : list outcome := [Xfer 1; Eintr; Eintr; Xfer 2; Xfer 0; Eintr; Xfer 3; Xfer 1; Xfer 9].

Example ex_benign : benign ex_outs.
Proof. repeat constructor. Qed.

(* BUFSZ = 4: reading 6 of 11 bytes needs two refills; chunked = unsplit, 8 calls instead of 2 *)
Example ex_read_chunked :
  let '(r, w', t, _) := run 4 1024 (istream_read 10 6) ex_world ex_outs in
  (r, pending (w_in w') (w_src w'), lenN t) = (RRet 6 [1;2;3;4;5;6], [7;8;9;10;11], 8).
Proof. vm_compute. reflexivity. Qed.
Example ex_read_unsplit :
  let '(r, w', t, _) := run 4 1024 (istream_read 10 6) ex_world [] in
  (r, pending (w_in w') (w_src w'), lenN t) = (RRet 6 [1;2;3;4;5;6], [7;8;9;10;11], 2).
Proof. vm_compute. reflexivity. Qed.

(* a failing read is an error, not end-of-stream, and loses nothing *)
Example ex_read_fail :
  let '(r, w', _, _) := run 4 1024 (istream_read 10 6) ex_world [Xfer 2; Fail] in
  (r, pending (w_in w') (w_src w')) = (RErr e_io, ex_src).
Proof. vm_compute. reflexivity. Qed.

(* get_line across refills, CRLF, skipping blank lines: "ab\r\n\n  \ncd" with BUFSZ 3 *)
Example ex_get_line :
  let w := {| w_in := istate_init; w_src := [97;98;13;10;10;32;32;10;99;100];
              w_out := w_out ex_world; w_file := w_file ex_world |} in
  let '(xs, _, _) := run_ops 3 1024 20 [OpLine 7; OpLine 7; OpLine 7] w [Xfer 1; Eintr; Xfer 1; Xfer 2; Xfer 1] in
  map fst xs = [XL (LLine [97;98] 0); XL (LLine [99;100] 2); XL (LEof 0)].
Proof. vm_compute. reflexivity. Qed.

Example ex_spec_gl :
  spec_gl 7 [] 0 [97;98;13;10;10;32;32;10;99;100] = (LLine [97;98] 0, [10;32;32;10;99;100]) /\
  spec_gl 7 [] 0 [10;32;32;10;99;100] = (LLine [99;100] 2, []).
Proof. vm_compute. split; reflexivity. Qed.

(* splice 7 of 11 bytes with BUFSZ 4 into a NO_SPARSE stream with a pending 2-byte hole *)
Example ex_splice :
  let w := {| w_in := istate_init; w_src := ex_src;
              w_out := {| o_content := [5]; o_sparse := 2; o_nosparse := true |}; w_file := w_file ex_world |} in
  let '(r, w', _, _) := run 4 1024 (istream_splice 10 7) w [Xfer 3; Eintr; Xfer 1; Xfer 1; Eintr; Xfer 2] in
  (r, o_content (w_out w'), pending (w_in w') (w_src w')) = (RRet 7 [], [5;0;0;1;2;3;4;5;6;7], [8;9;10;11]).
Proof. vm_compute. reflexivity. Qed.

(* record_to_memory: 3 bytes + padding to 512 on a short stream -> data, then end of stream *)
Example ex_record :
  let '(xs, _, _) := run_ops 4 1024 20 [OpRecord 3; OpRead 5] ex_world [Xfer 2; Eintr; Xfer 1] in
  map fst xs = [XT (TData [1;2;3]); XR (RRet 0 [])].
Proof. vm_compute. reflexivity. Qed.

(* pread / pwrite with short counts; reading past the end is OUT_OF_BOUNDS whatever the chunking *)
Example ex_file :
  let '(xs, w', _) :=
    run_ops 4 1024 20 [OpWriteAt 7 [1;2;3]; OpReadAt 3 6; OpReadAt 8 3; OpTrunc 2; OpFSize] ex_world
            [Xfer 1; Eintr; Xfer 1; Xfer 1; Xfer 2; Eintr; Xfer 9] in
  (map fst xs, f_content (w_file w')) =
  ([XU (Ok tt); XD (Ok [23;24;0;0;1;2]); XD (Err e_oob); XU (Ok tt); XN 2], [20;21]).
Proof. vm_compute. reflexivity. Qed.

(* holes: 5 zero bytes written through write_all in pieces (NO_SPARSE, chunk 2), then data *)
Example ex_sparse :
  let '(xs, w', t) :=
    run_ops 4 2 20 [OpHole 5; OpPut [9]; OpFlush] ex_world [Xfer 1; Eintr; Xfer 1; Xfer 5] in
  (map fst xs, o_content (w_out w')) = ([XU (Ok tt); XU (Ok tt); XU (Ok tt)], [0;0;0;0;0;9]).
Proof. vm_compute. reflexivity. Qed.

(* a 0-byte write is an error (EPIPE path of write_all), never a silent success *)
Example ex_write_zero :
  let '(xs, w', _) := run_ops 4 1024 20 [OpPut [1;2;3]] ex_world [Xfer 1; Zero] in
  (map fst xs, o_content (w_out w')) = ([XU (Err e_io)], [1]).
Proof. vm_compute. reflexivity. Qed.

(* the hypotheses of the every-stream theorems hold initially *)
Example ex_wf : wf 4 (w_in ex_world) /\ eof_ok (w_in ex_world) (w_src ex_world).
Proof. split; [apply wf_init|apply eof_ok_init]. Qed.

(* ---- non-vacuity of tar_record_chunk_free / tar_header_chunk_free: ALL hypotheses on one instance (found missing by an
   independent audit: ex_record above runs with fuel 20 < size + tar_rec) ---- *)
(* ex_record in Properties_C12 runs with fuel 20, which does NOT meet the hypothesis
   size + tar_rec <= fuel of tar_record_chunk_free; here all hypotheses hold *)
Example ex_record_hyps :
  0 < 4 /\ wf 4 (w_in ex_world) /\ eof_ok (w_in ex_world) (w_src ex_world) /\ benign ex_outs /\
  3 <= s32_max /\ 3 + tar_rec <= N.of_nat 600 /\
  let '(r, w', t, rest) := run 4 1024 (record_to_memory 600 3) ex_world ex_outs in
  (r, pending (w_in w') (w_src w')) = (TData [1;2;3], []).
Proof.
  split; [reflexivity|]. split; [apply wf_init|]. split; [apply eof_ok_init|]. split; [exact ex_benign|].
  split; [vm_compute; discriminate|]. split; [vm_compute; discriminate|]. vm_compute. reflexivity.
Qed.

(* tar_header_chunk_free has no example at all: 520 bytes of input, BUFSZ 64, chunked reads *)
Definition big_src : list N := map N.of_nat (seq 0 520).
Definition big_world : world :=
  {| w_in := istate_init; w_src := big_src; w_out := w_out ex_world; w_file := w_file ex_world |}.
Example ex_header_hyps :
  0 < 64 /\ wf 64 (w_in big_world) /\ eof_ok (w_in big_world) (w_src big_world) /\ benign ex_outs /\
  sizeof_tar_header_t <= N.of_nat 600 /\
  let '(r, w', t, rest) := run 64 1024 (header_read 600) big_world ex_outs in
  r = TData (takeN sizeof_tar_header_t big_src) /\
  pending (w_in w') (w_src w') = dropN sizeof_tar_header_t big_src /\
  lenN (pending (w_in w') (w_src w')) = 8.
Proof.
  split; [reflexivity|]. split; [apply wf_init|]. split; [apply eof_ok_init|]. split; [exact ex_benign|].
  split; [vm_compute; discriminate|]. vm_compute. repeat split; reflexivity.
Qed.

(* ================================================================== *)
(* Extension (session 3): EAGAIN -- errno in the kernel outcome stream  *)
(* ================================================================== *)
(* C12/Eagain.v: the kernel answers KXfer n | KZero | KErrno e (Eagain = KErrno 11, EINTR = KErrno 4).
   The five call sites are re-modelled over this stream with the C code's only errno test
   ( if (errno == EINTR) continue; return SQFS_ERROR_IO; ) written out, and proved equal to the
   IoModel loops on the classified stream; run_k = run on the classified stream.  Every theorem
   above that is stated "for every stream" therefore holds for every errno-carrying stream; the
   theorems below add the operations that had only benign-stream contracts so far. *)
From SqfsV Require Import C12.Eagain C12.FailStop C12.FailStopOut.

(* (1) the five loops over the errno-carrying stream are the IoModel loops on [map classify ks] *)
Theorem refill_errno_stream : forall bufsz ks used src,
  refill bufsz used src (map classify ks) =
  let '(r, g, e, s, t, rest) := refill_k bufsz used src ks in (r, g, e, s, t, map classify rest).
Proof. exact refill_k_sim. Qed.
Print Assumptions refill_errno_stream.

Theorem write_all_errno_stream : forall ks data,
  write_all data (map classify ks) =
  let '(r, wr, t, rest) := write_all_k data ks in (r, wr, t, map classify rest).
Proof. exact write_all_k_sim. Qed.
Print Assumptions write_all_errno_stream.

Theorem read_at_errno_stream : forall content ks off size,
  read_at_loop content off size (map classify ks) =
  let '(r, g, t, rest) := read_at_loop_k content off size ks in (r, g, t, map classify rest).
Proof. exact read_at_loop_k_sim. Qed.
Print Assumptions read_at_errno_stream.

Theorem write_at_errno_stream : forall ks off data,
  write_at_loop off data (map classify ks) =
  let '(r, wr, t, rest) := write_at_loop_k off data ks in (r, wr, t, map classify rest).
Proof. exact write_at_loop_k_sim. Qed.
Print Assumptions write_at_errno_stream.

Theorem ftruncate_errno_stream : forall len ks,
  ftruncate_loop len (map classify ks) =
  let '(r, t, rest) := ftruncate_loop_k len ks in (r, t, map classify rest).
Proof. exact ftruncate_loop_k_sim. Qed.
Print Assumptions ftruncate_errno_stream.

(* (2) a would-block is not end-of-file: read() answering -1/EAGAIN (any errno but EINTR) makes
   precache return SQFS_ERROR_IO with the eof flag clear and the buffer untouched; read()
   answering 0 is success with the eof flag set.  Same split for write/pread/pwrite. *)
Theorem read_would_block_is_error : forall bufsz used src e ks,
  used < bufsz -> hard (KErrno e) = true ->
  refill_k bufsz used src (KErrno e :: ks) = (Err e_io, [], false, src, [(KRead, bufsz - used, 0, Fail)], ks).
Proof. exact refill_k_hard. Qed.
Print Assumptions read_would_block_is_error.

Theorem read_zero_is_eof : forall bufsz used src ks,
  used < bufsz ->
  refill_k bufsz used src (KZero :: ks) = (Ok tt, [], true, src, [(KRead, bufsz - used, 0, Zero)], ks).
Proof. exact refill_k_zero. Qed.
Print Assumptions read_zero_is_eof.

Theorem write_would_block_is_error : forall data e ks,
  0 < lenN data -> hard (KErrno e) = true ->
  write_all_k data (KErrno e :: ks) = (Err e_io, [], [(KWrite, lenN data, 0, Fail)], ks).
Proof. exact write_all_k_hard. Qed.
Print Assumptions write_would_block_is_error.

Theorem pread_would_block_is_error : forall content off size e ks,
  0 < size -> hard (KErrno e) = true ->
  read_at_loop_k content off size (KErrno e :: ks) = (Err e_io, [], [(KPread, size, off, Fail)], ks).
Proof. exact read_at_loop_k_hard. Qed.
Print Assumptions pread_would_block_is_error.

Theorem pwrite_would_block_is_error : forall off data e ks,
  0 < lenN data -> hard (KErrno e) = true ->
  write_at_loop_k off data (KErrno e :: ks) = (Err e_io, [], [(KPwrite, lenN data, off, Fail)], ks).
Proof. exact write_at_loop_k_hard. Qed.
Print Assumptions pwrite_would_block_is_error.

Example ex_eagain_hard : hard Eagain = true /\ classify Eagain = Fail /\ classify (KErrno c_EINTR) = Eintr /\
                         classify KZero = Zero.
Proof. repeat split. Qed.

(* (3) the output side on every stream: success = everything delivered, failed call = error *)
Theorem realize_sparse_every_stream : forall zchunk o outs r o' t rest,
  0 < zchunk -> realize_sparse zchunk o outs = (r, o', t, rest) ->
  (r = Ok tt -> o' = realized o) /\ (has_fail t = true -> is_err r = true).
Proof. exact realize_sparse_any. Qed.
Print Assumptions realize_sparse_every_stream.

Theorem ostream_append_every_stream : forall zchunk o data n outs r o' t rest,
  0 < zchunk -> ostream_append zchunk o data n outs = (r, o', t, rest) ->
  (r = Ok tt -> o' = append_state o data n) /\ (has_fail t = true -> is_err r = true).
Proof. exact ostream_append_any. Qed.
Print Assumptions ostream_append_every_stream.

Theorem ostream_flush_every_stream : forall zchunk o outs r o' t rest,
  0 < zchunk -> ostream_flush zchunk o outs = (r, o', t, rest) ->
  (r = Ok tt -> o' = realized o) /\ (has_fail t = true -> is_err r = true).
Proof. exact ostream_flush_any. Qed.
Print Assumptions ostream_flush_every_stream.

(* sqfs_istream_splice, every stream: a success moved exactly the bytes taken off the input to the
   output stream and stopped short only at the real end; no byte is lost on an error either *)
Theorem splice_every_stream : forall bufsz zchunk, 0 < bufsz -> 0 < zchunk ->
  forall fuel size total w outs r w' t rest,
  wf bufsz (w_in w) -> size <= N.of_nat fuel ->
  run bufsz zchunk (splice_c fuel size total) w outs = (r, w', t, rest) ->
  wf bufsz (w_in w') /\ w_file w' = w_file w /\
  (eof_ok (w_in w) (w_src w) -> has_zero t = false -> eof_ok (w_in w') (w_src w')) /\
  exists got,
    pending (w_in w) (w_src w) = got ++ pending (w_in w') (w_src w') /\ lenN got <= size /\
    match r with
    | RRet n d => d = [] /\ n = total + lenN got /\ has_fail t = false /\
                  w_out w' = append_data (w_out w) got /\
                  (lenN got < size -> window (w_in w') = [] /\ i_eof (w_in w') = true)
    | RErr e => True
    | RFuel => False
    end.
Proof. exact splice_any. Qed.
Print Assumptions splice_every_stream.

(* (4) the istream consumers on every stream *)
Theorem get_line_every_stream : forall bufsz zchunk flags, 0 < bufsz ->
  forall fuel line skipped w outs r w' t rest,
  wf bufsz (w_in w) ->
  lenN (pending (w_in w) (w_src w)) < N.of_nat fuel ->
  run bufsz zchunk (get_line_c fuel flags line skipped) w outs = (r, w', t, rest) ->
  wf bufsz (w_in w') /\ w_out w' = w_out w /\ w_file w' = w_file w /\
  match r with
  | LErr e => e = e_io /\ has_fail t = true
  | _ => has_fail t = false /\
         (eof_ok (w_in w) (w_src w) -> has_zero t = false ->
          (r, pending (w_in w') (w_src w')) = spec_gl flags line skipped (pending (w_in w) (w_src w)) /\
          eof_ok (w_in w') (w_src w'))
  end.
Proof. exact get_line_any. Qed.
Print Assumptions get_line_every_stream.

Theorem tar_header_every_stream : forall bufsz zchunk fuel w outs r w' t rest,
  0 < bufsz -> wf bufsz (w_in w) -> sizeof_tar_header_t <= N.of_nat fuel ->
  run bufsz zchunk (header_read fuel) w outs = (r, w', t, rest) ->
  let P := pending (w_in w) (w_src w) in
  wf bufsz (w_in w') /\
  match r with
  | TErr e => e = e_io /\ has_fail t = true
  | TData d => has_fail t = false /\ d = takeN sizeof_tar_header_t P /\ lenN d = sizeof_tar_header_t /\
               pending (w_in w') (w_src w') = dropN sizeof_tar_header_t P
  | TShort => has_fail t = false /\
              (eof_ok (w_in w) (w_src w) -> has_zero t = false ->
               lenN P < sizeof_tar_header_t /\ pending (w_in w') (w_src w') = [])
  | TFuel => False
  end.
Proof. exact header_read_any. Qed.
Print Assumptions tar_header_every_stream.

Theorem tar_record_every_stream : forall bufsz zchunk fuel size w outs r w' t rest,
  0 < bufsz -> wf bufsz (w_in w) -> size <= s32_max -> size + tar_rec <= N.of_nat fuel ->
  run bufsz zchunk (record_to_memory fuel size) w outs = (r, w', t, rest) ->
  let P := pending (w_in w) (w_src w) in
  wf bufsz (w_in w') /\
  match r with
  | TErr e => e = e_io /\ has_fail t = true
  | TData d => has_fail t = false /\ d = takeN size P /\ lenN d = size
  | TShort => has_fail t = false /\
              (eof_ok (w_in w) (w_src w) -> has_zero t = false -> lenN P < size)
  | TFuel => False
  end.
Proof. exact record_to_memory_any. Qed.
Print Assumptions tar_record_every_stream.

(* (5) end to end over the errno-carrying stream: EITHER the result of the one-shot run OR an
   error -- never end-of-file / "end of archive" / a short record as a success on a would-block *)
Theorem get_line_no_silent_truncation : forall bufsz zchunk flags fuel w ks r w' t rest,
  0 < bufsz -> wf bufsz (w_in w) -> eof_ok (w_in w) (w_src w) ->
  lenN (pending (w_in w) (w_src w)) < N.of_nat fuel ->
  run_k bufsz zchunk (istream_get_line fuel flags) w ks = (r, w', t, rest) ->
  (r = LErr e_io /\ has_fail t = true) \/
  (has_fail t = false /\
   (has_zero t = false ->
    (r, pending (w_in w') (w_src w')) = spec_gl flags [] 0 (pending (w_in w) (w_src w)))).
Proof. exact get_line_either. Qed.
Print Assumptions get_line_no_silent_truncation.

Theorem tar_header_no_silent_truncation : forall bufsz zchunk fuel w ks r w' t rest,
  0 < bufsz -> wf bufsz (w_in w) -> eof_ok (w_in w) (w_src w) ->
  sizeof_tar_header_t <= N.of_nat fuel ->
  run_k bufsz zchunk (header_read fuel) w ks = (r, w', t, rest) ->
  let P := pending (w_in w) (w_src w) in
  (r = TErr e_io /\ has_fail t = true) \/
  (has_fail t = false /\
   (has_zero t = false ->
    r = if lenN P <? sizeof_tar_header_t then TShort else TData (takeN sizeof_tar_header_t P))).
Proof. exact header_read_either. Qed.
Print Assumptions tar_header_no_silent_truncation.

Theorem tar_record_no_silent_truncation : forall bufsz zchunk fuel size w ks r w' t rest,
  0 < bufsz -> wf bufsz (w_in w) -> eof_ok (w_in w) (w_src w) ->
  size <= s32_max -> size + tar_rec <= N.of_nat fuel ->
  run_k bufsz zchunk (record_to_memory fuel size) w ks = (r, w', t, rest) ->
  let P := pending (w_in w) (w_src w) in
  (r = TErr e_io /\ has_fail t = true) \/
  (has_fail t = false /\
   (has_zero t = false -> r = if lenN P <? size then TShort else TData (takeN size P))).
Proof. exact record_to_memory_either. Qed.
Print Assumptions tar_record_no_silent_truncation.

(* ---- concrete streams with an Eagain in the middle (hypotheses of (5) hold: ex_wf, fuel 600) ---- *)
Definition ex_text_world : world :=
  {| w_in := istate_init; w_src := [104;105;10;120;121;122;10]; w_out := w_out ex_world; w_file := w_file ex_world |}.
Definition ex_ks_eagain : list kout := [KXfer 1; KErrno c_EINTR; KXfer 1; Eagain; KXfer 9].
Definition ex_ks_zero : list kout := [KXfer 1; KErrno c_EINTR; KXfer 1; KZero; KXfer 9].
Definition ex_ks_ok : list kout := [KXfer 1; KErrno c_EINTR; KXfer 1; KXfer 2; KXfer 9].

(* BUFSZ 4: the refill loop reads "h", is interrupted, reads "i", then the kernel says EAGAIN:
   get_line is an error; the trace shows the failed call; nothing was consumed from the line *)
Example ex_get_line_eagain :
  let '(r, w', t, _) := run_k 4 1024 (istream_get_line 600 0) ex_text_world ex_ks_eagain in
  r = LErr e_io /\ has_fail t = true /\ lenN t = 4 /\
  pending (w_in w') (w_src w') = [104;105;10;120;121;122;10].
Proof. vm_compute. repeat split; reflexivity. Qed.

(* the same stream with a 0 result instead: the model (as the code) takes it for end-of-file *)
Example ex_get_line_zero :
  let '(r, _, t, _) := run_k 4 1024 (istream_get_line 600 0) ex_text_world ex_ks_zero in
  r = LLine [104;105] 0 /\ has_fail t = false /\ has_zero t = true.
Proof. vm_compute. repeat split; reflexivity. Qed.

(* and with a transfer: the one-shot line *)
Example ex_get_line_ok :
  let '(r, w', t, _) := run_k 4 1024 (istream_get_line 600 0) ex_text_world ex_ks_ok in
  (r, pending (w_in w') (w_src w')) = spec_gl 0 [] 0 [104;105;10;120;121;122;10] /\
  has_fail t = false /\ has_zero t = false.
Proof. vm_compute. repeat split; reflexivity. Qed.

(* after the error the stream object is intact: a second get_line on the remaining answers
   returns the first line -- no byte was dropped by the failed refill *)
Example ex_get_line_after_eagain :
  let '(xs, _, _) := run_ops_k 4 1024 600 [OpLine 0; OpLine 0; OpLine 0] ex_text_world ex_ks_eagain in
  map fst xs = [XL (LErr e_io); XL (LLine [104;105] 0); XL (LLine [120;121;122] 0)].
Proof. vm_compute. reflexivity. Qed.

(* the 512-byte header read and record_to_memory with a would-block after 3 of 520 bytes: TErr, not
   TShort ("end of archive") *)
Example ex_header_eagain :
  0 < 64 /\ wf 64 (w_in big_world) /\ eof_ok (w_in big_world) (w_src big_world) /\
  sizeof_tar_header_t <= N.of_nat 600 /\
  let '(r, _, t, _) := run_k 64 1024 (header_read 600) big_world [KXfer 3; Eagain; KXfer 600] in
  r = TErr e_io /\ has_fail t = true.
Proof.
  split; [reflexivity|]. split; [apply wf_init|]. split; [apply eof_ok_init|].
  split; [vm_compute; discriminate|]. vm_compute. split; reflexivity.
Qed.

Example ex_record_eagain :
  3 <= s32_max /\ 3 + tar_rec <= N.of_nat 600 /\
  let '(r, _, t, _) := run_k 4 1024 (record_to_memory 600 3) ex_world [KXfer 2; Eagain; KXfer 1] in
  r = TErr e_io /\ has_fail t = true.
Proof. split; [vm_compute; discriminate|]. split; [vm_compute; discriminate|]. vm_compute. split; reflexivity. Qed.

(* write side: EAGAIN after one byte of three -- error, the descriptor holds the prefix [1], and the
   retry-as-EINTR reading (which would deliver [1;2;3] and report success) is NOT the model *)
Example ex_write_eagain :
  let '(xs, w', _) := run_ops_k 4 1024 20 [OpPut [1;2;3]] ex_world [KXfer 1; Eagain; KXfer 9] in
  (map fst xs, o_content (w_out w')) = ([XU (Err e_io)], [1]).
Proof. vm_compute. reflexivity. Qed.

(* splice with a would-block on the input side and on the output side *)
Example ex_splice_eagain :
  (let '(r, w', _, _) := run_k 4 1024 (istream_splice 20 6) ex_world [KXfer 2; Eagain] in
   (r, o_content (w_out w'))) = (RErr e_io, []) /\
  (let '(r, w', _, _) := run_k 4 1024 (istream_splice 20 6) ex_world [KXfer 4; KXfer 1; Eagain] in
   (r, o_content (w_out w'), pending (w_in w') (w_src w'))) = (RErr e_io, [1], [1;2;3;4;5;6;7;8;9;10;11]).
Proof. vm_compute. split; reflexivity. Qed.

(* pread: EAGAIN after 2 of 3 bytes is SQFS_ERROR_IO, not a short success *)
Example ex_pread_eagain :
  let '(xs, _, _) := run_ops_k 4 1024 20 [OpReadAt 0 3] ex_world [KXfer 2; Eagain] in
  map fst xs = [XD (Err e_io)].
Proof. vm_compute. reflexivity. Qed.

(* (6) a would-block in the MIDDLE of the kernel's answers (C12/EagainMid.v): for EVERY process
   (any client tree) on  pre ++ KErrno e :: post,  e not EINTR, pre = transfers and EINTRs only:
   EITHER the answer was consumed and the call log shows the failed call, OR it is still unused *)
From SqfsV Require Import C12.EagainMid.

Theorem process_would_block : forall bufsz zchunk (R : Type) (c : client R) w e post pre r w' t rest,
  hard (KErrno e) = true -> forallb soft pre = true ->
  run_k bufsz zchunk c w (pre ++ KErrno e :: post) = (r, w', t, rest) ->
  has_fail t = true \/
  exists rest', forallb soft rest' = true /\ rest = map classify (rest' ++ KErrno e :: post).
Proof. exact @run_k_mid. Qed.
Print Assumptions process_would_block.

(* the istream consumers: the would-block is EITHER still unused OR the operation is an error --
   never LEof / a short line / TShort ("end of archive") / a short record *)
Theorem get_line_would_block_is_error : forall bufsz zchunk flags fuel w e post pre r w' t rest,
  0 < bufsz -> wf bufsz (w_in w) -> lenN (pending (w_in w) (w_src w)) < N.of_nat fuel ->
  hard (KErrno e) = true -> forallb soft pre = true ->
  run_k bufsz zchunk (istream_get_line fuel flags) w (pre ++ KErrno e :: post) = (r, w', t, rest) ->
  r = LErr e_io \/
  exists rest', forallb soft rest' = true /\ rest = map classify (rest' ++ KErrno e :: post).
Proof. exact get_line_would_block. Qed.
Print Assumptions get_line_would_block_is_error.

Theorem tar_header_would_block_is_error : forall bufsz zchunk fuel w e post pre r w' t rest,
  0 < bufsz -> wf bufsz (w_in w) -> sizeof_tar_header_t <= N.of_nat fuel ->
  hard (KErrno e) = true -> forallb soft pre = true ->
  run_k bufsz zchunk (header_read fuel) w (pre ++ KErrno e :: post) = (r, w', t, rest) ->
  r = TErr e_io \/
  exists rest', forallb soft rest' = true /\ rest = map classify (rest' ++ KErrno e :: post).
Proof. exact header_read_would_block. Qed.
Print Assumptions tar_header_would_block_is_error.

Theorem tar_record_would_block_is_error : forall bufsz zchunk fuel size w e post pre r w' t rest,
  0 < bufsz -> wf bufsz (w_in w) -> size <= s32_max -> size + tar_rec <= N.of_nat fuel ->
  hard (KErrno e) = true -> forallb soft pre = true ->
  run_k bufsz zchunk (record_to_memory fuel size) w (pre ++ KErrno e :: post) = (r, w', t, rest) ->
  r = TErr e_io \/
  exists rest', forallb soft rest' = true /\ rest = map classify (rest' ++ KErrno e :: post).
Proof. exact record_to_memory_would_block. Qed.
Print Assumptions tar_record_would_block_is_error.

(* both branches occur: ex_ks_eagain = [KXfer 1; EINTR; KXfer 1] ++ Eagain :: [KXfer 9] is consumed
   (LErr, see ex_get_line_eagain); with one big transfer in front the line is complete before the
   would-block is reached and the Eagain is the first unused answer *)
Example ex_would_block_hyps :
  hard Eagain = true /\ forallb soft [KXfer 1; KErrno c_EINTR; KXfer 1] = true /\
  ex_ks_eagain = [KXfer 1; KErrno c_EINTR; KXfer 1] ++ Eagain :: [KXfer 9] /\
  wf 4 (w_in ex_text_world) /\ lenN (pending (w_in ex_text_world) (w_src ex_text_world)) < N.of_nat 600.
Proof.
  split; [reflexivity|]. split; [reflexivity|]. split; [reflexivity|]. split; [apply wf_init|].
  vm_compute. reflexivity.
Qed.

Example ex_would_block_unused :
  let '(r, _, _, rest) := run_k 4 1024 (istream_get_line 600 0) ex_text_world ([KXfer 9] ++ Eagain :: []) in
  r = LLine [104;105] 0 /\ rest = map classify ([] ++ Eagain :: []).
Proof. vm_compute. split; reflexivity. Qed.
