(* BpPool — every API call (submit, dequeue, get_status) executed on C09's LTS of threadpool.c along an
   admissible schedule returns, and its effect on the list of pending items is that of the FIFO
   specification.  The two halves are C09's theorems, applied step by step:
     safety   [sim_step] (the core of pool_refines_fifo), [inv_step], [sync_step], [finv_step];
     liveness the case analysis of [no_stuck] (pool_no_stuck) on C09's invariants [Inv] and [Sync], which
              locates the ticket dequeue waits for and yields a thread whose next step returns the call
              or decreases the measure [nu] ([hot_exists], [hot_fires]); no other step increases [nu]
              ([step_frame]: it decreases it, or is "quiet"), and a quiet step of another thread does not
              disturb that thread ([hot_stable]).  Hence every fair round decreases [nu] unless the call
              returns ([exec_round_nu]) -- whatever spurious wake-ups it contains. *)
From Coq Require Import List ZArith Bool Arith Lia.
From SqfsV Require Import C09.PoolModel C09.PoolLemmas C09.PoolSafety C09.PoolProgress C09.PoolFailure
  C09.PoolRefine.
From SqfsV Require Import BpPool.TpExec.
Import ListNotations.

Section Return.
Variable cb_st : nat -> Z.
Hypothesis Hnf : forall d, cb_st d = 0%Z.       (* the worker callback never reports a failure *)
Variable sched : schedule.
Variable n : nat.
Hypothesis Hn : n >= 1.
Hypothesis Hadm : admissible n sched.

Notation Inv := (Inv cbmark cb_st).
Notation Sync := (Sync true).
Notation FInv := (FInv cb_st).
Notation pstep := (pstep cb_st).
Notation do_choice := (do_choice cb_st).
Notation exec_list := (exec_list cb_st).
Notation exec_rounds := (exec_rounds cb_st sched).
Notation exec_call := (exec_call cb_st sched).

Ltac psimpl :=
  cbn [queue done safe_done next_ticket next_deq item_count status ws ms g_sub g_ret g_ran
       set_ws set_ms set_w store_completed give_back fst snd] in *.

(* what is preserved by every step *)
Record G (s : pool) : Prop := {
  gd_inv : Inv s;
  gd_sync : Sync s;
  gd_finv : FInv s;
  gd_len : length (ws s) = n
}.

Lemma choice_eq_dec : forall c c' : choice, c = c' \/ c <> c'.
Proof.
  intros c c'. destruct c, c'; try (right; discriminate); try (left; reflexivity);
    (destruct (Nat.eq_dec w w0); [left; subst; reflexivity|right; congruence]).
Qed.

Lemma choice_eq_main : forall c, c = CMain \/ c <> CMain.
Proof. destruct c; auto; right; discriminate. Qed.

Lemma G_init : G (init n).
Proof.
  constructor.
  - apply inv_init.
  - apply sync_init.
  - apply finv_init.
  - unfold init. simpl. apply repeat_length.
Qed.

Lemma G_step : forall s l s' e, G s -> pstep s l = Some (s', e) -> G s'.
Proof.
  intros s l s' e [H1 H2 H3 H4] Hs. unfold TpExec.pstep in Hs. constructor.
  - eapply inv_step; eauto.
  - eapply sync_step; eauto.
  - eapply finv_step; eauto.
  - rewrite <- H4. eapply ws_length_step; eauto.
Qed.

(* ---- where the main thread is after a step ---- *)
Lemma dequeue_locked_ms : forall s,
  (exists r, snd (dequeue_locked true s) = ERet ODequeue r /\ ms (fst (dequeue_locked true s)) = MIdle) \/
  (snd (dequeue_locked true s) = ENone /\ ms (fst (dequeue_locked true s)) = MDeqWait).
Proof.
  intros. unfold dequeue_locked.
  destruct (done s) as [|it r]; [|destruct (fst it =? next_deq s)];
    try destruct (true && negb (status s =? 0)%Z); simpl; eauto.
Qed.

Lemma get_next_ms : forall s w, ms (fst (get_next s w)) = ms s /\ ret_of (snd (get_next s w)) = None.
Proof.
  intros. unfold get_next. destruct (status s =? 0)%Z; [destruct (queue s)|]; split; reflexivity.
Qed.

Definition ms_kept (s s' : pool) : Prop := ms s' = ms s \/ (ms s = MDeqWait /\ ms s' = MDeqWoken).

Lemma worker_step_ms : forall s w s' e,
  worker_step cbmark cb_st s w = Some (s', e) -> ret_of e = None /\ ms_kept s s'.
Proof.
  intros s w s' e H. unfold worker_step in H.
  destruct (nth_error (ws s) w) as [x|]; [|discriminate].
  destruct x as [[[it st]|]| | |[t d]|]; try discriminate.
  - assert (E : get_next (store_completed s it st) w = (s', e)) by congruence.
    destruct (get_next_ms (store_completed s it st) w) as [A B]. rewrite E in A, B. simpl in A, B.
    split; [exact B|]. unfold ms_kept. rewrite A. unfold store_completed; psimpl.
    destruct (ms s); simpl; auto.
  - assert (E : get_next s w = (s', e)) by congruence.
    destruct (get_next_ms s w) as [A B]. rewrite E in A, B. simpl in A, B. split; [exact B|left; exact A].
  - assert (E : get_next s w = (s', e)) by congruence.
    destruct (get_next_ms s w) as [A B]. rewrite E in A, B. simpl in A, B. split; [exact B|left; exact A].
  - cbv zeta in H. injection H as H1 H2. subst. split; [reflexivity|left; reflexivity].
Qed.

Lemma step_call_ms : forall s o s' e, o <> ODestroy -> pstep s (LCall o) = Some (s', e) ->
  ms s = MIdle /\
  ((exists r, e = ERet o r /\ ms s' = MIdle) \/ (e = ENone /\ o = ODequeue /\ ms s' = MDeqWait)).
Proof.
  intros s o s' e Ho H. unfold TpExec.pstep, step in H.
  destruct (ms s) eqn:Hm; try discriminate. split; [reflexivity|].
  assert (E : call true s o = (s', e)) by congruence. clear H.
  destruct o; simpl in E.
  - unfold submit in E. destruct (drain (done s) (next_deq s) (safe_done s)) as [[dn nd] sf].
    injection E as E1 E2. subst. left. eexists. split; [reflexivity|]. simpl. exact Hm.
  - unfold dequeue in E. destruct (item_count s =? 0).
    + injection E as E1 E2. subst. left. eexists. split; [reflexivity|exact Hm].
    + destruct (safe_done s) as [|it r].
      * destruct (dequeue_locked_ms s) as [[r [A B]]|[A B]]; rewrite E in A, B; simpl in A, B; subst.
        -- left. eauto.
        -- right. auto.
      * injection E as E1 E2. subst. left. eexists. split; [reflexivity|reflexivity].
  - injection E as E1 E2. subst. left. eexists. split; [reflexivity|exact Hm].
  - contradiction.
Qed.

Lemma step_main_ms : forall s s' e,
  ms s = MIdle \/ ms s = MDeqWait \/ ms s = MDeqWoken -> pstep s LMain = Some (s', e) ->
  ms s = MDeqWoken /\ ((exists r, e = ERet ODequeue r /\ ms s' = MIdle) \/ (e = ENone /\ ms s' = MDeqWait)).
Proof.
  intros s s' e Ha H. unfold TpExec.pstep, step in H.
  destruct (ms s) eqn:Hm; try discriminate.
  - split; [reflexivity|]. assert (E : dequeue_locked true s = (s', e)) by congruence.
    destruct (dequeue_locked_ms s) as [[r [A B]]|[A B]]; rewrite E in A, B; simpl in A, B; subst; eauto.
  - destruct Ha as [Ha|[Ha|Ha]]; discriminate.
Qed.

(* ---- the phase of the call [o] ---- *)
Section Op.
Variable o : op.
Hypothesis Ho : o <> ODestroy.

Definition inprog (s : pool) : Prop := o = ODequeue /\ (ms s = MDeqWait \/ ms s = MDeqWoken).
Definition Ph (s : pool) : Prop := ms s = MIdle \/ inprog s.

Lemma Ph_alive : forall s, Ph s -> ms s = MIdle \/ ms s = MDeqWait \/ ms s = MDeqWoken.
Proof. intros s [H|[_ [H|H]]]; auto. Qed.

Lemma inprog_busy : forall s, inprog s -> busy s.
Proof. intros s [_ [H|H]]; split; rewrite H; discriminate. Qed.

Lemma busy_inprog : forall s, Ph s -> busy s -> inprog s.
Proof. intros s [H|H] [B _]; [contradiction|exact H]. Qed.

Lemma nofail_any : forall l, nofail cb_st l.
Proof. intros l d _. apply Hnf. Qed.

(* one effective step of the combined system *)
Lemma step_spec : forall s c s1 e,
  G s -> Ph s -> pstep s (label_of o s c) = Some (s1, e) ->
  G s1 /\
  match ret_of e with
  | Some r => spec_call cbmark (pending s) o = (pending s1, r) /\ ms s1 = MIdle
  | None => pending s1 = pending s /\ Ph s1 /\ (busy s -> busy s1) /\
            (ms s = MIdle -> c <> CMain -> ms s1 = MIdle) /\
            (ms s = MIdle -> c = CMain -> busy s1)
  end.
Proof.
  intros s c s1 e HG HP Hs. split; [eapply G_step; eauto|].
  assert (HS : sim cbmark s s1 e).
  { apply (sim_step cbmark cb_st true s _ s1 e (gd_inv s HG) Hs).
    apply (alive_status0 cb_st); [apply (gd_finv s HG)|apply nofail_any]. }
  destruct c; cbn [label_of] in Hs.
  - (* the main thread *)
    destruct (ms s) eqn:Hm.
    + destruct (step_call_ms s o s1 e Ho Hs) as [_ [[r [E M]]|[E [Eo M]]]]; subst e; simpl.
      * simpl in HS. auto.
      * simpl in HS. split; [exact HS|]. split; [right; split; auto|].
        split; [intros [B _]; contradiction|].
        split; [intros _ C; contradiction|]. intros _ _. split; rewrite M; discriminate.
    + destruct HP as [HP|[Eo HP]]; [congruence|].
      destruct (step_main_ms s s1 e) as [M0 _]; [rewrite Hm; auto|exact Hs|]. rewrite Hm in M0. discriminate.
    + destruct HP as [HP|[Eo HP]]; [congruence|].
      destruct (step_main_ms s s1 e) as [_ [[r [E M]]|[E M]]]; [rewrite Hm; auto|exact Hs| |]; subst e; simpl.
      * simpl in HS. rewrite Eo. auto.
      * simpl in HS. split; [exact HS|]. split; [right; split; auto|].
        split; [intros _; split; rewrite M; discriminate|]. split; intros; discriminate.
    + destruct HP as [HP|[_ [HP|HP]]]; congruence.
    + destruct HP as [HP|[_ [HP|HP]]]; congruence.
  - (* a worker *)
    unfold TpExec.pstep, step in Hs. destruct (worker_step_ms s w s1 e Hs) as [R K]. rewrite R.
    assert (HP' : pending s1 = pending s). { destruct e; simpl in *; try exact HS. discriminate. }
    split; [exact HP'|]. unfold ms_kept in K.
    split; [|split; [|split]].
    + destruct K as [K|[K1 K2]].
      * destruct HP as [HP|[Eo HP]]; [left|right; split; auto]; rewrite K; assumption.
      * destruct HP as [HP|[Eo HP]]; [rewrite K1 in HP; discriminate|right; split; auto].
    + intros [B1 B2]. destruct K as [K|[K1 K2]]; split; try rewrite K; auto; rewrite K2; discriminate.
    + intros M _. destruct K as [K|[K1 K2]]; [rewrite K; exact M|rewrite K1 in M; discriminate].
    + intros _ C. discriminate.
  - (* spurious wake-up of the main thread *)
    unfold TpExec.pstep, step in Hs. destruct (ms s) eqn:Hm; try discriminate.
    injection Hs as E1 E2. subst. simpl. simpl in HS.
    split; [exact HS|]. destruct HP as [HP|[Eo HP]]; [congruence|].
    split; [right; split; auto|]. split; [intros _; split; discriminate|]. split; intros; discriminate.
  - (* spurious wake-up of a worker *)
    unfold TpExec.pstep, step in Hs. destruct (nth_error (ws s) w) as [[]|]; try discriminate.
    injection Hs as E1 E2. subst. simpl. simpl in HS.
    split; [exact HS|]. unfold set_w, Ph, inprog, busy. psimpl.
    split; [exact HP|]. split; [auto|]. split; [auto|]. intros _ C. discriminate.
Qed.

Lemma dc_cases : forall s c s1 x, do_choice o s c = (s1, x) ->
  (s1 = s /\ x = None /\ pstep s (label_of o s c) = None) \/
  (exists e, pstep s (label_of o s c) = Some (s1, e) /\ x = ret_of e).
Proof.
  intros s c s1 x H. unfold TpExec.do_choice in H.
  destruct (TpExec.pstep cb_st s (label_of o s c)) as [[s' e]|].
  - right. exists e. injection H as H1 H2. subst. auto.
  - left. injection H as H1 H2. subst. auto.
Qed.

(* ---- a list of choices ---- *)
Definition Retd (s s' : pool) (r : ret) : Prop :=
  G s' /\ spec_call cbmark (pending s) o = (pending s', r) /\ ms s' = MIdle.
Definition Pend (s s' : pool) : Prop :=
  G s' /\ pending s' = pending s /\ Ph s' /\ (busy s -> busy s').

Lemma exec_list_safe : forall l s, G s -> Ph s ->
  match exec_list o s l with
  | XRet s' r _ => Retd s s' r
  | XPend s' => Pend s s'
  end.
Proof.
  induction l as [|c t IH]; intros s HG HP; cbn [TpExec.exec_list].
  - unfold Pend. auto.
  - destruct (do_choice o s c) as [s1 x] eqn:D.
    destruct (dc_cases _ _ _ _ D) as [[E1 [E2 _]]|[e [Hs E2]]]; subst.
    + apply IH; assumption.
    + destruct (step_spec s c s1 e HG HP Hs) as [HG1 R].
      destruct (ret_of e) as [r|].
      * unfold Retd. tauto.
      * destruct R as [R1 [R2 [R3 _]]]. specialize (IH s1 HG1 R2).
        destruct (TpExec.exec_list cb_st o s1 t) as [s' r rest|s'].
        -- unfold Retd in *. rewrite <- R1. exact IH.
        -- unfold Pend in *. destruct IH as [I1 [I2 [I3 I4]]]. rewrite <- R1.
           split; [exact I1|]. split; [exact I2|]. split; [exact I3|]. intro B. apply I4, R3, B.
Qed.

(* ---- progress: the measure [nu] ---- *)
Lemma nu_get_next : forall s w x, nth_error (ws s) w = Some x ->
  (status s = 0%Z /\ queue s = [] /\ get_next s w = (set_w s w WWaiting, ENone) /\
   nu (fst (get_next s w)) + wnu x = nu s + 1) \/
  nu (fst (get_next s w)) + wnu x < nu s + 1.
Proof.
  intros s w x Hx. unfold get_next, nu.
  destruct (Z.eqb_spec (status s) 0) as [Hst|Hst]; [destruct (queue s) as [|it r] eqn:Q|]; cbn [fst]; unfold set_w; psimpl;
    rewrite ?Q; cbn [length].
  - left. pose proof (upd_sum _ wnu _ _ _ WWaiting Hx) as U. simpl in U. repeat split; auto; lia.
  - right. pose proof (upd_sum _ wnu _ _ _ (WWorking it) Hx) as U. simpl in U. lia.
  - right. pose proof (upd_sum _ wnu _ _ _ WExited Hx) as U. simpl in U. lia.
Qed.

(* a worker step decreases [nu], except when a woken worker finds the queue empty and sleeps again *)
Lemma worker_step_nu : forall s w s' e, worker_step cbmark cb_st s w = Some (s', e) ->
  nu s' < nu s \/
  (nu s' = nu s /\ nth_error (ws s) w = Some WWoken /\ queue s = [] /\ s' = set_w s w WWaiting).
Proof.
  intros s w s' e H. unfold worker_step in H.
  destruct (nth_error (ws s) w) as [x|] eqn:Hx; [|discriminate].
  destruct x as [[[it st]|]| | |[t d]|]; try discriminate.
  - assert (E : get_next (store_completed s it st) w = (s', e)) by congruence.
    assert (Hx' : nth_error (ws (store_completed s it st)) w = Some (WReady (Some (it, st)))) by exact Hx.
    assert (N : nu (store_completed s it st) = nu s) by reflexivity.
    destruct (nu_get_next _ _ _ Hx') as [[_ [_ [_ A]]]|A]; rewrite E in A; simpl in A; left; lia.
  - assert (E : get_next s w = (s', e)) by congruence.
    destruct (nu_get_next _ _ _ Hx) as [[_ [_ [_ A]]]|A]; rewrite E in A; simpl in A; left; lia.
  - assert (E : get_next s w = (s', e)) by congruence.
    destruct (nu_get_next _ _ _ Hx) as [[_ [Q [E' A]]]|A]; rewrite E in A; simpl in A.
    + right. rewrite E in E'. injection E' as E1 E2. repeat split; auto. lia.
    + left. lia.
  - cbv zeta in H. injection H as H1 H2. subst. left. unfold nu. psimpl.
    pose proof (upd_sum _ wnu _ _ _ (WReady (Some ((t, cbmark d), cb_st d))) Hx) as U. simpl in U. lia.
Qed.

Lemma dequeue_locked_cases : forall s,
  (exists r, snd (dequeue_locked true s) = ERet ODequeue r) \/
  dequeue_locked true s = (set_ms s MDeqWait, ENone).
Proof.
  intros. unfold dequeue_locked.
  destruct (done s) as [|it r]; [|destruct (fst it =? next_deq s)];
    try destruct (true && negb (status s =? 0)%Z); simpl; eauto.
Qed.

Definition actor (c : choice) : option nat :=
  match c with CWorker w | CSpurWorker w => Some w | _ => None end.

(* what a step that neither returns nor makes progress leaves unchanged *)
Definition quiet (c : choice) (s s1 : pool) : Prop :=
  nu s1 = nu s /\ queue s1 = queue s /\ done s1 = done s /\ next_deq s1 = next_deq s /\
  (forall w, actor c <> Some w -> nth_error (ws s1) w = nth_error (ws s) w) /\
  (actor c <> None -> ms s1 = ms s) /\
  (c = CSpurMain -> ms s = MDeqWait) /\
  (forall w, c = CSpurWorker w -> nth_error (ws s) w = Some WWaiting).

Lemma step_frame : forall s c s1 e,
  busy s -> pstep s (label_of o s c) = Some (s1, e) ->
  ret_of e <> None \/ nu s1 < nu s \/ quiet c s s1.
Proof.
  intros s c s1 e [B1 B2] Hs. destruct c; cbn [label_of] in Hs.
  - assert (L : (match ms s with MIdle => LCall o | _ => LMain end) = LMain) by (destruct (ms s); auto; contradiction).
    rewrite L in Hs. unfold TpExec.pstep, step in Hs. destruct (ms s) eqn:Hm; try discriminate.
    + assert (E : dequeue_locked true s = (s1, e)) by congruence.
      destruct (dequeue_locked_cases s) as [[r A]|A]; rewrite E in A.
      * simpl in A. subst e. left. discriminate.
      * injection A as A1 A2. subst. right. right. unfold quiet. psimpl.
        repeat split; auto; try discriminate. intros C. contradiction.
    + destruct (nth_error (ws s) i) as [[]|]; try discriminate.
      (* joining: not reachable here, but harmless: join_from returns or keeps everything *)
      unfold join_from in Hs. destruct (first_alive (skipn (S i) (ws s)) (S i)).
      * injection Hs as E1 E2. subst. right. right. unfold quiet. psimpl.
        repeat split; auto; try discriminate. intros C. contradiction.
      * injection Hs as E1 E2. subst. left. discriminate.
  - unfold TpExec.pstep, step in Hs.
    destruct (worker_step_nu s w s1 e Hs) as [A|[A1 [A2 [A3 A4]]]]; [auto|].
    right. right. subst s1. unfold quiet, set_w. psimpl.
    repeat split; auto; try discriminate.
    intros w' Hw'. apply upd_nth_other. simpl in Hw'. congruence.
  - unfold TpExec.pstep, step in Hs. destruct (ms s) eqn:Hm; try discriminate.
    injection Hs as E1 E2. subst. right. right. unfold quiet. psimpl.
    repeat split; auto; try discriminate. intros C. contradiction.
  - unfold TpExec.pstep, step in Hs. destruct (nth_error (ws s) w) as [x|] eqn:Hx; try discriminate.
    destruct x; try discriminate. injection Hs as E1 E2. subst. right. right.
    unfold quiet, set_w, nu. psimpl.
    pose proof (upd_sum _ wnu _ _ _ WWoken Hx) as U. simpl in U.
    repeat split; auto; try discriminate; try lia.
    + intros w' Hw'. apply upd_nth_other. simpl in Hw'. congruence.
    + intros w' C. injection C as C. subst w'. exact Hx.
Qed.

(* [nu] never grows while a call is in progress *)
Lemma exec_list_nu : forall l s, G s -> Ph s -> busy s ->
  match exec_list o s l with
  | XRet _ _ _ => True
  | XPend s' => nu s' <= nu s
  end.
Proof.
  induction l as [|c t IH]; intros s HG HP HB; cbn [TpExec.exec_list]; [lia|].
  destruct (do_choice o s c) as [s1 x] eqn:D.
  destruct (dc_cases _ _ _ _ D) as [[E1 [E2 _]]|[e [Hs E2]]]; subst.
  - apply IH; assumption.
  - destruct (step_spec s c s1 e HG HP Hs) as [HG1 R]. pose proof (step_frame s c s1 e HB Hs) as F.
    destruct (ret_of e) as [r|]; [exact I|].
    destruct R as [R1 [R2 [R3 _]]]. specialize (IH s1 HG1 R2 (R3 HB)).
    destruct (TpExec.exec_list cb_st o s1 t); [exact I|].
    destruct F as [F|[F|[F _]]]; [contradiction|lia|lia].
Qed.

(* ---- a thread whose next step returns the call or makes progress ---- *)
Definition hotw (s : pool) (x : wstate) : Prop :=
  match x with WReady _ | WWorking _ => True | WWoken => queue s <> [] | _ => False end.

Definition Hot (s : pool) (c : choice) : Prop :=
  match c with
  | CMain => ms s = MDeqWoken /\ exists it r, done s = it :: r /\ fst it = next_deq s
  | CWorker w => exists x, nth_error (ws s) w = Some x /\ hotw s x
  | _ => False
  end.

Lemma hot_fires : forall s c, Hot s c -> busy s ->
  exists s1 e, pstep s (label_of o s c) = Some (s1, e) /\ (ret_of e <> None \/ nu s1 < nu s).
Proof.
  intros s c H HB. destruct c; simpl in H; try contradiction.
  - destruct H as [Hm [it [r [Hd Hf]]]]. cbn [label_of]. rewrite Hm.
    unfold TpExec.pstep, step. rewrite Hm. unfold dequeue_locked. rewrite Hd, Hf, Nat.eqb_refl.
    eexists. eexists. split; [reflexivity|]. left. discriminate.
  - destruct H as [x [Hx Hh]]. cbn [label_of].
    destruct (pstep s (LWorker w)) as [[s1 e]|] eqn:Hs.
    + exists s1, e. split; [reflexivity|]. right.
      unfold TpExec.pstep, step in Hs. destruct (worker_step_nu s w s1 e Hs) as [A|[_ [A2 [A3 _]]]]; [exact A|].
      rewrite Hx in A2. injection A2 as A2. subst x. simpl in Hh. contradiction.
    + exfalso. unfold TpExec.pstep, step, worker_step in Hs. rewrite Hx in Hs.
      destruct x as [[[it st]|]| | |[t d]|]; simpl in Hh; try discriminate; contradiction.
Qed.

(* a quiet step of another thread leaves a hot choice hot *)
Lemma hot_stable : forall s c c' s1, Hot s c -> quiet c' s s1 -> c' <> c -> Hot s1 c.
Proof.
  intros s c c' s1 H (Q0 & Q1 & Q2 & Q3 & Q4 & Q5 & Q6 & Q7) Hne.
  destruct c; simpl in H |- *; try contradiction.
  - destruct H as [Hm H]. rewrite Q2, Q3. split; [|exact H].
    destruct c'; try congruence.
    + rewrite Q5 by discriminate. exact Hm.
    + rewrite (Q6 eq_refl) in Hm. discriminate.
    + rewrite Q5 by discriminate. exact Hm.
  - destruct H as [x [Hx Hh]]. exists x. split.
    + rewrite Q4; [exact Hx|]. destruct c'; simpl; try discriminate.
      * intros C. injection C as C. subst. contradiction.
      * intros C. injection C as C. subst. rewrite (Q7 _ eq_refl) in Hx. injection Hx as Hx. subst x. simpl in Hh. contradiction.
    + unfold hotw in *. rewrite Q1. exact Hh.
Qed.

(* a list that contains a hot choice: the call returns or [nu] decreases *)
Lemma exec_list_hot : forall l s c, G s -> Ph s -> busy s -> Hot s c -> In c l ->
  match exec_list o s l with
  | XRet _ _ _ => True
  | XPend s' => nu s' < nu s
  end.
Proof.
  induction l as [|c' t IH]; intros s c HG HP HB Hh Hin; [contradiction|]. cbn [TpExec.exec_list].
  destruct (do_choice o s c') as [s1 x] eqn:D.
  destruct (dc_cases _ _ _ _ D) as [[E1 [E2 E3]]|[e [Hs E2]]]; subst.
  - (* skipped: it was not the hot one *)
    destruct Hin as [Hin|Hin].
    + subst c'. destruct (hot_fires s c Hh HB) as (s1 & e & A & _). rewrite A in E3. discriminate.
    + eapply IH; eauto.
  - destruct (step_spec s c' s1 e HG HP Hs) as [HG1 R]. pose proof (step_frame s c' s1 e HB Hs) as F.
    destruct (ret_of e) as [r|] eqn:Re; [exact I|].
    destruct R as [R1 [R2 [R3 _]]].
    pose proof (exec_list_nu t s1 HG1 R2 (R3 HB)) as N.
    destruct F as [F|[F|F]]; [contradiction| |].
    + destruct (TpExec.exec_list cb_st o s1 t); [exact I|lia].
    + (* quiet *)
      destruct (choice_eq_dec c' c) as [C|C].
      * subst c'. destruct (hot_fires s c Hh HB) as (s2 & e2 & A & B). rewrite Hs in A.
        injection A as A1 A2. subst. destruct F as [F _]. destruct B as [B|B]; [rewrite Re in B; contradiction|lia].
      * assert (Hin' : In c t) by (destruct Hin as [Hin|Hin]; [congruence|exact Hin]).
        pose proof (IH s1 c HG1 R2 (R3 HB) (hot_stable _ _ _ _ Hh F C) Hin') as J.
        destruct F as [F _]. destruct (TpExec.exec_list cb_st o s1 t); [exact I|lia].
Qed.

(* C09's invariants locate the awaited ticket: some thread is hot *)
Lemma sorted_head : forall (l : list witem) t,
  sorted (map fst l) -> (forall u, In u (map fst l) -> t <= u) -> In t (map fst l) ->
  exists it r, l = it :: r /\ fst it = t.
Proof.
  intros l t Hs Hge Hin. destruct l as [|it r]; [contradiction|]. exists it, r. split; [reflexivity|].
  simpl in Hs, Hin. destruct Hs as [Hall _]. destruct Hin as [Hin|Hin]; [exact Hin|].
  rewrite Forall_forall in Hall. specialize (Hall _ Hin). specialize (Hge (fst it) (or_introl eq_refl)). lia.
Qed.

Lemma hot_exists : forall s, G s -> Ph s -> busy s ->
  exists c, Hot s c /\ (c = CMain \/ exists w, c = CWorker w /\ w < n).
Proof.
  intros s HG HP HB.
  pose proof (gd_inv s HG) as HI. pose proof (gd_sync s HG) as HS.
  destruct (busy_inprog s HP HB) as [_ Hm].
  assert (Hst : status s = 0%Z).
  { destruct (alive_status0 cb_st s (gd_finv s HG) (nofail_any _)) as [A|[[i A]|A]]; auto;
      destruct Hm as [Hm|Hm]; rewrite Hm in A; discriminate. }
  assert (Hic : item_count s <> 0).
  { destruct Hm as [Hm|Hm]; [apply (y_dwait true s HS Hm)|apply (y_dwoken true s HS Hm)]. }
  pose proof (i_mw _ _ s HI Hm) as Hsafe.
  pose proof (i_cnt _ _ s HI (next_deq s)) as Hc. unfold tcount in Hc.
  pose proof (i_nd _ _ s HI) as Hnd'. pose proof (i_ic _ _ s HI) as Hic'.
  rewrite Hsafe in *. simpl in Hc, Hnd'. rewrite cnt_seq0 in Hc.
  destruct (Nat.ltb_spec (next_deq s) (length (g_ret s))); [lia|].
  destruct (Nat.ltb_spec (next_deq s) (next_ticket s)); [|lia].
  destruct (Nat.eq_dec (cnt (map fst (done s)) (next_deq s)) 0) as [Ed|Ed].
  - (* not yet stored *)
    rewrite Ed in Hc.
    destruct (Nat.eq_dec (cnt (flat_map (@htix) (ws s)) (next_deq s)) 0) as [Eh|Eh].
    + destruct (Nat.eq_dec (cnt (flat_map (@ktix) (ws s)) (next_deq s)) 0) as [Ek|Ek].
      * (* queued: no worker sleeps or has exited *)
        assert (Hq : queue s <> []). { intros E. rewrite E in Hc. simpl in Hc. lia. }
        destruct (ws s) as [|x r] eqn:W; [pose proof (gd_len s HG) as L; rewrite W in L; simpl in L; lia|].
        exists (CWorker 0). split.
        -- simpl. exists x. rewrite W. split; [reflexivity|].
           destruct x; simpl; auto.
           ++ apply Hq. apply (y_waitq true s HS). rewrite W. simpl. auto.
           ++ apply (y_exit true s HS); auto. rewrite W. simpl. auto.
        -- right. exists 0. split; [reflexivity|lia].
      * assert (Hin : In (next_deq s) (flat_map (@ktix) (ws s))) by (apply cnt_In; lia).
        apply in_flat_ex in Hin. destruct Hin as [w [x [Hw Hx]]].
        exists (CWorker w). split.
        -- simpl. exists x. split; [exact Hw|]. destruct x; simpl in Hx; try contradiction. exact I.
        -- right. exists w. split; [reflexivity|]. rewrite <- (gd_len s HG). eapply nth_error_lt; eauto.
    + assert (Hin : In (next_deq s) (flat_map (@htix) (ws s))) by (apply cnt_In; lia).
      apply in_flat_ex in Hin. destruct Hin as [w [x [Hw Hx]]].
      exists (CWorker w). split.
      * simpl. exists x. split; [exact Hw|]. destruct x; simpl in Hx; try contradiction. exact I.
      * right. exists w. split; [reflexivity|]. rewrite <- (gd_len s HG). eapply nth_error_lt; eauto.
  - (* stored: the main thread has been woken and will take it *)
    assert (Hin : In (next_deq s) (map fst (done s))) by (apply cnt_In; lia).
    exists CMain. split; [|left; reflexivity]. simpl. split.
    + destruct Hm as [Hm|Hm]; [|exact Hm]. exfalso. destruct (y_dwait true s HS Hm) as [_ [Hni _]]. exact (Hni Hin).
    + apply sorted_head; [apply (y_sorted true s HS)| |exact Hin].
      intros u Hu. eapply done_ge; eauto.
Qed.

(* a fair round: the call returns or [nu] decreases *)
Lemma exec_round_nu : forall r s, G s -> Ph s -> busy s -> fair_round n r ->
  match exec_list o s r with
  | XRet _ _ _ => True
  | XPend s' => nu s' < nu s
  end.
Proof.
  intros r s HG HP HB [Fm Fw].
  destruct (hot_exists s HG HP HB) as [c [Hh [C|[w [C Hw]]]]]; subst c.
  - eapply exec_list_hot; eauto.
  - eapply exec_list_hot; eauto.
Qed.

(* a list that gives the main thread a turn: the call is started *)
Lemma exec_list_starts : forall l s, G s -> ms s = MIdle -> In CMain l ->
  match exec_list o s l with
  | XRet _ _ _ => True
  | XPend s' => busy s'
  end.
Proof.
  induction l as [|c t IH]; intros s HG HM Hin; [contradiction|]. cbn [TpExec.exec_list].
  destruct (do_choice o s c) as [s1 x] eqn:D.
  destruct (dc_cases _ _ _ _ D) as [[E1 [E2 E3]]|[e [Hs E2]]]; subst.
  - destruct Hin as [Hin|Hin].
    + subst c. cbn [label_of] in E3. rewrite HM in E3. unfold TpExec.pstep, step in E3. rewrite HM in E3. discriminate.
    + apply IH; auto.
  - destruct (step_spec s c s1 e HG (or_introl HM) Hs) as [HG1 R].
    destruct (ret_of e) as [r|]; [exact I|].
    destruct R as [R1 [R2 [R3 [R4 R5]]]].
    destruct (choice_eq_main c) as [C|C].
    + specialize (R5 HM C). pose proof (exec_list_safe t s1 HG1 R2) as S1.
      destruct (TpExec.exec_list cb_st o s1 t); [exact I|]. destruct S1 as [_ [_ [_ B]]]. auto.
    + apply IH; auto. destruct Hin as [Hin|Hin]; [congruence|exact Hin].
Qed.

(* ---- whole rounds ---- *)
Lemma exec_rounds_safe : forall fuel s k s' r rest k',
  G s -> Ph s -> exec_rounds fuel o s k = Some (s', r, rest, k') -> Retd s s' r.
Proof.
  induction fuel as [|f IH]; intros s k s' r rest k' HG HP H; [discriminate|].
  cbn [TpExec.exec_rounds] in H. pose proof (exec_list_safe (sched k) s HG HP) as S1.
  destruct (TpExec.exec_list cb_st o s (sched k)) as [s1 r1 rest1|s1].
  - injection H as E1 E2 E3 E4. subst. exact S1.
  - destruct S1 as [G1 [P1 [H1 _]]]. specialize (IH s1 _ _ _ _ _ G1 H1 H).
    unfold Retd in *. rewrite <- P1. exact IH.
Qed.

Lemma exec_rounds_returns : forall fuel s k, G s -> Ph s -> busy s -> nu s < fuel ->
  exists s' r rest k', exec_rounds fuel o s k = Some (s', r, rest, k').
Proof.
  induction fuel as [|f IH]; intros s k HG HP HB Hmu; [lia|].
  cbn [TpExec.exec_rounds]. pose proof (exec_list_safe (sched k) s HG HP) as S1.
  pose proof (exec_round_nu (sched k) s HG HP HB (Hadm k)) as M1.
  destruct (TpExec.exec_list cb_st o s (sched k)) as [s1 r1 rest1|s1].
  - eauto.
  - destruct S1 as [G1 [_ [H1 B1]]]. apply IH; auto. lia.
Qed.

(* ---- an API call from the idle state: it returns, with the effect of the FIFO specification ---- *)
Theorem exec_call_ok : forall s cur k, G s -> ms s = MIdle ->
  exists s' r rest k', exec_call o s cur k = Some (s', r, rest, k') /\ Retd s s' r.
Proof.
  intros s cur k HG HM. unfold TpExec.exec_call.
  assert (HP : Ph s) by (left; exact HM).
  pose proof (exec_list_safe cur s HG HP) as S1.
  destruct (TpExec.exec_list cb_st o s cur) as [s1 r1 rest1|s1].
  { exists s1, r1, rest1, k. auto. }
  destruct S1 as [G1 [E1 [P1 _]]].
  pose proof (exec_list_safe (sched k) s1 G1 P1) as S2.
  assert (B2 : match TpExec.exec_list cb_st o s1 (sched k) with XRet _ _ _ => True | XPend s2 => busy s2 end).
  { destruct P1 as [M1|I1].
    - apply exec_list_starts; auto. apply (Hadm k).
    - destruct (TpExec.exec_list cb_st o s1 (sched k)); [exact I|].
      destruct S2 as [_ [_ [_ B]]]. apply B. apply inprog_busy. exact I1. }
  destruct (TpExec.exec_list cb_st o s1 (sched k)) as [s2 r2 rest2|s2].
  { exists s2, r2, rest2, (S k). split; [reflexivity|]. unfold Retd in *. rewrite <- E1. exact S2. }
  destruct S2 as [G2 [E2 [P2 _]]].
  destruct (exec_rounds_returns (S (nu s2)) s2 (S k) G2 P2 B2 (Nat.lt_succ_diag_r _)) as (s' & r & rest & k' & E).
  exists s', r, rest, k'. split; [exact E|].
  pose proof (exec_rounds_safe _ _ _ _ _ _ _ G2 P2 E) as R. unfold Retd in *. rewrite <- E1, <- E2. exact R.
Qed.

End Op.
End Return.
