(* BpPool — the block processor model [BpModel.run] is natural in its worker pool.

   [run] uses the pool only through [p_submit] and [p_dequeue] and stores the pool state in the one
   field [s_pool].  Hence, for any map [phi : P1 -> P2] between two pool state types that commutes with
   submit and dequeue, the run over P2 started in [phi p0] is the image under [phi] (applied to the
   field [s_pool], everything else untouched) of the run over P1 started in [p0].

   Used to move theorems proved for a pool whose state type carries an invariant (a sigma type, which
   is what the record [fifo_pool] of Properties_C02.v needs: its laws are unconditional) to the raw
   state type. *)
From Coq Require Import List NArith ZArith Bool.
From SqfsV Require Import C02.BpModel.
Import ListNotations.
Local Open Scope N_scope.

Definition res_map {A B} (f : A -> B) (r : res A) : res B :=
  match r with Ok a => Ok (f a) | Err e => Err e | Crash => Crash | Fuel => Fuel end.

Lemma bind_res_map : forall A B A' B' (f : A -> A') (g : B -> B') (r : res A) (k : A -> res B) (k' : A' -> res B'),
  (forall a, k' (f a) = res_map g (k a)) ->
  bind (res_map f r) k' = res_map g (bind r k).
Proof. intros. destruct r; simpl; auto. Qed.

Section PoolMap.
Variable HT : Type.
Variable ht_search : HT -> blk -> option (N * N).
Variable ht_insert : HT -> blk -> N * N -> HT.
Variable BW : Type.
Variable bw_write : BW -> blk -> BW * N.
Variable P1 P2 : Type.
Variable phi : P1 -> P2.
Variable sub1 : P1 -> blk -> P1.
Variable deq1 : P1 -> option (blk * P1).
Variable sub2 : P2 -> blk -> P2.
Variable deq2 : P2 -> option (blk * P2).
Variable bs mb : N.

Hypothesis Hsub : forall p b, phi (sub1 p b) = sub2 (phi p) b.
Hypothesis Hdeq : forall p, deq2 (phi p) = match deq1 p with Some (b, p') => Some (b, phi p') | None => None end.

Definition st_map (s : st HT BW P1) : st HT BW P2 :=
  mkSt HT BW P2 (phi (s_pool _ _ _ s)) (s_ioq _ _ _ s) (s_ioseq _ _ _ s) (s_iodeq _ _ _ s) (s_frag _ _ _ s)
       (s_cur _ _ _ s) (s_backlog _ _ _ s) (s_ht _ _ _ s) (s_ftbl _ _ _ s) (s_ino _ _ _ s) (s_bw _ _ _ s)
       (s_writes _ _ _ s).

Ltac stsimpl :=
  cbv [st_map s_pool s_ioq s_ioseq s_iodeq s_frag s_cur s_backlog s_ht s_ftbl s_ino s_bw s_writes
       st_pool st_ioq st_ioseq st_iodeq st_frag st_cur st_backlog st_ht st_ftbl st_ino st_bw release enqueue] in *.

Lemma pcb_map : forall s b, pcb HT BW bw_write P2 (st_map s) b = st_map (pcb HT BW bw_write P1 s b).
Proof.
  intros [p q a d f c k h t i w l] b. unfold pcb. stsimpl.
  destruct (bw_write w b) as [bw' loc]. stsimpl.
  destruct (bhas SPARSE b); stsimpl.
  - destruct (bhas LAST b); reflexivity.
  - destruct (negb (len (b_data b) =? 0)); [destruct (bhas FRAGBLK b)|]; stsimpl;
      destruct (bhas LAST b); reflexivity.
Qed.

Lemma pcf_map : forall s b,
  pcf HT ht_search ht_insert BW P2 sub2 bs (st_map s) b = st_map (pcf HT ht_search ht_insert BW P1 sub1 bs s b).
Proof.
  intros [p q a d f c k h t i w l] b. unfold pcf. stsimpl.
  destruct (bhas SPARSE b); [reflexivity|].
  destruct (if bhas DD b then None else ht_search h b) as [[idx off]|]; [reflexivity|].
  destruct f as [fb|]; stsimpl; [|reflexivity].
  destruct (bs <? len (b_data fb) + len (b_data b)); stsimpl; [rewrite Hsub|]; reflexivity.
Qed.

Lemma flush_map : forall q s,
  flush_ioq HT BW bw_write P2 q (st_map s) = st_map (flush_ioq HT BW bw_write P1 q s).
Proof.
  induction q as [|e r IH]; intros s; simpl; [reflexivity|].
  change (s_iodeq HT BW P2 (st_map s)) with (s_iodeq HT BW P1 s).
  destruct (b_seq e =? s_iodeq HT BW P1 s); [|reflexivity].
  rewrite <- IH, <- pcb_map. reflexivity.
Qed.

Lemma dq_loop_map : forall fuel old s,
  dq_loop HT ht_search ht_insert BW bw_write P2 sub2 deq2 bs fuel old (st_map s)
  = res_map st_map (dq_loop HT ht_search ht_insert BW bw_write P1 sub1 deq1 bs fuel old s).
Proof.
  induction fuel as [|n IH]; intros old s; [reflexivity|].
  cbn [dq_loop].
  change (s_ioq HT BW P2 (st_map s)) with (s_ioq HT BW P1 s).
  rewrite flush_map.
  set (s1 := flush_ioq HT BW bw_write P1 (s_ioq HT BW P1 s) s).
  change (s_backlog HT BW P2 (st_map s1)) with (s_backlog HT BW P1 s1).
  destruct (s_backlog HT BW P1 s1 <? old); [reflexivity|].
  change (nothing_in_flight HT BW P2 (st_map s1)) with (nothing_in_flight HT BW P1 s1).
  destruct (nothing_in_flight HT BW P1 s1); [reflexivity|].
  change (s_pool HT BW P2 (st_map s1)) with (phi (s_pool HT BW P1 s1)).
  rewrite Hdeq. destruct (deq1 (s_pool HT BW P1 s1)) as [[b p']|]; [|reflexivity].
  change (st_pool HT BW P2 (st_map s1) (phi p')) with (st_map (st_pool HT BW P1 s1 p')).
  set (s2 := st_pool HT BW P1 s1 p').
  destruct (bhas ISFRAG b).
  - rewrite pcf_map.
    set (s3 := pcf HT ht_search ht_insert BW P1 sub1 bs s2 b).
    change (s_backlog HT BW P2 (st_map s3)) with (s_backlog HT BW P1 s3).
    destruct (old <=? s_backlog HT BW P1 s3); [apply IH|reflexivity].
  - destruct (negb (bhas FRAGBLK b) || bhas INTERNAL b).
    + match goal with |- context [st_ioq HT BW P2 ?x ?y] =>
        change (st_ioq HT BW P2 x y)
        with (st_map (st_ioq HT BW P1 (st_ioseq HT BW P1 s2 (s_ioseq HT BW P1 s2 + 1))
                         (store_io (s_ioq HT BW P1 s2) (with_seq b (s_ioseq HT BW P1 s2))))) end.
      match goal with |- context [st_map ?x] => set (s3 := x) end.
      change (s_backlog HT BW P2 (st_map s3)) with (s_backlog HT BW P1 s3).
      destruct (old <=? s_backlog HT BW P1 s3); [apply IH|reflexivity].
    + match goal with |- context [st_ioq HT BW P2 ?x ?y] =>
        change (st_ioq HT BW P2 x y)
        with (st_map (st_ioq HT BW P1 s2 (store_io (s_ioq HT BW P1 s2) b))) end.
      match goal with |- context [st_map ?x] => set (s3 := x) end.
      change (s_backlog HT BW P2 (st_map s3)) with (s_backlog HT BW P1 s3).
      destruct (old <=? s_backlog HT BW P1 s3); [apply IH|reflexivity].
Qed.

Lemma dequeue_block_map : forall s,
  dequeue_block HT ht_search ht_insert BW bw_write P2 sub2 deq2 bs (st_map s)
  = res_map st_map (dequeue_block HT ht_search ht_insert BW bw_write P1 sub1 deq1 bs s).
Proof. intros. unfold dequeue_block. apply dq_loop_map. Qed.

Lemma gnb_loop_map : forall fuel s,
  gnb_loop HT ht_search ht_insert BW bw_write P2 sub2 deq2 bs mb fuel (st_map s)
  = res_map st_map (gnb_loop HT ht_search ht_insert BW bw_write P1 sub1 deq1 bs mb fuel s).
Proof.
  induction fuel as [|n IH]; intros s; [reflexivity|]. cbn [gnb_loop].
  change (s_backlog HT BW P2 (st_map s)) with (s_backlog HT BW P1 s).
  destruct (mb <=? s_backlog HT BW P1 s); [|reflexivity].
  rewrite dequeue_block_map. apply bind_res_map. exact IH.
Qed.

Lemma get_new_block_map : forall s,
  get_new_block HT ht_search ht_insert BW bw_write P2 sub2 deq2 bs mb (st_map s)
  = res_map st_map (get_new_block HT ht_search ht_insert BW bw_write P1 sub1 deq1 bs mb s).
Proof. intros. unfold get_new_block. apply gnb_loop_map. Qed.

Lemma sync_loop_map : forall fuel s,
  sync_loop HT ht_search ht_insert BW bw_write P2 sub2 deq2 bs fuel (st_map s)
  = res_map st_map (sync_loop HT ht_search ht_insert BW bw_write P1 sub1 deq1 bs fuel s).
Proof.
  induction fuel as [|n IH]; intros s; [reflexivity|]. cbn [sync_loop].
  change (s_backlog HT BW P2 (st_map s)) with (s_backlog HT BW P1 s).
  destruct (s_backlog HT BW P1 s =? 0); [reflexivity|].
  change (nothing_in_flight HT BW P2 (st_map s)) with (nothing_in_flight HT BW P1 s).
  destruct (nothing_in_flight HT BW P1 s); [reflexivity|].
  rewrite dequeue_block_map. apply bind_res_map. exact IH.
Qed.

Lemma sync_map : forall s,
  sync HT ht_search ht_insert BW bw_write P2 sub2 deq2 bs (st_map s)
  = res_map st_map (sync HT ht_search ht_insert BW bw_write P1 sub1 deq1 bs s).
Proof. intros. unfold sync. apply sync_loop_map. Qed.

Lemma enqueue_map : forall s b, enqueue HT BW P2 sub2 (st_map s) b = st_map (enqueue HT BW P1 sub1 s b).
Proof. intros [p q a d f c k h t i w l] b. unfold enqueue. stsimpl. rewrite Hsub. reflexivity. Qed.

Lemma finish_map : forall s,
  finish HT ht_search ht_insert BW bw_write P2 sub2 deq2 bs (st_map s)
  = res_map st_map (finish HT ht_search ht_insert BW bw_write P1 sub1 deq1 bs s).
Proof.
  intros. unfold finish. rewrite sync_map. apply bind_res_map. intros a.
  change (s_frag HT BW P2 (st_map a)) with (s_frag HT BW P1 a).
  destruct (s_frag HT BW P1 a) as [fb|]; [|reflexivity].
  rewrite <- sync_map. f_equal. rewrite <- enqueue_map. reflexivity.
Qed.

Lemma be_event_map : forall s e,
  be_event HT ht_search ht_insert BW bw_write P2 sub2 deq2 bs mb (st_map s) e
  = res_map st_map (be_event HT ht_search ht_insert BW bw_write P1 sub1 deq1 bs mb s e).
Proof.
  intros s e. destruct e; cbn [be_event].
  - reflexivity.
  - reflexivity.
  - rewrite get_new_block_map. apply bind_res_map. intros a. reflexivity.
  - simpl. f_equal. rewrite enqueue_map. reflexivity.
  - rewrite get_new_block_map. apply bind_res_map. intros a. simpl. f_equal. apply enqueue_map.
Qed.

Lemma be_events_map : forall l s,
  be_events HT ht_search ht_insert BW bw_write P2 sub2 deq2 bs mb (st_map s) l
  = res_map st_map (be_events HT ht_search ht_insert BW bw_write P1 sub1 deq1 bs mb s l).
Proof.
  induction l as [|e r IH]; intros s; [reflexivity|]. cbn [be_events].
  rewrite be_event_map. apply bind_res_map. exact IH.
Qed.

(* the naturality of the complete run *)
Theorem run_pool_map : forall p0 ht0 bw0 files,
  run HT ht_search ht_insert BW bw_write P2 sub2 deq2 bs mb (phi p0) ht0 bw0 files
  = res_map st_map (run HT ht_search ht_insert BW bw_write P1 sub1 deq1 bs mb p0 ht0 bw0 files).
Proof.
  intros. unfold run. destruct (fe_files bs fe_init 0 files) as [[f evs]| | |]; try reflexivity.
  change (init_st HT BW P2 (phi p0) ht0 bw0) with (st_map (init_st HT BW P1 p0 ht0 bw0)).
  rewrite be_events_map. apply bind_res_map. apply finish_map.
Qed.

End PoolMap.
