(* BpPool — the executions of TpExec.v ARE runs of C09's labelled transition system: an API call
   executed along a schedule is a sequence of enabled labels of [PoolModel.step] whose only completed
   API call is the one being made; consequently every pool state the block processor ever sees is
   [reachable] in the sense of C09 (so every theorem of Properties_C09.v applies to it).
   No hypothesis on the schedule, the number of workers or the callback status is needed here. *)
From Coq Require Import List ZArith Bool Arith Lia.
From SqfsV Require Import C09.PoolModel C09.PoolLemmas C09.PoolSafety C09.PoolProgress C09.PoolRefine.
From SqfsV Require Import BpPool.TpExec.
Import ListNotations.

Section Trace.
Variable cb_st : nat -> Z.
Variable sched : schedule.

Notation lrun := (PoolModel.run cbmark cb_st true).

Lemma lrun_app : forall l1 l2 s s1 s2 es1 es2,
  lrun s l1 = Some (s1, es1) -> lrun s1 l2 = Some (s2, es2) -> lrun s (l1 ++ l2) = Some (s2, es1 ++ es2).
Proof.
  induction l1 as [|a l1 IH]; simpl; intros l2 s s1 s2 es1 es2 H1 H2.
  - injection H1 as E1 E2. subst. exact H2.
  - destruct (step cbmark cb_st true s a) as [[s0 e]|]; [|discriminate].
    destruct (lrun s0 l1) as [[s3 es3]|] eqn:R; [|discriminate].
    injection H1 as E1 E2. subst. rewrite (IH l2 s0 s1 s2 es3 es2 R H2). reflexivity.
Qed.

Lemma rets_app : forall es1 es2, rets (es1 ++ es2) = rets es1 ++ rets es2.
Proof.
  induction es1 as [|e es1 IH]; simpl; intros; [reflexivity|].
  destruct e; simpl; rewrite ?IH; reflexivity.
Qed.

(* the trace of a list of choices: the labels that were enabled, in order *)
Definition is_run (s s' : pool) (rs : list ret) : Prop :=
  exists ls es, lrun s ls = Some (s', es) /\ map snd (rets es) = rs.

Lemma is_run_refl : forall s, is_run s s [].
Proof. intros. exists [], []. split; reflexivity. Qed.

Lemma is_run_trans : forall s s1 s2 r1 r2, is_run s s1 r1 -> is_run s1 s2 r2 -> is_run s s2 (r1 ++ r2).
Proof.
  intros s s1 s2 r1 r2 (l1 & e1 & A1 & B1) (l2 & e2 & A2 & B2).
  exists (l1 ++ l2), (e1 ++ e2). split; [eapply lrun_app; eauto|].
  rewrite rets_app, map_app, B1, B2. reflexivity.
Qed.

Lemma do_choice_run : forall o s c s1 x, do_choice cb_st o s c = (s1, x) ->
  is_run s s1 (match x with Some r => [r] | None => [] end).
Proof.
  intros o s c s1 x H. unfold do_choice, pstep in H.
  destruct (step cbmark cb_st true s (label_of o s c)) as [[s' e]|] eqn:E.
  - injection H as E1 E2. subst. exists [label_of o s c], [e]. split.
    + simpl. rewrite E. reflexivity.
    + destruct e; reflexivity.
  - injection H as E1 E2. subst. apply is_run_refl.
Qed.

Lemma exec_list_run : forall o l s,
  match exec_list cb_st o s l with
  | XRet s' r _ => is_run s s' [r]
  | XPend s' => is_run s s' []
  end.
Proof.
  induction l as [|c t IH]; intros s; cbn [exec_list]; [apply is_run_refl|].
  destruct (do_choice cb_st o s c) as [s1 x] eqn:D. pose proof (do_choice_run _ _ _ _ _ D) as R.
  destruct x as [r|]; [exact R|].
  specialize (IH s1). destruct (exec_list cb_st o s1 t).
  - exact (is_run_trans _ _ _ _ _ R IH).
  - exact (is_run_trans _ _ _ _ _ R IH).
Qed.

Lemma exec_rounds_run : forall fuel o s k s' r rest k',
  exec_rounds cb_st sched fuel o s k = Some (s', r, rest, k') -> is_run s s' [r].
Proof.
  induction fuel as [|f IH]; intros o s k s' r rest k' H; [discriminate|]. cbn [exec_rounds] in H.
  pose proof (exec_list_run o (sched k) s) as R.
  destruct (exec_list cb_st o s (sched k)) as [s1 r1 rest1|s1].
  - injection H as E1 E2 E3 E4. subst. exact R.
  - exact (is_run_trans _ _ _ _ _ R (IH _ _ _ _ _ _ _ H)).
Qed.

(* an API call is a run of the LTS during which exactly one API call completes *)
Theorem exec_call_run : forall o s cur k s' r rest k',
  exec_call cb_st sched o s cur k = Some (s', r, rest, k') -> is_run s s' [r].
Proof.
  intros o s cur k s' r rest k' H. unfold exec_call in H.
  pose proof (exec_list_run o cur s) as R1.
  destruct (exec_list cb_st o s cur) as [s1 r1 rest1|s1].
  { injection H as E1 E2 E3 E4. subst. exact R1. }
  pose proof (exec_list_run o (sched k) s1) as R2.
  destruct (exec_list cb_st o s1 (sched k)) as [s2 r2 rest2|s2].
  { injection H as E1 E2 E3 E4. subst. exact (is_run_trans _ _ _ _ _ R1 R2). }
  pose proof (exec_rounds_run _ _ _ _ _ _ _ _ H) as R3.
  exact (is_run_trans _ _ _ _ _ R1 (is_run_trans _ _ _ _ _ R2 R3)).
Qed.

(* ---- reachability ---- *)
Lemma is_run_reachable : forall n s s' rs,
  reachable cbmark cb_st true n s -> is_run s s' rs -> reachable cbmark cb_st true n s'.
Proof.
  intros n s s' rs (l0 & e0 & H0) (l1 & e1 & H1 & _).
  exists (l0 ++ l1), (e0 ++ e1). eapply lrun_app; eauto.
Qed.

Variable A : Type.
Variable work : A -> A.
Variable dflt : A.

Definition tp_reach (n : nat) (p : tp A) : Prop := reachable cbmark cb_st true n (tp_pool A p).

Theorem tp_init_reach : forall n prefix, tp_reach n (tp_init A n prefix).
Proof. intros. exists [], []. reflexivity. Qed.

Theorem tp_submit_reach : forall n p b, tp_reach n p -> tp_reach n (tp_submit cb_st sched A p b).
Proof.
  intros n p b H. unfold tp_reach, tp_submit in *.
  destruct (exec_call cb_st sched (OSubmit (2 * length (tp_tbl A p))) (tp_pool A p) (tp_cur A p) (tp_k A p))
    as [[[[s' r] rest] k']|] eqn:E; [|exact H].
  simpl. eapply is_run_reachable; [exact H|]. eapply exec_call_run; eauto.
Qed.

Theorem tp_dequeue_reach : forall n p b p', tp_reach n p ->
  tp_dequeue cb_st sched A work dflt p = Some (b, p') -> tp_reach n p'.
Proof.
  intros n p b p' H D. unfold tp_reach, tp_dequeue in *.
  destruct (exec_call cb_st sched ODequeue (tp_pool A p) (tp_cur A p) (tp_k A p))
    as [[[[s' r] rest] k']|] eqn:E; [|discriminate].
  destruct r; try discriminate. injection D as D1 D2. subst. simpl.
  eapply is_run_reachable; [exact H|]. eapply exec_call_run; eauto.
Qed.

End Trace.
