(* BpPool — composition of C02 (block processor over an abstract FIFO pool) with C09 (the labelled
   transition system of lib/util/src/threadpool.c).

   1. [run_refines_spec_inv]: C02's top theorem for pools whose two laws hold under an invariant of the
      pool state (instead of unconditionally).  Proved by REUSING C02's theorem [run_refines_spec_full]
      on the sigma type { p | inv p } (whose laws are unconditional) and moving the result to the raw
      state type with the naturality of [run] in the pool (PoolMap.v).
   2. [threadpool_laws]: the pool built from C09's LTS (TpExec.v) is such a pool, for every n >= 1 and
      every admissible schedule (TpLaws.v).
   3. [bp_on_threadpool_l]: the block processor running ON THE LTS. *)
From Coq Require Import List NArith ZArith Bool.
From SqfsV Require Import C09.PoolModel C09.PoolRefine.
From SqfsV Require Import C02.GenBlk C02.BpModel C02.BpSpec C02.BpLemmas C02.BpQueue C02.BpProofs C02.BpConcrete.
From SqfsV Require Import C09.PoolSafety.
From SqfsV Require Import BpPool.PoolMap.
From SqfsV Require Import BpPool.TpExec BpPool.TpReturn BpPool.TpLaws BpPool.TpTrace.
Import ListNotations.
Local Open Scope N_scope.

(* ------------------------------------------------------------------ *)
(* 1. pools with an invariant                                          *)
(* ------------------------------------------------------------------ *)
Section InvPool.
Variable hash : list N -> N.
Variable compress : list N -> option (list N).
Variable HT : Type.
Variable ht_search : HT -> blk -> option (N * N).
Variable ht_insert : HT -> blk -> N * N -> HT.
Variable BW : Type.
Variable bw_write : BW -> blk -> BW * N.
Variable P : Type.
Variable sub : P -> blk -> P.
Variable deq : P -> option (blk * P).
Variable alpha : P -> list blk.
Variable inv : P -> Prop.
Variable bs mb : N.
Variable bw0 : BW.

Notation pblock := (process_block hash compress).

Hypothesis sub_ok : forall p b, inv p -> inv (sub p b) /\ alpha (sub p b) = alpha p ++ [b].
Hypothesis deq_inv : forall p b p', inv p -> deq p = Some (b, p') -> inv p'.
Hypothesis deq_cons : forall p b r, inv p -> alpha p = b :: r ->
  exists p', deq p = Some (pblock b, p') /\ alpha p' = r.
Hypothesis Hmb : 3 <= mb.

Definition SP : Type := { p : P | inv p }.

Definition ssub (x : SP) (b : blk) : SP :=
  exist _ (sub (proj1_sig x) b) (proj1 (sub_ok (proj1_sig x) b (proj2_sig x))).

Definition sdeq_aux (p : P) (H : inv p) (o : option (blk * P)) : deq p = o -> option (blk * SP) :=
  match o with
  | Some (b, p') => fun E => Some (b, exist _ p' (deq_inv p b p' H E))
  | None => fun _ => None
  end.

Definition sdeq (x : SP) : option (blk * SP) :=
  sdeq_aux (proj1_sig x) (proj2_sig x) (deq (proj1_sig x)) eq_refl.

Definition salpha (x : SP) : list blk := alpha (proj1_sig x).

Lemma sdeq_aux_proj : forall p H o E,
  o = match sdeq_aux p H o E with Some (b, y) => Some (b, proj1_sig y) | None => None end.
Proof. intros p H [[b p']|] E; reflexivity. Qed.

Lemma sdeq_aux_some : forall p H o E b p', o = Some (b, p') ->
  exists H', sdeq_aux p H o E = Some (b, exist _ p' H').
Proof.
  intros p H [[b0 p0]|] E b p' Ho; [|discriminate].
  injection Ho as E1 E2. subst b0 p0. simpl. eexists. reflexivity.
Qed.

Lemma ssub_law : forall x b, salpha (ssub x b) = salpha x ++ [b].
Proof. intros [p H] b. unfold salpha, ssub. simpl. apply (proj2 (sub_ok p b H)). Qed.

Lemma sdeq_law : forall x b r, salpha x = b :: r ->
  exists y, sdeq x = Some (pblock b, y) /\ salpha y = r.
Proof.
  intros [p H] b r Ha. unfold salpha in *. simpl in Ha.
  destruct (deq_cons p b r H Ha) as [p' [D A']].
  destruct (sdeq_aux_some p H (deq p) eq_refl _ _ D) as [H' E].
  exists (exist _ p' H'). split; [exact E|exact A'].
Qed.

Theorem run_refines_spec_inv : forall p0 ht0 files,
  inv p0 -> alpha p0 = [] -> 0 < bs -> Forall file_ok files ->
  exists s,
    run HT ht_search ht_insert BW bw_write P sub deq bs mb p0 ht0 bw0 files = Ok s /\
    (s_bw _ _ _ s, s_writes _ _ _ s)
      = bw_run BW bw_write bw0 [] (spec_blocks hash compress HT ht_search ht_insert bs ht0 files) /\
    s_backlog _ _ _ s = 0 /\
    (forall k, s_ino _ _ _ s k = spec_inodes hash compress HT ht_search ht_insert BW bw_write bs ht0 bw0 files k) /\
    s_ftbl _ _ _ s = spec_ftbl hash compress HT ht_search ht_insert BW bw_write bs ht0 bw0 files /\
    inv (s_pool _ _ _ s).
Proof.
  intros p0 ht0 files Hi Ha Hbs Hf.
  destruct (run_refines_spec_full hash compress HT ht_search ht_insert BW bw_write SP ssub sdeq bs mb bw0
              salpha ssub_law sdeq_law Hmb (exist _ p0 Hi) ht0 files Ha Hbs Hf) as (s & R & A & B & C & D).
  pose proof (run_pool_map HT ht_search ht_insert BW bw_write SP P (@proj1_sig P inv) ssub sdeq sub deq bs mb
                (fun p b => eq_refl)
                (fun x => sdeq_aux_proj (proj1_sig x) (proj2_sig x) (deq (proj1_sig x)) eq_refl)
                (exist _ p0 Hi) ht0 bw0 files) as M.
  simpl in M. rewrite R in M. simpl in M.
  exists (st_map HT BW SP P (@proj1_sig P inv) s).
  split; [exact M|]. split; [exact A|]. split; [exact B|]. split; [exact C|]. split; [exact D|].
  simpl. apply proj2_sig.
Qed.

End InvPool.

(* ------------------------------------------------------------------ *)
(* 2./3. the pool of threadpool.c                                      *)
(* ------------------------------------------------------------------ *)
Section OnThreadpool.
Variable hash : list N -> N.
Variable compress : list N -> option (list N).
Variable HT : Type.
Variable ht_search : HT -> blk -> option (N * N).
Variable ht_insert : HT -> blk -> N * N -> HT.
Variable BW : Type.
Variable bw_write : BW -> blk -> BW * N.

Variable cb_st : nat -> Z.         (* status returned by the worker callback, per work item *)
Variable sched : schedule.         (* the rounds of the schedule *)
Variable n : nat.                  (* number of worker threads *)

Notation pblock := (process_block hash compress).

Definition dflt_blk : blk := mkB 0 0 no_flags 0 0 [].

(* state, submit, dequeue, abstraction and invariant of the pool of threadpool.c, payload = blk,
   callback = process_block *)
Definition tpool : Type := tp blk.
Definition tpool_submit : tpool -> blk -> tpool := tp_submit cb_st sched blk.
Definition tpool_dequeue : tpool -> option (blk * tpool) := tp_dequeue cb_st sched blk pblock dflt_blk.
Definition tpool_alpha : tpool -> list blk := tp_alpha blk pblock dflt_blk.
(* invariant: C09's invariants hold, no call is in progress, the items in flight are the indices of
   unprocessed table entries -- and the LTS state is reachable in the sense of C09 *)
Definition tpool_inv (p : tpool) : Prop :=
  GoodP cb_st n blk p /\ reachable cbmark cb_st true n (tp_pool blk p).
Definition tpool_init (prefix : list choice) : tpool := tp_init blk n prefix.

Hypothesis Hnf : forall d, cb_st d = 0%Z.
Hypothesis Hn : (n >= 1)%nat.
Hypothesis Hadm : admissible n sched.

Theorem threadpool_laws :
  (forall prefix, tpool_inv (tpool_init prefix) /\ tpool_alpha (tpool_init prefix) = []) /\
  (forall p b, tpool_inv p -> tpool_inv (tpool_submit p b) /\ tpool_alpha (tpool_submit p b) = tpool_alpha p ++ [b]) /\
  (forall p b p', tpool_inv p -> tpool_dequeue p = Some (b, p') -> tpool_inv p') /\
  (forall p b r, tpool_inv p -> tpool_alpha p = b :: r ->
     exists p', tpool_dequeue p = Some (pblock b, p') /\ tpool_alpha p' = r).
Proof.
  split; [|split; [|split]].
  - intros. destruct (tp_init_good cb_st n blk pblock dflt_blk prefix) as [H1 H2].
    split; [split; [exact H1|apply tp_init_reach]|exact H2].
  - intros p b [H R]. destruct (tp_submit_ok cb_st Hnf sched n Hn Hadm blk pblock dflt_blk p b H) as [H1 H2].
    split; [split; [exact H1|apply tp_submit_reach; exact R]|exact H2].
  - intros p b p' [H R] D. split.
    + exact (tp_dequeue_good cb_st Hnf sched n Hn Hadm blk pblock dflt_blk p b p' H D).
    + exact (tp_dequeue_reach cb_st sched blk pblock dflt_blk n p b p' R D).
  - intros p b r [H R] E.
    destruct (tp_dequeue_ok cb_st Hnf sched n Hn Hadm blk pblock dflt_blk p b r H E) as (p' & D & A' & _).
    exists p'. auto.
Qed.

(* the block processor on the LTS of threadpool.c *)
Definition run_on_threadpool (prefix : list choice) (bs backlog : N) (ht0 : HT) (bw0 : BW) (files : list file) :=
  run HT ht_search ht_insert BW bw_write tpool tpool_submit tpool_dequeue bs (clamp_backlog backlog)
      (tpool_init prefix) ht0 bw0 files.

Theorem bp_on_threadpool_l : forall prefix bs backlog ht0 bw0 files,
  0 < bs -> Forall file_ok files ->
  exists s,
    run_on_threadpool prefix bs backlog ht0 bw0 files = Ok s /\
    (s_bw _ _ _ s, s_writes _ _ _ s)
      = bw_run BW bw_write bw0 [] (spec_blocks hash compress HT ht_search ht_insert bs ht0 files) /\
    s_backlog _ _ _ s = 0 /\
    (forall k, s_ino _ _ _ s k = spec_inodes hash compress HT ht_search ht_insert BW bw_write bs ht0 bw0 files k) /\
    s_ftbl _ _ _ s = spec_ftbl hash compress HT ht_search ht_insert BW bw_write bs ht0 bw0 files /\
    tpool_inv (s_pool _ _ _ s).
Proof.
  intros prefix bs backlog ht0 bw0 files Hbs Hf.
  destruct threadpool_laws as (L0 & L1 & L2 & L3).
  destruct (L0 prefix) as [I0 A0].
  exact (run_refines_spec_inv hash compress HT ht_search ht_insert BW bw_write tpool tpool_submit tpool_dequeue
           tpool_alpha tpool_inv bs (clamp_backlog backlog) bw0 L1 L2 L3 (clamp_ge3 backlog)
           (tpool_init prefix) ht0 files I0 A0 Hbs Hf).
Qed.

End OnThreadpool.
