(* BpPool — the pool [tp_submit]/[tp_dequeue] built from C09's LTS (TpExec.v) satisfies the two laws
   of a FIFO pool under the invariant [GoodP], for every number of workers n >= 1 and every admissible
   schedule:
     submit appends to the abstraction [tp_alpha];
     dequeue of  b :: r  returns  work b  and leaves  r.
   "The mapping of payloads to items is harmless" is part of these statements: [tp_alpha] and the
   result of [tp_dequeue] are payloads obtained through [decode]; the laws say that what comes back is
   the worker function applied to exactly the payload that was submitted, in submission order. *)
From Coq Require Import List ZArith Bool Arith Lia.
From SqfsV Require Import C09.PoolModel C09.PoolLemmas C09.PoolSafety C09.PoolProgress C09.PoolFailure
  C09.PoolRefine.
From SqfsV Require Import BpPool.TpExec BpPool.TpReturn.
Import ListNotations.

Section Laws.
Variable cb_st : nat -> Z.
Hypothesis Hnf : forall d, cb_st d = 0%Z.
Variable sched : schedule.
Variable n : nat.
Hypothesis Hn : n >= 1.
Hypothesis Hadm : admissible n sched.
Variable A : Type.
Variable work : A -> A.
Variable dflt : A.

Notation tp := (tp A).
Notation tp_submit := (tp_submit cb_st sched A).
Notation tp_dequeue := (tp_dequeue cb_st sched A work dflt).
Notation tp_alpha := (tp_alpha A work dflt).
Notation decode := (decode A work dflt).

(* an item of the pool that stands for a submitted, unprocessed payload of the table *)
Definition item_ok (len : nat) (d : nat) : Prop := Nat.even d = true /\ Nat.div2 d < len.

Record GoodP (p : tp) : Prop := {
  gp_G : G cb_st n (tp_pool A p);
  gp_idle : ms (tp_pool A p) = MIdle;
  gp_items : Forall (item_ok (length (tp_tbl A p))) (pending (tp_pool A p))
}.

Lemma tp_init_good : forall prefix, GoodP (tp_init A n prefix) /\ tp_alpha (tp_init A n prefix) = [].
Proof.
  intros. split; [|reflexivity]. constructor; simpl.
  - apply G_init.
  - reflexivity.
  - constructor.
Qed.

Lemma even_double : forall k, Nat.even (2 * k) = true.
Proof. intros. rewrite Nat.even_mul. reflexivity. Qed.

Lemma div2_double' : forall k, Nat.div2 (2 * k) = k.
Proof. intros. apply Nat.div2_double. Qed.

Lemma decode_app_old : forall tbl b d, item_ok (length tbl) d -> decode (tbl ++ [b]) d = decode tbl d.
Proof. intros tbl b d [E L]. unfold TpExec.decode. rewrite app_nth1 by exact L. reflexivity. Qed.

Lemma decode_new : forall tbl b, decode (tbl ++ [b]) (2 * length tbl) = b.
Proof.
  intros. unfold TpExec.decode. rewrite even_double, div2_double'.
  rewrite app_nth2 by apply le_n. rewrite Nat.sub_diag. reflexivity.
Qed.

Lemma decode_processed : forall tbl d, Nat.even d = true -> decode tbl (cbmark d) = work (decode tbl d).
Proof.
  intros tbl d E. unfold TpExec.decode, cbmark. rewrite Nat.even_succ, <- Nat.negb_even, E. simpl.
  f_equal. f_equal.
  destruct (Nat.even_spec d) as [Ev _]. destruct (Ev E) as [k ->].
  rewrite div2_double'. apply Nat.div2_succ_double.
Qed.

(* ---- law 1: submit appends ---- *)
Theorem tp_submit_ok : forall p b, GoodP p ->
  GoodP (tp_submit p b) /\ tp_alpha (tp_submit p b) = tp_alpha p ++ [b].
Proof.
  intros [s tbl cur k] b [HG HM HI]. cbn [tp_pool tp_tbl tp_cur tp_k] in *.
  unfold TpExec.tp_submit, TpExec.tp_alpha. cbn [tp_pool tp_tbl tp_cur tp_k].
  assert (Ho : OSubmit (2 * length tbl) <> ODestroy) by discriminate.
  destruct (exec_call_ok cb_st Hnf sched n Hn Hadm _ Ho s cur k HG HM) as (s' & r & rest & k' & E & G' & R & M').
  rewrite E. cbn [tp_pool tp_tbl tp_cur tp_k].
  cbn [spec_call] in R. injection R as R1 R2.
  change (length tbl + (length tbl + 0)) with (2 * length tbl) in *.
  split.
  - constructor; cbn [tp_pool tp_tbl tp_cur tp_k]; auto.
    rewrite <- R1, app_length. cbn [length]. apply Forall_app. split.
    + eapply Forall_impl; [|exact HI]. intros d [Ev L]. split; [exact Ev|lia].
    + constructor; [|constructor]. split; [apply even_double|rewrite div2_double'; lia].
  - rewrite <- R1, map_app. cbn [map]. rewrite decode_new. f_equal.
    apply map_ext_in. intros d Hd. apply decode_app_old. rewrite Forall_forall in HI. apply HI. exact Hd.
Qed.

(* ---- every successful dequeue preserves the invariant ---- *)
Theorem tp_dequeue_good : forall p b p', GoodP p -> tp_dequeue p = Some (b, p') -> GoodP p'.
Proof.
  intros [s tbl cur k] b p' [HG HM HI] H. cbn [tp_pool tp_tbl tp_cur tp_k] in *.
  unfold TpExec.tp_dequeue in H. cbn [tp_pool tp_tbl tp_cur tp_k] in H.
  assert (Ho : ODequeue <> ODestroy) by discriminate.
  destruct (exec_call_ok cb_st Hnf sched n Hn Hadm _ Ho s cur k HG HM) as (s' & r & rest & k' & E & G' & R & M').
  rewrite E in H. destruct r; try discriminate. injection H as H1 H2. subst p'.
  constructor; cbn [tp_pool tp_tbl tp_cur tp_k]; auto.
  simpl in R. destruct (pending s) as [|d0 q] eqn:Q; injection R as R1 R2; rewrite <- R1.
  - constructor.
  - inversion HI; assumption.
Qed.

(* ---- law 2: dequeue hands back the oldest payload, processed ---- *)
Theorem tp_dequeue_ok : forall p b r, GoodP p -> tp_alpha p = b :: r ->
  exists p', tp_dequeue p = Some (work b, p') /\ tp_alpha p' = r /\ GoodP p'.
Proof.
  intros p b r HGP Ha.
  assert (HGP' := HGP). destruct p as [s tbl cur k]. destruct HGP' as [HG HM HI].
  cbn [tp_pool tp_tbl tp_cur tp_k] in *.
  unfold TpExec.tp_alpha in Ha. cbn [tp_pool tp_tbl] in Ha.
  destruct (pending s) as [|d q] eqn:Q; [discriminate|]. simpl in Ha. injection Ha as Hb Hr.
  assert (Ho : ODequeue <> ODestroy) by discriminate.
  destruct (exec_call_ok cb_st Hnf sched n Hn Hadm _ Ho s cur k HG HM) as (s' & rt & rest & k' & E & G' & R & M').
  rewrite Q in R. simpl in R. injection R as R1 R2. subst rt.
  assert (Ev : Nat.even d = true). { inversion HI as [|? ? [Ev _] _]. exact Ev. }
  assert (D : tp_dequeue (mkTp A s tbl cur k) = Some (work b, mkTp A s' tbl rest k')).
  { unfold TpExec.tp_dequeue. cbn [tp_pool tp_tbl tp_cur tp_k]. rewrite E.
    rewrite decode_processed by exact Ev. rewrite Hb. reflexivity. }
  eexists. split; [exact D|]. split.
  - unfold TpExec.tp_alpha. cbn [tp_pool tp_tbl]. rewrite <- R1. exact Hr.
  - eapply tp_dequeue_good; [exact HGP|exact D].
Qed.

End Laws.
