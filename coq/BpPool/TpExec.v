(* BpPool — a deterministic-looking submit/dequeue pair built FROM C09's labelled transition system of
   lib/util/src/threadpool.c (C09/PoolModel.v), for use as the worker pool of C02's block processor.
   Definitions only (everything here computes; the proofs are in TpReturn.v / TpLaws.v).

   Scheduler oracle.  The LTS leaves open which thread performs the next critical section.  Here that
   is decided by a schedule: a sequence of [choice]s
       CMain          the main thread moves: it starts the API call it is about to make (label [LCall o])
                      or, if it was woken inside dequeue, re-evaluates its loop condition ([LMain])
       CWorker w      worker w performs its next critical section / its callback ([LWorker w])
       CSpurMain      the main thread returns spuriously from pthread_cond_wait ([LSpurMain])
       CSpurWorker w  the same for worker w ([LSpurWorker w])
   A choice whose label is not enabled in the current state is skipped (that thread is blocked).
   An API call of the main thread = run the LTS along the schedule until the call's [ERet] event.  So
   any number of worker steps may happen between two calls of the main thread, before the call takes
   the mutex for the first time, and while it is blocked.

   Shape of a schedule: an arbitrary finite prefix ([tp_cur] of the initial state) followed by an
   infinite sequence of rounds, [schedule := nat -> round], a round being a finite list of choices.
   Admissibility ([admissible], used by the theorems, not by the definitions) is weak fairness with
   a bound: every round gives every thread (main, worker 0 .. n-1) at least one turn.  Nothing else
   is required: order, repetitions, lengths of the rounds and -- in particular -- the spurious
   wake-ups in them are arbitrary.  (Every sequence of choices in which each thread gets a turn at
   least once in any K consecutive choices is of this shape: cut it into pieces of length K.)

   Why a call returns (TpReturn.v): C09's invariants ([Inv], [Sync]) locate the ticket dequeue is waiting
   for -- in [done] (then the woken main thread returns it), with a worker, or in the queue (then no
   worker sleeps) -- which yields a thread whose next step makes progress; progress is measured by
   [nu] below, a variant of C09's measure [mu] that a spurious wake-up followed by going back to sleep
   leaves unchanged ([mu] goes up and down by one), so that spurious wake-ups need not be rationed.

   Items.  C09's items are [nat] and its callback is [cb_val : nat -> nat].  The payloads (blocks, for
   C02) are kept in a table [tp_tbl] in submission order -- the heap, in C terms: threadpool.c only
   sees a [void *].  Submission number i is the item [2*i]; the callback is [cb_val := S], so [2*i+1]
   is "payload i after the worker callback"; [decode] maps an item handed back by dequeue to a
   payload: an even item [2*i] to the unprocessed payload i (never happens: TpLaws.v), an odd item
   [2*i+1] to [work] applied to payload i. *)
From Coq Require Import List ZArith Bool Arith.
From SqfsV Require Import C09.PoolModel C09.PoolLemmas C09.PoolSafety C09.PoolProgress C09.PoolRefine.
Import ListNotations.

Inductive choice := CMain | CWorker (w : nat) | CSpurMain | CSpurWorker (w : nat).

Definition round := list choice.

Definition schedule := nat -> round.

(* admissible schedules for a pool with n workers: every round gives every thread a turn *)
Definition fair_round (n : nat) (r : round) : Prop :=
  In CMain r /\ forall w, w < n -> In (CWorker w) r.

Definition admissible (n : nat) (sched : schedule) : Prop := forall k, fair_round n (sched k).

(* progress measure: like C09's [mu], but a sleeping and a (possibly spuriously) woken thread weigh the
   same, and the main thread weighs nothing *)
Definition wnu (x : wstate) : nat :=
  match x with
  | WReady None => 2 | WReady (Some _) => 3 | WWorking _ => 4 | WWoken => 1 | WWaiting => 1 | WExited => 0
  end.
Definition nu (s : pool) : nat := 5 * length (queue s) + sum_map wnu (ws s).

(* the callback's effect on an item: "processed" *)
Definition cbmark : nat -> nat := S.

Section Exec.
Variable cb_st : nat -> Z.       (* the callback's return status (0 = success) per item *)
Variable sched : schedule.

(* the LTS of the repaired code (fx = true: lib/util/src/threadpool.c as it is in the repository) *)
Definition pstep : pool -> label -> option (pool * event) := PoolModel.step cbmark cb_st true.

Definition label_of (o : op) (s : pool) (c : choice) : label :=
  match c with
  | CMain => match ms s with MIdle => LCall o | _ => LMain end
  | CWorker w => LWorker w
  | CSpurMain => LSpurMain
  | CSpurWorker w => LSpurWorker w
  end.

Definition ret_of (e : event) : option ret :=
  match e with ERet _ r => Some r | _ => None end.

(* one scheduler choice while the main thread is about to make / is inside the call [o] *)
Definition do_choice (o : op) (s : pool) (c : choice) : pool * option ret :=
  match pstep s (label_of o s c) with
  | Some (s', e) => (s', ret_of e)
  | None => (s, None)
  end.

Inductive xres :=
| XRet (s : pool) (r : ret) (rest : list choice)   (* the call returned r; unused choices *)
| XPend (s : pool).                                 (* list used up, call not yet returned *)

Fixpoint exec_list (o : op) (s : pool) (l : list choice) : xres :=
  match l with
  | [] => XPend s
  | c :: t =>
      match do_choice o s c with
      | (s', Some r) => XRet s' r t
      | (s', None) => exec_list o s' t
      end
  end.

(* whole rounds, from round k on; [fuel] bounds the number of rounds *)
Fixpoint exec_rounds (fuel : nat) (o : op) (s : pool) (k : nat) : option (pool * ret * list choice * nat) :=
  match fuel with
  | O => None
  | S f =>
      match exec_list o s (sched k) with
      | XRet s' r rest => Some (s', r, rest, S k)
      | XPend s' => exec_rounds f o s' (S k)
      end
  end.

(* an API call: finish the current round, run one more complete round (after which the call has been
   started), then at most [nu + 1] further rounds.  TpReturn.v: never [None] for an admissible schedule. *)
Definition exec_call (o : op) (s : pool) (cur : list choice) (k : nat) : option (pool * ret * list choice * nat) :=
  match exec_list o s cur with
  | XRet s' r rest => Some (s', r, rest, k)
  | XPend s1 =>
      match exec_list o s1 (sched k) with
      | XRet s' r rest => Some (s', r, rest, S k)
      | XPend s2 => exec_rounds (S (nu s2)) o s2 (S k)
      end
  end.

(* ---- the pool offered to the block processor ---- *)
Variable A : Type.               (* payload (C02: blk) *)
Variable work : A -> A.          (* the worker callback on payloads (C02: process_block) *)
Variable dflt : A.

Record tp := mkTp {
  tp_pool : pool;                (* state of the LTS *)
  tp_tbl : list A;               (* payloads in submission order *)
  tp_cur : list choice;          (* rest of the current round *)
  tp_k : nat                     (* number of the next round *)
}.

Definition tp_init (n : nat) (prefix : list choice) : tp := mkTp (init n) [] prefix 0.

Definition decode (tbl : list A) (d : nat) : A :=
  let x := nth (Nat.div2 d) tbl dflt in
  if Nat.even d then x else work x.

Definition tp_submit (p : tp) (b : A) : tp :=
  match exec_call (OSubmit (2 * length (tp_tbl p))) (tp_pool p) (tp_cur p) (tp_k p) with
  | Some (s', _, cur', k') => mkTp s' (tp_tbl p ++ [b]) cur' k'
  | None => p
  end.

Definition tp_dequeue (p : tp) : option (A * tp) :=
  match exec_call ODequeue (tp_pool p) (tp_cur p) (tp_k p) with
  | Some (s', RItem d, cur', k') => Some (decode (tp_tbl p) d, mkTp s' (tp_tbl p) cur' k')
  | _ => None
  end.

(* abstraction: the payloads submitted and not yet handed back, in submission order *)
Definition tp_alpha (p : tp) : list A := map (decode (tp_tbl p)) (pending (tp_pool p)).

End Exec.
