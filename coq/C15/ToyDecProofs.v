(* C15 -- the toy decoder of ToyCodec.v (the Gallina twin of props/C15/toy.h, the
   codec the tie runs the real driver loops on) meets the decoder contract of
   XfrmSpec.v, for every setting of its knobs.  Hence the hypotheses of the
   stream theorems are satisfiable, and the tie's instance is covered by them. *)
From Coq Require Import List NArith Bool Arith Lia.
From SqfsV Require Import C15.XfrmModel C15.XfrmSpec C15.XfrmBase C15.ToyCodec C15.ToyFormat.
Import ListNotations.

Definition Post (stop : dstop) (ph : dphase) (s : nat) (c o : list N) (ph' : dphase) (s' : nat) : Prop :=
  match stop with
  | DsMore => Trans ph s c o ph' s'
  | DsEnd => Rest ph s c o /\ ph' = DMagic /\ s' = 0
  | DsErr => Bad ph s c
  end.

Definition Spec (ph : dphase) (s : nat) (inp : list N) (ib ob cn : nat) (rout : list N)
           (res : dphase * nat * nat * list N * dstop) : Prop :=
  let '(ph', s', cn', rout', stop) := res in
  exists c o t, inp = c ++ t /\ cn' = cn + length c /\ rout' = rev o ++ rout /\
                length c <= ib /\ length o <= ob /\ s' < 256 /\ Post stop ph s c o ph' s'.

Lemma Post_step stop ph s c1 o1 ph1 s1 c o ph' s' :
  Trans ph s c1 o1 ph1 s1 -> Post stop ph1 s1 c o ph' s' -> Post stop ph s (c1 ++ c) (o1 ++ o) ph' s'.
Proof.
  intros HT HP. destruct stop; cbn [Post] in *.
  - eapply T_trans; eauto.
  - destruct HP as (H1 & H2 & H3). split; [|auto]. eapply T_rest; eauto.
  - eapply T_bad; eauto.
Qed.

Lemma glue ph s ph1 s1 c1 o1 inp1 ib1 ob1 cn1 rout1 res inp ib ob cn rout :
  Trans ph s c1 o1 ph1 s1 -> inp = c1 ++ inp1 -> cn1 = cn + length c1 -> rout1 = rev o1 ++ rout ->
  ib1 + length c1 <= ib -> ob1 + length o1 <= ob ->
  Spec ph1 s1 inp1 ib1 ob1 cn1 rout1 res -> Spec ph s inp ib ob cn rout res.
Proof.
  intros HT -> -> -> Hi Ho. destruct res as [[[[ph' s'] cn'] rout'] stop]. cbn [Spec].
  intros (c & o & t & -> & -> & -> & L1 & L2 & L3 & HP).
  exists (c1 ++ c), (o1 ++ o), t.
  split; [now rewrite app_assoc|]. split; [rewrite app_length; lia|].
  split; [rewrite rev_app_distr; now rewrite app_assoc|].
  split; [rewrite app_length; lia|]. split; [rewrite app_length; lia|]. split; [assumption|].
  eapply Post_step; eauto.
Qed.

Lemma spec_more ph s inp ib ob cn rout : s < 256 -> Spec ph s inp ib ob cn rout (ph, s, cn, rout, DsMore).
Proof.
  intro Hs. exists [], [], inp. cbn [app length rev Post].
  split; [reflexivity|]. split; [lia|]. split; [reflexivity|]. split; [lia|]. split; [lia|].
  split; [assumption|]. apply T_refl.
Qed.

Lemma spec_bad ph s c inp ib ob cn rout :
  Bad ph s [c] -> s < 256 -> ib <> 0 -> Spec ph s (c :: inp) ib ob cn rout (ph, s, cn + 1, rout, DsErr).
Proof.
  intros HB Hs Hi. exists [c], [], inp. cbn [app length rev Post].
  split; [reflexivity|]. split; [lia|]. split; [reflexivity|]. split; [lia|]. split; [lia|].
  split; [assumption|]. exact HB.
Qed.

(* single bad bytes *)
Ltac bad_step := intros z p Hz Hc; inversion Hz; subst;
  try (apply comparable_cons_inv in Hc; destruct Hc as [<- _]; congruence).

Lemma B_magic s c : nat_of_byte c <> 167 -> Bad DMagic s [c].
Proof. intro E. bad_step. Qed.
Lemma B_tag s c : nat_of_byte c <> 1 -> nat_of_byte c <> 2 -> nat_of_byte c <> 3 -> nat_of_byte c <> 0 ->
  Bad DTag s [c].
Proof. intros E1 E2 E3 E0. bad_step. Qed.
Lemma B_litlen s c : nat_of_byte c = 0 -> Bad DLitLen s [c].
Proof. intro E. bad_step. Qed.
Lemma B_runhi fin lo s c : (lo + 256 * nat_of_byte c =? 0) && negb fin = true -> Bad (DRunHi fin lo) s [c].
Proof. intro E. bad_step. Qed.
Lemma B_chk s c : nat_of_byte c <> s -> Bad DChk s [c].
Proof. intro E. bad_step. Qed.

Lemma rev_repeat (b : N) m : rev (repeat b m) = repeat b m.
Proof.
  induction m as [|m IH]; [reflexivity|]. simpl. rewrite IH.
  clear IH. induction m as [|m IH]; [reflexivity|]. simpl. now rewrite IH.
Qed.

Ltac glue_with T IH :=
  eapply glue; [apply T|reflexivity| | | | |apply IH; assumption]; simpl; try reflexivity; lia.

Lemma dec_loop_spec : forall fuel ph s inp ib ob cn rout,
  s < 256 -> Spec ph s inp ib ob cn rout (dec_loop fuel ph s inp ib ob cn rout).
Proof.
  induction fuel as [|f IH]; intros ph s inp ib ob cn rout Hs.
  { cbn [dec_loop]. now apply spec_more. }
  destruct ph; cbn [dec_loop].
  - (* DMagic *)
    destruct inp as [|c inp']; [now apply spec_more|].
    destruct (ib =? 0) eqn:Hib; [now apply spec_more|]. apply Nat.eqb_neq in Hib.
    destruct (nat_of_byte c =? 167) eqn:E.
    + apply Nat.eqb_eq in E.
      glue_with (T_magic s c E) IH.
    + apply Nat.eqb_neq in E. apply spec_bad; auto. now apply B_magic.
  - (* DTag *)
    destruct inp as [|c inp']; [now apply spec_more|].
    destruct (ib =? 0) eqn:Hib; [now apply spec_more|]. apply Nat.eqb_neq in Hib.
    destruct (nat_of_byte c =? 1) eqn:E1.
    { apply Nat.eqb_eq in E1.
      glue_with (T_tag_lit s c E1) IH. }
    destruct (nat_of_byte c =? 2) eqn:E2.
    { apply Nat.eqb_eq in E2.
      glue_with (T_tag_run s c E2) IH. }
    destruct (nat_of_byte c =? 3) eqn:E3.
    { apply Nat.eqb_eq in E3.
      glue_with (T_tag_fin s c E3) IH. }
    destruct (nat_of_byte c =? 0) eqn:E0.
    { apply Nat.eqb_eq in E0.
      glue_with (T_tag_end s c E0) IH. }
    apply Nat.eqb_neq in E1, E2, E3, E0. apply spec_bad; auto. now apply B_tag.
  - (* DLitLen *)
    destruct inp as [|c inp']; [now apply spec_more|].
    destruct (ib =? 0) eqn:Hib; [now apply spec_more|]. apply Nat.eqb_neq in Hib.
    destruct (nat_of_byte c =? 0) eqn:E.
    + apply Nat.eqb_eq in E. apply spec_bad; auto. now apply B_litlen.
    + apply Nat.eqb_neq in E.
      glue_with (T_litlen s c E) IH.
  - (* DLit k *)
    destruct (k =? 0) eqn:Ek.
    + apply Nat.eqb_eq in Ek. subst k.
      glue_with (T_lit0 s) IH.
    + apply Nat.eqb_neq in Ek.
      destruct inp as [|c inp']; [now apply spec_more|].
      destruct ((ib =? 0) || (ob =? 0)) eqn:Hb; [now apply spec_more|].
      apply orb_false_iff in Hb. destruct Hb as [Hib Hob]. apply Nat.eqb_neq in Hib, Hob.
      destruct k as [|k]; [congruence|]. replace (S k - 1) with k by lia.
      eapply glue; [apply (T_litS s k c)|reflexivity| | | | |apply IH; apply add256_lt]; simpl; try reflexivity; lia.
  - (* DRunLo *)
    destruct inp as [|c inp']; [now apply spec_more|].
    destruct (ib =? 0) eqn:Hib; [now apply spec_more|]. apply Nat.eqb_neq in Hib.
    glue_with (T_runlo fin s c) IH.
  - (* DRunHi *)
    destruct inp as [|c inp']; [now apply spec_more|].
    destruct (ib =? 0) eqn:Hib; [now apply spec_more|]. apply Nat.eqb_neq in Hib.
    destruct ((lo + 256 * nat_of_byte c =? 0) && negb fin) eqn:E.
    + apply spec_bad; auto. now apply B_runhi.
    + glue_with (T_runhi fin lo s c E) IH.
  - (* DRunB *)
    destruct inp as [|c inp']; [now apply spec_more|].
    destruct (ib =? 0) eqn:Hib; [now apply spec_more|]. apply Nat.eqb_neq in Hib.
    glue_with (T_runb fin n s c) IH.
  - (* DRunOut *)
    destruct (k =? 0) eqn:Ek.
    + apply Nat.eqb_eq in Ek. subst k. destruct fin.
      * exists [], [], inp. cbn [app length rev Post].
        split; [reflexivity|]. split; [lia|]. split; [reflexivity|]. split; [lia|]. split; [lia|].
        split; [lia|]. split; [apply (R_out_fin s 0 b)|auto].
      * glue_with (T_out0 b s Hs) IH.
    + destruct (ob =? 0) eqn:Hob; [now apply spec_more|]. apply Nat.eqb_neq in Hob.
      eapply glue; [apply (T_out_part fin k b s (Nat.min k ob)); lia|reflexivity| | | | |apply IH; apply run_sum_lt];
        simpl; try rewrite rev_repeat; try rewrite repeat_length; try reflexivity; lia.
  - (* DChk *)
    destruct inp as [|c inp']; [now apply spec_more|].
    destruct (ib =? 0) eqn:Hib; [now apply spec_more|]. apply Nat.eqb_neq in Hib.
    destruct (nat_of_byte c =? s) eqn:E.
    + apply Nat.eqb_eq in E. exists [c], [], inp'. cbn [app length rev Post].
      split; [reflexivity|]. split; [lia|]. split; [reflexivity|]. split; [lia|]. split; [lia|].
      split; [lia|]. split; [now apply R_chk|auto].
    + apply Nat.eqb_neq in E. apply spec_bad; auto. now apply B_chk.
Qed.

Lemma dec_loop_mono fuel ph s inp ib ob cn rout ph' s' cn' rout' stop :
  s < 256 -> dec_loop fuel ph s inp ib ob cn rout = (ph', s', cn', rout', stop) ->
  cn <= cn' /\ length rout <= length rout'.
Proof.
  intros Hs H. pose proof (dec_loop_spec fuel ph s inp ib ob cn rout Hs) as HS. rewrite H in HS.
  destruct HS as (c & o & t & _ & -> & -> & _). rewrite app_length. lia.
Qed.

Definition consuming (ph : dphase) : Prop :=
  match ph with DLit _ | DRunOut _ _ _ => False | _ => True end.

Lemma progress1 f ph s c inp ib ob cn rout ph' s' cn' rout' :
  consuming ph -> s < 256 -> ib <> 0 ->
  dec_loop (S f) ph s (c :: inp) ib ob cn rout = (ph', s', cn', rout', DsMore) -> cn < cn'.
Proof.
  intros Hc Hs Hib H. apply Nat.eqb_neq in Hib.
  destruct ph; try contradiction; cbn [dec_loop] in H; rewrite Hib in H;
    repeat match type of H with
           | (if ?b then _ else _) = _ => destruct b
           end;
    try discriminate;
    try (apply dec_loop_mono in H; [lia|assumption]).
Qed.

Lemma dec_progress f ph s inp ib ob cn rout ph' s' cn' rout' :
  1 <= f -> s < 256 -> inp <> [] -> ib <> 0 -> ob <> 0 ->
  dec_loop (S f) ph s inp ib ob cn rout = (ph', s', cn', rout', DsMore) ->
  cn < cn' \/ length rout < length rout'.
Proof.
  intros Hf Hs Hinp Hib Hob H.
  destruct inp as [|c inp]; [congruence|].
  destruct ph; try (left; eapply progress1; [ | | |exact H]; [exact I|assumption|assumption]).
  - (* DLit *)
    cbn [dec_loop] in H. destruct (k =? 0).
    + destruct f; [lia|]. left. eapply progress1; [ | | |exact H]; [exact I|assumption|assumption].
    + apply Nat.eqb_neq in Hib, Hob. rewrite Hib, Hob in H. cbn [orb] in H.
      apply dec_loop_mono in H; [lia|apply add256_lt].
  - (* DRunOut *)
    cbn [dec_loop] in H. destruct (k =? 0) eqn:Ek.
    + destruct fin; [discriminate|]. destruct f; [lia|]. left. eapply progress1; [ | | |exact H]; [exact I|assumption|assumption].
    + apply Nat.eqb_neq in Ek. apply Nat.eqb_neq in Hob. rewrite Hob in H. apply Nat.eqb_neq in Hob.
      apply dec_loop_mono in H; [|apply run_sum_lt]. right.
      rewrite app_length, repeat_length in H. lia.
Qed.

(* ------------------------------------------------------------------ *)
(* between two calls the decoder is never in a phase it leaves silently  *)
(* ------------------------------------------------------------------ *)
Definition settledb (ph : dphase) : bool :=
  match ph with DRunOut _ 0 _ | DLit 0 => false | _ => true end.
Definition settled (ph : dphase) : Prop := settledb ph = true.

Definition dmeasure (ph : dphase) (inp : list N) (ib ob : nat) : nat :=
  2 * (Nat.min (length inp) ib + ob) + (if settledb ph then 0 else 1).

Lemma settle : forall fuel ph s inp ib ob cn rout ph' s' cn' rout',
  dmeasure ph inp ib ob < fuel ->
  dec_loop fuel ph s inp ib ob cn rout = (ph', s', cn', rout', DsMore) -> settled ph'.
Proof.
  induction fuel as [|f IH]; intros ph s inp ib ob cn rout ph' s' cn' rout' HM H; [lia|].
  unfold dmeasure in *.
  destruct ph; cbn [dec_loop] in H; cbn [settledb] in HM;
    try (destruct inp as [|c inp]; [injection H as <- <- <- <-; reflexivity|];
         destruct (ib =? 0) eqn:Hib; [injection H as <- <- <- <-; reflexivity|]; apply Nat.eqb_neq in Hib;
         simpl length in HM;
         repeat match type of H with
                | (if ?b then _ else _) = _ => destruct b
                end;
         try discriminate;
         (eapply IH; [|exact H]);
         repeat match goal with |- context [settledb ?x] => destruct (settledb x) end; lia).
  - (* DLit *)
    destruct (k =? 0) eqn:Ek.
    + apply Nat.eqb_eq in Ek. subst k. eapply IH; [|exact H]. cbn [settledb] in *. lia.
    + apply Nat.eqb_neq in Ek.
      assert (Hst : settled (DLit k)) by (destruct k; [congruence|reflexivity]).
      destruct inp as [|c inp]; [injection H as <- <- <- <-; exact Hst|].
      destruct ((ib =? 0) || (ob =? 0)) eqn:Hb; [injection H as <- <- <- <-; exact Hst|].
      apply orb_false_iff in Hb. destruct Hb as [Hib Hob]. apply Nat.eqb_neq in Hib, Hob.
      eapply IH; [|exact H]. simpl length in *.
      destruct (settledb (DLit (k - 1))); destruct (settledb (DLit k)); lia.
  - (* DRunOut *)
    destruct (k =? 0) eqn:Ek.
    + apply Nat.eqb_eq in Ek. subst k. destruct fin; [discriminate|].
      eapply IH; [|exact H]. cbn [settledb] in *. lia.
    + apply Nat.eqb_neq in Ek.
      assert (Hst : settled (DRunOut fin k b)) by (destruct k; [congruence|reflexivity]).
      destruct (ob =? 0) eqn:Hob; [injection H as <- <- <- <-; exact Hst|]. apply Nat.eqb_neq in Hob.
      eapply IH; [|exact H].
      destruct (settledb (DRunOut fin (k - Nat.min k ob) b)); destruct (settledb (DRunOut fin k b)); lia.
Qed.

(* a member never ends in a call that did nothing *)
Lemma end_progress f ph s inp ib ob cn rout ph' s' cn' rout' :
  settled ph -> s < 256 ->
  dec_loop (S f) ph s inp ib ob cn rout = (ph', s', cn', rout', DsEnd) ->
  cn < cn' \/ length rout < length rout'.
Proof.
  intros Hst Hs H.
  destruct ph; cbn [dec_loop] in H;
    try (destruct inp as [|c inp]; [discriminate|];
         destruct (ib =? 0); [discriminate|];
         repeat match type of H with
                | (if ?b then _ else _) = _ => destruct b
                end;
         try discriminate;
         first [injection H as <- <- <- <-; left; lia
               |apply dec_loop_mono in H; [left; lia|assumption]]).
  - (* DLit *)
    destruct (k =? 0) eqn:Ek.
    + apply Nat.eqb_eq in Ek. subst k. discriminate.
    + destruct inp as [|c inp]; [discriminate|].
      destruct ((ib =? 0) || (ob =? 0)); [discriminate|].
      apply dec_loop_mono in H; [left; lia|apply add256_lt].
  - (* DRunOut *)
    destruct (k =? 0) eqn:Ek.
    + apply Nat.eqb_eq in Ek. subst k. discriminate.
    + apply Nat.eqb_neq in Ek. destruct (ob =? 0) eqn:Hob; [discriminate|]. apply Nat.eqb_neq in Hob.
      apply dec_loop_mono in H; [|apply run_sum_lt]. right.
      rewrite app_length, repeat_length in H. lia.
Qed.

(* ------------------------------------------------------------------ *)
(* one call of the "library"                                           *)
(* ------------------------------------------------------------------ *)
Lemma lim_le k a : lim k a <= a.
Proof. unfold lim. destruct (k =? 0); lia. Qed.

Lemma lim_pos k a : a <> 0 -> lim k a <> 0.
Proof. unfold lim. destruct (k =? 0) eqn:E; [auto|]. apply Nat.eqb_neq in E. lia. Qed.

Definition stat_of (st : tdst) (fl : flush) (stop : dstop) (c o : list N) : lstatus :=
  match stop with
  | DsErr => LErr
  | DsEnd => LEnd
  | DsMore => if negb ((0 <? length c) || negb (nilb o)) || (d_finbuf st && is_full fl) then LBuf else LOk
  end.

Lemma toy_dec_facts st inp cap fl : d_sum st < 256 -> settled (d_ph st) ->
  exists c o t stop ph' s',
    inp = c ++ t /\ length c <= lim (d_maxin st) (length inp) /\ length o <= lim (d_maxout st) cap /\ s' < 256 /\
    Post stop (d_ph st) (d_sum st) c o ph' s' /\
    dec_loop (2 * (length inp + cap) + 4) (d_ph st) (d_sum st) inp
             (lim (d_maxin st) (length inp)) (lim (d_maxout st) cap) 0 [] = (ph', s', length c, rev o, stop) /\
    (stop = DsMore -> settled ph') /\ (stop = DsEnd -> 0 < length c + length o) /\
    toy_dec_step st inp cap fl =
      mkL (length c) o (stat_of st fl stop c o)
          (mkTD ph' s' (d_mid st || (0 <? length c)) (d_maxin st) (d_maxout st) (d_finbuf st)).
Proof.
  intros Hs Hst. unfold toy_dec_step.
  pose proof (dec_loop_spec (2 * (length inp + cap) + 4) (d_ph st) (d_sum st) inp
                (lim (d_maxin st) (length inp)) (lim (d_maxout st) cap) 0 [] Hs) as HS.
  destruct (dec_loop _ _ _ _ _ _ _ _) as [[[[ph' s'] cn'] rout'] stop] eqn:HL.
  destruct HS as (c & o & t & E1 & E2 & E3 & L1 & L2 & L3 & HP).
  exists c, o, t, stop, ph', s'. simpl in E2. subst cn' rout'. rewrite app_nil_r in *.
  split; [assumption|]. split; [assumption|]. split; [assumption|]. split; [assumption|].
  split; [assumption|]. split; [reflexivity|].
  split.
  { intros ->. eapply settle; [|exact HL]. unfold dmeasure. rewrite Hst.
    pose proof (lim_le (d_maxin st) (length inp)). pose proof (lim_le (d_maxout st) cap). lia. }
  split.
  { intros ->. replace (2 * (length inp + cap) + 4) with (S (2 * (length inp + cap) + 3)) in HL by lia.
    apply end_progress in HL; auto. simpl in HL. rewrite rev_length in HL. lia. }
  rewrite rev_append_rev, app_nil_r, rev_involutive.
  destruct stop; reflexivity.
Qed.

(* ------------------------------------------------------------------ *)
(* the contract                                                        *)
(* ------------------------------------------------------------------ *)
(* [wm]: also track the "total_in > 0" flag (needed by the gzip/xz/bzip2 drivers, which reset the
   library at the end of a member; the zstd driver neither resets nor looks at the flag) *)
Definition TRepG (wm : bool) (st : tdst) (fed del : list N) : Prop :=
  d_sum st < 256 /\ settled (d_ph st) /\ (wm = true -> (d_mid st = true <-> fed <> [])) /\
  Trans DMagic 0 fed del (d_ph st) (d_sum st).
Definition TRep := TRepG true.
Definition TRep0 := TRepG false.

Lemma firstn_app_exact (c t : list N) : firstn (length c) (c ++ t) = c.
Proof. rewrite firstn_app, Nat.sub_diag, firstn_all. simpl. apply app_nil_r. Qed.

Lemma mid_step (mid : bool) (fed c : list N) :
  (mid = true <-> fed <> []) -> ((mid || (0 <? length c)) = true <-> fed ++ c <> []).
Proof.
  intro H. rewrite orb_true_iff, Nat.ltb_lt. split.
  - intros [E|E] E'; apply app_eq_nil in E'; destruct E' as [-> ->]; [now apply H in E|simpl in E; lia].
  - intro E. destruct fed as [|a fed].
    + right. destruct c; [simpl in E; congruence|simpl; lia].
    + left. apply H. discriminate.
Qed.

Lemma stat_more st fl stop c o : ok_or_buf (stat_of st fl stop c o) -> stop = DsMore.
Proof. destruct stop; cbn; intros [H|H]; try discriminate; reflexivity. Qed.

Lemma rest_tag_nil s p : ~ Rest DTag s [] p.
Proof. intro H. inversion H. Qed.

Lemma rest_nil_inv ph s p : Rest ph s [] p -> exists k b, ph = DRunOut true k b /\ p = repeat b k.
Proof. intro H. inversion H; subst; eauto; exfalso; eapply rest_tag_nil; eauto. Qed.

Theorem toy_dec_contract_g wm resets : (wm = true -> resets = true) ->
  dec_contract TMember tdst toy_dec (TRepG wm) resets.
Proof.
  intro Hwm.
  constructor; cbn [toy_dec c_step c_reset c_mid].
  - (* bounds *)
    intros st fed del inp cap fl (Hs & Hst & _ & _). cbv zeta.
    destruct (toy_dec_facts st inp cap fl Hs Hst) as (c & o & t & stop & ph' & s' & E & L1 & L2 & _ & _ & _ & _ & _ & ->).
    cbn [l_cons l_out]. pose proof (lim_le (d_maxin st) (length inp)). pose proof (lim_le (d_maxout st) cap). lia.
  - (* step *)
    intros st fed del inp cap fl (Hs & Hst & Hm & HT). cbv zeta.
    destruct (toy_dec_facts st inp cap fl Hs Hst) as (c & o & t & stop & ph' & s' & E & L1 & L2 & Hs' & HP & _ & Hst' & _ & ->).
    cbn [l_cons l_out l_stat l_st]. intro Hok. apply stat_more in Hok. subst stop. cbn [Post] in HP.
    rewrite E, firstn_app_exact.
    split; [assumption|]. split; [cbn [d_ph]; auto|]. split; [intro W; cbn [d_mid]; apply mid_step; auto|].
    cbn [d_ph d_sum]. eapply T_trans; eauto.
  - (* end *)
    intros st fed del inp cap fl (Hs & Hst & Hm & HT). cbv zeta.
    destruct (toy_dec_facts st inp cap fl Hs Hst) as (c & o & t & stop & ph' & s' & E & L1 & L2 & Hs' & HP & _ & _ & _ & ->).
    cbn [l_cons l_out l_stat l_st]. intro Hend.
    destruct stop; cbn [stat_of] in Hend; try discriminate.
    { destruct (_ || _); discriminate. }
    cbn [Post] in HP. destruct HP as (HR & -> & ->).
    rewrite E, firstn_app_exact. split.
    + unfold TMember. eapply T_rest; eauto.
    + unfold after_end, TRepG. destruct resets.
      * cbn [c_reset toy_dec]. unfold toy_dec_reset. cbn [d_sum d_mid d_ph].
        split; [lia|]. split; [reflexivity|]. split; [intros _; split; [discriminate|congruence]|]. apply T_refl.
      * cbn [d_sum d_mid d_ph].
        split; [lia|]. split; [reflexivity|]. split; [intro W; specialize (Hwm W); discriminate|]. apply T_refl.
  - (* progress *)
    intros st fed del inp cap fl (Hs & Hst & Hm & HT). cbv zeta.
    destruct (toy_dec_facts st inp cap fl Hs Hst) as (c & o & t & stop & ph' & s' & E & L1 & L2 & Hs' & HP & HL & _ & _ & ->).
    cbn [l_cons l_out l_stat l_st]. intros Hi Hc Hok. apply stat_more in Hok. subst stop.
    replace (2 * (length inp + cap) + 4) with (S (2 * (length inp + cap) + 3)) in HL by lia.
    apply dec_progress in HL; try assumption; try lia.
    + simpl in HL. rewrite rev_length in HL. lia.
    + apply lim_pos. destruct inp; [congruence|simpl; lia].
    + apply lim_pos. lia.
  - (* buf_stuck *)
    intros st fed del inp cap fl (Hs & Hst & Hm & HT). cbv zeta.
    destruct (toy_dec_facts st inp cap fl Hs Hst) as (c & o & t & stop & ph' & s' & E & L1 & L2 & Hs' & HP & HL & _ & _ & ->).
    cbn [l_cons l_out l_stat l_st]. intros Hb Hfl.
    destruct stop; cbn [stat_of] in Hb; try discriminate.
    assert (Hnf : is_full fl = false) by (destruct fl; try reflexivity; congruence).
    rewrite Hnf, andb_false_r, orb_false_r in Hb.
    destruct ((0 <? length c) || negb (nilb o)) eqn:Hp; [discriminate|].
    apply orb_false_iff in Hp. destruct Hp as [H1 H2].
    apply Nat.ltb_ge in H1. apply negb_false_iff in H2. apply nilb_true in H2. split; [lia|assumption].
  - (* complete *)
    intros st fed del cap fl p (Hs & Hst & Hm & HT) Hmem. cbv zeta.
    destruct (toy_dec_facts st [] cap fl Hs Hst) as (c & o & t & stop & ph' & s' & E & L1 & L2 & Hs' & HP & HL & _ & _ & ->).
    cbn [l_cons l_out l_stat l_st]. intros Hc Hok. apply stat_more in Hok. subst stop.
    unfold TMember in Hmem. rewrite <- (app_nil_r fed) in Hmem. apply HT in Hmem.
    destruct Hmem as (p' & -> & Hrest). apply rest_nil_inv in Hrest. destruct Hrest as (k & b & Eph & ->).
    simpl length in HL. simpl in HL. rewrite Eph in HL.
    assert (Hob : lim (d_maxout st) cap <> 0) by (apply lim_pos; lia).
    replace (cap + (cap + 0) + 4) with (S (cap + (cap + 0) + 3)) in HL by lia.
    cbn [dec_loop] in HL. destruct (k =? 0) eqn:Ek; [discriminate|].
    apply Nat.eqb_neq in Hob. rewrite Hob in HL. apply Nat.eqb_neq in Hob. apply Nat.eqb_neq in Ek.
    apply dec_loop_mono in HL; [|apply run_sum_lt].
    rewrite app_length, repeat_length, rev_length in HL. simpl in HL.
    intro Eo. subst o. simpl in HL. lia.
  - (* prefix *)
    intros st fed del x p (Hs & Hst & Hm & HT) Hmem. apply HT in Hmem. destruct Hmem as (p' & -> & _). apply prefix_app.
  - (* nil *)
    intros st del (Hs & Hst & Hm & HT).
    assert (Hempty : TMember [167%N; 0%N; 0%N] []).
    { unfold TMember. apply R_magic; [reflexivity|]. apply R_tag_end; [reflexivity|]. apply R_chk. reflexivity. }
    apply (HT [167%N; 0%N; 0%N] []) in Hempty. destruct Hempty as (p' & E & _).
    symmetry in E. apply app_eq_nil in E. tauto.
  - (* err *)
    intros st fed del inp cap fl (Hs & Hst & Hm & HT). cbv zeta.
    destruct (toy_dec_facts st inp cap fl Hs Hst) as (c & o & t & stop & ph' & s' & E & L1 & L2 & Hs' & HP & HL & _ & _ & ->).
    cbn [l_cons l_out l_stat l_st]. intro Herr.
    destruct stop; cbn [stat_of] in Herr; try discriminate.
    { destruct (_ || _); discriminate. }
    cbn [Post] in HP.
    intros m p Hmem Hcmp.
    pose proof (T_bad _ _ _ _ _ _ _ HT HP) as HB.
    apply (HB m p Hmem).
    rewrite E in Hcmp. destruct Hcmp as [[u Eu]|[u Eu]].
    + left. exists (t ++ u). rewrite Eu. now rewrite <- !app_assoc.
    + eapply app_eq_comparable. rewrite app_assoc in Eu. exact Eu.
  - (* no_overrun *)
    intros st fed del m p (Hs & Hst & Hm & HT) Hmem [y ->].
    destruct (live (d_ph st) (d_sum st)) as (z0 & p0 & H0).
    pose proof (T_rest _ _ _ _ _ _ _ _ HT H0) as Hfull. rewrite <- app_assoc in Hfull.
    destruct (Rest_det _ _ _ _ Hmem _ _ Hfull) as [Ey _].
    apply app_eq_nil in Ey. destruct Ey as [-> _]. now rewrite app_nil_r.
Qed.

Theorem toy_dec_contract : dec_contract TMember tdst toy_dec TRep true.
Proof. apply toy_dec_contract_g. auto. Qed.

Theorem toy_dec_contract0 : dec_contract TMember tdst toy_dec TRep0 false.
Proof. apply toy_dec_contract_g. discriminate. Qed.

Lemma toy_dec_okp wm : ok_progresses tdst toy_dec (TRepG wm).
Proof.
  intros st fed del inp cap fl (Hs & Hst & Hm & HT). cbn [toy_dec c_step].
  destruct (toy_dec_facts st inp cap fl Hs Hst) as (c & o & t & stop & ph' & s' & E & L1 & L2 & Hs' & HP & HL & _ & _ & ->).
  cbn [l_cons l_out l_stat]. intro Hok.
  destruct stop; cbn [stat_of] in Hok; try discriminate.
  destruct ((0 <? length c) || negb (nilb o)) eqn:Hp; [|discriminate].
  apply orb_true_iff in Hp. destruct Hp as [Hp|Hp].
  - apply Nat.ltb_lt in Hp. lia.
  - apply negb_true_iff in Hp. apply nilb_false in Hp. destruct o; [congruence|simpl; lia].
Qed.

Lemma toy_dec_mid : mid_ok tdst toy_dec TRep.
Proof. intros st fed del (Hs & Hst & Hm & HT). apply Hm. reflexivity. Qed.

(* the toy reports the end of a member only from a call that did something (like libzstd) *)
Lemma toy_dec_endp wm : forall st fed del inp cap fl, TRepG wm st fed del ->
  let r := c_step toy_dec st inp cap fl in
  l_stat r = LEnd -> 0 < l_cons r + length (l_out r).
Proof.
  intros st fed del inp cap fl (Hs & Hst & Hm & HT). cbn [toy_dec c_step].
  destruct (toy_dec_facts st inp cap fl Hs Hst) as (c & o & t & stop & ph' & s' & E & L1 & L2 & Hs' & HP & HL & _ & HE & ->).
  cbn [l_cons l_out l_stat]. intro Hend.
  destruct stop; cbn [stat_of] in Hend; try discriminate.
  - destruct (_ || _); discriminate.
  - auto.
Qed.

Lemma toy_dec_init_rep wm maxin maxout finbuf : TRepG wm (toy_dec_init maxin maxout finbuf) [] [].
Proof.
  unfold TRepG, toy_dec_init. cbn. split; [lia|]. split; [reflexivity|].
  split; [intros _; split; [discriminate|congruence]|]. apply T_refl.
Qed.
