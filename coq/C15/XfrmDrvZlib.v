(* C15 -- the gzip.c / xz.c loop (drv_zlib), decompressing direction, meets the
   driver contract for every library meeting the decoder contract. *)
From Coq Require Import List NArith Bool Arith Lia.
From SqfsV Require Import C15.XfrmModel C15.XfrmSpec C15.XfrmBase.
Import ListNotations.

Section ZlibDec.
Variable Member : list N -> list N -> Prop.
Hypothesis F : format_ok Member.
Variable S : Type.
Variable C : codec S.
Variable Rep : S -> list N -> list N -> Prop.
Hypothesis DC : dec_contract Member S C Rep true.
Hypothesis OKP : ok_progresses S C Rep.
Hypothesis MID : mid_ok S C Rep.

(* what one run of the loop establishes; c / o are the increments of *in_read / *out_written *)
Definition zl_post (st : S) (inp : list N) (cap : nat) (fl : flush) (fed del : list N)
           (r : xres S) (c : nat) (o : list N) : Prop :=
  c <= length inp /\ length o <= cap /\
  match x_stat r with
  | XOk => Rep (x_st r) (fed ++ firstn c inp) (del ++ o) /\
           ((skipn c inp = [] /\ fl <> FlushFull) \/ length o = cap)
  | XBuf => Rep (x_st r) (fed ++ firstn c inp) (del ++ o) /\ fl = FlushFull /\
            (o = [] -> inp = [] -> fed = [])
  | XEnd => Member (fed ++ firstn c inp) (del ++ o) /\ Rep (x_st r) [] []
  | XErr => True
  | XFuel => False
  end.

Lemma cond_false (inp : list N) fl cap :
  (negb (nilb inp) || is_full fl) && (0 <? cap) = false ->
  (inp = [] /\ fl <> FlushFull) \/ cap = 0.
Proof.
  intro H. apply andb_false_iff in H. destruct H as [H|H].
  - apply orb_false_iff in H. destruct H as [H1 H2]. left. split.
    + apply negb_false_iff in H1. now apply nilb_true.
    + intro E. subst. discriminate.
  - right. apply Nat.ltb_ge in H. lia.
Qed.

Lemma cond_true (inp : list N) fl cap :
  (negb (nilb inp) || is_full fl) && (0 <? cap) = true ->
  (inp <> [] \/ fl = FlushFull) /\ 0 < cap.
Proof.
  intro H. apply andb_true_iff in H. destruct H as [H1 H2]. split.
  - apply orb_true_iff in H1. destruct H1 as [H1|H1].
    + left. apply negb_true_iff in H1. now apply nilb_false.
    + right. now apply is_full_true.
  - now apply Nat.ltb_lt.
Qed.

Lemma zl_loop : forall fuel st inp cap fl ci co fed del,
  Rep st fed del -> length inp + cap < fuel ->
  let r := drv_zlib C true fuel st inp cap fl ci co in
  exists c o, x_cons r = ci + c /\ x_out r = co ++ o /\ zl_post st inp cap fl fed del r c o.
Proof.
  induction fuel as [|f IH]; intros st inp cap fl ci co fed del HR Hf; [lia|].
  cbn [drv_zlib].
  destruct ((negb (nilb inp) || is_full fl) && (0 <? cap)) eqn:Hc.
  2:{ exists 0, []. cbn. rewrite Nat.add_0_r, !app_nil_r. split; [reflexivity|]. split; [reflexivity|].
      unfold zl_post. cbn. rewrite !app_nil_r. split; [lia|]. split; [lia|]. split; [assumption|].
      destruct (cond_false _ _ _ Hc) as [[-> H]| ->]; [left|right]; auto. }
  destruct (cond_true _ _ _ Hc) as [Hin Hcap].
  pose proof (dc_bounds _ _ _ _ _ DC st fed del inp cap fl HR) as HB. cbv zeta in HB.
  pose proof (dc_step _ _ _ _ _ DC st fed del inp cap fl HR) as HS. cbv zeta in HS.
  pose proof (dc_end _ _ _ _ _ DC st fed del inp cap fl HR) as HE. cbv zeta in HE.
  pose proof (dc_buf_stuck _ _ _ _ _ DC st fed del inp cap fl HR) as HK. cbv zeta in HK.
  pose proof (dc_progress _ _ _ _ _ DC st fed del inp cap fl HR) as HP. cbv zeta in HP.
  pose proof (OKP st fed del inp cap fl HR) as HO. cbv zeta in HO.
  set (r := c_step C st inp cap fl) in *.
  destruct HB as [HB1 HB2].
  destruct (l_stat r) eqn:Hs.
  - (* LOk: loop *)
    specialize (HS (or_introl eq_refl)). specialize (HO eq_refl).
    assert (Hlen : length (skipn (l_cons r) inp) = length inp - l_cons r) by apply skipn_length.
    destruct (IH (l_st r) (skipn (l_cons r) inp) (cap - length (l_out r)) fl
                 (ci + l_cons r) (co ++ l_out r) _ _ HS ltac:(lia)) as (c & o & E1 & E2 & HPost).
    exists (l_cons r + c), (l_out r ++ o).
    rewrite E1, E2. split; [lia|]. split; [now rewrite app_assoc|].
    unfold zl_post in *. destruct HPost as (Hc1 & Hc2 & HM).
    split; [lia|]. split; [rewrite app_length; lia|].
    rewrite firstn_add_skipn, !app_assoc.
    destruct (x_stat _); auto.
    + destruct HM as [HM1 HM2]. split; [assumption|].
      rewrite skipn_skipn_add in HM2. rewrite app_length.
      destruct HM2 as [HM2|HM2]; [left; assumption|right; lia].
    + destruct HM as (HM1 & HM2 & HM3). repeat split; auto.
      intros Eo Ei. apply app_eq_nil in Eo. destruct Eo as [Eo1 Eo2]. subst inp.
      simpl in HB1. rewrite Eo1 in HO. simpl in HO. lia.
  - (* LEnd *)
    destruct (HE eq_refl) as [HE1 HE2]. unfold after_end in HE2.
    exists (l_cons r), (l_out r). cbn. split; [reflexivity|]. split; [reflexivity|].
    unfold zl_post. cbn. repeat split; auto.
  - (* LBuf *)
    specialize (HS (or_intror eq_refl)).
    exists (l_cons r), (l_out r).
    destruct (trunc_now _ _ _ _ _) eqn:Ht; cbn; (split; [reflexivity|]; split; [reflexivity|]);
      unfold zl_post; cbn; repeat split; auto.
    + (* fl = FlushFull: otherwise stuck, contradicting progress *)
      destruct fl; try reflexivity; exfalso;
        (destruct (HK eq_refl ltac:(discriminate)) as [K1 K2];
         destruct Hin as [Hin|Hin]; [|discriminate];
         specialize (HP Hin Hcap (or_intror eq_refl)); rewrite K1, K2 in HP; simpl in HP; lia).
    + (* nothing produced, no input: not mid, hence on a boundary *)
      intros Eo Ei. subst inp. simpl in HB1.
      assert (Ec : l_cons r = 0) by lia.
      unfold trunc_now, no_progress in Ht. rewrite Eo, Ec in Ht. cbn in Ht.
      try rewrite skipn_nil in Ht. cbn in Ht.
      destruct Hin as [Hin|Hin]; [congruence|]. subst fl. cbn in Ht.
      rewrite Ec, Eo, firstn_nil, !app_nil_r in HS.
      destruct (c_mid C (l_st r)) eqn:Hm; [discriminate|].
      destruct fed as [|b fed']; [reflexivity|].
      exfalso. pose proof (proj2 (MID _ _ _ HS)) as M. rewrite Hm in M.
      assert (b :: fed' <> []) by discriminate. specialize (M H). discriminate.
  - (* LErr *)
    exists 0, []. cbn. rewrite Nat.add_0_r, app_nil_r. repeat split; try lia. unfold zl_post. cbn.
    repeat split; lia.
Qed.

(* valid continuation => no error *)
Lemma zl_valid : forall fuel st inp cap fl ci co fed del rem P,
  Rep st fed del -> length inp + cap < fuel ->
  Stream Member (fed ++ rem) P -> prefix inp rem -> (fl = FlushFull -> inp = rem) ->
  x_stat (drv_zlib C true fuel st inp cap fl ci co) <> XErr.
Proof.
  induction fuel as [|f IH]; intros st inp cap fl ci co fed del rem P HR Hf HSt Hpre Hfull; [lia|].
  cbn [drv_zlib].
  destruct ((negb (nilb inp) || is_full fl) && (0 <? cap)) eqn:Hc; [|cbn; discriminate].
  destruct (cond_true _ _ _ Hc) as [Hin Hcap].
  pose proof (dc_bounds _ _ _ _ _ DC st fed del inp cap fl HR) as HB. cbv zeta in HB.
  pose proof (dc_step _ _ _ _ _ DC st fed del inp cap fl HR) as HS. cbv zeta in HS.
  pose proof (dc_err _ _ _ _ _ DC st fed del inp cap fl HR) as HE. cbv zeta in HE.
  pose proof (OKP st fed del inp cap fl HR) as HO. cbv zeta in HO.
  set (r := c_step C st inp cap fl) in *.
  destruct HB as [HB1 HB2].
  destruct Hpre as [rem' ->].
  destruct (l_stat r) eqn:Hs.
  - specialize (HS (or_introl eq_refl)). specialize (HO eq_refl).
    assert (Hlen : length (skipn (l_cons r) inp) = length inp - l_cons r) by apply skipn_length.
    eapply (IH _ _ _ _ _ _ _ _ (skipn (l_cons r) inp ++ rem') P HS); try lia.
    + rewrite <- app_assoc, (app_assoc (firstn _ _)), firstn_skipn. exact HSt.
    + apply prefix_app.
    + intro E. specialize (Hfull E).
      assert (rem' = []).
      { apply (f_equal (@length N)) in Hfull. rewrite app_length in Hfull. destruct rem'; [reflexivity|simpl in Hfull; lia]. }
      subst. now rewrite app_nil_r.
  - cbn. discriminate.
  - destruct (trunc_now _ _ _ _ _) eqn:Ht; cbn; [|discriminate].
    exfalso.
    specialize (HS (or_intror eq_refl)).
    unfold trunc_now, no_progress in Ht.
    repeat (apply andb_true_iff in Ht; destruct Ht as [Ht ?]).
    apply Nat.eqb_eq in Ht. apply nilb_true in H3. apply nilb_true in H1. apply is_full_true in H0.
    rewrite Ht in *. rewrite skipn_O in H1. subst inp fl.
    specialize (Hfull eq_refl). simpl in Hfull. subst rem'.
    rewrite H3, firstn_nil, !app_nil_r in HS. rewrite app_nil_r in HSt.
    pose proof (proj1 (MID _ _ _ HS) H) as Hfed.
    destruct (stream_first HSt Hfed) as (m & p & zs & ps & Hm & _ & E & _).
    assert (m = fed).
    { eapply (dc_no_overrun _ _ _ _ _ DC); eauto. exists zs. exact E. }
    subst m.
    pose proof (dc_complete _ _ _ _ _ DC st fed del cap FlushFull p HR Hm) as HC. cbv zeta in HC.
    fold r in HC. apply HC; auto. right. exact Hs.
  - exfalso. destruct (m_exists _ F) as (m0 & p0 & Hm0).
    destruct (list_eq_dec N.eq_dec (fed ++ inp ++ rem') []) as [E|E].
    + apply app_eq_nil in E. destruct E as [-> E]. apply app_eq_nil in E. destruct E as [-> ->].
      apply (HE eq_refl m0 p0 Hm0). left. apply prefix_nil.
    + destruct (stream_first HSt E) as (m & p & zs & ps & Hm & _ & E' & _).
      apply (HE eq_refl m p Hm).
      apply prefixes_comparable with (l := fed ++ inp ++ rem').
      * rewrite app_assoc. apply prefix_app.
      * rewrite E'. apply prefix_app.
Qed.

Theorem zlib_dec_ok : ddrv_contract Member S (mk_zlib C true) Rep.
Proof.
  constructor.
  - intros d fed del inp cap fl HR. cbv zeta. unfold mk_zlib, drv_fuel.
    destruct (zl_loop (length inp + cap + 2) d inp cap fl 0 [] fed del HR ltac:(lia))
      as (c & o & E1 & E2 & HP).
    simpl in E1, E2. rewrite E1, E2. clear E1 E2.
    unfold zl_post in HP. destruct HP as (Hc & Ho & HM).
    set (r := drv_zlib C true (length inp + cap + 2) d inp cap fl 0 []) in *.
    split; [intro E; rewrite E in HM; exact HM|].
    split; [assumption|]. split; [assumption|]. split.
    + intro Hne. destruct (x_stat r) eqn:Hs; try congruence; try contradiction.
      * (* XOk *) destruct HM as [HM1 HM2].
        exists [], [], (fed ++ firstn c inp), (del ++ o). cbn.
        split; [constructor|]. split; [assumption|]. split; [reflexivity|]. split; [reflexivity|]. split.
        -- intros -> -> Hcap ->. exfalso. destruct HM2 as [[_ H]|H]; [congruence|simpl in H; lia].
        -- intros -> Hi Hcap. split; [|discriminate]. intros _.
           destruct HM2 as [[H _]|H]; [left|right; assumption].
           apply (f_equal (@length N)) in H. rewrite skipn_length in H. simpl in H. lia.
      * (* XEnd *) destruct HM as [HM1 HM2].
        exists (fed ++ firstn c inp), (del ++ o), [], []. rewrite !app_nil_r.
        split; [now apply stream_one|]. split; [assumption|]. split; [reflexivity|]. split; [reflexivity|].
        split; [reflexivity|]. intros -> Hi Hcap. split; [discriminate|]. intros _. split; [reflexivity|].
        intros -> ->. rewrite firstn_O, app_nil_r in HM1. eapply (m_nonempty _ F); eauto.
      * (* XBuf *) destruct HM as (HM1 & HM2 & HM3).
        exists [], [], (fed ++ firstn c inp), (del ++ o). cbn.
        split; [constructor|]. split; [assumption|]. split; [reflexivity|]. split; [reflexivity|]. split.
        -- intros _ -> _ ->. rewrite firstn_nil, app_nil_r. now apply HM3.
        -- intros ->. discriminate.
    + intros Hs ->. exfalso. rewrite Hs in HM. destruct HM as (_ & H & _). discriminate.
  - intros d fed del inp cap fl rem P HR HSt Hpre Hfull _. unfold mk_zlib, drv_fuel.
    eapply zl_valid; eauto. lia.
  - intros d fed del x p HR Hm. eapply (dc_prefix _ _ _ _ _ DC); eauto.
  - intros d del HR. eapply (dc_nil _ _ _ _ _ DC); eauto.
  - intros d fed del m p HR Hm Hp. eapply (dc_no_overrun _ _ _ _ _ DC); eauto.
Qed.

End ZlibDec.

(* ------------------------------------------------------------------ *)
(* compressing direction                                               *)
(* ------------------------------------------------------------------ *)
Section ZlibEnc.
Variable Member : list N -> list N -> Prop.
Variable S : Type.
Variable C : codec S.
Variable ERep : S -> list N -> list N -> Prop.
Variable mu : S -> nat.
Variable efin : S -> Prop.
Hypothesis EC : enc_contract Member S C ERep mu efin true.

Definition ze_post (st : S) (inp : list N) (cap : nat) (fl : flush) (fed em : list N)
           (r : xres S) (c : nat) (o : list N) : Prop :=
  c <= length inp /\ length o <= cap /\
  match x_stat r with
  | XOk | XBuf =>
      ERep (x_st r) (fed ++ firstn c inp) (em ++ o) /\
      (efin (x_st r) -> fl = FlushFull /\ c = length inp) /\
      (c = 0 -> mu (x_st r) + length o <= mu st) /\
      (inp <> [] \/ fl = FlushFull -> 0 < cap -> 0 < c + length o)
  | XEnd => fl = FlushFull /\ c = length inp /\ Member (em ++ o) (fed ++ inp) /\ ERep (x_st r) [] [] /\
            ~ efin (x_st r)
  | _ => False
  end.

Lemma trunc_now_enc np (rest : list N) fl mid : trunc_now false np rest fl mid = false.
Proof. unfold trunc_now. now rewrite andb_false_r. Qed.

Lemma ze_loop : forall fuel st inp cap fl ci co fed em,
  ERep st fed em -> eadm S efin st inp fl -> length inp + cap < fuel ->
  let r := drv_zlib C false fuel st inp cap fl ci co in
  exists c o, x_cons r = ci + c /\ x_out r = co ++ o /\ ze_post st inp cap fl fed em r c o.
Proof.
  induction fuel as [|f IH]; intros st inp cap fl ci co fed em HR HA Hf; [lia|].
  cbn [drv_zlib].
  destruct ((negb (nilb inp) || is_full fl) && (0 <? cap)) eqn:Hc.
  2:{ exists 0, []. cbn. rewrite Nat.add_0_r, !app_nil_r. split; [reflexivity|]. split; [reflexivity|].
      unfold ze_post. cbn. rewrite !app_nil_r. split; [lia|]. split; [lia|]. split; [assumption|].
      split; [intro Hfin; destruct (HA Hfin) as [-> ->]; auto|].
      split; [lia|]. intros H1 H2. exfalso.
      destruct (cond_false _ _ _ Hc) as [[-> H]|H]; [|lia]. destruct H1; congruence. }
  destruct (cond_true _ _ _ Hc) as [Hin Hcap].
  pose proof (ec_bounds _ _ _ _ _ _ _ EC st fed em inp cap fl HR HA) as HB. cbv zeta in HB.
  pose proof (ec_step _ _ _ _ _ _ _ EC st fed em inp cap fl HR HA) as HS. cbv zeta in HS.
  pose proof (ec_end _ _ _ _ _ _ _ EC st fed em inp cap fl HR HA) as HE. cbv zeta in HE.
  pose proof (ec_fin _ _ _ _ _ _ _ EC st fed em inp cap fl HR HA) as HF. cbv zeta in HF.
  pose proof (ec_progress _ _ _ _ _ _ _ EC st fed em inp cap fl HR HA) as HP. cbv zeta in HP.
  pose proof (ec_drain _ _ _ _ _ _ _ EC st fed em inp cap fl HR HA) as HD. cbv zeta in HD.
  pose proof (ec_no_err _ _ _ _ _ _ _ EC st fed em inp cap fl HR HA) as HN.
  set (r := c_step C st inp cap fl) in *.
  destruct HB as [HB1 HB2].
  destruct (l_stat r) eqn:Hs.
  - (* LOk: loop *)
    specialize (HS (or_introl eq_refl)). specialize (HP Hin Hcap (or_introl eq_refl)).
    specialize (HD (or_introl eq_refl)). specialize (HF (or_introl eq_refl)).
    assert (Hlen : length (skipn (l_cons r) inp) = length inp - l_cons r) by apply skipn_length.
    assert (HA' : eadm S efin (l_st r) (skipn (l_cons r) inp) fl).
    { intro Hfin. destruct (HF Hfin) as [-> E]. split; [reflexivity|].
      apply length_zero_nil. lia. }
    destruct (IH (l_st r) (skipn (l_cons r) inp) (cap - length (l_out r)) fl
                 (ci + l_cons r) (co ++ l_out r) _ _ HS HA' ltac:(lia)) as (c & o & E1 & E2 & HPost).
    exists (l_cons r + c), (l_out r ++ o).
    rewrite E1, E2. split; [lia|]. split; [now rewrite app_assoc|].
    unfold ze_post in *. destruct HPost as (Hc1 & Hc2 & HM).
    split; [lia|]. split; [rewrite app_length; lia|].
    rewrite firstn_add_skipn, !app_assoc.
    destruct (x_stat _); auto.
    + destruct HM as (HM1 & HM0 & HM2 & HM3). split; [assumption|]. rewrite app_length.
      split; [intro Hfin; destruct (HM0 Hfin) as [-> E]; split; [reflexivity|lia]|]. split.
      * intro E0. assert (l_cons r = 0) by lia. assert (c = 0) by lia. specialize (HM2 H0). specialize (HD H). lia.
      * intros _ _. lia.
    + destruct HM as (HM1 & HM2 & HM3 & HM4). split; [assumption|]. split; [lia|].
      split; [|assumption]. rewrite <- !app_assoc in HM3. rewrite <- !app_assoc.
      rewrite firstn_skipn in HM3. exact HM3.
    + destruct HM as (HM1 & HM0 & HM2 & HM3). split; [assumption|]. rewrite app_length.
      split; [intro Hfin; destruct (HM0 Hfin) as [-> E]; split; [reflexivity|lia]|]. split.
      * intro E0. assert (l_cons r = 0) by lia. assert (c = 0) by lia. specialize (HM2 H0). specialize (HD H). lia.
      * intros _ _. lia.
  - (* LEnd *)
    destruct (HE eq_refl) as (HE1 & HE2 & HE3 & HE4 & HE5). unfold eafter_end in HE4, HE5.
    exists (l_cons r), (l_out r). cbn. split; [reflexivity|]. split; [reflexivity|].
    unfold ze_post. cbn. repeat split; auto.
  - (* LBuf *)
    specialize (HS (or_intror eq_refl)). specialize (HP Hin Hcap (or_intror eq_refl)).
    specialize (HD (or_intror eq_refl)). specialize (HF (or_intror eq_refl)).
    exists (l_cons r), (l_out r). rewrite trunc_now_enc. cbn.
    split; [reflexivity|]. split; [reflexivity|].
    unfold ze_post. cbn. split; [assumption|]. split; [assumption|]. split; [assumption|].
    split; [assumption|]. split; [assumption|]. intros _ _. exact HP.
  - congruence.
Qed.

Theorem zlib_enc_ok : edrv_contract Member S (mk_zlib C false) ERep mu efin.
Proof.
  constructor.
  intros d fed em inp cap fl HR HA Hcap Hfl. cbv zeta. unfold mk_zlib, drv_fuel.
  destruct (ze_loop (length inp + cap + 2) d inp cap fl 0 [] fed em HR HA ltac:(lia))
    as (c & o & E1 & E2 & HP).
  simpl in E1, E2. rewrite E1, E2. clear E1 E2.
  unfold ze_post in HP. destruct HP as (Hc & Ho & HM).
  set (r := drv_zlib C false (length inp + cap + 2) d inp cap fl 0 []) in *.
  split; [intro E; rewrite E in HM; exact HM|].
  split; [intro E; rewrite E in HM; exact HM|].
  split; [assumption|]. split; [assumption|]. split.
  - intro Hne. destruct (x_stat r); try contradiction; try congruence.
    + destruct HM as (H1 & H0 & H2 & H3). split; [assumption|]. split; [assumption|]. intro Hi. split; auto.
    + destruct HM as (H1 & H0 & H2 & H3). split; [assumption|]. split; [assumption|]. intro Hi. split; auto.
  - intros Hs _. rewrite Hs in HM. exact HM.
Qed.

End ZlibEnc.
