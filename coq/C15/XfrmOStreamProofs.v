(* C15 -- ostream_xfrm (xfrm_append / flush_inbuf / xfrm_flush) over any driver
   meeting the encoder-driver contract [edrv_contract]:
     - the loop of flush_inbuf terminates: every call consumes input, or hands
       out bytes of a backlog that is bounded ([emu]) -- lexicographic measure
       (|inbuf rest|, emu); since no bound for the backlog after further input
       is part of the contract, the statement is "there is a fuel bound from
       which on the result does not depend on the fuel and is not Fuel";
     - for every sequence of appends followed by one flush, what reached the
       wrapped stream is a sequence of complete members (at most one) whose
       contents are exactly the bytes appended; the driver is back on a member
       boundary, nothing is left in inbuf, the wrapped stream was flushed once,
       after the last append. *)
From Coq Require Import List NArith Bool Arith Lia Wf_nat.
From SqfsV Require Import C15.XfrmModel C15.XfrmSpec C15.XfrmBase.
Import ListNotations.

Lemma lex_ind (P : nat -> nat -> Prop) :
  (forall a b, (forall a' b', a' < a -> P a' b') -> (forall b', b' < b -> P a b') -> P a b) ->
  forall a b, P a b.
Proof.
  intros H a. induction a as [a IHa] using lt_wf_ind.
  intro b. induction b as [b IHb] using lt_wf_ind.
  apply H; auto.
Qed.

Lemma log_bytes_app (a b : list oev) : log_bytes (a ++ b) = log_bytes a ++ log_bytes b.
Proof.
  induction a as [|[l|] a IH]; simpl; [reflexivity| |assumption].
  now rewrite IH, app_assoc.
Qed.

Lemma log_bytes_appends (os : list (list N)) : log_bytes (map EvAppend os) = concat os.
Proof. induction os as [|o os IH]; simpl; [reflexivity|now rewrite IH]. Qed.

Section OS.
Variable Member : list N -> list N -> Prop.
Hypothesis F : format_ok Member.
Variable D : Type.
Variable drv : driver D.
Variable ER : D -> list N -> list N -> Prop.
Variable emu : D -> nat.
Variable dfin : D -> Prop.
Hypothesis ED : edrv_contract Member D drv ER emu dfin.
Variable bufsz : nat.
Hypothesis Hbuf : 0 < bufsz.

Notation Str := (Stream Member).
Notation EvA := EvAppend.

(* the while loop of flush_inbuf *)
Lemma floop : forall a b finish st rest log fed em,
  length rest = a -> emu st = b -> ER st fed em ->
  (finish = true -> rest <> [] \/ fed <> [] \/ em <> []) ->
  (if finish then dfin st -> rest = [] else ~ dfin st) ->
  exists n st' os,
    (forall fuel, n <= fuel ->
       flush_loop drv bufsz fuel finish st rest log = Ok (st', [], log ++ map EvA os)) /\
    ~ dfin st' /\
    if finish then Member (em ++ concat os) (fed ++ rest) /\ ER st' [] []
    else ER st' (fed ++ rest) (em ++ concat os).
Proof.
  intros a b. pattern a, b. apply lex_ind. clear a b.
  intros a b IHa IHb finish st rest log fed em Ha Hb HR Hpre Hfin0.
  destruct (finish || negb (nilb rest)) eqn:Hc.
  2:{ (* not finishing and nothing left *)
    apply orb_false_iff in Hc. destruct Hc as [-> Hc]. apply negb_false_iff in Hc. apply nilb_true in Hc.
    subst rest. exists 1, st, []. split; [|split; [exact Hfin0|]].
    - intros [|fuel] Hf; [lia|]. cbn. now rewrite app_nil_r.
    - cbn. now rewrite !app_nil_r. }
  set (fl := if finish then FlushFull else FlushNone).
  assert (Hfl : fl = FlushNone \/ fl = FlushFull) by (unfold fl; destruct finish; auto).
  assert (HA : dadm D dfin st rest fl).
  { intro Hd. unfold fl. destruct finish; [auto|contradiction]. }
  pose proof (ed_main _ _ _ _ _ _ ED st fed em rest bufsz fl HR HA Hbuf Hfl) as HM. cbv zeta in HM.
  set (r := drv st rest bufsz fl) in *.
  destruct HM as (HnF & HnE & Hc1 & Hc2 & HnEnd & HEnd).
  assert (Hgo : rest <> [] \/ fl = FlushFull).
  { apply orb_true_iff in Hc. destruct Hc as [Hc|Hc].
    - right. unfold fl. now rewrite Hc.
    - left. apply negb_true_iff in Hc. now apply nilb_false. }
  destruct (x_stat r) eqn:Hs; try congruence.
  - (* XOk *)
    destruct (HnEnd ltac:(discriminate)) as (HR' & Hfin' & HP). destruct (HP Hgo) as [Hpos Hdrain].
    assert (Hfin1 : if finish then dfin (x_st r) -> skipn (x_cons r) rest = [] else ~ dfin (x_st r)).
    { destruct finish.
      - intro Hd. destruct (Hfin' Hd) as [_ E]. rewrite E. apply skipn_all.
      - intro Hd. destruct (Hfin' Hd) as [E _]. unfold fl in E. discriminate. }
    assert (Hpre' : finish = true -> skipn (x_cons r) rest <> [] \/ fed ++ firstn (x_cons r) rest <> [] \/ em ++ x_out r <> []).
    { intros _. destruct (x_cons r) eqn:Ec.
      - right. right. destruct (x_out r); [simpl in Hpos; lia|]. intro E. apply app_eq_nil in E. destruct E; discriminate.
      - right. left. destruct rest; [simpl in Hc1; lia|]. simpl. intro E. apply app_eq_nil in E. destruct E; discriminate. }
    assert (IH : exists n st' os,
      (forall fuel, n <= fuel ->
         flush_loop drv bufsz fuel finish (x_st r) (skipn (x_cons r) rest) (log ++ [EvA (x_out r)])
         = Ok (st', [], (log ++ [EvA (x_out r)]) ++ map EvA os)) /\
      ~ dfin st' /\
      if finish then Member ((em ++ x_out r) ++ concat os) ((fed ++ firstn (x_cons r) rest) ++ skipn (x_cons r) rest) /\ ER st' [] []
      else ER st' ((fed ++ firstn (x_cons r) rest) ++ skipn (x_cons r) rest) ((em ++ x_out r) ++ concat os)).
    { destruct (x_cons r) eqn:Ec.
      - (* nothing consumed: the backlog shrinks *)
        rewrite skipn_O in *.
        eapply (IHb (emu (x_st r))); eauto.
        specialize (Hdrain eq_refl). destruct (x_out r); [simpl in Hpos; lia|simpl in Hdrain; lia].
      - eapply (IHa (length (skipn (S n) rest)) (emu (x_st r))); eauto.
        rewrite skipn_length. lia. }
    destruct IH as (n & st' & os & Hrun & Hnf' & Hpost).
    exists (S n), st', (x_out r :: os). split; [|split; [exact Hnf'|]].
    + intros [|fuel] Hf; [lia|]. cbn [flush_loop]. rewrite Hc. fold fl. fold r. rewrite Hs.
      rewrite Hrun by lia. cbn [map]. now rewrite <- app_assoc.
    + cbn [concat]. rewrite <- !app_assoc in Hpost. rewrite firstn_skipn in Hpost. exact Hpost.
  - (* XEnd *)
    assert (Hfin : finish = true).
    { destruct finish; [reflexivity|]. exfalso.
      destruct Hgo as [Hgo|Hgo]; [|unfold fl in Hgo; discriminate].
      destruct (HEnd eq_refl (or_introl Hgo)) as [E _]. unfold fl in E. discriminate. }
    destruct (HEnd eq_refl (Hpre Hfin)) as (_ & Ecs & Hm & HR' & Hnf').
    exists 1, (x_st r), [x_out r]. split; [|split; [exact Hnf'|]].
    + intros [|fuel] Hf; [lia|]. cbn [flush_loop]. rewrite Hc. fold fl. fold r. rewrite Hs.
      rewrite Ecs. rewrite skipn_all. reflexivity.
    + rewrite Hfin. cbn [concat]. rewrite app_nil_r. auto.
  - (* XBuf: treated like OK by flush_inbuf *)
    destruct (HnEnd ltac:(discriminate)) as (HR' & Hfin' & HP). destruct (HP Hgo) as [Hpos Hdrain].
    assert (Hfin1 : if finish then dfin (x_st r) -> skipn (x_cons r) rest = [] else ~ dfin (x_st r)).
    { destruct finish.
      - intro Hd. destruct (Hfin' Hd) as [_ E]. rewrite E. apply skipn_all.
      - intro Hd. destruct (Hfin' Hd) as [E _]. unfold fl in E. discriminate. }
    assert (Hpre' : finish = true -> skipn (x_cons r) rest <> [] \/ fed ++ firstn (x_cons r) rest <> [] \/ em ++ x_out r <> []).
    { intros _. destruct (x_cons r) eqn:Ec.
      - right. right. destruct (x_out r); [simpl in Hpos; lia|]. intro E. apply app_eq_nil in E. destruct E; discriminate.
      - right. left. destruct rest; [simpl in Hc1; lia|]. simpl. intro E. apply app_eq_nil in E. destruct E; discriminate. }
    assert (IH : exists n st' os,
      (forall fuel, n <= fuel ->
         flush_loop drv bufsz fuel finish (x_st r) (skipn (x_cons r) rest) (log ++ [EvA (x_out r)])
         = Ok (st', [], (log ++ [EvA (x_out r)]) ++ map EvA os)) /\
      ~ dfin st' /\
      if finish then Member ((em ++ x_out r) ++ concat os) ((fed ++ firstn (x_cons r) rest) ++ skipn (x_cons r) rest) /\ ER st' [] []
      else ER st' ((fed ++ firstn (x_cons r) rest) ++ skipn (x_cons r) rest) ((em ++ x_out r) ++ concat os)).
    { destruct (x_cons r) eqn:Ec.
      - rewrite skipn_O in *.
        eapply (IHb (emu (x_st r))); eauto.
        specialize (Hdrain eq_refl). destruct (x_out r); [simpl in Hpos; lia|simpl in Hdrain; lia].
      - eapply (IHa (length (skipn (S n) rest)) (emu (x_st r))); eauto.
        rewrite skipn_length. lia. }
    destruct IH as (n & st' & os & Hrun & Hnf' & Hpost).
    exists (S n), st', (x_out r :: os). split; [|split; [exact Hnf'|]].
    + intros [|fuel] Hf; [lia|]. cbn [flush_loop]. rewrite Hc. fold fl. fold r. rewrite Hs.
      rewrite Hrun by lia. cbn [map]. now rewrite <- app_assoc.
    + cbn [concat]. rewrite <- !app_assoc in Hpost. rewrite firstn_skipn in Hpost. exact Hpost.
Qed.


(* ------------------------------------------------------------------ *)
(* xfrm_append / xfrm_flush / writer                                    *)
(* ------------------------------------------------------------------ *)

(* [OI0 s A]: A = everything appended so far; zs/ps = the finished members written / their
   contents; fed/em = what the encoder has taken / emitted of the member in progress *)
Definition OI0 (s : ostate D) (A : list N) : Prop :=
  exists zs ps fed em os, Str zs ps /\ ER (o_drv s) fed em /\ ~ dfin (o_drv s) /\
    o_log s = map EvA os /\ concat os = zs ++ em /\
    A = ps ++ fed ++ o_inbuf s /\ length (o_inbuf s) <= bufsz.

(* between two calls of the API: the encoder has only seen data if inbuf is non-empty *)
Definition OI (s : ostate D) (A : list N) : Prop :=
  OI0 s A /\ (o_inbuf s = [] -> A = [] /\ o_log s = []).

Lemma flush_false_spec s A : OI0 s A ->
  exists n s', (forall lfuel, n <= lfuel -> flush_inbuf drv bufsz lfuel s false = Ok s') /\
               OI0 s' A /\ o_inbuf s' = [].
Proof.
  intros (zs & ps & fed & em & os & HS & HR & HNF & EL & EC & EA & HL).
  destruct (floop (length (o_inbuf s)) (emu (o_drv s)) false (o_drv s) (o_inbuf s) (o_log s) fed em
                  eq_refl eq_refl HR ltac:(discriminate) HNF) as (n & st' & os' & Hrun & HNF' & Hpost).
  exists n, (mkO st' [] (o_log s ++ map EvA os')). split.
  - intros lfuel Hf. unfold flush_inbuf. now rewrite Hrun.
  - split; [|reflexivity].
    exists zs, ps, (fed ++ o_inbuf s), (em ++ concat os'), (os ++ os'). cbn [o_drv o_log o_inbuf].
    split; [assumption|]. split; [assumption|]. split; [assumption|].
    split; [now rewrite EL, map_app|].
    split; [rewrite concat_app, EC; now rewrite app_assoc|].
    split; [rewrite EA; now rewrite app_nil_r, app_assoc|]. simpl. lia.
Qed.

Lemma aloop : forall fuel data s A,
  OI0 s A -> length data + 1 <= fuel ->
  exists n s', (forall lfuel, n <= lfuel -> append_loop drv bufsz fuel lfuel s data = Ok s') /\
               OI0 s' (A ++ data) /\ (data <> [] -> o_inbuf s' <> []) /\ (data = [] -> s' = s).
Proof.
  induction fuel as [|f IH]; intros data s A HI Hf; [lia|].
  destruct data as [|b data'] eqn:Ed.
  { exists 0, s. split; [intros; reflexivity|]. rewrite app_nil_r. split; [assumption|]. split; [congruence|reflexivity]. }
  rewrite <- Ed in *.
  assert (Hdne : data <> []) by (rewrite Ed; discriminate).
  (* the step [go] from a state whose inbuf is not full *)
  assert (Hgo : forall s1, OI0 s1 A -> length (o_inbuf s1) < bufsz ->
     exists n s', (forall lfuel, n <= lfuel ->
        append_loop drv bufsz f lfuel
          (mkO (o_drv s1) (o_inbuf s1 ++ firstn (Nat.min (bufsz - length (o_inbuf s1)) (length data)) data) (o_log s1))
          (skipn (Nat.min (bufsz - length (o_inbuf s1)) (length data)) data) = Ok s') /\
        OI0 s' (A ++ data) /\ o_inbuf s' <> []).
  { intros s1 (zs & ps & fed & em & os & HS & HR & HNF & EL & EC & EA & HL) Hlt.
    set (diff := Nat.min (bufsz - length (o_inbuf s1)) (length data)).
    assert (Hd1 : 1 <= diff).
    { unfold diff. destruct data; [congruence|]. simpl length. lia. }
    assert (Hd2 : diff <= length data) by (unfold diff; lia).
    assert (Hd3 : length (o_inbuf s1) + diff <= bufsz) by (unfold diff; lia).
    set (s2 := mkO (o_drv s1) (o_inbuf s1 ++ firstn diff data) (o_log s1)).
    assert (HI2 : OI0 s2 (A ++ firstn diff data)).
    { exists zs, ps, fed, em, os. cbn [s2 o_drv o_log o_inbuf].
      split; [assumption|]. split; [assumption|]. split; [assumption|]. split; [assumption|]. split; [assumption|].
      split; [rewrite EA; now rewrite <- !app_assoc|].
      rewrite app_length, firstn_length. lia. }
    assert (Hne2 : o_inbuf s2 <> []).
    { cbn [s2 o_inbuf]. destruct data as [|c data'']; [congruence|]. destruct diff; [lia|].
      simpl. intro E. apply app_eq_nil in E. destruct E; discriminate. }
    destruct (IH (skipn diff data) s2 (A ++ firstn diff data) HI2) as (n & s' & Hrun & HI' & Hne & Heq).
    { rewrite skipn_length. lia. }
    exists n, s'. split; [exact Hrun|]. split.
    - rewrite <- app_assoc, firstn_skipn in HI'. exact HI'.
    - destruct (skipn diff data) eqn:Es.
      + rewrite (Heq eq_refl). exact Hne2.
      + apply Hne. discriminate. }
  destruct (bufsz <=? length (o_inbuf s)) eqn:Hfull.
  - (* inbuf full: flush_inbuf(false) first *)
    destruct (flush_false_spec s A HI) as (n1 & s1 & Hrun1 & HI1 & He1).
    destruct (Hgo s1 HI1 ltac:(rewrite He1; simpl; lia)) as (n2 & s' & Hrun2 & HI' & Hne').
    exists (Nat.max n1 n2), s'. split; [|split; [assumption|split; [auto|congruence]]].
    intros lfuel Hl. cbn [append_loop]. rewrite Ed. rewrite <- Ed. rewrite Hfull.
    rewrite Hrun1 by lia. apply Hrun2. lia.
  - apply Nat.leb_gt in Hfull.
    destruct (Hgo s HI Hfull) as (n2 & s' & Hrun2 & HI' & Hne').
    exists n2, s'. split; [|split; [assumption|split; [auto|congruence]]].
    intros lfuel Hl. cbn [append_loop]. rewrite Ed. rewrite <- Ed.
    apply Nat.leb_gt in Hfull. rewrite Hfull. apply Hrun2. exact Hl.
Qed.

Lemma append_spec s A data : OI s A ->
  exists n s', (forall lfuel, n <= lfuel -> xfrm_append drv bufsz lfuel s data = Ok s') /\ OI s' (A ++ data).
Proof.
  intros [HI0 Hemp].
  destruct (aloop (2 * length data + 2) data s A HI0 ltac:(lia)) as (n & s' & Hrun & HI' & Hne & Heq).
  exists n, s'. split; [exact Hrun|]. split; [assumption|].
  intro E. destruct data as [|b data'].
  - rewrite (Heq eq_refl) in *. rewrite app_nil_r. auto.
  - exfalso. apply Hne; [discriminate|assumption].
Qed.

Lemma flush_spec s A : OI s A ->
  exists n s' os, (forall lfuel, n <= lfuel -> xfrm_flush drv bufsz lfuel s = Ok s') /\
    o_log s' = map EvA os ++ [EvFlush] /\ Str (concat os) A /\ o_inbuf s' = [] /\ ER (o_drv s') [] [] /\
    ~ dfin (o_drv s') /\ (A = [] -> os = []).
Proof.
  intros [(zs & ps & fed & em & os & HS & HR & HNF & EL & EC & EA & HL) Hemp].
  unfold xfrm_flush.
  destruct (0 <? length (o_inbuf s)) eqn:Hne.
  - apply Nat.ltb_lt in Hne.
    assert (Hin : o_inbuf s <> []) by (destruct (o_inbuf s); [simpl in Hne; lia|discriminate]).
    destruct (floop (length (o_inbuf s)) (emu (o_drv s)) true (o_drv s) (o_inbuf s) (o_log s) fed em
                    eq_refl eq_refl HR (fun _ => or_introl Hin) (fun Hd => False_ind _ (HNF Hd)))
      as (n & st' & os' & Hrun & HNF' & Hm & HR').
    exists n, (mkO st' [] ((o_log s ++ map EvA os') ++ [EvFlush])), (os ++ os').
    split.
    + intros lfuel Hl. unfold flush_inbuf. rewrite Hrun by exact Hl. reflexivity.
    + cbn [o_log o_inbuf o_drv]. split; [now rewrite EL, map_app|].
      split.
      * rewrite concat_app, EC, EA. rewrite <- app_assoc. apply stream_snoc; assumption.
      * split; [reflexivity|]. split; [assumption|]. split; [assumption|].
        intros ->. exfalso. symmetry in EA. apply app_eq_nil in EA. destruct EA as [_ EA].
        apply app_eq_nil in EA. destruct EA. contradiction.
  - apply Nat.ltb_ge in Hne.
    assert (Hin : o_inbuf s = []) by (destruct (o_inbuf s); [reflexivity|simpl in Hne; lia]).
    destruct (Hemp Hin) as [-> Elog].
    exists 0, (mkO (o_drv s) (o_inbuf s) (o_log s ++ [EvFlush])), [].
    split; [intros; reflexivity|]. cbn [o_log o_inbuf o_drv].
    split; [now rewrite Elog|]. split; [constructor|]. split; [assumption|]. split; [|split; [assumption|reflexivity]].
    symmetry in EA. apply app_eq_nil in EA. destruct EA as [-> EA]. apply app_eq_nil in EA. destruct EA as [-> _].
    rewrite Elog in EL. destruct os; [|discriminate]. simpl in EC. symmetry in EC.
    apply app_eq_nil in EC. destruct EC as [-> ->]. exact HR.
Qed.

Lemma writer_spec : forall chunks s A, OI s A ->
  exists n s' os, (forall lfuel, n <= lfuel -> writer drv bufsz lfuel s chunks = Ok s') /\
    o_log s' = map EvA os ++ [EvFlush] /\ Str (concat os) (A ++ concat chunks) /\
    o_inbuf s' = [] /\ ER (o_drv s') [] [] /\ ~ dfin (o_drv s') /\ (A ++ concat chunks = [] -> os = []).
Proof.
  induction chunks as [|c chunks IH]; intros s A HI.
  - cbn [writer concat]. rewrite app_nil_r. apply flush_spec. exact HI.
  - destruct (append_spec s A c HI) as (n1 & s1 & Hrun1 & HI1).
    destruct (IH s1 (A ++ c) HI1) as (n2 & s' & os & Hrun2 & H).
    exists (Nat.max n1 n2), s', os. split.
    + intros lfuel Hl. cbn [writer]. rewrite Hrun1 by lia. apply Hrun2. lia.
    + cbn [concat]. rewrite app_assoc. exact H.
Qed.

Lemma OI_init d0 : ER d0 [] [] -> ~ dfin d0 -> OI (ostream_init d0) [].
Proof.
  intros H Hn. split; [|auto].
  exists [], [], [], [], []. cbn. repeat split; auto; try constructor. lia.
Qed.

(* for every sequence of appends followed by flush: what reached the wrapped stream is a sequence of
   complete members whose contents are the appended bytes; nothing is left behind *)
Lemma ostream_transparent_l : forall d0 chunks, ER d0 [] [] -> ~ dfin d0 ->
  exists n s' os,
    (forall lfuel, n <= lfuel -> writer drv bufsz lfuel (ostream_init d0) chunks = Ok s') /\
    o_log s' = map EvA os ++ [EvFlush] /\
    log_bytes (o_log s') = concat os /\
    Str (concat os) (concat chunks) /\
    o_inbuf s' = [] /\ ER (o_drv s') [] [] /\ ~ dfin (o_drv s') /\ (concat chunks = [] -> os = []).
Proof.
  intros d0 chunks H0 Hn0.
  destruct (writer_spec chunks (ostream_init d0) [] (OI_init d0 H0 Hn0)) as (n & s' & os & H1 & H2 & H3 & H4 & H5 & H6).
  exists n, s', os. cbn [app] in *.
  split; [assumption|]. split; [assumption|]. split.
  - rewrite H2, log_bytes_app, log_bytes_appends. simpl. now rewrite app_nil_r.
  - auto.
Qed.

End OS.
