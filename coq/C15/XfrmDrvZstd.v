(* C15 -- the zstd.c loop (drv_zstd: the library crosses frame boundaries by
   itself, the driver keeps a flag [pending] and computes its result after the
   loop) meets the driver contracts, for every library meeting the library
   contracts with [resets = false] and, for the decoder, reporting the end of a
   frame only together with progress (libzstd keeps one input byte "hostage"
   for exactly this purpose). *)
From Coq Require Import List NArith Bool Arith Lia.
From SqfsV Require Import C15.XfrmModel C15.XfrmSpec C15.XfrmBase C15.XfrmDrvZlib C15.XfrmDrvBzip2.
Import ListNotations.

Lemma is_none_false fl : is_none fl = false <-> fl <> FlushNone.
Proof. destruct fl; simpl; split; congruence. Qed.

Section ZstdDec.
Variable Member : list N -> list N -> Prop.
Hypothesis F : format_ok Member.
Variable S : Type.
Variable C : codec S.
Variable Rep : S -> list N -> list N -> Prop.
Hypothesis DC : dec_contract Member S C Rep false.
(* ZSTD_decompressStream returns 0 only from a call that consumed or produced something *)
Definition end_progresses : Prop :=
  forall st fed del inp cap fl, Rep st fed del ->
    let r := c_step C st inp cap fl in
    l_stat r = LEnd -> 0 < l_cons r + length (l_out r).
Hypothesis EP : end_progresses.

Definition ZR (d : S * bool) (fed del : list N) : Prop :=
  Rep (fst d) fed del /\ (snd d = false <-> fed = []).

Definition zd_post (inp : list N) (cap : nat) (fl : flush) (fed del : list N)
           (r : xres (S * bool)) (c : nat) (o : list N) : Prop :=
  c <= length inp /\ length o <= cap /\
  match x_stat r with
  | XFuel => False
  | XErr => True
  | s =>
    (exists zs ps fed' del', Stream Member zs ps /\ ZR (x_st r) fed' del' /\
        fed ++ firstn c inp = zs ++ fed' /\ del ++ o = ps ++ del') /\
    match s with
    | XOk => skipn c inp = [] /\ (fl = FlushNone \/ length o = cap)
    | XEnd => fl <> FlushNone /\ skipn c inp = [] /\ snd (x_st r) = false
    | _ => (length o = cap /\ skipn c inp <> []) \/
           (fl <> FlushNone /\ (skipn c inp <> [] \/ fl <> FlushFull))
    end
  end.

Lemma zcond_false (inp : list N) fl (pending : bool) cap :
  (negb (nilb inp) || (negb (is_none fl) && pending)) && (0 <? cap) = false ->
  (inp = [] /\ (fl = FlushNone \/ pending = false)) \/ cap = 0.
Proof.
  intro H. apply andb_false_iff in H. destruct H as [H|H].
  - apply orb_false_iff in H. destruct H as [H1 H2]. left. split.
    + apply negb_false_iff in H1. now apply nilb_true.
    + apply andb_false_iff in H2. destruct H2 as [H2|H2]; [left|right; assumption].
      apply negb_false_iff in H2. now apply is_none_true.
  - right. apply Nat.ltb_ge in H. lia.
Qed.

Lemma zcond_true (inp : list N) fl (pending : bool) cap :
  (negb (nilb inp) || (negb (is_none fl) && pending)) && (0 <? cap) = true ->
  (inp <> [] \/ (fl <> FlushNone /\ pending = true)) /\ 0 < cap.
Proof.
  intro H. apply andb_true_iff in H. destruct H as [H1 H2]. split.
  - apply orb_true_iff in H1. destruct H1 as [H1|H1].
    + left. apply negb_true_iff in H1. now apply nilb_false.
    + right. apply andb_true_iff in H1. destruct H1 as [H1 H3]. split; [|assumption].
      apply negb_true_iff in H1. now apply is_none_false.
  - now apply Nat.ltb_lt.
Qed.

Lemma zd_loop : forall fuel ls pending inp cap fl ci co fed del,
  ZR (ls, pending) fed del -> length inp + cap < fuel ->
  let r := drv_zstd C true fuel (ls, pending) inp cap fl ci co in
  exists c o, x_cons r = ci + c /\ x_out r = co ++ o /\ zd_post inp cap fl fed del r c o.
Proof.
  induction fuel as [|f IH]; intros ls pending inp cap fl ci co fed del HZ Hf; [lia|].
  destruct HZ as [HR HP]. cbn [fst snd] in HR, HP.
  cbn [drv_zstd].
  destruct ((negb (nilb inp) || (negb (is_none fl) && pending)) && (0 <? cap)) eqn:Hc.
  2:{ (* the loop is not entered: zstd_after *)
    exists 0, []. cbn [x_cons x_out]. rewrite Nat.add_0_r, app_nil_r.
    split; [reflexivity|]. split; [reflexivity|].
    unfold zd_post. cbn [x_stat x_st length firstn skipn]. split; [lia|]. split; [lia|].
    assert (HG : exists zs ps fed' del', Stream Member zs ps /\ ZR (ls, pending) fed' del' /\
                   fed ++ [] = zs ++ fed' /\ del ++ [] = ps ++ del').
    { exists [], [], fed, del. rewrite !app_nil_r. split; [constructor|]. split; [split; assumption|]. auto. }
    unfold zstd_after.
    destruct (negb (is_none fl) && nilb inp && negb pending) eqn:E1.
    - apply andb_true_iff in E1. destruct E1 as [E1 E3]. apply andb_true_iff in E1. destruct E1 as [E1 E2].
      split; [exact HG|]. apply negb_true_iff in E1, E3. apply is_none_false in E1. apply nilb_true in E2.
      auto.
    - destruct (negb (nilb inp) && (cap =? 0)) eqn:E2.
      + apply andb_true_iff in E2. destruct E2 as [E2 E3]. apply negb_true_iff in E2. apply nilb_false in E2.
        apply Nat.eqb_eq in E3. split; [exact HG|]. left. split; [simpl; lia|assumption].
      + split; [exact HG|].
        destruct (zcond_false _ _ _ _ Hc) as [[Hi Hx]|Hx].
        * split; [assumption|]. destruct Hx as [Hx|Hx]; [left; assumption|].
          (* fl <> None, inp = [], pending = false would have been END *)
          subst inp pending. cbn in E1. rewrite !andb_true_r in E1. apply negb_false_iff in E1.
          left. now apply is_none_true.
        * subst cap. cbn in E2. rewrite andb_true_r in E2. apply negb_false_iff in E2. apply nilb_true in E2.
          split; [assumption|]. right. reflexivity. }
  destruct (zcond_true _ _ _ _ Hc) as [Hin Hcap].
  pose proof (dc_bounds _ _ _ _ _ DC ls fed del inp cap fl HR) as HB. cbv zeta in HB.
  pose proof (dc_step _ _ _ _ _ DC ls fed del inp cap fl HR) as HS. cbv zeta in HS.
  pose proof (dc_end _ _ _ _ _ DC ls fed del inp cap fl HR) as HE. cbv zeta in HE.
  pose proof (dc_progress _ _ _ _ _ DC ls fed del inp cap fl HR) as HPg. cbv zeta in HPg.
  pose proof (EP ls fed del inp cap fl HR) as HEP. cbv zeta in HEP.
  set (r := c_step C ls inp cap fl) in *.
  destruct HB as [HB1 HB2].
  assert (Hlen : length (skipn (l_cons r) inp) = length inp - l_cons r) by apply skipn_length.
  (* common part of the two continuing / stopping branches for a call that neither ended nor failed *)
  assert (Hmore : ok_or_buf (l_stat r) ->
    let st1 := (l_st r, true) in
    let inp' := skipn (l_cons r) inp in
    let rr := if no_progress (l_cons r) (l_out r) && trunc_now true true inp' fl true
              then mkX (ci + l_cons r) (co ++ l_out r) XErr st1
              else if no_progress (l_cons r) (l_out r) && (true || negb (nilb inp'))
              then mkX (ci + l_cons r) (co ++ l_out r) XBuf st1
              else drv_zstd C true f st1 inp' (cap - length (l_out r)) fl (ci + l_cons r) (co ++ l_out r) in
    exists c o, x_cons rr = ci + c /\ x_out rr = co ++ o /\ zd_post inp cap fl fed del rr c o).
  { intro Hok. cbv zeta. specialize (HS Hok).
    destruct (no_progress (l_cons r) (l_out r)) eqn:Hnp.
    - (* no progress at all *)
      apply no_progress_true in Hnp. destruct Hnp as [Ec Eo].
      assert (Hinp : inp = []).
      { destruct inp as [|a inp]; [reflexivity|]. exfalso.
        assert (0 < l_cons r + length (l_out r)) by (apply HPg; [discriminate|assumption|assumption]).
        rewrite Ec, Eo in H. simpl in H. lia. }
      destruct Hin as [Hin|[Hfl Hpd]]; [congruence|].
      cbn [andb orb].
      destruct (trunc_now true true (skipn (l_cons r) inp) fl true) eqn:Ht.
      + exists 0, []. cbn [x_cons x_out x_stat]. split; [lia|]. split; [now rewrite Eo|].
        unfold zd_post. cbn [x_stat]. split; [lia|]. split; [simpl; lia|exact I].
      + exists 0, []. cbn [x_cons x_out]. split; [lia|]. split; [now rewrite Eo|].
        unfold zd_post. cbn [x_stat x_st length firstn skipn]. split; [lia|]. split; [lia|].
        split.
        * exists [], [], fed, del. rewrite !app_nil_r. split; [constructor|]. split; [|auto].
          split; cbn [fst snd].
          -- rewrite Ec, Eo, Hinp in HS. simpl in HS. rewrite !app_nil_r in HS. exact HS.
          -- split; [discriminate|]. intro E. exfalso. apply HP in E. congruence.
        * right. split; [assumption|]. right.
          unfold trunc_now in Ht. rewrite Hinp, skipn_nil in Ht. cbn in Ht.
          intro E. subst fl. discriminate.
    - (* progress: the loop continues with pending = true *)
      cbn [andb].
      apply no_progress_false in Hnp.
      assert (HZ1 : ZR (l_st r, true) (fed ++ firstn (l_cons r) inp) (del ++ l_out r)).
      { split; cbn [fst snd]; [exact HS|]. split; [discriminate|]. intro E. exfalso.
        apply app_eq_nil in E. destruct E as [E1 E2]. subst fed. rewrite E2 in HS. simpl in HS.
        pose proof (dc_nil _ _ _ _ _ DC _ _ HR) as ->.
        pose proof (dc_nil _ _ _ _ _ DC _ _ HS) as E3. simpl in E3.
        assert (l_cons r = 0).
        { destruct (l_cons r) eqn:Ec; [reflexivity|]. destruct inp; [simpl in HB1; lia|discriminate]. }
        rewrite E3, H in Hnp. simpl in Hnp. lia. }
      destruct (IH (l_st r) true (skipn (l_cons r) inp) (cap - length (l_out r)) fl
                   (ci + l_cons r) (co ++ l_out r) _ _ HZ1 ltac:(lia)) as (c & o & E1 & E2 & HPost).
      exists (l_cons r + c), (l_out r ++ o).
      rewrite E1, E2. split; [lia|]. split; [now rewrite app_assoc|].
      unfold zd_post in *. destruct HPost as (Hc1 & Hc2 & HM).
      split; [lia|]. split; [rewrite app_length; lia|].
      rewrite firstn_add_skipn, !app_assoc, <- skipn_skipn_add, app_length.
      destruct (x_stat _); auto.
      + destruct HM as [HG HM]. split; [exact HG|]. destruct HM as [H1 H2]. split; [assumption|].
        destruct H2; [left; assumption|right; lia].
      + destruct HM as [HG HM]. split; [exact HG|].
        destruct HM as [[H1 H2]|H1]; [left; split; [lia|assumption]|right; assumption]. }
  destruct (l_stat r) eqn:Hs.
  - (* LOk *) apply Hmore. left. reflexivity.
  - (* LEnd: pending' = false *)
    clear Hmore. cbn [negb].
    destruct (HE eq_refl) as [HE1 HE2]. unfold after_end in HE2.
    specialize (HEP eq_refl).
    destruct (no_progress (l_cons r) (l_out r)) eqn:Hnp.
    { apply no_progress_true in Hnp. destruct Hnp as [Ec Eo]. rewrite Ec, Eo in HEP. simpl in HEP. lia. }
    cbn [andb].
    assert (HZ1 : ZR (l_st r, false) [] []).
    { split; cbn [fst snd]; [exact HE2|]. split; auto. }
    destruct (IH (l_st r) false (skipn (l_cons r) inp) (cap - length (l_out r)) fl
                 (ci + l_cons r) (co ++ l_out r) _ _ HZ1 ltac:(lia)) as (c & o & E1 & E2 & HPost).
    exists (l_cons r + c), (l_out r ++ o).
    rewrite E1, E2. split; [lia|]. split; [now rewrite app_assoc|].
    unfold zd_post in *. destruct HPost as (Hc1 & Hc2 & HM).
    split; [lia|]. split; [rewrite app_length; lia|].
    rewrite <- skipn_skipn_add, app_length.
    assert (HG : (exists zs ps fed' del', Stream Member zs ps /\ ZR (x_st (drv_zstd C true f (l_st r, false)
                     (skipn (l_cons r) inp) (cap - length (l_out r)) fl (ci + l_cons r) (co ++ l_out r))) fed' del' /\
                   [] ++ firstn c (skipn (l_cons r) inp) = zs ++ fed' /\ [] ++ o = ps ++ del') ->
                 exists zs ps fed' del', Stream Member zs ps /\ ZR (x_st (drv_zstd C true f (l_st r, false)
                     (skipn (l_cons r) inp) (cap - length (l_out r)) fl (ci + l_cons r) (co ++ l_out r))) fed' del' /\
                   fed ++ firstn (l_cons r + c) inp = zs ++ fed' /\ del ++ l_out r ++ o = ps ++ del').
    { intros (zs & ps & fed' & del' & G1 & G2 & G3 & G4). simpl in G3, G4.
      exists ((fed ++ firstn (l_cons r) inp) ++ zs), ((del ++ l_out r) ++ ps), fed', del'.
      split; [constructor; assumption|]. split; [assumption|].
      rewrite firstn_add_skipn, G3, G4. now rewrite !app_assoc. }
    destruct (x_stat _); auto.
    + destruct HM as [HG' HM]. split; [auto|]. destruct HM as [H1 H2]. split; [assumption|].
      destruct H2; [left; assumption|right; lia].
    + destruct HM as [HG' HM]. split; [auto|]. exact HM.
    + destruct HM as [HG' HM]. split; [auto|].
      destruct HM as [[H1 H2]|H1]; [left; split; [lia|assumption]|right; assumption].
  - (* LBuf *) apply Hmore. right. reflexivity.
  - (* LErr *)
    exists 0, []. cbn [x_cons x_out]. rewrite Nat.add_0_r, app_nil_r. split; [reflexivity|]. split; [reflexivity|].
    unfold zd_post. cbn [x_stat]. split; [lia|]. split; [simpl; lia|exact I].
Qed.


(* valid continuation => no error *)
Lemma zd_valid : forall fuel ls pending inp cap fl ci co fed del rem P,
  ZR (ls, pending) fed del -> length inp + cap < fuel ->
  Stream Member (fed ++ rem) P -> prefix inp rem -> (fl = FlushFull -> inp = rem) ->
  x_stat (drv_zstd C true fuel (ls, pending) inp cap fl ci co) <> XErr.
Proof.
  induction fuel as [|f IH]; intros ls pending inp cap fl ci co fed del rem P HZ Hf HSt Hpre Hfull; [lia|].
  destruct HZ as [HR HP]. cbn [fst snd] in HR, HP.
  cbn [drv_zstd].
  destruct ((negb (nilb inp) || (negb (is_none fl) && pending)) && (0 <? cap)) eqn:Hc.
  2:{ cbn [x_stat]. unfold zstd_after. destruct (negb (is_none fl) && nilb inp && negb pending); [discriminate|].
      destruct (negb (nilb inp) && (cap =? 0)); discriminate. }
  destruct (zcond_true _ _ _ _ Hc) as [Hin Hcap].
  pose proof (dc_bounds _ _ _ _ _ DC ls fed del inp cap fl HR) as HB. cbv zeta in HB.
  pose proof (dc_step _ _ _ _ _ DC ls fed del inp cap fl HR) as HS. cbv zeta in HS.
  pose proof (dc_end _ _ _ _ _ DC ls fed del inp cap fl HR) as HE. cbv zeta in HE.
  pose proof (dc_err _ _ _ _ _ DC ls fed del inp cap fl HR) as HEr. cbv zeta in HEr.
  pose proof (dc_progress _ _ _ _ _ DC ls fed del inp cap fl HR) as HPg. cbv zeta in HPg.
  pose proof (EP ls fed del inp cap fl HR) as HEP. cbv zeta in HEP.
  set (r := c_step C ls inp cap fl) in *.
  destruct HB as [HB1 HB2].
  destruct Hpre as [rem' ->].
  assert (Hlen : length (skipn (l_cons r) inp) = length inp - l_cons r) by apply skipn_length.
  assert (Hrest : fed ++ inp ++ rem' = (fed ++ firstn (l_cons r) inp) ++ skipn (l_cons r) inp ++ rem').
  { rewrite <- app_assoc, (app_assoc (firstn _ _)), firstn_skipn. reflexivity. }
  assert (Hfull' : fl = FlushFull -> skipn (l_cons r) inp = skipn (l_cons r) inp ++ rem').
  { intro E. specialize (Hfull E).
    assert (rem' = []).
    { apply (f_equal (@length N)) in Hfull. rewrite app_length in Hfull. destruct rem'; [reflexivity|simpl in Hfull; lia]. }
    subst. now rewrite app_nil_r. }
  assert (Hmore : ok_or_buf (l_stat r) ->
    let st1 := (l_st r, true) in
    let inp' := skipn (l_cons r) inp in
    x_stat (if no_progress (l_cons r) (l_out r) && trunc_now true true inp' fl true
            then mkX (ci + l_cons r) (co ++ l_out r) XErr st1
            else if no_progress (l_cons r) (l_out r) && (true || negb (nilb inp'))
            then mkX (ci + l_cons r) (co ++ l_out r) XBuf st1
            else drv_zstd C true f st1 inp' (cap - length (l_out r)) fl (ci + l_cons r) (co ++ l_out r)) <> XErr).
  { intro Hok. cbv zeta. specialize (HS Hok).
    destruct (no_progress (l_cons r) (l_out r)) eqn:Hnp.
    - apply no_progress_true in Hnp. destruct Hnp as [Ec Eo].
      cbn [andb orb].
      destruct (trunc_now true true (skipn (l_cons r) inp) fl true) eqn:Ht; [|cbn; discriminate].
      exfalso.
      unfold trunc_now in Ht. cbn [andb] in Ht. rewrite Ec, skipn_O in Ht.
      apply andb_true_iff in Ht. destruct Ht as [Ht _]. apply andb_true_iff in Ht. destruct Ht as [H1 H2].
      apply nilb_true in H1. apply is_full_true in H2. subst inp fl.
      specialize (Hfull eq_refl). simpl in Hfull. subst rem'. rewrite app_nil_r in HSt.
      destruct Hin as [Hin|[_ Hpd]]; [congruence|].
      assert (Hfed : fed <> []).
      { intro E. apply HP in E. congruence. }
      destruct (stream_first HSt Hfed) as (m & p & zs & ps & Hm & _ & E & _).
      assert (m = fed).
      { eapply (dc_no_overrun _ _ _ _ _ DC); eauto. exists zs. exact E. }
      subst m.
      pose proof (dc_complete _ _ _ _ _ DC ls fed del cap FlushFull p HR Hm) as HCm. cbv zeta in HCm.
      fold r in HCm. apply HCm; auto.
    - cbn [andb].
      apply no_progress_false in Hnp.
      assert (HZ1 : ZR (l_st r, true) (fed ++ firstn (l_cons r) inp) (del ++ l_out r)).
      { split; cbn [fst snd]; [exact HS|]. split; [discriminate|]. intro E. exfalso.
        apply app_eq_nil in E. destruct E as [E1 E2]. subst fed. rewrite E2 in HS. simpl in HS.
        pose proof (dc_nil _ _ _ _ _ DC _ _ HR) as ->.
        pose proof (dc_nil _ _ _ _ _ DC _ _ HS) as E3. simpl in E3.
        assert (l_cons r = 0).
        { destruct (l_cons r) eqn:Ec; [reflexivity|]. destruct inp; [simpl in HB1; lia|discriminate]. }
        rewrite E3, H in Hnp. simpl in Hnp. lia. }
      eapply (IH _ _ _ _ _ _ _ _ _ (skipn (l_cons r) inp ++ rem') P HZ1); try lia.
      + rewrite <- Hrest. exact HSt.
      + apply prefix_app.
      + exact Hfull'. }
  destruct (l_stat r) eqn:Hs.
  - apply Hmore. left. reflexivity.
  - clear Hmore. cbn [negb].
    destruct (HE eq_refl) as [HE1 HE2]. unfold after_end in HE2.
    specialize (HEP eq_refl).
    destruct (no_progress (l_cons r) (l_out r)) eqn:Hnp.
    { apply no_progress_true in Hnp. destruct Hnp as [Ec Eo]. rewrite Ec, Eo in HEP. simpl in HEP. lia. }
    cbn [andb].
    assert (HZ1 : ZR (l_st r, false) [] []).
    { split; cbn [fst snd]; [exact HE2|]. split; auto. }
    rewrite Hrest in HSt.
    destruct (stream_split F (stream_one Member _ _ HE1) _ HSt) as (P' & HP' & _).
    eapply (IH _ _ _ _ _ _ _ _ _ (skipn (l_cons r) inp ++ rem') P' HZ1); try lia.
    + exact HP'.
    + apply prefix_app.
    + exact Hfull'.
  - apply Hmore. right. reflexivity.
  - exfalso. destruct (m_exists _ F) as (m0 & p0 & Hm0).
    destruct (list_eq_dec N.eq_dec (fed ++ inp ++ rem') []) as [E|E].
    + apply app_eq_nil in E. destruct E as [-> E]. apply app_eq_nil in E. destruct E as [-> ->].
      apply (HEr eq_refl m0 p0 Hm0). left. apply prefix_nil.
    + destruct (stream_first HSt E) as (m & p & zs & ps & Hm & _ & E' & _).
      apply (HEr eq_refl m p Hm).
      apply prefixes_comparable with (l := fed ++ inp ++ rem').
      * rewrite app_assoc. apply prefix_app.
      * rewrite E'. apply prefix_app.
Qed.

Theorem zstd_dec_ok : ddrv_contract Member (S * bool) (mk_zstd C true) ZR.
Proof.
  constructor.
  - intros [ls pending] fed del inp cap fl HZ. cbv zeta. unfold mk_zstd, drv_fuel.
    destruct (zd_loop (length inp + cap + 2) ls pending inp cap fl 0 [] fed del HZ ltac:(lia))
      as (c & o & E1 & E2 & HP).
    simpl in E1, E2. rewrite E1, E2. clear E1 E2.
    unfold zd_post in HP. destruct HP as (Hc & Ho & HM).
    set (r := drv_zstd C true (length inp + cap + 2) (ls, pending) inp cap fl 0 []) in *.
    split; [intro E; rewrite E in HM; exact HM|].
    split; [assumption|]. split; [assumption|]. split.
    + intro Hne. destruct (x_stat r) eqn:Hs; try congruence; try contradiction.
      * (* XOk *)
        destruct HM as [(zs & ps & fed' & del' & G1 & G2 & G3 & G4) [H1 H2]].
        exists zs, ps, fed', del'. repeat (split; [assumption|]). split.
        -- intros -> -> Hcap ->. exfalso. destruct H2 as [H2|H2]; [discriminate|simpl in H2; lia].
        -- intros -> Hi Hcap. split; [|discriminate]. intros _. left.
           apply (f_equal (@length N)) in H1. rewrite skipn_length in H1. simpl in H1. lia.
      * (* XEnd *)
        destruct HM as [(zs & ps & fed' & del' & G1 & G2 & G3 & G4) (H1 & H2 & H3)].
        exists zs, ps, fed', del'. repeat (split; [assumption|]). split.
        -- intros _ _ _ _. apply G2. exact H3.
        -- intros ->. congruence.
      * (* XBuf *)
        destruct HM as [(zs & ps & fed' & del' & G1 & G2 & G3 & G4) HM].
        exists zs, ps, fed', del'. repeat (split; [assumption|]). split.
        -- intros -> -> Hcap ->. exfalso.
           destruct HM as [[H1 H2]|[H1 [H2|H2]]]; [rewrite skipn_nil in H2; congruence
                                                  |rewrite skipn_nil in H2; congruence|congruence].
        -- intros ->. split; discriminate.
    + intros Hs -> Hi Hcap. rewrite Hs in HM.
      destruct HM as [_ [[H1 H2]|[H1 _]]]; [|congruence].
      intro E. rewrite E in H1. simpl in H1. lia.
  - intros [ls pending] fed del inp cap fl rem P HZ HSt Hpre Hfull _. unfold mk_zstd, drv_fuel.
    eapply zd_valid; eauto. lia.
  - intros d fed del x p [HR _] Hm. eapply (dc_prefix _ _ _ _ _ DC); eauto.
  - intros d del [HR _]. eapply (dc_nil _ _ _ _ _ DC); eauto.
  - intros d fed del m p [HR _] Hm Hp. eapply (dc_no_overrun _ _ _ _ _ DC); eauto.
Qed.

End ZstdDec.

(* ------------------------------------------------------------------ *)
(* compressing direction                                               *)
(* ------------------------------------------------------------------ *)
Section ZstdEnc.
Variable Member : list N -> list N -> Prop.
Variable S : Type.
Variable C : codec S.
Variable ERep : S -> list N -> list N -> Prop.
Variable mu : S -> nat.
Variable efin : S -> Prop.
Hypothesis EC : enc_contract Member S C ERep mu efin false.

(* pending = false: the last call completed a frame (or nothing was ever fed) *)
Definition ZER (d : S * bool) (fed em : list N) : Prop :=
  ERep (fst d) fed em /\ (snd d = false -> fed = [] /\ em = []).
Definition zmu (d : S * bool) : nat := mu (fst d).
Definition zfin (d : S * bool) : Prop := efin (fst d).

Definition zen_post (ls : S) (pending : bool) (inp : list N) (cap : nat) (fl : flush) (fed em : list N)
           (r : xres (S * bool)) (c : nat) (o : list N) : Prop :=
  c <= length inp /\ length o <= cap /\
  match x_stat r with
  | XOk | XBuf =>
      ZER (x_st r) (fed ++ firstn c inp) (em ++ o) /\
      (zfin (x_st r) -> fl = FlushFull /\ c = length inp) /\
      (c = 0 -> zmu (x_st r) + length o <= mu ls) /\
      (inp <> [] \/ (fl <> FlushNone /\ pending = true) -> 0 < cap -> 0 < c + length o)
  | XEnd =>
      fl <> FlushNone /\ c = length inp /\
      ((pending = false /\ inp = [] /\ o = [] /\ x_st r = (ls, pending)) \/
       (Member (em ++ o) (fed ++ inp) /\ ZER (x_st r) [] [] /\ ~ zfin (x_st r)))
  | _ => False
  end.

Lemma zen_loop : forall fuel ls pending inp cap fl ci co fed em,
  ZER (ls, pending) fed em -> eadm S efin ls inp fl -> fl = FlushNone \/ fl = FlushFull ->
  length inp + cap < fuel ->
  let r := drv_zstd C false fuel (ls, pending) inp cap fl ci co in
  exists c o, x_cons r = ci + c /\ x_out r = co ++ o /\ zen_post ls pending inp cap fl fed em r c o.
Proof.
  induction fuel as [|f IH]; intros ls pending inp cap fl ci co fed em HZ HA Hfl Hf; [lia|].
  destruct HZ as [HR HP]. cbn [fst snd] in HR, HP.
  cbn [drv_zstd].
  destruct ((negb (nilb inp) || (negb (is_none fl) && pending)) && (0 <? cap)) eqn:Hc.
  2:{ exists 0, []. cbn [x_cons x_out]. rewrite Nat.add_0_r, app_nil_r.
      split; [reflexivity|]. split; [reflexivity|].
      unfold zen_post. cbn [x_stat x_st length firstn]. split; [lia|]. split; [lia|].
      assert (HG : ZER (ls, pending) (fed ++ []) (em ++ []) /\
                   (zfin (ls, pending) -> fl = FlushFull /\ 0 = length inp) /\
                   (0 = 0 -> zmu (ls, pending) + 0 <= mu ls) /\
                   (inp <> [] \/ fl <> FlushNone /\ pending = true -> 0 < cap -> 0 < 0 + 0)).
      { rewrite !app_nil_r. split; [split; assumption|]. split.
        - intro Hfin. destruct (HA Hfin) as [-> ->]. auto.
        - split; [unfold zmu; cbn; lia|]. intros H1 H2. exfalso.
          destruct (zcond_false _ _ _ _ Hc) as [[Hi Hx]|Hx]; [|lia].
          destruct H1 as [H1|[H1 H3]]; [congruence|]. destruct Hx; congruence. }
      unfold zstd_after.
      destruct (negb (is_none fl) && nilb inp && negb pending) eqn:E1.
      - apply andb_true_iff in E1. destruct E1 as [E1 E3]. apply andb_true_iff in E1. destruct E1 as [E1 E2].
        apply negb_true_iff in E1, E3. apply is_none_false in E1. apply nilb_true in E2. subst inp pending.
        split; [assumption|]. split; [reflexivity|]. left. auto.
      - destruct (negb (nilb inp) && (cap =? 0)); exact HG. }
  destruct (zcond_true _ _ _ _ Hc) as [Hin Hcap].
  assert (Hin' : inp <> [] \/ fl = FlushFull).
  { destruct Hin as [Hin|[Hin _]]; [left; assumption|right]. destruct Hfl; congruence. }
  pose proof (ec_bounds _ _ _ _ _ _ _ EC ls fed em inp cap fl HR HA) as HB. cbv zeta in HB.
  pose proof (ec_step _ _ _ _ _ _ _ EC ls fed em inp cap fl HR HA) as HS. cbv zeta in HS.
  pose proof (ec_end _ _ _ _ _ _ _ EC ls fed em inp cap fl HR HA) as HE. cbv zeta in HE.
  pose proof (ec_fin _ _ _ _ _ _ _ EC ls fed em inp cap fl HR HA) as HF. cbv zeta in HF.
  pose proof (ec_progress _ _ _ _ _ _ _ EC ls fed em inp cap fl HR HA) as HPg. cbv zeta in HPg.
  pose proof (ec_drain _ _ _ _ _ _ _ EC ls fed em inp cap fl HR HA) as HD. cbv zeta in HD.
  pose proof (ec_no_err _ _ _ _ _ _ _ EC ls fed em inp cap fl HR HA) as HN.
  set (r := c_step C ls inp cap fl) in *.
  destruct HB as [HB1 HB2].
  assert (Hlen : length (skipn (l_cons r) inp) = length inp - l_cons r) by apply skipn_length.
  assert (Hmore : ok_or_buf (l_stat r) ->
    let st1 := (l_st r, true) in
    let inp' := skipn (l_cons r) inp in
    let rr := if no_progress (l_cons r) (l_out r) && trunc_now false true inp' fl true
              then mkX (ci + l_cons r) (co ++ l_out r) XErr st1
              else if no_progress (l_cons r) (l_out r) && (true || negb (nilb inp'))
              then mkX (ci + l_cons r) (co ++ l_out r) XBuf st1
              else drv_zstd C false f st1 inp' (cap - length (l_out r)) fl (ci + l_cons r) (co ++ l_out r) in
    exists c o, x_cons rr = ci + c /\ x_out rr = co ++ o /\ zen_post ls pending inp cap fl fed em rr c o).
  { intro Hok. cbv zeta. specialize (HS Hok). specialize (HPg Hin' Hcap Hok).
    specialize (HD Hok). specialize (HF Hok).
    rewrite trunc_now_enc, andb_false_r.
    destruct (no_progress (l_cons r) (l_out r)) eqn:Hnp.
    { apply no_progress_true in Hnp. destruct Hnp as [Ec Eo]. rewrite Ec, Eo in HPg. simpl in HPg. lia. }
    cbn [andb].
    assert (HZ1 : ZER (l_st r, true) (fed ++ firstn (l_cons r) inp) (em ++ l_out r)).
    { split; cbn [fst snd]; [exact HS|discriminate]. }
    assert (HA' : eadm S efin (l_st r) (skipn (l_cons r) inp) fl).
    { intro Hfin. destruct (HF Hfin) as [-> E]. split; [reflexivity|]. apply length_zero_nil. lia. }
    destruct (IH (l_st r) true (skipn (l_cons r) inp) (cap - length (l_out r)) fl
                 (ci + l_cons r) (co ++ l_out r) _ _ HZ1 HA' Hfl ltac:(lia)) as (c & o & E1 & E2 & HPost).
    exists (l_cons r + c), (l_out r ++ o).
    rewrite E1, E2. split; [lia|]. split; [now rewrite app_assoc|].
    unfold zen_post in *. destruct HPost as (Hc1 & Hc2 & HM).
    split; [lia|]. split; [rewrite app_length; lia|].
    rewrite firstn_add_skipn, !app_assoc, app_length.
    destruct (x_stat _); auto.
    + destruct HM as (HM1 & HM0 & HM2 & HM3). split; [assumption|].
      split; [intro Hfin; destruct (HM0 Hfin) as [-> E]; split; [reflexivity|lia]|]. split.
      * intro E0. assert (l_cons r = 0) by lia. assert (c = 0) by lia. specialize (HM2 H0). specialize (HD H). lia.
      * intros _ _. lia.
    + destruct HM as (HM1 & HM2 & HM3). split; [assumption|]. split; [lia|].
      right. destruct HM3 as [(E & _)|HM3]; [discriminate|].
      destruct HM3 as (HM3 & HM4 & HM5). split; [|split; assumption].
      rewrite <- !app_assoc in HM3. rewrite <- !app_assoc. rewrite firstn_skipn in HM3. exact HM3.
    + destruct HM as (HM1 & HM0 & HM2 & HM3). split; [assumption|].
      split; [intro Hfin; destruct (HM0 Hfin) as [-> E]; split; [reflexivity|lia]|]. split.
      * intro E0. assert (l_cons r = 0) by lia. assert (c = 0) by lia. specialize (HM2 H0). specialize (HD H). lia.
      * intros _ _. lia. }
  destruct (l_stat r) eqn:Hs.
  - apply Hmore. left. reflexivity.
  - (* LEnd: the frame is complete; the loop is left through zstd_after *)
    clear Hmore.
    destruct (HE eq_refl) as (HE1 & HE2 & HE3 & HE4 & HE5). unfold eafter_end in HE4, HE5.
    subst fl. cbn [is_none negb andb].
    rewrite trunc_now_enc, andb_false_r.
    assert (Hskip : skipn (l_cons r) inp = []) by (rewrite HE2; apply skipn_all).
    rewrite Hskip. cbn [nilb negb orb]. rewrite andb_false_r.
    destruct f as [|f']; [lia|]. cbn [drv_zstd nilb negb orb andb is_none].
    exists (l_cons r), (l_out r). cbn [x_cons x_out]. split; [reflexivity|]. split; [reflexivity|].
    unfold zen_post. cbn [x_stat x_st zstd_after is_none nilb negb andb].
    split; [assumption|]. split; [assumption|]. split; [discriminate|]. split; [assumption|].
    right. split; [assumption|]. split; [split; cbn [fst snd]; auto|]. exact HE5.
  - apply Hmore. right. reflexivity.
  - congruence.
Qed.

Theorem zstd_enc_ok : edrv_contract Member (S * bool) (mk_zstd C false) ZER zmu zfin.
Proof.
  constructor.
  intros [ls pending] fed em inp cap fl HZ HA Hcap Hfl. cbv zeta. unfold mk_zstd, drv_fuel.
  destruct (zen_loop (length inp + cap + 2) ls pending inp cap fl 0 [] fed em HZ HA Hfl ltac:(lia))
    as (c & o & E1 & E2 & HP).
  simpl in E1, E2. rewrite E1, E2. clear E1 E2.
  unfold zen_post in HP. destruct HP as (Hc & Ho & HM).
  set (r := drv_zstd C false (length inp + cap + 2) (ls, pending) inp cap fl 0 []) in *.
  split; [intro E; rewrite E in HM; exact HM|].
  split; [intro E; rewrite E in HM; exact HM|].
  split; [assumption|]. split; [assumption|]. split.
  - intro Hne.
    assert (Hprog : forall (Hpg : inp <> [] \/ fl <> FlushNone /\ pending = true -> 0 < cap -> 0 < c + length o),
              inp <> [] \/ fl = FlushFull -> 0 < c + length o).
    { intros Hpg Hi. apply Hpg; [|assumption].
      destruct Hi as [Hi|Hi]; [left; assumption|].
      destruct inp as [|a inp]; [|left; discriminate]. right. split; [congruence|].
      (* inp = [], Full, pending = false would have been END *)
      destruct pending; [reflexivity|]. exfalso. subst fl.
      unfold r in Hne. replace (length (@nil N) + cap + 2) with (Datatypes.S (cap + 1)) in Hne by (simpl; lia).
      cbn [drv_zstd nilb negb orb andb is_none x_stat zstd_after] in Hne. congruence. }
    destruct (x_stat r); try contradiction; try congruence.
    + destruct HM as (H1 & H0 & H2 & H3). split; [assumption|]. split; [assumption|]. intro Hi. split; auto.
    + destruct HM as (H1 & H0 & H2 & H3). split; [assumption|]. split; [assumption|]. intro Hi. split; auto.
  - intros Hs Hpre. rewrite Hs in HM. destruct HM as (H1 & H2 & H3).
    destruct Hfl as [Hfl|Hfl]; [congruence|].
    destruct H3 as [(E1 & E2 & E3 & E4)|(H3 & H4 & H5)].
    + exfalso. subst pending inp. destruct HZ as [_ HZ]. destruct (HZ eq_refl) as [-> ->].
      destruct Hpre as [H|[H|H]]; congruence.
    + auto.
Qed.

End ZstdEnc.
