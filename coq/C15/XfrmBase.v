(* C15 -- basic facts: prefixes, member sequences. *)
From Coq Require Import List NArith Bool Arith Lia.
From SqfsV Require Import C15.XfrmModel C15.XfrmSpec.
Import ListNotations.
Set Implicit Arguments.


Lemma prefix_refl a : prefix a a.
Proof. exists []. now rewrite app_nil_r. Qed.

Lemma prefix_nil a : prefix [] a.
Proof. exists a. reflexivity. Qed.

Lemma prefix_app a x : prefix a (a ++ x).
Proof. exists x. reflexivity. Qed.

Lemma prefix_trans a b c : prefix a b -> prefix b c -> prefix a c.
Proof. intros [x ->] [y ->]. exists (x ++ y). now rewrite app_assoc. Qed.

Lemma prefix_app_l a b c : prefix b c -> prefix (a ++ b) (a ++ c).
Proof. intros [x ->]. exists x. now rewrite app_assoc. Qed.

Lemma prefix_of_nil a : prefix a [] -> a = [].
Proof. intros [x H]. symmetry in H. apply app_eq_nil in H. tauto. Qed.

Lemma prefix_length a b : prefix a b -> length a <= length b.
Proof. intros [x ->]. rewrite app_length. lia. Qed.

Lemma prefix_firstn n (l : list N) : prefix (firstn n l) l.
Proof. exists (skipn n l). now rewrite firstn_skipn. Qed.

Lemma app_eq_comparable (a x b y : list N) : a ++ x = b ++ y -> comparable a b.
Proof.
  revert b. induction a as [|c a IH]; intros b H.
  - left. apply prefix_nil.
  - destruct b as [|d b].
    + right. apply prefix_nil.
    + simpl in H. injection H as -> H. destruct (IH _ H) as [[u ->]|[u ->]].
      * left. exists u. reflexivity.
      * right. exists u. reflexivity.
Qed.

Lemma prefixes_comparable (a b l : list N) : prefix a l -> prefix b l -> comparable a b.
Proof. intros [x ->] [y H]. eapply app_eq_comparable. exact H. Qed.

Lemma comparable_sym a b : comparable a b -> comparable b a.
Proof. unfold comparable. tauto. Qed.

Lemma prefix_antisym_len a b : prefix a b -> length b <= length a -> a = b.
Proof.
  intros [x ->] H. rewrite app_length in H. destruct x; [now rewrite app_nil_r|simpl in H; lia].
Qed.

Section Fmt.
Variable Member : list N -> list N -> Prop.
Hypothesis F : format_ok Member.

Lemma member_comparable a p b q :
  Member a p -> Member b q -> comparable a b -> a = b /\ p = q.
Proof.
  intros Ha Hb [[x ->]|[x ->]].
  - pose proof (m_prefix_free _ F _ _ _ _ Ha Hb) as ->. rewrite app_nil_r in *.
    split; [reflexivity|]. eapply (m_fun _ F); eauto.
  - pose proof (m_prefix_free _ F _ _ _ _ Hb Ha) as ->. rewrite app_nil_r in *.
    split; [reflexivity|]. eapply (m_fun _ F); eauto.
Qed.

Lemma stream_app a p b q :
  Stream Member a p -> Stream Member b q -> Stream Member (a ++ b) (p ++ q).
Proof.
  induction 1; intro Hb; simpl; [assumption|].
  rewrite <- !app_assoc. constructor; auto.
Qed.

Lemma stream_one z p : Member z p -> Stream Member z p.
Proof.
  intro H. rewrite <- (app_nil_r z), <- (app_nil_r p). constructor; [assumption|constructor].
Qed.

Lemma stream_snoc zs ps z p :
  Stream Member zs ps -> Member z p -> Stream Member (zs ++ z) (ps ++ p).
Proof. intros H1 H2. apply stream_app; [assumption|]. now apply stream_one. Qed.

Lemma stream_nil_inv p : Stream Member [] p -> p = [].
Proof.
  intro H. inversion H as [|z q zs ps Hm Hs Hz Hp]; [reflexivity|].
  apply app_eq_nil in Hz. destruct Hz as [-> _]. exfalso. eapply (m_nonempty _ F); eauto.
Qed.

Lemma stream_first z P :
  Stream Member z P -> z <> [] ->
  exists m p zs ps, Member m p /\ Stream Member zs ps /\ z = m ++ zs /\ P = p ++ ps.
Proof.
  intros H Hz. inversion H as [|m p zs ps Hm Hs E1 E2]; subst; [congruence|].
  exists m, p, zs, ps. auto.
Qed.

(* the member decomposition is unique *)
Lemma stream_split zs ps :
  Stream Member zs ps -> forall y P, Stream Member (zs ++ y) P ->
  exists P', Stream Member y P' /\ P = ps ++ P'.
Proof.
  induction 1 as [|z p zs ps Hm Hs IH]; intros y P HP.
  - exists P. auto.
  - rewrite <- app_assoc in HP.
    assert (Hne : z ++ zs ++ y <> []).
    { intro E. apply app_eq_nil in E. destruct E as [-> _]. eapply (m_nonempty _ F); eauto. }
    destruct (stream_first HP Hne) as (m & q & zs' & ps' & Hm' & Hs' & E1 & ->).
    destruct (member_comparable Hm Hm' (app_eq_comparable _ _ _ _ E1)) as [<- <-].
    apply app_inv_head in E1. subst zs'.
    destruct (IH _ _ Hs') as (P' & HP' & ->).
    exists P'. split; [assumption|]. now rewrite app_assoc.
Qed.

Lemma stream_fun z p q : Stream Member z p -> Stream Member z q -> p = q.
Proof.
  intros H1 H2. rewrite <- (app_nil_r z) in H2.
  destruct (stream_split H1 _ H2) as (P' & HP' & ->).
  apply stream_nil_inv in HP'. subst. now rewrite app_nil_r.
Qed.

(* a stream never ends inside a member *)
Lemma stream_no_partial zs ps x y p :
  Stream Member zs ps -> Member (x ++ y) p -> y <> [] -> x <> [] ->
  forall P, ~ Stream Member (zs ++ x) P.
Proof.
  intros Hs Hm Hy Hx P HP.
  destruct (stream_split Hs _ HP) as (P' & HP' & _).
  destruct (stream_first HP' Hx) as (m & q & zs' & ps' & Hm' & _ & E & _).
  assert (Hc : comparable m (x ++ y)).
  { apply prefixes_comparable with (l := x ++ y).
    - rewrite E. rewrite <- app_assoc. apply prefix_app.
    - apply prefix_refl. }
  destruct (member_comparable Hm' Hm Hc) as [-> _].
  assert (H : length (x ++ y) <= length x).
  { apply (f_equal (@length N)) in E. rewrite !app_length in E. rewrite app_length. lia. }
  rewrite app_length in H. destruct y; [congruence|simpl in H; lia].
Qed.

End Fmt.

(* list helpers *)
Lemma nilb_true (A : Type) (l : list A) : nilb l = true <-> l = [].
Proof. destruct l; simpl; split; congruence. Qed.
Lemma nilb_false (A : Type) (l : list A) : nilb l = false <-> l <> [].
Proof. destruct l; simpl; split; congruence. Qed.

Lemma skipn_skipn_add (A : Type) (a b : nat) (l : list A) : skipn a (skipn b l) = skipn (b + a) l.
Proof.
  revert l. induction b as [|b IH]; intro l; simpl; [reflexivity|].
  destruct l; [now rewrite skipn_nil|]. apply IH.
Qed.

Lemma firstn_add_skipn (A : Type) (a b : nat) (l : list A) :
  firstn (a + b) l = firstn a l ++ firstn b (skipn a l).
Proof.
  revert l. induction a as [|a IH]; intro l; simpl; [reflexivity|].
  destruct l; simpl; [now rewrite firstn_nil|]. now rewrite IH.
Qed.

Lemma length_zero_nil (A : Type) (l : list A) : length l = 0 -> l = [].
Proof. destruct l; simpl; [reflexivity|discriminate]. Qed.

Lemma is_full_true fl : is_full fl = true <-> fl = FlushFull.
Proof. destruct fl; simpl; split; congruence. Qed.
Lemma is_none_true fl : is_none fl = true <-> fl = FlushNone.
Proof. destruct fl; simpl; split; congruence. Qed.
