(* C15 -- decoder-side resource admission of the stream decompressors.

   A compressed stream announces in its header what the decoder has to provide:
     xz     LZMA2 dictionary size, one property byte [bits] of the block header     (lzma2_decoder.c: lzma_lzma2_props_decode)
     zstd   window size, the Window_Descriptor byte of the frame header             (RFC 8878, 3.1.1.1.2)
     gzip   nothing in the header; match distances up to 2^15                        (RFC 1951)
   and the library refuses a header whose need exceeds the limit it was initialised with
   (LZMA_MEMLIMIT_ERROR / "Frame requires too much memory" / "invalid distance too far back").
   lib/xfrm/src/{xz,gzip,zstd}.c choose these limits; the values the working tree really passes are measured by
   props/C15/gen_limits.c and arrive here as C15/GenC15Limits.v (regenerated on every run of ./check C15).

   The must-accept sets below are fixed numbers (what the standard decoders take with their default settings and
   what the tree has always taken): they do not move with the constants.  If the tree lowers a limit, the theorems
   of this file stop compiling -- and the tool leg `limits` of the check produces the concrete refused archive. *)
From Coq Require Import NArith Lia ZifyN ZifyBool Bool.
From SqfsV Require Import C15.GenC15Limits.
Local Open Scope N_scope.

(* ---------------------------------------------------------------------------------------------------------- *)
(* bounded quantification by computation                                                                      *)
(* ---------------------------------------------------------------------------------------------------------- *)
Fixpoint all_below (n : nat) (p : N -> bool) : bool :=
  match n with
  | O => true
  | S k => p (N.of_nat k) && all_below k p
  end.

Lemma all_below_spec : forall n p, all_below n p = true -> forall x, x < N.of_nat n -> p x = true.
Proof.
  induction n as [|k IH]; intros p H x Hx.
  - simpl in Hx. lia.
  - simpl in H. apply andb_true_iff in H. destruct H as [H1 H2].
    destruct (N.eq_dec x (N.of_nat k)) as [->|Hne]; [exact H1|].
    apply IH; [exact H2|]. lia.
Qed.

(* ---------------------------------------------------------------------------------------------------------- *)
(* xz                                                                                                         *)
(* ---------------------------------------------------------------------------------------------------------- *)
Definition lzma2_dict_size (bits : N) : N :=
  if bits =? 40 then 2 ^ 32 - 1 else (2 + bits mod 2) * 2 ^ (bits / 2 + 11).

(* liblzma admits a block iff the decoder's memory need -- the dictionary plus a bounded overhead [slack]
   (coder structures, LZ_DICT_REPEAT_MAX; well below 1 MiB in every release) -- is within memlimit *)
Definition xz_admits (memlimit slack bits : N) : bool := lzma2_dict_size bits + slack <=? memlimit.

Definition xz_slack_bound : N := 2 ^ 20.
Definition xz_must_accept_bits : N := 29.          (* 96 MiB *)

Lemma lzma2_dict_size_mono : forall a b, a <= b -> b <= 40 -> lzma2_dict_size a <= lzma2_dict_size b.
Proof.
  intros a b Hab Hb.
  assert (H : all_below 41 (fun y => all_below 41 (fun x => negb (x <=? y) || (lzma2_dict_size x <=? lzma2_dict_size y))) = true)
    by (vm_compute; reflexivity).
  pose proof (all_below_spec _ _ H b) as H1. cbv beta in H1.
  assert (Hb' : b < N.of_nat 41) by lia. specialize (H1 Hb').
  pose proof (all_below_spec _ _ H1 a) as H2. cbv beta in H2.
  assert (Ha' : a < N.of_nat 41) by lia. specialize (H2 Ha').
  apply orb_true_iff in H2. destruct H2 as [H2|H2].
  - apply negb_true_iff in H2. apply N.leb_gt in H2. lia.
  - apply N.leb_le. exact H2.
Qed.

Lemma xz_admits_mono : forall m s1 s2 b1 b2,
  s1 <= s2 -> b1 <= b2 -> b2 <= 40 -> xz_admits m s2 b2 = true -> xz_admits m s1 b1 = true.
Proof.
  unfold xz_admits. intros m s1 s2 b1 b2 Hs Hb H40 H.
  apply N.leb_le in H. apply N.leb_le.
  pose proof (lzma2_dict_size_mono b1 b2 Hb H40). lia.
Qed.

Lemma xz_memlimit_admits_96MiB_lemma : forall slack bits,
  slack <= xz_slack_bound -> bits <= xz_must_accept_bits ->
  xz_admits c_xz_dec_memlimit slack bits = true.
Proof.
  intros slack bits Hs Hb.
  assert (H : xz_admits c_xz_dec_memlimit xz_slack_bound xz_must_accept_bits = true) by (vm_compute; reflexivity).
  apply (xz_admits_mono _ slack xz_slack_bound bits xz_must_accept_bits); try assumption.
  unfold xz_must_accept_bits. lia.
Qed.

(* LZMA_TELL_NO_CHECK = 1, LZMA_TELL_UNSUPPORTED_CHECK = 2, LZMA_TELL_ANY_CHECK = 4: each makes lzma_code return a
   code that xz.c's process_data treats as an error although the stream is valid *)
Lemma xz_flags_no_tell_lemma : N.land c_xz_dec_flags 7 = 0.
Proof. vm_compute. reflexivity. Qed.

(* ---------------------------------------------------------------------------------------------------------- *)
(* zstd                                                                                                       *)
(* ---------------------------------------------------------------------------------------------------------- *)
Definition zstd_window_size (desc : N) : N :=
  let base := 2 ^ (10 + desc / 8) in base + base / 8 * (desc mod 8).

(* zstd_decompress.c: RETURN_ERROR_IF(zfh.windowSize > zds->maxWindowSize, frameParameter_windowTooLarge),
   maxWindowSize = (1 << windowLogMax) + 1 *)
Definition zstd_admits (wlogmax desc : N) : bool := zstd_window_size desc <=? 2 ^ wlogmax + 1.

Definition zstd_must_accept_desc : N := 136.        (* exponent 17, mantissa 0: 2^27 *)

Lemma zstd_window_admitted_lemma : forall desc, desc <= zstd_must_accept_desc -> zstd_admits c_zstd_dec_wlogmax desc = true.
Proof.
  intros desc H.
  assert (A : all_below 137 (fun d => zstd_admits c_zstd_dec_wlogmax d) = true) by (vm_compute; reflexivity).
  apply (all_below_spec _ _ A). unfold zstd_must_accept_desc in H. lia.
Qed.

(* ---------------------------------------------------------------------------------------------------------- *)
(* gzip                                                                                                       *)
(* ---------------------------------------------------------------------------------------------------------- *)
(* inflateInit2(windowBits): 16 + n = gzip wrapper only, 32 + n = zlib or gzip; window 2^n, n = 8..15 *)
Definition gzip_dec_window (wbits : N) : N := 2 ^ (wbits mod 16).
Definition gzip_dec_takes_gzip (wbits : N) : bool := 16 <=? wbits.

Lemma gzip_window_maximal_lemma :
  gzip_dec_takes_gzip c_gzip_dec_wbits = true /\ forall w, w <= 15 -> 2 ^ w <= gzip_dec_window c_gzip_dec_wbits.
Proof.
  split; [vm_compute; reflexivity|].
  intros w Hw. assert (E : gzip_dec_window c_gzip_dec_wbits = 2 ^ 15) by (vm_compute; reflexivity).
  rewrite E. apply N.pow_le_mono_r; lia.
Qed.
