(* C15 -- model of the stream-transformation layer:
     lib/xfrm/src/{gzip,xz,bzip2,zstd}.c   process_data (the loop around the codec library)
     lib/xfrm/src/istream.c                precache / get_buffered_data / advance_buffer
     lib/xfrm/src/ostream.c                flush_inbuf / xfrm_append / xfrm_flush
     lib/xfrm/src/compress.c               xfrm_compressor_id_from_magic
     lib/tar/src/iterator.c                tar_probe
   over an ABSTRACT codec library: one call of deflate/inflate, lzma_code,
   BZ2_bzCompress/BZ2_bzDecompress, ZSTD_compressStream2/ZSTD_decompressStream is
   the field [c_step] of a [codec] record.  Definitions only; the contract
   lives in XfrmSpec.v, proofs in XfrmProofs*.v.

   The drivers are modelled AFTER props/C15/fixes/*.patch (F17 drain on
   finish, F18 truncation is an error, F22 gzip maps every zlib error);
   the behaviour of the unpatched loops is kept as [old_*] for the
   _refuted witnesses.

   Sizes are [nat] (list lengths); bytes are [N].  The buffer size BUFSZ
   is a parameter [bufsz] of the stream models (the theorems hold for
   every bufsz > 0; the tie runs them at the value found in the sources). *)
From Coq Require Import List NArith Bool Arith.
Import ListNotations.

Set Implicit Arguments.

(* XFRM_STREAM_FLUSH_{NONE,SYNC,FULL} *)
Inductive flush := FlushNone | FlushSync | FlushFull.

Definition is_full (f : flush) : bool := match f with FlushFull => true | _ => false end.
Definition is_none (f : flush) : bool := match f with FlushNone => true | _ => false end.

(* outcome class of ONE library call:
   LOk   Z_OK / LZMA_OK / BZ_OK, BZ_RUN_OK, BZ_FINISH_OK / zstd: non-zero, non-error return
   LEnd  Z_STREAM_END / LZMA_STREAM_END / BZ_STREAM_END / zstd: return value 0
   LBuf  Z_BUF_ERROR / LZMA_BUF_ERROR ("no progress possible")
   LErr  anything else *)
Inductive lstatus := LOk | LEnd | LBuf | LErr.

Record lres (S : Type) := mkL {
  l_cons : nat;          (* avail_in before - after *)
  l_out : list N;        (* bytes stored through next_out *)
  l_stat : lstatus;
  l_st : S
}.

Record codec (S : Type) := mkCodec {
  c_step : S -> list N -> nat -> flush -> lres S;
  c_reset : S -> S;      (* inflateReset/deflateReset; lzma_end + lazy re-init; BZ2_*End + lazy re-init *)
  c_mid : S -> bool      (* strm.total_in > 0: input of an unfinished member has been consumed *)
}.

(* XFRM_STREAM_{OK,END,BUFFER_FULL,ERROR}; XFuel = the model ran out of fuel
   (proved unreachable under the contract) *)
Inductive xstatus := XOk | XEnd | XBuf | XErr | XFuel.

Record xres (D : Type) := mkX {
  x_cons : nat;          (* *in_read increment *)
  x_out : list N;        (* bytes behind *out_written increment *)
  x_stat : xstatus;
  x_st : D
}.

Definition nilb (A : Type) (l : list A) : bool := match l with [] => true | _ => false end.

(* "no more input will come, there is room for output, but we are still in
   the middle of a stream": the call made no progress at all, nothing is left
   of the input, the caller promised that no more will come, and the decoder
   has consumed part of a member (decompressors only) *)
Definition no_progress (cons : nat) (out : list N) : bool := (cons =? 0) && nilb out.

Definition trunc_now (dec : bool) (noprog : bool) (rest : list N) (fl : flush) (mid : bool) : bool :=
  noprog && dec && nilb rest && is_full fl && mid.

Section Drivers.
Variable S : Type.
Variable C : codec S.
Variable dec : bool.     (* !compress *)

(* ---- gzip.c and xz.c (same control structure; xz initialises lazily, which
   is [c_reset] seen from the next call) ---- *)
Fixpoint drv_zlib (fuel : nat) (st : S) (inp : list N) (cap : nat) (fl : flush)
         (ci : nat) (co : list N) : xres S :=
  match fuel with
  | O => mkX ci co XFuel st
  | Datatypes.S f =>
    if (negb (nilb inp) || is_full fl) && (0 <? cap) then
      let r := c_step C st inp cap fl in
      match l_stat r with
      | LErr => mkX ci co XErr (l_st r)
      | s =>
        let inp' := skipn (l_cons r) inp in
        let cap' := cap - length (l_out r) in
        let ci' := ci + l_cons r in
        let co' := co ++ l_out r in
        match s with
        | LEnd => mkX ci' co' XEnd (c_reset C (l_st r))
        | LBuf =>
          if trunc_now dec (no_progress (l_cons r) (l_out r)) inp' fl (c_mid C (l_st r))
          then mkX ci' co' XErr (l_st r)
          else mkX ci' co' XBuf (l_st r)
        | _ => drv_zlib f (l_st r) inp' cap' fl ci' co'
        end
      end
    else mkX ci co XOk st
  end.

(* ---- bzip2.c: the library has no "no progress" code; the driver tests the
   two differences itself.  BZ_OUTBUFF_FULL (class LBuf) is tested before the
   accounting. ---- *)
Fixpoint drv_bzip2 (fuel : nat) (st : S) (inp : list N) (cap : nat) (fl : flush)
         (ci : nat) (co : list N) : xres S :=
  match fuel with
  | O => mkX ci co XFuel st
  | Datatypes.S f =>
    if (negb (nilb inp) || is_full fl) && (0 <? cap) then
      let r := c_step C st inp cap fl in
      match l_stat r with
      | LBuf => mkX ci co XBuf (l_st r)
      | LErr => mkX ci co XErr (l_st r)
      | s =>
        let inp' := skipn (l_cons r) inp in
        let cap' := cap - length (l_out r) in
        let ci' := ci + l_cons r in
        let co' := co ++ l_out r in
        match s with
        | LEnd => mkX ci' co' XEnd (c_reset C (l_st r))
        | _ =>
          if no_progress (l_cons r) (l_out r) then
            if trunc_now dec true inp' fl (c_mid C (l_st r))
            then mkX ci' co' XErr (l_st r)
            else mkX ci' co' XBuf (l_st r)
          else drv_bzip2 f (l_st r) inp' cap' fl ci' co'
        end
      end
    else mkX ci co XOk st
  end.

(* ---- zstd.c: the library crosses frame boundaries by itself; the driver
   keeps a flag [pending] and computes its result after the loop. ---- *)
Definition zstd_after (inp : list N) (cap : nat) (fl : flush) (pending : bool) : xstatus :=
  if negb (is_none fl) && nilb inp && negb pending then XEnd
  else if negb (nilb inp) && (cap =? 0) then XBuf
  else XOk.

Fixpoint drv_zstd (fuel : nat) (st : S * bool) (inp : list N) (cap : nat) (fl : flush)
         (ci : nat) (co : list N) : xres (S * bool) :=
  match fuel with
  | O => mkX ci co XFuel st
  | Datatypes.S f =>
    let (ls, pending) := st in
    if (negb (nilb inp) || (negb (is_none fl) && pending)) && (0 <? cap) then
      let r := c_step C ls inp cap fl in
      match l_stat r with
      | LErr => mkX ci co XErr (l_st r, pending)
      | s =>
        let inp' := skipn (l_cons r) inp in
        let cap' := cap - length (l_out r) in
        let ci' := ci + l_cons r in
        let co' := co ++ l_out r in
        let ret0 := match s with LEnd => true | _ => false end in
        let pending' := if dec then negb ret0 else negb (ret0 && negb (is_none fl)) in
        if no_progress (l_cons r) (l_out r) && trunc_now dec true inp' fl pending'
        then mkX ci' co' XErr (l_st r, pending')
        else if no_progress (l_cons r) (l_out r) && (pending' || negb (nilb inp'))
        then mkX ci' co' XBuf (l_st r, pending')
        else drv_zstd f (l_st r, pending') inp' cap' fl ci' co'
      end
    else mkX ci co (zstd_after inp cap fl pending) st
  end.

(* ---- the loops as they are in the UNPATCHED tree (for the _refuted witnesses) ---- *)
Fixpoint old_drv_zlib (fuel : nat) (st : S) (inp : list N) (cap : nat) (fl : flush)
         (ci : nat) (co : list N) : xres S :=
  match fuel with
  | O => mkX ci co XFuel st
  | Datatypes.S f =>
    if negb (nilb inp) && (0 <? cap) then
      let r := c_step C st inp cap fl in
      match l_stat r with
      | LErr => mkX ci co XErr (l_st r)
      | s =>
        let inp' := skipn (l_cons r) inp in
        let cap' := cap - length (l_out r) in
        let ci' := ci + l_cons r in
        let co' := co ++ l_out r in
        match s with
        | LEnd => mkX ci' co' XEnd (c_reset C (l_st r))
        | LBuf => mkX ci' co' XBuf (l_st r)
        | _ => old_drv_zlib f (l_st r) inp' cap' fl ci' co'
        end
      end
    else mkX ci co XOk st
  end.

Definition old_zstd_after (inp : list N) (cap : nat) (fl : flush) : xstatus :=
  if negb (is_none fl) && nilb inp then XEnd
  else if negb (nilb inp) && (cap =? 0) then XBuf
  else XOk.

Fixpoint old_drv_zstd (fuel : nat) (st : S) (inp : list N) (cap : nat) (fl : flush)
         (ci : nat) (co : list N) : xres S :=
  match fuel with
  | O => mkX ci co XFuel st
  | Datatypes.S f =>
    if negb (nilb inp) && (0 <? cap) then
      let r := c_step C st inp cap fl in
      match l_stat r with
      | LErr => mkX ci co XErr (l_st r)
      | _ =>
        old_drv_zstd f (l_st r) (skipn (l_cons r) inp) (cap - length (l_out r)) fl
                     (ci + l_cons r) (co ++ l_out r)
      end
    else mkX ci co (old_zstd_after inp cap fl) st
  end.

End Drivers.

(* fuel that the contract makes sufficient for one process_data call *)
Definition drv_fuel (inp : list N) (cap : nat) : nat := length inp + cap + 2.

(* A "driver" as the stream wrappers see it: xfrm_stream_t.process_data with
   *in_read = *out_written = 0 on entry. *)
Definition driver (D : Type) := D -> list N -> nat -> flush -> xres D.

Definition mk_zlib S (C : codec S) (dec : bool) : driver S :=
  fun st inp cap fl => drv_zlib C dec (drv_fuel inp cap) st inp cap fl 0 [].
Definition mk_bzip2 S (C : codec S) (dec : bool) : driver S :=
  fun st inp cap fl => drv_bzip2 C dec (drv_fuel inp cap) st inp cap fl 0 [].
Definition mk_zstd S (C : codec S) (dec : bool) : driver (S * bool) :=
  fun st inp cap fl => drv_zstd C dec (drv_fuel inp cap) st inp cap fl 0 [].
Definition mk_old_zlib S (C : codec S) : driver S :=
  fun st inp cap fl => old_drv_zlib C (drv_fuel inp cap) st inp cap fl 0 [].
Definition mk_old_zstd S (C : codec S) : driver S :=
  fun st inp cap fl => old_drv_zstd C (drv_fuel inp cap) st inp cap fl 0 [].

(* ------------------------------------------------------------------ *)
(* istream.c                                                           *)
(* ------------------------------------------------------------------ *)

Inductive res (A : Type) := Ok (a : A) | Err | Fuel.
Arguments Err {A}.
Arguments Fuel {A}.

Section IStream.
Variable D : Type.
Variable drv : driver D.
Variable bufsz : nat.

(* the wrapped stream is a byte list plus a schedule of window sizes: call k
   of wrapped->get_buffered_data exposes max 1 (k-th entry) bytes (everything
   that is left once the schedule is used up) *)
Record istate := mkI {
  i_drv : D;
  i_buf : list N;        (* uncompressed[0 .. buffer_used) *)
  i_off : nat;           (* buffer_offset *)
  i_src : list N;        (* what the wrapped stream has not been advanced over *)
  i_ws : list nat
}.

Definition window (src : list N) (ws : list nat) : list N :=
  match ws with
  | [] => src
  | w :: _ => firstn (Nat.max 1 w) src
  end.

(* the for(;;) of precache; [buf] = uncompressed[0..buffer_used) *)
Fixpoint precache_loop (fuel : nat) (st : D) (buf src : list N) (ws : list nat)
  : res (D * list N * list N * list nat) :=
  match fuel with
  | O => Fuel
  | S f =>
    let eof := nilb src in
    let mode := if eof then FlushFull else FlushNone in
    let r := drv st (window src ws) (bufsz - length buf) mode in
    match x_stat r with
    | XErr => Err
    | XFuel => Fuel
    | s =>
      let buf' := buf ++ x_out r in
      let src' := skipn (x_cons r) src in
      let ws' := tl ws in
      let full := match s with XBuf => true | _ => false end || (bufsz <=? length buf') in
      if full || eof then Ok (x_st r, buf', src', ws')
      else precache_loop f (x_st r) buf' src' ws'
    end
  end.

Definition precache_fuel (src : list N) : nat := 2 * length src + 3.

Definition precache (s : istate) : res istate :=
  let buf := skipn (i_off s) (i_buf s) in
  match precache_loop (precache_fuel (i_src s)) (i_drv s) buf (i_src s) (i_ws s) with
  | Ok (st, buf', src', ws') => Ok (mkI st buf' 0 src' ws')
  | Err => Err
  | Fuel => Fuel
  end.

(* xfrm_get_buffered_data: Ok (state, ret (false = 0, true = 1 i.e. EOF), window) *)
Definition get_buffered_data (s : istate) (want : nat) : res (istate * bool * list N) :=
  let want' := Nat.min want bufsz in
  let fin (s : istate) :=
      let w := skipn (i_off s) (i_buf s) in Ok (s, nilb w, w) in
  if (length (i_buf s) =? i_off s) || (length (i_buf s) - i_off s <? want')
  then match precache s with
       | Ok s' => fin s'
       | Err => Err
       | Fuel => Fuel
       end
  else fin s.

Definition advance (s : istate) (count : nat) : istate :=
  mkI (i_drv s) (i_buf s) (i_off s + count) (i_src s) (i_ws s).

(* A reader: list of (want, take); take is clamped to what was offered (the
   assertion in xfrm_advance_buffer).  Result: bytes taken, and how it ended. *)
Inductive rend := REof | RErr | RMore | RFuel.

Fixpoint reader (s : istate) (ops : list (nat * nat)) (acc : list N) : list N * rend * istate :=
  match ops with
  | [] => (acc, RMore, s)
  | (want, take) :: ops' =>
    match get_buffered_data s want with
    | Err => (acc, RErr, s)
    | Fuel => (acc, RFuel, s)
    | Ok (s', eof, w) =>
      if eof then (acc, REof, s')
      else let t := Nat.min take (length w) in
           reader (advance s' t) ops' (acc ++ firstn t w)
    end
  end.

(* the same reader, also recording the window size offered at every step (for the trace tie) *)
Fixpoint reader_tr (s : istate) (ops : list (nat * nat)) (acc : list N) (tr : list nat)
  : list N * list nat * rend * istate :=
  match ops with
  | [] => (acc, tr, RMore, s)
  | (want, take) :: ops' =>
    match get_buffered_data s want with
    | Err => (acc, tr, RErr, s)
    | Fuel => (acc, tr, RFuel, s)
    | Ok (s', eof, w) =>
      if eof then (acc, tr, REof, s')
      else let t := Nat.min take (length w) in
           reader_tr (advance s' t) ops' (acc ++ firstn t w) (tr ++ [length w])
    end
  end.

Definition istream_init (d0 : D) (src : list N) (ws : list nat) : istate :=
  mkI d0 [] 0 src ws.

End IStream.

(* ------------------------------------------------------------------ *)
(* ostream.c                                                           *)
(* ------------------------------------------------------------------ *)

Section OStream.
Variable D : Type.
Variable drv : driver D.
Variable bufsz : nat.

(* events on the wrapped stream *)
Inductive oev := EvAppend (l : list N) | EvFlush.

Record ostate := mkO {
  o_drv : D;
  o_inbuf : list N;      (* inbuf[0 .. inbuf_used) *)
  o_log : list oev       (* calls made on the wrapped stream, oldest first *)
}.

(* the while loop of flush_inbuf; [rest] = inbuf[off_in .. avail_in) *)
Fixpoint flush_loop (fuel : nat) (finish : bool) (st : D) (rest : list N) (log : list oev)
  : res (D * list N * list oev) :=
  match fuel with
  | O => Fuel
  | S f =>
    if finish || negb (nilb rest) then
      let r := drv st rest bufsz (if finish then FlushFull else FlushNone) in
      match x_stat r with
      | XErr => Err
      | XFuel => Fuel
      | s =>
        let log' := log ++ [EvAppend (x_out r)] in
        let rest' := skipn (x_cons r) rest in
        match s with
        | XEnd => Ok (x_st r, rest', log')
        | _ => flush_loop f finish (x_st r) rest' log'
        end
      end
    else Ok (st, rest, log)
  end.

Definition flush_inbuf (fuel : nat) (s : ostate) (finish : bool) : res ostate :=
  match flush_loop fuel finish (o_drv s) (o_inbuf s) (o_log s) with
  | Ok (st, rest, log) => Ok (mkO st rest log)
  | Err => Err
  | Fuel => Fuel
  end.

(* xfrm_append(data, size); data = NULL (zero fill) is the same with zeros *)
Fixpoint append_loop (fuel lfuel : nat) (s : ostate) (data : list N) : res ostate :=
  match fuel with
  | O => Fuel
  | S f =>
    match data with
    | [] => Ok s
    | _ =>
      let go (s : ostate) :=
          let diff := Nat.min (bufsz - length (o_inbuf s)) (length data) in
          append_loop f lfuel (mkO (o_drv s) (o_inbuf s ++ firstn diff data) (o_log s))
                      (skipn diff data) in
      if bufsz <=? length (o_inbuf s) then
        match flush_inbuf lfuel s false with
        | Ok s' => go s'
        | Err => Err
        | Fuel => Fuel
        end
      else go s
    end
  end.

Definition xfrm_append (lfuel : nat) (s : ostate) (data : list N) : res ostate :=
  append_loop (2 * length data + 2) lfuel s data.

Definition xfrm_flush (lfuel : nat) (s : ostate) : res ostate :=
  let fin (s : ostate) := Ok (mkO (o_drv s) (o_inbuf s) (o_log s ++ [EvFlush])) in
  if 0 <? length (o_inbuf s) then
    match flush_inbuf lfuel s true with
    | Ok s' => fin s'
    | Err => Err
    | Fuel => Fuel
    end
  else fin s.

(* a writer: appends every chunk, then flushes once (sqfs2tar) *)
Fixpoint writer (lfuel : nat) (s : ostate) (chunks : list (list N)) : res ostate :=
  match chunks with
  | [] => xfrm_flush lfuel s
  | c :: r =>
    match xfrm_append lfuel s c with
    | Ok s' => writer lfuel s' r
    | Err => Err
    | Fuel => Fuel
    end
  end.

Definition ostream_init (d0 : D) : ostate := mkO d0 [] [].

Fixpoint log_bytes (l : list oev) : list N :=
  match l with
  | [] => []
  | EvAppend b :: r => b ++ log_bytes r
  | EvFlush :: r => log_bytes r
  end.

End OStream.

(* ------------------------------------------------------------------ *)
(* compress.c: magic table; iterator.c: tar_probe                      *)
(* ------------------------------------------------------------------ *)
Local Open Scope N_scope.

Definition magic_table : list (N * list N) :=
  [ (1, [31; 139; 8]);                 (* XFRM_COMPRESSOR_GZIP  "\x1F\x8B\x08" *)
    (2, [253; 55; 122; 88; 90; 0]);    (* XFRM_COMPRESSOR_XZ    "\xFD7zXZ\0"   *)
    (3, [40; 181; 47; 253]);           (* XFRM_COMPRESSOR_ZSTD  "\x28\xB5\x2F\xFD" *)
    (4, [66; 90; 104]) ].              (* XFRM_COMPRESSOR_BZIP2 "BZh" *)

Fixpoint prefixb (p l : list N) : bool :=
  match p, l with
  | [], _ => true
  | a :: p', b :: l' => N.eqb a b && prefixb p' l'
  | _ :: _, [] => false
  end.

(* xfrm_compressor_id_from_magic: None = -1 *)
Fixpoint id_from_magic_go (tab : list (N * list N)) (data : list N) : option N :=
  match tab with
  | [] => None
  | (id, m) :: r => if prefixb m data then Some id else id_from_magic_go r data
  end.
Definition id_from_magic := id_from_magic_go magic_table.

Definition tar_record_size : nat := 512.
Definition tar_magic_off : nat := 257.     (* offsetof(tar_header_t, magic) *)
Definition ustar : list N := [117; 115; 116; 97; 114].

Definition all_zero (l : list N) : bool := forallb (N.eqb 0) l.

Definition tar_probe (data : list N) : bool :=
  let data' :=
      if (tar_record_size <=? length data)%nat && all_zero (firstn tar_record_size data)
      then skipn tar_record_size data else data in
  prefixb ustar (skipn tar_magic_off data') .

(* what tar_open_stream decides from the first window: None = read as is,
   Some id = wrap in decompressor id *)
Definition tar_detect (data : list N) : option N :=
  if tar_probe data then None
  else match id_from_magic data with
       | Some id => if (0 <? id) then Some id else None
       | None => None
       end.
