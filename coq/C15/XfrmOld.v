(* C15 -- the driver loops as they were before the repair (F17/F18):
     while (in_size > 0 && out_size > 0)          gzip.c, xz.c, bzip2.c
   never run when ostream_xfrm's flush_inbuf(true) comes back with no input
   left, so pending output is never drained: the loop of flush_inbuf spins
   forever (gzip/xz/bzip2) or, with zstd.c's old "END whenever the input is
   used up", stops with an unfinished frame; and istream_xfrm reported a
   clean EOF for input that ends inside a member.  Witnesses on the toy codec. *)
From Coq Require Import List NArith Bool Arith Lia.
From SqfsV Require Import C15.XfrmModel C15.ToyCodec.
Import ListNotations.
Local Open Scope N_scope.

Definition w_e0 : test := toy_enc_init 255 0 0 false false.
Definition w_plain : list N := [1; 2; 3].
(* outbuf of 4 bytes; the member for [1;2;3] has 9: A7 01 03 01 02 03 00 06 *)
Definition w_bufsz : nat := 4.

Definition old_first := mk_old_zlib toy_enc w_e0 w_plain w_bufsz FlushFull.
Definition old_stuck : test := x_st old_first.

Lemma old_first_eq : old_first = mkX 3%nat [167; 1; 3; 1] XOk old_stuck.
Proof. vm_compute. reflexivity. Qed.

Lemma old_stuck_eq : mk_old_zlib toy_enc old_stuck [] w_bufsz FlushFull = mkX 0%nat [] XOk old_stuck.
Proof. vm_compute. reflexivity. Qed.

Lemma old_spin : forall f log,
  flush_loop (mk_old_zlib toy_enc) w_bufsz f true old_stuck [] log = Fuel.
Proof.
  induction f as [|f IH]; intro log; [reflexivity|].
  cbn [flush_loop orb]. rewrite old_stuck_eq. cbn [x_stat x_st x_out x_cons skipn]. apply IH.
Qed.

(* whatever the fuel: flush never comes back *)
Lemma old_finish_never_drains_l : forall lfuel,
  writer (mk_old_zlib toy_enc) w_bufsz lfuel (ostream_init w_e0) [w_plain] = Fuel.
Proof.
  intro lfuel. unfold writer, xfrm_append, w_plain, w_bufsz, ostream_init.
  cbn [length Nat.mul Nat.add append_loop o_inbuf Nat.leb Nat.sub Nat.min app firstn skipn o_drv o_log].
  unfold xfrm_flush. cbn [o_inbuf length Nat.ltb Nat.leb]. unfold flush_inbuf. cbn [o_drv o_inbuf o_log].
  destruct lfuel as [|f]; [reflexivity|].
  cbn [flush_loop orb].
  change (mk_old_zlib toy_enc w_e0 [1; 2; 3] 4%nat FlushFull) with old_first.
  rewrite old_first_eq. cbn [x_stat x_st x_out x_cons skipn].
  change 4%nat with w_bufsz. rewrite old_spin. reflexivity.
Qed.
