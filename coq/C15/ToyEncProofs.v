(* C15 -- the toy encoder of ToyCodec.v (Gallina twin of props/C15/toy.h) meets the
   encoder contract of XfrmSpec.v for every setting of its knobs (block size >= 1,
   per-call limits, greedy, final-run ending). *)
From Coq Require Import List NArith Bool Arith Lia.
From SqfsV Require Import C15.XfrmModel C15.XfrmSpec C15.XfrmBase C15.ToyCodec C15.ToyFormat.
Import ListNotations.

(* ------------------------------------------------------------------ *)
(* encoding of one block                                               *)
(* ------------------------------------------------------------------ *)
Lemma T_lits : forall l s, Trans (DLit (length l)) s l l (DLit 0) (sum256 s l).
Proof.
  induction l as [|c l IH]; intro s; simpl.
  - apply T_refl.
  - change (c :: l) with ([c] ++ l). eapply T_trans; [apply T_litS|apply IH].
Qed.

Lemma sum256_lt : forall l s, s < 256 -> sum256 s l < 256.
Proof. induction l as [|c l IH]; intros s Hs; simpl; [assumption|]. apply IH. apply add256_lt. Qed.

Lemma add256_eq s c : add256 s c = (s + nat_of_byte c) mod 256.
Proof. reflexivity. Qed.

Lemma sum256_repeat : forall n s b, s < 256 -> sum256 s (repeat b n) = run_sum s n b.
Proof.
  induction n as [|n IH]; intros s b Hs; simpl.
  - symmetry. now apply run_sum_0.
  - rewrite IH by apply add256_lt. rewrite !run_sum_eq, add256_eq.
    rewrite Nat.add_mod_idemp_l by lia. f_equal. lia.
Qed.

Lemma forallb_eq_repeat (b : N) : forall l, forallb (N.eqb b) l = true -> l = repeat b (length l).
Proof.
  induction l as [|a l IH]; simpl; [reflexivity|].
  intro H. apply andb_true_iff in H. destruct H as [H1 H2]. apply N.eqb_eq in H1. subst a.
  f_equal. now apply IH.
Qed.

Lemma all_same_repeat l b : all_same l = Some b -> l = repeat b (length l) /\ l <> [].
Proof.
  destruct l as [|a l]; simpl; [discriminate|].
  destruct (forallb (N.eqb a) l) eqn:E; [|discriminate]. intro H. injection H as <-.
  split; [|discriminate]. f_equal. now apply forallb_eq_repeat.
Qed.

Lemma T_cons ph s c ph1 s1 z o ph2 s2 :
  Trans ph s [c] [] ph1 s1 -> Trans ph1 s1 z o ph2 s2 -> Trans ph s (c :: z) o ph2 s2.
Proof. intros H1 H2. exact (T_trans _ _ _ _ _ _ _ _ _ _ H1 H2). Qed.

Lemma T_trans_nil ph s c o ph1 s1 ph2 s2 :
  Trans ph s c o ph1 s1 -> Trans ph1 s1 [] [] ph2 s2 -> Trans ph s c o ph2 s2.
Proof.
  intros H1 H2. pose proof (T_trans _ _ _ _ _ _ _ _ _ _ H1 H2) as H. now rewrite !app_nil_r in H.
Qed.

Lemma T_litblock s l : l <> [] ->
  Trans DTag s (1%N :: byte_of_nat (length l) :: l) l DTag (sum256 s l).
Proof.
  intro Hl.
  eapply T_cons; [apply T_tag_lit; reflexivity|].
  eapply T_cons.
  { apply T_litlen. rewrite byte_roundtrip. destruct l; [congruence|discriminate]. }
  rewrite byte_roundtrip.
  eapply T_trans_nil; [apply T_lits|apply T_lit0].
Qed.

Lemma T_runblock s n b : n <> 0 -> s < 256 ->
  Trans DTag s [2%N; byte_of_nat n; 0%N; b] (repeat b n) DTag (run_sum s n b).
Proof.
  intros Hn Hs.
  eapply T_cons; [apply T_tag_run; reflexivity|].
  eapply T_cons; [apply T_runlo|].
  eapply T_cons.
  { apply T_runhi. rewrite byte_roundtrip. change (nat_of_byte 0%N) with 0.
    replace (n + 256 * 0) with n by lia. apply Nat.eqb_neq in Hn. now rewrite Hn. }
  eapply T_cons; [apply T_runb|].
  rewrite byte_roundtrip. change (nat_of_byte 0%N) with 0. replace (n + 256 * 0) with n by lia.
  pose proof (T_out_part false n b s n (le_n n)) as H. rewrite Nat.sub_diag in H.
  eapply T_trans_nil; [exact H|]. apply T_out0. apply run_sum_lt.
Qed.

Lemma R_finblock s n b : Rest DTag s [3%N; byte_of_nat n; 0%N; b] (repeat b n).
Proof.
  apply R_tag_fin; [reflexivity|]. apply R_runlo. apply R_runhi; [now rewrite andb_false_r|].
  apply R_runb. rewrite byte_roundtrip. change (nat_of_byte 0%N) with 0. replace (n + 256 * 0) with n by lia.
  apply R_out_fin.
Qed.

Lemma block_spec ibuf last s enc ended :
  ibuf <> [] -> s < 256 -> enc_block ibuf last = (enc, ended) ->
  length enc <= length ibuf + 2 /\ (ended = true -> last = true) /\
  if ended then Rest DTag s enc ibuf else Trans DTag s enc ibuf DTag (sum256 s ibuf).
Proof.
  intros Hne Hs. unfold enc_block.
  destruct (all_same ibuf) as [b|] eqn:Ea.
  - destruct (all_same_repeat _ _ Ea) as [Er _].
    destruct (2 <=? length ibuf) eqn:E2.
    + apply Nat.leb_le in E2. destruct last; intro H; injection H as <- <-; simpl length.
      * split; [lia|]. split; [auto|]. rewrite Er at 2. apply R_finblock.
      * split; [lia|]. split; [discriminate|]. rewrite Er at 2 3. rewrite sum256_repeat by assumption.
        apply T_runblock; [lia|assumption].
    + intro H. injection H as <- <-. simpl length. split; [lia|]. split; [discriminate|].
      now apply T_litblock.
  - intro H. injection H as <- <-. simpl length. split; [lia|]. split; [discriminate|].
    now apply T_litblock.
Qed.

(* ------------------------------------------------------------------ *)
(* the loop, one iteration at a time                                   *)
(* ------------------------------------------------------------------ *)
Definition st_upd (st : test) ibuf pend sum started ending mid : test :=
  mkTE ibuf pend sum started ending mid (e_blk st) (e_maxin st) (e_maxout st) (e_greedy st) (e_finrun st).

Definition st_emit (st : test) (m : nat) : test :=
  st_upd st (e_ibuf st) (skipn m (e_pend st)) (e_sum st) (e_started st) (e_ending st) (e_mid st).
Definition st_block (st : test) (enc : list N) (ended : bool) : test :=
  st_upd st [] (e_pend st ++ magic_if (e_started st) ++ enc) (sum256 (e_sum st) (e_ibuf st)) true ended (e_mid st).
Definition st_take (st : test) (c : N) : test :=
  st_upd st (e_ibuf st ++ [c]) (e_pend st) (e_sum st) (e_started st) (e_ending st) true.
Definition st_endmark (st : test) : test :=
  st_upd st [] (e_pend st ++ magic_if (e_started st) ++ [0%N; byte_of_nat (e_sum st)]) (e_sum st) true true (e_mid st).
Definition st_reset (st : test) : test := st_upd st [] [] 0 false false false.

Definition step_emit f (st : test) inp ib ob cn rout fl :=
  let m := Nat.min (length (e_pend st)) ob in
  enc_loop f (st_emit st m) inp ib (ob - m) cn (rev_append (firstn m (e_pend st)) rout) fl.

Definition step_act f (st : test) (inp : list N) ib ob cn rout fl (a : eact) :=
  match a with
  | ABlock last =>
    let '(enc, ended) := enc_block (e_ibuf st) (last && e_finrun st) in
    enc_loop f (st_block st enc ended) inp ib ob cn rout fl
  | ATake =>
    match inp with
    | c :: inp' => enc_loop f (st_take st c) inp' (ib - 1) ob (cn + 1) rout fl
    | [] => (st, cn, rout, EsMore)
    end
  | AEndmark => enc_loop f (st_endmark st) inp ib ob cn rout fl
  | ANone => (st, cn, rout, EsMore)
  end.

Definition has_act (a : eact) : bool := match a with ANone => false | _ => true end.

Lemma enc_loop_S f st inp ib ob cn rout fl :
  enc_loop (S f) st inp ib ob cn rout fl =
  let a := enc_action st inp ib fl in
  let pending := negb (nilb (e_pend st)) in
  if e_ending st && negb pending then (st_reset st, cn, rout, EsEnd)
  else if e_greedy st then
    if has_act a then step_act f st inp ib ob cn rout fl a
    else if pending && negb (ob =? 0) then step_emit f st inp ib ob cn rout fl
    else (st, cn, rout, EsMore)
  else
    if pending then (if ob =? 0 then (st, cn, rout, EsMore) else step_emit f st inp ib ob cn rout fl)
    else step_act f st inp ib ob cn rout fl a.
Proof. reflexivity. Qed.

(* ------------------------------------------------------------------ *)
(* invariant                                                           *)
(* ------------------------------------------------------------------ *)
(* [done] = the plain bytes already encoded into em ++ pend *)
Definition EInv (st : test) (fed em : list N) : Prop :=
  1 <= e_blk st /\ e_sum st < 256 /\
  exists done, fed = done ++ e_ibuf st /\
    match e_started st, e_ending st with
    | false, false => em = [] /\ e_pend st = [] /\ done = [] /\ e_sum st = 0
    | false, true => False
    | true, false => Trans DMagic 0 (em ++ e_pend st) done DTag (e_sum st)
    | true, true => e_ibuf st = [] /\ Rest DMagic 0 (em ++ e_pend st) done
    end.

Definition knobs_eq (a b : test) : Prop :=
  e_blk a = e_blk b /\ e_maxin a = e_maxin b /\ e_maxout a = e_maxout b /\
  e_greedy a = e_greedy b /\ e_finrun a = e_finrun b.

Lemma knobs_refl a : knobs_eq a a.
Proof. repeat split. Qed.
Lemma knobs_trans a b c : knobs_eq a b -> knobs_eq b c -> knobs_eq a c.
Proof. unfold knobs_eq. intuition congruence. Qed.
Lemma knobs_upd st i p s a b m : knobs_eq (st_upd st i p s a b m) st.
Proof. repeat split. Qed.

(* what is still to be emitted if no more input is taken *)
Definition phi (st : test) : nat :=
  length (e_pend st) +
  (if e_ending st then 0
   else (if nilb (e_ibuf st) then 0 else length (e_ibuf st) + 2) + (if e_started st then 0 else 1) + 2).

(* before the tag of the next block / the end marker: magic queued if necessary *)
Lemma pre_tag st fed em done :
  e_sum st < 256 -> e_ending st = false ->
  match e_started st, e_ending st with
  | false, false => em = [] /\ e_pend st = [] /\ done = [] /\ e_sum st = 0
  | false, true => False
  | true, false => Trans DMagic 0 (em ++ e_pend st) done DTag (e_sum st)
  | true, true => e_ibuf st = [] /\ Rest DMagic 0 (em ++ e_pend st) done
  end ->
  fed = done ++ e_ibuf st ->
  Trans DMagic 0 (em ++ e_pend st ++ magic_if (e_started st)) done DTag (e_sum st).
Proof.
  intros Hs He H _. rewrite He in H. destruct (e_started st); cbn [magic_if].
  - now rewrite app_nil_r.
  - destruct H as (-> & -> & -> & ->). simpl. apply T_magic. reflexivity.
Qed.

Lemma EInv_emit st fed em m :
  EInv st fed em -> EInv (st_emit st m) fed (em ++ firstn m (e_pend st)).
Proof.
  intros (Hb & Hs & done & Ef & H). split; [exact Hb|]. split; [exact Hs|].
  exists done. split; [exact Ef|].
  cbn [st_emit st_upd e_started e_ending e_pend e_ibuf e_sum].
  destruct (e_started st), (e_ending st); try contradiction.
  - rewrite <- app_assoc, firstn_skipn. exact H.
  - rewrite <- app_assoc, firstn_skipn. exact H.
  - destruct H as (-> & Hp & -> & Hz). rewrite Hp. rewrite firstn_nil, skipn_nil. auto.
Qed.

Lemma EInv_take st fed em c :
  EInv st fed em -> e_ending st = false -> EInv (st_take st c) (fed ++ [c]) em.
Proof.
  intros (Hb & Hs & done & Ef & H) He. split; [exact Hb|]. split; [exact Hs|].
  exists done. cbn [st_take st_upd e_started e_ending e_pend e_ibuf e_sum].
  split; [rewrite Ef; now rewrite app_assoc|].
  rewrite He in *. destruct (e_started st); auto.
Qed.

Lemma EInv_block st fed em enc ended last :
  EInv st fed em -> e_ending st = false -> e_ibuf st <> [] ->
  enc_block (e_ibuf st) last = (enc, ended) ->
  EInv (st_block st enc ended) fed em /\ (ended = true -> last = true) /\
  length enc <= length (e_ibuf st) + 2.
Proof.
  intros (Hb & Hs & done & Ef & H) He Hne Hblk.
  destruct (block_spec _ _ (e_sum st) _ _ Hne Hs Hblk) as (Hlen & Hlast & Hsem).
  pose proof (pre_tag st fed em done Hs He H Ef) as HT.
  split; [|split; assumption].
  split; [exact Hb|]. split; [cbn; now apply sum256_lt|].
  exists (done ++ e_ibuf st). cbn [st_block st_upd e_started e_ending e_pend e_ibuf e_sum].
  split; [now rewrite app_nil_r|].
  rewrite !app_assoc. rewrite <- (app_assoc em).
  destruct ended.
  - split; [reflexivity|]. eapply T_rest; eauto.
  - eapply T_trans; eauto.
Qed.

Lemma EInv_endmark st fed em :
  EInv st fed em -> e_ending st = false -> e_ibuf st = [] -> EInv (st_endmark st) fed em.
Proof.
  intros (Hb & Hs & done & Ef & H) He Hi.
  pose proof (pre_tag st fed em done Hs He H Ef) as HT.
  split; [exact Hb|]. split; [exact Hs|].
  exists done. cbn [st_endmark st_upd e_started e_ending e_pend e_ibuf e_sum].
  split; [rewrite Ef, Hi; reflexivity|]. split; [reflexivity|].
  rewrite !app_assoc. rewrite <- (app_assoc em). rewrite <- (app_nil_r done).
  eapply T_rest; [exact HT|].
  apply R_tag_end; [reflexivity|]. apply R_chk. apply byte_roundtrip.
Qed.

(* ------------------------------------------------------------------ *)
(* the loop                                                            *)
(* ------------------------------------------------------------------ *)
Definition ESpec (st : test) (inp : list N) (ib ob cn : nat) (rout : list N) (fl : flush) (fed em : list N)
           (res : test * nat * list N * estop) : Prop :=
  let '(st', cn', rout', stop) := res in
  exists c o t, inp = c ++ t /\ cn' = cn + length c /\ rout' = rev o ++ rout /\
    length c <= ib /\ length o <= ob /\ knobs_eq st' st /\
    match stop with
    | EsMore => EInv st' (fed ++ c) (em ++ o) /\ (e_ending st' = true -> t = [] /\ fl = FlushFull) /\
                (c = [] -> phi st' + length o <= phi st)
    | EsEnd => fl = FlushFull /\ t = [] /\ TMember (em ++ o) (fed ++ c) /\ st' = st_reset st
    end.

Lemma espec_more st inp ib ob cn rout fl fed em :
  EInv st fed em -> (e_ending st = true -> inp = [] /\ fl = FlushFull) ->
  ESpec st inp ib ob cn rout fl fed em (st, cn, rout, EsMore).
Proof.
  intros HI HL. exists [], [], inp. cbn [app length rev].
  split; [reflexivity|]. split; [lia|]. split; [reflexivity|]. split; [lia|]. split; [lia|].
  split; [apply knobs_refl|]. rewrite !app_nil_r. split; [assumption|]. split; [assumption|]. intros _. lia.
Qed.

(* glue one step in front of the rest of the loop *)
Lemma eglue st st1 c1 o1 inp inp1 ib ib1 ob ob1 cn cn1 rout rout1 fl fed em res :
  inp = c1 ++ inp1 -> cn1 = cn + length c1 -> rout1 = rev o1 ++ rout ->
  ib1 + length c1 <= ib -> ob1 + length o1 <= ob -> knobs_eq st1 st ->
  (c1 = [] -> phi st1 + length o1 <= phi st) ->
  st_reset st1 = st_reset st ->
  ESpec st1 inp1 ib1 ob1 cn1 rout1 fl (fed ++ c1) (em ++ o1) res ->
  ESpec st inp ib ob cn rout fl fed em res.
Proof.
  intros -> -> -> Hi Ho Hk Hphi Hreset. destruct res as [[[st' cn'] rout'] stop]. cbn [ESpec].
  intros (c & o & t & -> & -> & -> & L1 & L2 & K & HP).
  exists (c1 ++ c), (o1 ++ o), t.
  split; [now rewrite app_assoc|]. split; [rewrite app_length; lia|].
  split; [rewrite rev_app_distr; now rewrite app_assoc|].
  split; [rewrite app_length; lia|]. split; [rewrite app_length; lia|].
  split; [eapply knobs_trans; eauto|].
  rewrite !app_assoc. destruct stop.
  - destruct HP as (H1 & H2 & H3). split; [assumption|]. split; [assumption|].
    intro E. apply app_eq_nil in E. destruct E as [E1 E2]. rewrite app_length.
    specialize (Hphi E1). specialize (H3 E2). lia.
  - destruct HP as (H1 & H2 & H3 & H4). split; [assumption|]. split; [assumption|]. split; [assumption|].
    now rewrite H4.
Qed.

Lemma st_reset_upd st i p s a b m : st_reset (st_upd st i p s a b m) = st_reset st.
Proof. reflexivity. Qed.

Lemma enc_action_none_ending st inp ib fl : e_ending st = true -> enc_action st inp ib fl = ANone.
Proof. intro H. unfold enc_action. now rewrite H. Qed.

Lemma enc_loop_spec : forall fuel st inp ib ob cn rout fl fed em,
  EInv st fed em -> (e_ending st = true -> inp = [] /\ fl = FlushFull) ->
  ESpec st inp ib ob cn rout fl fed em (enc_loop fuel st inp ib ob cn rout fl).
Proof.
  induction fuel as [|f IH]; intros st inp ib ob cn rout fl fed em HI HL.
  { cbn [enc_loop]. now apply espec_more. }
  rewrite enc_loop_S. cbv zeta.
  (* the three kinds of steps *)
  assert (Hemit : ESpec st inp ib ob cn rout fl fed em (step_emit f st inp ib ob cn rout fl)).
  { unfold step_emit. set (m := Nat.min (length (e_pend st)) ob).
    eapply (eglue st (st_emit st m) [] (firstn m (e_pend st)) inp inp ib ib ob (ob - m) cn cn rout
                  (rev_append (firstn m (e_pend st)) rout)).
    - reflexivity.
    - simpl. lia.
    - now rewrite rev_append_rev.
    - simpl. lia.
    - rewrite firstn_length. unfold m. lia.
    - apply knobs_upd.
    - intros _. unfold phi. cbn [st_emit st_upd e_pend e_ending e_ibuf e_started].
      rewrite skipn_length, firstn_length. unfold m. lia.
    - reflexivity.
    - rewrite app_nil_r. apply IH; [now apply EInv_emit|exact HL]. }
  assert (Hact : e_ending st = false ->
                 ESpec st inp ib ob cn rout fl fed em (step_act f st inp ib ob cn rout fl (enc_action st inp ib fl))).
  { intro He. unfold enc_action. rewrite He.
    destruct HI as (Hb & Hs & HI').
    assert (HI : EInv st fed em) by (split; [assumption|split; assumption]).
    destruct (negb (length (e_ibuf st) <? e_blk st)) eqn:Hfullb.
    - (* ABlock: ibuf is full *)
      cbn [step_act].
      assert (Hne : e_ibuf st <> []).
      { apply negb_true_iff in Hfullb. apply Nat.ltb_ge in Hfullb. destruct (e_ibuf st); [simpl in Hfullb; lia|discriminate]. }
      destruct (enc_block (e_ibuf st) (is_full fl && nilb inp && e_finrun st)) as [enc ended] eqn:Hblk.
      destruct (EInv_block st fed em enc ended _ HI He Hne Hblk) as (HI1 & Hlast & Hlen).
      eapply (eglue st (st_block st enc ended) [] [] inp inp ib ib ob ob cn cn rout rout).
      + reflexivity.
      + simpl. lia.
      + reflexivity.
      + simpl. lia.
      + simpl. lia.
      + apply knobs_upd.
      + intros _. unfold phi. cbn [st_block st_upd e_pend e_ending e_ibuf e_started nilb].
        rewrite He. rewrite !app_length. simpl length.
        assert (length (magic_if (e_started st)) = if e_started st then 0 else 1) by (destruct (e_started st); reflexivity).
        destruct (nilb (e_ibuf st)) eqn:En; [apply nilb_true in En; congruence|].
        destruct ended, (e_started st); lia.
      + reflexivity.
      + rewrite !app_nil_r. apply IH; [exact HI1|].
        cbn [st_block st_upd e_ending]. intro E. specialize (Hlast E).
        apply andb_true_iff in Hlast. destruct Hlast as [Hlast _]. apply andb_true_iff in Hlast.
        destruct Hlast as [H1 H2]. apply nilb_true in H2. apply is_full_true in H1. auto.
    - destruct inp as [|c inp'].
      + destruct (is_full fl) eqn:Hfl; [|now apply espec_more].
        apply is_full_true in Hfl.
        destruct (nilb (e_ibuf st)) eqn:En.
        * (* AEndmark *)
          apply nilb_true in En. cbn [step_act].
          eapply (eglue st (st_endmark st) [] [] [] [] ib ib ob ob cn cn rout rout).
          -- reflexivity.
          -- simpl. lia.
          -- reflexivity.
          -- simpl. lia.
          -- simpl. lia.
          -- apply knobs_upd.
          -- intros _. unfold phi. cbn [st_endmark st_upd e_pend e_ending e_ibuf e_started nilb].
             rewrite He, En. rewrite !app_length. simpl length.
             destruct (e_started st); simpl; lia.
          -- reflexivity.
          -- rewrite !app_nil_r. apply IH; [now apply EInv_endmark|]. intros _. auto.
        * (* ABlock true: last block of the member *)
          apply nilb_false in En. cbn [step_act].
          destruct (enc_block (e_ibuf st) (true && e_finrun st)) as [enc ended] eqn:Hblk.
          destruct (EInv_block st fed em enc ended _ HI He En Hblk) as (HI1 & Hlast & Hlen).
          eapply (eglue st (st_block st enc ended) [] [] [] [] ib ib ob ob cn cn rout rout).
          -- reflexivity.
          -- simpl. lia.
          -- reflexivity.
          -- simpl. lia.
          -- simpl. lia.
          -- apply knobs_upd.
          -- intros _. unfold phi. cbn [st_block st_upd e_pend e_ending e_ibuf e_started nilb].
             rewrite He. rewrite !app_length. simpl length.
             assert (length (magic_if (e_started st)) = if e_started st then 0 else 1) by (destruct (e_started st); reflexivity).
             destruct (nilb (e_ibuf st)) eqn:En'; [apply nilb_true in En'; congruence|].
             destruct ended, (e_started st); lia.
          -- reflexivity.
          -- rewrite !app_nil_r. apply IH; [exact HI1|]. intros _. auto.
      + destruct (ib =? 0) eqn:Hib; [now apply espec_more|]. apply Nat.eqb_neq in Hib.
        (* ATake *)
        cbn [step_act].
        eapply (eglue st (st_take st c) [c] [] (c :: inp') inp' ib (ib - 1) ob ob cn (cn + 1) rout rout).
        * reflexivity.
        * simpl. lia.
        * reflexivity.
        * simpl. lia.
        * simpl. lia.
        * apply knobs_upd.
        * discriminate.
        * reflexivity.
        * rewrite app_nil_r. apply IH; [now apply EInv_take|].
          cbn [st_take st_upd e_ending]. intro E. congruence. }
  destruct (e_ending st) eqn:He.
  - (* the member is complete; only the backlog is left *)
    destruct (HL eq_refl) as [-> ->].
    destruct (negb (negb (nilb (e_pend st)))) eqn:Hp; cbn [andb].
    + (* END *)
      rewrite negb_involutive in Hp. apply nilb_true in Hp.
      exists [], [], []. cbn [app length rev].
      split; [reflexivity|]. split; [lia|]. split; [reflexivity|]. split; [lia|]. split; [lia|].
      split; [apply knobs_upd|]. split; [reflexivity|]. split; [reflexivity|]. split; [|reflexivity].
      destruct HI as (_ & _ & done & Ef & H). rewrite He in H.
      destruct (e_started st); [|contradiction]. destruct H as [Ei H].
      rewrite Ef, Ei, Hp, !app_nil_r in *. exact H.
    + rewrite negb_involutive in Hp. rewrite enc_action_none_ending by assumption. cbn [has_act].
      rewrite Hp. cbn [negb andb].
      destruct (e_greedy st).
      * destruct (negb (ob =? 0)); [exact Hemit|now apply espec_more].
      * destruct (ob =? 0); [now apply espec_more|exact Hemit].
  - cbn [andb]. specialize (Hact eq_refl).
    destruct (e_greedy st).
    + destruct (has_act (enc_action st inp ib fl)) eqn:Ha; [exact Hact|].
      destruct (negb (nilb (e_pend st)) && negb (ob =? 0)); [exact Hemit|apply espec_more; auto].
      rewrite He. discriminate.
    + destruct (negb (nilb (e_pend st))).
      * destruct (ob =? 0); [apply espec_more; auto; rewrite He; discriminate|exact Hemit].
      * exact Hact.
Qed.
