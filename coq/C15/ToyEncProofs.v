(* C15 -- the toy encoder of ToyCodec.v (Gallina twin of props/C15/toy.h) meets the
   encoder contract of XfrmSpec.v for every setting of its knobs (block size >= 1,
   per-call limits, greedy, final-run ending). *)
From Coq Require Import List NArith Bool Arith Lia.
From SqfsV Require Import C15.XfrmModel C15.XfrmSpec C15.XfrmBase C15.ToyCodec C15.ToyFormat.
Import ListNotations.

(* ------------------------------------------------------------------ *)
(* encoding of one block                                               *)
(* ------------------------------------------------------------------ *)
Lemma T_lits : forall l s, Trans (DLit (length l)) s l l (DLit 0) (sum256 s l).
Proof.
  induction l as [|c l IH]; intro s; simpl.
  - apply T_refl.
  - change (c :: l) with ([c] ++ l). eapply T_trans; [apply T_litS|apply IH].
Qed.

Lemma sum256_lt : forall l s, s < 256 -> sum256 s l < 256.
Proof. induction l as [|c l IH]; intros s Hs; simpl; [assumption|]. apply IH. apply add256_lt. Qed.

Lemma add256_eq s c : add256 s c = (s + nat_of_byte c) mod 256.
Proof. reflexivity. Qed.

Lemma sum256_repeat : forall n s b, s < 256 -> sum256 s (repeat b n) = run_sum s n b.
Proof.
  induction n as [|n IH]; intros s b Hs; simpl.
  - symmetry. now apply run_sum_0.
  - rewrite IH by apply add256_lt. rewrite !run_sum_eq, add256_eq.
    rewrite Nat.add_mod_idemp_l by lia. f_equal. lia.
Qed.

Lemma forallb_eq_repeat (b : N) : forall l, forallb (N.eqb b) l = true -> l = repeat b (length l).
Proof.
  induction l as [|a l IH]; simpl; [reflexivity|].
  intro H. apply andb_true_iff in H. destruct H as [H1 H2]. apply N.eqb_eq in H1. subst a.
  f_equal. now apply IH.
Qed.

Lemma all_same_repeat l b : all_same l = Some b -> l = repeat b (length l) /\ l <> [].
Proof.
  destruct l as [|a l]; simpl; [discriminate|].
  destruct (forallb (N.eqb a) l) eqn:E; [|discriminate]. intro H. injection H as <-.
  split; [|discriminate]. f_equal. now apply forallb_eq_repeat.
Qed.

Lemma T_cons ph s c ph1 s1 z o ph2 s2 :
  Trans ph s [c] [] ph1 s1 -> Trans ph1 s1 z o ph2 s2 -> Trans ph s (c :: z) o ph2 s2.
Proof. intros H1 H2. exact (T_trans _ _ _ _ _ _ _ _ _ _ H1 H2). Qed.

Lemma T_trans_nil ph s c o ph1 s1 ph2 s2 :
  Trans ph s c o ph1 s1 -> Trans ph1 s1 [] [] ph2 s2 -> Trans ph s c o ph2 s2.
Proof.
  intros H1 H2. pose proof (T_trans _ _ _ _ _ _ _ _ _ _ H1 H2) as H. now rewrite !app_nil_r in H.
Qed.

Lemma T_litblock s l : l <> [] ->
  Trans DTag s (1%N :: byte_of_nat (length l) :: l) l DTag (sum256 s l).
Proof.
  intro Hl.
  eapply T_cons; [apply T_tag_lit; reflexivity|].
  eapply T_cons.
  { apply T_litlen. rewrite byte_roundtrip. destruct l; [congruence|discriminate]. }
  rewrite byte_roundtrip.
  eapply T_trans_nil; [apply T_lits|apply T_lit0].
Qed.

Lemma T_runblock s n b : n <> 0 -> s < 256 ->
  Trans DTag s [2%N; byte_of_nat n; 0%N; b] (repeat b n) DTag (run_sum s n b).
Proof.
  intros Hn Hs.
  eapply T_cons; [apply T_tag_run; reflexivity|].
  eapply T_cons; [apply T_runlo|].
  eapply T_cons.
  { apply T_runhi. rewrite byte_roundtrip. change (nat_of_byte 0%N) with 0.
    replace (n + 256 * 0) with n by lia. apply Nat.eqb_neq in Hn. now rewrite Hn. }
  eapply T_cons; [apply T_runb|].
  rewrite byte_roundtrip. change (nat_of_byte 0%N) with 0. replace (n + 256 * 0) with n by lia.
  pose proof (T_out_part false n b s n (le_n n)) as H. rewrite Nat.sub_diag in H.
  eapply T_trans_nil; [exact H|]. apply T_out0. apply run_sum_lt.
Qed.

Lemma R_finblock s n b : Rest DTag s [3%N; byte_of_nat n; 0%N; b] (repeat b n).
Proof.
  apply R_tag_fin; [reflexivity|]. apply R_runlo. apply R_runhi; [now rewrite andb_false_r|].
  apply R_runb. rewrite byte_roundtrip. change (nat_of_byte 0%N) with 0. replace (n + 256 * 0) with n by lia.
  apply R_out_fin.
Qed.

Lemma block_spec ibuf last s enc ended :
  ibuf <> [] -> s < 256 -> enc_block ibuf last = (enc, ended) ->
  length enc <= length ibuf + 2 /\ (ended = true -> last = true) /\
  if ended then Rest DTag s enc ibuf else Trans DTag s enc ibuf DTag (sum256 s ibuf).
Proof.
  intros Hne Hs. unfold enc_block.
  destruct (all_same ibuf) as [b|] eqn:Ea.
  - destruct (all_same_repeat _ _ Ea) as [Er _].
    destruct (2 <=? length ibuf) eqn:E2.
    + apply Nat.leb_le in E2. destruct last; intro H; injection H as <- <-; simpl length.
      * split; [lia|]. split; [auto|]. rewrite Er at 2. apply R_finblock.
      * split; [lia|]. split; [discriminate|]. rewrite Er at 2 3. rewrite sum256_repeat by assumption.
        apply T_runblock; [lia|assumption].
    + intro H. injection H as <- <-. simpl length. split; [lia|]. split; [discriminate|].
      now apply T_litblock.
  - intro H. injection H as <- <-. simpl length. split; [lia|]. split; [discriminate|].
    now apply T_litblock.
Qed.

(* ------------------------------------------------------------------ *)
(* the loop, one iteration at a time                                   *)
(* ------------------------------------------------------------------ *)
Definition st_upd (st : test) ibuf pend sum started ending mid : test :=
  mkTE ibuf pend sum started ending mid (e_blk st) (e_maxin st) (e_maxout st) (e_greedy st) (e_finrun st).

Definition st_emit (st : test) (m : nat) : test :=
  st_upd st (e_ibuf st) (skipn m (e_pend st)) (e_sum st) (e_started st) (e_ending st) (e_mid st).
Definition st_block (st : test) (enc : list N) (ended : bool) : test :=
  st_upd st [] (e_pend st ++ magic_if (e_started st) ++ enc) (sum256 (e_sum st) (e_ibuf st)) true ended (e_mid st).
Definition st_take (st : test) (c : N) : test :=
  st_upd st (e_ibuf st ++ [c]) (e_pend st) (e_sum st) (e_started st) (e_ending st) true.
Definition st_endmark (st : test) : test :=
  st_upd st [] (e_pend st ++ magic_if (e_started st) ++ [0%N; byte_of_nat (e_sum st)]) (e_sum st) true true (e_mid st).
Definition st_reset (st : test) : test := st_upd st [] [] 0 false false false.

Definition step_emit f (st : test) inp ib ob cn rout fl :=
  let m := Nat.min (length (e_pend st)) ob in
  enc_loop f (st_emit st m) inp ib (ob - m) cn (rev_append (firstn m (e_pend st)) rout) fl.

Definition step_act f (st : test) (inp : list N) ib ob cn rout fl (a : eact) :=
  match a with
  | ABlock last =>
    let '(enc, ended) := enc_block (e_ibuf st) (last && e_finrun st) in
    enc_loop f (st_block st enc ended) inp ib ob cn rout fl
  | ATake =>
    match inp with
    | c :: inp' => enc_loop f (st_take st c) inp' (ib - 1) ob (cn + 1) rout fl
    | [] => (st, cn, rout, EsMore)
    end
  | AEndmark => enc_loop f (st_endmark st) inp ib ob cn rout fl
  | ANone => (st, cn, rout, EsMore)
  end.

Definition has_act (a : eact) : bool := match a with ANone => false | _ => true end.

Lemma enc_loop_S f st inp ib ob cn rout fl :
  enc_loop (S f) st inp ib ob cn rout fl =
  let a := enc_action st inp ib fl in
  let pending := negb (nilb (e_pend st)) in
  if e_ending st && negb pending then (st_reset st, cn, rout, EsEnd)
  else if e_greedy st then
    if has_act a then step_act f st inp ib ob cn rout fl a
    else if pending && negb (ob =? 0) then step_emit f st inp ib ob cn rout fl
    else (st, cn, rout, EsMore)
  else
    if pending then (if ob =? 0 then (st, cn, rout, EsMore) else step_emit f st inp ib ob cn rout fl)
    else step_act f st inp ib ob cn rout fl a.
Proof. reflexivity. Qed.

(* ------------------------------------------------------------------ *)
(* invariant                                                           *)
(* ------------------------------------------------------------------ *)
(* [done] = the plain bytes already encoded into em ++ pend *)
Definition EInv (st : test) (fed em : list N) : Prop :=
  1 <= e_blk st /\ e_sum st < 256 /\
  exists done, fed = done ++ e_ibuf st /\
    match e_started st, e_ending st with
    | false, false => em = [] /\ e_pend st = [] /\ done = [] /\ e_sum st = 0
    | false, true => False
    | true, false => Trans DMagic 0 (em ++ e_pend st) done DTag (e_sum st)
    | true, true => e_ibuf st = [] /\ Rest DMagic 0 (em ++ e_pend st) done
    end.

Definition knobs_eq (a b : test) : Prop :=
  e_blk a = e_blk b /\ e_maxin a = e_maxin b /\ e_maxout a = e_maxout b /\
  e_greedy a = e_greedy b /\ e_finrun a = e_finrun b.

Lemma knobs_refl a : knobs_eq a a.
Proof. repeat split. Qed.
Lemma knobs_trans a b c : knobs_eq a b -> knobs_eq b c -> knobs_eq a c.
Proof. unfold knobs_eq. intuition congruence. Qed.
Lemma knobs_upd st i p s a b m : knobs_eq (st_upd st i p s a b m) st.
Proof. repeat split. Qed.

(* what is still to be emitted if no more input is taken *)
Definition phi (st : test) : nat :=
  length (e_pend st) +
  (if e_ending st then 0
   else (if nilb (e_ibuf st) then 0 else length (e_ibuf st) + 2) + (if e_started st then 0 else 1) + 2).

(* before the tag of the next block / the end marker: magic queued if necessary *)
Lemma pre_tag st fed em done :
  e_sum st < 256 -> e_ending st = false ->
  match e_started st, e_ending st with
  | false, false => em = [] /\ e_pend st = [] /\ done = [] /\ e_sum st = 0
  | false, true => False
  | true, false => Trans DMagic 0 (em ++ e_pend st) done DTag (e_sum st)
  | true, true => e_ibuf st = [] /\ Rest DMagic 0 (em ++ e_pend st) done
  end ->
  fed = done ++ e_ibuf st ->
  Trans DMagic 0 (em ++ e_pend st ++ magic_if (e_started st)) done DTag (e_sum st).
Proof.
  intros Hs He H _. rewrite He in H. destruct (e_started st); cbn [magic_if].
  - now rewrite app_nil_r.
  - destruct H as (-> & -> & -> & ->). simpl. apply T_magic. reflexivity.
Qed.

Lemma EInv_emit st fed em m :
  EInv st fed em -> EInv (st_emit st m) fed (em ++ firstn m (e_pend st)).
Proof.
  intros (Hb & Hs & done & Ef & H). split; [exact Hb|]. split; [exact Hs|].
  exists done. split; [exact Ef|].
  cbn [st_emit st_upd e_started e_ending e_pend e_ibuf e_sum].
  destruct (e_started st), (e_ending st); try contradiction.
  - rewrite <- app_assoc, firstn_skipn. exact H.
  - rewrite <- app_assoc, firstn_skipn. exact H.
  - destruct H as (-> & Hp & -> & Hz). rewrite Hp. rewrite firstn_nil, skipn_nil. auto.
Qed.

Lemma EInv_take st fed em c :
  EInv st fed em -> e_ending st = false -> EInv (st_take st c) (fed ++ [c]) em.
Proof.
  intros (Hb & Hs & done & Ef & H) He. split; [exact Hb|]. split; [exact Hs|].
  exists done. cbn [st_take st_upd e_started e_ending e_pend e_ibuf e_sum].
  split; [rewrite Ef; now rewrite app_assoc|].
  rewrite He in *. destruct (e_started st); auto.
Qed.

Lemma EInv_block st fed em enc ended last :
  EInv st fed em -> e_ending st = false -> e_ibuf st <> [] ->
  enc_block (e_ibuf st) last = (enc, ended) ->
  EInv (st_block st enc ended) fed em /\ (ended = true -> last = true) /\
  length enc <= length (e_ibuf st) + 2.
Proof.
  intros (Hb & Hs & done & Ef & H) He Hne Hblk.
  destruct (block_spec _ _ (e_sum st) _ _ Hne Hs Hblk) as (Hlen & Hlast & Hsem).
  pose proof (pre_tag st fed em done Hs He H Ef) as HT.
  split; [|split; assumption].
  split; [exact Hb|]. split; [cbn; now apply sum256_lt|].
  exists (done ++ e_ibuf st). cbn [st_block st_upd e_started e_ending e_pend e_ibuf e_sum].
  split; [now rewrite app_nil_r|].
  rewrite !app_assoc. rewrite <- (app_assoc em).
  destruct ended.
  - split; [reflexivity|]. eapply T_rest; eauto.
  - eapply T_trans; eauto.
Qed.

Lemma EInv_endmark st fed em :
  EInv st fed em -> e_ending st = false -> e_ibuf st = [] -> EInv (st_endmark st) fed em.
Proof.
  intros (Hb & Hs & done & Ef & H) He Hi.
  pose proof (pre_tag st fed em done Hs He H Ef) as HT.
  split; [exact Hb|]. split; [exact Hs|].
  exists done. cbn [st_endmark st_upd e_started e_ending e_pend e_ibuf e_sum].
  split; [rewrite Ef, Hi; reflexivity|]. split; [reflexivity|].
  rewrite !app_assoc. rewrite <- (app_assoc em). rewrite <- (app_nil_r done).
  eapply T_rest; [exact HT|].
  apply R_tag_end; [reflexivity|]. apply R_chk. apply byte_roundtrip.
Qed.

(* ------------------------------------------------------------------ *)
(* the loop                                                            *)
(* ------------------------------------------------------------------ *)
Definition ESpec (st : test) (inp : list N) (ib ob cn : nat) (rout : list N) (fl : flush) (fed em : list N)
           (res : test * nat * list N * estop) : Prop :=
  let '(st', cn', rout', stop) := res in
  exists c o t, inp = c ++ t /\ cn' = cn + length c /\ rout' = rev o ++ rout /\
    length c <= ib /\ length o <= ob /\ knobs_eq st' st /\
    match stop with
    | EsMore => EInv st' (fed ++ c) (em ++ o) /\ (e_ending st' = true -> t = [] /\ fl = FlushFull) /\
                (c = [] -> phi st' + length o <= phi st)
    | EsEnd => fl = FlushFull /\ t = [] /\ TMember (em ++ o) (fed ++ c) /\ st' = st_reset st
    end.

Lemma espec_more st inp ib ob cn rout fl fed em :
  EInv st fed em -> (e_ending st = true -> inp = [] /\ fl = FlushFull) ->
  ESpec st inp ib ob cn rout fl fed em (st, cn, rout, EsMore).
Proof.
  intros HI HL. exists [], [], inp. cbn [app length rev].
  split; [reflexivity|]. split; [lia|]. split; [reflexivity|]. split; [lia|]. split; [lia|].
  split; [apply knobs_refl|]. rewrite !app_nil_r. split; [assumption|]. split; [assumption|]. intros _. lia.
Qed.

(* glue one step in front of the rest of the loop *)
Lemma eglue st st1 c1 o1 inp inp1 ib ib1 ob ob1 cn cn1 rout rout1 fl fed em res :
  inp = c1 ++ inp1 -> cn1 = cn + length c1 -> rout1 = rev o1 ++ rout ->
  ib1 + length c1 <= ib -> ob1 + length o1 <= ob -> knobs_eq st1 st ->
  (c1 = [] -> phi st1 + length o1 <= phi st) ->
  st_reset st1 = st_reset st ->
  ESpec st1 inp1 ib1 ob1 cn1 rout1 fl (fed ++ c1) (em ++ o1) res ->
  ESpec st inp ib ob cn rout fl fed em res.
Proof.
  intros -> -> -> Hi Ho Hk Hphi Hreset. destruct res as [[[st' cn'] rout'] stop]. cbn [ESpec].
  intros (c & o & t & -> & -> & -> & L1 & L2 & K & HP).
  exists (c1 ++ c), (o1 ++ o), t.
  split; [now rewrite app_assoc|]. split; [rewrite app_length; lia|].
  split; [rewrite rev_app_distr; now rewrite app_assoc|].
  split; [rewrite app_length; lia|]. split; [rewrite app_length; lia|].
  split; [eapply knobs_trans; eauto|].
  rewrite !app_assoc. destruct stop.
  - destruct HP as (H1 & H2 & H3). split; [assumption|]. split; [assumption|].
    intro E. apply app_eq_nil in E. destruct E as [E1 E2]. rewrite app_length.
    specialize (Hphi E1). specialize (H3 E2). lia.
  - destruct HP as (H1 & H2 & H3 & H4). split; [assumption|]. split; [assumption|]. split; [assumption|].
    now rewrite H4.
Qed.

Lemma st_reset_upd st i p s a b m : st_reset (st_upd st i p s a b m) = st_reset st.
Proof. reflexivity. Qed.

Lemma enc_action_none_ending st inp ib fl : e_ending st = true -> enc_action st inp ib fl = ANone.
Proof. intro H. unfold enc_action. now rewrite H. Qed.

Lemma enc_loop_spec : forall fuel st inp ib ob cn rout fl fed em,
  EInv st fed em -> (e_ending st = true -> inp = [] /\ fl = FlushFull) ->
  ESpec st inp ib ob cn rout fl fed em (enc_loop fuel st inp ib ob cn rout fl).
Proof.
  induction fuel as [|f IH]; intros st inp ib ob cn rout fl fed em HI HL.
  { cbn [enc_loop]. now apply espec_more. }
  rewrite enc_loop_S. cbv zeta.
  (* the three kinds of steps *)
  assert (Hemit : ESpec st inp ib ob cn rout fl fed em (step_emit f st inp ib ob cn rout fl)).
  { unfold step_emit. set (m := Nat.min (length (e_pend st)) ob).
    eapply (eglue st (st_emit st m) [] (firstn m (e_pend st)) inp inp ib ib ob (ob - m) cn cn rout
                  (rev_append (firstn m (e_pend st)) rout)).
    - reflexivity.
    - simpl. lia.
    - now rewrite rev_append_rev.
    - simpl. lia.
    - rewrite firstn_length. unfold m. lia.
    - apply knobs_upd.
    - intros _. unfold phi. cbn [st_emit st_upd e_pend e_ending e_ibuf e_started].
      rewrite skipn_length, firstn_length. unfold m. lia.
    - reflexivity.
    - rewrite app_nil_r. apply IH; [now apply EInv_emit|exact HL]. }
  assert (Hact : e_ending st = false ->
                 ESpec st inp ib ob cn rout fl fed em (step_act f st inp ib ob cn rout fl (enc_action st inp ib fl))).
  { intro He. unfold enc_action. rewrite He.
    destruct HI as (Hb & Hs & HI').
    assert (HI : EInv st fed em) by (split; [assumption|split; assumption]).
    destruct (negb (length (e_ibuf st) <? e_blk st)) eqn:Hfullb.
    - (* ABlock: ibuf is full *)
      cbn [step_act].
      assert (Hne : e_ibuf st <> []).
      { apply negb_true_iff in Hfullb. apply Nat.ltb_ge in Hfullb. destruct (e_ibuf st); [simpl in Hfullb; lia|discriminate]. }
      destruct (enc_block (e_ibuf st) (is_full fl && nilb inp && e_finrun st)) as [enc ended] eqn:Hblk.
      destruct (EInv_block st fed em enc ended _ HI He Hne Hblk) as (HI1 & Hlast & Hlen).
      eapply (eglue st (st_block st enc ended) [] [] inp inp ib ib ob ob cn cn rout rout).
      + reflexivity.
      + simpl. lia.
      + reflexivity.
      + simpl. lia.
      + simpl. lia.
      + apply knobs_upd.
      + intros _. unfold phi. cbn [st_block st_upd e_pend e_ending e_ibuf e_started nilb].
        rewrite He. rewrite !app_length. simpl length.
        assert (length (magic_if (e_started st)) = if e_started st then 0 else 1) by (destruct (e_started st); reflexivity).
        destruct (nilb (e_ibuf st)) eqn:En; [apply nilb_true in En; congruence|].
        destruct ended, (e_started st); lia.
      + reflexivity.
      + rewrite !app_nil_r. apply IH; [exact HI1|].
        cbn [st_block st_upd e_ending]. intro E. specialize (Hlast E).
        apply andb_true_iff in Hlast. destruct Hlast as [Hlast _]. apply andb_true_iff in Hlast.
        destruct Hlast as [H1 H2]. apply nilb_true in H2. apply is_full_true in H1. auto.
    - destruct inp as [|c inp'].
      + destruct (is_full fl) eqn:Hfl; [|now apply espec_more].
        apply is_full_true in Hfl.
        destruct (nilb (e_ibuf st)) eqn:En.
        * (* AEndmark *)
          apply nilb_true in En. cbn [step_act].
          eapply (eglue st (st_endmark st) [] [] [] [] ib ib ob ob cn cn rout rout).
          -- reflexivity.
          -- simpl. lia.
          -- reflexivity.
          -- simpl. lia.
          -- simpl. lia.
          -- apply knobs_upd.
          -- intros _. unfold phi. cbn [st_endmark st_upd e_pend e_ending e_ibuf e_started nilb].
             rewrite He, En. rewrite !app_length. simpl length.
             destruct (e_started st); simpl; lia.
          -- reflexivity.
          -- rewrite !app_nil_r. apply IH; [now apply EInv_endmark|]. intros _. auto.
        * (* ABlock true: last block of the member *)
          apply nilb_false in En. cbn [step_act].
          destruct (enc_block (e_ibuf st) (true && e_finrun st)) as [enc ended] eqn:Hblk.
          destruct (EInv_block st fed em enc ended _ HI He En Hblk) as (HI1 & Hlast & Hlen).
          eapply (eglue st (st_block st enc ended) [] [] [] [] ib ib ob ob cn cn rout rout).
          -- reflexivity.
          -- simpl. lia.
          -- reflexivity.
          -- simpl. lia.
          -- simpl. lia.
          -- apply knobs_upd.
          -- intros _. unfold phi. cbn [st_block st_upd e_pend e_ending e_ibuf e_started nilb].
             rewrite He. rewrite !app_length. simpl length.
             assert (length (magic_if (e_started st)) = if e_started st then 0 else 1) by (destruct (e_started st); reflexivity).
             destruct (nilb (e_ibuf st)) eqn:En'; [apply nilb_true in En'; congruence|].
             destruct ended, (e_started st); lia.
          -- reflexivity.
          -- rewrite !app_nil_r. apply IH; [exact HI1|]. intros _. auto.
      + destruct (ib =? 0) eqn:Hib; [now apply espec_more|]. apply Nat.eqb_neq in Hib.
        (* ATake *)
        cbn [step_act].
        eapply (eglue st (st_take st c) [c] [] (c :: inp') inp' ib (ib - 1) ob ob cn (cn + 1) rout rout).
        * reflexivity.
        * simpl. lia.
        * reflexivity.
        * simpl. lia.
        * simpl. lia.
        * apply knobs_upd.
        * discriminate.
        * reflexivity.
        * rewrite app_nil_r. apply IH; [now apply EInv_take|].
          cbn [st_take st_upd e_ending]. intro E. congruence. }
  destruct (e_ending st) eqn:He.
  - (* the member is complete; only the backlog is left *)
    destruct (HL eq_refl) as [-> ->].
    destruct (negb (negb (nilb (e_pend st)))) eqn:Hp; cbn [andb].
    + (* END *)
      rewrite negb_involutive in Hp. apply nilb_true in Hp.
      exists [], [], []. cbn [app length rev].
      split; [reflexivity|]. split; [lia|]. split; [reflexivity|]. split; [lia|]. split; [lia|].
      split; [apply knobs_upd|]. split; [reflexivity|]. split; [reflexivity|]. split; [|reflexivity].
      destruct HI as (_ & _ & done & Ef & H). rewrite He in H.
      destruct (e_started st); [|contradiction]. destruct H as [Ei H].
      rewrite Ef, Ei, Hp, !app_nil_r in *. exact H.
    + rewrite negb_involutive in Hp. rewrite enc_action_none_ending by assumption. cbn [has_act].
      rewrite Hp. cbn [negb andb].
      destruct (e_greedy st).
      * destruct (negb (ob =? 0)); [exact Hemit|now apply espec_more].
      * destruct (ob =? 0); [now apply espec_more|exact Hemit].
  - cbn [andb]. specialize (Hact eq_refl).
    destruct (e_greedy st).
    + destruct (has_act (enc_action st inp ib fl)) eqn:Ha; [exact Hact|].
      destruct (negb (nilb (e_pend st)) && negb (ob =? 0)); [exact Hemit|apply espec_more; auto].
      rewrite He. discriminate.
    + destruct (negb (nilb (e_pend st))).
      * destruct (ob =? 0); [apply espec_more; auto; rewrite He; discriminate|exact Hemit].
      * exact Hact.
Qed.

(* ------------------------------------------------------------------ *)
(* progress                                                            *)
(* ------------------------------------------------------------------ *)
Lemma rev_append_length (a b : list N) : length (rev_append a b) = length a + length b.
Proof. rewrite rev_append_rev, app_length, rev_length. reflexivity. Qed.

Lemma enc_loop_mono : forall fuel st inp ib ob cn rout fl st' cn' rout' stop,
  enc_loop fuel st inp ib ob cn rout fl = (st', cn', rout', stop) ->
  cn <= cn' /\ length rout <= length rout'.
Proof.
  induction fuel as [|f IH]; intros st inp ib ob cn rout fl st' cn' rout' stop H.
  { cbn in H. injection H as <- <- <- <-. lia. }
  rewrite enc_loop_S in H. cbv zeta in H.
  assert (Hemit : step_emit f st inp ib ob cn rout fl = (st', cn', rout', stop) ->
                  cn <= cn' /\ length rout <= length rout').
  { unfold step_emit. intro H'. apply IH in H'. rewrite rev_append_length in H'. lia. }
  assert (Hact : forall a, step_act f st inp ib ob cn rout fl a = (st', cn', rout', stop) ->
                 cn <= cn' /\ length rout <= length rout').
  { intros a H'. destruct a; cbn [step_act] in H'.
    - destruct (enc_block _ _). apply IH in H'. lia.
    - destruct inp; [injection H' as <- <- <- <-; lia|]. apply IH in H'. lia.
    - apply IH in H'. lia.
    - injection H' as <- <- <- <-. lia. }
  repeat match type of H with
         | (if ?b then _ else _) = _ => destruct b
         end; first [solve [eauto]|injection H as <- <- <- <-; lia].
Qed.

Definition sigma (st : test) (inp : list N) (ib : nat) (fl : flush) : nat :=
  if e_ending st then 0
  else match enc_action st inp ib fl with ABlock _ => 2 | AEndmark => 1 | _ => 0 end.

Lemma act_cases st inp ib fl :
  e_ending st = false -> (inp = [] \/ ib <> 0) -> (inp <> [] \/ fl = FlushFull) ->
  (exists last, enc_action st inp ib fl = ABlock last) \/
  (enc_action st inp ib fl = ATake /\ inp <> []) \/
  (enc_action st inp ib fl = AEndmark).
Proof.
  intros He H1 H2. unfold enc_action. rewrite He.
  destruct (negb (length (e_ibuf st) <? e_blk st)); [left; eauto|].
  destruct inp as [|c inp].
  - destruct H2 as [H2|H2]; [congruence|]. subst fl. cbn [is_full].
    destruct (nilb (e_ibuf st)); [right; right; reflexivity|left; eauto].
  - destruct H1 as [H1|H1]; [discriminate|]. apply Nat.eqb_neq in H1. rewrite H1.
    right. left. split; [reflexivity|discriminate].
Qed.

Lemma sigma_after_block st enc ended inp ib fl :
  1 <= e_blk st -> sigma (st_block st enc ended) inp ib fl <= 1.
Proof.
  intro Hb. unfold sigma, enc_action. cbn [st_block st_upd e_ending e_ibuf e_blk length].
  destruct ended; [lia|].
  replace (0 <? e_blk st) with true by (symmetry; apply Nat.ltb_lt; lia). cbn [negb].
  destruct inp.
  - destruct (is_full fl); cbn [nilb]; lia.
  - destruct (ib =? 0); lia.
Qed.

Lemma enc_progress : forall fuel st inp ib ob cn rout fl st' cn' rout',
  sigma st inp ib fl < fuel -> ob <> 0 -> (inp = [] \/ ib <> 0) -> (inp <> [] \/ fl = FlushFull) ->
  1 <= e_blk st ->
  enc_loop fuel st inp ib ob cn rout fl = (st', cn', rout', EsMore) ->
  cn < cn' \/ length rout < length rout'.
Proof.
  induction fuel as [|f IH]; intros st inp ib ob cn rout fl st' cn' rout' Hsig Hob Hib Hin Hblk H; [lia|].
  rewrite enc_loop_S in H. cbv zeta in H.
  assert (Hemit : e_pend st <> [] -> step_emit f st inp ib ob cn rout fl = (st', cn', rout', EsMore) ->
                  cn < cn' \/ length rout < length rout').
  { intros Hp H'. unfold step_emit in H'. apply enc_loop_mono in H'. rewrite rev_append_length, firstn_length in H'.
    right. destruct (e_pend st); [congruence|]. simpl length in H'. lia. }
  assert (Hact : e_ending st = false ->
                 step_act f st inp ib ob cn rout fl (enc_action st inp ib fl) = (st', cn', rout', EsMore) ->
                 cn < cn' \/ length rout < length rout').
  { intros He H'. unfold sigma in Hsig. rewrite He in Hsig.
    destruct (act_cases st inp ib fl He Hib Hin) as [[last Ea]|[[Ea Hne]|Ea]]; rewrite Ea in *; cbn [step_act] in H'.
    - destruct (enc_block _ _) as [enc ended].
      eapply IH; [| | | | |exact H']; auto.
      pose proof (sigma_after_block st enc ended inp ib fl Hblk). lia.
    - destruct inp as [|c inp]; [congruence|]. apply enc_loop_mono in H'. lia.
    - eapply IH; [| | | | |exact H']; auto. unfold sigma. cbn [st_endmark st_upd e_ending]. lia. }
  destruct (e_ending st) eqn:He.
  - destruct (nilb (e_pend st)) eqn:Hp; cbn [negb andb] in H; [discriminate|].
    apply nilb_false in Hp.
    rewrite enc_action_none_ending in H by assumption. cbn [has_act] in H.
    apply Nat.eqb_neq in Hob. rewrite Hob in H. cbn [negb andb] in H.
    destruct (e_greedy st); auto.
  - cbn [andb] in H. specialize (Hact eq_refl).
    destruct (e_greedy st).
    + destruct (has_act (enc_action st inp ib fl)) eqn:Ha; [auto|].
      exfalso. destruct (act_cases st inp ib fl He Hib Hin) as [[last Ea]|[[Ea Hne]|Ea]]; rewrite Ea in Ha; discriminate.
    + destruct (nilb (e_pend st)) eqn:Hp; cbn [negb] in H; [auto|].
      apply nilb_false in Hp. apply Nat.eqb_neq in Hob. rewrite Hob in H. auto.
Qed.

(* ------------------------------------------------------------------ *)
(* one call of the "library" and the contract                          *)
(* ------------------------------------------------------------------ *)
Definition TERep (st : test) (fed em : list N) : Prop := EInv st fed em.
Definition tefin (st : test) : Prop := e_ending st = true.

Definition estat_of (stop : estop) (c o : list N) : lstatus :=
  match stop with
  | EsEnd => LEnd
  | EsMore => if (0 <? length c) || negb (nilb o) then LOk else LBuf
  end.

Definition efuel (st : test) (inp : list N) (cap : nat) : nat :=
  4 * (length inp + cap + length (e_pend st)) + 16.

Lemma toy_enc_facts st inp cap fl fed em :
  TERep st fed em -> eadm test tefin st inp fl ->
  exists c o t stop st',
    inp = c ++ t /\ length c <= lim (e_maxin st) (length inp) /\ length o <= lim (e_maxout st) cap /\
    ESpec st inp (lim (e_maxin st) (length inp)) (lim (e_maxout st) cap) 0 [] fl fed em (st', length c, rev o, stop) /\
    enc_loop (efuel st inp cap) st inp (lim (e_maxin st) (length inp)) (lim (e_maxout st) cap) 0 [] fl
      = (st', length c, rev o, stop) /\
    toy_enc_step st inp cap fl = mkL (length c) o (estat_of stop c o) st'.
Proof.
  intros HR HA. unfold toy_enc_step. fold (efuel st inp cap).
  pose proof (enc_loop_spec (efuel st inp cap) st inp (lim (e_maxin st) (length inp)) (lim (e_maxout st) cap)
                0 [] fl fed em HR (fun H => match HA H with conj a b => conj b a end)) as HS.
  destruct (enc_loop _ _ _ _ _ _ _ _) as [[[st' cn'] rout'] stop] eqn:HL.
  pose proof HS as HS'.
  destruct HS as (c & o & t & E1 & E2 & E3 & L1 & L2 & _).
  simpl in E2. rewrite app_nil_r in E3. subst cn' rout'.
  exists c, o, t, stop, st'.
  split; [assumption|]. split; [assumption|]. split; [assumption|]. split; [exact HS'|]. split; [reflexivity|].
  rewrite rev_append_rev, app_nil_r, rev_involutive.
  destruct stop; reflexivity.
Qed.

Lemma lim_le' k a : lim k a <= a.
Proof. unfold lim. destruct (k =? 0); lia. Qed.
Lemma lim_pos' k a : a <> 0 -> lim k a <> 0.
Proof. unfold lim. destruct (k =? 0) eqn:E; [auto|]. apply Nat.eqb_neq in E. lia. Qed.

Lemma firstn_app_exact' (c t : list N) : firstn (length c) (c ++ t) = c.
Proof. rewrite firstn_app, Nat.sub_diag, firstn_all. simpl. apply app_nil_r. Qed.

Lemma estat_more stop c o : ok_or_buf (estat_of stop c o) -> stop = EsMore.
Proof. destruct stop; cbn; [reflexivity|]. intros [H|H]; discriminate. Qed.

Lemma EInv_reset st : 1 <= e_blk st -> EInv (toy_enc_reset (st_reset st)) [] [].
Proof.
  intro Hb. split; [exact Hb|]. split; [cbn; lia|]. exists []. cbn. auto.
Qed.

Theorem toy_enc_contract_g resets : enc_contract TMember test toy_enc TERep phi tefin resets.
Proof.
  constructor; cbn [toy_enc c_step c_reset c_mid].
  - (* bounds *)
    intros st fed em inp cap fl HR HA. cbv zeta.
    destruct (toy_enc_facts st inp cap fl fed em HR HA) as (c & o & t & stop & st' & E & L1 & L2 & _ & _ & ->).
    cbn [l_cons l_out]. pose proof (lim_le' (e_maxin st) (length inp)). pose proof (lim_le' (e_maxout st) cap). lia.
  - (* step *)
    intros st fed em inp cap fl HR HA. cbv zeta.
    destruct (toy_enc_facts st inp cap fl fed em HR HA) as (c & o & t & stop & st' & E & L1 & L2 & HS & _ & ->).
    cbn [l_cons l_out l_stat l_st]. intro Hok. apply estat_more in Hok. subst stop.
    destruct HS as (c' & o' & t' & E1 & E2 & E3 & _ & _ & _ & HP & _).
    simpl in E2. rewrite app_nil_r in E3. apply (f_equal (@rev N)) in E3. rewrite !rev_involutive in E3. subst o'.
    assert (c' = c).
    { rewrite E in E1. clear - E1 E2. revert c' E1 E2. induction c as [|a c IH]; intros [|b c'] E1 E2; simpl in *; try lia; auto.
      injection E1 as -> E1. f_equal. apply (IH c' E1). lia. }
    subst c'. rewrite E, firstn_app_exact'. exact HP.
  - (* end *)
    intros st fed em inp cap fl HR HA. cbv zeta.
    destruct (toy_enc_facts st inp cap fl fed em HR HA) as (c & o & t & stop & st' & E & L1 & L2 & HS & _ & ->).
    cbn [l_cons l_out l_stat l_st]. intro Hend.
    destruct stop; cbn [estat_of] in Hend; [destruct (_ || _); discriminate|].
    destruct HS as (c' & o' & t' & E1 & E2 & E3 & _ & _ & _ & Hfl & Ht & Hm & Hst).
    simpl in E2. rewrite app_nil_r in E3. apply (f_equal (@rev N)) in E3. rewrite !rev_involutive in E3. subst o' t'.
    rewrite app_nil_r in E1. subst c'.
    assert (t = []).
    { rewrite E in E2. rewrite app_length in E2. destruct t; [reflexivity|simpl in E2; lia]. }
    subst t. rewrite app_nil_r in E. subst c.
    split; [assumption|]. split; [reflexivity|]. split; [assumption|].
    unfold eafter_end. subst st'.
    assert (Hb : 1 <= e_blk st) by (destruct HR; assumption).
    destruct resets; cbn [c_reset toy_enc].
    + split; [apply EInv_reset; assumption|]. unfold tefin. cbn. discriminate.
    + split; [apply (EInv_reset st Hb)|]. unfold tefin. cbn. discriminate.
  - (* fin *)
    intros st fed em inp cap fl HR HA. cbv zeta.
    destruct (toy_enc_facts st inp cap fl fed em HR HA) as (c & o & t & stop & st' & E & L1 & L2 & HS & _ & ->).
    cbn [l_cons l_out l_stat l_st]. intros Hok Hfin. apply estat_more in Hok. subst stop.
    destruct HS as (c' & o' & t' & E1 & E2 & E3 & _ & _ & _ & _ & HL & _).
    destruct (HL Hfin) as [-> ->]. split; [reflexivity|]. simpl in E2. rewrite app_nil_r in E1. rewrite E1. exact E2.
  - (* progress *)
    intros st fed em inp cap fl HR HA. cbv zeta.
    destruct (toy_enc_facts st inp cap fl fed em HR HA) as (c & o & t & stop & st' & E & L1 & L2 & HS & HLoop & ->).
    cbn [l_cons l_out l_stat l_st]. intros Hin Hcap Hok. apply estat_more in Hok. subst stop.
    apply enc_progress in HLoop.
    + simpl in HLoop. rewrite rev_length in HLoop. lia.
    + unfold sigma, efuel. destruct (e_ending st); [lia|]. destruct (enc_action st inp _ fl); lia.
    + apply lim_pos'. lia.
    + destruct inp as [|a inp]; [left; reflexivity|right; apply lim_pos'; simpl; lia].
    + exact Hin.
    + destruct HR; assumption.
  - (* no_err *)
    intros st fed em inp cap fl HR HA.
    destruct (toy_enc_facts st inp cap fl fed em HR HA) as (c & o & t & stop & st' & _ & _ & _ & _ & _ & ->).
    cbn [l_stat]. destruct stop; cbn; [destruct (_ || _)|]; discriminate.
  - (* drain *)
    intros st fed em inp cap fl HR HA. cbv zeta.
    destruct (toy_enc_facts st inp cap fl fed em HR HA) as (c & o & t & stop & st' & E & L1 & L2 & HS & _ & ->).
    cbn [l_cons l_out l_stat l_st]. intros Hok Hc0. apply estat_more in Hok. subst stop.
    destruct HS as (c' & o' & t' & E1 & E2 & E3 & _ & _ & _ & _ & _ & Hphi).
    simpl in E2. rewrite app_nil_r in E3. apply (f_equal (@rev N)) in E3. rewrite !rev_involutive in E3. subst o'.
    apply Hphi. destruct c'; [reflexivity|simpl in E2; lia].
Qed.

Theorem toy_enc_contract : enc_contract TMember test toy_enc TERep phi tefin true.
Proof. apply toy_enc_contract_g. Qed.

Lemma toy_enc_init_rep blk maxin maxout greedy finrun : 1 <= blk ->
  TERep (toy_enc_init blk maxin maxout greedy finrun) [] [] /\ ~ tefin (toy_enc_init blk maxin maxout greedy finrun).
Proof.
  intro Hb. split.
  - split; [exact Hb|]. split; [cbn; lia|]. exists []. cbn. auto.
  - unfold tefin. cbn. discriminate.
Qed.
