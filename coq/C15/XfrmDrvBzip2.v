(* C15 -- the bzip2.c loop is the gzip.c loop over the library in which "OK
   without any progress" is renamed "BUF_ERROR" (libbz2 has no such code and
   the driver tests the two differences itself). *)
From Coq Require Import List NArith Bool Arith Lia.
From SqfsV Require Import C15.XfrmModel C15.XfrmSpec C15.XfrmBase.
Import ListNotations.

Definition unbz_stat (r : lstatus) (cons : nat) (out : list N) : lstatus :=
  match r with
  | LOk => if no_progress cons out then LBuf else LOk
  | s => s
  end.

Definition unbz (S : Type) (C : codec S) : codec S :=
  mkCodec (fun st inp cap fl =>
             let r := c_step C st inp cap fl in
             mkL (l_cons r) (l_out r) (unbz_stat (l_stat r) (l_cons r) (l_out r)) (l_st r))
          (c_reset C) (c_mid C).

Lemma no_progress_true cons (out : list N) : no_progress cons out = true <-> cons = 0 /\ out = [].
Proof.
  unfold no_progress. rewrite andb_true_iff, Nat.eqb_eq, nilb_true. tauto.
Qed.

Lemma no_progress_false cons (out : list N) : no_progress cons out = false -> 0 < cons + length out.
Proof.
  unfold no_progress. intro H. apply andb_false_iff in H. destruct H as [H|H].
  - apply Nat.eqb_neq in H. lia.
  - apply nilb_false in H. destruct out; [congruence|simpl; lia].
Qed.

Section Bz.
Variable S : Type.
Variable C : codec S.
Variable Inv : S -> list N -> list N -> Prop.     (* Rep or ERep *)
Hypothesis NB : forall st fed del inp cap fl, Inv st fed del -> l_stat (c_step C st inp cap fl) <> LBuf.
Hypothesis STEP : forall st fed del inp cap fl, Inv st fed del ->
    let r := c_step C st inp cap fl in
    ok_or_buf (l_stat r) -> Inv (l_st r) (fed ++ firstn (l_cons r) inp) (del ++ l_out r).

Lemma bz_eq dec : forall fuel st inp cap fl ci co fed del, Inv st fed del ->
  drv_bzip2 C dec fuel st inp cap fl ci co = drv_zlib (unbz S C) dec fuel st inp cap fl ci co.
Proof.
  induction fuel as [|f IH]; intros st inp cap fl ci co fed del HI; [reflexivity|].
  cbn [drv_bzip2 drv_zlib].
  destruct ((negb (nilb inp) || is_full fl) && (0 <? cap)); [|reflexivity].
  pose proof (NB st fed del inp cap fl HI) as HN.
  pose proof (STEP st fed del inp cap fl HI) as HS. cbv zeta in HS.
  cbn [unbz c_step c_reset c_mid l_stat l_cons l_out l_st].
  destruct (l_stat (c_step C st inp cap fl)) eqn:Hs; cbn [unbz_stat]; try congruence; try reflexivity.
  destruct (no_progress _ _) eqn:Hn.
  - reflexivity.
  - eapply IH. apply HS. left. reflexivity.
Qed.
End Bz.

(* the renamed library still meets the decoder contract, and now "OK" implies progress *)
Section BzDec.
Variable Member : list N -> list N -> Prop.
Variable S : Type.
Variable C : codec S.
Variable Rep : S -> list N -> list N -> Prop.
Hypothesis DC : dec_contract Member S C Rep true.

Lemma unbz_okbuf s c (o : list N) : ok_or_buf (unbz_stat s c o) -> ok_or_buf s.
Proof.
  destruct s; cbn; auto. intros _. left. reflexivity.
Qed.

Lemma unbz_dec : dec_contract Member S (unbz S C) Rep true.
Proof.
  constructor; cbn [unbz c_step c_reset c_mid l_stat l_cons l_out l_st].
  - intros. eapply (dc_bounds _ _ _ _ _ DC); eauto.
  - intros st fed del inp cap fl HR H. eapply (dc_step _ _ _ _ _ DC); eauto. eapply unbz_okbuf; eauto.
  - intros st fed del inp cap fl HR H.
    assert (E : l_stat (c_step C st inp cap fl) = LEnd).
    { destruct (l_stat (c_step C st inp cap fl)); cbn in H; try congruence.
      destruct (no_progress _ _); discriminate. }
    apply (dc_end _ _ _ _ _ DC st fed del inp cap fl HR E).
  - intros st fed del inp cap fl HR Hi Hc H. eapply (dc_progress _ _ _ _ _ DC); eauto. eapply unbz_okbuf; eauto.
  - intros st fed del inp cap fl HR H Hfl.
    destruct (l_stat (c_step C st inp cap fl)) eqn:E; cbn in H; try congruence.
    + destruct (no_progress _ _) eqn:Hn; [|discriminate]. now apply no_progress_true.
    + eapply (dc_buf_stuck _ _ _ _ _ DC); eauto.
  - intros st fed del cap fl p HR Hm Hc H. eapply (dc_complete _ _ _ _ _ DC); eauto. eapply unbz_okbuf; eauto.
  - intros. eapply (dc_prefix _ _ _ _ _ DC); eauto.
  - intros. eapply (dc_nil _ _ _ _ _ DC); eauto.
  - intros st fed del inp cap fl HR H.
    assert (E : l_stat (c_step C st inp cap fl) = LErr).
    { destruct (l_stat (c_step C st inp cap fl)); cbn in H; try congruence.
      destruct (no_progress _ _); discriminate. }
    apply (dc_err _ _ _ _ _ DC st fed del inp cap fl HR E).
  - intros. eapply (dc_no_overrun _ _ _ _ _ DC); eauto.
Qed.

Lemma unbz_okp : ok_progresses S (unbz S C) Rep.
Proof.
  intros st fed del inp cap fl HR. cbn [unbz c_step l_stat l_cons l_out]. intro H.
  destruct (l_stat (c_step C st inp cap fl)); cbn in H; try congruence.
  destruct (no_progress _ _) eqn:Hn; [discriminate|]. now apply no_progress_false.
Qed.

Lemma unbz_mid : mid_ok S C Rep -> mid_ok S (unbz S C) Rep.
Proof. intros M st fed del HR. cbn. exact (M st fed del HR). Qed.

End BzDec.
