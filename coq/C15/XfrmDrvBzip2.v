(* C15 -- the bzip2.c loop is the gzip.c loop over the library in which "OK
   without any progress" is renamed "BUF_ERROR" (libbz2 has no such code and
   the driver tests the two differences itself). *)
From Coq Require Import List NArith Bool Arith Lia.
From SqfsV Require Import C15.XfrmModel C15.XfrmSpec C15.XfrmBase C15.XfrmDrvZlib.
Import ListNotations.

Definition unbz_stat (r : lstatus) (cons : nat) (out : list N) : lstatus :=
  match r with
  | LOk => if no_progress cons out then LBuf else LOk
  | s => s
  end.

Definition unbz (S : Type) (C : codec S) : codec S :=
  mkCodec (fun st inp cap fl =>
             let r := c_step C st inp cap fl in
             mkL (l_cons r) (l_out r) (unbz_stat (l_stat r) (l_cons r) (l_out r)) (l_st r))
          (c_reset C) (c_mid C).

Lemma no_progress_true cons (out : list N) : no_progress cons out = true <-> cons = 0 /\ out = [].
Proof.
  unfold no_progress. rewrite andb_true_iff, Nat.eqb_eq, nilb_true. tauto.
Qed.

Lemma no_progress_false cons (out : list N) : no_progress cons out = false -> 0 < cons + length out.
Proof.
  unfold no_progress. intro H. apply andb_false_iff in H. destruct H as [H|H].
  - apply Nat.eqb_neq in H. lia.
  - apply nilb_false in H. destruct out; [congruence|simpl; lia].
Qed.

Section Bz.
Variable S : Type.
Variable C : codec S.
(* what is known before every call of the library inside one process_data *)
Variable I : S -> list N -> flush -> Prop.
Hypothesis NB : forall st inp cap fl, I st inp fl -> l_stat (c_step C st inp cap fl) <> LBuf.
Hypothesis STEP : forall st inp cap fl, I st inp fl ->
    let r := c_step C st inp cap fl in
    l_stat r = LOk -> I (l_st r) (skipn (l_cons r) inp) fl.

Lemma bz_eq dec : forall fuel st inp cap fl ci co, I st inp fl ->
  drv_bzip2 C dec fuel st inp cap fl ci co = drv_zlib (unbz S C) dec fuel st inp cap fl ci co.
Proof.
  induction fuel as [|f IH]; intros st inp cap fl ci co HI; [reflexivity|].
  cbn [drv_bzip2 drv_zlib].
  destruct ((negb (nilb inp) || is_full fl) && (0 <? cap)); [|reflexivity].
  pose proof (NB st inp cap fl HI) as HN.
  pose proof (STEP st inp cap fl HI) as HS. cbv zeta in HS.
  cbn [unbz c_step c_reset c_mid l_stat l_cons l_out l_st].
  destruct (l_stat (c_step C st inp cap fl)) eqn:Hs; cbn [unbz_stat]; try congruence; try reflexivity.
  destruct (no_progress _ _) eqn:Hn.
  - reflexivity.
  - apply IH. apply HS. reflexivity.
Qed.
End Bz.

(* the renamed library still meets the decoder contract, and now "OK" implies progress *)
Section BzDec.
Variable Member : list N -> list N -> Prop.
Variable S : Type.
Variable C : codec S.
Variable Rep : S -> list N -> list N -> Prop.
Hypothesis DC : dec_contract Member S C Rep true.

Lemma unbz_okbuf s c (o : list N) : ok_or_buf (unbz_stat s c o) -> ok_or_buf s.
Proof.
  destruct s; cbn; auto. intros _. left. reflexivity.
Qed.

Lemma unbz_dec : dec_contract Member S (unbz S C) Rep true.
Proof.
  constructor; cbn [unbz c_step c_reset c_mid l_stat l_cons l_out l_st].
  - intros. eapply (dc_bounds _ _ _ _ _ DC); eauto.
  - intros st fed del inp cap fl HR H. eapply (dc_step _ _ _ _ _ DC); eauto. eapply unbz_okbuf; eauto.
  - intros st fed del inp cap fl HR H.
    assert (E : l_stat (c_step C st inp cap fl) = LEnd).
    { destruct (l_stat (c_step C st inp cap fl)); cbn in H; try congruence.
      destruct (no_progress _ _); discriminate. }
    apply (dc_end _ _ _ _ _ DC st fed del inp cap fl HR E).
  - intros st fed del inp cap fl HR Hi Hc H. eapply (dc_progress _ _ _ _ _ DC); eauto. eapply unbz_okbuf; eauto.
  - intros st fed del inp cap fl HR H Hfl.
    destruct (l_stat (c_step C st inp cap fl)) eqn:E; cbn in H; try congruence.
    + destruct (no_progress _ _) eqn:Hn; [|discriminate]. now apply no_progress_true.
    + eapply (dc_buf_stuck _ _ _ _ _ DC); eauto.
  - intros st fed del cap fl p HR Hm Hc H. eapply (dc_complete _ _ _ _ _ DC); eauto. eapply unbz_okbuf; eauto.
  - intros. eapply (dc_prefix _ _ _ _ _ DC); eauto.
  - intros. eapply (dc_nil _ _ _ _ _ DC); eauto.
  - intros st fed del inp cap fl HR H.
    assert (E : l_stat (c_step C st inp cap fl) = LErr).
    { destruct (l_stat (c_step C st inp cap fl)); cbn in H; try congruence.
      destruct (no_progress _ _); discriminate. }
    apply (dc_err _ _ _ _ _ DC st fed del inp cap fl HR E).
  - intros. eapply (dc_no_overrun _ _ _ _ _ DC); eauto.
Qed.

Lemma unbz_okp : ok_progresses S (unbz S C) Rep.
Proof.
  intros st fed del inp cap fl HR. cbn [unbz c_step l_stat l_cons l_out]. intro H.
  destruct (l_stat (c_step C st inp cap fl)); cbn in H; try congruence.
  destruct (no_progress _ _) eqn:Hn; [discriminate|]. now apply no_progress_false.
Qed.

Lemma unbz_mid : mid_ok S C Rep -> mid_ok S (unbz S C) Rep.
Proof. intros M st fed del HR. cbn. exact (M st fed del HR). Qed.

End BzDec.

Section BzDecTop.
Variable Member : list N -> list N -> Prop.
Hypothesis F : format_ok Member.
Variable S : Type.
Variable C : codec S.
Variable Rep : S -> list N -> list N -> Prop.
Hypothesis DC : dec_contract Member S C Rep true.
Hypothesis NBUF : never_buf S C Rep.
Hypothesis MID : mid_ok S C Rep.

Lemma bz_dec_eq d fed del inp cap fl : Rep d fed del ->
  mk_bzip2 C true d inp cap fl = mk_zlib (unbz S C) true d inp cap fl.
Proof.
  intro HR. unfold mk_bzip2, mk_zlib.
  apply (bz_eq S C (fun st _ _ => exists fed del, Rep st fed del)).
  - intros st inp' cap' fl' (fed' & del' & H). eapply NBUF; eauto.
  - intros st inp' cap' fl' (fed' & del' & H). cbv zeta. intro Hs.
    eexists _, _. eapply (dc_step _ _ _ _ _ DC); eauto. left. exact Hs.
  - eauto.
Qed.

(* bzip2.c, decompressing, over every library that meets the decoder contract and has no BUF class *)
Theorem bzip2_dec_ok : ddrv_contract Member S (mk_bzip2 C true) Rep.
Proof.
  pose proof (zlib_dec_ok Member F S (unbz S C) Rep (unbz_dec Member S C Rep DC)
                          (unbz_okp S C Rep) (unbz_mid S C Rep MID)) as Z.
  constructor.
  - intros d fed del inp cap fl HR. rewrite (bz_dec_eq d fed del inp cap fl HR).
    apply (dd_main _ _ _ _ Z d fed del inp cap fl HR).
  - intros d fed del inp cap fl rem P HR. rewrite (bz_dec_eq d fed del inp cap fl HR).
    apply (dd_valid _ _ _ _ Z d fed del inp cap fl rem P HR).
  - apply (dd_prefix _ _ _ _ Z).
  - apply (dd_nil _ _ _ _ Z).
  - apply (dd_no_overrun _ _ _ _ Z).
Qed.
End BzDecTop.

Section BzEncTop.
Variable Member : list N -> list N -> Prop.
Variable S : Type.
Variable C : codec S.
Variable ERep : S -> list N -> list N -> Prop.
Variable mu : S -> nat.
Variable efin : S -> Prop.
Hypothesis EC : enc_contract Member S C ERep mu efin true.
Hypothesis NBUF : enc_never_buf S C ERep efin.

Lemma unbz_enc : enc_contract Member S (unbz S C) ERep mu efin true.
Proof.
  constructor; cbn [unbz c_step c_reset c_mid l_stat l_cons l_out l_st].
  - intros. eapply (ec_bounds _ _ _ _ _ _ _ EC); eauto.
  - intros st fed em inp cap fl HR HA H. eapply (ec_step _ _ _ _ _ _ _ EC); eauto. eapply unbz_okbuf; eauto.
  - intros st fed em inp cap fl HR HA H.
    assert (E : l_stat (c_step C st inp cap fl) = LEnd).
    { destruct (l_stat (c_step C st inp cap fl)); cbn in H; try congruence.
      destruct (no_progress _ _); discriminate. }
    apply (ec_end _ _ _ _ _ _ _ EC st fed em inp cap fl HR HA E).
  - intros st fed em inp cap fl HR HA H. eapply (ec_fin _ _ _ _ _ _ _ EC); eauto. eapply unbz_okbuf; eauto.
  - intros st fed em inp cap fl HR HA Hi Hc H. eapply (ec_progress _ _ _ _ _ _ _ EC); eauto. eapply unbz_okbuf; eauto.
  - intros st fed em inp cap fl HR HA H.
    assert (E : l_stat (c_step C st inp cap fl) = LErr).
    { destruct (l_stat (c_step C st inp cap fl)); cbn in H; try congruence.
      destruct (no_progress _ _); discriminate. }
    apply (ec_no_err _ _ _ _ _ _ _ EC st fed em inp cap fl HR HA E).
  - intros st fed em inp cap fl HR HA H. eapply (ec_drain _ _ _ _ _ _ _ EC); eauto. eapply unbz_okbuf; eauto.
Qed.

Lemma bz_enc_eq d fed em inp cap fl : ERep d fed em -> eadm S efin d inp fl ->
  mk_bzip2 C false d inp cap fl = mk_zlib (unbz S C) false d inp cap fl.
Proof.
  intros HR HA. unfold mk_bzip2, mk_zlib.
  apply (bz_eq S C (fun st inp fl => exists fed em, ERep st fed em /\ eadm S efin st inp fl)).
  - intros st inp' cap' fl' (fed' & em' & H & H'). eapply NBUF; eauto.
  - intros st inp' cap' fl' (fed' & em' & H & H'). cbv zeta. intro Hs.
    eexists _, _. split.
    + eapply (ec_step _ _ _ _ _ _ _ EC); eauto. left. exact Hs.
    + intro Hfin.
      destruct (ec_fin _ _ _ _ _ _ _ EC st fed' em' inp' cap' fl' H H' (or_introl Hs) Hfin) as [-> E].
      split; [reflexivity|]. apply length_zero_nil. rewrite skipn_length.
      pose proof (ec_bounds _ _ _ _ _ _ _ EC st fed' em' inp' cap' FlushFull H H'). cbv zeta in H0. lia.
  - eauto.
Qed.

(* bzip2.c, compressing *)
Theorem bzip2_enc_ok : edrv_contract Member S (mk_bzip2 C false) ERep mu efin.
Proof.
  pose proof (zlib_enc_ok Member S (unbz S C) ERep mu efin unbz_enc) as Z.
  constructor.
  intros d fed em inp cap fl HR HA. rewrite (bz_enc_eq d fed em inp cap fl HR HA).
  apply (ed_main _ _ _ _ _ _ Z d fed em inp cap fl HR HA).
Qed.
End BzEncTop.
