(* C15 -- specification side: what a compressed stream IS (an abstract member
   format), the contract assumed of the codec LIBRARY (one call of inflate or
   deflate, lzma_code, BZ2_bzCompress or BZ2_bzDecompress, ZSTD_compressStream2
   or ZSTD_decompressStream), and the contract the driver loops (process_data)
   are proved to meet.  Definitions only. *)
From Coq Require Import List NArith Bool Arith.
From SqfsV Require Import C15.XfrmModel.
Import ListNotations.


Definition prefix (a b : list N) : Prop := exists x, b = a ++ x.
Definition comparable (a b : list N) : Prop := prefix a b \/ prefix b a.

Section Format.
(* [Member z p]: the byte string z is exactly one complete member (gzip member,
   xz stream, bzip2 stream, zstd frame) and its content is p *)
Variable Member : list N -> list N -> Prop.

Record format_ok : Prop := mkFormat {
  m_exists : exists z p, Member z p;
  m_nonempty : forall z p, Member z p -> z <> [];
  (* self-delimiting: no member is a proper prefix of another one *)
  m_prefix_free : forall z p x p', Member z p -> Member (z ++ x) p' -> x = [];
  m_fun : forall z p p', Member z p -> Member z p' -> p = p'
}.

(* a sequence of complete members and the concatenation of their contents:
   "decode_all z = P" is [Stream z P] (functional, see stream_fun) *)
Inductive Stream : list N -> list N -> Prop :=
| St_nil : Stream [] []
| St_cons : forall z p zs ps, Member z p -> Stream zs ps -> Stream (z ++ zs) (p ++ ps).

(* ------------------------------------------------------------------ *)
(* contract of a DEcoder library                                        *)
(* ------------------------------------------------------------------ *)
Section Dec.
Variable S : Type.
Variable C : codec S.
(* [Rep st fed del]: since the last member boundary the decoder has consumed
   the bytes [fed] and handed out the bytes [del] *)
Variable Rep : S -> list N -> list N -> Prop.
(* true: the driver resets the library at the end of a member (inflateReset,
   lzma_end + lazy init, BZ2_bzDecompressEnd + lazy init); false: the library
   starts the next member by itself (zstd) *)
Variable resets : bool.

Definition after_end (st : S) : S := if resets then c_reset C st else st.

Definition ok_or_buf (s : lstatus) : Prop := s = LOk \/ s = LBuf.

Record dec_contract : Prop := mkDec {
  (* never more than offered / never more than there is room for *)
  dc_bounds : forall st fed del inp cap fl, Rep st fed del ->
      let r := c_step C st inp cap fl in
      l_cons r <= length inp /\ length (l_out r) <= cap;
  (* a call that neither ends nor fails extends the two ghost strings *)
  dc_step : forall st fed del inp cap fl, Rep st fed del ->
      let r := c_step C st inp cap fl in
      ok_or_buf (l_stat r) ->
      Rep (l_st r) (fed ++ firstn (l_cons r) inp) (del ++ l_out r);
  (* END exactly at the end of a member, everything delivered *)
  dc_end : forall st fed del inp cap fl, Rep st fed del ->
      let r := c_step C st inp cap fl in
      l_stat r = LEnd ->
      Member (fed ++ firstn (l_cons r) inp) (del ++ l_out r) /\ Rep (after_end (l_st r)) [] [];
  (* with input and room the decoder moves *)
  dc_progress : forall st fed del inp cap fl, Rep st fed del ->
      let r := c_step C st inp cap fl in
      inp <> [] -> 0 < cap -> ok_or_buf (l_stat r) -> 0 < l_cons r + length (l_out r);
  (* "buffer error" without a finishing flush means that nothing happened *)
  dc_buf_stuck : forall st fed del inp cap fl, Rep st fed del ->
      let r := c_step C st inp cap fl in
      l_stat r = LBuf -> fl <> FlushFull -> l_cons r = 0 /\ l_out r = [];
  (* once a whole member has been consumed the decoder needs no further
     input: given room it delivers something or reports END *)
  dc_complete : forall st fed del cap fl p, Rep st fed del -> Member fed p ->
      let r := c_step C st [] cap fl in
      0 < cap -> ok_or_buf (l_stat r) -> l_out r <> [];
  (* what has been delivered is a prefix of the member's content *)
  dc_prefix : forall st fed del x p, Rep st fed del -> Member (fed ++ x) p -> prefix del p;
  dc_nil : forall st del, Rep st [] del -> del = [];
  (* an error is only reported for input no member starts with / no member is a prefix of *)
  dc_err : forall st fed del inp cap fl, Rep st fed del ->
      let r := c_step C st inp cap fl in
      l_stat r = LErr -> forall m p, Member m p -> ~ comparable (fed ++ inp) m;
  (* the decoder never reads past the end of a member *)
  dc_no_overrun : forall st fed del m p, Rep st fed del -> Member m p -> prefix m fed -> m = fed
}.

(* zlib / liblzma: "OK" implies progress (no progress is BUF_ERROR) *)
Definition ok_progresses : Prop :=
  forall st fed del inp cap fl, Rep st fed del ->
    let r := c_step C st inp cap fl in
    l_stat r = LOk -> 0 < l_cons r + length (l_out r).

(* strm.total_in > 0 <-> part of a member has been consumed (zlib, liblzma, libbz2) *)
Definition mid_ok : Prop :=
  forall st fed del, Rep st fed del -> (c_mid C st = true <-> fed <> []).

(* libbz2 has no BUF_ERROR class *)
Definition never_buf : Prop :=
  forall st fed del inp cap fl, Rep st fed del -> l_stat (c_step C st inp cap fl) <> LBuf.

End Dec.

(* ------------------------------------------------------------------ *)
(* contract of an ENcoder library                                       *)
(* ------------------------------------------------------------------ *)
Section Enc.
Variable S : Type.
Variable C : codec S.
(* [ERep st fed em]: since the last member boundary the encoder has consumed
   the plain bytes [fed] and emitted the bytes [em] *)
Variable ERep : S -> list N -> list N -> Prop.
(* an upper bound for what the encoder still has to emit if it gets no more input *)
Variable mu : S -> nat.
(* [efin st]: the library has started to finish the member (deflate: FINISH_STATE; lzma: the
   encoder has seen LZMA_FINISH with all input consumed; ...).  From then on the documented
   protocol of every one of the four libraries allows only further finishing calls without new
   input ("must be called again with Z_FINISH and more output space but no more input data"),
   so the contract promises nothing for other calls: *)
Variable efin : S -> Prop.
Variable resets : bool.

Definition eadm (st : S) (inp : list N) (fl : flush) : Prop := efin st -> fl = FlushFull /\ inp = [].

Definition eafter_end (st : S) : S := if resets then c_reset C st else st.

Record enc_contract : Prop := mkEnc {
  ec_bounds : forall st fed em inp cap fl, ERep st fed em -> eadm st inp fl ->
      let r := c_step C st inp cap fl in
      l_cons r <= length inp /\ length (l_out r) <= cap;
  ec_step : forall st fed em inp cap fl, ERep st fed em -> eadm st inp fl ->
      let r := c_step C st inp cap fl in
      ok_or_buf (l_stat r) ->
      ERep (l_st r) (fed ++ firstn (l_cons r) inp) (em ++ l_out r);
  (* END only on a finishing flush, with all input consumed and the member complete *)
  ec_end : forall st fed em inp cap fl, ERep st fed em -> eadm st inp fl ->
      let r := c_step C st inp cap fl in
      l_stat r = LEnd ->
      fl = FlushFull /\ l_cons r = length inp /\
      Member (em ++ l_out r) (fed ++ inp) /\ ERep (eafter_end (l_st r)) [] [] /\
      ~ efin (eafter_end (l_st r));
  (* the library only starts finishing under a finishing flush, once all input is consumed *)
  ec_fin : forall st fed em inp cap fl, ERep st fed em -> eadm st inp fl ->
      let r := c_step C st inp cap fl in
      ok_or_buf (l_stat r) -> efin (l_st r) -> fl = FlushFull /\ l_cons r = length inp;
  (* with room, and input or a finishing flush, the encoder moves *)
  ec_progress : forall st fed em inp cap fl, ERep st fed em -> eadm st inp fl ->
      let r := c_step C st inp cap fl in
      inp <> [] \/ fl = FlushFull -> 0 < cap -> ok_or_buf (l_stat r) ->
      0 < l_cons r + length (l_out r);
  ec_no_err : forall st fed em inp cap fl, ERep st fed em -> eadm st inp fl ->
      l_stat (c_step C st inp cap fl) <> LErr;
  (* output produced without consuming input comes out of a finite backlog *)
  ec_drain : forall st fed em inp cap fl, ERep st fed em -> eadm st inp fl ->
      let r := c_step C st inp cap fl in
      ok_or_buf (l_stat r) -> l_cons r = 0 -> mu (l_st r) + length (l_out r) <= mu st
}.

Definition enc_never_buf : Prop :=
  forall st fed em inp cap fl, ERep st fed em -> eadm st inp fl -> l_stat (c_step C st inp cap fl) <> LBuf.

End Enc.

(* ------------------------------------------------------------------ *)
(* what the stream wrappers need of a driver (process_data)             *)
(* ------------------------------------------------------------------ *)
Section DDrv.
Variable D : Type.
Variable drv : driver D.
(* [DR d fed del]: ghost strings of the member the driver is in *)
Variable DR : D -> list N -> list N -> Prop.

Record ddrv_contract : Prop := mkDDrv {
  dd_main : forall d fed del inp cap fl, DR d fed del ->
      let r := drv d inp cap fl in
      x_stat r <> XFuel /\ x_cons r <= length inp /\ length (x_out r) <= cap /\
      (x_stat r <> XErr ->
       exists zs ps fed' del',
         Stream zs ps /\ DR (x_st r) fed' del' /\
         fed ++ firstn (x_cons r) inp = zs ++ fed' /\
         del ++ x_out r = ps ++ del' /\
         (* the caller's last call (no input left, finishing flush) that yields nothing leaves the
            driver on a member boundary *)
         (fl = FlushFull -> inp = [] -> 0 < cap -> x_out r = [] -> fed' = []) /\
         (* ordinary calls: OK means "all input taken or buffer full"; END means "on a boundary" *)
         (fl = FlushNone -> inp <> [] -> 0 < cap ->
          (x_stat r = XOk -> x_cons r = length inp \/ length (x_out r) = cap) /\
          (x_stat r = XEnd -> fed' = [] /\ (x_cons r = 0 -> fed <> [])))) /\
      (* BUFFER_FULL on an ordinary call is never reported empty-handed *)
      (x_stat r = XBuf -> fl = FlushNone -> inp <> [] -> 0 < cap -> x_out r <> []);
  (* valid continuation => no error *)
  dd_valid : forall d fed del inp cap fl rem P, DR d fed del ->
      Stream (fed ++ rem) P -> prefix inp rem -> (fl = FlushFull -> inp = rem) ->
      (fl = FlushNone \/ fl = FlushFull) ->
      x_stat (drv d inp cap fl) <> XErr;
  dd_prefix : forall d fed del x p, DR d fed del -> Member (fed ++ x) p -> prefix del p;
  dd_nil : forall d del, DR d [] del -> del = [];
  (* the driver is never beyond the end of a member without having said END *)
  dd_no_overrun : forall d fed del m p, DR d fed del -> Member m p -> prefix m fed -> m = fed
}.
End DDrv.

Section EDrv.
Variable D : Type.
Variable drv : driver D.
Variable ER : D -> list N -> list N -> Prop.
Variable emu : D -> nat.
(* the driver's library has started to finish the member: only finishing calls without new input
   are covered from then on *)
Variable dfin : D -> Prop.

Definition dadm (d : D) (inp : list N) (fl : flush) : Prop := dfin d -> fl = FlushFull /\ inp = [].

Record edrv_contract : Prop := mkEDrv {
  ed_main : forall d fed em inp cap fl, ER d fed em -> dadm d inp fl -> 0 < cap ->
      fl = FlushNone \/ fl = FlushFull ->
      let r := drv d inp cap fl in
      x_stat r <> XFuel /\ x_stat r <> XErr /\
      x_cons r <= length inp /\ length (x_out r) <= cap /\
      (x_stat r <> XEnd ->
         ER (x_st r) (fed ++ firstn (x_cons r) inp) (em ++ x_out r) /\
         (dfin (x_st r) -> fl = FlushFull /\ x_cons r = length inp) /\
         (* progress, lexicographically: input is consumed, or the backlog shrinks *)
         (inp <> [] \/ fl = FlushFull ->
          0 < x_cons r + length (x_out r) /\
          (x_cons r = 0 -> emu (x_st r) + length (x_out r) <= emu d))) /\
      (x_stat r = XEnd -> inp <> [] \/ fed <> [] \/ em <> [] ->
         fl = FlushFull /\ x_cons r = length inp /\
         Member (em ++ x_out r) (fed ++ inp) /\ ER (x_st r) [] [] /\ ~ dfin (x_st r))
}.
End EDrv.

End Format.
