(* C15 -- the toy member format of ToyCodec.v as a grammar indexed by the
   decoder's phase: [Rest ph s z p] = "starting in phase ph with running
   checksum s, the bytes z complete the member and expand to p".  A member is
   [Rest DMagic 0].  Proved here: the format is self-delimiting and functional
   ([format_ok]), every phase has a completion, and the phase-to-phase
   transition lemmas used by the decoder and encoder proofs. *)
From Coq Require Import List NArith Bool Arith Lia.
From SqfsV Require Import C15.XfrmModel C15.XfrmSpec C15.XfrmBase C15.ToyCodec.
Import ListNotations.

Inductive Rest : dphase -> nat -> list N -> list N -> Prop :=
| R_magic : forall s c z p, nat_of_byte c = 167 -> Rest DTag s z p -> Rest DMagic s (c :: z) p
| R_tag_lit : forall s c z p, nat_of_byte c = 1 -> Rest DLitLen s z p -> Rest DTag s (c :: z) p
| R_tag_run : forall s c z p, nat_of_byte c = 2 -> Rest (DRunLo false) s z p -> Rest DTag s (c :: z) p
| R_tag_fin : forall s c z p, nat_of_byte c = 3 -> Rest (DRunLo true) s z p -> Rest DTag s (c :: z) p
| R_tag_end : forall s c z p, nat_of_byte c = 0 -> Rest DChk s z p -> Rest DTag s (c :: z) p
| R_litlen : forall s c z p, nat_of_byte c <> 0 -> Rest (DLit (nat_of_byte c)) s z p -> Rest DLitLen s (c :: z) p
| R_lit0 : forall s z p, Rest DTag s z p -> Rest (DLit 0) s z p
| R_litS : forall s k c z p, Rest (DLit k) (add256 s c) z p -> Rest (DLit (S k)) s (c :: z) (c :: p)
| R_runlo : forall fin s c z p, Rest (DRunHi fin (nat_of_byte c)) s z p -> Rest (DRunLo fin) s (c :: z) p
| R_runhi : forall fin lo s c z p,
    (lo + 256 * nat_of_byte c =? 0) && negb fin = false ->
    Rest (DRunB fin (lo + 256 * nat_of_byte c)) s z p -> Rest (DRunHi fin lo) s (c :: z) p
| R_runb : forall fin n s c z p, Rest (DRunOut fin n c) s z p -> Rest (DRunB fin n) s (c :: z) p
| R_out_fin : forall s k b, Rest (DRunOut true k b) s [] (repeat b k)
| R_out : forall s k b z p, Rest DTag (run_sum s k b) z p -> Rest (DRunOut false k b) s z (repeat b k ++ p)
| R_chk : forall s c, nat_of_byte c = s -> Rest DChk s [c] [].

Definition TMember (z p : list N) : Prop := Rest DMagic 0 z p.

(* ---- deterministic and self-delimiting ---- *)
Lemma Rest_det : forall ph s z p, Rest ph s z p ->
  forall x p', Rest ph s (z ++ x) p' -> x = [] /\ p' = p.
Proof.
  induction 1; intros x p' H'; simpl in H'; inversion H'; subst; try congruence;
    try (match goal with
         | IH : forall x p', Rest ?ph ?s (?z ++ x) p' -> _, H2 : Rest ?ph ?s (?z ++ _) _ |- _ =>
           destruct (IH _ _ H2) as [-> ->]; auto
         end).
  - auto.
  - auto.
Qed.

Lemma Rest_nonempty_magic s z p : Rest DMagic s z p -> z <> [].
Proof. intro H. inversion H. discriminate. Qed.

Lemma byte_roundtrip n : nat_of_byte (byte_of_nat n) = n.
Proof. unfold nat_of_byte, byte_of_nat. apply Nat2N.id. Qed.

Theorem toy_format_ok : format_ok TMember.
Proof.
  constructor.
  - exists [167%N; 0%N; 0%N], []. unfold TMember.
    apply R_magic; [reflexivity|]. apply R_tag_end; [reflexivity|]. apply R_chk. reflexivity.
  - intros z p H. eapply Rest_nonempty_magic; eauto.
  - intros z p x p' H H'. destruct (Rest_det _ _ _ _ H _ _ H'). assumption.
  - intros z p p' H H'. rewrite <- (app_nil_r z) in H'. destruct (Rest_det _ _ _ _ H _ _ H'). congruence.
Qed.

(* ---- every phase can be completed ---- *)
Lemma live_tag s : exists z p, Rest DTag s z p.
Proof.
  exists [0%N; byte_of_nat s], []. apply R_tag_end; [reflexivity|]. apply R_chk. apply byte_roundtrip.
Qed.

Lemma live_lit k : forall s, exists z p, Rest (DLit k) s z p.
Proof.
  induction k as [|k IH]; intro s.
  - destruct (live_tag s) as (z & p & H). exists z, p. now apply R_lit0.
  - destruct (IH (add256 s 0%N)) as (z & p & H). exists (0%N :: z), (0%N :: p). now apply R_litS.
Qed.

Lemma live_out fin k b s : exists z p, Rest (DRunOut fin k b) s z p.
Proof.
  destruct fin.
  - exists [], (repeat b k). apply R_out_fin.
  - destruct (live_tag (run_sum s k b)) as (z & p & H). exists z, (repeat b k ++ p). now apply R_out.
Qed.

Lemma live : forall ph s, exists z p, Rest ph s z p.
Proof.
  intros ph s. destruct ph.
  - destruct (live_tag s) as (z & p & H). exists (167%N :: z), p. apply R_magic; [reflexivity|assumption].
  - apply live_tag.
  - destruct (live_lit 1 s) as (z & p & H). exists (1%N :: z), p. apply R_litlen; [discriminate|exact H].
  - apply live_lit.
  - destruct (live_out fin (0 + 256 * 1) 0%N s) as (z & p & H).
    exists (0%N :: 1%N :: 0%N :: z), p. apply R_runlo. apply R_runhi; [reflexivity|]. apply R_runb. exact H.
  - destruct (live_out fin (lo + 256 * 1) 0%N s) as (z & p & H).
    exists (1%N :: 0%N :: z), p. apply R_runhi.
    + change (nat_of_byte 1%N) with 1. replace (lo + 256 * 1 =? 0) with false; [reflexivity|].
      symmetry. apply Nat.eqb_neq. lia.
    + apply R_runb. exact H.
  - destruct (live_out fin n 0%N s) as (z & p & H). exists (0%N :: z), p. now apply R_runb.
  - apply live_out.
  - exists [byte_of_nat s], []. apply R_chk. apply byte_roundtrip.
Qed.

(* ---- transitions ---- *)
(* from (ph,s), consuming c and producing o leads to (ph',s') *)
Definition Trans (ph : dphase) (s : nat) (c o : list N) (ph' : dphase) (s' : nat) : Prop :=
  forall z q, Rest ph s (c ++ z) q <-> exists p, q = o ++ p /\ Rest ph' s' z p.

Lemma T_refl ph s : Trans ph s [] [] ph s.
Proof.
  intros z q. simpl. split.
  - intro H. exists q. auto.
  - intros (p & -> & H). exact H.
Qed.

Lemma T_trans ph s c1 o1 ph1 s1 c2 o2 ph2 s2 :
  Trans ph s c1 o1 ph1 s1 -> Trans ph1 s1 c2 o2 ph2 s2 -> Trans ph s (c1 ++ c2) (o1 ++ o2) ph2 s2.
Proof.
  intros H1 H2 z q. rewrite <- app_assoc. rewrite (H1 (c2 ++ z) q). split.
  - intros (p & -> & H). apply H2 in H. destruct H as (p' & -> & H). exists p'. now rewrite app_assoc.
  - intros (p & -> & H). exists (o2 ++ p). rewrite app_assoc. split; [reflexivity|].
    apply H2. exists p. auto.
Qed.

Ltac t_step := intros z q; simpl; split;
  [intro H; inversion H; subst; try congruence; eexists; split; [reflexivity|]; eauto
  |intros (p & -> & H); simpl; econstructor; solve [eauto]].

Lemma T_magic s c : nat_of_byte c = 167 -> Trans DMagic s [c] [] DTag s.
Proof. intro E. t_step. Qed.
Lemma T_tag_lit s c : nat_of_byte c = 1 -> Trans DTag s [c] [] DLitLen s.
Proof. intro E. t_step. Qed.
Lemma T_tag_run s c : nat_of_byte c = 2 -> Trans DTag s [c] [] (DRunLo false) s.
Proof. intro E. t_step. Qed.
Lemma T_tag_fin s c : nat_of_byte c = 3 -> Trans DTag s [c] [] (DRunLo true) s.
Proof. intro E. t_step. Qed.
Lemma T_tag_end s c : nat_of_byte c = 0 -> Trans DTag s [c] [] DChk s.
Proof. intro E. t_step. Qed.
Lemma T_litlen s c : nat_of_byte c <> 0 -> Trans DLitLen s [c] [] (DLit (nat_of_byte c)) s.
Proof. intro E. t_step. Qed.
Lemma T_lit0 s : Trans (DLit 0) s [] [] DTag s.
Proof. t_step. Qed.
Lemma T_litS s k c : Trans (DLit (S k)) s [c] [c] (DLit k) (add256 s c).
Proof. t_step. Qed.
Lemma T_runlo fin s c : Trans (DRunLo fin) s [c] [] (DRunHi fin (nat_of_byte c)) s.
Proof. t_step. Qed.
Lemma T_runhi fin lo s c : (lo + 256 * nat_of_byte c =? 0) && negb fin = false ->
  Trans (DRunHi fin lo) s [c] [] (DRunB fin (lo + 256 * nat_of_byte c)) s.
Proof. intro E. t_step. Qed.
Lemma T_runb fin n s c : Trans (DRunB fin n) s [c] [] (DRunOut fin n c) s.
Proof. t_step. Qed.

(* checksum arithmetic *)
Lemma run_sum_eq s k b : run_sum s k b = (s + k * nat_of_byte b) mod 256.
Proof.
  unfold run_sum.
  rewrite (Nat.add_mod s ((k mod 256) * nat_of_byte b)) by lia.
  rewrite Nat.mul_mod_idemp_l by lia.
  rewrite <- Nat.add_mod by lia. reflexivity.
Qed.

Lemma run_sum_add s m j b : run_sum (run_sum s m b) j b = run_sum s (m + j) b.
Proof.
  rewrite !run_sum_eq. rewrite Nat.add_mod_idemp_l by lia. f_equal. lia.
Qed.

Lemma run_sum_lt s k b : run_sum s k b < 256.
Proof. unfold run_sum. apply Nat.mod_upper_bound. lia. Qed.

Lemma add256_lt s c : add256 s c < 256.
Proof. unfold add256. apply Nat.mod_upper_bound. lia. Qed.

Lemma run_sum_0 s b : s < 256 -> run_sum s 0 b = s.
Proof. intro H. rewrite run_sum_eq. rewrite Nat.mul_0_l, Nat.add_0_r. now apply Nat.mod_small. Qed.

Lemma T_out_part fin k b s m : m <= k ->
  Trans (DRunOut fin k b) s [] (repeat b m) (DRunOut fin (k - m) b) (run_sum s m b).
Proof.
  intros Hm z q. simpl. split.
  - intro H. inversion H; subst.
    + exists (repeat b (k - m)). split; [|constructor].
      rewrite <- repeat_app. f_equal. lia.
    + exists (repeat b (k - m) ++ p). split.
      * rewrite app_assoc, <- repeat_app. do 2 f_equal. lia.
      * constructor. rewrite run_sum_add. replace (m + (k - m)) with k by lia. assumption.
  - intros (p & -> & H). inversion H; subst.
    + rewrite <- repeat_app. replace (m + (k - m)) with k by lia. constructor.
    + rewrite app_assoc, <- repeat_app. replace (m + (k - m)) with k by lia. constructor.
      rewrite run_sum_add in *. replace (m + (k - m)) with k in * by lia. assumption.
Qed.

Lemma T_out0 b s : s < 256 -> Trans (DRunOut false 0 b) s [] [] DTag s.
Proof.
  intros Hs z q. simpl. split.
  - intro H. inversion H; subst. simpl. rewrite run_sum_0 in * by assumption. eauto.
  - intros (p & -> & H). change p with (repeat b 0 ++ p). constructor. now rewrite run_sum_0.
Qed.

(* a transition followed by a completion is a completion *)
Lemma T_rest ph s c o ph' s' z p : Trans ph s c o ph' s' -> Rest ph' s' z p -> Rest ph s (c ++ z) (o ++ p).
Proof. intros H1 H2. apply H1. eauto. Qed.

(* [Bad ph s c]: no completion is comparable with c *)
Definition Bad (ph : dphase) (s : nat) (c : list N) : Prop :=
  forall z p, Rest ph s z p -> ~ comparable c z.

Lemma comparable_cons_inv (a b : N) x y : comparable (a :: x) (b :: y) -> a = b /\ comparable x y.
Proof.
  intros [[t H]|[t H]]; simpl in H; injection H as -> ->; (split; [reflexivity|]); [left|right]; exists t; reflexivity.
Qed.

Lemma comparable_nil_r (x : list N) : comparable x [].
Proof. right. apply prefix_nil. Qed.

Lemma T_bad ph s c1 o1 ph1 s1 c2 :
  Trans ph s c1 o1 ph1 s1 -> Bad ph1 s1 c2 -> Bad ph s (c1 ++ c2).
Proof.
  intros HT HB z p Hz Hc.
  destruct (live ph1 s1) as (z0 & p0 & H0).
  pose proof (T_rest _ _ _ _ _ _ _ _ HT H0) as Hfull.
  (* z and c1 ++ z0 are completions of the same state and comparable ... *)
  assert (Hcmp : comparable c1 z).
  { destruct Hc as [[t E]|[t E]].
    - left. exists (c2 ++ t). rewrite E. now rewrite app_assoc.
    - eapply app_eq_comparable. exact E. }
  destruct Hcmp as [[t ->]|[t E]].
  - (* c1 is a prefix of z *)
    apply HT in Hz. destruct Hz as (p' & -> & Hz).
    apply (HB _ _ Hz).
    destruct Hc as [[u E]|[u E]].
    + left. exists u. rewrite <- app_assoc in E. now apply app_inv_head in E.
    + right. exists u. rewrite <- app_assoc in E. now apply app_inv_head in E.
  - (* z is a prefix of c1: then z = c1 by prefix-freeness *)
    rewrite E, <- app_assoc in Hfull.
    destruct (Rest_det _ _ _ _ Hz _ _ Hfull) as [Et _].
    apply app_eq_nil in Et. destruct Et as [-> ->]. rewrite app_nil_r in E. subst c1.
    rewrite <- (app_nil_r z) in Hz.
    apply HT in Hz. destruct Hz as (p' & -> & Hz).
    apply (HB _ _ Hz). apply comparable_nil_r.
Qed.
