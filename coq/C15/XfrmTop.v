(* C15 -- putting the pieces together:
     library contract  ==(XfrmDrv*.v)==>  driver contract  ==(Xfrm[IO]StreamProofs.v)==>  stream theorems
   for the four driver loops, and the eight instances the tie runs (the real
   gzip.c/xz.c/bzip2.c/zstd.c loops on the toy codec, both directions), which
   shows that none of the hypotheses is vacuous. *)
From Coq Require Import List NArith Bool Arith Lia.
From SqfsV Require Import C15.XfrmModel C15.XfrmSpec C15.XfrmBase C15.XfrmDrvZlib C15.XfrmDrvBzip2
  C15.XfrmDrvZstd C15.XfrmIStreamProofs C15.XfrmOStreamProofs C15.ToyCodec C15.ToyFormat
  C15.ToyDecProofs C15.ToyEncProofs.
Import ListNotations.

(* ------------------------------------------------------------------ *)
(* API adapters keep the contracts                                      *)
(* ------------------------------------------------------------------ *)
Section Adapters.
Variable Member : list N -> list N -> Prop.
Variable S : Type.
Variable C : codec S.

Section Dec.
Variable Rep : S -> list N -> list N -> Prop.
Variable resets : bool.
Hypothesis DC : dec_contract Member S C Rep resets.

(* BZ2_bzDecompress / ZSTD_decompressStream: no flush argument *)
Lemma noflush_dec : dec_contract Member S (noflush S C) Rep resets.
Proof.
  constructor; cbv zeta; cbn [noflush c_step c_reset c_mid].
  - intros st fed del inp cap fl. apply (dc_bounds _ _ _ _ _ DC).
  - intros st fed del inp cap fl. apply (dc_step _ _ _ _ _ DC).
  - intros st fed del inp cap fl. apply (dc_end _ _ _ _ _ DC).
  - intros st fed del inp cap fl. apply (dc_progress _ _ _ _ _ DC).
  - intros st fed del inp cap fl HR Hb _. apply (dc_buf_stuck _ _ _ _ _ DC st fed del inp cap FlushNone HR Hb).
    discriminate.
  - intros st fed del cap fl. apply (dc_complete _ _ _ _ _ DC).
  - apply (dc_prefix _ _ _ _ _ DC).
  - apply (dc_nil _ _ _ _ _ DC).
  - intros st fed del inp cap fl. apply (dc_err _ _ _ _ _ DC).
  - apply (dc_no_overrun _ _ _ _ _ DC).
Qed.

Lemma bz_okbuf s : ok_or_buf (match s with LEnd => LEnd | LErr => LErr | _ => LOk end) -> ok_or_buf s.
Proof. destruct s; cbn; intros [H|H]; try discriminate; [left|right]; reflexivity. Qed.

(* libbz2: "no progress" is not a separate return code *)
Lemma bzify_dec : dec_contract Member S (bzify S C) Rep resets.
Proof.
  constructor; cbv zeta; cbn [bzify c_step c_reset c_mid l_stat l_cons l_out l_st].
  - intros st fed del inp cap fl. apply (dc_bounds _ _ _ _ _ DC).
  - intros st fed del inp cap fl HR H. apply (dc_step _ _ _ _ _ DC st fed del inp cap fl HR). apply bz_okbuf; exact H.
  - intros st fed del inp cap fl HR H. apply (dc_end _ _ _ _ _ DC st fed del inp cap fl HR).
    destruct (l_stat (c_step C st inp cap fl)); congruence.
  - intros st fed del inp cap fl HR Hi Hc H. apply (dc_progress _ _ _ _ _ DC st fed del inp cap fl HR Hi Hc).
    apply bz_okbuf; exact H.
  - intros st fed del inp cap fl HR H. exfalso. destruct (l_stat (c_step C st inp cap fl)); congruence.
  - intros st fed del cap fl p HR Hm Hc H. apply (dc_complete _ _ _ _ _ DC st fed del cap fl p HR Hm Hc).
    apply bz_okbuf; exact H.
  - apply (dc_prefix _ _ _ _ _ DC).
  - apply (dc_nil _ _ _ _ _ DC).
  - intros st fed del inp cap fl HR H. apply (dc_err _ _ _ _ _ DC st fed del inp cap fl HR).
    destruct (l_stat (c_step C st inp cap fl)); congruence.
  - apply (dc_no_overrun _ _ _ _ _ DC).
Qed.

Lemma bzify_never_buf : never_buf S (bzify S C) Rep.
Proof.
  intros st fed del inp cap fl HR. cbn [bzify c_step l_stat].
  destruct (l_stat (c_step C st inp cap fl)); discriminate.
Qed.

Lemma noflush_mid : mid_ok S C Rep -> mid_ok S (noflush S C) Rep.
Proof. intros M st fed del HR. exact (M st fed del HR). Qed.
Lemma bzify_mid : mid_ok S C Rep -> mid_ok S (bzify S C) Rep.
Proof. intros M st fed del HR. exact (M st fed del HR). Qed.

Lemma noflush_endp : end_progresses S C Rep -> end_progresses S (noflush S C) Rep.
Proof. intros E st fed del inp cap fl HR. cbn [noflush c_step]. apply (E st fed del inp cap FlushNone HR). Qed.
End Dec.

Section Enc.
Variable ERep : S -> list N -> list N -> Prop.
Variable mu : S -> nat.
Variable efin : S -> Prop.
Variable resets : bool.
Hypothesis EC : enc_contract Member S C ERep mu efin resets.

Lemma bzify_enc : enc_contract Member S (bzify S C) ERep mu efin resets.
Proof.
  constructor; cbv zeta; cbn [bzify c_step c_reset c_mid l_stat l_cons l_out l_st].
  - intros st fed em inp cap fl. apply (ec_bounds _ _ _ _ _ _ _ EC).
  - intros st fed em inp cap fl HR HA H. apply (ec_step _ _ _ _ _ _ _ EC st fed em inp cap fl HR HA). apply bz_okbuf; exact H.
  - intros st fed em inp cap fl HR HA H. apply (ec_end _ _ _ _ _ _ _ EC st fed em inp cap fl HR HA).
    destruct (l_stat (c_step C st inp cap fl)); congruence.
  - intros st fed em inp cap fl HR HA H. apply (ec_fin _ _ _ _ _ _ _ EC st fed em inp cap fl HR HA). apply bz_okbuf; exact H.
  - intros st fed em inp cap fl HR HA Hi Hc H. apply (ec_progress _ _ _ _ _ _ _ EC st fed em inp cap fl HR HA Hi Hc).
    apply bz_okbuf; exact H.
  - intros st fed em inp cap fl HR HA H. apply (ec_no_err _ _ _ _ _ _ _ EC st fed em inp cap fl HR HA).
    destruct (l_stat (c_step C st inp cap fl)); congruence.
  - intros st fed em inp cap fl HR HA H. apply (ec_drain _ _ _ _ _ _ _ EC st fed em inp cap fl HR HA). apply bz_okbuf; exact H.
Qed.

Lemma bzify_enc_never_buf : enc_never_buf S (bzify S C) ERep efin.
Proof.
  intros st fed em inp cap fl HR HA. cbn [bzify c_step l_stat].
  destruct (l_stat (c_step C st inp cap fl)); discriminate.
Qed.
End Enc.
End Adapters.

(* ------------------------------------------------------------------ *)
(* the eight instances of the tie (props/C15/driver.ml)                 *)
(* ------------------------------------------------------------------ *)
Definition toy_gzip_dec := mk_zlib toy_dec true.                         (* gzip.c and xz.c *)
Definition toy_bzip2_dec := mk_bzip2 (bzify _ (noflush _ toy_dec)) true.
Definition toy_zstd_dec := mk_zstd (noflush _ toy_dec) true.
Definition toy_gzip_enc := mk_zlib toy_enc false.
Definition toy_bzip2_enc := mk_bzip2 (bzify _ toy_enc) false.
Definition toy_zstd_enc := mk_zstd toy_enc false.

Theorem toy_gzip_dec_ok : ddrv_contract TMember tdst toy_gzip_dec TRep.
Proof.
  apply zlib_dec_ok; [apply toy_format_ok|apply toy_dec_contract|apply toy_dec_okp|apply toy_dec_mid].
Qed.

Theorem toy_bzip2_dec_ok : ddrv_contract TMember tdst toy_bzip2_dec TRep.
Proof.
  apply bzip2_dec_ok.
  - apply toy_format_ok.
  - apply bzify_dec. apply noflush_dec. apply toy_dec_contract.
  - apply bzify_never_buf.
  - apply bzify_mid. apply noflush_mid. apply toy_dec_mid.
Qed.

Theorem toy_zstd_dec_ok : ddrv_contract TMember (tdst * bool) toy_zstd_dec (ZR tdst TRep0).
Proof.
  apply zstd_dec_ok.
  - apply toy_format_ok.
  - apply noflush_dec. apply toy_dec_contract0.
  - apply noflush_endp. exact (toy_dec_endp false).
Qed.

Theorem toy_gzip_enc_ok : edrv_contract TMember test toy_gzip_enc TERep phi tefin.
Proof. apply zlib_enc_ok. apply toy_enc_contract. Qed.

Theorem toy_bzip2_enc_ok : edrv_contract TMember test toy_bzip2_enc TERep phi tefin.
Proof.
  apply bzip2_enc_ok.
  - apply bzify_enc. apply toy_enc_contract.
  - apply bzify_enc_never_buf.
Qed.

Theorem toy_zstd_enc_ok : edrv_contract TMember (test * bool) toy_zstd_enc (ZER test TERep) (zmu test phi) (zfin test tefin).
Proof. apply zstd_enc_ok. apply (toy_enc_contract_g false). Qed.

Lemma toy_zstd_dec_init maxin maxout finbuf : ZR tdst TRep0 (toy_dec_init maxin maxout finbuf, false) [] [].
Proof. split; cbn [fst snd]; [apply toy_dec_init_rep|tauto]. Qed.

Lemma toy_zstd_enc_init blk maxin maxout greedy finrun : 1 <= blk ->
  ZER test TERep (toy_enc_init blk maxin maxout greedy finrun, false) [] [] /\
  ~ zfin test tefin (toy_enc_init blk maxin maxout greedy finrun, false).
Proof.
  intro Hb. destruct (toy_enc_init_rep blk maxin maxout greedy finrun Hb) as [H1 H2].
  split; [split; cbn [fst snd]; auto|exact H2].
Qed.

(* ------------------------------------------------------------------ *)
(* library contract ==> stream theorem, composed (gzip.c / xz.c)        *)
(* the same composition works verbatim with bzip2_dec_ok / zstd_dec_ok / *)
(* bzip2_enc_ok / zstd_enc_ok                                           *)
(* ------------------------------------------------------------------ *)
Section Composed.
Variable Member : list N -> list N -> Prop.
Hypothesis F : format_ok Member.
Variable S : Type.
Variable C : codec S.

Section D.
Variable Rep : S -> list N -> list N -> Prop.
Hypothesis DC : dec_contract Member S C Rep true.
Hypothesis OKP : ok_progresses S C Rep.
Hypothesis MID : mid_ok S C Rep.
Variable bufsz : nat.
Hypothesis Hbuf : 0 < bufsz.
Variable st0 : S.
Hypothesis H0 : Rep st0 [] [].

Lemma gzip_xz_istream_transparent_l : forall Z P ws ops acc e s',
  Stream Member Z P ->
  reader (mk_zlib C true) bufsz (istream_init st0 Z ws) ops [] = (acc, e, s') ->
  prefix acc P /\ e <> RErr /\ e <> RFuel /\ (e = REof -> acc = P) /\
  (takes_ok ops -> length P < length ops -> e = REof /\ acc = P).
Proof.
  apply (istream_transparent_l Member F S (mk_zlib C true) Rep
           (zlib_dec_ok Member F S C Rep DC OKP MID) bufsz Hbuf st0 H0).
Qed.

Lemma gzip_xz_truncated_is_error_l : forall zs ps x y p ws ops acc e s',
  Stream Member zs ps -> Member (x ++ y) p -> x <> [] -> y <> [] ->
  reader (mk_zlib C true) bufsz (istream_init st0 (zs ++ x) ws) ops [] = (acc, e, s') ->
  e <> REof /\ e <> RFuel /\ prefix acc (ps ++ p) /\
  (takes_ok ops -> length (ps ++ p) < length ops -> e = RErr).
Proof.
  apply (truncated_l Member F S (mk_zlib C true) Rep
           (zlib_dec_ok Member F S C Rep DC OKP MID) bufsz Hbuf st0 H0).
Qed.
End D.

Section E.
Variable ERep : S -> list N -> list N -> Prop.
Variable mu : S -> nat.
Variable efin : S -> Prop.
Hypothesis EC : enc_contract Member S C ERep mu efin true.
Variable bufsz : nat.
Hypothesis Hbuf : 0 < bufsz.

Lemma gzip_xz_ostream_transparent_l : forall st0 chunks, ERep st0 [] [] -> ~ efin st0 ->
  exists n s' os,
    (forall lfuel, n <= lfuel -> writer (mk_zlib C false) bufsz lfuel (ostream_init st0) chunks = Ok s') /\
    o_log s' = map EvAppend os ++ [EvFlush] /\
    log_bytes (o_log s') = concat os /\
    Stream Member (concat os) (concat chunks) /\
    o_inbuf s' = [] /\ ERep (o_drv s') [] [] /\ ~ efin (o_drv s') /\ (concat chunks = [] -> os = []).
Proof.
  apply (ostream_transparent_l Member S (mk_zlib C false) ERep mu efin
           (zlib_enc_ok Member S C ERep mu efin EC) bufsz Hbuf).
Qed.
End E.
End Composed.
