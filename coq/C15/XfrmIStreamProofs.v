(* C15 -- istream_xfrm (precache / get_buffered_data / advance_buffer) over any
   driver meeting the decoder-driver contract [ddrv_contract]:
     - the loop of precache terminates within [precache_fuel] (progress measure
       2 * |unread input| + [the driver is inside a member]);
     - whatever the input is, EOF is only reported when the whole input has been
       consumed, it is a sequence of complete members, and everything they
       contain has been handed out;
     - on a sequence of complete members no error is reported and the bytes
       handed out are a prefix of the decoded contents;
     - if the input ends inside a member the reader ends with an error. *)
From Coq Require Import List NArith Bool Arith Lia.
From SqfsV Require Import C15.XfrmModel C15.XfrmSpec C15.XfrmBase.
Import ListNotations.

Lemma window_prefix (src : list N) ws : exists t, src = window src ws ++ t.
Proof.
  destruct ws as [|w ws]; cbn [window].
  - exists []. now rewrite app_nil_r.
  - exists (skipn (Nat.max 1 w) src). now rewrite firstn_skipn.
Qed.

Lemma window_nonempty (src : list N) ws : src <> [] -> window src ws <> [].
Proof.
  destruct ws as [|w ws]; cbn [window]; [auto|].
  intro H. destruct src as [|a src]; [congruence|].
  destruct (Nat.max 1 w) eqn:E; [lia|]. simpl. discriminate.
Qed.

Lemma window_nil ws : window (@nil N) ws = [].
Proof. destruct ws; cbn [window]; [reflexivity|apply firstn_nil]. Qed.

Lemma firstn_prefix_eq (a t : list N) n : n <= length a -> firstn n (a ++ t) = firstn n a.
Proof.
  intro H. rewrite firstn_app. replace (n - length a) with 0 by lia. simpl. now rewrite app_nil_r.
Qed.

Lemma skipn_all_nil (A : Type) (l : list A) n : length l <= n -> skipn n l = [].
Proof. intro H. apply length_zero_nil. rewrite skipn_length. lia. Qed.

Section IS.
Variable Member : list N -> list N -> Prop.
Hypothesis F : format_ok Member.
Variable D : Type.
Variable drv : driver D.
Variable DR : D -> list N -> list N -> Prop.
Hypothesis DD : ddrv_contract Member D drv DR.
Variable bufsz : nat.
Hypothesis Hbuf : 0 < bufsz.

Notation Str := (Stream Member).

Definition mu (src fed : list N) : nat := 2 * length src + (if nilb fed then 0 else 1).

(* what one run of the for(;;) of precache does, with the ghost position of the driver:
   zs/ps = complete members consumed / their contents, fed/del = the member in progress *)
Lemma ploop : forall fuel st buf src ws zs ps fed del,
  Str zs ps -> DR st fed del -> length buf < bufsz -> mu src fed + 2 <= fuel ->
  match precache_loop drv bufsz fuel st buf src ws with
  | Fuel => False
  | Ok (st', buf', src', ws') =>
      exists c o zs' ps' fed' del',
        src = c ++ src' /\ buf' = buf ++ o /\ length buf' <= bufsz /\
        Str zs' ps' /\ DR st' fed' del' /\
        zs ++ fed ++ c = zs' ++ fed' /\ ps ++ del ++ o = ps' ++ del' /\
        (buf' = [] -> src' = [] /\ fed' = [])
  | Err =>
      exists c src1 ws1 st1 zs1 ps1 fed1 del1 cap,
        src = c ++ src1 /\ Str zs1 ps1 /\ DR st1 fed1 del1 /\ zs ++ fed ++ c = zs1 ++ fed1 /\
        x_stat (drv st1 (window src1 ws1) cap (if nilb src1 then FlushFull else FlushNone)) = XErr
  end.
Proof.
  induction fuel as [|f IH]; intros st buf src ws zs ps fed del HS HR Hb Hf; [lia|].
  cbn [precache_loop].
  set (fl := if nilb src then FlushFull else FlushNone).
  set (inp := window src ws).
  set (cap := bufsz - length buf).
  assert (Hcap : 0 < cap) by (unfold cap; lia).
  pose proof (dd_main _ _ _ _ DD st fed del inp cap fl HR) as HM. cbv zeta in HM.
  destruct (window_prefix src ws) as [t Ht]. fold inp in Ht.
  set (r := drv st inp cap fl) in *.
  destruct HM as (HnF & Hc & Ho & HM & HBuf).
  assert (Hsrc : src = firstn (x_cons r) inp ++ skipn (x_cons r) src).
  { rewrite <- (firstn_prefix_eq inp t) by exact Hc. rewrite <- Ht. now rewrite firstn_skipn. }
  destruct (x_stat r) eqn:Hs; try congruence.
  4:{ (* XErr *)
    exists [], src, ws, st, zs, ps, fed, del, cap.
    rewrite app_nil_r. split; [reflexivity|]. split; [assumption|]. split; [assumption|].
    split; [reflexivity|]. exact Hs. }
  all: destruct (HM ltac:(discriminate)) as (zs1 & ps1 & fed1 & del1 & HS1 & HR1 & E1 & E2 & HFull & HNone).
  all: assert (HS' : Str (zs ++ zs1) (ps ++ ps1)) by (apply stream_app; assumption).
  all: assert (EZ : zs ++ fed ++ firstn (x_cons r) inp = (zs ++ zs1) ++ fed1)
         by (rewrite <- app_assoc, <- E1; reflexivity).
  all: assert (EP : ps ++ del ++ x_out r = (ps ++ ps1) ++ del1)
         by (rewrite <- app_assoc, <- E2; reflexivity).
  all: assert (Hlen : length (buf ++ x_out r) <= bufsz) by (rewrite app_length; unfold cap in Ho; lia).
  all: assert (Hstop : (buf ++ x_out r = [] -> src = [] -> skipn (x_cons r) src = [] /\ fed1 = []))
    by (intros Eb Es; apply app_eq_nil in Eb; destruct Eb as [_ Eo]; split;
         [rewrite Es; apply skipn_nil|];
         apply HFull; auto; [unfold fl; rewrite Es; reflexivity|unfold inp; rewrite Es; apply window_nil]).
  - (* XOk *)
    destruct ((false || (bufsz <=? length (buf ++ x_out r))) || nilb src) eqn:Hstp.
    + exists (firstn (x_cons r) inp), (x_out r), (zs ++ zs1), (ps ++ ps1), fed1, del1.
      do 7 (split; [solve [auto]|]).
      intro Eb. apply orb_true_iff in Hstp. destruct Hstp as [Hstp|Hstp].
      * cbn in Hstp. apply Nat.leb_le in Hstp. rewrite Eb in Hstp. simpl in Hstp. lia.
      * apply nilb_true in Hstp. apply Hstop; auto.
    + apply orb_false_iff in Hstp. destruct Hstp as [Hfull Hne].
      cbn in Hfull. apply Nat.leb_gt in Hfull. apply nilb_false in Hne.
      assert (Hfl : fl = FlushNone).
      { unfold fl. destruct src; [congruence|reflexivity]. }
      assert (Hinp : inp <> []) by (apply window_nonempty; exact Hne).
      destruct (HNone Hfl Hinp Hcap) as [HOk _].
      destruct (HOk eq_refl) as [Hall|Hall].
      2:{ rewrite app_length in Hfull. unfold cap in Hall. lia. }
      assert (Hpos : 0 < x_cons r).
      { rewrite Hall. destruct inp; [congruence|simpl; lia]. }
      assert (Hl' : length (skipn (x_cons r) src) = length src - x_cons r) by apply skipn_length.
      assert (Hcs : x_cons r <= length src).
      { rewrite Ht, app_length. lia. }
      specialize (IH (x_st r) (buf ++ x_out r) (skipn (x_cons r) src) (tl ws)
                     (zs ++ zs1) (ps ++ ps1) fed1 del1 HS' HR1 Hfull).
      assert (Hmu : mu (skipn (x_cons r) src) fed1 + 2 <= f).
      { unfold mu in *. rewrite Hl'. destruct (nilb fed1); destruct (nilb fed); lia. }
      specialize (IH Hmu).
      destruct (precache_loop drv bufsz f (x_st r) (buf ++ x_out r) (skipn (x_cons r) src) (tl ws))
        as [[[[st' buf'] src'] ws']| |]; [| |exact IH].
      * destruct IH as (c & o & zs' & ps' & fed' & del' & A1 & A2 & A3 & A4 & A5 & A6 & A7 & A8).
        exists (firstn (x_cons r) inp ++ c), (x_out r ++ o), zs', ps', fed', del'.
        split; [rewrite <- app_assoc, <- A1; exact Hsrc|].
        split; [rewrite A2; now rewrite app_assoc|].
        split; [assumption|]. split; [assumption|]. split; [assumption|].
        split; [rewrite <- A6; rewrite !app_assoc; rewrite <- (app_assoc zs fed); rewrite EZ; reflexivity|].
        split; [rewrite <- A7; rewrite !app_assoc; rewrite <- (app_assoc ps del); rewrite EP; reflexivity|].
        exact A8.
      * destruct IH as (c & src1 & ws1 & st1 & zs2 & ps2 & fed2 & del2 & cap2 & A1 & A2 & A3 & A4 & A5).
        exists (firstn (x_cons r) inp ++ c), src1, ws1, st1, zs2, ps2, fed2, del2, cap2.
        split; [rewrite <- app_assoc, <- A1; exact Hsrc|].
        split; [assumption|]. split; [assumption|].
        split; [rewrite <- A4; rewrite !app_assoc; rewrite <- (app_assoc zs fed); rewrite EZ; reflexivity|].
        exact A5.
  - (* XEnd *)
    destruct ((false || (bufsz <=? length (buf ++ x_out r))) || nilb src) eqn:Hstp.
    + exists (firstn (x_cons r) inp), (x_out r), (zs ++ zs1), (ps ++ ps1), fed1, del1.
      do 7 (split; [solve [auto]|]).
      intro Eb. apply orb_true_iff in Hstp. destruct Hstp as [Hstp|Hstp].
      * cbn in Hstp. apply Nat.leb_le in Hstp. rewrite Eb in Hstp. simpl in Hstp. lia.
      * apply nilb_true in Hstp. apply Hstop; auto.
    + apply orb_false_iff in Hstp. destruct Hstp as [Hfull Hne].
      cbn in Hfull. apply Nat.leb_gt in Hfull. apply nilb_false in Hne.
      assert (Hfl : fl = FlushNone).
      { unfold fl. destruct src; [congruence|reflexivity]. }
      assert (Hinp : inp <> []) by (apply window_nonempty; exact Hne).
      destruct (HNone Hfl Hinp Hcap) as [_ HEnd].
      destruct (HEnd eq_refl) as [Hfed1 Hc0].
      assert (Hl' : length (skipn (x_cons r) src) = length src - x_cons r) by apply skipn_length.
      assert (Hcs : x_cons r <= length src).
      { rewrite Ht, app_length. lia. }
      specialize (IH (x_st r) (buf ++ x_out r) (skipn (x_cons r) src) (tl ws)
                     (zs ++ zs1) (ps ++ ps1) fed1 del1 HS' HR1 Hfull).
      assert (Hmu : mu (skipn (x_cons r) src) fed1 + 2 <= f).
      { unfold mu in *. rewrite Hl'. subst fed1. cbn [nilb].
        destruct (x_cons r) eqn:Ec.
        - specialize (Hc0 eq_refl). apply nilb_false in Hc0. rewrite Hc0 in Hf. lia.
        - destruct (nilb fed); lia. }
      specialize (IH Hmu).
      destruct (precache_loop drv bufsz f (x_st r) (buf ++ x_out r) (skipn (x_cons r) src) (tl ws))
        as [[[[st' buf'] src'] ws']| |]; [| |exact IH].
      * destruct IH as (c & o & zs' & ps' & fed' & del' & A1 & A2 & A3 & A4 & A5 & A6 & A7 & A8).
        exists (firstn (x_cons r) inp ++ c), (x_out r ++ o), zs', ps', fed', del'.
        split; [rewrite <- app_assoc, <- A1; exact Hsrc|].
        split; [rewrite A2; now rewrite app_assoc|].
        split; [assumption|]. split; [assumption|]. split; [assumption|].
        split; [rewrite <- A6; rewrite !app_assoc; rewrite <- (app_assoc zs fed); rewrite EZ; reflexivity|].
        split; [rewrite <- A7; rewrite !app_assoc; rewrite <- (app_assoc ps del); rewrite EP; reflexivity|].
        exact A8.
      * destruct IH as (c & src1 & ws1 & st1 & zs2 & ps2 & fed2 & del2 & cap2 & A1 & A2 & A3 & A4 & A5).
        exists (firstn (x_cons r) inp ++ c), src1, ws1, st1, zs2, ps2, fed2, del2, cap2.
        split; [rewrite <- app_assoc, <- A1; exact Hsrc|].
        split; [assumption|]. split; [assumption|].
        split; [rewrite <- A4; rewrite !app_assoc; rewrite <- (app_assoc zs fed); rewrite EZ; reflexivity|].
        exact A5.
  - (* XBuf: the loop stops *)
    cbn [orb].
    exists (firstn (x_cons r) inp), (x_out r), (zs ++ zs1), (ps ++ ps1), fed1, del1.
    do 7 (split; [solve [auto]|]).
    intro Eb. destruct (nilb src) eqn:Es.
    + apply nilb_true in Es. apply Hstop; auto.
    + exfalso. apply nilb_false in Es. apply app_eq_nil in Eb. destruct Eb as [_ Eo].
      apply (HBuf eq_refl); auto.
      apply window_nonempty. exact Es.
Qed.


(* ------------------------------------------------------------------ *)
(* the reader                                                          *)
(* ------------------------------------------------------------------ *)

(* [RI Z s A]: the wrapped stream started as Z; the reader has taken the bytes A so far *)
Definition RI (Z : list N) (s : istate D) (A : list N) : Prop :=
  exists zs ps fed del, Str zs ps /\ DR (i_drv s) fed del /\ Z = zs ++ fed ++ i_src s /\
    A ++ skipn (i_off s) (i_buf s) = ps ++ del /\ length (i_buf s) <= bufsz /\ i_off s <= length (i_buf s).

(* an error was reported: this call of process_data failed *)
Definition EI (Z : list N) : Prop :=
  exists zs1 ps1 st1 fed1 del1 src1 ws1 cap, Str zs1 ps1 /\ DR st1 fed1 del1 /\ Z = zs1 ++ fed1 ++ src1 /\
    x_stat (drv st1 (window src1 ws1) cap (if nilb src1 then FlushFull else FlushNone)) = XErr.

Lemma precache_fuel_ok src fed : mu src fed + 2 <= precache_fuel src.
Proof. unfold mu, precache_fuel. destruct (nilb fed); lia. Qed.

Lemma gbd_spec Z s A want : RI Z s A ->
  match get_buffered_data drv bufsz s want with
  | Fuel => False
  | Err => EI Z
  | Ok (s', eof, w) => w = skipn (i_off s') (i_buf s') /\ eof = nilb w /\ RI Z s' A /\ (eof = true -> Str Z A)
  end.
Proof.
  intros (zs & ps & fed & del & HS & HR & EZ & EA & HL & HO).
  unfold get_buffered_data.
  destruct ((length (i_buf s) =? i_off s) || (length (i_buf s) - i_off s <? Nat.min want bufsz)) eqn:Hc.
  - unfold precache.
    assert (Hb : length (skipn (i_off s) (i_buf s)) < bufsz).
    { rewrite skipn_length. apply orb_true_iff in Hc. destruct Hc as [Hc|Hc].
      - apply Nat.eqb_eq in Hc. lia.
      - apply Nat.ltb_lt in Hc. lia. }
    pose proof (ploop (precache_fuel (i_src s)) (i_drv s) (skipn (i_off s) (i_buf s)) (i_src s) (i_ws s)
                      zs ps fed del HS HR Hb (precache_fuel_ok _ _)) as HP.
    destruct (precache_loop drv bufsz (precache_fuel (i_src s)) (i_drv s) (skipn (i_off s) (i_buf s)) (i_src s) (i_ws s))
      as [[[[st' buf'] src'] ws']| |]; [| |exact HP].
    + destruct HP as (c & o & zs' & ps' & fed' & del' & A1 & A2 & A3 & A4 & A5 & A6 & A7 & A8).
      cbn [i_off i_buf skipn].
      split; [reflexivity|]. split; [reflexivity|].
      assert (EA' : A ++ buf' = ps' ++ del').
      { rewrite A2, app_assoc, EA, <- app_assoc. exact A7. }
      split.
      * exists zs', ps', fed', del'. cbn [i_drv i_src i_off i_buf skipn].
        split; [assumption|]. split; [assumption|]. split; [|split; [assumption|split; [assumption|lia]]].
        rewrite EZ, A1. rewrite !app_assoc. rewrite <- (app_assoc zs fed c). rewrite A6. reflexivity.
      * intro He. apply nilb_true in He. destruct (A8 He) as [-> ->].
        pose proof (dd_nil _ _ _ _ DD _ _ A5) as ->.
        rewrite He in EA'. rewrite !app_nil_r in EA'. subst A.
        assert (Z = zs') as ->.
        { rewrite EZ, A1. rewrite !app_assoc. rewrite <- (app_assoc zs fed c). rewrite A6.
          now rewrite !app_nil_r. }
        exact A4.
    + destruct HP as (c & src1 & ws1 & st1 & zs1 & ps1 & fed1 & del1 & cap & A1 & A2 & A3 & A4 & A5).
      exists zs1, ps1, st1, fed1, del1, src1, ws1, cap.
      split; [assumption|]. split; [assumption|]. split; [|assumption].
      rewrite EZ, A1. rewrite !app_assoc. rewrite <- (app_assoc zs fed c). rewrite A4. reflexivity.
  - split; [reflexivity|]. split; [reflexivity|]. split.
    + exists zs, ps, fed, del. repeat (split; [assumption|]). assumption.
    + intro He. exfalso. apply nilb_true in He.
      apply orb_false_iff in Hc. destruct Hc as [Hc _]. apply Nat.eqb_neq in Hc.
      apply (f_equal (@length N)) in He. rewrite skipn_length in He. simpl in He. lia.
Qed.

Lemma RI_advance Z s A t : t <= length (skipn (i_off s) (i_buf s)) ->
  RI Z s A -> RI Z (advance s t) (A ++ firstn t (skipn (i_off s) (i_buf s))).
Proof.
  intros Ht (zs & ps & fed & del & HS & HR & EZ & EA & HL & HO).
  exists zs, ps, fed, del. cbn [advance i_drv i_src i_off i_buf].
  split; [assumption|]. split; [assumption|]. split; [assumption|].
  split; [|split; [assumption|rewrite skipn_length in Ht; lia]].
  rewrite <- EA, <- app_assoc. f_equal.
  rewrite <- skipn_skipn_add. now rewrite firstn_skipn.
Qed.

Definition takes_ok (ops : list (nat * nat)) : Prop := Forall (fun o => 1 <= snd o) ops.

Lemma reader_spec Z : forall ops s A acc e s',
  RI Z s A -> reader drv bufsz s ops A = (acc, e, s') ->
  e <> RFuel /\ RI Z s' acc /\ (e = REof -> Str Z acc) /\ (e = RErr -> EI Z).
Proof.
  induction ops as [|[want take] ops IH]; intros s A acc e s' HI HR; cbn [reader] in HR.
  - injection HR as <- <- <-. split; [discriminate|]. split; [assumption|]. split; discriminate.
  - pose proof (gbd_spec Z s A want HI) as HG.
    destruct (get_buffered_data drv bufsz s want) as [[[s1 eof] w]| |]; [| |contradiction].
    + destruct HG as (Ew & Ee & HI1 & HE).
      destruct eof.
      * injection HR as <- <- <-. split; [discriminate|]. split; [assumption|].
        split; [intros _; apply HE; reflexivity|discriminate].
      * eapply IH; [|exact HR]. rewrite Ew. apply RI_advance; [|exact HI1]. rewrite <- Ew. lia.
    + injection HR as <- <- <-. split; [discriminate|]. split; [assumption|].
      split; [discriminate|]. intros _. exact HG.
Qed.

(* every successful call offers at least one byte, so a reader that takes bytes makes progress *)
Lemma reader_count : forall ops s A acc s',
  takes_ok ops -> reader drv bufsz s ops A = (acc, RMore, s') -> length A + length ops <= length acc.
Proof.
  induction ops as [|[want take] ops IH]; intros s A acc s' Ht HR; cbn [reader] in HR.
  - injection HR as <- <-. simpl. lia.
  - inversion Ht as [|o l Ht1 Ht2]; subst. cbn [snd] in Ht1.
    destruct (get_buffered_data drv bufsz s want) as [[[s1 eof] w]| |] eqn:HG; try discriminate.
    destruct eof eqn:He; [discriminate|].
    assert (Hwne : w <> []).
    { unfold get_buffered_data in HG.
      destruct ((length (i_buf s) =? i_off s) || (length (i_buf s) - i_off s <? Nat.min want bufsz)).
      - destruct (precache drv bufsz s); try discriminate. injection HG as _ E2 E3. subst w.
        now apply nilb_false.
      - injection HG as _ E2 E3. subst w. now apply nilb_false. }
    specialize (IH _ _ _ _ Ht2 HR). rewrite app_length, firstn_length in IH.
    destruct w; [congruence|]. simpl in *. lia.
Qed.

Lemma RI_init Z d0 ws : DR d0 [] [] -> RI Z (istream_init d0 Z ws) [].
Proof.
  intro H. exists [], [], [], []. cbn. repeat split; try constructor; auto; lia.
Qed.

(* the bytes taken so far are a prefix of the contents of every member sequence the input is a prefix of *)
Lemma RI_prefix Z s A y P : RI Z s A -> Str (Z ++ y) P -> prefix A P.
Proof.
  intros (zs & ps & fed & del & HS & HR & EZ & EA & HL & HO) HP.
  rewrite EZ in HP. rewrite <- !app_assoc in HP.
  destruct (stream_split F HS _ HP) as (P' & HP' & ->).
  assert (Hd : prefix del P').
  { destruct (list_eq_dec N.eq_dec (fed ++ i_src s ++ y) []) as [E|E].
    - apply app_eq_nil in E. destruct E as [-> _].
      rewrite (dd_nil _ _ _ _ DD _ _ HR). apply prefix_nil.
    - destruct (stream_first HP' E) as (m & p & zs2 & ps2 & Hm & _ & E2 & ->).
      assert (Hc : comparable fed m).
      { apply prefixes_comparable with (l := fed ++ i_src s ++ y).
        - apply prefix_app.
        - rewrite E2. apply prefix_app. }
      destruct Hc as [[x ->]|Hc].
      + eapply prefix_trans; [|apply prefix_app]. eapply (dd_prefix _ _ _ _ DD); eauto.
      + pose proof (dd_no_overrun _ _ _ _ DD _ _ _ _ _ HR Hm Hc) as ->.
        eapply prefix_trans; [|apply prefix_app].
        apply (dd_prefix _ _ _ _ DD _ _ _ [] p HR). now rewrite app_nil_r. }
  eapply prefix_trans; [apply prefix_app|]. rewrite EA. now apply prefix_app_l.
Qed.

(* an error is never reported on a sequence of complete members *)
Lemma EI_invalid Z P : EI Z -> Str Z P -> False.
Proof.
  intros (zs1 & ps1 & st1 & fed1 & del1 & src1 & ws1 & cap & HS & HR & EZ & HX) HP.
  rewrite EZ in HP.
  destruct (stream_split F HS _ HP) as (P' & HP' & _).
  apply (dd_valid _ _ _ _ DD st1 fed1 del1 (window src1 ws1) cap
                  (if nilb src1 then FlushFull else FlushNone) src1 P' HR HP'); auto.
  - destruct (window_prefix src1 ws1) as [t Ht]. exists t. exact Ht.
  - intro E. destruct src1; [|discriminate]. apply window_nil.
  - destruct (nilb src1); auto.
Qed.

Section Theorems.
Variable d0 : D.
Hypothesis Hd0 : DR d0 [] [].

(* EOF is sound on EVERY input: it means that all of the input has been consumed, that it is a
   sequence of complete members, and that every byte of their contents has been handed out *)
Lemma istream_eof_sound_l : forall Z ws ops acc e s',
  reader drv bufsz (istream_init d0 Z ws) ops [] = (acc, e, s') ->
  e <> RFuel /\ (e = REof -> Str Z acc).
Proof.
  intros Z ws ops acc e s' HR.
  destruct (reader_spec Z ops _ _ _ _ _ (RI_init Z d0 ws Hd0) HR) as (H1 & _ & H3 & _). auto.
Qed.

Lemma istream_transparent_l : forall Z P ws ops acc e s',
  Str Z P -> reader drv bufsz (istream_init d0 Z ws) ops [] = (acc, e, s') ->
  prefix acc P /\ e <> RErr /\ e <> RFuel /\ (e = REof -> acc = P) /\
  (takes_ok ops -> length P < length ops -> e = REof /\ acc = P).
Proof.
  intros Z P ws ops acc e s' HP HR.
  destruct (reader_spec Z ops _ _ _ _ _ (RI_init Z d0 ws Hd0) HR) as (H1 & H2 & H3 & H4).
  assert (Hpre : prefix acc P).
  { apply (RI_prefix Z s' acc [] P H2). now rewrite app_nil_r. }
  assert (Hne : e <> RErr).
  { intro E. eapply EI_invalid; eauto. }
  assert (Heof : e = REof -> acc = P).
  { intro E. eapply (stream_fun F); eauto. }
  split; [assumption|]. split; [assumption|]. split; [assumption|]. split; [assumption|].
  intros Ht Hlen.
  assert (e = REof).
  { destruct e; try congruence. exfalso.
    pose proof (reader_count _ _ _ _ _ Ht HR) as Hc. apply prefix_length in Hpre. simpl in Hc. lia. }
  auto.
Qed.

(* the input ends inside a member: zs complete members, then a proper non-empty prefix x of a member *)
Lemma truncated_l : forall zs ps x y p ws ops acc e s',
  Str zs ps -> Member (x ++ y) p -> x <> [] -> y <> [] ->
  reader drv bufsz (istream_init d0 (zs ++ x) ws) ops [] = (acc, e, s') ->
  e <> REof /\ e <> RFuel /\ prefix acc (ps ++ p) /\
  (takes_ok ops -> length (ps ++ p) < length ops -> e = RErr).
Proof.
  intros zs ps x y p ws ops acc e s' HS Hm Hx Hy HR.
  destruct (reader_spec (zs ++ x) ops _ _ _ _ _ (RI_init _ d0 ws Hd0) HR) as (H1 & H2 & H3 & H4).
  assert (Hne : e <> REof).
  { intro E. eapply (@stream_no_partial _ F _ _ _ _ _ HS Hm Hy Hx). apply H3. exact E. }
  assert (Hpre : prefix acc (ps ++ p)).
  { apply (RI_prefix (zs ++ x) s' acc y (ps ++ p) H2). rewrite <- app_assoc.
    apply stream_snoc; assumption. }
  split; [assumption|]. split; [assumption|]. split; [assumption|].
  intros Ht Hlen. destruct e; try congruence. exfalso.
  pose proof (reader_count _ _ _ _ _ Ht HR) as Hc. apply prefix_length in Hpre. simpl in Hc. lia.
Qed.

(* more generally: whatever the input is, if it is not a sequence of complete members the reader
   never reports EOF (trailing garbage, damaged trailer, ...) *)
Lemma not_stream_no_eof_l : forall Z ws ops acc e s',
  (forall P, ~ Str Z P) ->
  reader drv bufsz (istream_init d0 Z ws) ops [] = (acc, e, s') -> e <> REof /\ e <> RFuel.
Proof.
  intros Z ws ops acc e s' Hn HR.
  destruct (istream_eof_sound_l _ _ _ _ _ _ HR) as [H1 H2].
  split; [|assumption]. intro E. eapply Hn. apply H2. exact E.
Qed.

End Theorems.
End IS.
