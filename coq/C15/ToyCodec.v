(* C15 -- a toy streaming codec "library" with the calling convention of
   deflate/inflate (next_in/avail_in/next_out/avail_out/flush), implemented
   identically in props/C15/toy.h.  It is the codec the real driver loops of
   gzip.c / xz.c / bzip2.c / zstd.c are compiled against in the component
   harness (the library entry points are redirected to it), and the codec the
   extracted model is instantiated with in the tie.

   Format of one member:
     0xA7                                  magic
     0x01 n b1..bn      (1 <= n <= 255)    literal block
     0x02 lo hi b       (lo+256*hi >= 1)   run of lo+256*hi copies of b
     0x00 chk                              end; chk = sum of the plain bytes mod 256
     0x03 lo hi b                          final run (count may be 0), member ends
                                           after the run has been delivered (no checksum:
                                           the decoder has consumed everything while it
                                           still owes output, like a zstd frame without
                                           checksum)
   Knobs (part of the state, never change): per-call limits on consumed and
   produced bytes (0 = none), "greedy" (take input before giving output),
   "finbuf" (report LBuf instead of LOk whenever the flush mode is FULL and
   the member is not finished -- what inflate does under Z_FINISH). *)
From Coq Require Import List NArith Bool Arith.
From SqfsV Require Import C15.XfrmModel.
Import ListNotations.

Definition byte_of_nat (n : nat) : N := N.of_nat n.
Definition nat_of_byte (b : N) : nat := N.to_nat b.

Definition lim (knob avail : nat) : nat := if knob =? 0 then avail else Nat.min knob avail.

(* ------------------------------ decoder ------------------------------ *)

Inductive dphase :=
| DMagic | DTag | DLitLen
| DLit (k : nat)
| DRunLo (fin : bool) | DRunHi (fin : bool) (lo : nat) | DRunB (fin : bool) (n : nat)
| DRunOut (fin : bool) (k : nat) (b : N)
| DChk.

Record tdst := mkTD {
  d_ph : dphase; d_sum : nat; d_mid : bool;
  d_maxin : nat; d_maxout : nat; d_finbuf : bool
}.

Inductive dstop := DsMore | DsEnd | DsErr.

Definition add256 (s : nat) (b : N) : nat := (s + nat_of_byte b) mod 256.
Definition run_sum (s k : nat) (b : N) : nat := (s + (k mod 256) * nat_of_byte b) mod 256.

(* ib/ob: what may still be consumed/produced in this call; rout: output so far, reversed *)
Fixpoint dec_loop (fuel : nat) (ph : dphase) (sum : nat) (inp : list N) (ib ob cn : nat)
         (rout : list N) : dphase * nat * nat * list N * dstop :=
  match fuel with
  | O => (ph, sum, cn, rout, DsMore)
  | S f =>
    match ph with
    | DRunOut fin k b =>
      if k =? 0 then
        if fin then (DMagic, 0, cn, rout, DsEnd)
        else dec_loop f DTag sum inp ib ob cn rout
      else if ob =? 0 then (ph, sum, cn, rout, DsMore)
      else let m := Nat.min k ob in
           dec_loop f (DRunOut fin (k - m) b) (run_sum sum m b) inp ib (ob - m) cn
                    (repeat b m ++ rout)
    | DLit k =>
      if k =? 0 then dec_loop f DTag sum inp ib ob cn rout
      else match inp with
           | [] => (ph, sum, cn, rout, DsMore)
           | c :: inp' =>
             if (ib =? 0) || (ob =? 0) then (ph, sum, cn, rout, DsMore)
             else dec_loop f (DLit (k - 1)) (add256 sum c) inp' (ib - 1) (ob - 1) (cn + 1) (c :: rout)
           end
    | _ =>
      match inp with
      | [] => (ph, sum, cn, rout, DsMore)
      | c :: inp' =>
        if ib =? 0 then (ph, sum, cn, rout, DsMore)
        else
          let v := nat_of_byte c in
          let next ph' := dec_loop f ph' sum inp' (ib - 1) ob (cn + 1) rout in
          let bad := (ph, sum, cn + 1, rout, DsErr) in
          match ph with
          | DMagic => if v =? 167 then next DTag else bad
          | DTag =>
            if v =? 1 then next DLitLen
            else if v =? 2 then next (DRunLo false)
            else if v =? 3 then next (DRunLo true)
            else if v =? 0 then next DChk
            else bad
          | DLitLen => if v =? 0 then bad else next (DLit v)
          | DRunLo fin => next (DRunHi fin v)
          | DRunHi fin lo =>
            let n := lo + 256 * v in
            if (n =? 0) && negb fin then bad else next (DRunB fin n)
          | DRunB fin n => next (DRunOut fin n c)
          | DChk => if v =? sum then (DMagic, 0, cn + 1, rout, DsEnd) else bad
          | _ => bad
          end
      end
    end
  end.

Definition toy_dec_step (st : tdst) (inp : list N) (cap : nat) (fl : flush) : lres tdst :=
  let ib := lim (d_maxin st) (length inp) in
  let ob := lim (d_maxout st) cap in
  match dec_loop (2 * (length inp + cap) + 4) (d_ph st) (d_sum st) inp ib ob 0 [] with
  | (ph, sum, cn, rout, stop) =>
    let out := rev_append rout [] in
    let mid' := d_mid st || (0 <? cn) in
    match stop with
    | DsErr => mkL cn out LErr (mkTD ph sum mid' (d_maxin st) (d_maxout st) (d_finbuf st))
    | DsEnd => mkL cn out LEnd (mkTD ph sum mid' (d_maxin st) (d_maxout st) (d_finbuf st))
    | DsMore =>
      let progress := (0 <? cn) || negb (nilb out) in
      let stat := if negb progress || (d_finbuf st && is_full fl) then LBuf else LOk in
      mkL cn out stat (mkTD ph sum mid' (d_maxin st) (d_maxout st) (d_finbuf st))
    end
  end.

Definition toy_dec_reset (st : tdst) : tdst :=
  mkTD DMagic 0 false (d_maxin st) (d_maxout st) (d_finbuf st).

Definition toy_dec_init (maxin maxout : nat) (finbuf : bool) : tdst :=
  mkTD DMagic 0 false maxin maxout finbuf.

Definition toy_dec : codec tdst := mkCodec toy_dec_step toy_dec_reset d_mid.

(* ------------------------------ encoder ------------------------------ *)

Record test := mkTE {
  e_ibuf : list N;       (* plain bytes collected for the next block *)
  e_pend : list N;       (* encoded bytes not yet handed out *)
  e_sum : nat;
  e_started : bool;      (* magic already queued *)
  e_ending : bool;       (* end marker already queued *)
  e_mid : bool;
  e_blk : nat;           (* block size, 1..255 *)
  e_maxin : nat; e_maxout : nat; e_greedy : bool; e_finrun : bool
}.

Definition all_same (l : list N) : option N :=
  match l with
  | [] => None
  | b :: r => if forallb (N.eqb b) r then Some b else None
  end.

Fixpoint sum256 (s : nat) (l : list N) : nat :=
  match l with [] => s | b :: r => sum256 (add256 s b) r end.

(* encode the collected block; [last] = this is the last block of the member and
   the final-run ending is enabled *)
Definition enc_block (ibuf : list N) (last : bool) : list N * bool :=
  match all_same ibuf with
  | Some b =>
    if (2 <=? length ibuf) then
      if last then ([3%N; byte_of_nat (length ibuf); 0%N; b], true)
      else ([2%N; byte_of_nat (length ibuf); 0%N; b], false)
    else (1%N :: byte_of_nat (length ibuf) :: ibuf, false)
  | None => (1%N :: byte_of_nat (length ibuf) :: ibuf, false)
  end.

Definition magic_if (started : bool) : list N := if started then [] else [167%N].

Inductive estop := EsMore | EsEnd.

(* one call; [rout] reversed output.  Per iteration:
     ending and nothing pending           -> member finished
     input-side action (if not ending):   block  (ibuf full, or FULL flush with no input left and ibuf non-empty)
                                          take   (ibuf not full, a byte may be consumed)
                                          endmark(FULL flush, no input left, ibuf empty)
     greedy:     input-side action if there is one, else emit if possible, else stop
     not greedy: pending output first (stop if there is no room), else input-side action, else stop *)
Inductive eact := ABlock (last : bool) | ATake | AEndmark | ANone.

Definition enc_action (st : test) (inp : list N) (ib : nat) (fl : flush) : eact :=
  if e_ending st then ANone
  else if negb (length (e_ibuf st) <? e_blk st) then ABlock (is_full fl && nilb inp)
  else match inp with
       | _ :: _ => if ib =? 0 then ANone else ATake
       | [] => if is_full fl then (if nilb (e_ibuf st) then AEndmark else ABlock true) else ANone
       end.

Fixpoint enc_loop (fuel : nat) (st : test) (inp : list N) (ib ob cn : nat) (rout : list N) (fl : flush)
  : test * nat * list N * estop :=
  match fuel with
  | O => (st, cn, rout, EsMore)
  | S f =>
    let upd ibuf pend sum started ending mid :=
        mkTE ibuf pend sum started ending mid (e_blk st) (e_maxin st) (e_maxout st) (e_greedy st) (e_finrun st) in
    let emit (_ : unit) :=
        let m := Nat.min (length (e_pend st)) ob in
        enc_loop f (upd (e_ibuf st) (skipn m (e_pend st)) (e_sum st) (e_started st) (e_ending st) (e_mid st))
                 inp ib (ob - m) cn (rev_append (firstn m (e_pend st)) rout) fl in
    let act (a : eact) :=
        match a with
        | ABlock last =>
          let '(enc, ended) := enc_block (e_ibuf st) (last && e_finrun st) in
          enc_loop f (upd [] (e_pend st ++ magic_if (e_started st) ++ enc) (sum256 (e_sum st) (e_ibuf st))
                          true ended (e_mid st))
                   inp ib ob cn rout fl
        | ATake =>
          match inp with
          | c :: inp' =>
            enc_loop f (upd (e_ibuf st ++ [c]) (e_pend st) (e_sum st) (e_started st) (e_ending st) true)
                     inp' (ib - 1) ob (cn + 1) rout fl
          | [] => (st, cn, rout, EsMore)
          end
        | AEndmark =>
          enc_loop f (upd [] (e_pend st ++ magic_if (e_started st) ++ [0%N; byte_of_nat (e_sum st)])
                          (e_sum st) true true (e_mid st))
                   inp ib ob cn rout fl
        | ANone => (st, cn, rout, EsMore)
        end in
    let a := enc_action st inp ib fl in
    let has_act := match a with ANone => false | _ => true end in
    let pending := negb (nilb (e_pend st)) in
    if e_ending st && negb pending then
      (upd [] [] 0 false false false, cn, rout, EsEnd)
    else if e_greedy st then
      if has_act then act a
      else if pending && negb (ob =? 0) then emit tt
      else (st, cn, rout, EsMore)
    else
      if pending then (if ob =? 0 then (st, cn, rout, EsMore) else emit tt)
      else act a
  end.

Definition toy_enc_step (st : test) (inp : list N) (cap : nat) (fl : flush) : lres test :=
  let ib := lim (e_maxin st) (length inp) in
  let ob := lim (e_maxout st) cap in
  match enc_loop (4 * (length inp + cap + length (e_pend st)) + 16) st inp ib ob 0 [] fl with
  | (st', cn, rout, stop) =>
    let out := rev_append rout [] in
    match stop with
    | EsEnd => mkL cn out LEnd st'
    | EsMore =>
      let progress := (0 <? cn) || negb (nilb out) in
      mkL cn out (if progress then LOk else LBuf) st'
    end
  end.

Definition toy_enc_init (blk maxin maxout : nat) (greedy finrun : bool) : test :=
  mkTE [] [] 0 false false false blk maxin maxout greedy finrun.

Definition toy_enc_reset (st : test) : test :=
  toy_enc_init (e_blk st) (e_maxin st) (e_maxout st) (e_greedy st) (e_finrun st).

Definition toy_enc : codec test := mkCodec toy_enc_step toy_enc_reset e_mid.

(* the same library seen through the bzip2 API: there is no "no progress" code *)
Definition bzify S (C : codec S) : codec S :=
  mkCodec (fun st inp cap fl =>
             let r := c_step C st inp cap fl in
             mkL (l_cons r) (l_out r) (match l_stat r with LBuf => LOk | s => s end) (l_st r))
          (c_reset C) (c_mid C).

(* BZ2_bzDecompress and ZSTD_decompressStream take no flush argument *)
Definition noflush S (C : codec S) : codec S :=
  mkCodec (fun st inp cap _ => c_step C st inp cap FlushNone) (c_reset C) (c_mid C).

(* ------------------------- reference decoder -------------------------- *)
(* one-shot decoder of a whole member sequence (the specification the toy
   decoder is checked against in the Examples and by the tie): None = not a
   sequence of complete members *)
Fixpoint ref_items (fuel : nat) (z : list N) (sum : nat) (racc : list N) : option (list N * list N) :=
  match fuel with
  | O => None
  | S f =>
    match z with
    | 0%N :: chk :: r => if nat_of_byte chk =? sum then Some (rev_append racc [], r) else None
    | 1%N :: n :: r =>
      let k := nat_of_byte n in
      if (k =? 0) || (length r <? k) then None
      else ref_items f (skipn k r) (sum256 sum (firstn k r)) (rev_append (firstn k r) racc)
    | 2%N :: lo :: hi :: b :: r =>
      let k := nat_of_byte lo + 256 * nat_of_byte hi in
      if k =? 0 then None else ref_items f r (run_sum sum k b) (repeat b k ++ racc)
    | 3%N :: lo :: hi :: b :: r =>
      let k := nat_of_byte lo + 256 * nat_of_byte hi in
      Some (rev_append (repeat b k ++ racc) [], r)
    | _ => None
    end
  end.

Definition ref_member (z : list N) : option (list N * list N) :=
  match z with
  | 167%N :: r => ref_items (length z) r 0 []
  | _ => None
  end.

Fixpoint ref_decode_all (fuel : nat) (z : list N) : option (list N) :=
  match fuel with
  | O => None
  | S f =>
    match z with
    | [] => Some []
    | _ => match ref_member z with
           | None => None
           | Some (p, r) => match ref_decode_all f r with
                            | None => None
                            | Some q => Some (p ++ q)
                            end
           end
    end
  end.
