(* C07 (4) — the xattr map file reader as a whole: bin/gensquashfs/src/filemap_xattr.c
     xattr_open_map_file   the line loop
     parse_file_name       "# file: <path>" (strdup, calloc, canonicalize_name, link, the free path)
     parse_xattr           "key=value" (decode, sqfs_xattr_create, free(value), link)
     xattr_close_map_file  the release walk (also the error path of xattr_open_map_file)
     xattr_apply_map_file  lookup of a node path (strcmp after stripping one leading slash)
   lib/util/src/get_line.c istream_get_line (flags LTRIM | RTRIM | SKIP_EMPTY as filemap_xattr.c passes them:
     the window loop over get_buffered_data / advance_buffer, realloc + memcpy of every window, the '\r' cut,
     trim_flags, the skip of empty lines with its line counter, the final shrinking realloc, the EOF paths)
   lib/sqfs/src/xattr/xattr.c sqfs_xattr_create (one block holding key and value), sqfs_xattr_list_free.
   The value decoder (decode / hex_decode / base64_decode, all buffer arithmetic through checked accessors) is
   TextModel.xattr_decode; ltrim / rtrim / strlen / strchr / strncmp are the TextModel functions on the line block.

   OWNERSHIP.  Every malloc / calloc / strdup / realloc of this code takes an id from the resource list [rtab]
   (ids are never reused); free(p) of an id that is not in the list answers [Crash] (double free / free of a
   dangling pointer); every dereference of a block or struct first checks that its id is in the list
   ([r_use]: use after free is [Crash]); what is still in the list when the function returns has not been
   released (a leak is a visible outcome).  The contents of a block travel with its id ([blk]); the structs are
   records that carry their own id and the ids of what they point to; the two linked lists (map->patterns,
   pattern->entries) are Coq lists in the order of the C lists (head first), as in HardLinkModel.v.
   [link_first] = true is the code BEFORE fix F23 (props/C07/fixes/F23-xattr-map-uaf.patch): the pattern was put
   into map->patterns before canonicalize_name had accepted the path, and freed on refusal while still linked.
   It is kept for xattr_double_free_refuted only.

   Not modelled: allocation failure (every allocation succeeds; C13 covers the fault paths of libsquashfs),
   read errors of the stream (the stream is the list of bytes still to come; get_buffered_data hands out a
   non-empty window of it whose size is chosen by the oracle [win] -- the theorems hold for every oracle).
   Definitions only; proofs are in XattrFileProofs.v / XattrFileCodec.v / XattrFileApply.v. *)
From Coq Require Import List NArith ZArith Bool Arith.
From SqfsV Require Import C07.Res C07.GenC07 C07.NumModel C07.TextModel C18.CanonModel.
Import ListNotations.
Local Open Scope N_scope.

(* ------------------------------------------------------------------ *)
(* the resource list                                                   *)
(* ------------------------------------------------------------------ *)
Record rtab := mkR { r_next : nat; r_live : list nat }.

Definition r_empty : rtab := mkR 0 [].

Definition is_live (t : rtab) (a : nat) : bool := existsb (Nat.eqb a) (r_live t).

(* malloc / calloc / strdup: a fresh id *)
Definition r_alloc (t : rtab) : rtab * nat := (mkR (S (r_next t)) (r_next t :: r_live t), r_next t).

(* a dereference of the object with id a *)
Definition r_use (t : rtab) (a : nat) : res unit := if is_live t a then Ok tt else Crash.

(* free(p), p != NULL *)
Definition r_free (t : rtab) (a : nat) : res rtab :=
  if is_live t a then Ok (mkR (r_next t) (remove Nat.eq_dec a (r_live t))) else Crash.

(* a byte block: its id and its contents (exactly the allocated bytes) *)
Record blk := mkBlk { b_id : nat; b_data : list N }.

(* sqfs_xattr_t: ONE calloc'ed block holding the struct, the key and the value *)
Record xent := mkEnt { e_id : nat; e_key : list N; e_val : list N }.

(* struct XattrMapPattern: path (NULL until assigned), entries (head first); next = the rest of the list *)
Record xpat := mkPat { p_id : nat; p_path : option blk; p_ents : list xent }.

(* struct XattrMap: patterns, head first *)
Record xmap := mkMap { m_id : nat; m_pats : list xpat }.

(* free(p) with p possibly NULL *)
Definition free_opt (t : rtab) (o : option blk) : res rtab :=
  match o with None => Ok t | Some b => r_free t (b_id b) end.

(* ------------------------------------------------------------------ *)
(* istream_get_line(strm, &line, &line_num, LTRIM | RTRIM | SKIP_EMPTY)  *)
(* ------------------------------------------------------------------ *)
(* "for (i = 0; i < avail; ++i) if (ptr[i] == '\n') break;"  ->  (i, i < avail); the window is the list *)
Fixpoint scan_nl (w : list N) : nat * bool :=
  match w with
  | [] => (O, false)
  | c :: r => if c =? 10 then (O, true) else let (i, f) := scan_nl r in (S i, f)
  end.

(* the window get_buffered_data hands out: at least one byte, at most what is left *)
Definition window (win : list N -> nat) (s : list N) : list N := firstn (Nat.max 1 (win s)) s.

(* realloc(p, n): the old block (if any) is released, a new one of n bytes holds the old contents up to n *)
Definition resize (d : list N) (n : nat) : list N := firstn n d ++ repeat 0 (n - length d).

Definition m_realloc (t : rtab) (line : option blk) (n : N) : res (rtab * blk) :=
  match line with
  | None => let (t1, a) := r_alloc t in Ok (t1, mkBlk a (repeat 0 (N.to_nat n)))
  | Some b =>
    do t1 <- r_free t (b_id b);
    let (t2, a) := r_alloc t1 in Ok (t2, mkBlk a (resize (b_data b) (N.to_nat n)))
  end.

(* memcpy(m + off, src, |src|): the destination range must lie inside the block *)
Definition bwrite (m : list N) (off : N) (src : list N) : res (list N) :=
  if off + N.of_nat (length src) <=? N.of_nat (length m)
  then Ok (firstn (N.to_nat off) m ++ src ++ skipn (N.to_nat off + length src) m)
  else Crash.

(* trim_flags(buffer, LTRIM | RTRIM): ltrim; rtrim; return strlen(buffer) *)
Definition trim_flags (m : list N) : res (list N * N) :=
  do m1 <- ltrim m 0; do m2 <- rtrim m1 0; do l <- strlen_at m2 0; Ok (m2, l).

Inductive gl_out :=
| GL_line (b : blk)     (* return 0, *out = line *)
| GL_eof.               (* return 1, *out = NULL *)

(* behind the for(;;): "new = realloc(line, line_len + 1); if (new != NULL) line = new; *out = line; return 0" *)
Definition gl_finish (t : rtab) (b : blk) (l : N) (s : list N) (line_num : N)
  : res (rtab * gl_out * list N * N) :=
  do r <- m_realloc t (Some b) (l + 1);
  let (t1, b1) := r in Ok (t1, GL_line b1, s, line_num).

(* the for(;;) of istream_get_line; s = the bytes the stream still holds; result: resources, outcome,
   the stream behind the line, *line_num *)
Fixpoint get_line_go (fuel : nat) (win : list N -> nat) (t : rtab) (s : list N)
    (line : option blk) (line_len : N) (line_num : N) : res (rtab * gl_out * list N * N) :=
  match fuel with
  | O => OutOfFuel
  | S f =>
    match s with
    | [] =>                                   (* get_buffered_data: err > 0 *)
      if line_len =? 0 then                   (* goto out_eof: free(line); return 1 *)
        do t1 <- free_opt t line; Ok (t1, GL_eof, [], line_num)
      else
        match line with
        | None => Crash                       (* trim_flags(NULL, ...) *)
        | Some b =>
          do _ <- r_use t (b_id b);
          do r <- trim_flags (b_data b);
          let (m, l) := r in
          if 0 <? l then gl_finish t (mkBlk (b_id b) m) l [] line_num
          else do t1 <- r_free t (b_id b); Ok (t1, GL_eof, [], line_num)
        end
    | _ :: _ =>
      let w := window win s in
      let (count, have_line) := scan_nl w in
      let adv := if have_line then S count else count in          (* "count = i++" / "count = i" *)
      do r <- m_realloc t line (line_len + N.of_nat count + 1);
      let (t1, b1) := r in
      do m1 <- bwrite (b_data b1) line_len (firstn count w);       (* memcpy(line + line_len, ptr, count) *)
      let len1 := line_len + N.of_nat count in
      do m2 <- bset m1 len1 0;                                     (* line[line_len] = '\0' *)
      let s1 := skipn adv s in                                     (* advance_buffer(strm, i) *)
      if have_line then
        do r2 <- (if 0 <? len1 then
                    do c <- bget m2 (len1 - 1);
                    if c =? 13 then do m3 <- bset m2 (len1 - 1) 0; Ok m3 else Ok m2
                  else Ok m2);
        do r3 <- trim_flags r2;
        let (m4, l) := r3 in
        if 0 <? l then gl_finish t1 (mkBlk (b_id b1) m4) l s1 line_num
        else
          do t2 <- r_free t1 (b_id b1);                            (* free(line); line = NULL; *line_num += 1 *)
          get_line_go f win t2 s1 None l (line_num + 1)
      else get_line_go f win t1 s1 (Some (mkBlk (b_id b1) m2)) len1 line_num
    end
  end.

Definition get_line (win : list N -> nat) (t : rtab) (s : list N) (line_num : N) :=
  get_line_go (S (length s)) win t s None 0 line_num.

(* ------------------------------------------------------------------ *)
(* filemap_xattr.c                                                     *)
(* ------------------------------------------------------------------ *)
Definition e_nofile : N := 221.      (* "no file specified yet" *)
Definition e_badpath : N := 222.     (* "invalid absolute path" *)
Definition e_notkv : N := 223.       (* "not a key-value pair" *)

(* the block canonicalize_name leaves behind on success: the result, its NUL, and whatever lay behind it
   (those bytes are never looked at: every later access is a C string access) *)
Definition canon_block (old r : list N) : list N := r ++ [0] ++ skipn (S (length r)) old.

(* parse_file_name(filename, line_num, line, map); the result carries "return 0" (None) / "return -1" (Some e) *)
Definition parse_file_name (link_first : bool) (t : rtab) (m : list N) (map : xmap)
  : res (rtab * xmap * option N) :=
  do nm <- cstr_at m 8;                                   (* strdup(line + strlen(NEW_FILE_START)) *)
  let (t1, fid) := r_alloc t in
  let fn := mkBlk fid (nm ++ [0]) in
  let (t2, pid) := r_alloc t1 in                           (* calloc(1, sizeof(struct XattrMapPattern)) *)
  do _ <- r_use t2 (m_id map);
  let map1 := if link_first                                (* before F23: linked here *)
              then mkMap (m_id map) (mkPat pid None [] :: m_pats map) else map in
  do _ <- r_use t2 fid;
  do name <- cstr_at (b_data fn) 0;
  match canon_result name with                             (* canonicalize_name(file_name) *)
  | None =>
    do t3 <- r_free t2 pid;                                (* free(current_file) *)
    do t4 <- r_free t3 fid;                                (* free(file_name) *)
    Ok (t4, map1, Some e_badpath)
  | Some r =>
    do _ <- r_use t2 pid;                                  (* current_file->next = ..., ->path = file_name *)
    let pat := mkPat pid (Some (mkBlk fid (canon_block (b_data fn) r))) [] in
    Ok (t2, mkMap (m_id map) (pat :: m_pats map), None)
  end.

(* decode(filename, line_num, value, &size): one allocation (strdup("") / calloc(1, size + 1)) in each of the
   branches; "goto fail_encode" frees it.  vs = the bytes of the line block from value_start on *)
Definition decode_alloc (t : rtab) (vs : list N) : res (rtab * option blk) :=
  let (t1, a) := r_alloc t in
  match xattr_decode vs with
  | Ok v => Ok (t1, Some (mkBlk a v))
  | Err _ => do t2 <- r_free t1 a; Ok (t2, None)
  | Crash => Crash
  | OutOfFuel => OutOfFuel
  end.

(* parse_xattr(filename, line_num, key_start = line, value_start = line + p + 1, map); m already holds
   the NUL at p *)
Definition parse_xattr (t : rtab) (m : list N) (p : N) (map : xmap) : res (rtab * xmap * option N) :=
  do _ <- r_use t (m_id map);                              (* current_pattern = map->patterns *)
  match m_pats map with
  | [] => Ok (t, map, Some e_nofile)
  | cur :: rest =>
    do vs <- bfrom m (p + 1);
    do r <- decode_alloc t vs;                             (* len = strlen(value_start); value = decode(...) *)
    let (t1, ov) := r in
    match ov with
    | None => Ok (t1, map, Some e_encoding)
    | Some vb =>
      do key <- cstr_at m 0;                               (* sqfs_xattr_create(key_start, value, len) *)
      do _ <- r_use t1 (b_id vb);
      let (t2, eid) := r_alloc t1 in
      do t3 <- r_free t2 (b_id vb);                        (* free(value) *)
      do _ <- r_use t3 (p_id cur);                         (* current_entry->next = current_pattern->entries; ... *)
      let cur1 := mkPat (p_id cur) (p_path cur) (mkEnt eid key (b_data vb) :: p_ents cur) in
      Ok (t3, mkMap (m_id map) (cur1 :: rest), None)
    end
  end.

(* the body of the for(;;) of xattr_open_map_file between istream_get_line and "free(line)" *)
Definition xattr_step (link_first : bool) (t : rtab) (lb : blk) (map : xmap) : res (rtab * xmap * option N) :=
  do _ <- r_use t (b_id lb);
  let m := b_data lb in
  do isnew <- strncmp_eq k_newfile m 0;
  if isnew then parse_file_name link_first t m map
  else
    do s <- bfrom m 0;
    do e <- strchr_go s 61 0;
    match e with
    | Some p => do m1 <- bset m p 0; parse_xattr t m1 p map      (* *(p++) = '\0' *)
    | None =>
      do c0 <- bget m 0;
      if c0 =? 35 then Ok (t, map, None) else Ok (t, map, Some e_notkv)
    end.

(* sqfs_xattr_list_free *)
Fixpoint free_ents (t : rtab) (es : list xent) : res rtab :=
  match es with
  | [] => Ok t
  | e :: r => do t1 <- r_free t (e_id e); free_ents t1 r      (* old = list; list = list->next; free(old) *)
  end.

(* the while loop of xattr_close_map_file *)
Fixpoint close_pats (t : rtab) (ps : list xpat) : res rtab :=
  match ps with
  | [] => Ok t
  | p :: r =>
    do _ <- r_use t (p_id p);                 (* file->next, file->entries, file->path are read *)
    do t1 <- free_ents t (p_ents p);
    do t2 <- free_opt t1 (p_path p);          (* free(file->path) *)
    do t3 <- r_free t2 (p_id p);              (* free(file) *)
    close_pats t3 r
  end.

Definition xattr_close_map_file (t : rtab) (map : xmap) : res rtab :=
  do _ <- r_use t (m_id map);
  do t1 <- close_pats t (m_pats map);
  r_free t1 (m_id map).

Inductive xopen :=
| X_map (t : rtab) (map : xmap)              (* return map *)
| X_refused (t : rtab) (e : N) (line : N).   (* diagnostic, return NULL *)

(* the for(;;) of xattr_open_map_file; file = the id of the sqfs_istream_t *)
Fixpoint open_loop (fuel : nat) (link_first : bool) (win : list N -> nat) (t : rtab) (file : nat)
    (s : list N) (map : xmap) (line_num : N) : res xopen :=
  match fuel with
  | O => OutOfFuel
  | S f =>
    do _ <- r_use t file;
    do r <- get_line win t s line_num;
    match r with
    | (t1, GL_eof, _, _) =>
      do t2 <- r_free t1 file;                               (* sqfs_drop(file) *)
      Ok (X_map t2 map)
    | (t1, GL_line lb, s1, ln1) =>
      do r2 <- xattr_step link_first t1 lb map;
      let '(t2, map2, ret) := r2 in
      do t3 <- r_free t2 (b_id lb);                          (* ++line_num; free(line) *)
      match ret with
      | Some e =>
        do t4 <- xattr_close_map_file t3 map2;               (* fail: xattr_close_map_file(map) *)
        do t5 <- r_free t4 file;                             (* fail_close: sqfs_drop(file) *)
        Ok (X_refused t5 e ln1)
      | None => open_loop f link_first win t3 file s1 map2 (ln1 + 1)
      end
    end
  end.

(* xattr_open_map_file(path) on a file with the contents s *)
Definition xattr_open_gen (link_first : bool) (win : list N -> nat) (s : list N) : res xopen :=
  let (t0, file) := r_alloc r_empty in                       (* sqfs_istream_open_file *)
  let (t1, mid) := r_alloc t0 in                             (* calloc(1, sizeof(struct XattrMap)) *)
  open_loop (S (length s)) link_first win t1 file s (mkMap mid []) 1.

Definition xattr_open_map_file := xattr_open_gen false.
Definition xattr_open_map_file_old := xattr_open_gen true.     (* the code before F23 *)

(* the verdict alone: Ok map / Err e *)
Definition xattr_open_verdict (win : list N -> nat) (s : list N) : res xmap :=
  do r <- xattr_open_map_file win s;
  match r with X_map _ map => Ok map | X_refused _ e _ => Err e end.

(* open, then (on success) close: what a run of gensquashfs does with the file; the resource list at the end *)
Definition xattr_open_close (link_first : bool) (win : list N -> nat) (s : list N) : res rtab :=
  do r <- xattr_open_gen link_first win s;
  match r with
  | X_map t map => xattr_close_map_file t map
  | X_refused t _ _ => Ok t
  end.

(* the payload of a map, in the order of the C lists: (path, [(key, value)]) *)
Definition ent_payload (e : xent) : list N * list N := (e_key e, e_val e).
Definition pat_path (p : xpat) : res (list N) :=
  match p_path p with None => Crash | Some b => cstr_at (b_data b) 0 end.

(* ------------------------------------------------------------------ *)
(* xattr_apply_map_file(path, map, xwr)                                *)
(* ------------------------------------------------------------------ *)
(* sqfs_xattr_writer_add is outside this model: [add] is its effect on the writer and its return value *)
Section Apply.
  Variable W : Type.
  Variable add : W -> list N -> list N -> W * Z.

  (* "for (entry = pat->entries; ...) { ret = sqfs_xattr_writer_add(xwr, entry); if (ret < 0) return ret; }" *)
  Fixpoint apply_ents (t : rtab) (w : W) (ret : Z) (es : list xent) : res (W * Z * bool) :=
    match es with
    | [] => Ok (w, ret, false)
    | e :: r =>
      do _ <- r_use t (e_id e);
      let (w1, ret1) := add w (e_key e) (e_val e) in
      if (ret1 <? 0)%Z then Ok (w1, ret1, true) else apply_ents t w1 ret1 r
    end.

  (* pathz = the node path with its NUL *)
  Fixpoint apply_pats (t : rtab) (w : W) (ret : Z) (pathz : list N) (ps : list xpat) : res (W * Z) :=
    match ps with
    | [] => Ok (w, ret)
    | p :: r =>
      do _ <- r_use t (p_id p);
      match p_path p with
      | None => Crash                                       (* patstr[0] with patstr == NULL *)
      | Some pb =>
        do _ <- r_use t (b_id pb);
        do c0 <- bget (b_data pb) 0;
        do s0 <- bget pathz 0;
        let off := if negb (c0 =? 47) && (s0 =? 47) then 1 else 0 in    (* stripped++ *)
        do patstr <- cstr_at (b_data pb) 0;
        do stripped <- cstr_at pathz off;
        if bytes_eqb patstr stripped then                   (* strcmp(patstr, stripped) == 0 *)
          do x <- apply_ents t w ret (p_ents p);
          let '(w1, ret1, stop) := x in
          if stop then Ok (w1, ret1) else apply_pats t w1 ret1 pathz r
        else apply_pats t w ret pathz r
      end
    end.

  Definition xattr_apply_map_file (t : rtab) (w : W) (pathz : list N) (map : xmap) : res (W * Z) :=
    do _ <- r_use t (m_id map);
    apply_pats t w 0%Z pathz (m_pats map).
End Apply.

(* ------------------------------------------------------------------ *)
(* the encoders getfattr --dump uses (attr: tools/getfattr.c encode)   *)
(* ------------------------------------------------------------------ *)
Definition hex_char (d : N) : N := if d <? 10 then 48 + d else 97 + (d - 10).
Fixpoint hex_body (v : list N) : list N :=
  match v with [] => [] | b :: r => hex_char (b / 16) :: hex_char (b mod 16) :: hex_body r end.
Definition hex_enc (v : list N) : list N := [48; 120] ++ hex_body v.                      (* 0x... *)

Definition b64_char (d : N) : N :=
  if d <? 26 then 65 + d else if d <? 52 then 97 + (d - 26) else if d <? 62 then 48 + (d - 52)
  else if d =? 62 then 43 else 47.
Fixpoint b64_body (v : list N) : list N :=
  match v with
  | [] => []
  | [a] => [b64_char (a / 4); b64_char ((a mod 4) * 16); 61; 61]
  | [a; b] => [b64_char (a / 4); b64_char ((a mod 4) * 16 + b / 16); b64_char ((b mod 16) * 4); 61]
  | a :: b :: c :: r =>
    b64_char (a / 4) :: b64_char ((a mod 4) * 16 + b / 16) :: b64_char ((b mod 16) * 4 + c / 64)
      :: b64_char (c mod 64) :: b64_body r
  end.
Definition b64_enc (v : list N) : list N := [48; 115] ++ b64_body v.                      (* 0s... *)

(* text: backslash and quote are escaped; the bytes [oct] selects (getfattr: NUL, '\n', '\r') become
   a backslash and three octal digits *)
Definition text_byte (oct : N -> bool) (b : N) : list N :=
  if (b =? 92) || (b =? 34) then [92; b]
  else if oct b then [92; 48 + b / 64; 48 + (b / 8) mod 8; 48 + b mod 8]
  else [b].
Definition text_enc (oct : N -> bool) (v : list N) : list N :=
  [34] ++ flat_map (text_byte oct) v ++ [34].
