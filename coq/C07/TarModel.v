(* C07 (2) — the tar reader with bounds accounting:
     lib/tar/src/read_header.c         read_header, decode_header, check_version, is_checksum_valid
     lib/tar/src/pax_header.c          read_pax_header and its handlers (REPAIRED: F22, see below)
     lib/tar/src/record_to_memory.c    record_to_memory
     lib/tar/src/read_sparse_map_old.c read_gnu_old_sparse
     lib/tar/src/read_sparse_map_new.c read_gnu_new_sparse, decode
     lib/tar/src/checksum.c            tar_compute_checksum
   The input stream is the list of bytes still to come; sqfs_istream_read delivers a short block
   only at the end of the stream and sqfs_istream_skip silently stops there (stream_api.c).
   Fixed-size objects: the 512-byte tar_header_t / gnu_old_sparse_record_t (fields cut out with
   the checked [hfield], offsets and sizes from GenC07.v), the PAX record buffer of entsize+1
   bytes (indices, [bget]/[bset]), the 1024-byte window of the GNU 1.0 sparse map (the list holds
   exactly the bytes that have been loaded), the xattr object of pax_xattr_libarchive.

   Repairs (all in /repo now) that this model follows:
     F22  a GNU.sparse.map record resets sparse_last (before: use after free)
     F24  mtime with the sign bit set is converted without negating INT64_MIN (before: UB)
     379955f  a partial header record is an error; only a read of 0 bytes is the end of the archive
   Not modelled: devno (major/minor packing), uname/gname (unused by the C code). *)
From Coq Require Import List NArith ZArith Bool.
From Coq Require Ascii String.
From SqfsV Require Import C07.Res C07.GenC07 C07.NumModel.
Import ListNotations.
Import String.StringSyntax.
Local Open Scope N_scope.

Fixpoint bytes_of (s : String.string) : list N :=
  match s with
  | String.EmptyString => []
  | String.String a r => Ascii.N_of_ascii a :: bytes_of r
  end.
Arguments bytes_of s%string_scope.

(* error tags *)
Definition e_magic : N := 120.
Definition e_chksum : N := 121.
Definition e_len : N := 122.        (* GNU long name / link / PAX size outside 1..limit *)
Definition e_eof : N := 123.        (* record cut short *)
Definition e_pax : N := 124.        (* malformed PAX header *)
Definition e_pax_ov : N := 125.
Definition e_sparse : N := 126.

(* ------------------------------------------------------------------ *)
(* stream                                                              *)
(* ------------------------------------------------------------------ *)
Definition sread (n : N) (s : list N) : list N * list N :=
  (firstn (N.to_nat n) s, skipn (N.to_nat n) s).

Definition sskip (n : N) (s : list N) : list N :=
  if N.of_nat (length s) <=? n then [] else skipn (N.to_nat n) s.

Definition blen (l : list N) : N := N.of_nat (length l).

(* record_to_memory(fp, size): size+1 bytes, NUL at the end; the padding is skipped *)
Definition record_to_memory (s : list N) (size : N) : res (list N * list N) :=
  let (d, s1) := sread size s in
  if blen d <? size then Err e_eof else
  let s2 := if size mod 512 =? 0 then s1 else sskip (512 - size mod 512) s1 in
  Ok (d ++ [0], s2).

(* ------------------------------------------------------------------ *)
(* header fields                                                       *)
(* ------------------------------------------------------------------ *)
Definition hfield (h : list N) (off len : N) : res (list N) :=
  if off + len <=? blen h then Ok (firstn (N.to_nat len) (skipn (N.to_nat off) h)) else Crash.

(* strnlen / strndup on a field *)
Fixpoint strn (f : list N) : list N :=
  match f with
  | [] => []
  | c :: r => if c =? 0 then [] else c :: strn r
  end.

Fixpoint sum_bytes (l : list N) : N :=
  match l with [] => 0 | c :: r => c + sum_bytes r end.

Fixpoint all_zero (l : list N) : bool :=
  match l with [] => true | c :: r => (c =? 0) && all_zero r end.

Definition compute_checksum (h : list N) : res N :=
  do ck <- hfield h hoff_chksum hlen_chksum;
  Ok (sum_bytes h - sum_bytes ck + 32 * hlen_chksum).

Definition checksum_valid (h : list N) : res bool :=
  do ck <- hfield h hoff_chksum hlen_chksum;
  match read_number ck with
  | Ok v => do c <- compute_checksum h; Ok (v =? c)
  | Err _ => Ok false
  | Crash => Crash
  | OutOfFuel => OutOfFuel
  end.

Inductive tver := V_UNKNOWN | V_V7 | V_PRE_POSIX | V_POSIX.

Definition check_version (h : list N) : res tver :=
  do mg <- hfield h hoff_magic hlen_magic;
  do vs <- hfield h hoff_version hlen_version;
  if all_zero mg && all_zero vs then Ok V_V7
  else if bytes_eqb mg (bytes_of "ustar" ++ [0]) && bytes_eqb vs (bytes_of "00") then Ok V_POSIX
  else if bytes_eqb mg (bytes_of "ustar ") && bytes_eqb vs [32; 0] then Ok V_PRE_POSIX
  else Ok V_UNKNOWN.

(* ------------------------------------------------------------------ *)
(* decoded header                                                      *)
(* ------------------------------------------------------------------ *)
Record thdr := mkHdr {
  h_name : option (list N);
  h_link : option (list N);
  h_sparse : list (N * N);
  h_actual : N;
  h_record : N;
  h_unknown : bool;
  h_hard : bool;
  h_xattr : list (list N * list N);   (* head = most recently added *)
  h_mode : N;
  h_uid : N;
  h_gid : N;
  h_mtime : Z
}.

Definition hdr0 : thdr := mkHdr None None [] 0 0 false false [] 0 0 0 0%Z.

Definition set_name h v := mkHdr v (h_link h) (h_sparse h) (h_actual h) (h_record h) (h_unknown h) (h_hard h) (h_xattr h) (h_mode h) (h_uid h) (h_gid h) (h_mtime h).
Definition set_link h v := mkHdr (h_name h) v (h_sparse h) (h_actual h) (h_record h) (h_unknown h) (h_hard h) (h_xattr h) (h_mode h) (h_uid h) (h_gid h) (h_mtime h).
Definition set_sparse h v := mkHdr (h_name h) (h_link h) v (h_actual h) (h_record h) (h_unknown h) (h_hard h) (h_xattr h) (h_mode h) (h_uid h) (h_gid h) (h_mtime h).
Definition set_actual h v := mkHdr (h_name h) (h_link h) (h_sparse h) v (h_record h) (h_unknown h) (h_hard h) (h_xattr h) (h_mode h) (h_uid h) (h_gid h) (h_mtime h).
Definition set_record h v := mkHdr (h_name h) (h_link h) (h_sparse h) (h_actual h) v (h_unknown h) (h_hard h) (h_xattr h) (h_mode h) (h_uid h) (h_gid h) (h_mtime h).
Definition set_xattr h v := mkHdr (h_name h) (h_link h) (h_sparse h) (h_actual h) (h_record h) (h_unknown h) (h_hard h) v (h_mode h) (h_uid h) (h_gid h) (h_mtime h).
Definition set_uid h v := mkHdr (h_name h) (h_link h) (h_sparse h) (h_actual h) (h_record h) (h_unknown h) (h_hard h) (h_xattr h) (h_mode h) v (h_gid h) (h_mtime h).
Definition set_gid h v := mkHdr (h_name h) (h_link h) (h_sparse h) (h_actual h) (h_record h) (h_unknown h) (h_hard h) (h_xattr h) (h_mode h) (h_uid h) v (h_mtime h).
Definition set_mtime h v := mkHdr (h_name h) (h_link h) (h_sparse h) (h_actual h) (h_record h) (h_unknown h) (h_hard h) (h_xattr h) (h_mode h) (h_uid h) (h_gid h) v.
Definition set_type h (mode : N) (unknown hard : bool) := mkHdr (h_name h) (h_link h) (h_sparse h) (h_actual h) (h_record h) unknown hard (h_xattr h) mode (h_uid h) (h_gid h) (h_mtime h).

(* set_by_pax bits (internal.h) *)
Definition PAX_SIZE : N := 1.
Definition PAX_UID : N := 2.
Definition PAX_GID : N := 4.
Definition PAX_DEV_MAJ : N := 8.
Definition PAX_DEV_MIN : N := 16.
Definition PAX_NAME : N := 32.
Definition PAX_SLINK_TARGET : N := 64.
Definition PAX_MTIME : N := 256.
Definition PAX_SPARSE_SIZE : N := 1024.
Definition PAX_SPARSE_GNU_1_X : N := 2048.
Definition has_flag (flags f : N) : bool := negb (N.land flags f =? 0).

(* ------------------------------------------------------------------ *)
(* PAX records                                                         *)
(* ------------------------------------------------------------------ *)
Definition bslice (b : list N) (off len : N) : res (list N) :=
  if off + len <=? blen b then Ok (firstn (N.to_nat len) (skipn (N.to_nat off) b)) else Crash.

(* "while (ptr < end && isspace( *ptr)) ++ptr" : reads only while lim > 0 *)
Fixpoint span_lim (p : N -> bool) (s : list N) (lim : N) : res N :=
  if lim =? 0 then Ok 0 else
  match s with
  | [] => Crash
  | c :: r => if p c then do n <- span_lim p r (lim - 1); Ok (n + 1) else Ok 0
  end.

(* pax_sparse_map: "offset,count[,offset,count]*" *)
Fixpoint smap_go (fuel : nat) (s : list N) (acc : list (N * N)) : res (list (N * N)) :=
  match fuel with
  | O => OutOfFuel
  | S f =>
    do r1 <- parse_uint s size_max false 0 0;
    let (off, d1) := r1 in
    do c <- lget s (N.to_nat d1);
    if negb (c =? 44) then Err e_sparse else
    let s1 := skipn (N.to_nat d1 + 1) s in
    do r2 <- parse_uint s1 size_max false 0 0;
    let (cnt, d2) := r2 in
    match skipn (N.to_nat d2) s1 with
    | [] => Crash
    | c2 :: s3 =>
      if c2 =? 44 then smap_go f s3 (acc ++ [(off, cnt)]) else Ok (acc ++ [(off, cnt)])
    end
  end.

Definition pax_sparse_map (s : list N) : res (list (N * N)) := smap_go (S (length s)) s [].

(* pax_xattr_libarchive on the freshly created xattr object: data = key NUL value NUL *)
Definition xattr_libarchive (key value : list N) : res (list N * list N) :=
  let data := key ++ [0] ++ value ++ [0] in
  let voff := blen key + 1 in
  let vlen := blen value in
  do r <- base64_decode data voff vlen voff vlen;
  let (m1, oc) := r in
  match oc with
  | None => Err e_encoding
  | Some n =>
    do m2 <- urldecode m1 0;
    do m3 <- bset m2 (voff + n) 0;
    do k <- cstr_at m3 0;
    do v <- bslice m3 voff n;
    Ok (k, v)
  end.

Record pax_st := mkPax {
  ps_hdr : thdr;
  ps_flags : N;
  ps_offset : N;        (* the local "offset" of read_pax_header *)
  ps_last : bool        (* sparse_last != NULL *)
}.

Definition k_schily := bytes_of "SCHILY.xattr.".
Definition k_libarchive := bytes_of "LIBARCHIVE.xattr.".

(* find_handler + apply_handler + the two GNU.sparse.{offset,numbytes} branches.
   key: the NUL-terminated key, vs: the suffix of the buffer at value, value/valuelen: for the xattr copy *)
Definition pax_apply (buf : list N) (key vs : list N) (value valuelen : N) (st : pax_st) : res pax_st :=
  let h := ps_hdr st in
  let fl := ps_flags st in
  let with_uint (flag : N) (upd : thdr -> N -> thdr) : res pax_st :=
    match parse_uint vs size_max false 0 0 with
    | Ok (v, _) => Ok (mkPax (upd h v) (N.lor fl flag) (ps_offset st) (ps_last st))
    | Err _ => Err e_pax
    | Crash => Crash
    | OutOfFuel => OutOfFuel
    end in
  let with_str (flag : N) (upd : thdr -> option (list N) -> thdr) : res pax_st :=
    do v <- cstr vs;
    Ok (mkPax (upd h (Some v)) (N.lor fl flag) (ps_offset st) (ps_last st)) in
  if bytes_eqb key (bytes_of "uid") then with_uint PAX_UID set_uid
  else if bytes_eqb key (bytes_of "gid") then with_uint PAX_GID set_gid
  else if bytes_eqb key (bytes_of "path") then with_str PAX_NAME set_name
  else if bytes_eqb key (bytes_of "size") then with_uint PAX_SIZE set_record
  else if bytes_eqb key (bytes_of "linkpath") then with_str PAX_SLINK_TARGET set_link
  else if bytes_eqb key (bytes_of "mtime") then
    match parse_int vs size_max false with
    | Ok (v, _) => Ok (mkPax (set_mtime h v) (N.lor fl PAX_MTIME) (ps_offset st) (ps_last st))
    | Err _ => Err e_pax
    | Crash => Crash
    | OutOfFuel => OutOfFuel
    end
  else if bytes_eqb key (bytes_of "GNU.sparse.name") then with_str PAX_NAME set_name
  else if bytes_eqb key (bytes_of "GNU.sparse.size") then with_uint PAX_SPARSE_SIZE set_actual
  else if bytes_eqb key (bytes_of "GNU.sparse.realsize") then with_uint PAX_SPARSE_SIZE set_actual
  else if bytes_eqb key (bytes_of "GNU.sparse.major") || bytes_eqb key (bytes_of "GNU.sparse.minor") then
    Ok (mkPax h (N.lor fl PAX_SPARSE_GNU_1_X) (ps_offset st) (ps_last st))
  else if is_prefix k_schily key then
    do v <- bslice buf value valuelen;
    Ok (mkPax (set_xattr h ((skipn (length k_schily) key, v) :: h_xattr h)) fl (ps_offset st) (ps_last st))
  else if is_prefix k_libarchive key then
    do v <- bslice buf value valuelen;
    do kv <- xattr_libarchive (skipn (length k_libarchive) key) v;
    Ok (mkPax (set_xattr h (kv :: h_xattr h)) fl (ps_offset st) (ps_last st))
  else if bytes_eqb key (bytes_of "GNU.sparse.map") then
    do l <- pax_sparse_map vs;
    (* F22 repair: sparse_last = NULL *)
    Ok (mkPax (set_sparse h l) fl (ps_offset st) false)
  else if bytes_eqb key (bytes_of "GNU.sparse.offset") then
    match parse_uint vs size_max false 0 0 with
    | Ok (v, _) => Ok (mkPax h fl v (ps_last st))
    | Err _ => Err e_pax
    | Crash => Crash
    | OutOfFuel => OutOfFuel
    end
  else if bytes_eqb key (bytes_of "GNU.sparse.numbytes") then
    match parse_uint vs size_max false 0 0 with
    | Ok (v, _) =>
      let ent := (ps_offset st, v) in
      if ps_last st then Ok (mkPax (set_sparse h (h_sparse h ++ [ent])) fl (ps_offset st) true)
      else Ok (mkPax (set_sparse h [ent]) fl (ps_offset st) true)
    | Err _ => Err e_pax
    | Crash => Crash
    | OutOfFuel => OutOfFuel
    end
  else Ok st.

(* one iteration of "for (line = buffer; line < end; line += len)"; returns buffer, state, len *)
Definition pax_line (buf : list N) (endp line : N) (st : pax_st) : res (list N * pax_st * N) :=
  do s <- bfrom buf line;
  do r <- strtol10 s;
  let (v, consumed) := r in
  if consumed =? 0 then Err e_pax else
  do c <- bget buf (line + consumed);
  if negb (c_isspace c) then Err e_pax else
  if (v <=? 0)%Z then Err e_pax else
  let len := Z.to_N v in
  if endp - line <? len then Err e_pax_ov else
  do buf1 <- bset buf (line + len - 1) 0;
  let ptr0 := line + consumed in
  do s0 <- bfrom buf1 ptr0;
  do nsp <- span_lim c_isspace s0 (endp - ptr0);
  let key := ptr0 + nsp in
  if (endp <=? key) || (len <=? key - line) then Err e_pax else
  do ks <- bfrom buf1 key;
  do klen <- span_count (fun c => negb (c =? 0) && negb (c =? 61)) ks;
  let eq := key + klen in
  do ce <- bget buf1 eq;
  if (klen =? 0) || negb (ce =? 61) then Err e_pax else
  do buf2 <- bset buf1 eq 0;
  let value := eq + 1 in
  do keystr <- cstr_at buf2 key;
  do vs <- bfrom buf2 value;
  let valuelen := len - (value - line) - 1 in
  do st' <- pax_apply buf2 keystr vs value valuelen st;
  Ok (buf2, st', len).

Fixpoint pax_loop (fuel : nat) (buf : list N) (endp line : N) (st : pax_st) : res pax_st :=
  match fuel with
  | O => OutOfFuel
  | S f =>
    if line <? endp then
      do r <- pax_line buf endp line st;
      let '(buf', st', len) := r in
      pax_loop f buf' endp (line + len) st'
    else Ok st
  end.

(* read_pax_header(fp, entsize, &set_by_pax, out) after clear_header / set_by_pax = 0 *)
Definition read_pax_header (s : list N) (entsize : N) : res (thdr * N * list N) :=
  do r <- record_to_memory s entsize;
  let (buf, s1) := r in
  do st <- pax_loop (S (N.to_nat entsize)) buf entsize 0 (mkPax hdr0 0 0 false);
  Ok (ps_hdr st, ps_flags st, s1).

(* ------------------------------------------------------------------ *)
(* old GNU sparse maps                                                 *)
(* ------------------------------------------------------------------ *)
(* parse(in, count, ...): entries and "stopped at a non-digit" *)
Fixpoint old_parse (n : nat) (blk : list N) (off : N) (acc : list (N * N)) : res (list (N * N) * bool) :=
  match n with
  | O => Ok (acc, false)
  | S n' =>
    do fo <- hfield blk (off + soff_offset) slen_offset;
    do fn <- hfield blk (off + soff_numbytes) slen_numbytes;
    do c1 <- lget fo 0;
    do c2 <- lget fn 0;
    if negb (c_isdigit c1) || negb (c_isdigit c2) then Ok (acc, true) else
    do o <- read_number fo;
    do c <- read_number fn;
    old_parse n' blk (off + sizeof_gnu_old_sparse_t) (acc ++ [(o, c)])
  end.

Fixpoint old_ext (fuel : nat) (s : list N) (acc : list (N * N)) : res (list (N * N) * list N) :=
  match fuel with
  | O => OutOfFuel
  | S f =>
    let (blk, s1) := sread sizeof_gnu_old_sparse_record_t s in
    if blen blk <? sizeof_gnu_old_sparse_record_t then Err e_eof else
    do r <- old_parse (N.to_nat gnu_rec_sparse_count) blk 0 acc;
    let (acc', stopped) := r in
    do ext <- bget blk roff_isextended;
    if negb stopped && negb (ext =? 0) then old_ext f s1 acc' else Ok (acc', s1)
  end.

Definition read_gnu_old_sparse (hdr s : list N) : res (list (N * N) * list N) :=
  do r <- old_parse (N.to_nat gnu_hdr_sparse_count) hdr hoff_gnu_sparse [];
  let (l, stopped) := r in
  do ext <- bget hdr hoff_gnu_isextended;
  if stopped || (ext =? 0) then Ok (l, s)
  else old_ext (S (length s)) s l.

(* ------------------------------------------------------------------ *)
(* GNU 1.0 sparse maps: the 1024-byte window                           *)
(* ------------------------------------------------------------------ *)
(* decode(str = win + off, len): value and the int result *)
Fixpoint dec_go (n : nat) (win : list N) (pos : N) (value count : N) : res (option N * N) :=
  (* None = overflow (-1); otherwise value and count of digits *)
  match n with
  | O => Ok (Some value, count)
  | S n' =>
    do c <- bget win pos;
    if c_isdigit c then
      let v1 := value * 10 in
      if u64max <? v1 then Ok (None, count) else
      let v2 := v1 + (c - 48) in
      if u64max <? v2 then Ok (None, count) else
      dec_go n' win (pos + 1) v2 (count + 1)
    else Ok (Some value, count)
  end.

Definition decode (win : list N) (off len : N) : res (N * Z) :=
  do r <- dec_go (N.to_nat len) win off 0 0;
  let (ov, count) := r in
  match ov with
  | None => Ok (0, (-1)%Z)
  | Some value =>
    if (count =? 0) || (count =? len) then Ok (value, 0%Z) else
    do c <- bget win (off + count);
    if c =? 10 then Ok (value, Z.of_N count + 1)%Z else Ok (value, (-1)%Z)
  end.

Record nsp := mkNsp { ns_win : list N; ns_diff : N; ns_rec : N; ns_s : list N }.

(* one iteration of the for loop: the value read *)
Definition new_sparse_step (st : nsp) : res (N * nsp) :=
  (* "512 - diff" is a size_t: with diff > 512 it would wrap and decode would run off the window *)
  if 512 <? ns_diff st then Crash else
  do r <- decode (ns_win st) (ns_diff st) (512 - ns_diff st);
  let (value, ret) := r in
  if (ret <? 0)%Z then Err e_sparse else
  if (0 <? ret)%Z then Ok (value, mkNsp (ns_win st) (ns_diff st + Z.to_N ret) (ns_rec st) (ns_s st)) else
  if ns_rec st <? 512 then Err e_sparse else
  let (blk, s1) := sread 512 (ns_s st) in
  if blen blk <? 512 then Err e_sparse else
  let win2 := ns_win st ++ blk in
  do r2 <- decode win2 (ns_diff st) (1024 - ns_diff st);
  let (value2, ret2) := r2 in
  if (ret2 <=? 0)%Z then Err e_sparse else
  (* memcpy(buffer, buffer + 512, 512); diff = diff + ret - 512 *)
  if ns_diff st + Z.to_N ret2 <? 512 then Crash else
  Ok (value2, mkNsp (skipn 512 win2) (ns_diff st + Z.to_N ret2 - 512) (ns_rec st - 512) s1).

Fixpoint new_sparse_loop (n : nat) (i : N) (st : nsp) (pending : option N) (acc : list (N * N))
  : res (list (N * N) * nsp) :=
  (* acc: the entries read so far, most recent first *)
  match n with
  | O => Ok (rev (match pending with Some o => (o, 0) :: acc | None => acc end), st)
  | S n' =>
    do r <- new_sparse_step st;
    let (value, st') := r in
    match pending with
    | None => new_sparse_loop n' (i + 1) st' (Some value) acc
    | Some o => new_sparse_loop n' (i + 1) st' None ((o, value) :: acc)
    end
  end.

(* read_gnu_new_sparse(fp, out): sparse list, remaining record_size, stream *)
Definition read_gnu_new_sparse (s : list N) (record_size : N) : res (list (N * N) * N * list N) :=
  if record_size <? 512 then Err e_sparse else
  let (blk, s1) := sread 512 s in
  if blen blk <? 512 then Err e_sparse else
  do r <- decode blk 0 512;
  let (count, diff) := r in
  if (diff <=? 0)%Z then Err e_sparse else
  if (count =? 0) || (c_TAR_MAX_SPARSE_ENT <? count) then Err e_sparse else
  do r2 <- new_sparse_loop (N.to_nat (count * 2)) 0 (mkNsp blk (Z.to_N diff) (record_size - 512) s1) None [];
  let (l, st) := r2 in
  Ok (l, ns_rec st, ns_s st).

(* ------------------------------------------------------------------ *)
(* decode_header                                                       *)
(* ------------------------------------------------------------------ *)
Definition num_field (h : list N) (off len : N) : res N :=
  do f <- hfield h off len; read_number f.

Definition S_IFREG : N := 32768.
Definition S_IFLNK : N := 40960.
Definition S_IFCHR : N := 8192.
Definition S_IFBLK : N := 24576.
Definition S_IFDIR : N := 16384.
Definition S_IFIFO : N := 4096.

Definition decode_header (h : list N) (flags : N) (out : thdr) (ver : tver) : res thdr :=
  do typeflag <- bget h hoff_typeflag;
  do out1 <-
    (if has_flag flags PAX_NAME then Ok out else
     do nm <- hfield h hoff_name hlen_name;
     do pfx <- hfield h hoff_prefix hlen_prefix;
     do p0 <- lget pfx 0;
     match ver with
     | V_POSIX => if negb (p0 =? 0) then Ok (set_name out (Some (strn pfx ++ [47] ++ strn nm)))
                  else Ok (set_name out (Some (strn nm)))
     | _ => Ok (set_name out (Some (strn nm)))
     end);
  do out2 <- (if has_flag flags PAX_SIZE then Ok out1 else
              do v <- num_field h hoff_size hlen_size; Ok (set_record out1 v));
  do out3 <- (if has_flag flags PAX_UID then Ok out2 else
              do v <- num_field h hoff_uid hlen_uid; Ok (set_uid out2 v));
  do out4 <- (if has_flag flags PAX_GID then Ok out3 else
              do v <- num_field h hoff_gid hlen_gid; Ok (set_gid out3 v));
  do _x <- (if has_flag flags PAX_DEV_MAJ then Ok 0 else num_field h hoff_devmajor hlen_devmajor);
  do _y <- (if has_flag flags PAX_DEV_MIN then Ok 0 else num_field h hoff_devminor hlen_devminor);
  do out5 <- (if has_flag flags PAX_MTIME then Ok out4 else
              do v <- num_field h hoff_mtime hlen_mtime;
              (* F24 repair: two's complement for every value with the sign bit set *)
              Ok (set_mtime out4 (if 9223372036854775808 <=? v then (Z.of_N v - Z.of_N two64)%Z else Z.of_N v)));
  do md <- num_field h hoff_mode hlen_mode;
  let mode := md mod 4096 in
  do out6 <-
    (if (typeflag =? c_TAR_TYPE_LINK) || (typeflag =? c_TAR_TYPE_SLINK) then
       if has_flag flags PAX_SLINK_TARGET then Ok out5 else
       do ln <- hfield h hoff_linkname hlen_linkname; Ok (set_link out5 (Some (strn ln)))
     else Ok out5);
  if (typeflag =? 0) || (typeflag =? c_TAR_TYPE_FILE) || (typeflag =? c_TAR_TYPE_GNU_SPARSE) then
    Ok (set_type out6 (mode + S_IFREG) false (h_hard out6))
  else if typeflag =? c_TAR_TYPE_LINK then Ok (set_type out6 mode false true)
  else if typeflag =? c_TAR_TYPE_SLINK then Ok (set_type out6 (S_IFLNK + 511) false (h_hard out6))
  else if typeflag =? c_TAR_TYPE_CHARDEV then Ok (set_type out6 (mode + S_IFCHR) false (h_hard out6))
  else if typeflag =? c_TAR_TYPE_BLOCKDEV then Ok (set_type out6 (mode + S_IFBLK) false (h_hard out6))
  else if typeflag =? c_TAR_TYPE_DIR then Ok (set_type out6 (mode + S_IFDIR) false (h_hard out6))
  else if typeflag =? c_TAR_TYPE_FIFO then Ok (set_type out6 (mode + S_IFIFO) false (h_hard out6))
  else Ok (set_type out6 mode true (h_hard out6)).

(* ------------------------------------------------------------------ *)
(* read_header                                                         *)
(* ------------------------------------------------------------------ *)
Inductive rh_result :=
| RH_hdr (h : thdr) (s : list N)
| RH_eof.

Definition round512 (n : N) : N :=
  if n mod 512 =? 0 then n else (n + (512 - n mod 512)) mod two64.

(* the part of read_header behind the for(;;) loop *)
Definition rh_finish (h : list N) (flags : N) (ver : tver) (out : thdr) (s : list N) : res rh_result :=
  do o1 <- decode_header h flags out ver;
  do r <- (if has_flag flags PAX_SPARSE_GNU_1_X then
             do q <- read_gnu_new_sparse s (h_record o1);
             let '(l, rec, s') := q in
             Ok (set_record (set_sparse o1 l) rec, s')
           else Ok (o1, s));
  let (o2, s2) := r in
  let o3 := match h_sparse o2 with [] => set_actual o2 (h_record o2) | _ => o2 end in
  Ok (RH_hdr o3 s2).

Fixpoint rh_loop (fuel : nat) (s : list N) (out : thdr) (flags : N) (prev_zero : bool) : res rh_result :=
  match fuel with
  | O => OutOfFuel
  | S f =>
    let (h, s1) := sread sizeof_tar_header_t s in
    (* sqfs_istream_read returned 0: end of the archive; a partial header record is an error *)
    if blen h =? 0 then Ok RH_eof else
    if blen h <? sizeof_tar_header_t then Err e_eof else
    if all_zero h then (if prev_zero then Ok RH_eof else rh_loop f s1 out flags true) else
    do ver <- check_version h;
    match ver with
    | V_UNKNOWN => Err e_magic
    | _ =>
      do okc <- checksum_valid h;
      if negb okc then Err e_chksum else
      do typeflag <- bget h hoff_typeflag;
      let finish := rh_finish h flags ver in
      if typeflag =? c_TAR_TYPE_GNU_SLINK then
        do sz <- num_field h hoff_size hlen_size;
        if (sz <? 1) || (c_TAR_MAX_SYMLINK_LEN <? sz) then Err e_len else
        do r <- record_to_memory s1 sz;
        let (buf, s2) := r in
        do str <- cstr buf;
        rh_loop f s2 (set_link out (Some str)) (N.lor flags PAX_SLINK_TARGET) false
      else if typeflag =? c_TAR_TYPE_GNU_PATH then
        do sz <- num_field h hoff_size hlen_size;
        if (sz <? 1) || (c_TAR_MAX_PATH_LEN <? sz) then Err e_len else
        do r <- record_to_memory s1 sz;
        let (buf, s2) := r in
        do str <- cstr buf;
        rh_loop f s2 (set_name out (Some str)) (N.lor flags PAX_NAME) false
      else if typeflag =? c_TAR_TYPE_PAX_GLOBAL then
        do sz <- num_field h hoff_size hlen_size;
        rh_loop f (sskip (round512 sz) s1) out flags false
      else if typeflag =? c_TAR_TYPE_PAX then
        do sz <- num_field h hoff_size hlen_size;
        if (sz <? 1) || (c_TAR_MAX_PAX_LEN <? sz) then Err e_len else
        do r <- read_pax_header s1 sz;
        let '(out', flags', s2) := r in
        rh_loop f s2 out' flags' false
      else if typeflag =? c_TAR_TYPE_GNU_SPARSE then
        do r <- read_gnu_old_sparse h s1;
        let (l, s2) := r in
        match l with
        | [] => Err e_sparse
        | _ =>
          do rs <- num_field h hoff_gnu_realsize hlen_gnu_realsize;
          finish (set_actual (set_sparse out l) rs) s2
        end
      else finish out s1
    end
  end.

Definition read_header (s : list N) : res rh_result :=
  rh_loop (S (length s)) s hdr0 0 false.

(* the loop of lib/tar/test/tar_fuzz.c / it_next: read a header, skip the record and its padding *)
Fixpoint tar_walk (fuel : nat) (s : list N) (acc : list thdr) : res (list thdr) :=
  match fuel with
  | O => OutOfFuel
  | S f =>
    do r <- read_header s;
    match r with
    | RH_eof => Ok acc
    | RH_hdr h s1 =>
      let s2 := sskip (h_record h) s1 in
      let pad := if h_record h mod 512 =? 0 then 0 else 512 - h_record h mod 512 in
      tar_walk f (sskip pad s2) (acc ++ [h])
    end
  end.

Definition tar_walk_all (s : list N) : res (list thdr) := tar_walk (S (length s)) s [].
