(* C07 (4) - the lines: XattrFileSpec.lines_spec (= istream_get_line with LTRIM | RTRIM | SKIP_EMPTY, by
   get_line_is_spec) computes the plain list XattrPlain.lines_plain.
     move_down_spec   memmove to a lower address, as a statement about lists
     ltrim_spec / rtrim_spec / trim_flags_spec   the in-place trims on a buffer  t ++ NUL :: tail  are lstrip / rstrip
     cr_cut_spec      the CR cut is drop_cr
     lines_spec_plain the next line handed out, its number and the stream behind it, for every stream
     cr_rule_absorbed (O5) the CR cut is unobservable under RTRIM *)
From Coq Require Import List NArith ZArith Bool Arith Lia ZifyBool ZifyNat ZifyN.
From SqfsV Require Import C07.Res C07.ResLemmas C07.NumModel C07.NumProofs C07.TextModel C07.TextProofs.
From SqfsV Require Import C07.XattrFileModel C07.XattrFileProofs C07.XattrFileCodec C07.XattrFileB64 C07.XattrFileApply
     C07.XattrFileSpec C07.XattrPlain.
Import ListNotations.
Local Open Scope N_scope.

(* ================================================================== *)
(* plain list facts                                                    *)
(* ================================================================== *)
Lemma isspace_plain_eq c : isspace_plain c = c_isspace c.
Proof. unfold isspace_plain, c_isspace. cbn [existsb]. lia. Qed.

Lemma isspace_nz c : isspace_plain c = true -> c <> 0.
Proof. unfold isspace_plain. cbn [existsb]. lia. Qed.

Lemma upto_nul_nz l : Forall nz (upto_nul l).
Proof.
  induction l as [|c r IH]; [constructor|]. simpl. destruct (c =? 0) eqn:E; [constructor|].
  constructor; [apply N.eqb_neq; exact E|exact IH].
Qed.

Lemma upto_nul_split y z : exists tl, y ++ 0 :: z = upto_nul y ++ 0 :: tl.
Proof.
  induction y as [|c r IH]; [exists z; reflexivity|]. simpl. destruct (c =? 0) eqn:E.
  - apply N.eqb_eq in E. subst c. exists (r ++ 0 :: z). reflexivity.
  - destruct IH as [tl Et]. exists tl. simpl. rewrite Et. reflexivity.
Qed.

Lemma upto_nul_app_nz t tl : Forall nz t -> upto_nul (t ++ 0 :: tl) = t.
Proof.
  induction 1 as [|c t Hc Ht IH]; [reflexivity|]. simpl.
  replace (c =? 0) with false by (symmetry; apply N.eqb_neq; exact Hc). rewrite IH. reflexivity.
Qed.

Lemma lstrip_split l : exists sp, l = sp ++ lstrip l /\ Forall (fun c => isspace_plain c = true) sp /\
  match lstrip l with c :: _ => isspace_plain c = false | [] => True end.
Proof.
  induction l as [|c r IH]; [exists []; simpl; auto|]. simpl. destruct (isspace_plain c) eqn:E.
  - destruct IH as (sp & E1 & F & M). exists (c :: sp). split; [simpl; congruence|]. split; [constructor; assumption|exact M].
  - exists []. split; [reflexivity|]. split; [constructor|exact E].
Qed.

Lemma lstrip_incl l : forall x, In x (lstrip l) -> In x l.
Proof. intros x Hx. destruct (lstrip_split l) as (sp & E & _). rewrite E. apply in_or_app. right. exact Hx. Qed.

Lemma lstrip_nz l : Forall nz l -> Forall nz (lstrip l).
Proof. intro H. rewrite Forall_forall in *. intros x Hx. apply H. apply lstrip_incl. exact Hx. Qed.

Lemma rstrip_nz l : Forall nz l -> Forall nz (rstrip l).
Proof.
  intro H. unfold rstrip. rewrite Forall_forall in *. intros x Hx. apply in_rev in Hx. apply lstrip_incl in Hx.
  apply in_rev in Hx. apply H. exact Hx.
Qed.

(* rstrip: the list is the result followed by spaces, and the result does not end in a space *)
Lemma rstrip_split l : exists sp, l = rstrip l ++ sp /\ Forall (fun c => isspace_plain c = true) sp /\
  match rev (rstrip l) with c :: _ => isspace_plain c = false | [] => True end.
Proof.
  unfold rstrip. destruct (lstrip_split (rev l)) as (sp & E & F & M). exists (rev sp).
  split; [|split].
  - apply (f_equal (@rev N)) in E. rewrite rev_involutive, rev_app_distr in E. exact E.
  - apply Forall_rev. exact F.
  - rewrite rev_involutive. exact M.
Qed.

(* ================================================================== *)
(* the model's scans on a buffer  t ++ 0 :: tl                         *)
(* ================================================================== *)
Lemma span_spaces sp rest : Forall (fun c => isspace_plain c = true) sp ->
  match rest with c :: _ => isspace_plain c = false | [] => False end ->
  span_count c_isspace (sp ++ rest) = Ok (N.of_nat (length sp)).
Proof.
  induction 1 as [|c sp Hc Hs IH]; intro Hr.
  - destruct rest as [|c r]; [contradiction|]. simpl. rewrite <- isspace_plain_eq, Hr. reflexivity.
  - cbn [app span_count]. rewrite <- isspace_plain_eq, Hc, (IH Hr). cbn [bind]. f_equal. simpl length. lia.
Qed.

Lemma strlen_buf t tl : Forall nz t -> strlen_at (t ++ 0 :: tl) 0 = Ok (N.of_nat (length t)).
Proof.
  intro H. unfold strlen_at, bfrom. replace (N.of_nat (length (t ++ 0 :: tl)) <? 0) with false by (symmetry; apply N.ltb_ge; lia).
  cbn [bind]. change (N.to_nat 0) with 0%nat. cbn [skipn]. apply span_nz_app. exact H.
Qed.

Lemma bfrom_app pre rest : bfrom (pre ++ rest) (N.of_nat (length pre)) = Ok rest.
Proof.
  unfold bfrom. replace (N.of_nat (length (pre ++ rest)) <? N.of_nat (length pre)) with false
    by (symmetry; apply N.ltb_ge; rewrite app_length; lia).
  rewrite Nat2N.id, skipn_app_l. reflexivity.
Qed.

Lemma bget_mid pre x post i : i = N.of_nat (length pre) -> bget (pre ++ x :: post) i = Ok x.
Proof.
  intros ->. unfold bget. rewrite Nat2N.id. apply lget_ok_iff. rewrite nth_error_app2 by lia.
  rewrite Nat.sub_diag. reflexivity.
Qed.

(* memmove(m + dst, m + src, n), dst <= src: the n bytes from src land at dst, nothing else moves *)
Lemma move_down_spec : forall n A M B C,
  length B = n ->
  move_down n (A ++ M ++ B ++ C) (N.of_nat (length A)) (N.of_nat (length A + length M))
  = Ok (A ++ B ++ skipn n (M ++ B ++ C)).
Proof.
  induction n as [|n IH]; intros A M B C HB.
  - destruct B; [|discriminate]. reflexivity.
  - destruct B as [|b B]; [discriminate|]. simpl in HB. injection HB as HB.
    cbn [move_down].
    replace (A ++ M ++ (b :: B) ++ C) with ((A ++ M) ++ b :: (B ++ C)) by (rewrite <- app_assoc; reflexivity).
    rewrite (bget_mid (A ++ M) b (B ++ C)) by (rewrite app_length; lia). cbn [bind].
    (* the store at dst: the first byte behind A *)
    destruct M as [|x M].
    + cbn [app]. rewrite app_nil_r. rewrite (bset_mid A b (B ++ C) b) by reflexivity. cbn [bind].
      pose proof (IH (A ++ [b]) [] B C HB) as H. cbn [app length] in H.
      rewrite app_length in H. cbn [length] in H. rewrite Nat.add_0_r in H.
      replace (N.of_nat (length A) + 1) with (N.of_nat (length A + 1)) by lia.
      replace (N.of_nat (length A + length (@nil N)) + 1) with (N.of_nat (length A + 1)) by (cbn [length]; lia).
      rewrite <- app_assoc in H. cbn [app] in H. rewrite H.
      rewrite <- app_assoc. reflexivity.
    + replace ((A ++ x :: M) ++ b :: B ++ C) with (A ++ x :: (M ++ b :: B ++ C)) by (rewrite <- app_assoc; reflexivity).
      rewrite (bset_mid A x (M ++ b :: B ++ C) b) by reflexivity. cbn [bind].
      pose proof (IH (A ++ [b]) (M ++ [b]) B C HB) as H.
      rewrite !app_length in H. cbn [length] in H.
      replace (N.of_nat (length A) + 1) with (N.of_nat (length A + 1)) by lia.
      replace (N.of_nat (length A + length (x :: M)) + 1) with (N.of_nat (length A + 1 + (length M + 1))) by (cbn [length]; lia).
      replace (A ++ b :: M ++ b :: B ++ C) with ((A ++ [b]) ++ (M ++ [b]) ++ B ++ C) by (rewrite <- !app_assoc; reflexivity).
      rewrite H. f_equal. rewrite <- !app_assoc. cbn [app skipn]. reflexivity.
Qed.

Lemma isspace0 : isspace_plain 0 = false. Proof. reflexivity. Qed.

Lemma bfrom0 m : bfrom m 0 = Ok m.
Proof. unfold bfrom. replace (N.of_nat (length m) <? 0) with false by (symmetry; apply N.ltb_ge; lia). reflexivity. Qed.

Lemma ltrim_spec t tl : Forall nz t -> exists tl', ltrim (t ++ 0 :: tl) 0 = Ok (lstrip t ++ 0 :: tl').
Proof.
  intro Ht. destruct (lstrip_split t) as (sp & Et & Fsp & Hd).
  assert (Hnz : Forall nz (lstrip t)) by (apply lstrip_nz; exact Ht).
  assert (Em : t ++ 0 :: tl = sp ++ (lstrip t ++ 0 :: tl)) by (rewrite Et at 1; rewrite <- app_assoc; reflexivity).
  assert (Esp : span_count c_isspace (t ++ 0 :: tl) = Ok (N.of_nat (length sp))).
  { rewrite Em. apply span_spaces; [exact Fsp|]. destruct (lstrip t); [exact isspace0|exact Hd]. }
  destruct sp as [|s0 sp].
  - exists tl. unfold ltrim. rewrite bfrom0. cbn [bind]. rewrite Esp. cbn [bind length].
    change (N.of_nat 0 =? 0) with true. cbv iota. cbn [app] in Et. rewrite <- Et. reflexivity.
  - eexists. unfold ltrim. rewrite bfrom0. cbn [bind]. rewrite Esp. cbn [bind].
    replace (N.of_nat (length (s0 :: sp)) =? 0) with false by (symmetry; apply N.eqb_neq; cbn [length]; lia).
    cbv iota. change (0 + N.of_nat (length (s0 :: sp))) with (N.of_nat (length (s0 :: sp))).
    unfold strlen_at. rewrite Em, bfrom_app. cbn [bind]. rewrite (span_nz_app _ _ Hnz). cbn [bind].
    pose proof (move_down_spec (length (lstrip t ++ [0])) [] (s0 :: sp) (lstrip t ++ [0]) tl eq_refl) as H.
    cbn [app length Nat.add] in H.
    replace (N.to_nat (N.of_nat (length (lstrip t)) + 1)) with (length (lstrip t ++ [0])) by (rewrite app_length; cbn [length]; lia).
    replace ((s0 :: sp) ++ lstrip t ++ 0 :: tl) with (s0 :: sp ++ (lstrip t ++ [0]) ++ tl) by (rewrite <- !app_assoc; reflexivity).
    change (N.of_nat 0) with 0 in H. cbn [length] in H |- *. rewrite H.
    rewrite <- app_assoc. reflexivity.
Qed.

(* the backward scan of rtrim: over the spaces at the end of the first i bytes *)
Lemma rtrim_go_spec : forall fuel t tl i, (i <= length t)%nat -> (i < fuel)%nat ->
  rtrim_go fuel (t ++ 0 :: tl) 0 (N.of_nat i) = Ok (N.of_nat (length (rstrip (firstn i t)))).
Proof.
  induction fuel as [|f IH]; intros t tl i Hi Hf; [lia|]. cbn [rtrim_go].
  destruct i as [|i].
  - reflexivity.
  - replace (N.of_nat (S i) =? 0) with false by (symmetry; apply N.eqb_neq; lia).
    replace (0 + N.of_nat (S i) - 1) with (N.of_nat i) by lia.
    (* the byte at i *)
    destruct (nth_error t i) as [c|] eqn:Ec; [|apply nth_error_None in Ec; lia].
    assert (Es : firstn (S i) t = firstn i t ++ [c]).
    { clear -Ec. revert t Ec. induction i as [|i IHi]; intros [|x t] Ec; try discriminate.
      - inversion Ec; reflexivity.
      - cbn [firstn app]. f_equal. apply IHi. exact Ec. }
    assert (Eg : bget (t ++ 0 :: tl) (N.of_nat i) = Ok c).
    { unfold bget. rewrite Nat2N.id. apply lget_ok_iff. rewrite nth_error_app1 by lia. exact Ec. }
    rewrite Eg. cbn [bind]. rewrite <- isspace_plain_eq.
    unfold rstrip. rewrite Es, rev_app_distr. cbn [rev app lstrip].
    destruct (isspace_plain c) eqn:Esp.
    + replace (N.of_nat (S i) - 1) with (N.of_nat i) by lia. rewrite IH by lia. reflexivity.
    + f_equal. cbn [rev]. rewrite rev_involutive. rewrite app_length. cbn [length].
      rewrite firstn_length. lia.
Qed.

Lemma rtrim_spec t tl : Forall nz t -> exists tl', rtrim (t ++ 0 :: tl) 0 = Ok (rstrip t ++ 0 :: tl').
Proof.
  intro Ht. destruct (rstrip_split t) as (sp & Et & Fsp & _).
  assert (E0 : forall m', bset (t ++ 0 :: tl) (N.of_nat (length (rstrip t))) 0 = Ok m' -> rtrim (t ++ 0 :: tl) 0 = Ok m').
  { intros m' E. unfold rtrim. rewrite (strlen_buf t tl Ht). cbn [bind].
    rewrite rtrim_go_spec by lia. rewrite firstn_all. cbn [bind]. exact E. }
  destruct sp as [|s0 sp].
  - exists tl. apply E0. rewrite app_nil_r in Et. rewrite <- Et. apply bset_mid. reflexivity.
  - eexists. apply E0. rewrite Et at 1. rewrite <- app_assoc. cbn [app]. apply bset_mid. reflexivity.
Qed.

Lemma resize_prefix (x y : list N) : resize (x ++ y) (length x) = x.
Proof.
  unfold resize. rewrite firstn_app_l.
  assert (E : (length x - length (x ++ y) = 0)%nat) by (rewrite app_length; lia).
  rewrite E. cbn [repeat]. apply app_nil_r.
Qed.

(* trim_flags: the string becomes strip t; the reported length is its length *)
Lemma trim_flags_spec t tl : Forall nz t ->
  exists m, trim_flags (t ++ 0 :: tl) = Ok (m, N.of_nat (length (strip t))) /\
            resize m (S (length (strip t))) = strip t ++ [0].
Proof.
  intro Ht. unfold trim_flags.
  destruct (ltrim_spec t tl Ht) as (tl1 & E1). rewrite E1. cbn [bind].
  destruct (rtrim_spec (lstrip t) tl1 (lstrip_nz _ Ht)) as (tl2 & E2). rewrite E2. cbn [bind].
  fold (strip t). rewrite (strlen_buf (strip t) tl2) by (apply rstrip_nz, lstrip_nz; exact Ht). cbn [bind].
  eexists. split; [reflexivity|].
  replace (strip t ++ 0 :: tl2) with ((strip t ++ [0]) ++ tl2) by (rewrite <- app_assoc; reflexivity).
  replace (S (length (strip t))) with (length (strip t ++ [0])) by (rewrite app_length; cbn [length]; lia).
  apply resize_prefix.
Qed.

(* the CR cut *)
Lemma cr_cut_spec l : exists tl, cr_cut (l ++ [0]) (N.of_nat (length l)) = Ok (drop_cr l ++ 0 :: tl).
Proof.
  destruct (rev l) as [|c r] eqn:Er.
  - assert (l = []) by (destruct l; [reflexivity|]; apply (f_equal (@length N)) in Er; rewrite rev_length in Er; discriminate).
    subst l. exists []. reflexivity.
  - assert (El : l = rev r ++ [c]) by (rewrite <- (rev_involutive l), Er; reflexivity).
    assert (Ecut : cr_cut (l ++ [0]) (N.of_nat (length l)) = if c =? 13 then Ok (rev r ++ [0; 0]) else Ok (l ++ [0])).
    { unfold cr_cut. rewrite El. rewrite app_length. cbn [length].
      replace (0 <? N.of_nat (length (rev r) + 1)) with true by (symmetry; apply N.ltb_lt; lia).
      replace (N.of_nat (length (rev r) + 1) - 1) with (N.of_nat (length (rev r))) by lia.
      rewrite <- app_assoc. cbn [app]. rewrite (bget_mid (rev r) c [0]) by reflexivity. cbn [bind].
      destruct (c =? 13); [|reflexivity].
      rewrite (bset_mid (rev r) c [0] 0) by reflexivity. reflexivity. }
    rewrite Ecut. unfold drop_cr. rewrite Er. destruct (c =? 13); [exists [0]|exists []]; reflexivity.
Qed.

(* one piece of the file: what the line reader makes of it *)
Lemma line_core l (have : bool) :
  exists m1 m,
    (if have then cr_cut (l ++ [0]) (N.of_nat (length l)) else Ok (l ++ [0])) = Ok m1 /\
    trim_flags m1 = Ok (m, N.of_nat (length (line_text (l, have)))) /\
    resize m (S (length (line_text (l, have)))) = line_text (l, have) ++ [0].
Proof.
  unfold line_text. cbn [fst snd].
  assert (exists tl, (if have then cr_cut (l ++ [0]) (N.of_nat (length l)) else Ok (l ++ [0]))
                     = Ok ((if have then drop_cr l else l) ++ 0 :: tl)) as (tl & E).
  { destruct have; [apply cr_cut_spec|exists []; reflexivity]. }
  set (y := if have then drop_cr l else l) in *.
  destruct (upto_nul_split y tl) as (tl' & Ey).
  destruct (trim_flags_spec (upto_nul y) tl' (upto_nul_nz y)) as (m & Et & Er).
  exists (y ++ 0 :: tl), m. split; [exact E|]. rewrite Ey. split; assumption.
Qed.

(* ================================================================== *)
(* lines_spec = the plain lines                                        *)
(* ================================================================== *)
Lemma split_lf_cut s :
  split_lf s = let '(l, rest, have) := cut_nl s in (l, have) :: (if have then split_lf rest else []).
Proof.
  induction s as [|c r IH]; [reflexivity|]. cbn [split_lf cut_nl]. destruct (c =? 10); [reflexivity|].
  rewrite IH. destruct (cut_nl r) as [[l rest] have]. reflexivity.
Qed.

Lemma line_text_nz p : Forall nz (line_text p).
Proof. unfold line_text, strip. apply rstrip_nz, lstrip_nz, upto_nul_nz. Qed.

(* the next line the model's reader hands out is the head of the plain list; the stream behind it yields the tail *)
Lemma lines_spec_plain : forall fuel s ln, (length s < fuel)%nat ->
  match number_lines ln (split_lf s) with
  | [] => exists ln', lines_spec fuel s ln = Ok (None, [], ln')
  | (k, t) :: more =>
    exists rest, lines_spec fuel s ln = Ok (Some (t ++ [0]), rest, k) /\
                 number_lines (k + 1) (split_lf rest) = more /\ (length rest < length s)%nat /\
                 Forall nz t /\ t <> []
  end.
Proof.
  induction fuel as [|f IH]; intros s ln Hf; [lia|]. destruct s as [|c r].
  - cbn. exists ln. reflexivity.
  - cbn [lines_spec]. rewrite split_lf_cut. pose proof (cut_nl_length (c :: r)) as Hl.
    destruct (cut_nl (c :: r)) as [[l rest] have]. cbn [number_lines].
    destruct (line_core l have) as (m1 & m & E1 & E2 & E3). rewrite E1. cbn [bind]. rewrite E2. cbn [bind].
    pose proof (line_text_nz (l, have)) as Hnz.
    destruct (line_text (l, have)) as [|c0 t0] eqn:Et.
    + cbn [length]. change (0 <? N.of_nat 0) with false. cbv iota. destruct have.
      * specialize (IH rest (ln + 1) ltac:(cbn [length] in *; lia)).
        destruct (number_lines (ln + 1) (split_lf rest)) as [|[k t] more].
        -- exact IH.
        -- destruct IH as (rest' & A & B & C & D). exists rest'. split; [exact A|]. split; [exact B|]. split; [|exact D].
           cbn [length] in *. lia.
      * cbn [number_lines]. exists ln. reflexivity.
    + replace (0 <? N.of_nat (length (c0 :: t0))) with true by (symmetry; apply N.ltb_lt; cbn [length]; lia).
      cbv iota. exists rest.
      replace (N.to_nat (N.of_nat (length (c0 :: t0)) + 1)) with (S (length (c0 :: t0))) by lia.
      rewrite E3. split; [reflexivity|]. split; [|split; [|split; [exact Hnz|discriminate]]].
      * destruct have; [reflexivity|]. destruct Hl as [_ ->]. reflexivity.
      * destruct have; cbn [length] in *; [lia|]. destruct Hl as [_ ->]. cbn [length]. lia.
Qed.

(* (O5) the CR rule cannot be observed: CR is a space, the strip removes it anyway *)
Lemma lstrip_app_space l c : isspace_plain c = true ->
  lstrip (l ++ [c]) = match lstrip l with [] => [] | x :: r => (x :: r) ++ [c] end.
Proof.
  intro Hc. induction l as [|a l IH]; [simpl; rewrite Hc; reflexivity|].
  cbn [app lstrip]. destruct (isspace_plain a); [exact IH|reflexivity].
Qed.

Lemma rstrip_app_space l c : isspace_plain c = true -> rstrip (l ++ [c]) = rstrip l.
Proof. intro Hc. unfold rstrip. rewrite rev_app_distr. cbn [rev app lstrip]. rewrite Hc. reflexivity. Qed.

Lemma upto_nul_app l r : upto_nul (l ++ r) = if forallb (fun c => negb (c =? 0)) l then l ++ upto_nul r else upto_nul l.
Proof.
  induction l as [|a l IH]; [reflexivity|]. cbn [app upto_nul forallb]. destruct (a =? 0); [reflexivity|].
  cbn [negb andb]. rewrite IH. destruct (forallb (fun c => negb (c =? 0)) l); reflexivity.
Qed.

Lemma cr_rule_absorbed l : line_text (l, true) = line_text (l, false).
Proof.
  unfold line_text, drop_cr. cbn [fst snd]. destruct (rev l) as [|c r] eqn:Er; [reflexivity|].
  destruct (c =? 13) eqn:Ec; [|reflexivity]. apply N.eqb_eq in Ec. subst c.
  assert (El : l = rev r ++ [13]) by (rewrite <- (rev_involutive l), Er; reflexivity).
  rewrite El. rewrite upto_nul_app. destruct (forallb (fun c => negb (c =? 0)) (rev r)) eqn:En; [|reflexivity].
  cbn [upto_nul]. change (13 =? 0) with false. cbv iota. cbn [upto_nul].
  assert (Eu : upto_nul (rev r) = rev r).
  { clear -En. induction (rev r) as [|a x IH]; [reflexivity|]. cbn [forallb] in En. apply andb_true_iff in En.
    destruct En as [A B]. cbn [upto_nul]. apply negb_true_iff in A. rewrite A. rewrite (IH B). reflexivity. }
  rewrite Eu. unfold strip. rewrite (lstrip_app_space (rev r) 13 eq_refl).
  destruct (lstrip (rev r)) as [|x y]; [reflexivity|]. rewrite (rstrip_app_space (x :: y) 13 eq_refl). reflexivity.
Qed.
