(* C07 (4) — xattr_apply_map_file: what a node gets from a map.  For a map whose objects are all alive and
   whose patterns carry NUL-terminated paths (that is what xattr_open_map_file returns: XattrFileProofs), the
   function hands to sqfs_xattr_writer_add exactly the entries of the patterns whose path equals the node path
   (strcmp; one leading slash of the node path is dropped unless the pattern itself starts with a slash), in the
   order of the C lists (patterns and entries are prepended by the parser: the LAST "# file:" block of the map
   file comes first, and inside a block the LAST key=value line), until the first add that fails.
   The code has no fnmatch / glob matching: a pattern is a path. *)
From Coq Require Import List NArith ZArith Bool Arith Lia.
From SqfsV Require Import C07.Res C07.ResLemmas C07.NumModel C07.NumProofs C07.TextModel C07.TextProofs.
From SqfsV Require Import C18.CanonModel C07.XattrFileModel C07.XattrFileProofs C07.XattrFileCodec.
Import ListNotations.
Local Open Scope N_scope.

Lemma cstr_app_nul l r : Forall nz l -> cstr (l ++ 0 :: r) = Ok l.
Proof.
  induction 1 as [|c l Hc Hl IH]; [reflexivity|]. simpl.
  replace (c =? 0) with false by (symmetry; apply N.eqb_neq; exact Hc). rewrite IH. reflexivity.
Qed.

Section ApplySpec.
  Variable W : Type.
  Variable add : W -> list N -> list N -> W * Z.

  (* the adds in order, until the first one that fails: writer, last return value, "stopped early" *)
  Fixpoint run_adds (w : W) (ret : Z) (es : list xent) : W * Z * bool :=
    match es with
    | [] => (w, ret, false)
    | e :: r =>
      let (w1, r1) := add w (e_key e) (e_val e) in
      if (r1 <? 0)%Z then (w1, r1, true) else run_adds w1 r1 r
    end.

  Lemma run_adds_app w ret a b :
    run_adds w ret (a ++ b) = let '(w1, r1, stop) := run_adds w ret a in if stop then (w1, r1, true) else run_adds w1 r1 b.
  Proof.
    revert w ret. induction a as [|e a IH]; intros w ret; [reflexivity|]. simpl.
    destruct (add w (e_key e) (e_val e)) as [w1 r1]. destruct (r1 <? 0)%Z; [reflexivity|apply IH].
  Qed.

  (* "stripped": the node path without one leading slash when the pattern does not start with one *)
  Definition strip (c0 : N) (path : list N) : list N :=
    match path with
    | s0 :: r => if negb (c0 =? 47) && (s0 =? 47) then r else path
    | [] => []
    end.

  Definition pat_matches (path : list N) (p : xpat) : bool :=
    match p_path p with
    | None => false
    | Some b =>
      match b_data b, cstr (b_data b) with
      | c0 :: _, Ok ps => bytes_eqb ps (strip c0 path)
      | _, _ => false
      end
    end.

  Lemma apply_ents_spec t l : owns t l -> forall es w ret, (forall e, In e es -> In (e_id e) l) ->
    apply_ents W add t w ret es = Ok (run_adds w ret es).
  Proof.
    intros Ho. induction es as [|e r IH]; intros w ret Hin; [reflexivity|].
    cbn [apply_ents run_adds]. rewrite (owns_use _ _ _ Ho (Hin e (or_introl eq_refl))). cbn [bind].
    destruct (add w (e_key e) (e_val e)) as [w1 r1]. destruct (r1 <? 0)%Z; [reflexivity|].
    apply IH. intros e' He'. apply Hin. right. exact He'.
  Qed.

  Lemma apply_pats_spec t l path : owns t l -> Forall nz path -> forall ps w ret,
    Forall pat_wf ps -> (forall x, In x (flat_map pat_ids ps) -> In x l) ->
    apply_pats W add t w ret (path ++ [0]) ps
    = Ok (fst (run_adds w ret (flat_map p_ents (filter (pat_matches path) ps)))).
  Proof.
    intros Ho Hp. induction ps as [|p r IH]; intros w ret Hwf Hin; [reflexivity|].
    inversion Hwf as [|x y [pb [Epb H0]] Hwf']; subst.
    assert (Hin' : forall x, In x (flat_map pat_ids r) -> In x l) by (intros x Hx; apply Hin; simpl; apply in_or_app; right; exact Hx).
    assert (Hp_ids : forall x, In x (pat_ids p) -> In x l) by (intros x Hx; apply Hin; simpl; apply in_or_app; left; exact Hx).
    cbn [apply_pats].
    rewrite (owns_use _ _ (p_id p) Ho); [|apply Hp_ids; unfold pat_ids; apply in_or_app; right; apply in_or_app; right; left; reflexivity].
    cbn [bind]. rewrite Epb.
    rewrite (owns_use _ _ (b_id pb) Ho); [|apply Hp_ids; unfold pat_ids; rewrite Epb; apply in_or_app; right; left; reflexivity].
    cbn [bind].
    destruct (b_data pb) as [|c0 tl] eqn:Ed; [destruct H0|].
    change (bget (c0 :: tl) 0) with (Ok c0). cbn [bind].
    destruct (cstr_safe (c0 :: tl) H0) as [ps [Eps _]].
    assert (Ecp : cstr_at (c0 :: tl) 0 = Ok ps) by (unfold cstr_at, bfrom; simpl; exact Eps).
    (* the node path *)
    assert (Hs0 : exists s0, bget (path ++ [0]) 0 = Ok s0 /\ s0 = match path with [] => 0 | s :: _ => s end).
    { destruct path; eexists; split; reflexivity. }
    destruct Hs0 as [s0 [Es0 Hs0]]. rewrite Es0; cbn [bind]. rewrite Ecp; cbn [bind].
    assert (Estr : cstr_at (path ++ [0]) (if negb (c0 =? 47) && (s0 =? 47) then 1 else 0) = Ok (strip c0 path)).
    { unfold strip. destruct path as [|s pr].
      - subst s0. rewrite andb_false_r. reflexivity.
      - subst s0. inversion Hp as [|x y Hs Hpr]; subst.
        destruct (negb (c0 =? 47) && (s =? 47)).
        + unfold cstr_at, bfrom. simpl length.
          replace (N.of_nat (S (length (pr ++ [0]))) <? 1) with false by (symmetry; apply N.ltb_ge; lia).
          cbn [bind]. change (N.to_nat 1) with 1%nat. cbn [app skipn]. apply cstr_app_nul. exact Hpr.
        + unfold cstr_at, bfrom. replace (N.of_nat (length ((s :: pr) ++ [0])) <? 0) with false by (symmetry; apply N.ltb_ge; lia).
          cbn [bind]. change (N.to_nat 0) with 0%nat. cbn [skipn]. apply (cstr_app_nul (s :: pr) []). exact Hp. }
    rewrite Estr; cbn [bind].
    (* the filter sees the same comparison *)
    assert (Em : pat_matches path p = bytes_eqb ps (strip c0 path)).
    { unfold pat_matches. rewrite Epb, Ed, Eps. reflexivity. }
    cbn [filter]. rewrite Em. destruct (bytes_eqb ps (strip c0 path)).
    - rewrite (apply_ents_spec t l Ho).
      2:{ intros e He. apply Hp_ids. unfold pat_ids. apply in_or_app. left. apply in_map. exact He. }
      cbn [bind]. cbn [flat_map]. rewrite run_adds_app.
      destruct (run_adds w ret (p_ents p)) as [[w1 r1] stop]. destruct stop; [reflexivity|].
      apply IH; assumption.
    - apply IH; assumption.
  Qed.

  Lemma xattr_map_lookup_spec_l t map F path w : owns t (map_ids map ++ F) -> map_wf map -> Forall nz path ->
    xattr_apply_map_file W add t w (path ++ [0]) map
    = Ok (fst (run_adds w 0%Z (flat_map p_ents (filter (pat_matches path) (m_pats map))))).
  Proof.
    intros Ho Hwf Hp. unfold xattr_apply_map_file.
    rewrite (owns_use _ _ (m_id map) Ho); [|apply in_or_app; left; unfold map_ids; apply in_or_app; right; left; reflexivity].
    cbn [bind]. apply (apply_pats_spec t _ path Ho Hp); [exact Hwf|].
    intros x Hx. apply in_or_app. left. unfold map_ids. apply in_or_app. left. exact Hx.
  Qed.
End ApplySpec.

(* ---- the parser prepends: the C lists are in reverse file order ---- *)
Lemma cstr_nz : forall s t, cstr s = Ok t -> Forall nz t.
Proof.
  induction s as [|c s IH]; intros t E; [discriminate|]. simpl in E. destruct (c =? 0) eqn:Ec.
  - inversion E. constructor.
  - destruct (cstr s) as [t0| | |]; cbn [bind] in E; try discriminate. inversion E.
    constructor; [apply N.eqb_neq; exact Ec|]. apply IH. reflexivity.
Qed.

(* an accepted "# file: " line puts ONE new pattern in front of map->patterns: no entries yet, its path block
   starts with the canonical form (C18) of the C string behind the prefix, NUL-terminated *)
Lemma parse_file_name_prepends_l t m map t' map' : parse_file_name false t m map = Ok (t', map', None) ->
  exists p name r b tail, m_pats map' = p :: m_pats map /\ m_id map' = m_id map /\ p_ents p = [] /\
    cstr_at m 8 = Ok name /\ canon_result name = Some r /\ p_path p = Some b /\ b_data b = r ++ 0 :: tail.
Proof.
  unfold parse_file_name. intro H.
  destruct (cstr_at m 8) as [nm| | |] eqn:En; cbn [bind] in H; try discriminate.
  destruct (r_alloc t) as [t1 fid]. destruct (r_alloc t1) as [t2 pid].
  destruct (r_use t2 (m_id map)); cbn [bind] in H; try discriminate.
  destruct (r_use t2 fid); cbn [bind] in H; try discriminate. simpl b_data in H.
  assert (Ename : cstr_at (nm ++ [0]) 0 = Ok nm).
  { unfold cstr_at, bfrom in *.
    destruct (N.of_nat (length m) <? 8); [discriminate|]. cbn [bind] in En.
    replace (N.of_nat (length (nm ++ [0])) <? 0) with false by (symmetry; apply N.ltb_ge; lia).
    cbn [bind]. change (N.to_nat 0) with 0%nat. cbn [skipn]. apply (cstr_app_nul nm []). eapply cstr_nz; eauto. }
  rewrite Ename in H; cbn [bind] in H.
  destruct (canon_result nm) as [r|] eqn:Ec.
  - destruct (r_use t2 pid); cbn [bind] in H; try discriminate. inversion H; subst.
    eexists; exists nm; exists r; eexists; eexists. repeat split; try reflexivity. exact Ec.
  - destruct (r_free t2 pid) as [t3| | |]; cbn [bind] in H; try discriminate.
    destruct (r_free t3 fid) as [t4| | |]; cbn [bind] in H; discriminate.
Qed.

(* an accepted key=value line puts ONE new entry in front of the entries of the FIRST pattern: the key is the C
   string in front of the '=', the value what the decoder makes of the C string behind it *)
Lemma parse_xattr_prepends_l t m p map t' map' : parse_xattr t m p map = Ok (t', map', None) ->
  exists cur rest e vs, m_pats map = cur :: rest /\ m_id map' = m_id map /\
    m_pats map' = mkPat (p_id cur) (p_path cur) (e :: p_ents cur) :: rest /\
    cstr_at m 0 = Ok (e_key e) /\ bfrom m (p + 1) = Ok vs /\ xattr_decode vs = Ok (e_val e).
Proof.
  unfold parse_xattr. intro H.
  destruct (r_use t (m_id map)); cbn [bind] in H; try discriminate.
  destruct (m_pats map) as [|cur rest]; [discriminate|].
  destruct (bfrom m (p + 1)) as [vs| | |] eqn:Ev; cbn [bind] in H; try discriminate.
  unfold decode_alloc in H. destruct (r_alloc t) as [t1 va].
  destruct (xattr_decode vs) as [v|e| |] eqn:Ed; cbn [bind] in H; try discriminate.
  - destruct (cstr_at m 0) as [key| | |] eqn:Ek; cbn [bind] in H; try discriminate. simpl b_id in H. simpl b_data in H.
    destruct (r_use t1 va); cbn [bind] in H; try discriminate.
    destruct (r_alloc t1) as [t2 eid].
    destruct (r_free t2 va) as [t3| | |]; cbn [bind] in H; try discriminate.
    destruct (r_use t3 (p_id cur)); cbn [bind] in H; try discriminate.
    inversion H; subst. exists cur, rest, (mkEnt eid key v), vs. repeat split; try reflexivity. exact Ed.
  - destruct (r_free t1 va) as [t2| | |]; cbn [bind] in H; discriminate.
Qed.
