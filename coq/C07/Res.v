(* C07 — shared vocabulary of the safety / termination models.

   Every model function returns [res A]:
     Ok v       the C code returns normally with v
     Err e      graceful refusal (return -1 / NULL with a diagnostic); e is an errno or a small tag
     Crash      the C code would read or write outside a buffer / dereference NULL or a dangling pointer here
     OutOfFuel  the model's loop budget ran out (the C loop would still be running)

   Buffers are [list N] (bytes, < 256).  ALL buffer traffic of the models goes through the checked
   accessors below: [bget]/[bset] for random access with an index, and the structural "cursor"
   functions that walk over [skipn i buf] and return [Crash] when they fall off the end of the list
   (= the C pointer would leave the allocation).  Nothing in a model reads a list with a default. *)
From Coq Require Import List NArith ZArith Bool Lia.
Import ListNotations.
Local Open Scope N_scope.

Inductive res (A : Type) : Type :=
| Ok (a : A)
| Err (e : N)
| Crash
| OutOfFuel.
Arguments Ok {A} a.
Arguments Err {A} e.
Arguments Crash {A}.
Arguments OutOfFuel {A}.

Definition bind {A B : Type} (r : res A) (f : A -> res B) : res B :=
  match r with
  | Ok a => f a
  | Err e => Err e
  | Crash => Crash
  | OutOfFuel => OutOfFuel
  end.

Notation "'do' x <- r ; k" := (bind r (fun x => k))
  (at level 200, x pattern, r at level 100, k at level 200, right associativity).

Definition is_crash {A} (r : res A) : bool := match r with Crash => true | _ => false end.
Definition is_fuel {A} (r : res A) : bool := match r with OutOfFuel => true | _ => false end.

(* a result that is neither a memory error nor a hang *)
Definition graceful {A} (r : res A) : Prop := r <> Crash /\ r <> OutOfFuel.

(* ---------------- checked random access ---------------- *)

Fixpoint lget {A} (l : list A) (i : nat) : res A :=
  match l, i with
  | [], _ => Crash
  | x :: _, O => Ok x
  | _ :: r, S j => lget r j
  end.

Fixpoint lset {A} (l : list A) (i : nat) (v : A) : res (list A) :=
  match l, i with
  | [], _ => Crash
  | _ :: r, O => Ok (v :: r)
  | x :: r, S j => match lset r j v with Ok r' => Ok (x :: r') | Err e => Err e | Crash => Crash | OutOfFuel => OutOfFuel end
  end.

Definition bget (b : list N) (i : N) : res N := lget b (N.to_nat i).
Definition bset (b : list N) (i : N) (v : N) : res (list N) := lset b (N.to_nat i) v.

(* suffix of the buffer starting at index i; Crash if i is beyond one-past-the-end *)
Definition bfrom (b : list N) (i : N) : res (list N) :=
  if (N.of_nat (length b) <? i) then Crash else Ok (skipn (N.to_nat i) b).

(* ---------------- <ctype.h> in the "C" locale (no setlocale call anywhere in the tools) ------------- *)
Definition c_isspace (c : N) : bool := (c =? 32) || ((9 <=? c) && (c <=? 13)).
Definition c_isdigit (c : N) : bool := (48 <=? c) && (c <=? 57).
Definition c_isupper (c : N) : bool := (65 <=? c) && (c <=? 90).
Definition c_islower (c : N) : bool := (97 <=? c) && (c <=? 122).
Definition c_isxdigit (c : N) : bool :=
  c_isdigit c || ((65 <=? c) && (c <=? 70)) || ((97 <=? c) && (c <=? 102)).

Fixpoint bytes_eqb (a b : list N) : bool :=
  match a, b with
  | [], [] => true
  | x :: a', y :: b' => N.eqb x y && bytes_eqb a' b'
  | _, _ => false
  end.

(* ---------------- NUL-terminated strings inside a buffer ---------------- *)

(* strlen-style scan over a suffix: the bytes before the first NUL and the number of them;
   Crash when no NUL is found before the end of the allocation *)
Fixpoint cstr (s : list N) : res (list N) :=
  match s with
  | [] => Crash
  | c :: r => if c =? 0 then Ok [] else do t <- cstr r; Ok (c :: t)
  end.

Definition cstr_at (b : list N) (i : N) : res (list N) := do s <- bfrom b i; cstr s.

(* lexicographic comparison of unsigned bytes, as strcmp on NUL-free strings *)
Fixpoint bytes_ltb (a b : list N) : bool :=
  match a, b with
  | [], [] => false
  | [], _ :: _ => true
  | _ :: _, [] => false
  | x :: a', y :: b' => if x <? y then true else if y <? x then false else bytes_ltb a' b'
  end.

(* does [p] start [s] *)
Fixpoint is_prefix (p s : list N) : bool :=
  match p, s with
  | [], _ => true
  | x :: p', y :: s' => (x =? y) && is_prefix p' s'
  | _ :: _, [] => false
  end.
