(* C07 (4) - the value decoder: TextModel.xattr_decode (decode + hex_decode + base64_decode of the C code, with all
   its buffer arithmetic) computes XattrPlain.decode_plain, for EVERY value (no NUL inside; any bytes, any length):
     hexval_spec / b64val_spec   the digit tables, written out, are isxdigit+arithmetic / libarchive's table
     hex_go_plain        pairs of hex digits, an odd last character dropped unseen (O2)
     xesc_plain          the escape loop, including the read beyond the end pointer (O4)
     b64_go_plain        groups of four; [b64_outcome]: finished / refused / an unpadded tail that base64_decode's
                         second part then refuses because decode() left no room for it (O3)
     xattr_decode_plain  the three together. *)
From Coq Require Import List NArith ZArith Bool Arith Lia ZifyBool ZifyNat ZifyN.
From SqfsV Require Import C07.Res C07.ResLemmas C07.NumModel C07.NumProofs C07.TextModel C07.TextProofs.
From SqfsV Require Import C07.XattrFileModel C07.XattrFileProofs C07.XattrFileCodec C07.XattrFileB64 C07.XattrFileApply
     C07.XattrFileSpec C07.XattrPlain C07.XattrPlainLines.
Import ListNotations.
Local Open Scope N_scope.
Ltac Zify.zify_post_hook ::= Z.div_mod_to_equations.

(* a property of every c, checked by computation below 128 and by arithmetic above *)
Lemma all_N (P : N -> bool) : forallb P (map N.of_nat (seq 0 128)) = true -> (forall c, 128 <= c -> P c = true) ->
  forall c, P c = true.
Proof.
  intros H1 H2 c. destruct (N.lt_ge_cases c 128) as [L|G]; [|apply H2; exact G].
  apply (forallb_N_lt P 128 H1). exact L.
Qed.

Ltac kill_eqb c :=
  repeat match goal with |- context [?k =? c] => replace (k =? c) with false by (symmetry; apply N.eqb_neq; lia) end.

(* ================================================================== *)
(* hex                                                                 *)
(* ================================================================== *)
Lemma hexval_spec c : hexval c = if c_isxdigit c then Some (xdigit c) else None.
Proof.
  pose proof (all_N (fun c => match hexval c, (if c_isxdigit c then Some (xdigit c) else None) with
                              | Some a, Some b => a =? b | None, None => true | _, _ => false end)) as H.
  specialize (H eq_refl).
  assert (G : forall c, 128 <= c -> hexval c = None /\ c_isxdigit c = false).
  { intros d Hd. split.
    - cbv [hexval dec_digits lower upper firstn index_in]. kill_eqb d. reflexivity.
    - unfold c_isxdigit, c_isdigit. lia. }
  specialize (H (fun d Hd => ltac:(destruct (G d Hd) as [-> ->]; reflexivity)) c). cbv beta in H.
  destruct (hexval c), (c_isxdigit c); try discriminate; [apply N.eqb_eq in H; congruence|reflexivity].
Qed.

Lemma hexval_lt c d : hexval c = Some d -> d < 16.
Proof.
  intro H. pose proof (all_N (fun c => match hexval c with Some d => d <? 16 | None => true end) eq_refl) as G.
  specialize (G (fun d Hd => ltac:(cbv [hexval dec_digits lower upper firstn index_in]; kill_eqb d; reflexivity)) c).
  cbv beta in G. rewrite H in G. apply N.ltb_lt. exact G.
Qed.

(* hex_decode over the value body: n = |body| / 2 pairs *)
Lemma hex_go_plain : forall body fuel acc,
  (N.to_nat (N.of_nat (length body) / 2) < fuel)%nat ->
  hex_go fuel (body ++ [0]) (N.of_nat (length body) / 2 * 2) (N.of_nat (length body) / 2) acc =
  match hex_pairs body with
  | Some t => Ok (acc ++ t, true)
  | None => hex_go fuel (body ++ [0]) (N.of_nat (length body) / 2 * 2) (N.of_nat (length body) / 2) acc
  end /\
  (hex_pairs body = None ->
   exists acc', hex_go fuel (body ++ [0]) (N.of_nat (length body) / 2 * 2) (N.of_nat (length body) / 2) acc = Ok (acc', false)).
Proof.
  intros body. remember (length body) as n eqn:En. revert body En.
  induction n as [n IH] using lt_wf_ind. intros body En fuel acc Hf.
  destruct fuel as [|f]; [lia|].
  destruct body as [|a [|b r]].
  - subst n. cbn. rewrite app_nil_r. split; [reflexivity|discriminate].
  - subst n. cbn. rewrite app_nil_r. split; [reflexivity|discriminate].
  - assert (Hn : N.of_nat n / 2 = N.of_nat (length r) / 2 + 1) by (subst n; cbn [length]; lia).
    cbn [hex_go app hex_pairs]. rewrite Hn.
    replace ((0 <? N.of_nat (length r) / 2 + 1) && (2 <=? (N.of_nat (length r) / 2 + 1) * 2)) with true by lia.
    rewrite !hexval_spec. destruct (c_isxdigit a) eqn:Ea.
    + destruct (c_isxdigit b) eqn:Eb.
      * replace ((N.of_nat (length r) / 2 + 1) * 2 - 2) with (N.of_nat (length r) / 2 * 2) by lia.
        replace (N.of_nat (length r) / 2 + 1 - 1) with (N.of_nat (length r) / 2) by lia.
        destruct (IH (length r) ltac:(subst n; cbn [length]; lia) r eq_refl f (acc ++ [(xdigit a * 16 + xdigit b) mod 256]) ltac:(lia)) as [I1 I2].
        assert (Hx : (xdigit a * 16 + xdigit b) mod 256 = 16 * xdigit a + xdigit b).
        { assert (xdigit a < 16) by (apply (hexval_lt a); rewrite hexval_spec, Ea; reflexivity).
          assert (xdigit b < 16) by (apply (hexval_lt b); rewrite hexval_spec, Eb; reflexivity). lia. }
        destruct (hex_pairs r) as [t|].
        -- split; [|discriminate]. rewrite I1. rewrite Hx, <- app_assoc. reflexivity.
        -- split; [reflexivity|]. intros _. apply I2. reflexivity.
      * split; [reflexivity|]. intros _. eexists. f_equal. f_equal. lia.
    + split; [reflexivity|]. intros _. eexists. f_equal. f_equal. lia.
Qed.

Lemma hex_decode_plain body :
  hex_decode (body ++ [0]) (N.of_nat (length body) / 2 * 2) (N.of_nat (length body) / 2) =
  match hex_pairs body with Some t => Ok (t, true) | None => hex_decode (body ++ [0]) (N.of_nat (length body) / 2 * 2) (N.of_nat (length body) / 2) end /\
  (hex_pairs body = None ->
   exists acc', hex_decode (body ++ [0]) (N.of_nat (length body) / 2 * 2) (N.of_nat (length body) / 2) = Ok (acc', false)).
Proof.
  unfold hex_decode.
  destruct (hex_go_plain body (S (N.to_nat (N.of_nat (length body) / 2 * 2 / 2))) [] ltac:(lia)) as [A B].
  split; [|exact B]. exact A.
Qed.

(* ================================================================== *)
(* text                                                                *)
(* ================================================================== *)
Lemma isoct_eq c : isoct c = (48 <=? c) && (c <=? 55). Proof. reflexivity. Qed.

Lemma xesc_plain : forall fuel body pre post (q : bool) out cap,
  (length body < fuel)%nat -> N.of_nat (length out) + N.of_nat (length body) < cap ->
  xesc_go fuel (pre ++ body ++ (if q then 34 else 0) :: post) (N.of_nat (length pre))
          (N.of_nat (length pre) + N.of_nat (length body)) out cap
  = Ok (out ++ unescape q body).
Proof.
  induction fuel as [|f IH]; intros body pre post q out cap Hf Hc; [lia|].
  cbn [xesc_go]. destruct body as [|c r].
  - cbn [length]. replace (N.of_nat (length pre) + N.of_nat 0 <=? N.of_nat (length pre)) with true by lia.
    cbn [unescape]. rewrite app_nil_r. reflexivity.
  - replace (N.of_nat (length pre) + N.of_nat (length (c :: r)) <=? N.of_nat (length pre)) with false by (cbn [length]; lia).
    assert (Hcap : (cap <=? N.of_nat (length out)) = false) by (cbn [length] in Hc; lia).
    remember (pre ++ (c :: r) ++ (if q then 34 else 0) :: post) as M eqn:EM.
    assert (Rd : forall j, bget M (N.of_nat (length pre) + j) = bget ((c :: r) ++ (if q then 34 else 0) :: post) j)
      by (intro j; rewrite EM; apply bget_app_off).
    (* the scan goes on behind k consumed bytes *)
    assert (Go : forall (used rest : list N) x, c :: r = used ++ rest -> used <> [] ->
              xesc_go f M (N.of_nat (length pre) + N.of_nat (length used))
                      (N.of_nat (length pre) + N.of_nat (length (c :: r))) (out ++ [x]) cap
              = Ok (out ++ x :: unescape q rest)).
    { intros used rest x E Hu. rewrite EM. rewrite E. rewrite <- (app_assoc used rest). rewrite (app_assoc pre used).
      replace (N.of_nat (length pre) + N.of_nat (length used)) with (N.of_nat (length (pre ++ used))) by (rewrite app_length; lia).
      replace (N.of_nat (length pre) + N.of_nat (length (used ++ rest))) with (N.of_nat (length (pre ++ used)) + N.of_nat (length rest))
        by (rewrite !app_length; lia).
      assert (length used > 0)%nat by (destruct used; [congruence|cbn; lia]).
      assert (Hl : length (c :: r) = (length used + length rest)%nat) by (rewrite E, app_length; reflexivity).
      rewrite IH; [rewrite <- app_assoc; reflexivity|lia|rewrite app_length; cbn [length]; lia]. }
    replace (bget M (N.of_nat (length pre))) with (@Ok N c)
      by (rewrite <- (N.add_0_r (N.of_nat (length pre))), Rd; reflexivity).
    cbn [bind].
    cbn [unescape]. destruct (c =? 92) eqn:Ec.
    + destruct r as [|c1 r1]; rewrite Rd; cbn [app].
      * (* the backslash is the last byte of the body: the byte behind it is the closer *)
        replace (bget (c :: (if q then 34 else 0) :: post) 1) with (@Ok N (if q then 34 else 0)) by reflexivity. cbn [bind].
        destruct q.
        -- change ((34 =? 92) || (34 =? 34)) with true. cbv iota. rewrite Hcap.
           destruct f as [|f']; [cbn [length] in Hf; lia|]. cbn [xesc_go length].
           replace (N.of_nat (length pre) + N.of_nat 1 <=? N.of_nat (length pre) + 2) with true by lia. reflexivity.
        -- change ((0 =? 92) || (0 =? 34)) with false. change ((48 <=? 0) && (0 <=? 55)) with false. cbv iota. rewrite Hcap.
           replace (N.of_nat (length pre) + 1) with (N.of_nat (length pre) + N.of_nat (length [c])) by (cbn [length]; lia).
           rewrite (Go [c] [] (c mod 256) eq_refl ltac:(discriminate)). apply N.eqb_eq in Ec. subst c. reflexivity.
      * replace (bget (c :: c1 :: r1 ++ (if q then 34 else 0) :: post) 1) with (@Ok N c1) by reflexivity. cbn [bind].
        destruct ((c1 =? 92) || (c1 =? 34)) eqn:E1.
        -- rewrite Hcap. replace (N.of_nat (length pre) + 2) with (N.of_nat (length pre) + N.of_nat (length [c; c1])) by (cbn [length]; lia).
           rewrite (Go [c; c1] r1 (c1 mod 256) eq_refl ltac:(discriminate)). reflexivity.
        -- rewrite <- isoct_eq. destruct (isoct c1) eqn:O1.
           ++ destruct r1 as [|c2 r2]; rewrite Rd; cbn [app].
              ** replace (bget (c :: c1 :: (if q then 34 else 0) :: post) 2) with (@Ok N (if q then 34 else 0)) by reflexivity. cbn [bind].
                 replace ((48 <=? (if q then 34 else 0)) && ((if q then 34 else 0) <=? 55)) with false by (destruct q; reflexivity).
                 rewrite Hcap. replace (N.of_nat (length pre) + 2) with (N.of_nat (length pre) + N.of_nat (length [c; c1])) by (cbn [length]; lia).
                 rewrite (Go [c; c1] [] ((c1 - 48) mod 256) eq_refl ltac:(discriminate)). reflexivity.
              ** replace (bget (c :: c1 :: c2 :: r2 ++ (if q then 34 else 0) :: post) 2) with (@Ok N c2) by reflexivity. cbn [bind].
                 rewrite <- isoct_eq. destruct (isoct c2) eqn:O2.
                 --- destruct r2 as [|c3 r3]; rewrite Rd; cbn [app].
                     +++ replace (bget (c :: c1 :: c2 :: (if q then 34 else 0) :: post) 3) with (@Ok N (if q then 34 else 0)) by reflexivity. cbn [bind].
                         replace ((48 <=? (if q then 34 else 0)) && ((if q then 34 else 0) <=? 55)) with false by (destruct q; reflexivity).
                         rewrite Hcap. replace (N.of_nat (length pre) + 3) with (N.of_nat (length pre) + N.of_nat (length [c; c1; c2])) by (cbn [length]; lia).
                         rewrite (Go [c; c1; c2] [] (((c1 - 48) * 8 + (c2 - 48)) mod 256) eq_refl ltac:(discriminate)). reflexivity.
                     +++ replace (bget (c :: c1 :: c2 :: c3 :: r3 ++ (if q then 34 else 0) :: post) 3) with (@Ok N c3) by reflexivity. cbn [bind].
                         rewrite <- isoct_eq. destruct (isoct c3) eqn:O3.
                         *** rewrite Hcap. replace (N.of_nat (length pre) + 4) with (N.of_nat (length pre) + N.of_nat (length [c; c1; c2; c3])) by (cbn [length]; lia).
                             rewrite (Go [c; c1; c2; c3] r3 ((((c1 - 48) * 8 + (c2 - 48)) * 8 + (c3 - 48)) mod 256) eq_refl ltac:(discriminate)). reflexivity.
                         *** rewrite Hcap. replace (N.of_nat (length pre) + 3) with (N.of_nat (length pre) + N.of_nat (length [c; c1; c2])) by (cbn [length]; lia).
                             rewrite (Go [c; c1; c2] (c3 :: r3) (((c1 - 48) * 8 + (c2 - 48)) mod 256) eq_refl ltac:(discriminate)). reflexivity.
                 --- rewrite Hcap. replace (N.of_nat (length pre) + 2) with (N.of_nat (length pre) + N.of_nat (length [c; c1])) by (cbn [length]; lia).
                     rewrite (Go [c; c1] (c2 :: r2) ((c1 - 48) mod 256) eq_refl ltac:(discriminate)). reflexivity.
           ++ rewrite Hcap. replace (N.of_nat (length pre) + 1) with (N.of_nat (length pre) + N.of_nat (length [c])) by (cbn [length]; lia).
              rewrite (Go [c] (c1 :: r1) (c mod 256) eq_refl ltac:(discriminate)). apply N.eqb_eq in Ec. subst c. reflexivity.
    + rewrite Hcap. replace (N.of_nat (length pre) + 1) with (N.of_nat (length pre) + N.of_nat (length [c])) by (cbn [length]; lia).
      rewrite (Go [c] r (c mod 256) eq_refl ltac:(discriminate)). reflexivity.
Qed.

(* ================================================================== *)
(* base64                                                              *)
(* ================================================================== *)
Lemma b64val_spec c : b64val c = base64_digit c.
Proof.
  pose proof (all_N (fun c => match b64val c, base64_digit c with
                              | Some a, Some b => a =? b | None, None => true | _, _ => false end) eq_refl) as H.
  assert (G : forall d, 128 <= d -> b64val d = None /\ base64_digit d = None).
  { intros d Hd. split.
    - cbv [b64val dec_digits lower upper app index_in]. kill_eqb d.
      replace (d =? 45) with false by (symmetry; apply N.eqb_neq; lia). reflexivity.
    - unfold base64_digit, c_isupper, c_islower, c_isdigit.
      replace ((65 <=? d) && (d <=? 90)) with false by lia. replace ((97 <=? d) && (d <=? 122)) with false by lia.
      replace ((48 <=? d) && (d <=? 57)) with false by lia. replace (d =? 43) with false by lia.
      replace ((d =? 47) || (d =? 45)) with false by lia. reflexivity. }
  specialize (H (fun d Hd => ltac:(destruct (G d Hd) as [-> ->]; reflexivity)) c). cbv beta in H.
  destruct (b64val c), (base64_digit c); try discriminate; [apply N.eqb_eq in H; congruence|reflexivity].
Qed.

Lemma b64val_lt c d : b64val c = Some d -> d < 64.
Proof.
  intro H. pose proof (all_N (fun c => match b64val c with Some d => d <? 64 | None => true end) eq_refl) as G.
  specialize (G (fun d Hd => ltac:(cbv [b64val dec_digits lower upper app index_in]; kill_eqb d;
                                   replace (d =? 45) with false by (symmetry; apply N.eqb_neq; lia); reflexivity)) c).
  cbv beta in G. rewrite H in G. apply N.ltb_lt. exact G.
Qed.

Lemma b64pad_spec c : b64pad c = is_pad c. Proof. reflexivity. Qed.

(* the outcome of the main loop of base64_decode on the remaining input [rest]; [inp] = the whole value with
   its NUL, [out] = what has been stored so far, [zs] = the rest of the calloc'ed output *)
Inductive b64_outcome (inp : list N) (cap : N) : res (list N * option N * N * N) -> option (list N) -> Prop :=
| BO_done : forall outf zs' ip, b64_outcome inp cap (Ok (inp ++ outf ++ zs', Some (N.of_nat (length outf)), ip, 0)) (Some outf)
| BO_fail : forall M ip l1, b64_outcome inp cap (Ok (M, None, ip, l1)) None
| BO_tail : forall done' rest' out' zs',
    inp = done' ++ rest' ++ [0] -> (0 < length rest' < 4)%nat -> cap = N.of_nat (length out') ->
    b64_outcome inp cap (Ok (inp ++ out' ++ zs', Some (N.of_nat (length out')), N.of_nat (length done'), N.of_nat (length rest'))) None.

Lemma b64_go_plain : forall n rest, length rest = n -> forall fuel done out zs inp cap,
  inp = done ++ rest ++ [0] ->
  cap = N.of_nat (length out) + N.of_nat (length rest) / 4 * 3 ->
  N.of_nat (length zs) = N.of_nat (length rest) / 4 * 3 + 1 ->
  (N.to_nat (N.of_nat (length rest) / 4) < fuel)%nat ->
  b64_outcome inp cap
    (b64_go fuel (inp ++ out ++ zs) (N.of_nat (length done)) (N.of_nat (length rest)) (N.of_nat (length inp)) cap
            (N.of_nat (length out)))
    (match b64_groups rest with Some t => Some (out ++ t) | None => None end).
Proof.
  induction n as [n IH] using lt_wf_ind. intros rest En fuel done out zs inp cap Ei Ecap Ezs Hf.
  destruct fuel as [|f]; [lia|]. cbn [b64_go].
  destruct (4 <=? N.of_nat (length rest)) eqn:E4.
  2:{ (* fewer than four characters left *)
    apply N.leb_gt in E4. destruct rest as [|x1 rest1].
    - cbn [b64_groups]. rewrite app_nil_r. apply BO_done.
    - assert (Hn : b64_groups (x1 :: rest1) = None).
      { destruct rest1 as [|x2 [|x3 [|x4 r]]]; try reflexivity. cbn [length] in E4. lia. }
      rewrite Hn. apply (BO_tail inp cap done (x1 :: rest1) out zs Ei); [cbn [length] in *; lia|].
      rewrite Ecap. replace (N.of_nat (length (x1 :: rest1)) / 4) with 0 by (symmetry; apply N.div_small; exact E4). lia. }
  apply N.leb_le in E4.
  destruct rest as [|c1 [|c2 [|c3 [|c4 r]]]]; try (cbn [length] in E4; lia).
  assert (Hg : N.of_nat (length (c1 :: c2 :: c3 :: c4 :: r)) / 4 = N.of_nat (length r) / 4 + 1) by (cbn [length]; lia).
  remember (inp ++ out ++ zs) as M eqn:EM.
  assert (Rd : forall j, bget M (N.of_nat (length done) + j) = bget (c1 :: c2 :: c3 :: c4 :: r ++ [0] ++ out ++ zs) j).
  { intro j. rewrite EM, Ei. rewrite <- !app_assoc. apply bget_app_off. }
  replace (bget M (N.of_nat (length done))) with (@Ok N c1) by (rewrite <- (N.add_0_r (N.of_nat (length done))), Rd; reflexivity).
  rewrite !Rd.
  replace (bget (c1 :: c2 :: c3 :: c4 :: r ++ [0] ++ out ++ zs) 1) with (@Ok N c2) by reflexivity.
  replace (bget (c1 :: c2 :: c3 :: c4 :: r ++ [0] ++ out ++ zs) 2) with (@Ok N c3) by reflexivity.
  replace (bget (c1 :: c2 :: c3 :: c4 :: r ++ [0] ++ out ++ zs) 3) with (@Ok N c4) by reflexivity.
  cbn [bind b64_groups]. rewrite <- !b64val_spec.
  change (is_pad c3) with (b64pad c3). change (is_pad c4) with (b64pad c4).
  destruct (b64val c1) as [i1|] eqn:V1; [|apply BO_fail].
  destruct (b64val c2) as [i2|] eqn:V2; [|apply BO_fail].
  pose proof (b64val_lt _ _ V1) as L1. pose proof (b64val_lt _ _ V2) as L2.
  replace (cap <=? N.of_nat (length out)) with false by lia.
  (* room for three stores *)
  destruct zs as [|z1 [|z2 [|z3 zs3]]]; try (cbn [length] in Ezs; lia).
  assert (W1 : bset M (N.of_nat (length inp) + N.of_nat (length out)) ((i1 * 4 + i2 / 16) mod 256)
               = Ok (inp ++ (out ++ [i1 * 4 + i2 / 16]) ++ z2 :: z3 :: zs3)).
  { rewrite EM. replace ((i1 * 4 + i2 / 16) mod 256) with (i1 * 4 + i2 / 16) by lia.
    rewrite (app_assoc inp out). rewrite (bset_mid (inp ++ out) z1 (z2 :: z3 :: zs3)) by (rewrite app_length; lia).
    rewrite <- !app_assoc. reflexivity. }
  rewrite W1. cbn [bind].
  replace (N.of_nat (length (c1 :: c2 :: c3 :: c4 :: r)) - 4) with (N.of_nat (length r)) by (cbn [length]; lia).
  destruct (b64pad c3) eqn:P3.
  { destruct (b64pad c4) eqn:P4; cbn [negb orb andb].
    - destruct r as [|x r']; cbn [is_nil length].
      + change (0 <? N.of_nat 0) with false. change (N.of_nat 0) with 0. cbv iota.
        replace (N.of_nat (length out) + 1) with (N.of_nat (length (out ++ [i1 * 4 + i2 / 16]))) by (rewrite app_length; cbn [length]; lia).
        apply BO_done.
      + replace (0 <? N.of_nat (S (length r'))) with true by lia. apply BO_fail.
    - apply BO_fail. }
  destruct (b64val c3) as [i3|] eqn:V3; [|apply BO_fail]. pose proof (b64val_lt _ _ V3) as L3.
  replace (cap <=? N.of_nat (length out) + 1) with false by lia.
  assert (W2 : bset (inp ++ (out ++ [i1 * 4 + i2 / 16]) ++ z2 :: z3 :: zs3) (N.of_nat (length inp) + (N.of_nat (length out) + 1))
                    ((i2 mod 16 * 16 + i3 / 4) mod 256)
               = Ok (inp ++ (out ++ [i1 * 4 + i2 / 16; i2 mod 16 * 16 + i3 / 4]) ++ z3 :: zs3)).
  { replace ((i2 mod 16 * 16 + i3 / 4) mod 256) with (i2 mod 16 * 16 + i3 / 4) by lia.
    rewrite (app_assoc inp (out ++ _)). rewrite (bset_mid (inp ++ out ++ [i1 * 4 + i2 / 16]) z2 (z3 :: zs3)) by (rewrite !app_length; cbn [length]; lia).
    rewrite <- !app_assoc. reflexivity. }
  rewrite W2. cbn [bind].
  destruct (b64pad c4) eqn:P4.
  { destruct r as [|x r']; cbn [is_nil length].
    - change (0 <? N.of_nat 0) with false. change (N.of_nat 0) with 0. cbv iota.
      replace (N.of_nat (length out) + 1 + 1) with (N.of_nat (length (out ++ [i1 * 4 + i2 / 16; i2 mod 16 * 16 + i3 / 4])))
        by (rewrite app_length; cbn [length]; lia).
      apply BO_done.
    - replace (0 <? N.of_nat (S (length r'))) with true by lia. apply BO_fail. }
  destruct (b64val c4) as [i4|] eqn:V4; [|apply BO_fail]. pose proof (b64val_lt _ _ V4) as L4.
  replace (cap <=? N.of_nat (length out) + 1 + 1) with false by lia.
  assert (W3 : bset (inp ++ (out ++ [i1 * 4 + i2 / 16; i2 mod 16 * 16 + i3 / 4]) ++ z3 :: zs3)
                    (N.of_nat (length inp) + (N.of_nat (length out) + 1 + 1)) ((i3 mod 4 * 64 + i4) mod 256)
               = Ok (inp ++ (out ++ [i1 * 4 + i2 / 16; i2 mod 16 * 16 + i3 / 4; i3 mod 4 * 64 + i4]) ++ zs3)).
  { replace ((i3 mod 4 * 64 + i4) mod 256) with (i3 mod 4 * 64 + i4) by lia.
    rewrite (app_assoc inp (out ++ _)).
    rewrite (bset_mid (inp ++ out ++ [i1 * 4 + i2 / 16; i2 mod 16 * 16 + i3 / 4]) z3 zs3) by (rewrite !app_length; cbn [length]; lia).
    rewrite <- !app_assoc. reflexivity. }
  rewrite W3. cbn [bind].
  (* the next group *)
  set (out3 := out ++ [i1 * 4 + i2 / 16; i2 mod 16 * 16 + i3 / 4; i3 mod 4 * 64 + i4]).
  replace (N.of_nat (length out) + 1 + 1 + 1) with (N.of_nat (length out3)) by (unfold out3; rewrite app_length; cbn [length]; lia).
  replace (N.of_nat (length done) + 4) with (N.of_nat (length (done ++ [c1; c2; c3; c4]))) by (rewrite app_length; cbn [length]; lia).
  pose proof (IH (length r) ltac:(subst n; cbn [length]; lia) r eq_refl f (done ++ [c1; c2; c3; c4]) out3 zs3 inp cap
                 ltac:(rewrite Ei, <- !app_assoc; reflexivity)) as H.
  specialize (H ltac:(unfold out3; rewrite app_length; cbn [length]; lia) ltac:(cbn [length] in Ezs; lia) ltac:(lia)).
  destruct (b64_groups r) as [t|]; [|exact H].
  replace (out ++ i1 * 4 + i2 / 16 :: i2 mod 16 * 16 + i3 / 4 :: i3 mod 4 * 64 + i4 :: t) with (out3 ++ t)
    by (unfold out3; rewrite <- app_assoc; reflexivity).
  exact H.
Qed.

Lemma base64_decode_plain body pre : length pre = 2%nat ->
  let m := pre ++ body ++ [0] in
  let cap := N.of_nat (length body) / 4 * 3 in
  match b64_groups body with
  | Some t => exists zs', base64_decode (m ++ repeat 0 (N.to_nat (cap + 1))) 2 (N.of_nat (length body)) (N.of_nat (length m)) cap
                          = Ok (m ++ t ++ zs', Some (N.of_nat (length t)))
  | None => exists M', base64_decode (m ++ repeat 0 (N.to_nat (cap + 1))) 2 (N.of_nat (length body)) (N.of_nat (length m)) cap
                       = Ok (M', None)
  end.
Proof.
  intros Hp m cap.
  pose proof (b64_go_plain (length body) body eq_refl (S (N.to_nat (N.of_nat (length body) / 4))) pre []
                           (repeat 0 (N.to_nat (cap + 1))) m cap eq_refl) as H.
  specialize (H ltac:(cbn [length]; unfold cap; lia) ltac:(rewrite repeat_length; unfold cap; lia) ltac:(lia)).
  cbn [app length] in H. rewrite Hp in H. change (N.of_nat 2) with 2 in H. change (N.of_nat 0) with 0 in H.
  unfold base64_decode.
  set (rr := b64_go (S (N.to_nat (N.of_nat (length body) / 4))) (m ++ repeat 0 (N.to_nat (cap + 1))) 2
                    (N.of_nat (length body)) (N.of_nat (length m)) cap 0) in *.
  clearbody rr.
  destruct (b64_groups body) as [t|].
  - inversion H as [outf zs' ip E1 E2| |]; subst. cbn [bind]. change (0 <? 0) with false. cbv iota.
    exists zs'. reflexivity.
  - inversion H as [|M ip l1 E1|done' rest' out' zs' Ei Hl Ec E1]; subst rr.
    + cbn [bind]. eexists. reflexivity.
    + cbn [bind].
      replace (0 <? N.of_nat (length rest')) with true by lia. cbv iota.
      destruct rest' as [|x1 [|x2 r']]; [cbn [length] in Hl; lia|eexists; reflexivity|].
      replace (N.of_nat (length (x1 :: x2 :: r')) =? 1) with false by (cbn [length]; lia). cbv iota.
      rewrite Ei. rewrite <- !app_assoc.
      replace (bget (done' ++ (x1 :: x2 :: r') ++ [0] ++ out' ++ zs') (N.of_nat (length done'))) with (@Ok N x1)
        by (rewrite <- (N.add_0_r (N.of_nat (length done'))), bget_app_off; reflexivity).
      rewrite bget_app_off. replace (bget ((x1 :: x2 :: r') ++ [0] ++ out' ++ zs') 1) with (@Ok N x2) by reflexivity.
      cbn [bind]. destruct (base64_digit x1); [|eexists; reflexivity]. destruct (base64_digit x2); [|eexists; reflexivity].
      rewrite Ec. rewrite N.leb_refl. eexists. reflexivity.
Qed.

Lemma bget_last l c tl : bget (l ++ c :: tl) (N.of_nat (length l)) = Ok c.
Proof. apply bget_mid. reflexivity. Qed.

Lemma decode_text_plain v : Forall nz v -> v <> [] ->
  (do cl <- bget (v ++ [0]) (N.of_nat (length v) - 1);
   let quoted := (1 <? N.of_nat (length v)) && (hd 0 v =? 34) && (cl =? 34) in
   let vv := if quoted then 1 else 0 in
   let endp := if quoted then N.of_nat (length v) - 1 else N.of_nat (length v) in
   xesc_go (S (N.to_nat (N.of_nat (length v)))) (v ++ [0]) vv endp [] (N.of_nat (length v) + 1))
  = Ok (text_plain v).
Proof.
  intros Hnz Hne. destruct v as [|c r]; [congruence|]. cbn [hd text_plain].
  destruct (rev r) as [|q m'] eqn:Er.
  - assert (r = []) by (destruct r; [reflexivity|]; apply (f_equal (@length N)) in Er; rewrite rev_length in Er; discriminate).
    subst r. cbn [length app]. change (N.of_nat 1 - 1) with 0. change (bget [c; 0] 0) with (@Ok N c). cbn [bind].
    change (1 <? N.of_nat 1) with false. cbn [andb]. cbv iota.
    pose proof (xesc_plain (S (N.to_nat (N.of_nat 1))) [c] [] [] false [] (N.of_nat 1 + 1) ltac:(cbn [length]; lia) ltac:(cbn [length]; lia)) as H.
    cbn [app length] in H. change (N.of_nat 0 + N.of_nat 1) with (N.of_nat 1) in H. change (N.of_nat 0) with 0 in H.
    rewrite H. destruct (c =? 34); reflexivity.
  - assert (El : r = rev m' ++ [q]) by (rewrite <- (rev_involutive r), Er; reflexivity).
    assert (Hlen : N.of_nat (length (c :: r)) - 1 = N.of_nat (length (c :: rev m'))) by (rewrite El; cbn [length]; rewrite app_length; cbn [length]; lia).
    rewrite Hlen.
    replace ((c :: r) ++ [0]) with ((c :: rev m') ++ q :: [0]) by (rewrite El; cbn [app]; rewrite <- app_assoc; reflexivity).
    rewrite bget_last. cbn [bind].
    replace (1 <? N.of_nat (length (c :: r))) with true by (rewrite El; cbn [length]; rewrite app_length; cbn [length]; lia).
    cbn [andb]. destruct (c =? 34) eqn:Ec; [destruct (q =? 34) eqn:Eq|]; cbn [andb]; cbv iota.
    + apply N.eqb_eq in Ec. apply N.eqb_eq in Eq. subst c q.
      pose proof (xesc_plain (S (N.to_nat (N.of_nat (length (34 :: r))))) (rev m') [34] [0] true [] (N.of_nat (length (34 :: r)) + 1)) as H.
      cbn [app length] in H. change (N.of_nat 1) with 1 in H.
      replace (1 + N.of_nat (length (rev m'))) with (N.of_nat (S (length (rev m')))) in H by lia.
      cbn [app length]. rewrite H; [reflexivity| |]; rewrite El, app_length; cbn [length]; lia.
    + pose proof (xesc_plain (S (N.to_nat (N.of_nat (length (c :: r))))) (c :: r) [] [] false [] (N.of_nat (length (c :: r)) + 1) ltac:(lia) ltac:(cbn [length]; lia)) as H.
      cbn [app length] in H. change (N.of_nat 0) with 0 in H. rewrite N.add_0_l in H.
      replace ((c :: rev m') ++ [q; 0]) with (c :: r ++ [0]) by (rewrite El; cbn [app]; rewrite <- app_assoc; reflexivity).
      cbn [length]. rewrite H. reflexivity.
    + pose proof (xesc_plain (S (N.to_nat (N.of_nat (length (c :: r))))) (c :: r) [] [] false [] (N.of_nat (length (c :: r)) + 1) ltac:(lia) ltac:(cbn [length]; lia)) as H.
      cbn [app length] in H. change (N.of_nat 0) with 0 in H. rewrite N.add_0_l in H.
      replace ((c :: rev m') ++ [q; 0]) with (c :: r ++ [0]) by (rewrite El; cbn [app]; rewrite <- app_assoc; reflexivity).
      cbn [length]. rewrite H. reflexivity.
Qed.

(* ================================================================== *)
(* decode                                                              *)
(* ================================================================== *)
Theorem xattr_decode_plain v : Forall nz v ->
  xattr_decode (v ++ [0]) = match decode_plain v with Some d => Ok d | None => Err e_encoding end.
Proof.
  intro Hnz. unfold xattr_decode. rewrite (strlen_app_nul v Hnz). cbn [bind].
  destruct v as [|z r]; [reflexivity|].
  replace (N.of_nat (length (z :: r)) =? 0) with false by (cbn [length]; lia).
  change (bget ((z :: r) ++ [0]) 0) with (@Ok N z). cbn [bind].
  pose proof (decode_text_plain (z :: r) Hnz ltac:(discriminate)) as Htext. cbn [hd] in Htext.
  destruct r as [|x body].
  - change (bget ([z] ++ [0]) 1) with (@Ok N 0). cbn [bind].
    change ((0 =? 120) || (0 =? 88)) with false. change ((0 =? 115) || (0 =? 83)) with false.
    rewrite !andb_false_r. cbv iota. cbn [decode_plain]. exact Htext.
  - change (bget ((z :: x :: body) ++ [0]) 1) with (@Ok N x). cbn [bind decode_plain].
    assert (Hsz : N.of_nat (length (z :: x :: body)) - 2 = N.of_nat (length body)) by (cbn [length]; lia).
    destruct ((z =? 48) && ((x =? 120) || (x =? 88))) eqn:Ehex.
    + rewrite Hsz.
      replace (bfrom ((z :: x :: body) ++ [0]) 2) with (@Ok (list N) (body ++ [0]))
        by (symmetry; apply (bfrom_app [z; x] (body ++ [0]))).
      cbn [bind]. destruct (hex_decode_plain body) as [A B].
      destruct (hex_pairs body) as [t|]; [rewrite A; reflexivity|].
      destruct (B eq_refl) as (acc' & E). rewrite E. reflexivity.
    + destruct ((z =? 48) && ((x =? 115) || (x =? 83))) eqn:Eb64.
      * rewrite Hsz. pose proof (base64_decode_plain body [z; x] eq_refl) as H. cbv zeta in H.
        change ([z; x] ++ body ++ [0]) with ((z :: x :: body) ++ [0]) in H.
        remember ((z :: x :: body) ++ [0]) as mz eqn:Emz.
        destruct (b64_groups body) as [t|].
        -- destruct H as (zs' & E). rewrite E. cbn [bind]. unfold bslice_m.
           replace (N.of_nat (length mz) + N.of_nat (length t) <=? N.of_nat (length (mz ++ t ++ zs')))
             with true by (rewrite !app_length; lia).
           rewrite !Nat2N.id, skipn_app_l, firstn_app_l. reflexivity.
        -- destruct H as (M' & E). rewrite E. reflexivity.
      * exact Htext.
Qed.
