(* C07 (1) — proofs about the hard-link resolver model (HardLinkModel.v):
   A. termination of the repaired resolver for EVERY fstree (no well-formedness needed)
   B. the unpatched resolver spins forever on a concrete tree (for every loop budget)
   C. memory safety on well-formed heaps; every tree built by add_generic is well-formed
   D. what the resolver answers: cycle => EMLINK, dangling => lookup errno, directory => EPERM,
      good chain => resolved; and Ok-of-the-whole-list => every listed link is resolved. *)
From Coq Require Import List NArith Bool Lia Arith.
From SqfsV Require Import C07.Res C07.ResLemmas C07.GenC07 C07.HardLinkModel C18.CanonModel.
Import ListNotations.
Local Open Scope N_scope.

(* ================================================================== *)
(* A. termination                                                      *)
(* ================================================================== *)

Lemma copy_comp_length s : (length (fst (copy_comp s)) + length (snd (copy_comp s)) = length s)%nat.
Proof.
  induction s as [|c r IH]; simpl; [reflexivity|].
  destruct (N.eqb c slash); simpl; [reflexivity|].
  destruct (copy_comp r) as [a b]; simpl in *. lia.
Qed.

Lemma skip_slashes_length p : (length (skip_slashes p) <= length p)%nat.
Proof.
  induction p as [|c r IH]; simpl; [lia|].
  destruct (c =? slash); simpl; lia.
Qed.

(* the rest after one path component is strictly shorter than a non-empty path *)
Lemma lookup_step_shorter c r :
  (length (snd (copy_comp (skip_slashes (c :: r)))) <= length r)%nat.
Proof.
  simpl. destruct (c =? slash) eqn:E.
  - pose proof (copy_comp_length (skip_slashes r)). pose proof (skip_slashes_length r). lia.
  - simpl. unfold slash in *. rewrite E.
    destruct (copy_comp r) as [a b] eqn:E2. simpl.
    pose proof (copy_comp_length r). rewrite E2 in H. simpl in H. lia.
Qed.

Lemma child_by_name_shape h ch name :
  (exists o, child_by_name h ch name = Ok o) \/ child_by_name h ch name = Crash.
Proof.
  induction ch as [|c r IH]; simpl; [left; eauto|].
  unfold deref. destruct (lget_cases h c) as [[n [Hn _]]|[Hn _]]; rewrite Hn; simpl; [|right; reflexivity].
  destruct (bytes_eqb (n_name n) name); [left; eauto|exact IH].
Qed.

Lemma child_by_name_not_fuel h ch name : child_by_name h ch name <> OutOfFuel.
Proof. destruct (child_by_name_shape h ch name) as [[o H]|H]; rewrite H; discriminate. Qed.

Lemma lookup_not_fuel : forall fuel h cur path,
  (length path < fuel)%nat -> lookup fuel h cur path <> OutOfFuel.
Proof.
  induction fuel as [|f IH]; intros h cur path Hl; [lia|].
  destruct path as [|c r]; [simpl; discriminate|].
  cbn [lookup]. unfold deref.
  destruct (lget_cases h cur) as [[n [Hn _]]|[Hn _]]; rewrite Hn; cbn [bind]; [|discriminate].
  destruct (n_kind n); try discriminate.
  pose proof (lookup_step_shorter c r) as Hs.
  destruct (copy_comp (skip_slashes (c :: r))) as [comp rest]. cbn [snd] in Hs.
  destruct (child_by_name_shape h children comp) as [[o Ho]|Ho]; rewrite Ho; cbn [bind]; [|discriminate].
  destruct o; [|discriminate].
  apply IH. simpl in Hl. lia.
Qed.

Lemma lookup_path_not_fuel h path : lookup_path h path <> OutOfFuel.
Proof. unfold lookup_path. apply lookup_not_fuel. lia. Qed.

(* the walk of the repaired code: the hop counter reaches max_hops before the budget is used up *)
Lemma rl_walk_not_fuel : forall fuel h start cur hops m,
  (N.to_nat (m - hops) < fuel)%nat ->
  rl_walk fuel h start cur hops (Some m) <> OutOfFuel.
Proof.
  induction fuel as [|f IH]; intros h start cur hops m Hf; [lia|].
  cbn [rl_walk]. unfold deref.
  destruct (lget_cases h cur) as [[n [Hn _]]|[Hn _]]; rewrite Hn; cbn [bind]; [|discriminate].
  destruct (n_kind n) as [ch|t|p|]; try discriminate.
  - cbn [hops_exhausted]. destruct (m <=? hops) eqn:E; [discriminate|].
    apply N.leb_gt in E.
    destruct (lookup_path h t) eqn:El; cbn [bind]; try discriminate.
    + destruct (Nat.eqb a start); [discriminate|]. apply IH. lia.
    + exfalso. eapply lookup_path_not_fuel; eauto.
  - cbn [hops_exhausted]. destruct (m <=? hops) eqn:E; [discriminate|].
    apply N.leb_gt in E.
    destruct (Nat.eqb p start); [discriminate|]. apply IH. lia.
Qed.

(* destruct the next checked access in the goal *)
Ltac step_access :=
  match goal with
  | |- context [bind (lget ?h ?i) _] =>
    let n := fresh "n" in let Hn := fresh "Hn" in let Hl := fresh "Hl" in
    destruct (lget_cases h i) as [[n [Hn Hl]]|[Hn Hl]]; rewrite Hn; cbn [bind]
  | |- context [bind (lset ?h ?i ?v) _] =>
    let n := fresh "h" in let Hn := fresh "Hs" in let Hl := fresh "Hl" in
    destruct (lset_cases h i v) as [[n [Hn Hl]]|[Hn Hl]]; rewrite Hn; cbn [bind]
  | |- context [lset ?h ?i ?v] =>
    let n := fresh "h" in let Hn := fresh "Hs" in let Hl := fresh "Hl" in
    destruct (lset_cases h i v) as [[n [Hn Hl]]|[Hn Hl]]; rewrite Hn; cbn [bind]
  end.

Lemma rl_commit_not_fuel h s t : rl_commit h s t <> OutOfFuel.
Proof.
  unfold rl_commit, deref.
  step_access; [|discriminate].
  destruct (n_kind n); try discriminate;
  (destruct (n_links n =? link_max); [discriminate|];
   step_access; [|discriminate]; step_access; [|discriminate];
   step_access; [|discriminate]; step_access; discriminate).
Qed.

Lemma resolve_link_not_fuel fuel h start m :
  (N.to_nat m < fuel)%nat -> resolve_link fuel h start (Some m) <> OutOfFuel.
Proof.
  intro Hf. unfold resolve_link. apply bind_not_fuel.
  - apply rl_walk_not_fuel. lia.
  - intros. apply rl_commit_not_fuel.
Qed.

Lemma resolve_loop_not_fuel fuel m : (N.to_nat m < fuel)%nat ->
  forall l h, resolve_loop fuel h l (Some m) <> OutOfFuel.
Proof.
  intros Hf l; induction l as [|n r IH]; intro h; simpl; [discriminate|].
  apply bind_not_fuel; [apply resolve_link_not_fuel; exact Hf|]. intros; apply IH.
Qed.

Lemma resolve_terminates_l fs : resolve_all fs <> OutOfFuel.
Proof. unfold resolve_all. apply resolve_loop_not_fuel. lia. Qed.

(* ================================================================== *)
(* B. the unpatched code: b -> c, c -> b, a -> b, a resolved first     *)
(* ================================================================== *)

Definition nm (c : N) : list N := [c].
(* heap: 0 root, 1 "a" -> "b", 2 "b" -> "c", 3 "c" -> "b" *)
Definition cyc_heap : list node :=
  [ mkNode [] (KDir [1; 2; 3]%nat) 5 true;
    mkNode (nm 97) (KLinkU (nm 98)) 1 false;
    mkNode (nm 98) (KLinkU (nm 99)) 1 false;
    mkNode (nm 99) (KLinkU (nm 98)) 1 false ].
Definition cyc_fs : fstree := mkFs cyc_heap [1; 3; 2]%nat.

(* the tree is what the tool builds from the archive (links are pushed, so "a" comes last) *)
Lemma cyc_fs_is_built :
  build [mkEntry (nm 98) (EHard (nm 99)); mkEntry (nm 99) (EHard (nm 98)); mkEntry (nm 97) (EHard (nm 98))]
  = Ok (mkFs [ mkNode [] (KDir [3; 1; 2]%nat) 5 true;
               mkNode (nm 98) (KLinkU (nm 99)) 1 false;
               mkNode (nm 99) (KLinkU (nm 98)) 1 false;
               mkNode (nm 97) (KLinkU (nm 98)) 1 false ] [3; 2; 1]%nat).
Proof. vm_compute. reflexivity. Qed.

Definition built_cyc_fs : fstree :=
  mkFs [ mkNode [] (KDir [3; 1; 2]%nat) 5 true;
         mkNode (nm 98) (KLinkU (nm 99)) 1 false;
         mkNode (nm 99) (KLinkU (nm 98)) 1 false;
         mkNode (nm 97) (KLinkU (nm 98)) 1 false ] [3; 2; 1]%nat.

Lemma built_cyc_spin : forall fuel hops,
  rl_walk fuel (heap built_cyc_fs) 3%nat 1%nat hops None = OutOfFuel /\
  rl_walk fuel (heap built_cyc_fs) 3%nat 2%nat hops None = OutOfFuel.
Proof.
  induction fuel as [|f IH]; intro hops; [split; reflexivity|].
  destruct (IH (hops + 1)) as [H1 H2].
  split.
  - cbn [rl_walk]. change (deref (heap built_cyc_fs) 1%nat) with (Ok (mkNode (nm 98) (KLinkU (nm 99)) 1 false)).
    cbn [bind n_kind hops_exhausted].
    change (lookup_path (heap built_cyc_fs) (nm 99)) with (@Ok ptr 2%nat). cbn [bind Nat.eqb]. exact H2.
  - cbn [rl_walk]. change (deref (heap built_cyc_fs) 2%nat) with (Ok (mkNode (nm 99) (KLinkU (nm 98)) 1 false)).
    cbn [bind n_kind hops_exhausted].
    change (lookup_path (heap built_cyc_fs) (nm 98)) with (@Ok ptr 1%nat). cbn [bind Nat.eqb]. exact H1.
Qed.

Lemma hardlink_cycle_refuted_l : forall fuel, resolve_all_old fuel built_cyc_fs = OutOfFuel.
Proof.
  intro fuel. unfold resolve_all_old. cbn [unresolved built_cyc_fs resolve_loop].
  unfold resolve_link. destruct fuel as [|f]; [reflexivity|].
  cbn [rl_walk]. change (deref (heap built_cyc_fs) 3%nat) with (Ok (mkNode (nm 97) (KLinkU (nm 98)) 1 false)).
  cbn [bind n_kind hops_exhausted].
  change (lookup_path (heap built_cyc_fs) (nm 98)) with (@Ok ptr 1%nat). cbn [bind Nat.eqb].
  destruct (built_cyc_spin f (0 + 1)) as [H _]. rewrite H. reflexivity.
Qed.

(* the repaired code answers EMLINK on the same tree *)
Lemma hardlink_cycle_repaired_l : resolve_all built_cyc_fs = Err c_EMLINK.
Proof. vm_compute. reflexivity. Qed.

(* ================================================================== *)
(* C. memory safety                                                    *)
(* ================================================================== *)

Definition node_ok (len : nat) (n : node) : Prop :=
  match n_kind n with
  | KDir ch => Forall (fun p => (p < len)%nat) ch
  | KLinkR t => (t < len)%nat
  | _ => True
  end.

Definition wf_heap (h : list node) : Prop :=
  (0 < length h)%nat /\ Forall (node_ok (length h)) h.

Definition wf (fs : fstree) : Prop :=
  wf_heap (heap fs) /\ Forall (fun p => (p < length (heap fs))%nat) (unresolved fs).

Definition is_dir (h : list node) (p : ptr) : Prop :=
  exists n ch, lget h p = Ok n /\ n_kind n = KDir ch.

Lemma node_ok_mono a b n : (a <= b)%nat -> node_ok a n -> node_ok b n.
Proof.
  unfold node_ok. intros Hab H. destruct (n_kind n); auto; [|lia].
  eapply Forall_impl; [|exact H]. simpl. intros. lia.
Qed.

Lemma wf_heap_node h p n : wf_heap h -> lget h p = Ok n -> node_ok (length h) n.
Proof.
  intros [_ Hf] Hg. apply lget_ok_iff in Hg. apply nth_error_In in Hg.
  rewrite Forall_forall in Hf. auto.
Qed.

Lemma lset_Forall {A} (P : A -> Prop) : forall (l : list A) i v l',
  Forall P l -> P v -> lset l i v = Ok l' -> Forall P l'.
Proof.
  induction l as [|x l IH]; intros i v l' Hf Hv Hs; simpl in Hs; [discriminate|].
  inversion Hf; subst. destruct i.
  - inversion Hs; subst. constructor; assumption.
  - destruct (lset l i v) eqn:E; try discriminate. inversion Hs; subst.
    constructor; [assumption|]. eapply IH; [exact H2|exact Hv|exact E].
Qed.

Lemma child_by_name_safe h ch name :
  Forall (fun p => (p < length h)%nat) ch ->
  exists o, child_by_name h ch name = Ok o /\
            match o with Some c => (c < length h)%nat /\ In c ch | None => True end.
Proof.
  induction ch as [|c r IH]; intro Hf; simpl; [exists None; auto|].
  inversion Hf; subst. unfold deref.
  destruct (lget_lt h c H1) as [n Hn]. rewrite Hn; cbn [bind].
  destruct (bytes_eqb (n_name n) name).
  - exists (Some c). auto.
  - destruct (IH H2) as [o [Ho Hp]]. exists o. split; [exact Ho|].
    destruct o; auto. destruct Hp; auto.
Qed.

Lemma lookup_safe : forall fuel h cur path,
  wf_heap h -> (cur < length h)%nat ->
  lookup fuel h cur path <> Crash /\
  (forall p, lookup fuel h cur path = Ok p -> (p < length h)%nat).
Proof.
  induction fuel as [|f IH]; intros h cur path Hw Hc; [split; [discriminate|intros; discriminate]|].
  destruct path as [|c r]; cbn [lookup].
  - split; [discriminate|]. intros p H; inversion H; subst; exact Hc.
  - unfold deref. destruct (lget_lt h cur Hc) as [n Hn]. rewrite Hn; cbn [bind].
    pose proof (wf_heap_node _ _ _ Hw Hn) as Hok. unfold node_ok in Hok.
    destruct (n_kind n) as [ch|t|p|]; try (split; [discriminate|intros; discriminate]).
    destruct (copy_comp (skip_slashes (c :: r))) as [comp rest].
    destruct (child_by_name_safe h ch comp Hok) as [o [Ho Hp]]. rewrite Ho; cbn [bind].
    destruct o as [c'|]; [|split; [discriminate|intros; discriminate]].
    destruct Hp as [Hp _]. apply IH; assumption.
Qed.

Lemma rl_walk_safe : forall fuel h start cur hops mh,
  wf_heap h -> (cur < length h)%nat ->
  rl_walk fuel h start cur hops mh <> Crash /\
  (forall p, rl_walk fuel h start cur hops mh = Ok p -> (p < length h)%nat).
Proof.
  induction fuel as [|f IH]; intros h start cur hops mh Hw Hc; [split; [discriminate|intros; discriminate]|].
  cbn [rl_walk]. unfold deref. destruct (lget_lt h cur Hc) as [n Hn]. rewrite Hn; cbn [bind].
  pose proof (wf_heap_node _ _ _ Hw Hn) as Hok. unfold node_ok in Hok.
  destruct (n_kind n) as [ch|t|p|].
  - split; [discriminate|]. intros p H; inversion H; subst; exact Hc.
  - destruct (hops_exhausted mh hops); [split; [discriminate|intros; discriminate]|].
    unfold lookup_path.
    destruct (lookup_safe (S (length t)) h 0%nat t Hw (proj1 Hw)) as [Hnc Hlt].
    destruct (lookup (S (length t)) h 0%nat t) eqn:El; cbn [bind];
      try (split; [discriminate|intros; discriminate]); [|congruence].
    destruct (Nat.eqb a start); [split; [discriminate|intros; discriminate]|].
    apply IH; auto.
  - destruct (hops_exhausted mh hops); [split; [discriminate|intros; discriminate]|].
    destruct (Nat.eqb p start); [split; [discriminate|intros; discriminate]|].
    apply IH; auto.
  - split; [discriminate|]. intros p H; inversion H; subst; exact Hc.
Qed.

Lemma set_links_ok len n l : node_ok len n -> node_ok len (set_links n l).
Proof. unfold node_ok, set_links. simpl. auto. Qed.

Lemma rl_commit_safe h s t :
  wf_heap h -> (s < length h)%nat -> (t < length h)%nat ->
  rl_commit h s t <> Crash /\
  (forall h', rl_commit h s t = Ok h' -> wf_heap h' /\ length h' = length h).
Proof.
  intros Hw Hs Ht. unfold rl_commit, deref.
  destruct (lget_lt h t Ht) as [tn Htn]. rewrite Htn; cbn [bind].
  assert (Hgoal : forall k : nkind, n_kind tn = k ->
    (match k with KDir _ => False | _ => True end) ->
    (if n_links tn =? link_max then Err c_EMLINK
     else do s0 <- lget h s;
          do h1 <- lset h s (match n_kind s0 with
                             | KLinkU _ | KLinkR _ => set_kind s0 (KLinkR t) | _ => s0 end);
          do t1 <- lget h1 t; lset h1 t (set_links t1 (n_links t1 + 1))) <> Crash /\
    (forall h', (if n_links tn =? link_max then Err c_EMLINK
     else do s0 <- lget h s;
          do h1 <- lset h s (match n_kind s0 with
                             | KLinkU _ | KLinkR _ => set_kind s0 (KLinkR t) | _ => s0 end);
          do t1 <- lget h1 t; lset h1 t (set_links t1 (n_links t1 + 1))) = Ok h' ->
          wf_heap h' /\ length h' = length h)).
  { intros k Hk _.
    destruct (n_links tn =? link_max); [split; [discriminate|intros; discriminate]|].
    destruct (lget_lt h s Hs) as [sn Hsn]. rewrite Hsn; cbn [bind].
    match goal with |- context [lset h s ?v] => set (s' := v) end.
    destruct (lset_lt h s s' Hs) as [h1 Hh1]. rewrite Hh1; cbn [bind].
    destruct (lset_ok_length _ _ _ _ Hh1) as [Hl1 _].
    assert (Ht1 : (t < length h1)%nat) by lia.
    destruct (lget_lt h1 t Ht1) as [t1 Ht1n]. rewrite Ht1n; cbn [bind].
    destruct (lset_lt h1 t (set_links t1 (n_links t1 + 1)) Ht1) as [h2 Hh2]. rewrite Hh2.
    split; [discriminate|]. intros h' E; inversion E; subst h'.
    destruct (lset_ok_length _ _ _ _ Hh2) as [Hl2 _].
    assert (Hw1 : Forall (node_ok (length h)) h1).
    { eapply lset_Forall; [exact (proj2 Hw)| |exact Hh1].
      pose proof (wf_heap_node _ _ _ Hw Hsn) as Hsok. subst s'.
      destruct (n_kind sn) eqn:Ek; auto; unfold node_ok, set_kind; simpl; exact Ht. }
    assert (Hw2 : Forall (node_ok (length h)) h2).
    { eapply lset_Forall; [exact Hw1| |exact Hh2]. apply set_links_ok.
      apply lget_ok_iff in Ht1n. apply nth_error_In in Ht1n. rewrite Forall_forall in Hw1. auto. }
    split; [|lia]. split; [destruct Hw; lia|]. rewrite Hl2, Hl1. exact Hw2. }
  destruct (n_kind tn) eqn:Ek.
  - split; [discriminate|intros; discriminate].
  - exact (Hgoal _ eq_refl I).
  - exact (Hgoal _ eq_refl I).
  - exact (Hgoal _ eq_refl I).
Qed.

Lemma resolve_link_safe fuel h start mh :
  wf_heap h -> (start < length h)%nat ->
  resolve_link fuel h start mh <> Crash /\
  (forall h', resolve_link fuel h start mh = Ok h' -> wf_heap h' /\ length h' = length h).
Proof.
  intros Hw Hs. unfold resolve_link.
  destruct (rl_walk_safe fuel h start start 0 mh Hw Hs) as [Hnc Hlt].
  destruct (rl_walk fuel h start start 0 mh) eqn:E; cbn [bind];
    try (split; [discriminate|intros; discriminate]); [|congruence].
  apply rl_commit_safe; auto.
Qed.

Lemma resolve_loop_safe fuel mh : forall l h,
  wf_heap h -> Forall (fun p => (p < length h)%nat) l ->
  resolve_loop fuel h l mh <> Crash /\
  (forall h', resolve_loop fuel h l mh = Ok h' -> wf_heap h' /\ length h' = length h).
Proof.
  induction l as [|n r IH]; intros h Hw Hf; simpl.
  - split; [discriminate|]. intros h' E; inversion E; subst; auto.
  - inversion Hf; subst.
    destruct (resolve_link_safe fuel h n mh Hw H1) as [Hnc Hok].
    destruct (resolve_link fuel h n mh) eqn:E; cbn [bind];
      try (split; [discriminate|intros; discriminate]); [|congruence].
    destruct (Hok a eq_refl) as [Hwa Hla].
    assert (Hf' : Forall (fun p => (p < length a)%nat) r) by (rewrite Hla; exact H2).
    destruct (IH a Hwa Hf') as [Hnc' Hok'].
    split; [exact Hnc'|]. intros h' E'. destruct (Hok' h' E'). split; [assumption|lia].
Qed.

Lemma resolve_safe_l fs : wf fs -> resolve_all fs <> Crash.
Proof. intros [Hw Hf]. unfold resolve_all. apply resolve_loop_safe; assumption. Qed.

(* ---- the builder keeps the heap well-formed and never crashes ---- *)

Lemma fs_init_wf : wf fs_init.
Proof.
  unfold wf, wf_heap, fs_init; simpl. repeat split; try lia; constructor; auto.
  unfold node_ok; simpl. constructor.
Qed.

Lemma insert_sorted_safe h name p : forall ch,
  Forall (fun q => (q < length h)%nat) ch -> (p < length h)%nat ->
  exists ch', insert_sorted h ch name p = Ok ch' /\ Forall (fun q => (q < length h)%nat) ch'.
Proof.
  induction ch as [|c r IH]; intros Hf Hp; simpl.
  - exists [p]. split; auto.
  - inversion Hf; subst. unfold deref. destruct (lget_lt h c H1) as [n Hn]. rewrite Hn; cbn [bind].
    destruct (bytes_ltb (n_name n) name).
    + destruct (IH H2 Hp) as [r' [Hr Hfr]]. rewrite Hr; cbn [bind]. exists (c :: r'). split; auto.
    + exists (p :: c :: r). split; auto.
Qed.

Lemma Forall_lt_mono (l : list nat) a b : (a <= b)%nat ->
  Forall (fun q => (q < a)%nat) l -> Forall (fun q => (q < b)%nat) l.
Proof. intros Hab H. eapply Forall_impl; [|exact H]. simpl; intros; lia. Qed.

Lemma mknode_safe fs parent name k implicit :
  wf fs -> is_dir (heap fs) parent ->
  mknode fs parent name k implicit <> Crash /\ mknode fs parent name k implicit <> OutOfFuel /\
  (forall fs' p, mknode fs parent name k implicit = Ok (fs', p) ->
     wf fs' /\ (p < length (heap fs'))%nat /\ (length (heap fs) <= length (heap fs'))%nat /\
     (k = EDir -> is_dir (heap fs') p)).
Proof.
  intros [Hw Hu] [pn [ch [Hpn Hk]]]. unfold mknode.
  set (kindr := match k with
                | EDir => Ok (KDir [])
                | EHard t => match canon_result t with Some t' => Ok (KLinkU t') | None => Err c_EINVAL end
                | EOther => Ok KOther end).
  assert (Hkind : (exists kd, kindr = Ok kd /\
                     match kd with KDir c => c = [] /\ k = EDir | KLinkR _ => False
                                 | KLinkU _ => (exists t, k = EHard t) | KOther => k = EOther end)
                  \/ (exists e, kindr = Err e)).
  { subst kindr. destruct k as [|t|].
    - left. eexists; split; [reflexivity|]. simpl; auto.
    - destruct (canon_result t); [left; eexists; split; [reflexivity|]; simpl; eauto|right; eauto].
    - left. eexists; split; [reflexivity|]. simpl; auto. }
  destruct Hkind as [[kd [Hkd Hshape]]|[e He]];
    [|rewrite He; cbn [bind]; split; [discriminate|split; [discriminate|intros; discriminate]]].
  rewrite Hkd; cbn [bind]. unfold deref. rewrite Hpn; cbn [bind].
  destruct (n_links pn =? link_max); [split; [discriminate|split; [discriminate|intros; discriminate]]|].
  rewrite Hk.
  pose proof (lget_ok_lt _ _ _ Hpn) as Hplt.
  pose proof (wf_heap_node _ _ _ Hw Hpn) as Hpok. unfold node_ok in Hpok. rewrite Hk in Hpok.
  set (nn := mkNode name kd (match k with EDir => 2 | _ => 1 end) implicit).
  set (h1 := heap fs ++ [nn]).
  assert (Hl1 : length h1 = S (length (heap fs))) by (subst h1; rewrite app_length; simpl; lia).
  destruct (insert_sorted_safe h1 name (length (heap fs)) ch) as [ch' [Hch' Hfch']].
  { eapply Forall_lt_mono; [|exact Hpok]. lia. }
  { lia. }
  rewrite Hch'; cbn [bind].
  set (pn' := mkNode (n_name pn) (KDir ch') (n_links pn + 1) (n_implicit pn)).
  destruct (lset_lt h1 parent pn' ltac:(lia)) as [h2 Hh2]. rewrite Hh2; cbn [bind].
  destruct (lset_ok_length _ _ _ _ Hh2) as [Hl2 _].
  split; [discriminate|split; [discriminate|]].
  intros fs' p E. inversion E; subst fs' p. clear E. cbn [heap unresolved].
  assert (Hf1 : Forall (node_ok (length h1)) h1).
  { subst h1. apply Forall_app. split.
    - eapply Forall_impl; [|exact (proj2 Hw)]. intros a Ha. eapply node_ok_mono; [|exact Ha].
      rewrite app_length; lia.
    - constructor; [|constructor]. unfold node_ok, nn; simpl.
      destruct kd; auto. + destruct Hshape as [-> _]. constructor. + destruct Hshape. }
  assert (Hf2 : Forall (node_ok (length h1)) h2).
  { eapply lset_Forall; [exact Hf1| |exact Hh2]. unfold node_ok, pn'; simpl. exact Hfch'. }
  unfold wf, wf_heap; cbn [heap unresolved].
  split; [|split; [lia|split; [lia|]]].
  - split.
    + split; [lia|]. rewrite Hl2. exact Hf2.
    + rewrite Hl2, Hl1.
      assert (Hu' : Forall (fun p => (p < S (length (heap fs)))%nat) (unresolved fs))
        by (eapply Forall_lt_mono; [|exact Hu]; lia).
      destruct k; auto.
  - intro Ek. subst k.
    assert (Hkd' : kd = KDir []).
    { destruct kd; simpl in Hshape.
      - destruct Hshape as [-> _]; reflexivity.
      - destruct Hshape as [t Ht]; discriminate.
      - destruct Hshape.
      - discriminate. }
    exists nn, []. split; [|unfold nn; simpl; exact Hkd'].
    destruct (Nat.eq_dec parent (length (heap fs))) as [Epl|Npl]; [lia|].
    rewrite (lset_get_other _ _ _ _ _ Hh2 Npl). subst h1. apply lget_app_last.
Qed.

Lemma has_slash_rest s : has_slash s = true -> snd (copy_comp s) <> [].
Proof.
  induction s as [|c r IH]; simpl; [discriminate|].
  destruct (N.eqb c slash); simpl; [discriminate|].
  intro H. specialize (IH H). destruct (copy_comp r); simpl in *. exact IH.
Qed.

Lemma get_parent_safe : forall fuel fs cur path,
  wf fs -> (cur < length (heap fs))%nat -> path <> [] ->
  get_parent fuel fs cur path <> Crash /\
  ((length path < fuel)%nat -> get_parent fuel fs cur path <> OutOfFuel) /\
  (forall fs' p, get_parent fuel fs cur path = Ok (fs', p) ->
     wf fs' /\ is_dir (heap fs') p /\ (length (heap fs) <= length (heap fs'))%nat).
Proof.
  induction fuel as [|f IH]; intros fs cur path Hw Hc Hne.
  - split; [discriminate|split; [lia|intros; discriminate]].
  - destruct path as [|c r]; [congruence|]. cbn [get_parent].
    unfold deref. destruct (lget_lt _ _ Hc) as [n Hn]. rewrite Hn; cbn [bind].
    pose proof (wf_heap_node _ _ _ (proj1 Hw) Hn) as Hok. unfold node_ok in Hok.
    destruct (n_kind n) as [ch|t|p|] eqn:Ek;
      try (split; [discriminate|split; [discriminate|intros; discriminate]]).
    destruct (has_slash (skip_slashes (c :: r))) eqn:Hs; cbn [negb].
    2:{ split; [discriminate|split; [discriminate|]]. intros fs' p E; inversion E; subst.
        split; [exact Hw|split; [|lia]]. exists n, ch. auto. }
    pose proof (lookup_step_shorter c r) as Hsh.
    pose proof (has_slash_rest _ Hs) as Hrest.
    destruct (copy_comp (skip_slashes (c :: r))) as [comp rest]. cbn [snd] in Hsh, Hrest.
    destruct (child_by_name_safe (heap fs) ch comp Hok) as [o [Ho Hp]]. rewrite Ho; cbn [bind].
    destruct o as [c'|].
    + destruct Hp as [Hp _].
      destruct (IH fs c' rest Hw Hp Hrest) as [H1 [H2 H3]].
      split; [exact H1|split; [|exact H3]]. intro Hl. apply H2. simpl in Hl. lia.
    + assert (Hd : is_dir (heap fs) cur) by (exists n, ch; auto).
      destruct (mknode_safe fs cur comp EDir true Hw Hd) as [M1 [M2 M3]].
      destruct (mknode fs cur comp EDir true) as [[fs1 c1]| | |] eqn:Em; cbn [bind];
        try (split; [discriminate|split; [discriminate|intros; discriminate]]); try congruence.
      destruct (M3 fs1 c1 eq_refl) as [Hw1 [Hc1 [Hle1 _]]].
      destruct (IH fs1 c1 rest Hw1 Hc1 Hrest) as [H1 [H2 H3]].
      split; [exact H1|split].
      * intro Hl. apply H2. simpl in Hl. lia.
      * intros fs' p E. destruct (H3 fs' p E) as [A [B C]]. split; [exact A|split; [exact B|lia]].
Qed.

Lemma add_generic_safe fs e :
  wf fs ->
  add_generic fs e <> Crash /\ add_generic fs e <> OutOfFuel /\
  (forall fs', add_generic fs e = Ok fs' -> wf fs').
Proof.
  intro Hw. unfold add_generic.
  (* the "already exists" branch *)
  assert (Hex : forall fs0 child, wf fs0 -> (child < length (heap fs0))%nat ->
    let r := (do cn <- deref (heap fs0) child;
              match n_kind cn, e_kind e with
              | KDir ch, EDir =>
                if n_implicit cn then
                  do h' <- lset (heap fs0) child (mkNode (n_name cn) (KDir ch) (n_links cn) false);
                  Ok (mkFs h' (unresolved fs0))
                else Err c_EEXIST
              | _, _ => Err c_EEXIST
              end) in
    r <> Crash /\ r <> OutOfFuel /\ (forall fs', r = Ok fs' -> wf fs')).
  { intros fs0 child Hw0 Hc r. subst r. unfold deref.
    destruct (lget_lt _ _ Hc) as [cn Hcn]. rewrite Hcn; cbn [bind].
    pose proof (wf_heap_node _ _ _ (proj1 Hw0) Hcn) as Hok. unfold node_ok in Hok.
    destruct (n_kind cn) as [ch|t|p|] eqn:Ek;
      try (split; [discriminate|split; [discriminate|intros; discriminate]]).
    destruct (e_kind e); try (split; [discriminate|split; [discriminate|intros; discriminate]]).
    destruct (n_implicit cn); [|split; [discriminate|split; [discriminate|intros; discriminate]]].
    match goal with |- context [lset ?h ?i ?v] => destruct (lset_lt h i v Hc) as [h' Hh'] end.
    rewrite Hh'; cbn [bind]. split; [discriminate|split; [discriminate|]].
    intros fs' E; inversion E; subst fs'. destruct (lset_ok_length _ _ _ _ Hh') as [Hl _].
    destruct Hw0 as [[Hpos Hall] Hu]. unfold wf, wf_heap; cbn [heap unresolved]. rewrite Hl.
    split; [split; [exact Hpos|]|exact Hu].
    eapply lset_Forall; [exact Hall| |exact Hh']. unfold node_ok; simpl. exact Hok. }
  destruct (e_name e) as [|c r] eqn:En.
  - apply Hex; [exact Hw|exact (proj1 (proj1 Hw))].
  - destruct (get_parent_safe (S (length (c :: r))) fs 0%nat (c :: r) Hw (proj1 (proj1 Hw)) ltac:(discriminate))
      as [G1 [G2 G3]].
    destruct (get_parent (S (length (c :: r))) fs 0%nat (c :: r)) as [[fs1 parent]| | |] eqn:Eg; cbn [bind];
      try (split; [discriminate|split; [discriminate|intros; discriminate]]); try congruence.
    2:{ exfalso. apply G2; [lia|reflexivity]. }
    destruct (G3 fs1 parent eq_refl) as [Hw1 [[pn [ch [Hpn Hk]]] _]].
    unfold deref. rewrite Hpn; cbn [bind]. rewrite Hk.
    pose proof (wf_heap_node _ _ _ (proj1 Hw1) Hpn) as Hok. unfold node_ok in Hok. rewrite Hk in Hok.
    destruct (child_by_name_safe (heap fs1) ch (last_comp (c :: r)) Hok) as [o [Ho Hp]].
    rewrite Ho; cbn [bind]. destruct o as [child|].
    + destruct Hp as [Hp _]. apply Hex; assumption.
    + assert (Hd : is_dir (heap fs1) parent) by (exists pn, ch; auto).
      destruct (mknode_safe fs1 parent (last_comp (c :: r)) (e_kind e) false Hw1 Hd) as [M1 [M2 M3]].
      destruct (mknode fs1 parent (last_comp (c :: r)) (e_kind e) false) as [[fs2 p2]| | |] eqn:Em; cbn [bind];
        try (split; [discriminate|split; [discriminate|intros; discriminate]]); try congruence.
      split; [discriminate|split; [discriminate|]]. intros fs' E; inversion E; subst fs'.
      cbn [fst]. exact (proj1 (M3 fs2 p2 eq_refl)).
Qed.

Lemma build_from_safe : forall es fs, wf fs ->
  build_from fs es <> Crash /\ build_from fs es <> OutOfFuel /\
  (forall fs', build_from fs es = Ok fs' -> wf fs').
Proof.
  induction es as [|e r IH]; intros fs Hw; simpl.
  - split; [discriminate|split; [discriminate|]]. intros fs' E; inversion E; subst; exact Hw.
  - destruct (add_generic_safe fs e Hw) as [A1 [A2 A3]].
    destruct (add_generic fs e) eqn:Ea; cbn [bind];
      try (split; [discriminate|split; [discriminate|intros; discriminate]]); try congruence.
    apply IH. apply A3. reflexivity.
Qed.

Lemma build_wf_l es fs : build es = Ok fs -> wf fs.
Proof. intro H. exact (proj2 (proj2 (build_from_safe es fs_init fs_init_wf)) fs H). Qed.

Lemma build_graceful_l es : graceful (build es).
Proof. destruct (build_from_safe es fs_init fs_init_wf) as [A [B _]]. split; assumption. Qed.

(* the whole pipeline: for EVERY list of entries, no crash and no hang *)
Lemma build_and_resolve_graceful_l es : graceful (build_and_resolve es).
Proof.
  unfold build_and_resolve. destruct (build_graceful_l es) as [A B].
  destruct (build es) eqn:E; cbn [bind]; split; try discriminate; try congruence.
  - apply resolve_safe_l. eapply build_wf_l; eauto.
  - apply resolve_terminates_l.
Qed.

(* ================================================================== *)
(* D. what the resolver answers                                        *)
(* ================================================================== *)

(* one step of the walk, as a specification: None = "not a hard link, the walk stops here" *)
Definition hop (h : list node) (p : ptr) : res (option ptr) :=
  do n <- deref h p;
  match n_kind n with
  | KLinkU t => do q <- lookup_path h t; Ok (Some q)
  | KLinkR q => Ok (Some q)
  | _ => Ok None
  end.

(* chain h p k r: following k links from p arrives at r *)
Inductive chain (h : list node) : ptr -> nat -> ptr -> Prop :=
| chain_0 p : chain h p 0 p
| chain_S p q k r : hop h p = Ok (Some q) -> chain h q k r -> chain h p (S k) r.

(* the walk from p never comes back to [start] during its first k hops *)
Definition avoids (h : list node) (start p : ptr) (k : nat) : Prop :=
  forall j q, (0 < j <= k)%nat -> chain h p j q -> q <> start.

Lemma chain_S_inv h p k r : chain h p (S k) r -> exists q, hop h p = Ok (Some q) /\ chain h q k r.
Proof. intro H. inversion H; subst. eauto. Qed.

Lemma chain_0_inv h p r : chain h p 0 r -> r = p.
Proof. intro H. inversion H; subst. reflexivity. Qed.

Lemma chain_det h p k r r' : chain h p k r -> chain h p k r' -> r = r'.
Proof.
  intro H; revert r'; induction H; intros r' H'.
  - apply chain_0_inv in H'. auto.
  - apply chain_S_inv in H'. destruct H' as [q' [Hh Hc]]. rewrite H in Hh. inversion Hh; subst. auto.
Qed.

Lemma chain_snoc h p k q r : chain h p k q -> hop h q = Ok (Some r) -> chain h p (S k) r.
Proof.
  induction 1; intro Hq.
  - econstructor; [exact Hq|constructor].
  - econstructor; [exact H|]. auto.
Qed.

Lemma chain_split h p j k r : chain h p (j + k) r -> exists q, chain h p j q /\ chain h q k r.
Proof.
  revert p; induction j as [|j IH]; intros p H; simpl in H.
  - exists p. split; [constructor|exact H].
  - apply chain_S_inv in H. destruct H as [q [Hh Hc]].
    destruct (IH _ Hc) as [q' [A B]]. exists q'. split; [econstructor; eauto|exact B].
Qed.

Lemma avoids_step h start p q k :
  hop h p = Ok (Some q) -> avoids h start p (S k) -> q <> start /\ avoids h start q k.
Proof.
  intros Hh Ha. split.
  - apply (Ha 1%nat q); [lia|]. econstructor; [exact Hh|constructor].
  - intros j r Hj Hc. apply (Ha (S j) r); [lia|]. econstructor; eauto.
Qed.

Lemma hop_unfold h p :
  hop h p = match deref h p with
            | Ok n => match n_kind n with
                      | KLinkU t => do q <- lookup_path h t; Ok (Some q)
                      | KLinkR q => Ok (Some q)
                      | _ => Ok None end
            | Err e => Err e | Crash => Crash | OutOfFuel => OutOfFuel end.
Proof. unfold hop. destruct (deref h p); reflexivity. Qed.

(* --- soundness of the walk: Ok t means t is the end of the chain --- *)
Lemma rl_walk_sound : forall fuel h start cur hops mh t,
  rl_walk fuel h start cur hops mh = Ok t ->
  exists k, chain h cur k t /\ hop h t = Ok None /\ avoids h start cur k.
Proof.
  induction fuel as [|f IH]; intros h start cur hops mh t H; [discriminate|].
  cbn [rl_walk] in H. destruct (deref h cur) as [n| | |] eqn:En; cbn [bind] in H; try discriminate.
  assert (Hstop : (match n_kind n with KLinkU _ | KLinkR _ => False | _ => True end) -> Ok cur = Ok t ->
            exists k, chain h cur k t /\ hop h t = Ok None /\ avoids h start cur k).
  { intros Hk E. inversion E; subst t. exists 0%nat. split; [constructor|].
    split; [rewrite hop_unfold, En; destruct (n_kind n); try reflexivity; destruct Hk|].
    intros j q Hj; lia. }
  destruct (n_kind n) as [ch|tg|p|] eqn:Ek.
  - apply Hstop; auto.
  - destruct (hops_exhausted mh hops); [discriminate|].
    destruct (lookup_path h tg) as [nx| | |] eqn:El; cbn [bind] in H; try discriminate.
    destruct (Nat.eqb nx start) eqn:Es; [discriminate|]. apply Nat.eqb_neq in Es.
    destruct (IH _ _ _ _ _ _ H) as [k [Hc [Hh Ha]]].
    assert (Hhop : hop h cur = Ok (Some nx)) by (rewrite hop_unfold, En, Ek, El; reflexivity).
    exists (S k). split; [econstructor; eauto|]. split; [exact Hh|].
    intros j q Hj Hcj. destruct j as [|j]; [lia|].
    apply chain_S_inv in Hcj. destruct Hcj as [q0 [Hh0 Hc0]].
    rewrite Hhop in Hh0; inversion Hh0; subst q0.
    destruct j as [|j].
    + apply chain_0_inv in Hc0. subst q. exact Es.
    + apply (Ha (S j) q); [lia|exact Hc0].
  - destruct (hops_exhausted mh hops); [discriminate|].
    destruct (Nat.eqb p start) eqn:Es; [discriminate|]. apply Nat.eqb_neq in Es.
    destruct (IH _ _ _ _ _ _ H) as [k [Hc [Hh Ha]]].
    assert (Hhop : hop h cur = Ok (Some p)) by (rewrite hop_unfold, En, Ek; reflexivity).
    exists (S k). split; [econstructor; eauto|]. split; [exact Hh|].
    intros j q Hj Hcj. destruct j as [|j]; [lia|].
    apply chain_S_inv in Hcj. destruct Hcj as [q0 [Hh0 Hc0]].
    rewrite Hhop in Hh0; inversion Hh0; subst q0.
    destruct j as [|j].
    + apply chain_0_inv in Hc0. subst q. exact Es.
    + apply (Ha (S j) q); [lia|exact Hc0].
  - apply Hstop; auto.
Qed.

(* --- completeness of the walk within the hop bound --- *)
Lemma hop_some_inv h p q : hop h p = Ok (Some q) ->
  exists n, deref h p = Ok n /\
    ((exists t, n_kind n = KLinkU t /\ lookup_path h t = Ok q) \/ n_kind n = KLinkR q).
Proof.
  rewrite hop_unfold. destruct (deref h p) as [n| | |]; try discriminate.
  intro H. exists n. split; [reflexivity|].
  destruct (n_kind n) as [ch|t|r|]; try discriminate.
  - left. exists t. split; [reflexivity|].
    destruct (lookup_path h t); cbn [bind] in H; try discriminate. inversion H; reflexivity.
  - right. inversion H; reflexivity.
Qed.

Lemma hop_none_inv h p : hop h p = Ok None ->
  exists n, deref h p = Ok n /\ (match n_kind n with KLinkU _ | KLinkR _ => False | _ => True end).
Proof.
  rewrite hop_unfold. destruct (deref h p) as [n| | |]; try discriminate.
  intro H. exists n. split; [reflexivity|].
  destruct (n_kind n) as [ch|t|r|]; auto.
  - destruct (lookup_path h t); cbn [bind] in H; discriminate.
  - discriminate.
Qed.

Lemma rl_walk_complete : forall k fuel h start cur hops m t,
  chain h cur k t -> hop h t = Ok None -> avoids h start cur k ->
  hops + N.of_nat k <= m -> (k < fuel)%nat ->
  rl_walk fuel h start cur hops (Some m) = Ok t.
Proof.
  induction k as [|k IH]; intros fuel h start cur hops m t Hc Hn Ha Hb Hf.
  - apply chain_0_inv in Hc; subst t. destruct fuel as [|f]; [lia|]. cbn [rl_walk].
    destruct (hop_none_inv _ _ Hn) as [n [Hd Hk]]. rewrite Hd; cbn [bind].
    destruct (n_kind n); try reflexivity; destruct Hk.
  - apply chain_S_inv in Hc. destruct Hc as [q [H0 Hc]]. destruct fuel as [|f]; [lia|]. cbn [rl_walk].
    destruct (avoids_step _ _ _ _ _ H0 Ha) as [Hq Ha'].
    destruct (hop_some_inv _ _ _ H0) as [n [Hd [[tg [Hk Hl]]|Hk]]]; rewrite Hd; cbn [bind]; rewrite Hk.
    + cbn [hops_exhausted]. replace (m <=? hops) with false by (symmetry; apply N.leb_gt; lia).
      rewrite Hl; cbn [bind]. replace (Nat.eqb q start) with false by (symmetry; apply Nat.eqb_neq; exact Hq).
      apply IH; auto; lia.
    + cbn [hops_exhausted]. replace (m <=? hops) with false by (symmetry; apply N.leb_gt; lia).
      replace (Nat.eqb q start) with false by (symmetry; apply Nat.eqb_neq; exact Hq).
      apply IH; auto; lia.
Qed.

(* --- a walk that can always go on (a cycle, through the start node or not) is refused with EMLINK --- *)
Definition endless (h : list node) (p : ptr) : Prop :=
  forall k q, chain h p k q -> exists q', hop h q = Ok (Some q').

Lemma endless_step h p q : endless h p -> hop h p = Ok (Some q) -> endless h q.
Proof. intros He Hh k r Hc. apply (He (S k) r). econstructor; eauto. Qed.

Lemma rl_walk_endless : forall fuel h start cur hops m,
  endless h cur ->
  rl_walk fuel h start cur hops (Some m) = Err c_EMLINK \/
  rl_walk fuel h start cur hops (Some m) = OutOfFuel.
Proof.
  induction fuel as [|f IH]; intros h start cur hops m He; [right; reflexivity|].
  cbn [rl_walk]. destruct (He 0%nat cur (chain_0 h cur)) as [q Hq].
  pose proof (endless_step _ _ _ He Hq) as He'.
  destruct (hop_some_inv _ _ _ Hq) as [n [Hd [[tg [Hk Hl]]|Hk]]]; rewrite Hd; cbn [bind]; rewrite Hk.
  - destruct (hops_exhausted (Some m) hops); [left; reflexivity|]. rewrite Hl; cbn [bind].
    destruct (Nat.eqb q start); [left; reflexivity|]. apply IH; exact He'.
  - destruct (hops_exhausted (Some m) hops); [left; reflexivity|].
    destruct (Nat.eqb q start); [left; reflexivity|]. apply IH; exact He'.
Qed.

Lemma resolve_link_cycle_l h start m :
  endless h start -> resolve_link (S (N.to_nat m)) h start (Some m) = Err c_EMLINK.
Proof.
  intro He. unfold resolve_link.
  destruct (rl_walk_endless (S (N.to_nat m)) h start start 0 m He) as [H|H].
  - rewrite H. reflexivity.
  - exfalso. eapply rl_walk_not_fuel; [|exact H]. lia.
Qed.

(* --- a walk that arrives at a link whose target does not resolve reports the lookup's errno --- *)
Lemma rl_walk_dangling : forall k fuel h start cur hops m q e,
  chain h cur k q -> hop h q = Err e -> avoids h start cur k ->
  hops + N.of_nat k < m -> (k < fuel)%nat ->
  rl_walk fuel h start cur hops (Some m) = Err e.
Proof.
  induction k as [|k IH]; intros fuel h start cur hops m q e Hc Hn Ha Hb Hf.
  - apply chain_0_inv in Hc; subst q. destruct fuel as [|f]; [lia|]. cbn [rl_walk].
    rewrite hop_unfold in Hn. destruct (deref h cur) as [n| | |] eqn:Hd; try discriminate.
    + cbn [bind]. destruct (n_kind n) as [ch|tg|r|]; try discriminate.
      cbn [hops_exhausted]. replace (m <=? hops) with false by (symmetry; apply N.leb_gt; lia).
      destruct (lookup_path h tg); cbn [bind] in *; try discriminate. inversion Hn; reflexivity.
    + exfalso. unfold deref in Hd. eapply lget_not_err; eauto.
  - apply chain_S_inv in Hc. destruct Hc as [q0 [H0 Hc]]. destruct fuel as [|f]; [lia|]. cbn [rl_walk].
    destruct (avoids_step _ _ _ _ _ H0 Ha) as [Hq Ha'].
    destruct (hop_some_inv _ _ _ H0) as [n [Hd [[tg [Hk Hl]]|Hk]]]; rewrite Hd; cbn [bind]; rewrite Hk.
    + cbn [hops_exhausted]. replace (m <=? hops) with false by (symmetry; apply N.leb_gt; lia).
      rewrite Hl; cbn [bind]. replace (Nat.eqb q0 start) with false by (symmetry; apply Nat.eqb_neq; exact Hq).
      eapply IH; eauto; lia.
    + cbn [hops_exhausted]. replace (m <=? hops) with false by (symmetry; apply N.leb_gt; lia).
      replace (Nat.eqb q0 start) with false by (symmetry; apply Nat.eqb_neq; exact Hq).
      eapply IH; eauto; lia.
Qed.

Lemma resolve_link_dangling_l h start m k q e :
  chain h start k q -> hop h q = Err e -> avoids h start start k -> N.of_nat k < m ->
  resolve_link (S (N.to_nat m)) h start (Some m) = Err e.
Proof.
  intros Hc Hh Ha Hb. unfold resolve_link.
  rewrite (rl_walk_dangling k _ h start start 0 m q e Hc Hh Ha); [reflexivity|lia|lia].
Qed.

(* --- a chain that ends in a directory: EPERM --- *)
Lemma resolve_link_dir_l h start m k t tn ch :
  chain h start k t -> deref h t = Ok tn -> n_kind tn = KDir ch ->
  avoids h start start k -> N.of_nat k <= m ->
  resolve_link (S (N.to_nat m)) h start (Some m) = Err c_EPERM.
Proof.
  intros Hc Hd Hk Ha Hb. unfold resolve_link.
  assert (Hn : hop h t = Ok None) by (rewrite hop_unfold, Hd, Hk; reflexivity).
  rewrite (rl_walk_complete k _ h start start 0 m t Hc Hn Ha); [|lia|lia].
  cbn [bind]. unfold rl_commit. rewrite Hd; cbn [bind]. rewrite Hk. reflexivity.
Qed.

(* --- a chain that ends in a file (or anything that is neither link nor directory): resolved --- *)
Definition final (h : list node) (t : ptr) : Prop :=
  exists tn, deref h t = Ok tn /\ n_kind tn = KOther.

Lemma resolve_link_good_l h start m k t tn sn tg :
  chain h start k t -> deref h t = Ok tn -> n_kind tn = KOther -> n_links tn <> link_max ->
  deref h start = Ok sn -> n_kind sn = KLinkU tg ->
  avoids h start start k -> N.of_nat k <= m ->
  exists h', resolve_link (S (N.to_nat m)) h start (Some m) = Ok h' /\
    deref h' start = Ok (set_kind sn (KLinkR t)) /\
    deref h' t = Ok (set_links tn (n_links tn + 1)) /\
    (forall p, p <> start -> p <> t -> deref h' p = deref h p).
Proof.
  intros Hc Hd Hk Hl Hs Hsk Ha Hb. unfold resolve_link.
  assert (Hn : hop h t = Ok None) by (rewrite hop_unfold, Hd, Hk; reflexivity).
  rewrite (rl_walk_complete k _ h start start 0 m t Hc Hn Ha); [|lia|lia].
  cbn [bind]. unfold rl_commit. rewrite Hd; cbn [bind]. rewrite Hk.
  replace (n_links tn =? link_max) with false by (symmetry; apply N.eqb_neq; exact Hl).
  rewrite Hs; cbn [bind]. rewrite Hsk.
  assert (Hne : start <> t).
  { intro E; subst t. rewrite Hs in Hd; inversion Hd; subst. rewrite Hsk in Hk; discriminate. }
  unfold deref in *.
  destruct (lset_lt h start (set_kind sn (KLinkR t)) (lget_ok_lt _ _ _ Hs)) as [h1 Hh1].
  rewrite Hh1; cbn [bind].
  rewrite (lset_get_other _ _ _ _ _ Hh1 Hne), Hd; cbn [bind].
  destruct (lset_ok_length _ _ _ _ Hh1) as [Hl1 _].
  destruct (lset_lt h1 t (set_links tn (n_links tn + 1)) ltac:(rewrite Hl1; eapply lget_ok_lt; eauto)) as [h2 Hh2].
  rewrite Hh2. exists h2. split; [reflexivity|]. split; [|split].
  - rewrite (lset_get_other _ _ _ _ _ Hh2 (not_eq_sym Hne)). eapply lset_get_same; eauto.
  - eapply lset_get_same; eauto.
  - intros p Hp1 Hp2. rewrite (lset_get_other _ _ _ _ _ Hh2 (not_eq_sym Hp2)).
    apply (lset_get_other _ _ _ _ _ Hh1 (not_eq_sym Hp1)).
Qed.

(* --- soundness of a single resolution: Ok means the chain ended in a non-directory non-link --- *)
Lemma resolve_link_sound_l fuel h start mh h' :
  resolve_link fuel h start mh = Ok h' ->
  exists k t, chain h start k t /\ final h t /\ avoids h start start k.
Proof.
  unfold resolve_link. intro H.
  destruct (rl_walk fuel h start start 0 mh) as [t| | |] eqn:Ew; cbn [bind] in H; try discriminate.
  destruct (rl_walk_sound _ _ _ _ _ _ _ Ew) as [k [Hc [Hn Ha]]].
  exists k, t. split; [exact Hc|split; [|exact Ha]].
  unfold rl_commit in H. destruct (deref h t) as [tn| | |] eqn:Hd; cbn [bind] in H; try discriminate.
  exists tn. split; [exact Hd|].
  destruct (hop_none_inv _ _ Hn) as [n' [Hd' Hk']]. rewrite Hd in Hd'; inversion Hd'; subst n'.
  destruct (n_kind tn); try reflexivity; try destruct Hk'. discriminate.
Qed.

(* the walk from "a" in the refuting tree can always go on *)
Lemma built_cyc_closed : forall k p q,
  (p = 1 \/ p = 2 \/ p = 3)%nat -> chain (heap built_cyc_fs) p k q -> (q = 1 \/ q = 2 \/ q = 3)%nat.
Proof.
  induction k as [|k IH]; intros p q Hp Hc.
  - apply chain_0_inv in Hc. subst; exact Hp.
  - apply chain_S_inv in Hc. destruct Hc as [q' [Hh Hc]].
    apply (IH q' q); [|exact Hc].
    destruct Hp as [E|[E|E]]; subst p; vm_compute in Hh; inversion Hh; auto.
Qed.

Lemma built_cyc_endless : endless (heap built_cyc_fs) 3%nat.
Proof.
  intros k q Hc. destruct (built_cyc_closed k 3%nat q ltac:(auto) Hc) as [E|[E|E]]; subst q;
    eexists; vm_compute; reflexivity.
Qed.
