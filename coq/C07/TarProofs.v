(* C07 (2) — safety and termination of the tar reader model (TarModel.v): for EVERY input stream
   read_header / the archive walk neither leave a buffer (Crash) nor run out of their budget
   (OutOfFuel).  The lemmas that carry it:
     pax_line_safe        the PAX record buffer (len arithmetic, the two NUL stores, key/value scans)
     new_sparse_step_safe the 512/1024-byte window of the GNU 1.0 sparse map (1 <= diff <= 512)
     old_parse_safe       the 4 / 21 entry tables inside 512-byte blocks (layout from GenC07.v)
     decode_header_safe   every tar_header_t field inside the 512-byte block (layout from GenC07.v) *)
From Coq Require Import List NArith ZArith Bool Lia ZifyBool ZifyNat ZifyN.
From SqfsV Require Import C07.Res C07.ResLemmas C07.GenC07 C07.NumModel C07.NumProofs C07.TarModel.
Import ListNotations.
Local Open Scope N_scope.
Ltac Zify.zify_post_hook ::= Z.div_mod_to_equations.

Ltac done_graceful := split; discriminate.

(* ================================================================== *)
(* streams                                                             *)
(* ================================================================== *)
Lemma sread_spec n s :
  length (fst (sread n s)) = Nat.min (N.to_nat n) (length s) /\
  (length (snd (sread n s)) = length s - N.to_nat n)%nat.
Proof. unfold sread; simpl. rewrite firstn_length, skipn_length. auto. Qed.

Lemma sskip_le n s : (length (sskip n s) <= length s)%nat.
Proof.
  unfold sskip. destruct (N.of_nat (length s) <=? n); simpl; [lia|].
  rewrite skipn_length. lia.
Qed.

Lemma blen_app a b : blen (a ++ b) = blen a + blen b.
Proof. unfold blen. rewrite app_length. lia. Qed.

Lemma record_to_memory_spec s size :
  (exists e, record_to_memory s size = Err e) \/
  (exists buf s2, record_to_memory s size = Ok (buf, s2) /\
     blen buf = size + 1 /\ bget buf size = Ok 0 /\ (length s2 <= length s)%nat /\
     (0 < size -> (length s2 < length s)%nat)).
Proof.
  unfold record_to_memory. destruct (sread_spec size s) as [H1 H2].
  destruct (sread size s) as [d s1]. cbn [fst snd] in *.
  destruct (blen d <? size) eqn:E; [left; eauto|right]. apply N.ltb_ge in E. unfold blen in E.
  assert (Hd : length d = N.to_nat size) by lia.
  eexists; eexists; split; [reflexivity|].
  split; [rewrite blen_app; unfold blen; simpl; lia|].
  split.
  - unfold bget. rewrite <- Hd. apply lget_app_last.
  - destruct (size mod 512 =? 0); [split; lia|].
    pose proof (sskip_le (512 - size mod 512) s1). split; lia.
Qed.

(* ================================================================== *)
(* header fields                                                       *)
(* ================================================================== *)
Lemma hfield_ok h off len : off + len <= blen h ->
  exists f, hfield h off len = Ok f /\ length f = N.to_nat len.
Proof.
  intro H. unfold hfield.
  assert (Eb : (off + len <=? blen h) = true) by (apply N.leb_le; exact H). rewrite Eb.
  eexists; split; [reflexivity|]. rewrite firstn_length, skipn_length. unfold blen in H. lia.
Qed.

Lemma num_field_safe h off len : off + len <= blen h -> 0 < len ->
  (exists v, num_field h off len = Ok v) \/ (exists e, num_field h off len = Err e).
Proof.
  intros H Hl. unfold num_field. destruct (hfield_ok h off len H) as [f [E Hf]]. rewrite E; cbn [bind].
  apply read_number_shape. destruct f; [simpl in Hf; lia|discriminate].
Qed.

Ltac field_in_header :=
  unfold hoff_name, hlen_name, hoff_mode, hlen_mode, hoff_uid, hlen_uid, hoff_gid, hlen_gid, hoff_size, hlen_size,
    hoff_mtime, hlen_mtime, hoff_chksum, hlen_chksum, hoff_typeflag, hlen_typeflag, hoff_linkname, hlen_linkname,
    hoff_magic, hlen_magic, hoff_version, hlen_version, hoff_devmajor, hlen_devmajor, hoff_devminor, hlen_devminor,
    hoff_prefix, hlen_prefix, hoff_gnu_sparse, hlen_gnu_sparse, hoff_gnu_isextended, hoff_gnu_realsize, hlen_gnu_realsize,
    sizeof_tar_header_t in *; lia.

Lemma compute_checksum_safe h : blen h = sizeof_tar_header_t -> exists c, compute_checksum h = Ok c.
Proof.
  intro Hh. unfold compute_checksum.
  destruct (hfield_ok h hoff_chksum hlen_chksum ltac:(field_in_header)) as [f [E _]]. rewrite E. cbn [bind]. eauto.
Qed.

Lemma checksum_valid_safe h : blen h = sizeof_tar_header_t -> exists b, checksum_valid h = Ok b.
Proof.
  intro Hh. unfold checksum_valid.
  destruct (hfield_ok h hoff_chksum hlen_chksum ltac:(field_in_header)) as [f [E Hf]]. rewrite E. cbn [bind].
  assert (Hne : f <> []) by (destruct f; [unfold hlen_chksum in Hf; simpl in Hf; lia|discriminate]).
  destruct (read_number_shape f Hne) as [[v Ev]|[e Ev]]; rewrite Ev; [|eauto].
  destruct (compute_checksum_safe h Hh) as [c Ec]. rewrite Ec. cbn [bind]. eauto.
Qed.

Lemma check_version_safe h : blen h = sizeof_tar_header_t -> exists v, check_version h = Ok v.
Proof.
  intro Hh. unfold check_version.
  destruct (hfield_ok h hoff_magic hlen_magic ltac:(field_in_header)) as [f [E _]]. rewrite E. cbn [bind].
  destruct (hfield_ok h hoff_version hlen_version ltac:(field_in_header)) as [g [E2 _]]. rewrite E2. cbn [bind].
  destruct (all_zero f && all_zero g); [eauto|].
  destruct (bytes_eqb f _ && bytes_eqb g _); [eauto|].
  destruct (bytes_eqb f _ && bytes_eqb g _); eauto.
Qed.

Ltac dh_step hh :=
  match goal with
  | |- context [bind (Ok _) _] => cbn [bind]
  | |- context [bind (Err _) _] => cbn [bind]
  | |- context [has_flag ?a ?b] => destruct (has_flag a b)
  | |- context [num_field hh ?off ?len] =>
    let v := fresh "v" in let e := fresh "e" in let E := fresh "Enum" in
    let A := fresh "A" in let B := fresh "B" in
    assert (A : off + len <= blen hh) by field_in_header;
    assert (B : 0 < len) by field_in_header;
    destruct (num_field_safe hh off len A B) as [[v E]|[e E]]; rewrite E; clear A B
  | |- context [hfield hh ?off ?len] =>
    let f := fresh "f" in let E := fresh "Efld" in let L := fresh "Lfld" in let A := fresh "A" in
    assert (A : off + len <= blen hh) by field_in_header;
    destruct (hfield_ok hh off len A) as [f [E L]]; rewrite E; clear A
  | |- (exists o, Ok ?x = Ok o) \/ _ => left; eexists; reflexivity
  | |- _ \/ (exists e, Err ?x = Err e) => right; eexists; reflexivity
  end.

Lemma decode_header_safe h flags out ver :
  blen h = sizeof_tar_header_t ->
  (exists o, decode_header h flags out ver = Ok o) \/ (exists e, decode_header h flags out ver = Err e).
Proof.
  intro Hh. unfold decode_header.
  destruct (bget_lt h hoff_typeflag ltac:(unfold blen in Hh; field_in_header)) as [tf Etf]. rewrite Etf; cbn [bind].
  repeat dh_step h.
  all: try match goal with |- context [lget ?pf 0] =>
         let p0 := fresh "p0" in let E3 := fresh "E3" in
         destruct (lget_lt pf 0) as [p0 E3];
         [match goal with L : length pf = _ |- _ => rewrite L; unfold hlen_prefix; lia end|rewrite E3; cbn [bind]]
       end.
  all: try (destruct ver).
  all: repeat match goal with |- context [if ?c then _ else _] => destruct c end.
  all: repeat dh_step h.
  all: repeat match goal with |- context [if ?c then _ else _] => destruct c end.
  all: repeat dh_step h.
Qed.

(* ================================================================== *)
(* PAX values                                                          *)
(* ================================================================== *)
Lemma smap_go_graceful : forall fuel s acc, In 0 s -> (length s < fuel)%nat -> graceful (smap_go fuel s acc).
Proof.
  induction fuel as [|f IH]; intros s acc Hin Hf; [lia|].
  cbn [smap_go]. unfold parse_uint.
  destruct (parse_safe s size_max false 10 0 0 Hin) as [[off [d1 [E [H1 H2]]]]|[e E]]; rewrite E; cbn [bind];
    [|done_graceful].
  destruct (lget_lt s (N.to_nat d1) H2) as [c Ec]. rewrite Ec; cbn [bind].
  destruct (negb (c =? 44)) eqn:Ecomma; [done_graceful|].
  apply negb_false_iff in Ecomma. apply N.eqb_eq in Ecomma. subst c.
  (* the NUL is behind the comma *)
  assert (Hin1 : In 0 (skipn (N.to_nat d1 + 1) s)).
  { replace (N.to_nat d1 + 1)%nat with (S (N.to_nat d1)) by lia.
    assert (Hs : skipn (N.to_nat d1) s = 44 :: skipn (S (N.to_nat d1)) s).
    { apply lget_ok_iff in Ec. clear - Ec. revert Ec. generalize (N.to_nat d1) as n.
      induction s as [|x s IH]; intros n H; destruct n; simpl in *; try discriminate.
      - inversion H; reflexivity.
      - apply IH; exact H. }
    rewrite Hs in H1. destruct H1 as [E0|Hr]; [discriminate|exact Hr]. }
  destruct (parse_safe _ size_max false 10 0 0 Hin1) as [[cnt [d2 [E2 [H3 H4]]]]|[e E2]]; rewrite E2; cbn [bind];
    [|done_graceful].
  remember (skipn (N.to_nat d2) (skipn (N.to_nat d1 + 1) s)) as s2 eqn:Es2.
  destruct s2 as [|c2 s3]; [destruct H3|].
  destruct (c2 =? 44) eqn:Ec2; [|done_graceful].
  apply N.eqb_eq in Ec2. subst c2.
  apply IH.
  - destruct H3 as [E0|Hr]; [discriminate|exact Hr].
  - assert (Hl : length (44 :: s3) = (length s - (N.to_nat d1 + 1) - N.to_nat d2)%nat).
    { rewrite Es2. rewrite !skipn_length. lia. }
    simpl in Hl. lia.
Qed.

Lemma pax_sparse_map_graceful s : In 0 s -> graceful (pax_sparse_map s).
Proof. intro H. unfold pax_sparse_map. apply smap_go_graceful; [exact H|lia]. Qed.

Lemma bslice_ok b off len : off + len <= blen b -> exists l, bslice b off len = Ok l /\ blen l = len.
Proof.
  intro H. unfold bslice.
  assert (Eb : (off + len <=? blen b) = true) by (apply N.leb_le; exact H). rewrite Eb.
  eexists; split; [reflexivity|]. unfold blen in *. rewrite firstn_length, skipn_length. lia.
Qed.

Lemma bget_app_r a b i : bget (a ++ b) (blen a + i) = bget b i.
Proof.
  unfold bget, blen. replace (N.to_nat (N.of_nat (length a) + i)) with (length a + N.to_nat i)%nat by lia.
  induction a as [|x a IH]; simpl; auto.
Qed.

Lemma xattr_libarchive_graceful key value : graceful (xattr_libarchive key value).
Proof.
  unfold xattr_libarchive.
  set (data := key ++ [0] ++ value ++ [0]).
  assert (Hlen : blen data = blen key + 1 + blen value + 1).
  { unfold data. rewrite !blen_app. change (blen [0]) with 1. lia. }
  destruct (base64_decode_safe data (blen key + 1) (blen value) (blen key + 1) (blen value))
    as [m1 [oc [E [Hl1 [Hoc Hfr]]]]]; try (unfold blen in *; lia).
  rewrite E; cbn [bind].
  destruct oc as [n|]; [|done_graceful].
  (* the NUL between key and value is untouched *)
  assert (Hsep : bget m1 (blen key) = Ok 0).
  { rewrite Hfr by lia. unfold data. replace (blen key) with (blen key + 0) by lia.
    rewrite bget_app_r. reflexivity. }
  destruct (urldecode_safe m1 0 (blen key)) as [m2 [E2 Hl2]]; try lia; [unfold blen in *; lia|exact Hsep|].
  rewrite E2; cbn [bind].
  destruct (bset_lt m2 (blen key + 1 + n) 0) as [m3 [E3 Hl3]]; [unfold blen in *; lia|].
  rewrite E3; cbn [bind].
  unfold cstr_at. rewrite bfrom_le by lia. cbn [bind]. change (N.to_nat 0) with 0%nat. rewrite skipn_O.
  destruct (cstr_safe m3 (bset_In _ _ _ _ E3)) as [k [Ek _]]. rewrite Ek; cbn [bind].
  destruct (bslice_ok m3 (blen key + 1) n) as [v [Ev _]]; [unfold blen in *; lia|].
  rewrite Ev; cbn [bind]. done_graceful.
Qed.

Lemma graceful_shape {A} (r : res A) : graceful r -> (exists v, r = Ok v) \/ (exists e, r = Err e).
Proof. intros [H1 H2]. destruct r; eauto; congruence. Qed.

Lemma pax_apply_graceful buf key vs value valuelen st :
  In 0 vs -> value + valuelen <= blen buf ->
  graceful (pax_apply buf key vs value valuelen st).
Proof.
  intros Hin Hsl. unfold pax_apply.
  assert (Hu : forall flag upd,
    graceful (match parse_uint vs size_max false 0 0 with
              | Ok (v, _) => Ok (mkPax (upd (ps_hdr st) v) (N.lor (ps_flags st) flag) (ps_offset st) (ps_last st))
              | Err _ => Err e_pax | Crash => Crash | OutOfFuel => OutOfFuel end)).
  { intros flag upd. unfold parse_uint.
    destruct (parse_safe vs size_max false 10 0 0 Hin) as [[v [d [E _]]]|[e E]]; rewrite E; done_graceful. }
  assert (Hs : forall flag upd,
    graceful (do v <- cstr vs;
              Ok (mkPax (upd (ps_hdr st) (Some v)) (N.lor (ps_flags st) flag) (ps_offset st) (ps_last st)))).
  { intros flag upd. destruct (cstr_safe vs Hin) as [t [E _]]. rewrite E; cbn [bind]. done_graceful. }
  repeat match goal with |- graceful (if ?c then _ else _) => destruct c end;
    try apply Hu; try apply Hs; try done_graceful.
  - destruct (graceful_shape _ (parse_int_graceful vs size_max false Hin)) as [[[v d] E]|[e E]]; rewrite E; done_graceful.
  - destruct (bslice_ok buf value valuelen Hsl) as [v [E _]]. rewrite E; cbn [bind]. done_graceful.
  - destruct (bslice_ok buf value valuelen Hsl) as [v [E _]]. rewrite E; cbn [bind].
    destruct (graceful_shape _ (xattr_libarchive_graceful (skipn (length k_libarchive) key) v)) as [[kv E2]|[e E2]];
      rewrite E2; cbn [bind]; done_graceful.
  - destruct (graceful_shape _ (pax_sparse_map_graceful vs Hin)) as [[l E]|[e E]]; rewrite E; cbn [bind]; done_graceful.
  - unfold parse_uint.
    destruct (parse_safe vs size_max false 10 0 0 Hin) as [[v [d [E _]]]|[e E]]; rewrite E; done_graceful.
  - unfold parse_uint.
    destruct (parse_safe vs size_max false 10 0 0 Hin) as [[v [d [E _]]]|[e E]]; rewrite E; [|done_graceful].
    destruct (ps_last st); done_graceful.
Qed.

Lemma span_lim_safe p : forall s lim, lim <= N.of_nat (length s) ->
  exists n, span_lim p s lim = Ok n /\ n <= lim.
Proof.
  induction s as [|c r IH]; intros lim Hl.
  - simpl in Hl. assert (lim = 0) by lia. subst lim. exists 0. split; [reflexivity|lia].
  - cbn [span_lim]. destruct (lim =? 0) eqn:E; [exists 0; split; [reflexivity|lia]|].
    apply N.eqb_neq in E. destruct (p c); [|exists 0; split; [reflexivity|lia]].
    destruct (IH (lim - 1)) as [n [En Hn]]; [simpl in Hl; lia|].
    rewrite En; cbn [bind]. exists (n + 1). split; [reflexivity|lia].
Qed.

(* ================================================================== *)
(* the PAX record buffer                                               *)
(* ================================================================== *)
(* the buffer of record_to_memory: entsize + 1 bytes, the last one NUL *)
Definition pax_buf_ok (buf : list N) (endp : N) : Prop :=
  blen buf = endp + 1 /\ bget buf endp = Ok 0.

Lemma pax_buf_suffix buf endp i : pax_buf_ok buf endp -> i <= endp ->
  bfrom buf i = Ok (skipn (N.to_nat i) buf) /\ In 0 (skipn (N.to_nat i) buf) /\
  (length (skipn (N.to_nat i) buf) = N.to_nat (endp + 1 - i))%nat.
Proof.
  intros [Hl Hz] Hi. split; [apply bfrom_le; unfold blen in Hl; lia|].
  split; [eapply In_skipn_of_bget; eauto|].
  rewrite skipn_length. unfold blen in Hl. lia.
Qed.

Lemma pax_buf_set buf endp i v buf' : pax_buf_ok buf endp -> i < endp -> bset buf i v = Ok buf' ->
  pax_buf_ok buf' endp.
Proof.
  intros [Hl Hz] Hi Hs. unfold pax_buf_ok.
  destruct (bset_lt buf i v) as [b2 [E2 Hl2]]; [unfold blen in Hl; lia|].
  rewrite Hs in E2; inversion E2; subst b2.
  split; [unfold blen in *; lia|]. rewrite (bset_get_other _ _ _ _ _ Hs); [exact Hz|lia].
Qed.

Lemma pax_line_safe buf endp line st :
  pax_buf_ok buf endp -> line < endp ->
  (exists e, pax_line buf endp line st = Err e) \/
  (exists buf' st' len, pax_line buf endp line st = Ok (buf', st', len) /\
     pax_buf_ok buf' endp /\ 1 <= len /\ line + len <= endp).
Proof.
  intros Hb Hline. unfold pax_line.
  destruct (pax_buf_suffix buf endp line Hb ltac:(lia)) as [E1 [Hin1 Hlen1]].
  rewrite E1; cbn [bind].
  destruct (strtol10_safe _ Hin1) as [v [consumed [E2 Hc]]]. rewrite E2; cbn [bind].
  destruct (consumed =? 0); [left; eauto|].
  assert (Hcons : line + consumed <= endp) by lia.
  destruct (bget_lt buf (line + consumed)) as [c Ec]; [destruct Hb as [Hl _]; unfold blen in Hl; lia|].
  rewrite Ec; cbn [bind].
  destruct (negb (c_isspace c)); [left; eauto|].
  destruct (v <=? 0)%Z eqn:Ev; [left; eauto|]. apply Z.leb_gt in Ev.
  destruct (endp - line <? Z.to_N v) eqn:Elen; [left; eauto|]. apply N.ltb_ge in Elen.
  set (len := Z.to_N v) in *.
  assert (Hlen_pos : 1 <= len) by (unfold len; lia).
  destruct (bset_lt buf (line + len - 1) 0) as [buf1 [Eb1 Hl1]]; [destruct Hb as [Hl _]; unfold blen in Hl; lia|].
  rewrite Eb1; cbn [bind].
  assert (Hb1 : pax_buf_ok buf1 endp) by (eapply pax_buf_set; [exact Hb| |exact Eb1]; lia).
  destruct (pax_buf_suffix buf1 endp (line + consumed) Hb1 Hcons) as [E3 [Hin3 Hlen3]].
  rewrite E3; cbn [bind].
  destruct (span_lim_safe c_isspace (skipn (N.to_nat (line + consumed)) buf1) (endp - (line + consumed)))
    as [nsp [E4 Hnsp]]; [lia|].
  rewrite E4; cbn [bind].
  set (key := line + consumed + nsp) in *.
  destruct ((endp <=? key) || (len <=? key - line)) eqn:Ek; [left; eauto|].
  apply orb_false_iff in Ek. destruct Ek as [Ek1 Ek2]. apply N.leb_gt in Ek1. apply N.leb_gt in Ek2.
  destruct (pax_buf_suffix buf1 endp key Hb1 ltac:(lia)) as [E5 [Hin5 Hlen5]].
  rewrite E5; cbn [bind].
  (* the key scan stops at the NUL stored at line + len - 1 at the latest *)
  assert (Hz1 : bget buf1 (line + len - 1) = Ok 0) by (eapply bset_get_same; eauto).
  destruct (span_count_safe (fun c0 => negb (c0 =? 0) && negb (c0 =? 61)) eq_refl
              (skipn (N.to_nat key) buf1) Hin5) as [klen [E6 [Hk1 [_ Hk3]]]].
  rewrite E6; cbn [bind].
  (* klen is bounded by the distance to that NUL *)
  assert (Hkl : key + klen <= line + len - 1).
  { destruct (N.le_gt_cases (key + klen) (line + len - 1)) as [H|H]; [exact H|exfalso].
    (* the scan would have passed over the NUL *)
    assert (Hpass : forall s n, span_count (fun c0 => negb (c0 =? 0) && negb (c0 =? 61)) s = Ok n ->
              forall j, (j < N.to_nat n)%nat -> nth_error s j <> Some 0).
    { induction s as [|x s IHs]; intros n Hn j Hj; [discriminate|].
      simpl in Hn. destruct (negb (x =? 0) && negb (x =? 61)) eqn:Ex; [|inversion Hn; subst; simpl in Hj; lia].
      destruct (span_count _ s) as [n'| | |] eqn:En'; cbn [bind] in Hn; try discriminate.
      inversion Hn; subst n. destruct j; simpl.
      - intro Hx; inversion Hx; subst x. discriminate.
      - apply (IHs n' eq_refl). lia. }
    apply (Hpass _ _ E6 (N.to_nat (line + len - 1 - key))); [lia|].
    rewrite nth_error_skipn'. replace (N.to_nat key + N.to_nat (line + len - 1 - key))%nat with (N.to_nat (line + len - 1)) by lia.
    unfold bget in Hz1. apply lget_ok_iff. exact Hz1. }
  destruct (bget_lt buf1 (key + klen)) as [ce Ece]; [destruct Hb1 as [Hl _]; unfold blen in Hl; lia|].
  rewrite Ece; cbn [bind].
  destruct ((klen =? 0) || negb (ce =? 61)) eqn:Eq; [left; eauto|].
  apply orb_false_iff in Eq. destruct Eq as [_ Eq]. apply negb_false_iff in Eq. apply N.eqb_eq in Eq. subst ce.
  (* '=' is not the NUL at line + len - 1 *)
  assert (Hlt : key + klen < line + len - 1).
  { destruct (N.eq_dec (key + klen) (line + len - 1)) as [E|E]; [|lia].
    rewrite E in Ece. rewrite Hz1 in Ece. discriminate. }
  destruct (bset_lt buf1 (key + klen) 0) as [buf2 [Eb2 Hl2]]; [destruct Hb1 as [Hl _]; unfold blen in Hl; lia|].
  rewrite Eb2; cbn [bind].
  assert (Hb2 : pax_buf_ok buf2 endp) by (eapply pax_buf_set; [exact Hb1| |exact Eb2]; lia).
  unfold cstr_at.
  destruct (pax_buf_suffix buf2 endp key Hb2 ltac:(lia)) as [E7 [Hin7 _]]. rewrite E7; cbn [bind].
  destruct (cstr_safe _ Hin7) as [keystr [E8 _]]. rewrite E8; cbn [bind].
  destruct (pax_buf_suffix buf2 endp (key + klen + 1) Hb2 ltac:(lia)) as [E9 [Hin9 _]]. rewrite E9; cbn [bind].
  assert (Hsl : key + klen + 1 + (len - (key + klen + 1 - line) - 1) <= blen buf2).
  { destruct Hb2 as [Hl _]. rewrite Hl. lia. }
  destruct (graceful_shape _ (pax_apply_graceful buf2 keystr _ (key + klen + 1) (len - (key + klen + 1 - line) - 1) st Hin9 Hsl))
    as [[st' E10]|[e E10]]; rewrite E10; cbn [bind]; [|left; eauto].
  right. exists buf2, st', len. repeat split; auto; try lia; apply Hb2.
Qed.

Lemma pax_loop_graceful : forall fuel buf endp line st,
  pax_buf_ok buf endp -> line <= endp -> (N.to_nat (endp - line) < fuel)%nat ->
  graceful (pax_loop fuel buf endp line st).
Proof.
  induction fuel as [|f IH]; intros buf endp line st Hb Hl Hf; [lia|].
  cbn [pax_loop]. destruct (line <? endp) eqn:E; [|done_graceful]. apply N.ltb_lt in E.
  destruct (pax_line_safe buf endp line st Hb E) as [[e Ee]|[buf' [st' [len [Ee [Hb' [H1 H2]]]]]]];
    rewrite Ee; cbn [bind]; [done_graceful|].
  apply IH; auto; lia.
Qed.

Lemma read_pax_header_safe s entsize :
  (exists e, read_pax_header s entsize = Err e) \/
  (exists h fl s1, read_pax_header s entsize = Ok (h, fl, s1) /\ (length s1 <= length s)%nat /\
     (0 < entsize -> (length s1 < length s)%nat)).
Proof.
  unfold read_pax_header.
  destruct (record_to_memory_spec s entsize) as [[e E]|[buf [s2 [E [Hl [Hz [Hs Hs']]]]]]]; rewrite E; cbn [bind];
    [left; eauto|].
  assert (Hb : pax_buf_ok buf entsize) by (split; assumption).
  destruct (graceful_shape _ (pax_loop_graceful (S (N.to_nat entsize)) buf entsize 0 (mkPax hdr0 0 0 false) Hb
              ltac:(lia) ltac:(lia))) as [[st E2]|[e E2]]; rewrite E2; cbn [bind]; [right|left; eauto].
  eexists; eexists; eexists; split; [reflexivity|]. auto.
Qed.
