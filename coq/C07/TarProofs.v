(* C07 (2) — safety and termination of the tar reader model (TarModel.v): for EVERY input stream
   read_header / the archive walk neither leave a buffer (Crash) nor run out of their budget
   (OutOfFuel).  The lemmas that carry it:
     pax_line_safe        the PAX record buffer (len arithmetic, the two NUL stores, key/value scans)
     new_sparse_step_safe the 512/1024-byte window of the GNU 1.0 sparse map (1 <= diff <= 512)
     old_parse_safe       the 4 / 21 entry tables inside 512-byte blocks (layout from GenC07.v)
     decode_header_safe   every tar_header_t field inside the 512-byte block (layout from GenC07.v) *)
From Coq Require Import List NArith ZArith Bool Lia ZifyBool ZifyNat ZifyN.
From SqfsV Require Import C07.Res C07.ResLemmas C07.GenC07 C07.NumModel C07.NumProofs C07.TarModel.
Import ListNotations.
Local Open Scope N_scope.
Ltac Zify.zify_post_hook ::= Z.div_mod_to_equations.

Ltac done_graceful := split; discriminate.

(* ================================================================== *)
(* streams                                                             *)
(* ================================================================== *)
Lemma sread_spec n s :
  length (fst (sread n s)) = Nat.min (N.to_nat n) (length s) /\
  (length (snd (sread n s)) = length s - N.to_nat n)%nat.
Proof. unfold sread; simpl. rewrite firstn_length, skipn_length. auto. Qed.

Lemma sskip_le n s : (length (sskip n s) <= length s)%nat.
Proof.
  unfold sskip. destruct (N.of_nat (length s) <=? n); simpl; [lia|].
  rewrite skipn_length. lia.
Qed.

Lemma blen_app a b : blen (a ++ b) = blen a + blen b.
Proof. unfold blen. rewrite app_length. lia. Qed.

Lemma record_to_memory_spec s size :
  (exists e, record_to_memory s size = Err e) \/
  (exists buf s2, record_to_memory s size = Ok (buf, s2) /\
     blen buf = size + 1 /\ bget buf size = Ok 0 /\ (length s2 <= length s)%nat /\
     (0 < size -> (length s2 < length s)%nat)).
Proof.
  unfold record_to_memory. destruct (sread_spec size s) as [H1 H2].
  destruct (sread size s) as [d s1]. cbn [fst snd] in *.
  destruct (blen d <? size) eqn:E; [left; eauto|right]. apply N.ltb_ge in E. unfold blen in E.
  assert (Hd : length d = N.to_nat size) by lia.
  eexists; eexists; split; [reflexivity|].
  split; [rewrite blen_app; unfold blen; simpl; lia|].
  split.
  - unfold bget. rewrite <- Hd. apply lget_app_last.
  - destruct (size mod 512 =? 0); [split; lia|].
    pose proof (sskip_le (512 - size mod 512) s1). split; lia.
Qed.

(* ================================================================== *)
(* header fields                                                       *)
(* ================================================================== *)
Lemma hfield_ok h off len : off + len <= blen h ->
  exists f, hfield h off len = Ok f /\ length f = N.to_nat len.
Proof.
  intro H. unfold hfield.
  assert (Eb : (off + len <=? blen h) = true) by (apply N.leb_le; exact H). rewrite Eb.
  eexists; split; [reflexivity|]. rewrite firstn_length, skipn_length. unfold blen in H. lia.
Qed.

Lemma num_field_safe h off len : off + len <= blen h -> 0 < len ->
  (exists v, num_field h off len = Ok v) \/ (exists e, num_field h off len = Err e).
Proof.
  intros H Hl. unfold num_field. destruct (hfield_ok h off len H) as [f [E Hf]]. rewrite E; cbn [bind].
  apply read_number_shape. destruct f; [simpl in Hf; lia|discriminate].
Qed.

Ltac field_in_header :=
  unfold hoff_name, hlen_name, hoff_mode, hlen_mode, hoff_uid, hlen_uid, hoff_gid, hlen_gid, hoff_size, hlen_size,
    hoff_mtime, hlen_mtime, hoff_chksum, hlen_chksum, hoff_typeflag, hlen_typeflag, hoff_linkname, hlen_linkname,
    hoff_magic, hlen_magic, hoff_version, hlen_version, hoff_devmajor, hlen_devmajor, hoff_devminor, hlen_devminor,
    hoff_prefix, hlen_prefix, hoff_gnu_sparse, hlen_gnu_sparse, hoff_gnu_isextended, hoff_gnu_realsize, hlen_gnu_realsize,
    sizeof_tar_header_t in *; lia.

Lemma compute_checksum_safe h : blen h = sizeof_tar_header_t -> exists c, compute_checksum h = Ok c.
Proof.
  intro Hh. unfold compute_checksum.
  destruct (hfield_ok h hoff_chksum hlen_chksum ltac:(field_in_header)) as [f [E _]]. rewrite E. cbn [bind]. eauto.
Qed.

Lemma checksum_valid_safe h : blen h = sizeof_tar_header_t -> exists b, checksum_valid h = Ok b.
Proof.
  intro Hh. unfold checksum_valid.
  destruct (hfield_ok h hoff_chksum hlen_chksum ltac:(field_in_header)) as [f [E Hf]]. rewrite E. cbn [bind].
  assert (Hne : f <> []) by (destruct f; [unfold hlen_chksum in Hf; simpl in Hf; lia|discriminate]).
  destruct (read_number_shape f Hne) as [[v Ev]|[e Ev]]; rewrite Ev; [|eauto].
  destruct (compute_checksum_safe h Hh) as [c Ec]. rewrite Ec. cbn [bind]. eauto.
Qed.

Lemma check_version_safe h : blen h = sizeof_tar_header_t -> exists v, check_version h = Ok v.
Proof.
  intro Hh. unfold check_version.
  destruct (hfield_ok h hoff_magic hlen_magic ltac:(field_in_header)) as [f [E _]]. rewrite E. cbn [bind].
  destruct (hfield_ok h hoff_version hlen_version ltac:(field_in_header)) as [g [E2 _]]. rewrite E2. cbn [bind].
  destruct (all_zero f && all_zero g); [eauto|].
  destruct (bytes_eqb f _ && bytes_eqb g _); [eauto|].
  destruct (bytes_eqb f _ && bytes_eqb g _); eauto.
Qed.

(* "returns normally or refuses": the shape every step of the decoder is shown to have.  The
   continuation of a bind is proved once, under its binder, so the proof of decode_header is
   linear in the size of the term (no case split is ever duplicated). *)
Definition oe {A} (r : res A) : Prop := (exists v, r = Ok v) \/ (exists e, r = Err e).

Lemma oe_ok {A} (v : A) : oe (Ok v).
Proof. left; eauto. Qed.
Lemma oe_err {A} e : oe (@Err A e).
Proof. right; eauto. Qed.
Lemma oe_if {A} (b : bool) (x y : res A) : oe x -> oe y -> oe (if b then x else y).
Proof. destruct b; auto. Qed.
Lemma oe_bind {A B} (r : res A) (f : A -> res B) : oe r -> (forall a, oe (f a)) -> oe (bind r f).
Proof. intros [[v E]|[e E]] H; rewrite E; cbn [bind]; [apply H|apply oe_err]. Qed.

Lemma num_field_oe h off len : off + len <= blen h -> 0 < len -> oe (num_field h off len).
Proof. exact (num_field_safe h off len). Qed.

Lemma hfield_oe h off len : off + len <= blen h -> oe (hfield h off len).
Proof. intro H. destruct (hfield_ok h off len H) as [f [E _]]. rewrite E. apply oe_ok. Qed.

Ltac oe_step :=
  match goal with
  | |- oe (Ok _) => apply oe_ok
  | |- oe (Err _) => apply oe_err
  | |- oe (if _ then _ else _) => apply oe_if
  | |- oe (num_field _ _ _) => apply num_field_oe; field_in_header
  | |- oe (hfield _ _ _) => apply hfield_oe; field_in_header
  | |- oe (bind _ _) => apply oe_bind; [|intro]
  end.

(* the file name: prefix[0] is read from the 155-byte field *)
Lemma decode_name_oe h out ver :
  blen h = sizeof_tar_header_t ->
  oe (do nm <- hfield h hoff_name hlen_name;
      do pfx <- hfield h hoff_prefix hlen_prefix;
      do p0 <- lget pfx 0;
      match ver with
      | V_POSIX => if negb (p0 =? 0) then Ok (set_name out (Some (strn pfx ++ [47] ++ strn nm)))
                   else Ok (set_name out (Some (strn nm)))
      | _ => Ok (set_name out (Some (strn nm)))
      end).
Proof.
  intro Hh.
  destruct (hfield_ok h hoff_name hlen_name ltac:(field_in_header)) as [nm [E1 _]]. rewrite E1; cbn [bind].
  destruct (hfield_ok h hoff_prefix hlen_prefix ltac:(field_in_header)) as [pfx [E2 L2]]. rewrite E2; cbn [bind].
  destruct (lget_lt pfx 0) as [p0 E3]; [rewrite L2; unfold hlen_prefix; lia|]. rewrite E3; cbn [bind].
  destruct ver; repeat oe_step.
Qed.

Lemma decode_header_safe h flags out ver :
  blen h = sizeof_tar_header_t ->
  (exists o, decode_header h flags out ver = Ok o) \/ (exists e, decode_header h flags out ver = Err e).
Proof.
  intro Hh. change (oe (decode_header h flags out ver)). unfold decode_header.
  destruct (bget_lt h hoff_typeflag ltac:(unfold blen in Hh; field_in_header)) as [tf Etf]. rewrite Etf; cbn [bind].
  apply oe_bind; [apply oe_if; [apply oe_ok|apply decode_name_oe; exact Hh]|intro out1].
  repeat oe_step.
Qed.

(* ================================================================== *)
(* PAX values                                                          *)
(* ================================================================== *)
Lemma smap_go_graceful : forall fuel s acc, In 0 s -> (length s < fuel)%nat -> graceful (smap_go fuel s acc).
Proof.
  induction fuel as [|f IH]; intros s acc Hin Hf; [lia|].
  cbn [smap_go]. unfold parse_uint.
  destruct (parse_safe s size_max false 10 0 0 Hin) as [[off [d1 [E [H1 H2]]]]|[e E]]; rewrite E; cbn [bind];
    [|done_graceful].
  destruct (lget_lt s (N.to_nat d1) H2) as [c Ec]. rewrite Ec; cbn [bind].
  destruct (negb (c =? 44)) eqn:Ecomma; [done_graceful|].
  apply negb_false_iff in Ecomma. apply N.eqb_eq in Ecomma. subst c.
  (* the NUL is behind the comma *)
  assert (Hin1 : In 0 (skipn (N.to_nat d1 + 1) s)).
  { replace (N.to_nat d1 + 1)%nat with (S (N.to_nat d1)) by lia.
    assert (Hs : skipn (N.to_nat d1) s = 44 :: skipn (S (N.to_nat d1)) s).
    { apply lget_ok_iff in Ec. clear - Ec. revert Ec. generalize (N.to_nat d1) as n.
      induction s as [|x s IH]; intros n H; destruct n; simpl in *; try discriminate.
      - inversion H; reflexivity.
      - apply IH; exact H. }
    rewrite Hs in H1. destruct H1 as [E0|Hr]; [discriminate|exact Hr]. }
  destruct (parse_safe _ size_max false 10 0 0 Hin1) as [[cnt [d2 [E2 [H3 H4]]]]|[e E2]]; rewrite E2; cbn [bind];
    [|done_graceful].
  remember (skipn (N.to_nat d2) (skipn (N.to_nat d1 + 1) s)) as s2 eqn:Es2.
  destruct s2 as [|c2 s3]; [destruct H3|].
  destruct (c2 =? 44) eqn:Ec2; [|done_graceful].
  apply N.eqb_eq in Ec2. subst c2.
  apply IH.
  - destruct H3 as [E0|Hr]; [discriminate|exact Hr].
  - assert (Hl : length (44 :: s3) = (length s - (N.to_nat d1 + 1) - N.to_nat d2)%nat).
    { rewrite Es2. rewrite !skipn_length. lia. }
    simpl in Hl. lia.
Qed.

Lemma pax_sparse_map_graceful s : In 0 s -> graceful (pax_sparse_map s).
Proof. intro H. unfold pax_sparse_map. apply smap_go_graceful; [exact H|lia]. Qed.

Lemma bslice_ok b off len : off + len <= blen b -> exists l, bslice b off len = Ok l /\ blen l = len.
Proof.
  intro H. unfold bslice.
  assert (Eb : (off + len <=? blen b) = true) by (apply N.leb_le; exact H). rewrite Eb.
  eexists; split; [reflexivity|]. unfold blen in *. rewrite firstn_length, skipn_length. lia.
Qed.

Lemma bget_app_r a b i : bget (a ++ b) (blen a + i) = bget b i.
Proof.
  unfold bget, blen. replace (N.to_nat (N.of_nat (length a) + i)) with (length a + N.to_nat i)%nat by lia.
  induction a as [|x a IH]; simpl; auto.
Qed.

Lemma xattr_libarchive_graceful key value : graceful (xattr_libarchive key value).
Proof.
  unfold xattr_libarchive.
  set (data := key ++ [0] ++ value ++ [0]).
  assert (Hlen : blen data = blen key + 1 + blen value + 1).
  { unfold data. rewrite !blen_app. change (blen [0]) with 1. lia. }
  destruct (base64_decode_safe data (blen key + 1) (blen value) (blen key + 1) (blen value))
    as [m1 [oc [E [Hl1 [Hoc Hfr]]]]]; try (unfold blen in *; lia).
  rewrite E; cbn [bind].
  destruct oc as [n|]; [|done_graceful].
  (* the NUL between key and value is untouched *)
  assert (Hsep : bget m1 (blen key) = Ok 0).
  { rewrite Hfr by lia. unfold data. replace (blen key) with (blen key + 0) by lia.
    rewrite bget_app_r. reflexivity. }
  destruct (urldecode_safe m1 0 (blen key)) as [m2 [E2 Hl2]]; try lia; [unfold blen in *; lia|exact Hsep|].
  rewrite E2; cbn [bind].
  destruct (bset_lt m2 (blen key + 1 + n) 0) as [m3 [E3 Hl3]]; [unfold blen in *; lia|].
  rewrite E3; cbn [bind].
  unfold cstr_at. rewrite bfrom_le by lia. cbn [bind]. change (N.to_nat 0) with 0%nat. rewrite skipn_O.
  destruct (cstr_safe m3 (bset_In _ _ _ _ E3)) as [k [Ek _]]. rewrite Ek; cbn [bind].
  destruct (bslice_ok m3 (blen key + 1) n) as [v [Ev _]]; [unfold blen in *; lia|].
  rewrite Ev; cbn [bind]. done_graceful.
Qed.

Lemma graceful_shape {A} (r : res A) : graceful r -> (exists v, r = Ok v) \/ (exists e, r = Err e).
Proof. intros [H1 H2]. destruct r; eauto; congruence. Qed.

Lemma pax_apply_graceful buf key vs value valuelen st :
  In 0 vs -> value + valuelen <= blen buf ->
  graceful (pax_apply buf key vs value valuelen st).
Proof.
  intros Hin Hsl. unfold pax_apply.
  assert (Hu : forall flag upd,
    graceful (match parse_uint vs size_max false 0 0 with
              | Ok (v, _) => Ok (mkPax (upd (ps_hdr st) v) (N.lor (ps_flags st) flag) (ps_offset st) (ps_last st))
              | Err _ => Err e_pax | Crash => Crash | OutOfFuel => OutOfFuel end)).
  { intros flag upd. unfold parse_uint.
    destruct (parse_safe vs size_max false 10 0 0 Hin) as [[v [d [E _]]]|[e E]]; rewrite E; done_graceful. }
  assert (Hs : forall flag upd,
    graceful (do v <- cstr vs;
              Ok (mkPax (upd (ps_hdr st) (Some v)) (N.lor (ps_flags st) flag) (ps_offset st) (ps_last st)))).
  { intros flag upd. destruct (cstr_safe vs Hin) as [t [E _]]. rewrite E; cbn [bind]. done_graceful. }
  repeat match goal with |- graceful (if ?c then _ else _) => destruct c end;
    try apply Hu; try apply Hs; try done_graceful.
  - destruct (graceful_shape _ (parse_int_graceful vs size_max false Hin)) as [[[v d] E]|[e E]]; rewrite E; done_graceful.
  - destruct (bslice_ok buf value valuelen Hsl) as [v [E _]]. rewrite E; cbn [bind]. done_graceful.
  - destruct (bslice_ok buf value valuelen Hsl) as [v [E _]]. rewrite E; cbn [bind].
    destruct (graceful_shape _ (xattr_libarchive_graceful (skipn (length k_libarchive) key) v)) as [[kv E2]|[e E2]];
      rewrite E2; cbn [bind]; done_graceful.
  - destruct (graceful_shape _ (pax_sparse_map_graceful vs Hin)) as [[l E]|[e E]]; rewrite E; cbn [bind]; done_graceful.
  - unfold parse_uint.
    destruct (parse_safe vs size_max false 10 0 0 Hin) as [[v [d [E _]]]|[e E]]; rewrite E; done_graceful.
  - unfold parse_uint.
    destruct (parse_safe vs size_max false 10 0 0 Hin) as [[v [d [E _]]]|[e E]]; rewrite E; [|done_graceful].
    destruct (ps_last st); done_graceful.
Qed.

Lemma span_lim_safe p : forall s lim, lim <= N.of_nat (length s) ->
  exists n, span_lim p s lim = Ok n /\ n <= lim.
Proof.
  induction s as [|c r IH]; intros lim Hl.
  - simpl in Hl. assert (lim = 0) by lia. subst lim. exists 0. split; [reflexivity|lia].
  - cbn [span_lim]. destruct (lim =? 0) eqn:E; [exists 0; split; [reflexivity|lia]|].
    apply N.eqb_neq in E. destruct (p c); [|exists 0; split; [reflexivity|lia]].
    destruct (IH (lim - 1)) as [n [En Hn]]; [simpl in Hl; lia|].
    rewrite En; cbn [bind]. exists (n + 1). split; [reflexivity|lia].
Qed.

(* ================================================================== *)
(* the PAX record buffer                                               *)
(* ================================================================== *)
(* the buffer of record_to_memory: entsize + 1 bytes, the last one NUL *)
Definition pax_buf_ok (buf : list N) (endp : N) : Prop :=
  blen buf = endp + 1 /\ bget buf endp = Ok 0.

Lemma pax_buf_suffix buf endp i : pax_buf_ok buf endp -> i <= endp ->
  bfrom buf i = Ok (skipn (N.to_nat i) buf) /\ In 0 (skipn (N.to_nat i) buf) /\
  (length (skipn (N.to_nat i) buf) = N.to_nat (endp + 1 - i))%nat.
Proof.
  intros [Hl Hz] Hi. split; [apply bfrom_le; unfold blen in Hl; lia|].
  split; [eapply In_skipn_of_bget; eauto|].
  rewrite skipn_length. unfold blen in Hl. lia.
Qed.

Lemma pax_buf_set buf endp i v buf' : pax_buf_ok buf endp -> i < endp -> bset buf i v = Ok buf' ->
  pax_buf_ok buf' endp.
Proof.
  intros [Hl Hz] Hi Hs. unfold pax_buf_ok.
  destruct (bset_lt buf i v) as [b2 [E2 Hl2]]; [unfold blen in Hl; lia|].
  rewrite Hs in E2; inversion E2; subst b2.
  split; [unfold blen in *; lia|]. rewrite (bset_get_other _ _ _ _ _ Hs); [exact Hz|lia].
Qed.

Lemma pax_line_safe buf endp line st :
  pax_buf_ok buf endp -> line < endp ->
  (exists e, pax_line buf endp line st = Err e) \/
  (exists buf' st' len, pax_line buf endp line st = Ok (buf', st', len) /\
     pax_buf_ok buf' endp /\ 1 <= len /\ line + len <= endp).
Proof.
  intros Hb Hline. unfold pax_line.
  destruct (pax_buf_suffix buf endp line Hb ltac:(lia)) as [E1 [Hin1 Hlen1]].
  rewrite E1; cbn [bind].
  destruct (strtol10_safe _ Hin1) as [v [consumed [E2 Hc]]]. rewrite E2; cbn [bind].
  destruct (consumed =? 0); [left; eauto|].
  assert (Hcons : line + consumed <= endp) by lia.
  destruct (bget_lt buf (line + consumed)) as [c Ec]; [destruct Hb as [Hl _]; unfold blen in Hl; lia|].
  rewrite Ec; cbn [bind].
  destruct (negb (c_isspace c)); [left; eauto|].
  destruct (v <=? 0)%Z eqn:Ev; [left; eauto|]. apply Z.leb_gt in Ev.
  destruct (endp - line <? Z.to_N v) eqn:Elen; [left; eauto|]. apply N.ltb_ge in Elen.
  set (len := Z.to_N v) in *.
  assert (Hlen_pos : 1 <= len) by (unfold len; lia).
  destruct (bset_lt buf (line + len - 1) 0) as [buf1 [Eb1 Hl1]]; [destruct Hb as [Hl _]; unfold blen in Hl; lia|].
  rewrite Eb1; cbn [bind].
  assert (Hb1 : pax_buf_ok buf1 endp) by (eapply pax_buf_set; [exact Hb| |exact Eb1]; lia).
  destruct (pax_buf_suffix buf1 endp (line + consumed) Hb1 Hcons) as [E3 [Hin3 Hlen3]].
  rewrite E3; cbn [bind].
  destruct (span_lim_safe c_isspace (skipn (N.to_nat (line + consumed)) buf1) (endp - (line + consumed)))
    as [nsp [E4 Hnsp]]; [lia|].
  rewrite E4; cbn [bind].
  set (key := line + consumed + nsp) in *.
  destruct ((endp <=? key) || (len <=? key - line)) eqn:Ek; [left; eauto|].
  apply orb_false_iff in Ek. destruct Ek as [Ek1 Ek2]. apply N.leb_gt in Ek1. apply N.leb_gt in Ek2.
  destruct (pax_buf_suffix buf1 endp key Hb1 ltac:(lia)) as [E5 [Hin5 Hlen5]].
  rewrite E5; cbn [bind].
  (* the key scan stops at the NUL stored at line + len - 1 at the latest *)
  assert (Hz1 : bget buf1 (line + len - 1) = Ok 0) by (eapply bset_get_same; eauto).
  destruct (span_count_safe (fun c0 => negb (c0 =? 0) && negb (c0 =? 61)) eq_refl
              (skipn (N.to_nat key) buf1) Hin5) as [klen [E6 [Hk1 [_ Hk3]]]].
  rewrite E6; cbn [bind].
  (* klen is bounded by the distance to that NUL *)
  assert (Hkl : key + klen <= line + len - 1).
  { destruct (N.le_gt_cases (key + klen) (line + len - 1)) as [H|H]; [exact H|exfalso].
    (* the scan would have passed over the NUL *)
    assert (Hpass : forall s n, span_count (fun c0 => negb (c0 =? 0) && negb (c0 =? 61)) s = Ok n ->
              forall j, (j < N.to_nat n)%nat -> nth_error s j <> Some 0).
    { induction s as [|x s IHs]; intros n Hn j Hj; [discriminate|].
      simpl in Hn. destruct (negb (x =? 0) && negb (x =? 61)) eqn:Ex; [|inversion Hn; subst; simpl in Hj; lia].
      destruct (span_count _ s) as [n'| | |] eqn:En'; cbn [bind] in Hn; try discriminate.
      inversion Hn; subst n. destruct j; simpl.
      - intro Hx; inversion Hx; subst x. discriminate.
      - apply (IHs n' eq_refl). lia. }
    apply (Hpass _ _ E6 (N.to_nat (line + len - 1 - key))); [lia|].
    rewrite nth_error_skipn'. replace (N.to_nat key + N.to_nat (line + len - 1 - key))%nat with (N.to_nat (line + len - 1)) by lia.
    unfold bget in Hz1. apply lget_ok_iff. exact Hz1. }
  destruct (bget_lt buf1 (key + klen)) as [ce Ece]; [destruct Hb1 as [Hl _]; unfold blen in Hl; lia|].
  rewrite Ece; cbn [bind].
  destruct ((klen =? 0) || negb (ce =? 61)) eqn:Eq; [left; eauto|].
  apply orb_false_iff in Eq. destruct Eq as [_ Eq]. apply negb_false_iff in Eq. apply N.eqb_eq in Eq. subst ce.
  (* '=' is not the NUL at line + len - 1 *)
  assert (Hlt : key + klen < line + len - 1).
  { destruct (N.eq_dec (key + klen) (line + len - 1)) as [E|E]; [|lia].
    rewrite E in Ece. rewrite Hz1 in Ece. discriminate. }
  destruct (bset_lt buf1 (key + klen) 0) as [buf2 [Eb2 Hl2]]; [destruct Hb1 as [Hl _]; unfold blen in Hl; lia|].
  rewrite Eb2; cbn [bind].
  assert (Hb2 : pax_buf_ok buf2 endp) by (eapply pax_buf_set; [exact Hb1| |exact Eb2]; lia).
  unfold cstr_at.
  destruct (pax_buf_suffix buf2 endp key Hb2 ltac:(lia)) as [E7 [Hin7 _]]. rewrite E7; cbn [bind].
  destruct (cstr_safe _ Hin7) as [keystr [E8 _]]. rewrite E8; cbn [bind].
  destruct (pax_buf_suffix buf2 endp (key + klen + 1) Hb2 ltac:(lia)) as [E9 [Hin9 _]]. rewrite E9; cbn [bind].
  assert (Hsl : key + klen + 1 + (len - (key + klen + 1 - line) - 1) <= blen buf2).
  { destruct Hb2 as [Hl _]. rewrite Hl. lia. }
  destruct (graceful_shape _ (pax_apply_graceful buf2 keystr _ (key + klen + 1) (len - (key + klen + 1 - line) - 1) st Hin9 Hsl))
    as [[st' E10]|[e E10]]; rewrite E10; cbn [bind]; [|left; eauto].
  right. exists buf2, st', len. repeat split; auto; try lia; apply Hb2.
Qed.

Lemma pax_loop_graceful : forall fuel buf endp line st,
  pax_buf_ok buf endp -> line <= endp -> (N.to_nat (endp - line) < fuel)%nat ->
  graceful (pax_loop fuel buf endp line st).
Proof.
  induction fuel as [|f IH]; intros buf endp line st Hb Hl Hf; [lia|].
  cbn [pax_loop]. destruct (line <? endp) eqn:E; [|done_graceful]. apply N.ltb_lt in E.
  destruct (pax_line_safe buf endp line st Hb E) as [[e Ee]|[buf' [st' [len [Ee [Hb' [H1 H2]]]]]]];
    rewrite Ee; cbn [bind]; [done_graceful|].
  apply IH; auto; lia.
Qed.

Lemma read_pax_header_safe s entsize :
  (exists e, read_pax_header s entsize = Err e) \/
  (exists h fl s1, read_pax_header s entsize = Ok (h, fl, s1) /\ (length s1 <= length s)%nat /\
     (0 < entsize -> (length s1 < length s)%nat)).
Proof.
  unfold read_pax_header.
  destruct (record_to_memory_spec s entsize) as [[e E]|[buf [s2 [E [Hl [Hz [Hs Hs']]]]]]]; rewrite E; cbn [bind];
    [left; eauto|].
  assert (Hb : pax_buf_ok buf entsize) by (split; assumption).
  destruct (graceful_shape _ (pax_loop_graceful (S (N.to_nat entsize)) buf entsize 0 (mkPax hdr0 0 0 false) Hb
              ltac:(lia) ltac:(lia))) as [[st E2]|[e E2]]; rewrite E2; cbn [bind]; [right|left; eauto].
  eexists; eexists; eexists; split; [reflexivity|]. auto.
Qed.

(* ================================================================== *)
(* GNU 1.0 sparse map: the window                                      *)
(* ================================================================== *)
(* dec_go reads positions pos .. pos+n-1 at most *)
Lemma dec_go_safe : forall n win pos value count,
  pos + N.of_nat n <= blen win ->
  exists ov c, dec_go n win pos value count = Ok (ov, c) /\ count <= c /\ c <= count + N.of_nat n.
Proof.
  induction n as [|n IH]; intros win pos value count Hb.
  - exists (Some value), count. split; [reflexivity|lia].
  - cbn [dec_go]. destruct (bget_lt win pos) as [c Ec]; [unfold blen in Hb; lia|]. rewrite Ec; cbn [bind].
    destruct (c_isdigit c); [|exists (Some value), count; split; [reflexivity|lia]].
    destruct (u64max <? value * 10); [exists None, count; split; [reflexivity|lia]|].
    destruct (u64max <? value * 10 + (c - 48)); [exists None, count; split; [reflexivity|lia]|].
    destruct (IH win (pos + 1) (value * 10 + (c - 48)) (count + 1)) as [ov [c' [E [H1 H2]]]]; [lia|].
    exists ov, c'. split; [exact E|lia].
Qed.

Lemma decode_safe win off len :
  off + len <= blen win ->
  exists v ret, decode win off len = Ok (v, ret) /\ (ret <= Z.of_N len)%Z.
Proof.
  intro Hb. unfold decode.
  destruct (dec_go_safe (N.to_nat len) win off 0 0) as [ov [c [E [_ Hc]]]]; [lia|].
  rewrite E; cbn [bind]. destruct ov as [value|]; [|exists 0, (-1)%Z; split; [reflexivity|lia]].
  destruct ((c =? 0) || (c =? len)) eqn:Ec; [exists value, 0%Z; split; [reflexivity|lia]|].
  apply orb_false_iff in Ec. destruct Ec as [_ Ec]. apply N.eqb_neq in Ec.
  destruct (bget_lt win (off + c)) as [x Ex]; [unfold blen in Hb; lia|]. rewrite Ex; cbn [bind].
  destruct (x =? 10); eexists; eexists; (split; [reflexivity|lia]).
Qed.

(* ---- the run of digits at a position, independent of the value arithmetic ---- *)
Fixpoint drun (n : nat) (s : list N) : nat :=
  match n, s with
  | S n', c :: r => if c_isdigit c then S (drun n' r) else 0%nat
  | _, _ => 0%nat
  end.

Lemma skipn_lget {A} (l : list A) : forall n x, lget l n = Ok x -> skipn n l = x :: skipn (S n) l.
Proof.
  induction l as [|y l IH]; intros n x H; destruct n; simpl in *; try discriminate.
  - inversion H; reflexivity.
  - apply IH; exact H.
Qed.

Lemma dec_go_run : forall n win pos value count v c,
  dec_go n win pos value count = Ok (Some v, c) ->
  c = count + N.of_nat (drun n (skipn (N.to_nat pos) win)).
Proof.
  induction n as [|n IH]; intros win pos value count v c H.
  - simpl in H. inversion H; subst. simpl. lia.
  - cbn [dec_go] in H. destruct (bget win pos) as [x| | |] eqn:Ex; cbn [bind] in H; try discriminate.
    unfold bget in Ex. rewrite (skipn_lget _ _ _ Ex). cbn [drun].
    destruct (c_isdigit x); [|inversion H; subst; lia].
    destruct (u64max <? value * 10); [discriminate|].
    destruct (u64max <? value * 10 + (x - 48)); [discriminate|].
    apply IH in H. replace (N.to_nat (pos + 1)) with (S (N.to_nat pos)) in H by lia. lia.
Qed.

Lemma drun_le n s : (drun n s <= n)%nat.
Proof. revert s; induction n as [|n IH]; intros [|c r]; simpl; try lia. destruct (c_isdigit c); [specialize (IH r)|]; lia. Qed.

(* a full run stays a (at least as long) run when more bytes follow *)
Lemma drun_full_app : forall n s t k, drun n s = n -> (n <= drun (n + k) (s ++ t))%nat.
Proof.
  induction n as [|n IH]; intros s t k H; [lia|].
  destruct s as [|c r]; [simpl in H; lia|]. simpl in *.
  destruct (c_isdigit c); [|lia]. specialize (IH r t k ltac:(lia)). lia.
Qed.

(* a run that is empty because of its first byte stays empty *)
Lemma drun_zero_app : forall n s t k, (0 < n)%nat -> s <> [] -> drun n s = 0%nat -> drun (n + k) (s ++ t) = 0%nat.
Proof.
  intros n s t k Hn Hs H. destruct n; [lia|]. destruct s as [|c r]; [congruence|]. simpl in *.
  destruct (c_isdigit c); [lia|reflexivity].
Qed.

Lemma skipn_app_le {A} (a b : list A) n : (n <= length a)%nat -> skipn n (a ++ b) = skipn n a ++ b.
Proof. intro H. rewrite skipn_app. replace (n - length a)%nat with 0%nat by lia. reflexivity. Qed.

(* the window invariant: exactly the first block is loaded and diff is inside it *)
Definition win_ok (st : nsp) : Prop := blen (ns_win st) = 512 /\ ns_diff st <= 512.

Lemma new_sparse_step_safe st : win_ok st ->
  (exists e, new_sparse_step st = Err e) \/
  (exists v st', new_sparse_step st = Ok (v, st') /\ win_ok st' /\ (length (ns_s st') <= length (ns_s st))%nat).
Proof.
  intros [Hw Hd]. unfold new_sparse_step.
  assert (E0 : (512 <? ns_diff st) = false) by (apply N.ltb_ge; exact Hd). rewrite E0.
  destruct (decode_safe (ns_win st) (ns_diff st) (512 - ns_diff st)) as [v [ret [E Hr]]]; [lia|].
  rewrite E; cbn [bind].
  destruct (ret <? 0)%Z eqn:Eneg; [left; eauto|]. apply Z.ltb_ge in Eneg.
  destruct (0 <? ret)%Z eqn:Epos.
  { apply Z.ltb_lt in Epos. right. eexists; eexists; split; [reflexivity|].
    split; [|simpl; lia]. split; simpl; [exact Hw|lia]. }
  apply Z.ltb_ge in Epos. assert (ret = 0%Z) by lia. subst ret.
  destruct (ns_rec st <? 512); [left; eauto|].
  destruct (sread_spec 512 (ns_s st)) as [Hr1 Hr2].
  destruct (sread 512 (ns_s st)) as [blk s1]. cbn [fst snd] in *.
  destruct (blen blk <? 512) eqn:Eb; [left; eauto|]. apply N.ltb_ge in Eb.
  assert (Hblk : blen blk = 512) by (unfold blen in *; lia).
  assert (Hw2 : blen (ns_win st ++ blk) = 1024) by (rewrite blen_app; lia).
  destruct (decode_safe (ns_win st ++ blk) (ns_diff st) (1024 - ns_diff st)) as [v2 [ret2 [E2 Hr2']]]; [lia|].
  rewrite E2; cbn [bind].
  destruct (ret2 <=? 0)%Z eqn:Ele; [left; eauto|]. apply Z.leb_gt in Ele.
  (* diff + ret2 >= 512: relate the two scans *)
  assert (Hlow : 512 <= ns_diff st + Z.to_N ret2).
  { destruct (N.eq_dec (ns_diff st) 512) as [Ed|Ed]; [lia|].
    (* unfold both decodes *)
    unfold decode in E, E2.
    destruct (dec_go (N.to_nat (512 - ns_diff st)) (ns_win st) (ns_diff st) 0 0) as [[ov1 c1]| | |] eqn:G1;
      cbn [bind] in E; try discriminate.
    destruct ov1 as [val1|]; [|inversion E; lia].
    destruct (dec_go (N.to_nat (1024 - ns_diff st)) (ns_win st ++ blk) (ns_diff st) 0 0) as [[ov2 c2]| | |] eqn:G2;
      cbn [bind] in E2; try discriminate.
    destruct ov2 as [val2|]; [|inversion E2; lia].
    pose proof (dec_go_run _ _ _ _ _ _ _ G1) as R1. pose proof (dec_go_run _ _ _ _ _ _ _ G2) as R2.
    rewrite skipn_app_le in R2 by (unfold blen in Hw; lia).
    replace (N.to_nat (1024 - ns_diff st)) with (N.to_nat (512 - ns_diff st) + 512)%nat in R2 by lia.
    set (n1 := N.to_nat (512 - ns_diff st)) in *.
    set (sfx := skipn (N.to_nat (ns_diff st)) (ns_win st)) in *.
    assert (Hsfx : sfx <> []).
    { intro Hnil. assert (Hl : length sfx = (length (ns_win st) - N.to_nat (ns_diff st))%nat) by (apply skipn_length).
      rewrite Hnil in Hl. simpl in Hl. unfold blen in Hw. lia. }
    destruct ((c1 =? 0) || (c1 =? 512 - ns_diff st)) eqn:Ec1.
    2:{ (* first decode did not return 0: contradiction with ret = 0 *)
        destruct (bget (ns_win st) (ns_diff st + c1)) as [x| | |]; cbn [bind] in E; try discriminate.
        destruct (x =? 10); inversion E; lia. }
    apply orb_true_iff in Ec1.
    destruct (N.eq_dec c1 (512 - ns_diff st)) as [Efull|Enfull].
    - (* the run filled the first window *)
      assert (Hfull : drun n1 sfx = n1) by (unfold n1 in *; lia).
      pose proof (drun_full_app n1 sfx blk 512 Hfull) as Hge.
      destruct ((c2 =? 0) || (c2 =? 1024 - ns_diff st)); [inversion E2; lia|].
      destruct (bget (ns_win st ++ blk) (ns_diff st + c2)) as [x| | |]; cbn [bind] in E2; try discriminate.
      destruct (x =? 10); inversion E2; subst ret2; unfold n1 in *; lia.
    - (* the byte at diff is not a digit: the second scan finds nothing either *)
      assert (Hc1 : c1 = 0) by (destruct Ec1 as [H|H]; apply N.eqb_eq in H; [exact H|congruence]).
      assert (Hz : drun n1 sfx = 0%nat) by lia.
      assert (Hn1 : (0 < n1)%nat) by (unfold n1; lia).
      rewrite (drun_zero_app n1 sfx blk 512 Hn1 Hsfx Hz) in R2.
      assert (c2 = 0) by lia. subst c2. simpl in E2. inversion E2; lia. }
  assert (E3 : (ns_diff st + Z.to_N ret2 <? 512) = false) by (apply N.ltb_ge; exact Hlow). rewrite E3.
  right. eexists; eexists; split; [reflexivity|]. unfold win_ok. cbn [ns_win ns_diff ns_s].
  split; [|lia]. split.
  - unfold blen in *. rewrite skipn_length. rewrite app_length. lia.
  - lia.
Qed.

Lemma new_sparse_loop_graceful : forall n i st pending acc, win_ok st -> graceful (new_sparse_loop n i st pending acc).
Proof.
  induction n as [|n IH]; intros i st pending acc Hw; [simpl; done_graceful|].
  cbn [new_sparse_loop].
  destruct (new_sparse_step_safe st Hw) as [[e E]|[v [st' [E [Hw' _]]]]]; rewrite E; cbn [bind]; [done_graceful|].
  destruct pending; apply IH; exact Hw'.
Qed.

Lemma new_sparse_loop_stream : forall n i st pending acc l st',
  win_ok st -> new_sparse_loop n i st pending acc = Ok (l, st') -> (length (ns_s st') <= length (ns_s st))%nat.
Proof.
  induction n as [|n IH]; intros i st pending acc l st' Hw H.
  - simpl in H. inversion H; subst. lia.
  - cbn [new_sparse_loop] in H.
    destruct (new_sparse_step_safe st Hw) as [[e E]|[v [st1 [E [Hw1 Hs1]]]]]; rewrite E in H; cbn [bind] in H; [discriminate|].
    destruct pending; apply IH in H; auto; lia.
Qed.

Lemma read_gnu_new_sparse_safe s rec :
  (exists e, read_gnu_new_sparse s rec = Err e) \/
  (exists l rec' s', read_gnu_new_sparse s rec = Ok (l, rec', s') /\ (length s' <= length s)%nat).
Proof.
  unfold read_gnu_new_sparse. destruct (rec <? 512); [left; eauto|].
  destruct (sread_spec 512 s) as [Hr1 Hr2].
  destruct (sread 512 s) as [blk s1]. cbn [fst snd] in *.
  destruct (blen blk <? 512) eqn:Eb; [left; eauto|]. apply N.ltb_ge in Eb.
  assert (Hblk : blen blk = 512) by (unfold blen in *; lia).
  destruct (decode_safe blk 0 512) as [count [diff [E Hd]]]; [lia|]. rewrite E; cbn [bind].
  destruct (diff <=? 0)%Z eqn:Ed; [left; eauto|]. apply Z.leb_gt in Ed.
  destruct ((count =? 0) || (c_TAR_MAX_SPARSE_ENT <? count)); [left; eauto|].
  set (st0 := mkNsp blk (Z.to_N diff) (rec - 512) s1).
  assert (Hw : win_ok st0) by (split; simpl; [exact Hblk|lia]).
  destruct (graceful_shape _ (new_sparse_loop_graceful (N.to_nat (count * 2)) 0 st0 None [] Hw)) as [[[l st'] E2]|[e E2]];
    rewrite E2; cbn [bind]; [right|left; eauto].
  eexists; eexists; eexists; split; [reflexivity|].
  pose proof (new_sparse_loop_stream _ _ _ _ _ _ _ Hw E2) as Hs. simpl in Hs. lia.
Qed.

(* ================================================================== *)
(* old GNU sparse maps                                                 *)
(* ================================================================== *)
Lemma old_parse_safe : forall n blk off acc,
  off + N.of_nat n * sizeof_gnu_old_sparse_t <= blen blk ->
  (exists e, old_parse n blk off acc = Err e) \/ (exists l b, old_parse n blk off acc = Ok (l, b)).
Proof.
  induction n as [|n IH]; intros blk off acc Hb; [right; simpl; eauto|].
  cbn [old_parse].
  assert (Hsz : sizeof_gnu_old_sparse_t = 24) by reflexivity.
  destruct (hfield_ok blk (off + soff_offset) slen_offset) as [fo [E1 L1]];
    [unfold soff_offset, slen_offset in *; lia|]. rewrite E1; cbn [bind].
  destruct (hfield_ok blk (off + soff_numbytes) slen_numbytes) as [fn [E2 L2]];
    [unfold soff_numbytes, slen_numbytes in *; lia|]. rewrite E2; cbn [bind].
  destruct (lget_lt fo 0) as [c1 G1]; [rewrite L1; unfold slen_offset; lia|]. rewrite G1; cbn [bind].
  destruct (lget_lt fn 0) as [c2 G2]; [rewrite L2; unfold slen_numbytes; lia|]. rewrite G2; cbn [bind].
  destruct (negb (c_isdigit c1) || negb (c_isdigit c2)); [right; eauto|].
  destruct (read_number_shape fo) as [[o Eo]|[e Eo]]; [destruct fo; [simpl in G1; discriminate|discriminate]| |];
    rewrite Eo; cbn [bind]; [|left; eauto].
  destruct (read_number_shape fn) as [[c Ec]|[e Ec]]; [destruct fn; [simpl in G2; discriminate|discriminate]| |];
    rewrite Ec; cbn [bind]; [|left; eauto].
  apply IH. lia.
Qed.

Lemma old_ext_safe : forall fuel s acc, (length s < fuel)%nat ->
  (exists e, old_ext fuel s acc = Err e) \/
  (exists l s', old_ext fuel s acc = Ok (l, s') /\ (length s' <= length s)%nat).
Proof.
  induction fuel as [|f IH]; intros s acc Hf; [lia|].
  cbn [old_ext].
  destruct (sread_spec sizeof_gnu_old_sparse_record_t s) as [Hr1 Hr2].
  destruct (sread sizeof_gnu_old_sparse_record_t s) as [blk s1]. cbn [fst snd] in *.
  destruct (blen blk <? sizeof_gnu_old_sparse_record_t) eqn:Eb; [left; eauto|]. apply N.ltb_ge in Eb.
  assert (Hblk : blen blk = 512) by (unfold blen, sizeof_gnu_old_sparse_record_t in *; lia).
  destruct (old_parse_safe (N.to_nat gnu_rec_sparse_count) blk 0 acc) as [[e E]|[l [b E]]];
    [unfold gnu_rec_sparse_count, sizeof_gnu_old_sparse_t; lia| |]; rewrite E; cbn [bind]; [left; eauto|].
  destruct (bget_lt blk roff_isextended) as [x Ex]; [unfold blen, roff_isextended in *; lia|]. rewrite Ex; cbn [bind].
  destruct (negb b && negb (x =? 0)).
  - destruct (IH s1 l) as [[e E2]|[l2 [s2 [E2 Hs2]]]]; [unfold blen, sizeof_gnu_old_sparse_record_t in *; lia| |].
    + left; eauto.
    + right. exists l2, s2. split; [exact E2|lia].
  - right. exists l, s1. split; [reflexivity|lia].
Qed.

Lemma read_gnu_old_sparse_safe hdr s : blen hdr = sizeof_tar_header_t ->
  (exists e, read_gnu_old_sparse hdr s = Err e) \/
  (exists l s', read_gnu_old_sparse hdr s = Ok (l, s') /\ (length s' <= length s)%nat).
Proof.
  intro Hh. unfold read_gnu_old_sparse.
  destruct (old_parse_safe (N.to_nat gnu_hdr_sparse_count) hdr hoff_gnu_sparse []) as [[e E]|[l [b E]]];
    [unfold gnu_hdr_sparse_count, sizeof_gnu_old_sparse_t, hoff_gnu_sparse, sizeof_tar_header_t in *; lia| |];
    rewrite E; cbn [bind]; [left; eauto|].
  destruct (bget_lt hdr hoff_gnu_isextended) as [x Ex]; [unfold blen in Hh; field_in_header|]. rewrite Ex; cbn [bind].
  destruct (b || (x =? 0)); [right; exists l, s; split; [reflexivity|lia]|].
  apply old_ext_safe. lia.
Qed.

(* ================================================================== *)
(* read_header                                                         *)
(* ================================================================== *)
(* outcome of read_header on a stream: never Crash / OutOfFuel; a returned header consumed input *)
Definition rh_ok (s : list N) (r : res rh_result) : Prop :=
  (exists e, r = Err e) \/ r = Ok RH_eof \/
  (exists h (s' : list N), r = Ok (RH_hdr h s') /\ (length s' < length s)%nat).

Lemma rh_finish_safe h flags ver out s :
  blen h = sizeof_tar_header_t ->
  (exists e, rh_finish h flags ver out s = Err e) \/
  (exists o (s' : list N), rh_finish h flags ver out s = Ok (RH_hdr o s') /\ (length s' <= length s)%nat).
Proof.
  intro Hh. unfold rh_finish.
  destruct (decode_header_safe h flags out ver Hh) as [[o1 E]|[e E]]; rewrite E; cbn [bind]; [|left; eauto].
  destruct (has_flag flags PAX_SPARSE_GNU_1_X).
  - destruct (read_gnu_new_sparse_safe s (h_record o1)) as [[e E2]|[l [rec [s' [E2 Hs]]]]]; rewrite E2; cbn [bind];
      [left; eauto|].
    right. eexists; eexists; split; [reflexivity|exact Hs].
  - cbn [bind]. right. eexists; eexists; split; [reflexivity|lia].
Qed.

Lemma rh_ok_weaken (s s1 : list N) r : (length s1 < length s)%nat ->
  ((exists e, r = Err e) \/ (exists o (s' : list N), r = Ok (RH_hdr o s') /\ (length s' <= length s1)%nat)) -> rh_ok s r.
Proof.
  intros Hl [[e E]|[o [s' [E Hs]]]]; [left; eauto|]. right; right. exists o, s'. split; [exact E|lia].
Qed.

Lemma rh_ok_shorter (s s1 : list N) r : (length s1 <= length s)%nat -> rh_ok s1 r -> rh_ok s r.
Proof.
  intros Hl [[e E]|[E|[o [s' [E Hs]]]]]; [left; eauto|right; left; exact E|].
  right; right. exists o, s'. split; [exact E|lia].
Qed.

Lemma rh_loop_safe : forall fuel s out flags pz, (length s < fuel)%nat -> rh_ok s (rh_loop fuel s out flags pz).
Proof.
  induction fuel as [|f IH]; intros s out flags pz Hf; [lia|].
  cbn [rh_loop].
  destruct (sread_spec sizeof_tar_header_t s) as [Hr1 Hr2].
  destruct (sread sizeof_tar_header_t s) as [h s1]. cbn [fst snd] in *.
  destruct (blen h =? 0); [right; left; reflexivity|].
  destruct (blen h <? sizeof_tar_header_t) eqn:Eb; [left; eauto|]. apply N.ltb_ge in Eb.
  assert (Hh : blen h = sizeof_tar_header_t) by (unfold blen, sizeof_tar_header_t in *; lia).
  assert (Hs1 : (length s1 < length s)%nat) by (unfold blen, sizeof_tar_header_t in *; lia).
  destruct (all_zero h).
  { destruct pz; [right; left; reflexivity|]. eapply rh_ok_shorter; [|apply IH]; lia. }
  destruct (check_version_safe h Hh) as [ver Ev]. rewrite Ev; cbn [bind].
  assert (Hmain : rh_ok s
    (do okc <- checksum_valid h;
     if negb okc then Err e_chksum else
     do typeflag <- bget h hoff_typeflag;
     let finish := rh_finish h flags ver in
     if typeflag =? c_TAR_TYPE_GNU_SLINK then
       do sz <- num_field h hoff_size hlen_size;
       if (sz <? 1) || (c_TAR_MAX_SYMLINK_LEN <? sz) then Err e_len else
       do r <- record_to_memory s1 sz;
       let (buf, s2) := r in
       do str <- cstr buf;
       rh_loop f s2 (set_link out (Some str)) (N.lor flags PAX_SLINK_TARGET) false
     else if typeflag =? c_TAR_TYPE_GNU_PATH then
       do sz <- num_field h hoff_size hlen_size;
       if (sz <? 1) || (c_TAR_MAX_PATH_LEN <? sz) then Err e_len else
       do r <- record_to_memory s1 sz;
       let (buf, s2) := r in
       do str <- cstr buf;
       rh_loop f s2 (set_name out (Some str)) (N.lor flags PAX_NAME) false
     else if typeflag =? c_TAR_TYPE_PAX_GLOBAL then
       do sz <- num_field h hoff_size hlen_size;
       rh_loop f (sskip (round512 sz) s1) out flags false
     else if typeflag =? c_TAR_TYPE_PAX then
       do sz <- num_field h hoff_size hlen_size;
       if (sz <? 1) || (c_TAR_MAX_PAX_LEN <? sz) then Err e_len else
       do r <- read_pax_header s1 sz;
       let '(out', flags', s2) := r in
       rh_loop f s2 out' flags' false
     else if typeflag =? c_TAR_TYPE_GNU_SPARSE then
       do r <- read_gnu_old_sparse h s1;
       let (l, s2) := r in
       match l with
       | [] => Err e_sparse
       | _ =>
         do rs <- num_field h hoff_gnu_realsize hlen_gnu_realsize;
         finish (set_actual (set_sparse out l) rs) s2
       end
     else finish out s1)).
  { destruct (checksum_valid_safe h Hh) as [okc Ec]. rewrite Ec; cbn [bind].
    destruct (negb okc); [left; eauto|].
    destruct (bget_lt h hoff_typeflag ltac:(unfold blen in Hh; field_in_header)) as [tf Etf]. rewrite Etf; cbn [bind].
    cbv zeta.
    assert (Hsize : (exists v, num_field h hoff_size hlen_size = Ok v) \/ (exists e, num_field h hoff_size hlen_size = Err e))
      by (apply num_field_safe; field_in_header).
    (* K and L *)
    assert (Hlong : forall lim upd fl,
      rh_ok s (do sz <- num_field h hoff_size hlen_size;
               if (sz <? 1) || (lim <? sz) then Err e_len else
               do r <- record_to_memory s1 sz;
               let (buf, s2) := r in
               do str <- cstr buf;
               rh_loop f s2 (upd out (Some str)) (N.lor flags fl) false)).
    { intros lim upd fl. destruct Hsize as [[sz E]|[e E]]; rewrite E; cbn [bind]; [|left; eauto].
      destruct ((sz <? 1) || (lim <? sz)); [left; eauto|].
      destruct (record_to_memory_spec s1 sz) as [[e E2]|[buf [s2 [E2 [Hl [Hz [Hs2 _]]]]]]]; rewrite E2; cbn [bind];
        [left; eauto|].
      assert (Hin : In 0 buf).
      { unfold bget in Hz. apply lget_ok_iff in Hz. eapply nth_error_In; eauto. }
      destruct (cstr_safe buf Hin) as [str [E3 _]]. rewrite E3; cbn [bind].
      eapply rh_ok_shorter; [|apply IH]; lia. }
    destruct (tf =? c_TAR_TYPE_GNU_SLINK); [apply Hlong|].
    destruct (tf =? c_TAR_TYPE_GNU_PATH); [apply Hlong|].
    destruct (tf =? c_TAR_TYPE_PAX_GLOBAL).
    { destruct Hsize as [[sz E]|[e E]]; rewrite E; cbn [bind]; [|left; eauto].
      pose proof (sskip_le (round512 sz) s1). eapply rh_ok_shorter; [|apply IH]; lia. }
    destruct (tf =? c_TAR_TYPE_PAX).
    { destruct Hsize as [[sz E]|[e E]]; rewrite E; cbn [bind]; [|left; eauto].
      destruct ((sz <? 1) || (c_TAR_MAX_PAX_LEN <? sz)); [left; eauto|].
      destruct (read_pax_header_safe s1 sz) as [[e E2]|[o' [fl' [s2 [E2 [Hs2 _]]]]]]; rewrite E2; cbn [bind];
        [left; eauto|].
      eapply rh_ok_shorter; [|apply IH]; lia. }
    destruct (tf =? c_TAR_TYPE_GNU_SPARSE).
    { destruct (read_gnu_old_sparse_safe h s1 Hh) as [[e E2]|[l [s2 [E2 Hs2]]]]; rewrite E2; cbn [bind]; [left; eauto|].
      destruct l as [|x l]; [left; eauto|].
      destruct (num_field_safe h hoff_gnu_realsize hlen_gnu_realsize ltac:(field_in_header) ltac:(field_in_header))
        as [[rs E3]|[e E3]]; rewrite E3; cbn [bind]; [|left; eauto].
      apply (rh_ok_weaken s s1); [exact Hs1|].
      destruct (rh_finish_safe h flags ver (set_actual (set_sparse out (x :: l)) rs) s2 Hh) as [[e E4]|[o [s' [E4 Hs']]]];
        [left; eauto|right]. exists o, s'. split; [exact E4|lia]. }
    apply (rh_ok_weaken s s1); [exact Hs1|]. apply rh_finish_safe. exact Hh. }
  destruct ver; try exact Hmain. left; eauto.
Qed.

Lemma read_header_ok s : rh_ok s (read_header s).
Proof. unfold read_header. apply rh_loop_safe. lia. Qed.

Lemma read_header_graceful_l s : graceful (read_header s).
Proof.
  destruct (read_header_ok s) as [[e E]|[E|[h [s' [E _]]]]]; rewrite E; done_graceful.
Qed.

Lemma tar_walk_graceful : forall fuel s acc, (length s < fuel)%nat -> graceful (tar_walk fuel s acc).
Proof.
  induction fuel as [|f IH]; intros s acc Hf; [lia|].
  cbn [tar_walk].
  destruct (read_header_ok s) as [[e E]|[E|[h [s' [E Hs]]]]]; rewrite E; cbn [bind]; try done_graceful.
  apply IH.
  pose proof (sskip_le (h_record h) s').
  pose proof (sskip_le (if h_record h mod 512 =? 0 then 0 else 512 - h_record h mod 512) (sskip (h_record h) s')).
  lia.
Qed.

Lemma tar_walk_all_graceful_l s : graceful (tar_walk_all s).
Proof. unfold tar_walk_all. apply tar_walk_graceful. lia. Qed.

(* a returned header has consumed input: the archive walk makes progress *)
Lemma read_header_progress_l s h s' : read_header s = Ok (RH_hdr h s') -> (length s' < length s)%nat.
Proof.
  intro H. destruct (read_header_ok s) as [[e E]|[E|[h0 [s0 [E Hs]]]]]; rewrite E in H; try discriminate.
  inversion H; subst. exact Hs.
Qed.

(* a partial header record is an error, the end of the input between two records is the end of the archive *)
Lemma read_header_partial_l s : (0 < length s < 512)%nat -> exists e, read_header s = Err e.
Proof.
  intro H. unfold read_header. cbn [rh_loop].
  destruct (sread_spec sizeof_tar_header_t s) as [Hr1 _].
  destruct (sread sizeof_tar_header_t s) as [h s1]. cbn [fst] in Hr1.
  assert (E0 : (blen h =? 0) = false) by (apply N.eqb_neq; unfold blen, sizeof_tar_header_t in *; lia).
  assert (E1 : (blen h <? sizeof_tar_header_t) = true) by (apply N.ltb_lt; unfold blen, sizeof_tar_header_t in *; lia).
  rewrite E0, E1. eauto.
Qed.
