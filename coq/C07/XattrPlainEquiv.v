(* C07 (4) - xattr_file_spec_plain_equiv: XattrFileSpec.xattr_file_spec (what the model of xattr_open_map_file computes,
   by xattr_open_is_spec) = the independent XattrPlain.xattr_file_plain, for every file.  The only difference is
   the representation of a pattern's path: the model keeps the whole block canonicalize_name worked in (result, NUL,
   stale tail), the plain specification the canonical path; [plain_view] reads the block as the C string it is. *)
From Coq Require Import List NArith ZArith Bool Arith Lia ZifyBool ZifyNat ZifyN.
From SqfsV Require Import C07.Res C07.ResLemmas C07.NumModel C07.NumProofs C07.TextModel C07.TextProofs.
From SqfsV Require Import C18.CanonModel C18.CanonSpec C18.CanonProofs.
From SqfsV Require Import C07.XattrFileModel C07.XattrFileProofs C07.XattrFileCodec C07.XattrFileB64 C07.XattrFileApply
     C07.XattrFileSpec C07.XattrPlain C07.XattrPlainLines C07.XattrPlainDecode.
Import ListNotations.
Local Open Scope N_scope.

Definition view_pl (pl : list pl_pat) : list ppat := map (fun p => (upto_nul (fst p), snd p)) pl.

Definition plain_view (x : xspec) : xplain :=
  match x with
  | XS_map pl => XP_map (view_pl pl)
  | XS_refused e ln => XP_refused e ln
  end.

(* ---- strncmp(NEW_FILE_START, line, 8) == 0  is  "the line starts with the marker" ---- *)
Lemma strncmp_plain : forall p pre t tl, Forall nz p ->
  strncmp_eq p (pre ++ t ++ 0 :: tl) (N.of_nat (length pre)) = Ok (starts_with p t).
Proof.
  induction p as [|x p IH]; intros pre t tl Hp; [reflexivity|]. inversion Hp as [|? ? Hx Hp']; subst.
  cbn [strncmp_eq]. destruct t as [|y t].
  - cbn [app]. rewrite bget_mid by reflexivity. cbn [bind starts_with].
    replace (0 =? x) with false by (symmetry; apply N.eqb_neq; intro; apply Hx; congruence). reflexivity.
  - cbn [app]. rewrite bget_mid by reflexivity. cbn [bind starts_with]. rewrite (N.eqb_sym x y).
    destruct (y =? x); [|reflexivity]. cbn [andb].
    replace (pre ++ y :: t ++ 0 :: tl) with ((pre ++ [y]) ++ t ++ 0 :: tl) by (rewrite <- app_assoc; reflexivity).
    replace (N.of_nat (length pre) + 1) with (N.of_nat (length (pre ++ [y]))) by (rewrite app_length; cbn [length]; lia).
    apply IH. exact Hp'.
Qed.

Lemma starts_with_length : forall p t, starts_with p t = true -> (length p <= length t)%nat.
Proof.
  induction p as [|x p IH]; intros t H; [cbn; lia|]. destruct t as [|y t]; [discriminate|].
  cbn [starts_with] in H. apply andb_true_iff in H. destruct H as [_ H]. cbn [length]. specialize (IH t H). lia.
Qed.

(* ---- canonicalisation does not invent NUL bytes ---- *)
Lemma in_split_slash : forall s c x, In c (split_slash s) -> In x c -> In x s.
Proof.
  induction s as [|a s IH]; intros c x Hc Hx.
  - cbn in Hc. destruct Hc as [<-|[]]. destruct Hx.
  - cbn [split_slash] in Hc. destruct (N.eqb a slash).
    + destruct Hc as [<-|Hc]; [destruct Hx|]. right. eapply IH; eauto.
    + destruct (split_slash s) as [|h t] eqn:E.
      * destruct Hc as [<-|[]]. destruct Hx as [<-|[]]. left. reflexivity.
      * destruct Hc as [<-|Hc].
        -- destruct Hx as [<-|Hx]; [left; reflexivity|right]. apply (IH h x); [left; reflexivity|exact Hx].
        -- right. apply (IH c x); [right; exact Hc|exact Hx].
Qed.

Lemma in_join : forall cs x, In x (join cs) -> x = slash \/ exists c, In c cs /\ In x c.
Proof.
  induction cs as [|c cs IH]; intros x Hx; [destruct Hx|]. destruct cs as [|d cs].
  - cbn in Hx. right. exists c. split; [left; reflexivity|exact Hx].
  - change (join (c :: d :: cs)) with (c ++ slash :: join (d :: cs)) in Hx. apply in_app_or in Hx.
    destruct Hx as [Hx|[Hx|Hx]].
    + right. exists c. split; [left; reflexivity|exact Hx].
    + left. congruence.
    + destruct (IH x Hx) as [E|(c' & Hc' & Hx')]; [left; exact E|right]. exists c'. split; [right; exact Hc'|exact Hx'].
Qed.

Lemma canon_nz s r : Forall nz s -> canon_spec s = Some r -> Forall nz r.
Proof.
  intros Hs H. unfold canon_spec in H. destruct (existsb is_dotdot (comps s)); [discriminate|]. inversion H; subst. clear H.
  apply Forall_forall. intros x Hx. destruct (in_join _ _ Hx) as [->|(c & Hc & Hxc)]; [discriminate|].
  apply filter_In in Hc. destruct Hc as [Hc _]. unfold comps in Hc. apply filter_In in Hc. destruct Hc as [Hc _].
  rewrite Forall_forall in Hs. apply Hs. eapply in_split_slash; eauto.
Qed.

(* ---- strchr(line, '=') is the split at the first '=' ---- *)
Lemma split_eq_spec : forall t k v, split_eq t = Some (k, v) -> t = k ++ 61 :: v.
Proof.
  induction t as [|c t IH]; intros k v H; [discriminate|]. cbn [split_eq] in H. destruct (c =? 61) eqn:E.
  - inversion H; subst. apply N.eqb_eq in E. subst. reflexivity.
  - destruct (split_eq t) as [[k' v']|]; [|discriminate]. inversion H; subst. cbn [app]. f_equal. apply IH. reflexivity.
Qed.

Lemma strchr_plain : forall t tl i, Forall nz t ->
  strchr_go (t ++ 0 :: tl) 61 i = Ok (match split_eq t with Some (k, _) => Some (i + N.of_nat (length k)) | None => None end).
Proof.
  induction t as [|c t IH]; intros tl i Ht; [reflexivity|]. inversion Ht as [|? ? Hc Ht']; subst.
  cbn [app strchr_go split_eq]. destruct (c =? 61).
  - cbn [length]. f_equal. f_equal. lia.
  - replace (c =? 0) with false by (symmetry; apply N.eqb_neq; exact Hc). rewrite IH by exact Ht'.
    destruct (split_eq t) as [[k v]|]; [|reflexivity]. cbn [length]. f_equal. f_equal. lia.
Qed.

Lemma nz_app_l (a b : list N) : Forall nz (a ++ b) -> Forall nz a.
Proof. intro H. apply Forall_forall. intros x Hx. rewrite Forall_forall in H. apply H. apply in_or_app. left. exact Hx. Qed.
Lemma nz_app_r (a b : list N) : Forall nz (a ++ b) -> Forall nz b.
Proof. intro H. apply Forall_forall. intros x Hx. rewrite Forall_forall in H. apply H. apply in_or_app. right. exact Hx. Qed.

(* ================================================================== *)
(* one line                                                            *)
(* ================================================================== *)
Lemma step_equiv t pl : Forall nz t -> t <> [] ->
  exists pl2, step_spec (t ++ [0]) pl = Ok (pl2, snd (step_plain t (view_pl pl))) /\
              view_pl pl2 = fst (step_plain t (view_pl pl)).
Proof.
  intros Ht Hne. unfold step_spec, step_plain.
  pose proof (strncmp_plain k_newfile [] t [] k_newfile_nz) as Hs. cbn [app length] in Hs. change (N.of_nat 0) with 0 in Hs.
  rewrite Hs. cbn [bind]. change k_newfile with file_marker.
  destruct (starts_with file_marker t) eqn:Enew.
  - (* # file: path *)
    pose proof (starts_with_length _ _ Enew) as Hl. change (length file_marker) with 8%nat in Hl.
    assert (E8 : t ++ [0] = firstn 8 t ++ (skipn 8 t ++ [0])) by (rewrite app_assoc, firstn_skipn; reflexivity).
    assert (L8 : length (firstn 8 t) = 8%nat) by (rewrite firstn_length; lia).
    assert (Hn8 : Forall nz (skipn 8 t)) by (apply (nz_app_r (firstn 8 t)); rewrite firstn_skipn; exact Ht).
    assert (B8 : bfrom (firstn 8 t ++ (skipn 8 t ++ [0])) 8 = Ok (skipn 8 t ++ [0])).
    { pose proof (bfrom_app (firstn 8 t) (skipn 8 t ++ [0])) as B. rewrite L8 in B. exact B. }
    unfold cstr_at. rewrite E8. rewrite B8. cbn [bind]. rewrite (cstr_app_nul (skipn 8 t) [] Hn8). cbn [bind].
    rewrite bfrom0. cbn [bind]. rewrite (cstr_app_nul (skipn 8 t) [] Hn8). cbn [bind].
    rewrite canon_refines_l. destruct (canon_spec (skipn 8 t)) as [r|] eqn:Ec.
    + eexists. split; [reflexivity|]. cbn [view_pl map fst snd]. f_equal. f_equal.
      unfold canon_block. cbn [app]. apply upto_nul_app_nz. eapply canon_nz; eauto.
    + exists pl. split; reflexivity.
  - (* key=value, comment, or nothing of the kind *)
    rewrite bfrom0. cbn [bind]. rewrite (strchr_plain t [] 0 Ht). cbn [bind].
    destruct (split_eq t) as [[k v]|] eqn:Esp.
    + pose proof (split_eq_spec _ _ _ Esp) as Et.
      assert (Hk : Forall nz k) by (apply (nz_app_l k (61 :: v)); rewrite <- Et; exact Ht).
      assert (Hv : Forall nz v).
      { assert (H : Forall nz (61 :: v)) by (apply (nz_app_r k); rewrite <- Et; exact Ht). inversion H; assumption. }
      rewrite Et. rewrite <- app_assoc. cbn [app]. rewrite (bset_mid k 61 (v ++ [0]) 0) by lia. cbn [bind].
      destruct pl as [|[path ents] rest]; [exists []; split; reflexivity|]. cbn [view_pl map fst snd].
      replace (0 + N.of_nat (length k) + 1) with (N.of_nat (length (k ++ [0]))) by (rewrite app_length; cbn [length]; lia).
      replace (k ++ 0 :: v ++ [0]) with ((k ++ [0]) ++ (v ++ [0])) by (rewrite <- app_assoc; reflexivity).
      rewrite bfrom_app. cbn [bind]. rewrite (xattr_decode_plain v Hv).
      destruct (decode_plain v) as [d|].
      * unfold cstr_at. rewrite bfrom0. cbn [bind]. rewrite <- app_assoc. cbn [app]. rewrite (cstr_app_nul k (v ++ [0]) Hk). cbn [bind].
        eexists. split; reflexivity.
      * eexists. split; reflexivity.
    + destruct t as [|c t']; [congruence|]. cbn [app]. change (bget (c :: t' ++ [0]) 0) with (@Ok N c). cbn [bind].
      destruct (c =? 35); exists pl; split; reflexivity.
Qed.

(* ================================================================== *)
(* the file                                                            *)
(* ================================================================== *)
Lemma file_equiv : forall fuel s pl ln, (length s < fuel)%nat ->
  exists x, file_spec fuel s pl ln = Ok x /\ plain_view x = file_plain (number_lines ln (split_lf s)) (view_pl pl).
Proof.
  induction fuel as [|f IH]; intros s pl ln Hf; [lia|]. cbn [file_spec].
  pose proof (lines_spec_plain (S (length s)) s ln ltac:(lia)) as Hl.
  destruct (number_lines ln (split_lf s)) as [|[k t] more].
  - destruct Hl as (ln' & E). rewrite E. cbn [bind]. eexists. split; reflexivity.
  - destruct Hl as (rest & E & Em & Hr & Hnz & Hne). rewrite E. cbn [bind].
    destruct (step_equiv t pl Hnz Hne) as (pl2 & Es & Ev). rewrite Es. cbn [bind file_plain].
    destruct (step_plain t (view_pl pl)) as [pl2' ret]. cbn [fst snd] in *. subst pl2'.
    destruct ret as [e|].
    + eexists. split; reflexivity.
    + rewrite <- Em. apply IH. lia.
Qed.

Theorem xattr_file_spec_plain_equiv_l s : exists x, xattr_file_spec s = Ok x /\ plain_view x = xattr_file_plain s.
Proof. unfold xattr_file_spec, xattr_file_plain, lines_plain. apply (file_equiv (S (length s)) s [] 1). lia. Qed.

(* the error codes of the plain specification are those of the model *)
Lemma plain_codes : pe_nofile = e_nofile /\ pe_badpath = e_badpath /\ pe_notkv = e_notkv /\ pe_encoding = e_encoding.
Proof. repeat split. Qed.

(* ================================================================== *)
(* composed with the model theorems of XattrFileSpec.v                 *)
(* ================================================================== *)
(* for every file and every cutting into windows: the run of the model returns, and what it returns is the plain answer *)
Lemma xattr_open_is_plain_l win s : exists r, xattr_open_map_file win s = Ok r /\ plain_view (erase r) = xattr_file_plain s.
Proof.
  destruct (xattr_open_is_spec_l win s) as (r & E & Es). destruct (xattr_file_spec_plain_equiv_l s) as (x & Ex & Ev).
  exists r. split; [exact E|]. rewrite Es in Ex. inversion Ex; subst. exact Ev.
Qed.

(* istream_get_line: the line handed out, its number and the stream behind it *)
Lemma get_line_is_plain_l win t s ln t' o s' ln' : get_line win t s ln = Ok (t', o, s', ln') ->
  match number_lines ln (split_lf s) with
  | [] => content o = None
  | (k, x) :: more => content o = Some (x ++ [0]) /\ ln' = k /\ number_lines (k + 1) (split_lf s') = more
  end.
Proof.
  intro H. apply get_line_spec_l in H. pose proof (lines_spec_plain (S (length s)) s ln ltac:(lia)) as P.
  destruct (number_lines ln (split_lf s)) as [|[k x] more].
  - destruct P as (l & E). rewrite E in H. inversion H. reflexivity.
  - destruct P as (rest & E & Em & _). rewrite E in H. inversion H; subst. auto.
Qed.

(* what the lines of the plain specification look like: not empty, no NUL, no space at either end *)
Lemma lstrip_head l : match lstrip l with c :: _ => isspace_plain c = false | [] => True end.
Proof. destruct (lstrip_split l) as (_ & _ & _ & H). exact H. Qed.

Lemma lines_plain_shape s k x : In (k, x) (lines_plain s) ->
  x <> [] /\ Forall nz x /\ (forall c r, x = c :: r -> isspace_plain c = false) /\
  (forall c r, rev x = c :: r -> isspace_plain c = false).
Proof.
  unfold lines_plain. generalize 1. induction (split_lf s) as [|p ps IH]; intros ln H; [destruct H|].
  cbn [number_lines] in H. destruct (line_text p) as [|c0 t0] eqn:Et; [exact (IH _ H)|].
  destruct H as [H|H]; [|exact (IH _ H)]. inversion H; subst. split; [discriminate|]. rewrite <- Et.
  split; [apply line_text_nz|]. split.
  - intros c r Ex. unfold line_text, strip in Ex.
    set (y := lstrip (upto_nul (if snd p then drop_cr (fst p) else fst p))) in *.
    destruct (rstrip_split y) as (sp & Ey & _ & _). pose proof (lstrip_head (upto_nul (if snd p then drop_cr (fst p) else fst p))) as Hh.
    fold y in Hh. rewrite Ey, Ex in Hh. exact Hh.
  - intros c r Ex. unfold line_text, strip in Ex.
    set (y := lstrip (upto_nul (if snd p then drop_cr (fst p) else fst p))) in *.
    destruct (rstrip_split y) as (sp & _ & _ & Hr). rewrite Ex in Hr. exact Hr.
Qed.
