(* C07 (4) — decode_inverse: the value decoder of filemap_xattr.c (TextModel.xattr_decode: decode + hex_decode +
   base64_decode) inverts the three encodings getfattr --dump writes (XattrFileModel.hex_enc / b64_enc / text_enc),
   for every value (no length bound; bytes are < 256). *)
From Coq Require Import List NArith ZArith Bool Arith Lia ZifyBool ZifyNat ZifyN.
From SqfsV Require Import C07.Res C07.ResLemmas C07.NumModel C07.NumProofs C07.TextModel C07.TextProofs C07.XattrFileModel.
Import ListNotations.
Local Open Scope N_scope.
Ltac Zify.zify_post_hook ::= Z.div_mod_to_equations.

Definition byte (b : N) : Prop := b < 256.
Definition nz (c : N) : Prop := c <> 0.

(* a property of all d < n, checked by computation *)
Lemma forallb_N_lt (P : N -> bool) (n : nat) :
  forallb P (map N.of_nat (seq 0 n)) = true -> forall d, d < N.of_nat n -> P d = true.
Proof.
  intros H d Hd. rewrite forallb_forall in H. apply H. apply in_map_iff. exists (N.to_nat d).
  split; [lia|apply in_seq; lia].
Qed.

(* ---------------- C strings ---------------- *)
Lemma span_nz_app l r : Forall nz l ->
  span_count (fun c => negb (c =? 0)) (l ++ 0 :: r) = Ok (N.of_nat (length l)).
Proof.
  induction 1 as [|c l Hc Hl IH]; [reflexivity|].
  cbn [app]. cbn [span_count]. replace (c =? 0) with false by (symmetry; apply N.eqb_neq; exact Hc).
  cbn [negb]. rewrite IH; cbn [bind]. f_equal. simpl length. lia.
Qed.

Lemma strlen_app_nul l : Forall nz l -> strlen_at (l ++ [0]) 0 = Ok (N.of_nat (length l)).
Proof.
  intro H. unfold strlen_at, bfrom. replace (N.of_nat (length (l ++ [0])) <? 0) with false by (symmetry; apply N.ltb_ge; lia).
  cbn [bind]. change (N.to_nat 0) with 0%nat. cbn [skipn]. apply span_nz_app. exact H.
Qed.

Lemma lget_app_r {A} (l r : list A) k : lget (l ++ r) (length l + k) = lget r k.
Proof. induction l as [|x l IH]; [reflexivity|]. simpl. destruct (l ++ r) eqn:E; [|exact IH]. rewrite <- IH. reflexivity. Qed.

Lemma bget_app_off pre l k : bget (pre ++ l) (N.of_nat (length pre) + k) = bget l k.
Proof. unfold bget. replace (N.to_nat (N.of_nat (length pre) + k)) with (length pre + N.to_nat k)%nat by lia. apply lget_app_r. Qed.

(* ================================================================== *)
(* hex                                                                 *)
(* ================================================================== *)
Lemma hex_digit_ok d : d < 16 -> c_isxdigit (hex_char d) = true /\ xdigit (hex_char d) = d /\ hex_char d <> 0.
Proof.
  intro H.
  pose proof (forallb_N_lt (fun d => c_isxdigit (hex_char d) && (xdigit (hex_char d) =? d) && negb (hex_char d =? 0)) 16
                eq_refl d H) as P.
  cbv beta in P. apply andb_true_iff in P. destruct P as [P P3]. apply andb_true_iff in P. destruct P as [P1 P2].
  split; [exact P1|]. split; [apply N.eqb_eq; exact P2|]. apply N.eqb_neq. apply negb_true_iff. exact P3.
Qed.

Lemma hex_body_length v : length (hex_body v) = (2 * length v)%nat.
Proof. induction v as [|b r IH]; [reflexivity|]. simpl. lia. Qed.

Lemma hex_body_nz v : Forall byte v -> Forall nz (hex_body v).
Proof.
  induction 1 as [|b r Hb Hr IH]; [constructor|]. simpl. unfold byte in Hb.
  constructor; [apply hex_digit_ok; lia|]. constructor; [apply hex_digit_ok; lia|exact IH].
Qed.

Lemma hex_go_body : forall v fuel rest acc, (length v < fuel)%nat -> Forall byte v ->
  hex_go fuel (hex_body v ++ rest) (2 * N.of_nat (length v)) (N.of_nat (length v)) acc = Ok (acc ++ v, true).
Proof.
  induction v as [|b r IH]; intros fuel rest acc Hf Hv; (destruct fuel as [|f]; [simpl in Hf; lia|]).
  - cbn [hex_go]. simpl. rewrite app_nil_r. reflexivity.
  - inversion Hv as [|x y Hb Hr]; subst. unfold byte in Hb. cbn [hex_go].
    replace ((0 <? N.of_nat (length (b :: r))) && (2 <=? 2 * N.of_nat (length (b :: r)))) with true
      by (symmetry; apply andb_true_iff; split; [apply N.ltb_lt|apply N.leb_le]; simpl length; lia).
    simpl hex_body. cbn [app].
    destruct (hex_digit_ok (b / 16) ltac:(lia)) as [X1 [D1 _]].
    destruct (hex_digit_ok (b mod 16) ltac:(lia)) as [X2 [D2 _]].
    rewrite X1, X2, D1, D2.
    replace (2 * N.of_nat (length (b :: r)) - 2) with (2 * N.of_nat (length r)) by (simpl length; lia).
    replace (N.of_nat (length (b :: r)) - 1) with (N.of_nat (length r)) by (simpl length; lia).
    replace ((b / 16 * 16 + b mod 16) mod 256) with b by lia.
    rewrite IH; [|simpl in Hf; lia|exact Hr]. rewrite <- app_assoc. reflexivity.
Qed.

Lemma decode_hex_l v : Forall byte v -> xattr_decode (hex_enc v ++ [0]) = Ok v.
Proof.
  intro Hv. unfold xattr_decode, hex_enc.
  rewrite strlen_app_nul; [|constructor; [discriminate|constructor; [discriminate|apply hex_body_nz; exact Hv]]].
  cbn [bind]. rewrite app_length, hex_body_length. simpl length.
  set (n := N.of_nat (length v)).
  replace (N.of_nat (2 + 2 * length v)) with (2 * n + 2) by (unfold n; lia).
  replace (2 * n + 2 =? 0) with false by (symmetry; apply N.eqb_neq; lia).
  cbn [app]. change (bget (48 :: 120 :: hex_body v ++ [0]) 0) with (Ok (A:=N) 48).
  change (bget (48 :: 120 :: hex_body v ++ [0]) 1) with (Ok (A:=N) 120). cbn [bind].
  change ((48 =? 48) && ((120 =? 120) || (120 =? 88))) with true. cbv iota.
  replace ((2 * n + 2 - 2) / 2) with n by lia.
  unfold bfrom. replace (N.of_nat (length (48 :: 120 :: hex_body v ++ [0])) <? 2) with false
    by (symmetry; apply N.ltb_ge; simpl length; lia).
  cbn [bind]. change (N.to_nat 2) with 2%nat. cbn [skipn].
  unfold hex_decode. replace (n * 2) with (2 * n) by lia.
  unfold n. rewrite hex_go_body; [reflexivity| |exact Hv].
  replace (2 * N.of_nat (length v) / 2) with (N.of_nat (length v)) by lia. lia.
Qed.

(* ================================================================== *)
(* text with escapes                                                   *)
(* ================================================================== *)
Section Text.
  Variable oct : N -> bool.
  Hypothesis oct0 : oct 0 = true.       (* a NUL byte is never written raw (getfattr: NUL, '\n', '\r' are octal) *)

  Lemma text_byte_nz b : byte b -> Forall nz (text_byte oct b).
  Proof.
    intro Hb. unfold byte in Hb. unfold text_byte.
    destruct ((b =? 92) || (b =? 34)) eqn:E.
    - constructor; [discriminate|]. constructor; [|constructor].
      apply orb_true_iff in E. destruct E as [E|E]; apply N.eqb_eq in E; subst; discriminate.
    - destruct (oct b) eqn:Eo.
      + repeat constructor; unfold nz; lia.
      + constructor; [|constructor]. intro Z. subst. congruence.
  Qed.

  Lemma text_body_nz v : Forall byte v -> Forall nz (flat_map (text_byte oct) v).
  Proof.
    induction 1 as [|b r Hb Hr IH]; [constructor|]. simpl. apply Forall_app. split; [apply text_byte_nz; exact Hb|exact IH].
  Qed.

  (* the escape loop on the body: m = pre ++ body ++ post, v at the start of the body, endp at its end *)
  Lemma xesc_body : forall v fuel pre post out cap, (length v < fuel)%nat -> Forall byte v ->
    N.of_nat (length out) + N.of_nat (length v) <= cap ->
    xesc_go fuel (pre ++ flat_map (text_byte oct) v ++ post) (N.of_nat (length pre))
            (N.of_nat (length pre) + N.of_nat (length (flat_map (text_byte oct) v))) out cap = Ok (out ++ v).
  Proof.
    induction v as [|b r IH]; intros fuel pre post out cap Hf Hv Hc; (destruct fuel as [|f]; [simpl in Hf; lia|]).
    - cbn [xesc_go]. cbn [flat_map]. simpl length.
      replace (N.of_nat (length pre) + N.of_nat 0 <=? N.of_nat (length pre)) with true by (symmetry; apply N.leb_le; lia).
      rewrite app_nil_r. reflexivity.
    - inversion Hv as [|x y Hb Hr]; subst. unfold byte in Hb. cbn [xesc_go].
      cbn [flat_map]. set (body := flat_map (text_byte oct) r).
      assert (Hlen : (1 <= length (text_byte oct b))%nat).
      { unfold text_byte. destruct ((b =? 92) || (b =? 34)); [simpl; lia|]. destruct (oct b); simpl; lia. }
      replace (N.of_nat (length pre) + N.of_nat (length (text_byte oct b ++ body)) <=? N.of_nat (length pre)) with false
        by (symmetry; apply N.leb_gt; rewrite app_length; lia).
      replace (cap <=? N.of_nat (length out)) with false by (symmetry; apply N.leb_gt; simpl length in Hc; lia).
      (* after the escape sequence the loop is in the state of the induction hypothesis *)
      assert (Hnext : forall k, N.of_nat (length (text_byte oct b)) = k ->
        xesc_go f (pre ++ (text_byte oct b ++ body) ++ post) (N.of_nat (length pre) + k)
                (N.of_nat (length pre) + N.of_nat (length (text_byte oct b ++ body))) (out ++ [b]) cap = Ok (out ++ b :: r)).
      { intros k Hk. subst k.
        replace (pre ++ (text_byte oct b ++ body) ++ post) with ((pre ++ text_byte oct b) ++ body ++ post)
          by (rewrite <- !app_assoc; reflexivity).
        replace (N.of_nat (length pre) + N.of_nat (length (text_byte oct b))) with (N.of_nat (length (pre ++ text_byte oct b)))
          by (rewrite app_length; lia).
        replace (N.of_nat (length pre) + N.of_nat (length (text_byte oct b ++ body)))
          with (N.of_nat (length (pre ++ text_byte oct b)) + N.of_nat (length body)) by (rewrite !app_length; lia).
        unfold body. rewrite IH; [rewrite <- app_assoc; reflexivity|simpl in Hf; lia|exact Hr|].
        rewrite app_length. simpl length in *. lia. }
      (* the bytes of the sequence *)
      assert (Hget : forall k, bget (pre ++ (text_byte oct b ++ body) ++ post) (N.of_nat (length pre) + k)
                               = bget ((text_byte oct b ++ body) ++ post) k) by (intro k; apply bget_app_off).
      pose proof (Hget 0) as Hget0. rewrite N.add_0_r in Hget0.
      rewrite Hget0, ?Hget.
      unfold text_byte in *. destruct ((b =? 92) || (b =? 34)) eqn:E.
      + (* backslash + the character *)
        cbn [app]. change (bget (92 :: b :: body ++ post) 0) with (Ok (A:=N) 92).
        change (bget (92 :: b :: body ++ post) 1) with (Ok b). cbn [bind].
        change (92 =? 92) with true. cbv iota.
        rewrite E. replace (b mod 256) with b by lia.
        apply Hnext. reflexivity.
      + apply orb_false_iff in E. destruct E as [E1 E2].
        destruct (oct b) eqn:Eo.
        * (* backslash + three octal digits *)
          cbn [app].
          change (bget (92 :: 48 + b / 64 :: 48 + (b / 8) mod 8 :: 48 + b mod 8 :: body ++ post) 0) with (Ok (A:=N) 92).
          change (bget (92 :: 48 + b / 64 :: 48 + (b / 8) mod 8 :: 48 + b mod 8 :: body ++ post) 1) with (Ok (48 + b / 64)).
          change (bget (92 :: 48 + b / 64 :: 48 + (b / 8) mod 8 :: 48 + b mod 8 :: body ++ post) 2) with (Ok (48 + (b / 8) mod 8)).
          change (bget (92 :: 48 + b / 64 :: 48 + (b / 8) mod 8 :: 48 + b mod 8 :: body ++ post) 3) with (Ok (48 + b mod 8)).
          cbn [bind]. change (92 =? 92) with true. cbv iota.
          replace ((48 + b / 64 =? 92) || (48 + b / 64 =? 34)) with false
            by (symmetry; apply orb_false_iff; split; apply N.eqb_neq; lia).
          replace ((48 <=? 48 + b / 64) && (48 + b / 64 <=? 55)) with true
            by (symmetry; apply andb_true_iff; split; apply N.leb_le; lia).
          replace ((48 <=? 48 + (b / 8) mod 8) && (48 + (b / 8) mod 8 <=? 55)) with true
            by (symmetry; apply andb_true_iff; split; apply N.leb_le; lia).
          replace ((48 <=? 48 + b mod 8) && (48 + b mod 8 <=? 55)) with true
            by (symmetry; apply andb_true_iff; split; apply N.leb_le; lia).
          replace (((48 + b / 64 - 48) * 8 + (48 + (b / 8) mod 8 - 48)) * 8 + (48 + b mod 8 - 48)) with b by lia.
          replace (b mod 256) with b by lia.
          apply Hnext. reflexivity.
        * (* the byte itself *)
          cbn [app]. change (bget (b :: body ++ post) 0) with (Ok b). cbn [bind].
          rewrite E1. replace (b mod 256) with b by lia.
          apply Hnext. reflexivity.
  Qed.

  Lemma text_body_len v : (length v <= length (flat_map (text_byte oct) v))%nat.
  Proof.
    induction v as [|b r IH]; [simpl; lia|]. cbn [flat_map]. rewrite app_length.
    assert (1 <= length (text_byte oct b))%nat; [|simpl length; lia].
    unfold text_byte. destruct ((b =? 92) || (b =? 34)); [simpl; lia|]. destruct (oct b); simpl; lia.
  Qed.

  Lemma decode_text_l v : Forall byte v -> xattr_decode (text_enc oct v ++ [0]) = Ok v.
  Proof.
    intro Hv. unfold xattr_decode, text_enc.
    pose proof (text_body_len v) as Hbl.
    set (body := flat_map (text_byte oct) v) in *.
    assert (Hnz : Forall nz ([34] ++ body ++ [34])).
    { apply Forall_app. split; [repeat constructor; discriminate|]. apply Forall_app. split; [apply text_body_nz; exact Hv|].
      repeat constructor; discriminate. }
    rewrite strlen_app_nul; [|exact Hnz]. cbn [bind].
    set (size := N.of_nat (length ([34] ++ body ++ [34]))).
    assert (Hsize : size = N.of_nat (length body) + 2) by (unfold size; rewrite !app_length; simpl length; lia).
    replace (size =? 0) with false by (symmetry; apply N.eqb_neq; lia).
    assert (H0 : bget (([34] ++ body ++ [34]) ++ [0]) 0 = Ok 34) by reflexivity. rewrite H0; cbn [bind].
    assert (H1 : exists v1, bget (([34] ++ body ++ [34]) ++ [0]) 1 = Ok v1).
    { apply bget_lt. rewrite !app_length. simpl length. lia. }
    destruct H1 as [v1 H1]. rewrite H1; cbn [bind].
    change (34 =? 48) with false. cbn [andb].
    assert (Hcl : bget (([34] ++ body ++ [34]) ++ [0]) (size - 1) = Ok 34).
    { replace (([34] ++ body ++ [34]) ++ [0]) with (([34] ++ body) ++ [34; 0]) by (rewrite <- !app_assoc; reflexivity).
      replace (size - 1) with (N.of_nat (length ([34] ++ body)) + 0) by (rewrite app_length; simpl length; lia).
      rewrite bget_app_off. reflexivity. }
    rewrite Hcl; cbn [bind]. change (34 =? 34) with true.
    replace (1 <? size) with true by (symmetry; apply N.ltb_lt; lia). cbn [andb]. cbv iota.
    replace (([34] ++ body ++ [34]) ++ [0]) with ([34] ++ body ++ [34; 0]) by (rewrite <- !app_assoc; reflexivity).
    replace (size - 1) with (N.of_nat (length [34]) + N.of_nat (length body)) by (simpl length; lia).
    change 1 with (N.of_nat (length [34])) at 1.
    unfold body. rewrite xesc_body; [reflexivity| |exact Hv|].
    - rewrite Hsize. lia.
    - simpl length. rewrite Hsize. lia.
  Qed.
End Text.

