(* C07 (4) — witnesses: the code before fix F23 (xattr_open_map_file_old: the pattern is linked into the map before
   canonicalize_name has accepted its path, and freed on refusal while still linked) answers Crash (the release
   walk of the error path touches and frees the pattern again); the repaired code refuses the same files with
   every allocation released.  Files used by the non-vacuity examples of Properties_C07.v. *)
From Coq Require Import List NArith ZArith Bool.
From SqfsV Require Import C07.Res C07.NumModel C07.TextModel C07.XattrFileModel.
Import ListNotations.
Local Open Scope N_scope.

(* the one line  # file: ../x *)
Definition xf_dotdot : list N := [35; 32; 102; 105; 108; 101; 58; 32; 46; 46; 47; 120; 10].
(* the lines  # file: ok | user.a=b | # file: a/../../b  : a good pattern with an entry first *)
Definition xf_dotdot2 : list N := [35; 32; 102; 105; 108; 101; 58; 32; 111; 107; 10; 117; 115; 101; 114; 46; 97; 61; 98; 10; 35; 32; 102; 105; 108; 101; 58; 32; 97; 47; 46; 46; 47; 46; 46; 47; 98; 10].
(* all three value syntaxes, an escaped quote, an octal escape, an empty line, a CR LF line end, blanks, a comment:
   # file: /a//b/ | user.t=<quote>a\101\<quote>q<quote> | user.h=0x4142 | (empty) |   user.b=0sQUI=  CR | # comment *)
Definition xf_three : list N := [35; 32; 102; 105; 108; 101; 58; 32; 47; 97; 47; 47; 98; 47; 10; 117; 115; 101; 114; 46; 116; 61; 34; 97; 92; 49; 48; 49; 92; 34; 113; 34; 10; 117; 115; 101; 114; 46; 104; 61; 48; 120; 52; 49; 52; 50; 10; 10; 32; 32; 117; 115; 101; 114; 46; 98; 61; 48; 115; 81; 85; 73; 61; 32; 32; 13; 10; 35; 32; 99; 111; 109; 109; 101; 110; 116; 10].

Definition win_all : list N -> nat := fun s => length s.      (* the stream hands out all it has *)
Definition win_one : list N -> nat := fun _ => 1%nat.          (* one byte at a time *)

Lemma xattr_double_free_refuted_l :
  xattr_open_map_file_old win_all xf_dotdot = Crash /\ xattr_open_map_file_old win_one xf_dotdot = Crash /\
  xattr_open_map_file_old win_all xf_dotdot2 = Crash.
Proof. vm_compute. repeat split. Qed.

Lemma xattr_double_free_repaired_l :
  (exists t, xattr_open_map_file win_all xf_dotdot = Ok (X_refused t e_badpath 1) /\ r_live t = []) /\
  (exists t, xattr_open_map_file win_all xf_dotdot2 = Ok (X_refused t e_badpath 3) /\ r_live t = []).
Proof. vm_compute. split; eexists; split; reflexivity. Qed.
