(* C07, strengthening session 3 (seed C07-9): a compressed container around the tar stream.

   tar2sqfs wraps standard input in lib/xfrm's istream_xfrm over one of the decompressor drivers when it
   sees a gzip / xz / bzip2 / zstd magic.  The driver loops and the reader are modelled and proved in
   coq/C15 (XfrmModel.v; tie: props/C15).  What C07 needs of them is only this: on EVERY input -- a
   sequence of complete members or not, cut anywhere, damaged anywhere -- the reader comes back (every
   iteration of precache / process_data consumes input, produces output or returns: the result is never
   RFuel), and it reports a clean end of file only when the input was a sequence of complete members whose
   whole contents has been handed to the tar reader.  A truncated or damaged container therefore ends in
   RErr (tar2sqfs: "internal compressor error", exit 1), never in a loop and never in a silent short read.

   These are two-line compositions of C15's [istream_eof_sound_l] with the three driver theorems; the
   hypotheses are C15's contracts of the libraries (dec_contract etc., see coq/Properties_C15.v). *)
From Coq Require Import List NArith Bool Arith.
From SqfsV Require Import C15.XfrmModel C15.XfrmSpec C15.XfrmBase C15.XfrmDrvZlib C15.XfrmDrvBzip2
  C15.XfrmDrvZstd C15.XfrmIStreamProofs C15.ToyCodec C15.ToyFormat C15.ToyDecProofs C15.XfrmTop.
Import ListNotations.

(* gzip.c and xz.c *)
Lemma wrapped_gzip_xz_terminates_l :
  forall (Member : list N -> list N -> Prop), format_ok Member ->
  forall (S : Type) (C : codec S) (Rep : S -> list N -> list N -> Prop),
  dec_contract Member S C Rep true -> ok_progresses S C Rep -> mid_ok S C Rep ->
  forall bufsz, 0 < bufsz -> forall st0, Rep st0 [] [] ->
  forall Z ws ops acc e s',
  reader (mk_zlib C true) bufsz (istream_init st0 Z ws) ops [] = (acc, e, s') ->
  e <> RFuel /\ (e = REof -> Stream Member Z acc).
Proof.
  intros Member F S C Rep DC OK MID bufsz Hb st0 H0 Z ws ops acc e s' HR.
  eapply istream_eof_sound_l; eauto using zlib_dec_ok.
Qed.

(* bzip2.c *)
Lemma wrapped_bzip2_terminates_l :
  forall (Member : list N -> list N -> Prop), format_ok Member ->
  forall (S : Type) (C : codec S) (Rep : S -> list N -> list N -> Prop),
  dec_contract Member S C Rep true -> never_buf S C Rep -> mid_ok S C Rep ->
  forall bufsz, 0 < bufsz -> forall st0, Rep st0 [] [] ->
  forall Z ws ops acc e s',
  reader (mk_bzip2 C true) bufsz (istream_init st0 Z ws) ops [] = (acc, e, s') ->
  e <> RFuel /\ (e = REof -> Stream Member Z acc).
Proof.
  intros Member F S C Rep DC NB MID bufsz Hb st0 H0 Z ws ops acc e s' HR.
  eapply istream_eof_sound_l; eauto using bzip2_dec_ok.
Qed.

(* zstd.c *)
Lemma wrapped_zstd_terminates_l :
  forall (Member : list N -> list N -> Prop), format_ok Member ->
  forall (S : Type) (C : codec S) (Rep : S -> list N -> list N -> Prop),
  dec_contract Member S C Rep false -> end_progresses S C Rep ->
  forall bufsz, 0 < bufsz -> forall st0, Rep st0 [] [] ->
  forall Z ws ops acc e s',
  reader (mk_zstd C true) bufsz (istream_init (st0, false) Z ws) ops [] = (acc, e, s') ->
  e <> RFuel /\ (e = REof -> Stream Member Z acc).
Proof.
  intros Member F S C Rep DC EP bufsz Hb st0 H0 Z ws ops acc e s' HR.
  eapply (istream_eof_sound_l Member (S * bool)%type (mk_zstd C true) (ZR S Rep)); eauto using zstd_dec_ok.
  split; [exact H0 | split; reflexivity].
Qed.

(* non-vacuity: C15's toy codec (throttled: 1 byte in / 1 byte out per call, BUF_ERROR under a finishing flush)
   meets the hypotheses of the three lemmas *)
Lemma wrapped_hyps_toy :
  format_ok TMember /\
  (dec_contract TMember tdst toy_dec TRep true /\ ok_progresses tdst toy_dec TRep /\ mid_ok tdst toy_dec TRep /\
   TRep (toy_dec_init 1 1 true) [] []) /\
  (dec_contract TMember tdst (bzify _ (noflush _ toy_dec)) TRep true /\ never_buf tdst (bzify _ (noflush _ toy_dec)) TRep /\
   mid_ok tdst (bzify _ (noflush _ toy_dec)) TRep) /\
  (dec_contract TMember tdst (noflush _ toy_dec) TRep0 false /\ end_progresses tdst (noflush _ toy_dec) TRep0 /\
   TRep0 (toy_dec_init 0 0 false) [] []).
Proof.
  split; [apply toy_format_ok|]. split; [|split].
  - split; [apply toy_dec_contract|]. split; [apply toy_dec_okp|]. split; [apply toy_dec_mid|apply toy_dec_init_rep].
  - split; [apply bzify_dec; apply noflush_dec; apply toy_dec_contract|].
    split; [apply bzify_never_buf|apply bzify_mid; apply noflush_mid; apply toy_dec_mid].
  - split; [apply noflush_dec; apply toy_dec_contract0|].
    split; [apply noflush_endp; exact (toy_dec_endp false)|apply toy_dec_init_rep].
Qed.
