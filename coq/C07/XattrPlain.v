(* C07 (4) - an INDEPENDENT specification of the xattr map file (gensquashfs --xattr-file, the format
   getfattr --dump writes), over plain lists.  Definitions only.

   Audit 4, finding 3: XattrFileSpec.lines_spec / step_spec are assembled from the model's own helpers
   (trim_flags, cr_cut, strncmp_eq, cstr_at, strchr_go, bset, bfrom, xattr_decode ...): a slip in one of
   them is on both sides of xattr_open_is_spec.  Nothing below uses a definition of C07/TextModel.v,
   C07/NumModel.v, C07/XattrFileModel.v or C07/XattrFileSpec.v: no line buffer, no terminating NUL, no
   index arithmetic, no fuel, no [res].  The only import from the development is C18's SPECIFICATION of
   path canonicalisation ([CanonSpec.canon_spec]: split at '/', drop empty and dot components, refuse dot-dot).
   XattrPlainEquiv.xattr_file_spec_plain_equiv_l proves that XattrFileSpec.xattr_file_spec - hence, by
   xattr_open_is_spec, the model of xattr_open_map_file, hence by the tie the code - computes exactly
   this, for every input.

   THE FORMAT
   lines     the file is cut at every LF; of a piece that a LF ended, ONE CR directly in front of the LF
             is dropped; everything from the first NUL byte on is invisible (the line is a C string);
             leading and trailing bytes c with isspace(c) - the six ASCII ones: HT LF VT FF CR SPACE - are
             stripped; a line that is empty then is skipped; lines are numbered from 1, every piece
             counts (also the skipped ones).
   a line    that starts with the eight bytes  # file:   (with the space behind the colon) opens a new
             pattern: its path is the rest of the line, canonicalised (C18); refused (222) if a
             component is dot-dot;
             else, if it contains '=': the bytes before the FIRST '=' are the key, the rest is the
             encoded value; refused (221) if no pattern is open; refused (109) if the value is
             malformed;
             else, if it starts with '#': a comment;
             else refused (223).
   a value   0x / 0X + hex digit pairs; 0s / 0S + base64 in groups of four with '=' padding;
             anything else is text, with optional surrounding double quotes; backslash backslash is a
             backslash, backslash quote is a quote, backslash + one to three octal digits is that byte;
             the empty value is empty.

   BEHAVIOURS OF THE CODE THAT A READER OF THE FORMAT WOULD NOT EXPECT (kept here because the code
   has them; each has an Example in Properties_C07.v):
   (O1) the '=' test comes BEFORE the '#' test: the line #user.x=1 is an attribute named #user.x, not a comment;
   (O2) hex: ONE trailing character behind the last complete pair is dropped, whatever it is (0xabz = ab);
   (O3) base64: '-' also means 63 and '_' also pads (libarchive's table: NOT the URL-safe alphabet, where '-'
        is 62 and '_' is 63); a tail of 1..3 characters is refused although base64_decode() itself accepts an
        unpadded tail - decode() sizes the output for whole groups only; a padded group must be the last;
   (O4) text: a backslash directly before the closing quote swallows it (QUOTE a b BACKSLASH QUOTE decodes to
        a b QUOTE - the loop reads one byte beyond its end pointer); a backslash before any other byte stays
        (BACKSLASH 8 is two bytes); BACKSLASH 400 .. BACKSLASH 777 are truncated to eight bits;
   (O5) the CR rule is invisible: CR is a space, so the strip removes it anyway (XattrPlainLines.cr_rule_absorbed);
   (O6) a NUL byte in a line hides the rest of the line, it is no error;
   (O7) the quotes are quotes only if QUOTE is the first AND the last byte and the value is longer than one byte. *)
From Coq Require Import List NArith Bool.
From SqfsV Require Import C18.CanonSpec.
Import ListNotations.
Local Open Scope N_scope.

(* ------------------------------------------------------------------ *)
(* lines                                                               *)
(* ------------------------------------------------------------------ *)
(* isspace() in the C locale *)
Definition isspace_plain (c : N) : bool := existsb (N.eqb c) [9; 10; 11; 12; 13; 32].

(* the pieces between LFs, each with: a LF ended it (the last piece: false) *)
Fixpoint split_lf (s : list N) : list (list N * bool) :=
  match s with
  | [] => [([], false)]
  | c :: r =>
    if c =? 10 then ([], true) :: split_lf r
    else match split_lf r with
         | (l, f) :: t => (c :: l, f) :: t
         | [] => [([c], false)]
         end
  end.

(* one CR at the very end is dropped *)
Definition drop_cr (l : list N) : list N :=
  match rev l with
  | c :: r => if c =? 13 then rev r else l
  | [] => l
  end.

(* the bytes in front of the first NUL *)
Fixpoint upto_nul (l : list N) : list N :=
  match l with
  | [] => []
  | c :: r => if c =? 0 then [] else c :: upto_nul r
  end.

Fixpoint lstrip (l : list N) : list N :=
  match l with
  | [] => []
  | c :: r => if isspace_plain c then lstrip r else l
  end.
Definition rstrip (l : list N) : list N := rev (lstrip (rev l)).
Definition strip (l : list N) : list N := rstrip (lstrip l).

Definition line_text (p : list N * bool) : list N :=
  strip (upto_nul (if snd p then drop_cr (fst p) else fst p)).

(* (line number, text) of the lines that are not empty *)
Fixpoint number_lines (ln : N) (ps : list (list N * bool)) : list (N * list N) :=
  match ps with
  | [] => []
  | p :: r =>
    match line_text p with
    | [] => number_lines (ln + 1) r
    | c :: t => (ln, c :: t) :: number_lines (ln + 1) r
    end
  end.

Definition lines_plain (s : list N) : list (N * list N) := number_lines 1 (split_lf s).

(* ------------------------------------------------------------------ *)
(* values                                                              *)
(* ------------------------------------------------------------------ *)
Fixpoint index_in (c : N) (l : list N) (i : N) : option N :=
  match l with
  | [] => None
  | x :: r => if x =? c then Some i else index_in c r (i + 1)
  end.

Definition dec_digits : list N := [48; 49; 50; 51; 52; 53; 54; 55; 56; 57].                      (* 0..9 *)
Definition upper : list N :=
  [65; 66; 67; 68; 69; 70; 71; 72; 73; 74; 75; 76; 77; 78; 79; 80; 81; 82; 83; 84; 85; 86; 87; 88; 89; 90].
Definition lower : list N :=
  [97; 98; 99; 100; 101; 102; 103; 104; 105; 106; 107; 108; 109; 110; 111; 112; 113; 114; 115; 116; 117;
   118; 119; 120; 121; 122].

(* value of a hex digit *)
Definition hexval (c : N) : option N :=
  match index_in c dec_digits 0 with
  | Some d => Some d
  | None =>
    match index_in c (firstn 6 lower) 10 with
    | Some d => Some d
    | None => index_in c (firstn 6 upper) 10
    end
  end.

(* pairs of hex digits; (O2) what is left when no pair is left - nothing or ONE character - is dropped *)
Fixpoint hex_pairs (l : list N) : option (list N) :=
  match l with
  | a :: b :: r =>
    match hexval a, hexval b, hex_pairs r with
    | Some x, Some y, Some t => Some ((16 * x + y) :: t)
    | _, _, _ => None
    end
  | _ => Some []
  end.

(* the base64 alphabet A-Z a-z 0-9 + /  and (O3) '-' for 63; '=' and (O3) '_' pad *)
Definition b64val (c : N) : option N :=
  if c =? 45 then Some 63 else index_in c (upper ++ lower ++ dec_digits ++ [43; 47]) 0.
Definition b64pad (c : N) : bool := (c =? 61) || (c =? 95).

Definition is_nil {A} (l : list A) : bool := match l with [] => true | _ => false end.

Fixpoint b64_groups (l : list N) : option (list N) :=
  match l with
  | [] => Some []
  | c1 :: c2 :: c3 :: c4 :: r =>
    match b64val c1, b64val c2 with
    | Some i1, Some i2 =>
      let o1 := i1 * 4 + i2 / 16 in
      if b64pad c3 then
        (if b64pad c4 && is_nil r then Some [o1] else None)         (* xx== : one byte, must end the value *)
      else
        match b64val c3 with
        | None => None
        | Some i3 =>
          let o2 := (i2 mod 16) * 16 + i3 / 4 in
          if b64pad c4 then
            (if is_nil r then Some [o1; o2] else None)             (* xxx= : two bytes, must end the value *)
          else
            match b64val c4 with
            | None => None
            | Some i4 =>
              match b64_groups r with
              | Some t => Some (o1 :: o2 :: ((i3 mod 4) * 64 + i4) :: t)
              | None => None
              end
            end
        end
    | _, _ => None
    end
  | _ => None                                                      (* (O3) 1..3 characters left: refused *)
  end.

(* what the store through the sqfs_u8 pointer keeps of c *)
Definition u8 (c : N) : N := c mod 256.
Definition isoct (c : N) : bool := (48 <=? c) && (c <=? 55).

(* the text form; [quoted]: the value was in quotes (so that a closing quote follows the body) *)
Fixpoint unescape (quoted : bool) (l : list N) : list N :=
  match l with
  | [] => []
  | c :: r =>
    if c =? 92 then
      match r with
      | [] => if quoted then [34] else [92]                       (* (O4) backslash + closing quote *)
      | c1 :: r1 =>
        if (c1 =? 92) || (c1 =? 34) then u8 c1 :: unescape quoted r1
        else if isoct c1 then
          match r1 with
          | [] => [u8 (c1 - 48)]
          | c2 :: r2 =>
            if isoct c2 then
              match r2 with
              | [] => [u8 ((c1 - 48) * 8 + (c2 - 48))]
              | c3 :: r3 =>
                if isoct c3 then u8 (((c1 - 48) * 8 + (c2 - 48)) * 8 + (c3 - 48)) :: unescape quoted r3
                else u8 ((c1 - 48) * 8 + (c2 - 48)) :: unescape quoted r2
              end
            else u8 (c1 - 48) :: unescape quoted r1
          end
        else u8 92 :: unescape quoted r                            (* (O4) the backslash stays *)
      end
    else u8 c :: unescape quoted r
  end.

(* (O7) quoted = first and last byte are QUOTE (34) and there are at least two bytes *)
Definition text_plain (v : list N) : list N :=
  match v with
  | c :: r =>
    if c =? 34 then
      match rev r with
      | q :: m => if q =? 34 then unescape true (rev m) else unescape false v
      | [] => unescape false v
      end
    else unescape false v
  | [] => []
  end.

Definition decode_plain (v : list N) : option (list N) :=
  match v with
  | [] => Some []
  | z :: x :: body =>
    if (z =? 48) && ((x =? 120) || (x =? 88)) then hex_pairs body
    else if (z =? 48) && ((x =? 115) || (x =? 83)) then b64_groups body
    else Some (text_plain v)
  | _ => Some (text_plain v)
  end.

(* ------------------------------------------------------------------ *)
(* one line, the file                                                  *)
(* ------------------------------------------------------------------ *)
Definition file_marker : list N := [35; 32; 102; 105; 108; 101; 58; 32].           (* # file:  and a space *)

Fixpoint starts_with (p l : list N) : bool :=
  match p, l with
  | [], _ => true
  | x :: p', y :: l' => (x =? y) && starts_with p' l'
  | _ :: _, [] => false
  end.

(* the bytes before and behind the FIRST '=' *)
Fixpoint split_eq (l : list N) : option (list N * list N) :=
  match l with
  | [] => None
  | c :: r =>
    if c =? 61 then Some ([], r)
    else match split_eq r with Some (k, v) => Some (c :: k, v) | None => None end
  end.

(* a pattern: canonical path, (key, value) pairs - newest first, as the C lists are *)
Definition ppat : Type := (list N * list (list N * list N))%type.

Definition pe_nofile : N := 221.     (* no file specified yet *)
Definition pe_badpath : N := 222.    (* invalid absolute path *)
Definition pe_notkv : N := 223.      (* not a key-value pair *)
Definition pe_encoding : N := 109.   (* bad input encoding *)

Definition step_plain (t : list N) (pl : list ppat) : list ppat * option N :=
  if starts_with file_marker t then
    match canon_spec (skipn 8 t) with
    | None => (pl, Some pe_badpath)
    | Some r => ((r, []) :: pl, None)
    end
  else
    match split_eq t with                                   (* (O1) before the comment test *)
    | Some (k, v) =>
      match pl with
      | [] => (pl, Some pe_nofile)
      | (path, ents) :: rest =>
        match decode_plain v with
        | Some d => ((path, (k, d) :: ents) :: rest, None)
        | None => (pl, Some pe_encoding)
        end
      end
    | None =>
      match t with
      | c :: _ => if c =? 35 then (pl, None) else (pl, Some pe_notkv)
      | [] => (pl, Some pe_notkv)
      end
    end.

Inductive xplain :=
| XP_map (pl : list ppat)
| XP_refused (e ln : N).

Fixpoint file_plain (ls : list (N * list N)) (pl : list ppat) : xplain :=
  match ls with
  | [] => XP_map pl
  | (ln, t) :: r =>
    let (pl2, ret) := step_plain t pl in
    match ret with
    | Some e => XP_refused e ln
    | None => file_plain r pl2
    end
  end.

Definition xattr_file_plain (s : list N) : xplain := file_plain (lines_plain s) [].
