(* C07 (4) — decode_inverse, base64: base64_decode as decode() of filemap_xattr.c calls it (output block of
   (input_len / 4) * 3 + 1 bytes behind the line) inverts the padded encoding getfattr writes. *)
From Coq Require Import List NArith ZArith Bool Arith Lia ZifyBool ZifyNat ZifyN.
From SqfsV Require Import C07.Res C07.ResLemmas C07.NumModel C07.NumProofs C07.TextModel C07.TextProofs C07.XattrFileModel C07.XattrFileCodec.
Import ListNotations.
Local Open Scope N_scope.
Ltac Zify.zify_post_hook ::= Z.div_mod_to_equations.

(* ================================================================== *)
(* base64                                                              *)
(* ================================================================== *)
Lemma b64_digit_ok d : d < 64 -> base64_digit (b64_char d) = Some d /\ is_pad (b64_char d) = false /\ b64_char d <> 0.
Proof.
  intro H.
  pose proof (forallb_N_lt (fun d => match base64_digit (b64_char d) with Some x => x =? d | None => false end
                                     && negb (is_pad (b64_char d)) && negb (b64_char d =? 0)) 64 eq_refl d H) as P.
  cbv beta in P. apply andb_true_iff in P. destruct P as [P P3]. apply andb_true_iff in P. destruct P as [P1 P2].
  split.
  - destruct (base64_digit (b64_char d)) as [x|]; [|discriminate]. apply N.eqb_eq in P1. subst. reflexivity.
  - split; [apply negb_true_iff; exact P2|]. apply N.eqb_neq. apply negb_true_iff. exact P3.
Qed.

Lemma list_ind3 {A} (P : list A -> Prop) : P [] -> (forall a, P [a]) -> (forall a b, P [a; b]) ->
  (forall a b c r, P r -> P (a :: b :: c :: r)) -> forall l, P l.
Proof.
  intros H0 H1 H2 H3. fix IH 1. intros [|a [|b [|c r]]]; [exact H0|apply H1|apply H2|apply H3; apply IH].
Qed.

Lemma b64_body_length v : N.of_nat (length (b64_body v)) = 4 * ((N.of_nat (length v) + 2) / 3).
Proof.
  induction v as [| | |a b c r IH] using list_ind3; try reflexivity.
  cbn [b64_body]. simpl length. rewrite !Nat2N.inj_succ. rewrite IH. lia.
Qed.

Lemma b64_body_nz v : Forall byte v -> Forall nz (b64_body v).
Proof.
  induction v as [|a|a b|a b c r IH] using list_ind3; intro H; cbn [b64_body].
  - constructor.
  - inversion H as [|x y Ha _]; subst. unfold byte in Ha.
    repeat constructor; try discriminate; apply b64_digit_ok; lia.
  - inversion H as [|x y Ha H']; subst. inversion H' as [|x y Hb _]; subst. unfold byte in *.
    repeat constructor; try discriminate; apply b64_digit_ok; lia.
  - inversion H as [|x y Ha H']; subst. inversion H' as [|x y Hb H'']; subst. inversion H'' as [|x y Hc Hr]; subst.
    unfold byte in *. repeat (constructor; [apply b64_digit_ok; lia|]). apply IH. exact Hr.
Qed.

Lemma lset_mid {A} (l1 : list A) x l2 y : lset (l1 ++ x :: l2) (length l1) y = Ok (l1 ++ y :: l2).
Proof. induction l1 as [|z l1 IH]; [reflexivity|]. simpl. rewrite IH. reflexivity. Qed.

Lemma bset_mid (l1 : list N) x l2 y i : i = N.of_nat (length l1) -> bset (l1 ++ x :: l2) i y = Ok (l1 ++ y :: l2).
Proof. intro E. subst. unfold bset. rewrite Nat2N.id. apply lset_mid. Qed.

Lemma bget4 (x1 x2 x3 x4 : N) tl :
  bget (x1 :: x2 :: x3 :: x4 :: tl) 0 = Ok x1 /\ bget (x1 :: x2 :: x3 :: x4 :: tl) 1 = Ok x2 /\
  bget (x1 :: x2 :: x3 :: x4 :: tl) 2 = Ok x3 /\ bget (x1 :: x2 :: x3 :: x4 :: tl) 3 = Ok x4.
Proof. repeat split; reflexivity. Qed.

Lemma skipn_app_l {A} (l r : list A) : skipn (length l) (l ++ r) = r.
Proof. induction l; [reflexivity|exact IHl]. Qed.
Lemma firstn_app_l {A} (l r : list A) : firstn (length l) (l ++ r) = l.
Proof. induction l; [reflexivity|simpl; f_equal; exact IHl]. Qed.

(* the bit shuffling of one group, away from the list reasoning *)
Lemma b64_tail1_arith a : a < 256 ->
  a / 4 < 64 /\ a mod 4 * 16 < 64 /\ (a / 4 * 4 + a mod 4 * 16 / 16) mod 256 = a.
Proof. intro. lia. Qed.

Lemma b64_tail2_arith a b : a < 256 -> b < 256 ->
  a / 4 < 64 /\ a mod 4 * 16 + b / 16 < 64 /\ b mod 16 * 4 < 64 /\
  (a / 4 * 4 + (a mod 4 * 16 + b / 16) / 16) mod 256 = a /\
  ((a mod 4 * 16 + b / 16) mod 16 * 16 + b mod 16 * 4 / 4) mod 256 = b.
Proof. intros. lia. Qed.

Lemma sh16 r q : r < 4 -> q < 16 -> (r * 16 + q) mod 16 = q /\ (r * 16 + q) / 16 = r /\ r * 16 + q < 64.
Proof. intros. lia. Qed.
Lemma sh4 s t : s < 16 -> t < 4 -> (s * 4 + t) / 4 = s /\ (s * 4 + t) mod 4 = t /\ s * 4 + t < 64.
Proof. intros. lia. Qed.
Lemma cut4 a : a < 256 -> a / 4 < 64 /\ a mod 4 < 4 /\ a / 4 * 4 + a mod 4 = a.
Proof. intros. lia. Qed.
Lemma cut16 b : b < 256 -> b / 16 < 16 /\ b mod 16 < 16 /\ b / 16 * 16 + b mod 16 = b.
Proof. intros. lia. Qed.
Lemma cut64 c : c < 256 -> c / 64 < 4 /\ c mod 64 < 64 /\ c / 64 * 64 + c mod 64 = c.
Proof. intros. lia. Qed.

Lemma b64_group_arith a b c : a < 256 -> b < 256 -> c < 256 ->
  a / 4 < 64 /\ a mod 4 * 16 + b / 16 < 64 /\ b mod 16 * 4 + c / 64 < 64 /\ c mod 64 < 64 /\
  (a / 4 * 4 + (a mod 4 * 16 + b / 16) / 16) mod 256 = a /\
  ((a mod 4 * 16 + b / 16) mod 16 * 16 + (b mod 16 * 4 + c / 64) / 4) mod 256 = b /\
  ((b mod 16 * 4 + c / 64) mod 4 * 64 + c mod 64) mod 256 = c.
Proof.
  intros Ha Hb Hc.
  destruct (cut4 a Ha) as (A1 & A2 & A3). destruct (cut16 b Hb) as (B1 & B2 & B3). destruct (cut64 c Hc) as (C1 & C2 & C3).
  destruct (sh16 _ _ A2 B1) as (S1 & S2 & S3). destruct (sh4 _ _ B2 C1) as (T1 & T2 & T3).
  rewrite S1, S2, T1, T2, A3, B3, C3. rewrite (N.mod_small a 256 Ha), (N.mod_small b 256 Hb), (N.mod_small c 256 Hc). repeat split; assumption.
Qed.

(* the main loop on a complete encoding: the memory is the input block I followed by the output block
   acc ++ rest; the decoded bytes land behind acc *)
Lemma b64_go_body : forall v fuel pre post acc rest cap,
  Forall byte v -> N.of_nat (length (b64_body v)) < 4 * N.of_nat fuel ->
  (length v <= length rest)%nat -> N.of_nat (length acc) + N.of_nat (length v) <= cap ->
  exists ip', b64_go fuel ((pre ++ b64_body v ++ post) ++ acc ++ rest) (N.of_nat (length pre))
                     (N.of_nat (length (b64_body v))) (N.of_nat (length (pre ++ b64_body v ++ post))) cap
                     (N.of_nat (length acc))
    = Ok ((pre ++ b64_body v ++ post) ++ (acc ++ v) ++ skipn (length v) rest, Some (N.of_nat (length (acc ++ v))), ip', 0).
Proof.
  induction v as [|a|a b|a b c r IH] using list_ind3; intros fuel pre post acc rest cap Hv Hf Hr Hc;
    (destruct fuel as [|f]; [simpl in Hf; lia|]); cbn [b64_go].
  - (* nothing left *)
    cbn [b64_body length]. change (4 <=? N.of_nat 0) with false. cbv iota.
    rewrite app_nil_r. eexists. reflexivity.
  - (* one byte: two digits and two pads *)
    inversion Hv as [|x y Ha _]; subst. unfold byte in Ha. cbn [b64_body].
    set (I := pre ++ [b64_char (a / 4); b64_char (a mod 4 * 16); 61; 61] ++ post).
    destruct rest as [|z rest']; [simpl in Hr; lia|].
    change (4 <=? N.of_nat (length [b64_char (a / 4); b64_char (a mod 4 * 16); 61; 61])) with true. cbv iota.
    assert (R : forall k, bget (I ++ acc ++ z :: rest') (N.of_nat (length pre) + k)
                          = bget (b64_char (a / 4) :: b64_char (a mod 4 * 16) :: 61 :: 61 :: post ++ acc ++ z :: rest') k).
    { intro k. unfold I. rewrite <- !app_assoc. apply bget_app_off. }
    pose proof (R 0) as R0. rewrite N.add_0_r in R0. rewrite R0, !R.
    destruct (bget4 (b64_char (a / 4)) (b64_char (a mod 4 * 16)) 61 61 (post ++ acc ++ z :: rest')) as [G0 [G1 [G2 G3]]].
    rewrite G0, G1, G2, G3. cbn [bind].
    destruct (b64_tail1_arith a Ha) as (L1 & L2 & Y1).
    destruct (b64_digit_ok _ L1) as [D1 _]. destruct (b64_digit_ok _ L2) as [D2 _]. clear L1 L2.
    rewrite D1, D2.
    replace (cap <=? N.of_nat (length acc)) with false by (symmetry; apply N.leb_gt; simpl length in Hc; lia).
    replace (I ++ acc ++ z :: rest') with ((I ++ acc) ++ z :: rest') by (rewrite <- app_assoc; reflexivity).
    rewrite bset_mid; [|rewrite app_length; lia]. cbn [bind].
    change (is_pad 61) with true. cbv iota. cbn [negb orb].
    change (0 <? N.of_nat (length [b64_char (a / 4); b64_char (a mod 4 * 16); 61; 61]) - 4) with false. cbv iota.
    rewrite Y1. clear Y1.
    eexists.
    replace (N.of_nat (length (acc ++ [a]))) with (N.of_nat (length acc) + 1) by (rewrite app_length; simpl length; lia).
    cbn [skipn length]. rewrite <- !app_assoc. reflexivity.
  - (* two bytes: three digits and one pad *)
    inversion Hv as [|x y Ha H']; subst. inversion H' as [|x y Hb _]; subst. unfold byte in *. cbn [b64_body].
    set (x1 := b64_char (a / 4)). set (x2 := b64_char (a mod 4 * 16 + b / 16)). set (x3 := b64_char (b mod 16 * 4)).
    set (I := pre ++ [x1; x2; x3; 61] ++ post).
    destruct rest as [|z1 [|z2 rest']]; [simpl in Hr; lia|simpl in Hr; lia|].
    change (4 <=? N.of_nat (length [x1; x2; x3; 61])) with true. cbv iota.
    assert (R : forall k, bget (I ++ acc ++ z1 :: z2 :: rest') (N.of_nat (length pre) + k)
                          = bget (x1 :: x2 :: x3 :: 61 :: post ++ acc ++ z1 :: z2 :: rest') k).
    { intro k. unfold I. rewrite <- !app_assoc. apply bget_app_off. }
    pose proof (R 0) as R0. rewrite N.add_0_r in R0. rewrite R0, !R.
    destruct (bget4 x1 x2 x3 61 (post ++ acc ++ z1 :: z2 :: rest')) as [G0 [G1 [G2 G3]]].
    rewrite G0, G1, G2, G3. cbn [bind].
    destruct (b64_tail2_arith a b Ha Hb) as (L1 & L2 & L3 & Y1 & Y2).
    destruct (b64_digit_ok _ L1) as [D1 _]. destruct (b64_digit_ok _ L2) as [D2 _]. destruct (b64_digit_ok _ L3) as [D3 [P3 _]].
    clear L1 L2 L3.
    fold x1 in D1. fold x2 in D2. fold x3 in D3, P3. rewrite D1, D2.
    clearbody x1 x2 x3.
    replace (cap <=? N.of_nat (length acc)) with false by (symmetry; apply N.leb_gt; simpl length in Hc; lia).
    replace (I ++ acc ++ z1 :: z2 :: rest') with ((I ++ acc) ++ z1 :: z2 :: rest') by (rewrite <- app_assoc; reflexivity).
    rewrite bset_mid; [|rewrite app_length; lia]. cbn [bind].
    rewrite P3, D3.
    replace (cap <=? N.of_nat (length acc) + 1) with false by (symmetry; apply N.leb_gt; simpl length in Hc; lia).
    set (y1 := (a / 4 * 4 + (a mod 4 * 16 + b / 16) / 16) mod 256).
    replace ((I ++ acc) ++ y1 :: z2 :: rest') with ((I ++ acc ++ [y1]) ++ z2 :: rest') by (rewrite <- !app_assoc; reflexivity).
    rewrite bset_mid; [|rewrite !app_length; simpl length; lia]. cbn [bind].
    change (is_pad 61) with true. cbv iota.
    change (0 <? N.of_nat (length [x1; x2; x3; 61]) - 4) with false. cbv iota.
    unfold y1. rewrite Y1, Y2. clear Y1 Y2.
    eexists.
    replace (N.of_nat (length (acc ++ [a; b]))) with (N.of_nat (length acc) + 1 + 1) by (rewrite app_length; simpl length; lia).
    cbn [skipn length]. rewrite <- !app_assoc. reflexivity.
  - (* a full group, then the rest *)
    inversion Hv as [|x y Ha H']; subst. inversion H' as [|x y Hb H'']; subst. inversion H'' as [|x y Hcc Hrr]; subst.
    unfold byte in *. cbn [b64_body].
    set (x1 := b64_char (a / 4)). set (x2 := b64_char (a mod 4 * 16 + b / 16)).
    set (x3 := b64_char (b mod 16 * 4 + c / 64)). set (x4 := b64_char (c mod 64)).
    set (body := b64_body r) in *.
    set (I := pre ++ (x1 :: x2 :: x3 :: x4 :: body) ++ post).
    destruct rest as [|z1 [|z2 [|z3 rest']]]; [simpl in Hr; lia|simpl in Hr; lia|simpl in Hr; lia|].
    replace (4 <=? N.of_nat (length (x1 :: x2 :: x3 :: x4 :: body))) with true by (symmetry; apply N.leb_le; simpl length; lia).
    assert (R : forall k, bget (I ++ acc ++ z1 :: z2 :: z3 :: rest') (N.of_nat (length pre) + k)
                          = bget (x1 :: x2 :: x3 :: x4 :: body ++ post ++ acc ++ z1 :: z2 :: z3 :: rest') k).
    { intro k. unfold I. rewrite <- !app_assoc. apply bget_app_off. }
    pose proof (R 0) as R0. rewrite N.add_0_r in R0. rewrite R0, !R.
    destruct (bget4 x1 x2 x3 x4 (body ++ post ++ acc ++ z1 :: z2 :: z3 :: rest')) as [G0 [G1 [G2 G3]]].
    rewrite G0, G1, G2, G3. cbn [bind].
    destruct (b64_group_arith a b c Ha Hb Hcc) as (L1 & L2 & L3 & L4 & Y1 & Y2 & Y3).
    destruct (b64_digit_ok _ L1) as [D1 _]. destruct (b64_digit_ok _ L2) as [D2 _].
    destruct (b64_digit_ok _ L3) as [D3 [P3 _]]. destruct (b64_digit_ok _ L4) as [D4 [P4 _]].
    clear L1 L2 L3 L4.
    fold x1 in D1. fold x2 in D2. fold x3 in D3, P3. fold x4 in D4, P4. rewrite D1, D2.
    clearbody x1 x2 x3 x4.
    replace (cap <=? N.of_nat (length acc)) with false by (symmetry; apply N.leb_gt; simpl length in Hc; lia).
    replace (I ++ acc ++ z1 :: z2 :: z3 :: rest') with ((I ++ acc) ++ z1 :: z2 :: z3 :: rest') by (rewrite <- app_assoc; reflexivity).
    rewrite bset_mid; [|rewrite app_length; lia]. cbn [bind].
    rewrite P3, D3.
    replace (cap <=? N.of_nat (length acc) + 1) with false by (symmetry; apply N.leb_gt; simpl length in Hc; lia).
    set (y1 := (a / 4 * 4 + (a mod 4 * 16 + b / 16) / 16) mod 256).
    replace ((I ++ acc) ++ y1 :: z2 :: z3 :: rest') with ((I ++ acc ++ [y1]) ++ z2 :: z3 :: rest') by (rewrite <- !app_assoc; reflexivity).
    rewrite bset_mid; [|rewrite !app_length; simpl length; lia]. cbn [bind].
    rewrite P4, D4.
    replace (cap <=? N.of_nat (length acc) + 1 + 1) with false by (symmetry; apply N.leb_gt; simpl length in Hc; lia).
    set (y2 := ((a mod 4 * 16 + b / 16) mod 16 * 16 + (b mod 16 * 4 + c / 64) / 4) mod 256).
    replace ((I ++ acc ++ [y1]) ++ y2 :: z3 :: rest') with ((I ++ acc ++ [y1; y2]) ++ z3 :: rest')
      by (rewrite <- !app_assoc; reflexivity).
    rewrite bset_mid; [|rewrite !app_length; simpl length; lia]. cbn [bind].
    set (y3 := ((b mod 16 * 4 + c / 64) mod 4 * 64 + c mod 64) mod 256).
    unfold y1, y2, y3. rewrite Y1, Y2, Y3. clear Y1 Y2 Y3 y1 y2 y3.
    (* the state of the induction hypothesis *)
    replace ((I ++ acc ++ [a; b]) ++ c :: rest') with ((((pre ++ [x1; x2; x3; x4]) ++ body ++ post)) ++ (acc ++ [a; b; c]) ++ rest')
      by (unfold I; rewrite <- !app_assoc; reflexivity).
    replace (N.of_nat (length pre) + 4) with (N.of_nat (length (pre ++ [x1; x2; x3; x4]))) by (rewrite app_length; simpl length; lia).
    replace (N.of_nat (length (x1 :: x2 :: x3 :: x4 :: body)) - 4) with (N.of_nat (length body)) by (simpl length; lia).
    replace (N.of_nat (length I)) with (N.of_nat (length ((pre ++ [x1; x2; x3; x4]) ++ body ++ post)))
      by (unfold I; rewrite !app_length; simpl length; lia).
    replace (N.of_nat (length acc) + 1 + 1 + 1) with (N.of_nat (length (acc ++ [a; b; c]))) by (rewrite app_length; simpl length; lia).
    destruct (IH f (pre ++ [x1; x2; x3; x4]) post (acc ++ [a; b; c]) rest' cap Hrr) as [ip' E].
    { simpl length in Hf. fold body in Hf. lia. }
    { simpl in Hr. lia. }
    { rewrite app_length. simpl length in *. lia. }
    fold body in E. rewrite E. exists ip'.
    replace (acc ++ a :: b :: c :: r) with ((acc ++ [a; b; c]) ++ r) by (rewrite <- app_assoc; reflexivity).
    cbn [skipn length]. unfold I. rewrite <- !app_assoc. reflexivity.
Qed.

Lemma decode_b64_l v : Forall byte v -> xattr_decode (b64_enc v ++ [0]) = Ok v.
Proof.
  intro Hv. unfold xattr_decode, b64_enc.
  rewrite strlen_app_nul; [|constructor; [discriminate|constructor; [discriminate|apply b64_body_nz; exact Hv]]].
  cbn [bind]. set (body := b64_body v).
  set (size := N.of_nat (length ([48; 115] ++ body))).
  assert (Hsize : size = N.of_nat (length body) + 2) by (unfold size; rewrite app_length; simpl length; lia).
  replace (size =? 0) with false by (symmetry; apply N.eqb_neq; lia).
  cbn [app]. change (bget (48 :: 115 :: body ++ [0]) 0) with (Ok (A:=N) 48).
  change (bget (48 :: 115 :: body ++ [0]) 1) with (Ok (A:=N) 115). cbn [bind].
  change ((48 =? 48) && ((115 =? 120) || (115 =? 88))) with false.
  change ((48 =? 48) && ((115 =? 115) || (115 =? 83))) with true. cbv iota.
  replace (size - 2) with (N.of_nat (length body)) by lia.
  pose proof (b64_body_length v) as Hbl. fold body in Hbl.
  set (cap := N.of_nat (length body) / 4 * 3).
  assert (Hcap : N.of_nat (length v) <= cap) by (unfold cap; lia).
  unfold base64_decode.
  replace (48 :: 115 :: body ++ [0]) with ([48; 115] ++ body ++ [0]) by reflexivity.
  change 2 with (N.of_nat (length [48; 115])) at 1.
  destruct (b64_go_body v (S (N.to_nat (N.of_nat (length body) / 4))) [48; 115] [0] [] (repeat 0 (N.to_nat (cap + 1))) cap Hv)
    as [ip' E]; [fold body; lia|rewrite repeat_length; lia|simpl length; lia|].
  fold body in E. cbn [app length] in E. change (N.of_nat 0) with 0 in E. cbn [app length]. rewrite E. cbn [bind].
  change (0 <? 0) with false. cbv beta iota. cbn [bind]. cbv beta iota.
  unfold bslice_m.
  change (48 :: 115 :: (body ++ [0]) ++ v ++ skipn (length v) (repeat 0 (N.to_nat (cap + 1))))
    with ((48 :: 115 :: body ++ [0]) ++ v ++ skipn (length v) (repeat 0 (N.to_nat (cap + 1)))).
  change (S (S (length (body ++ [0])))) with (length (48 :: 115 :: body ++ [0])).
  set (m := 48 :: 115 :: body ++ [0]). set (rest := skipn (length v) (repeat 0 (N.to_nat (cap + 1)))).
  replace (N.of_nat (length m) + N.of_nat (length v) <=? N.of_nat (length (m ++ v ++ rest))) with true
    by (symmetry; apply N.leb_le; rewrite !app_length; lia).
  rewrite !Nat2N.id, skipn_app_l, firstn_app_l. reflexivity.
Qed.
