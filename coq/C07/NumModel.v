(* C07 (2)/(3) — number and small decoders, with bounds accounting:
     lib/tar/src/number.c        read_number / read_octal / read_binary
     lib/util/src/parse_int.c    parse / parse_uint / parse_uint_oct / parse_int
     strtol(3) as used by pax_header.c (base 10)
     lib/util/src/hex_decode.c   hex_decode
     lib/util/src/base64_decode.c base64_decode (on one memory, so that in == out is expressible)
     pax_header.c                urldecode
   A C pointer into a buffer is either a suffix list (forward scans that never write) or an index
   into a [list N] memory (code that writes).  Falling off a suffix / indexing outside the memory
   is [Crash]. *)
From Coq Require Import List NArith ZArith Bool.
From SqfsV Require Import C07.Res.
Import ListNotations.
Local Open Scope N_scope.

Definition two64 : N := 18446744073709551616.
Definition u64max : N := 18446744073709551615.

(* error tags (informational; the tie compares accept / reject) *)
Definition e_num : N := 104.        (* numeric overflow parsing tar header *)
Definition e_corrupt : N := 105.    (* SQFS_ERROR_CORRUPTED of parse() *)
Definition e_overflow : N := 107.   (* SQFS_ERROR_OVERFLOW *)
Definition e_range : N := 108.      (* SQFS_ERROR_OUT_OF_BOUNDS *)
Definition e_encoding : N := 109.   (* base64 / hex decoding failed *)

(* ------------------------------------------------------------------ *)
(* number.c : the field is exactly the [digits] bytes of the header    *)
(* ------------------------------------------------------------------ *)
Fixpoint skip_sp (s : list N) : list N :=
  match s with
  | c :: r => if c_isspace c then skip_sp r else s
  | [] => []
  end.

Fixpoint octal_go (s : list N) (acc : N) : res N :=
  match s with
  | c :: r =>
    if (48 <=? c) && (c <=? 55) then
      if 2305843009213693951 <? acc then Err e_num     (* result > 0x1FFFFFFFFFFFFFFF *)
      else octal_go r (acc * 8 + (c - 48))
    else Ok acc
  | [] => Ok acc
  end.

Definition read_octal (f : list N) : res N := octal_go (skip_sp f) 0.

Fixpoint binary_go (s : list N) (acc : N) : res N :=
  match s with
  | x :: r =>
    let ov := (acc / 72057594037927936) mod 256 in       (* (result >> 56) & 0xFF *)
    if (ov =? 0) || (ov =? 255) then binary_go r ((acc * 256 + x) mod two64)
    else Err e_num
  | [] => Ok acc
  end.

Definition read_binary (f : list N) : res N :=
  match f with
  | [] => Ok 0
  | x :: r =>
    if x =? 255 then binary_go f u64max
    else
      let x' := x mod 128 in
      if (7 <? N.of_nat (length r)) && negb (x' =? 0) then Err e_num
      else binary_go (x' :: r) 0
  end.

(* read_number(str, digits, out): reads *str before looking at digits *)
Definition read_number (f : list N) : res N :=
  match f with
  | [] => Crash
  | c :: _ => if 128 <=? c then read_binary f else read_octal f
  end.

(* ------------------------------------------------------------------ *)
(* parse_int.c                                                         *)
(*   s     the bytes from [in] to the end of the allocation            *)
(*   len   the len argument (SIZE_MAX for "-1")                        *)
(*   whole diff == NULL: the entire string must be consumed            *)
(* result: (value, diff)                                               *)
(* ------------------------------------------------------------------ *)
Definition size_max : N := u64max.

Fixpoint parse_go (s : list N) (len : N) (base acc diff : N) : res (N * N * list N * N) :=
  (* returns value, diff, rest suffix, remaining len; Crash if a byte is read past the suffix *)
  if len =? 0 then Ok (acc, diff, s, len) else
  match s with
  | [] => Crash
  | c :: r =>
    if c_isdigit c then
      let x := c - 48 in
      if base <=? x then Ok (acc, diff, s, len) else
      if u64max / base <=? acc then Err e_overflow else
      let a1 := acc * base in
      if u64max - x <? a1 then Err e_overflow else
      parse_go r (len - 1) base (a1 + x) (diff + 1)
    else Ok (acc, diff, s, len)
  end.

Definition parse (s : list N) (len : N) (whole : bool) (base vmin vmax : N) : res (N * N) :=
  if len =? 0 then Err e_corrupt else
  match s with
  | [] => Crash
  | c :: _ =>
    if negb (c_isdigit c) then Err e_corrupt else
    do r <- parse_go s len base 0 0;
    let '(v, d, rest, len') := r in
    if (vmin <? vmax) && ((v <? vmin) || (vmax <? v)) then Err e_range else
    if whole && negb (len' =? 0) then
      match rest with
      | [] => Crash
      | c' :: _ => if c' =? 0 then Ok (v, d) else Err e_corrupt
      end
    else Ok (v, d)
  end.

Definition parse_uint s len whole vmin vmax := parse s len whole 10 vmin vmax.
Definition parse_uint_oct s len whole vmin vmax := parse s len whole 8 vmin vmax.

(* parse_int(in, len, diff, 0, 0, out) (the only range the tools use with a diff is 0,0) *)
Definition parse_int (s : list N) (len : N) (whole : bool) : res (Z * N) :=
  let neg := if len =? 0 then Ok false else
             match s with [] => Crash | c :: _ => Ok (c =? 45) end in
  do ng <- neg;
  let s1 := if ng then tl s else s in
  let len1 := if ng then len - 1 else len in
  do r <- parse_uint s1 len1 whole 0 0;
  let (v, d) := r in
  if 9223372036854775807 <=? v then Err e_overflow else
  if ng then Ok (Z.opp (Z.of_N v), d + 1) else Ok (Z.of_N v, d).

(* ------------------------------------------------------------------ *)
(* strtol(line, &ptr, 10) on the suffix at [line]                      *)
(* result: (value, ptr - line); no digits: (0, 0)                      *)
(* ------------------------------------------------------------------ *)
(* number of leading bytes satisfying p; a byte past the suffix is a Crash *)
Fixpoint span_count (p : N -> bool) (s : list N) : res N :=
  match s with
  | [] => Crash
  | c :: r => if p c then do n <- span_count p r; Ok (n + 1) else Ok 0
  end.

Definition long_max : N := 9223372036854775807.

(* saturating decimal accumulation: once beyond LONG_MAX the exact value does not matter *)
Fixpoint dec_sat (s : list N) (n : nat) (acc : N) : N :=
  match n, s with
  | S n', c :: r => dec_sat r n' (if long_max <? acc then acc else acc * 10 + (c - 48))
  | _, _ => acc
  end.

Definition strtol10 (s : list N) : res (Z * N) :=
  do nsp <- span_count c_isspace s;
  let s1 := skipn (N.to_nat nsp) s in
  match s1 with
  | [] => Crash
  | c :: r =>
    let sign := (c =? 45) || (c =? 43) in
    let s2 := if sign then r else s1 in
    do nd <- span_count c_isdigit s2;
    if nd =? 0 then Ok (0%Z, 0) else
    let v := dec_sat s2 (N.to_nat nd) 0 in
    let consumed := nsp + (if sign then 1 else 0) + nd in
    if c =? 45 then
      Ok ((if long_max + 1 <? v then Z.opp (Z.of_N (long_max + 1)) else Z.opp (Z.of_N v)), consumed)
    else
      Ok ((if long_max <? v then Z.of_N long_max else Z.of_N v), consumed)
  end.

(* ------------------------------------------------------------------ *)
(* hex_decode.c                                                        *)
(* ------------------------------------------------------------------ *)
Definition xdigit (c : N) : N :=
  if c_isupper c then c - 65 + 10 else if c_islower c then c - 97 + 10 else c - 48.

(* hex_decode(in, in_sz, out, out_sz) with [s] the suffix at in; returns the bytes stored in out
   (in order) and the verdict; reads in[0], in[1] only while in_sz >= 2 and out_sz > 0 *)
Fixpoint hex_go (fuel : nat) (s : list N) (in_sz out_sz : N) (acc : list N) : res (list N * bool) :=
  match fuel with
  | O => OutOfFuel
  | S f =>
    if (0 <? out_sz) && (2 <=? in_sz) then
      match s with
      | a :: s1 =>
        if c_isxdigit a then
          match s1 with
          | b :: s2 =>
            if c_isxdigit b then
              hex_go f s2 (in_sz - 2) (out_sz - 1) (acc ++ [(xdigit a * 16 + xdigit b) mod 256])
            else Ok (acc, in_sz =? 0)
          | [] => Crash
          end
        else Ok (acc, in_sz =? 0)
      | [] => Crash
      end
    else Ok (acc, in_sz =? 0)
  end.

Definition hex_decode (s : list N) (in_sz out_sz : N) : res (list N * bool) :=
  hex_go (S (N.to_nat (in_sz / 2))) s in_sz out_sz [].

(* ------------------------------------------------------------------ *)
(* base64_decode.c on a memory [m]: in = m + ip, out = m + op          *)
(* (ip = op for the in-place use of pax_xattr_libarchive)              *)
(* result: Ok (m', Some count) success, Ok (m', None) "return -1"      *)
(* ------------------------------------------------------------------ *)
Definition base64_digit (c : N) : option N :=
  if c_isupper c then Some (c - 65)
  else if c_islower c then Some (c - 97 + 26)
  else if c_isdigit c then Some (c - 48 + 52)
  else if c =? 43 then Some 62
  else if (c =? 47) || (c =? 45) then Some 63
  else None.

Definition is_pad (c : N) : bool := (c =? 61) || (c =? 95).   (* '=' or '_' *)

Fixpoint b64_go (fuel : nat) (m : list N) (ip in_len op cap count : N) : res (list N * option N * N * N) :=
  (* returns memory, Some count / None (fail), ip, in_len after the main loop *)
  match fuel with
  | O => OutOfFuel
  | S f =>
    if 4 <=? in_len then
      do c1 <- bget m ip; do c2 <- bget m (ip + 1); do c3 <- bget m (ip + 2); do c4 <- bget m (ip + 3);
      let in_len' := in_len - 4 in
      match base64_digit c1, base64_digit c2 with
      | Some i1, Some i2 =>
        if cap <=? count then Ok (m, None, ip + 4, in_len') else
        do m1 <- bset m (op + count) ((i1 * 4 + i2 / 16) mod 256);
        let count1 := count + 1 in
        if is_pad c3 then
          if negb (is_pad c4) || (0 <? in_len') then Ok (m1, None, ip + 4, in_len')
          else Ok (m1, Some count1, ip + 4, in_len')
        else
          match base64_digit c3 with
          | None => Ok (m1, None, ip + 4, in_len')
          | Some i3 =>
            if cap <=? count1 then Ok (m1, None, ip + 4, in_len') else
            do m2 <- bset m1 (op + count1) (((i2 mod 16) * 16 + i3 / 4) mod 256);
            let count2 := count1 + 1 in
            if is_pad c4 then
              if 0 <? in_len' then Ok (m2, None, ip + 4, in_len')
              else Ok (m2, Some count2, ip + 4, in_len')
            else
              match base64_digit c4 with
              | None => Ok (m2, None, ip + 4, in_len')
              | Some i4 =>
                if cap <=? count2 then Ok (m2, None, ip + 4, in_len') else
                do m3 <- bset m2 (op + count2) (((i3 mod 4) * 64 + i4) mod 256);
                b64_go f m3 (ip + 4) in_len' op cap (count2 + 1)
              end
          end
      | _, _ => Ok (m, None, ip + 4, in_len')
      end
    else Ok (m, Some count, ip, in_len)
  end.

Definition base64_decode (m : list N) (ip in_len op cap : N) : res (list N * option N) :=
  do r <- b64_go (S (N.to_nat (in_len / 4))) m ip in_len op cap 0;
  let '(m1, oc, ip1, len1) := r in
  match oc with
  | None => Ok (m1, None)
  | Some count =>
    (* "libarchive has this bizarre bastardization of truncated base64" *)
    if 0 <? len1 then
      if len1 =? 1 then Ok (m1, None) else
      do c1 <- bget m1 ip1; do c2 <- bget m1 (ip1 + 1);
      match base64_digit c1, base64_digit c2 with
      | Some i1, Some i2 =>
        if cap <=? count then Ok (m1, None) else
        do m2 <- bset m1 (op + count) ((i1 * 4 + i2 / 16) mod 256);
        if 0 <? len1 - 2 then
          do c3 <- bget m2 (ip1 + 2);
          if is_pad c3 then Ok (m2, Some (count + 1)) else
          match base64_digit c3 with
          | None => Ok (m2, None)
          | Some i3 =>
            if cap <=? count + 1 then Ok (m2, None) else
            do m3 <- bset m2 (op + count + 1) (((i2 mod 16) * 16 + i3 / 4) mod 256);
            Ok (m3, Some (count + 2))
          end
        else Ok (m2, Some (count + 1))
      | _, _ => Ok (m1, None)
      end
    else Ok (m1, Some count)
  end.

(* ------------------------------------------------------------------ *)
(* urldecode(str) of pax_header.c, in place, str = m + base            *)
(* ------------------------------------------------------------------ *)
Fixpoint url_go (fuel : nat) (m : list N) (ip op : N) : res (list N) :=
  match fuel with
  | O => OutOfFuel
  | S f =>
    do x <- bget m ip;
    if x =? 0 then bset m op 0 else
    if x =? 37 then
      do a <- bget m (ip + 1);
      if c_isxdigit a then
        do b <- bget m (ip + 2);
        if c_isxdigit b then
          do m1 <- bset m op ((xdigit a * 16 + xdigit b) mod 256);
          url_go f m1 (ip + 3) (op + 1)
        else do m1 <- bset m op x; url_go f m1 (ip + 1) (op + 1)
      else do m1 <- bset m op x; url_go f m1 (ip + 1) (op + 1)
    else do m1 <- bset m op x; url_go f m1 (ip + 1) (op + 1)
  end.

Definition urldecode (m : list N) (base : N) : res (list N) :=
  url_go (S (length m)) m base base.
