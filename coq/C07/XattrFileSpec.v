(* C07 (4) — what the xattr map file reader computes, without resources and without stream windows.
     lines_spec       the lines istream_get_line (LTRIM | RTRIM | SKIP_EMPTY) hands out, as a function of the bytes
                      still to come: cut at the first '\n', one trailing '\r' removed (only in front of a '\n'),
                      trimmed, empty ones skipped and counted
     step_spec        what one line does to the decoded map (paths and key/value pairs in list order)
     xattr_file_spec  the fold of the two over the file
   Theorem xattr_open_spec_l: whatever windows the stream hands out (win) and whatever ids the allocator gives,
   a run of the model XattrFileModel.xattr_open_map_file that returns r has erase r = xattr_file_spec: verdict,
   error code and line number of a refusal, and the decoded map do not depend on the windows.  (That every run
   returns is XattrFileProofs.xattr_open_ok.) *)
From Coq Require Import List NArith ZArith Bool Arith Lia ZifyBool ZifyNat ZifyN.
From SqfsV Require Import C07.Res C07.ResLemmas C07.GenC07 C07.NumModel C07.NumProofs C07.TextModel C07.TextProofs.
From SqfsV Require Import C18.CanonModel C07.XattrFileModel C07.XattrFileProofs C07.XattrFileCodec C07.XattrFileB64.
Import ListNotations.
Local Open Scope N_scope.

(* ================================================================== *)
(* the specification                                                   *)
(* ================================================================== *)
(* the bytes in front of the first '\n', the bytes behind it, "there was one" *)
Fixpoint cut_nl (s : list N) : list N * list N * bool :=
  match s with
  | [] => ([], [], false)
  | c :: r => if c =? 10 then ([], r, true) else let '(l, rest, f) := cut_nl r in (c :: l, rest, f)
  end.

(* "if (line_len > 0 && line[line_len - 1] == '\r') line[--line_len] = '\0'" *)
Definition cr_cut (m : list N) (len : N) : res (list N) :=
  if 0 <? len then do c <- bget m (len - 1); if c =? 13 then do m3 <- bset m (len - 1) 0; Ok m3 else Ok m else Ok m.

(* the next line: Some block / None at the end of the file; the bytes behind it; the line counter *)
Fixpoint lines_spec (fuel : nat) (s : list N) (ln : N) : res (option (list N) * list N * N) :=
  match fuel with
  | O => OutOfFuel
  | S f =>
    match s with
    | [] => Ok (None, [], ln)
    | _ :: _ =>
      let '(l, rest, have) := cut_nl s in
      do m1 <- (if have then cr_cut (l ++ [0]) (N.of_nat (length l)) else Ok (l ++ [0]));
      do r <- trim_flags m1;
      let (m, len) := r in
      if 0 <? len then Ok (Some (resize m (N.to_nat (len + 1))), rest, ln)
      else if have then lines_spec f rest (ln + 1) else Ok (None, [], ln)
    end
  end.

(* the decoded map: per pattern the contents of its path block and its (key, value) pairs, both head first *)
Definition pl_pat : Type := (list N * list (list N * list N))%type.
Definition payload_of (m : xmap) : list pl_pat :=
  map (fun p => (match p_path p with Some b => b_data b | None => [] end, map ent_payload (p_ents p))) (m_pats m).

Definition step_spec (m : list N) (pl : list pl_pat) : res (list pl_pat * option N) :=
  do isnew <- strncmp_eq k_newfile m 0;
  if isnew then
    do nm <- cstr_at m 8;
    do name <- cstr_at (nm ++ [0]) 0;
    match canon_result name with
    | None => Ok (pl, Some e_badpath)
    | Some r => Ok ((canon_block (nm ++ [0]) r, []) :: pl, None)
    end
  else
    do s <- bfrom m 0;
    do e <- strchr_go s 61 0;
    match e with
    | Some p =>
      do m1 <- bset m p 0;
      match pl with
      | [] => Ok (pl, Some e_nofile)
      | (path, ents) :: rest =>
        do vs <- bfrom m1 (p + 1);
        match xattr_decode vs with
        | Ok v => do key <- cstr_at m1 0; Ok ((path, (key, v) :: ents) :: rest, None)
        | Err _ => Ok (pl, Some e_encoding)
        | Crash => Crash
        | OutOfFuel => OutOfFuel
        end
      end
    | None => do c0 <- bget m 0; if c0 =? 35 then Ok (pl, None) else Ok (pl, Some e_notkv)
    end.

Inductive xspec :=
| XS_map (pl : list pl_pat)
| XS_refused (e ln : N).

Fixpoint file_spec (fuel : nat) (s : list N) (pl : list pl_pat) (ln : N) : res xspec :=
  match fuel with
  | O => OutOfFuel
  | S f =>
    do r <- lines_spec (S (length s)) s ln;
    match r with
    | (None, _, _) => Ok (XS_map pl)
    | (Some m, s1, ln1) =>
      do r2 <- step_spec m pl;
      let (pl2, ret) := r2 in
      match ret with
      | Some e => Ok (XS_refused e ln1)
      | None => file_spec f s1 pl2 (ln1 + 1)
      end
    end
  end.

Definition xattr_file_spec (s : list N) : res xspec := file_spec (S (length s)) s [] 1.

Definition erase (r : xopen) : xspec :=
  match r with
  | X_map _ m => XS_map (payload_of m)
  | X_refused _ e ln => XS_refused e ln
  end.

(* ================================================================== *)
(* lists                                                               *)
(* ================================================================== *)
Definition nonl (c : N) : Prop := c <> 10.

Lemma cut_nl_length s : let '(l, rest, f) := cut_nl s in
  if f then (length l + length rest + 1 = length s)%nat else (length l = length s /\ rest = []).
Proof.
  induction s as [|c r IH]; [simpl; auto|]. simpl. destruct (c =? 10); [simpl; lia|].
  destruct (cut_nl r) as [[l rest] f]. destruct f; simpl; [lia|]. destruct IH. split; [lia|assumption].
Qed.

Lemma cut_nl_app acc s : Forall nonl acc -> cut_nl (acc ++ s) = let '(l, rest, f) := cut_nl s in (acc ++ l, rest, f).
Proof.
  induction 1 as [|c a Hc Ha IH]; [simpl; destruct (cut_nl s) as [[l r] f]; reflexivity|].
  simpl. replace (c =? 10) with false by (symmetry; apply N.eqb_neq; exact Hc). rewrite IH.
  destruct (cut_nl s) as [[l r] f]. reflexivity.
Qed.

Lemma cut_nl_nonl l : Forall nonl l -> cut_nl l = (l, [], false).
Proof.
  induction 1 as [|c a Hc Ha IH]; [reflexivity|]. simpl.
  replace (c =? 10) with false by (symmetry; apply N.eqb_neq; exact Hc). rewrite IH. reflexivity.
Qed.

(* the scan over a window that is a prefix of the stream *)
Lemma scan_cut : forall k s, let w := firstn k s in
  match scan_nl w with
  | (i, true) => cut_nl s = (firstn i s, skipn (S i) s, true) /\ firstn i w = firstn i s /\ (i < length w)%nat
  | (i, false) => i = length w /\ Forall nonl w
  end.
Proof.
  induction k as [|k IH]; intros s; [simpl; split; [reflexivity|constructor]|].
  destruct s as [|c r]; [simpl; split; [reflexivity|constructor]|].
  cbv zeta. cbn [firstn scan_nl cut_nl]. destruct (c =? 10) eqn:E.
  - cbn [firstn skipn length]. repeat split. lia.
  - specialize (IH r). cbv zeta in IH. destruct (scan_nl (firstn k r)) as [i f]. destruct f.
    + destruct IH as [H1 [H2 H3]]. rewrite H1. cbn [firstn skipn length]. repeat split; [f_equal; exact H2|lia].
    + destruct IH as [H1 H2]. split; [simpl; lia|]. constructor; [apply N.eqb_neq; exact E|exact H2].
Qed.

Lemma firstn_skipn_len {A} k (s : list A) : firstn k s ++ skipn (length (firstn k s)) s = s.
Proof.
  revert s. induction k as [|k IH]; intro s; [reflexivity|]. destruct s as [|c r]; [reflexivity|].
  simpl. f_equal. apply IH.
Qed.

(* ================================================================== *)
(* fuel of the specification                                           *)
(* ================================================================== *)
Lemma lines_spec_fuel : forall f1 f2 s ln, (length s < f1)%nat -> (length s < f2)%nat ->
  lines_spec f1 s ln = lines_spec f2 s ln.
Proof.
  induction f1 as [|f1 IH]; intros f2 s ln H1 H2; [lia|]. destruct f2 as [|f2]; [lia|].
  cbn [lines_spec]. destruct s as [|c r]; [reflexivity|].
  pose proof (cut_nl_length (c :: r)) as Hl. destruct (cut_nl (c :: r)) as [[l rest] have].
  destruct (if have then cr_cut (l ++ [0]) (N.of_nat (length l)) else Ok (l ++ [0])) as [m1| | |]; cbn [bind]; try reflexivity.
  destruct (trim_flags m1) as [[m len]| | |]; cbn [bind]; try reflexivity.
  destruct (0 <? len); [reflexivity|]. destruct have; [|reflexivity].
  apply IH; simpl length in *; lia.
Qed.

(* ================================================================== *)
(* istream_get_line                                                    *)
(* ================================================================== *)
Definition content (o : gl_out) : option (list N) :=
  match o with GL_line b => Some (b_data b) | GL_eof => None end.

Lemma repeat_snoc {A} (a : A) n : repeat a (S n) = repeat a n ++ [a].
Proof. induction n as [|n IH]; [reflexivity|]. simpl in *. rewrite <- IH. reflexivity. Qed.

(* realloc + memcpy + terminator: the block becomes acc ++ chunk ++ [0] *)
Lemma append_chunk acc chunk d : d = acc ++ repeat 0 (S (length chunk)) ->
  exists m1, bwrite d (N.of_nat (length acc)) chunk = Ok m1 /\
             bset m1 (N.of_nat (length acc) + N.of_nat (length chunk)) 0 = Ok ((acc ++ chunk) ++ [0]).
Proof.
  intro E. subst d. unfold bwrite.
  replace (N.of_nat (length acc) + N.of_nat (length chunk) <=? N.of_nat (length (acc ++ repeat 0 (S (length chunk))))) with true
    by (symmetry; apply N.leb_le; rewrite app_length, repeat_length; lia).
  eexists. split; [reflexivity|].
  rewrite Nat2N.id, firstn_app_l.
  rewrite repeat_snoc.
  replace (acc ++ repeat 0 (length chunk) ++ [0]) with ((acc ++ repeat 0 (length chunk)) ++ [0]) by (rewrite <- app_assoc; reflexivity).
  replace (length acc + length chunk)%nat with (length (acc ++ repeat 0 (length chunk))) by (rewrite app_length, repeat_length; reflexivity).
  rewrite skipn_app_l.
  replace (acc ++ chunk ++ [0]) with ((acc ++ chunk) ++ [0]) by (rewrite <- app_assoc; reflexivity).
  replace ((acc ++ chunk) ++ [0]) with ((acc ++ chunk) ++ 0 :: []) by reflexivity.
  apply bset_mid. rewrite app_length. lia.
Qed.

Definition acc_inv (line : option blk) (ll : N) (acc : list N) : Prop :=
  match line with
  | None => acc = [] /\ ll = 0
  | Some b => b_data b = acc ++ [0] /\ ll = N.of_nat (length acc) /\ acc <> []
  end.

Lemma get_line_go_spec : forall fuel win t s line ll ln acc,
  (length s < fuel)%nat -> acc_inv line ll acc -> Forall nonl acc ->
  forall t' o s' ln', get_line_go fuel win t s line ll ln = Ok (t', o, s', ln') ->
  lines_spec (S (length (acc ++ s))) (acc ++ s) ln = Ok (content o, s', ln').
Proof.
  induction fuel as [|f IH]; intros win t s line ll ln acc Hf Hinv Hacc t' o s' ln' H; [lia|].
  cbn [get_line_go] in H. destruct s as [|c0 s0].
  - (* the end of the stream *)
    rewrite app_nil_r. destruct (ll =? 0) eqn:E0.
    + apply N.eqb_eq in E0. assert (acc = []).
      { destruct line as [b|]; simpl in Hinv; [|apply Hinv]. destruct Hinv as [_ [Hl Hne]]. destruct acc; [reflexivity|simpl in Hl; lia]. }
      subst acc. destruct (free_opt t line) as [t1| | |]; cbn [bind] in H; try discriminate. inversion H; subst. reflexivity.
    + destruct line as [b|]; [|discriminate]. simpl in Hinv. destruct Hinv as [Hd [Hl Hne]].
      destruct (r_use t (b_id b)); cbn [bind] in H; try discriminate.
      rewrite Hd in H.
      destruct acc as [|a0 acc0]; [congruence|]. cbn [lines_spec]. change ((a0 :: acc0) ++ [0]) with (a0 :: acc0 ++ [0]) in *.
      rewrite (cut_nl_nonl _ Hacc). cbn [bind].
      change (a0 :: acc0 ++ [0]) with ((a0 :: acc0) ++ [0]) in *.
      destruct (trim_flags ((a0 :: acc0) ++ [0])) as [[m l]| | |]; cbn [bind] in H |- *; try discriminate.
      destruct (0 <? l).
      * unfold gl_finish, m_realloc in H. simpl b_id in H. simpl b_data in H.
        destruct (r_free t (b_id b)) as [t1| | |]; cbn [bind] in H; try discriminate.
        destruct (r_alloc t1) as [t2 aa]. cbn [bind] in H. inversion H; subst. reflexivity.
      * destruct (r_free t (b_id b)) as [t1| | |]; cbn [bind] in H; try discriminate. inversion H; subst. reflexivity.
  - (* a window *)
    set (s := c0 :: s0) in *.
    pose proof (scan_cut (Nat.max 1 (win s)) s) as Hsc. cbv zeta in Hsc. fold (window win s) in Hsc.
    set (w := window win s) in *.
    assert (Hw1 : (1 <= length w)%nat) by (unfold w, window; rewrite firstn_length; unfold s; simpl length; lia).
    destruct (scan_nl w) as [count have_line].
    (* the block after realloc, memcpy and the terminator *)
    assert (Hblk : forall chunk : list N, length chunk = count ->
      exists t1 id, m_realloc t line (ll + N.of_nat count + 1) = Ok (t1, mkBlk id (acc ++ repeat 0 (S (length chunk)))) \/
                    (forall x, m_realloc t line (ll + N.of_nat count + 1) <> Ok x)).
    { intros chunk Hc. unfold m_realloc. destruct line as [b|]; simpl in Hinv.
      - destruct Hinv as [Hd [Hl Hne]]. destruct (r_free t (b_id b)) as [t1| | |]; cbn [bind].
        + destruct (r_alloc t1) as [t2 aa]. exists t2, aa. left. f_equal. f_equal. f_equal.
          rewrite Hd. unfold resize. rewrite Hl.
          replace (N.to_nat (N.of_nat (length acc) + N.of_nat count + 1)) with (length (acc ++ [0%N]) + count)%nat by (rewrite app_length; simpl length; lia).
          rewrite firstn_all2 by lia.
          replace (length (acc ++ [0%N]) + count - length (acc ++ [0%N]))%nat with count by lia.
          rewrite <- app_assoc. rewrite Hc. reflexivity.
        + exists t, 0%nat. right. intros x Hx. discriminate.
        + exists t, 0%nat. right. intros x Hx. discriminate.
        + exists t, 0%nat. right. intros x Hx. discriminate.
      - destruct Hinv as [Ha Hl]. subst acc ll. destruct (r_alloc t) as [t2 aa]. exists t2, aa. left.
        f_equal. f_equal. f_equal. rewrite Hc. replace (N.to_nat (0 + N.of_nat count + 1)) with (S count) by lia. reflexivity. }
    assert (Hll : ll = N.of_nat (length acc)).
    { destruct line as [b|]; simpl in Hinv; [apply Hinv|]. destruct Hinv as [Ha Hl]. subst. reflexivity. }
    destruct have_line.
    + (* a complete line *)
      destruct Hsc as [Hcut [Hfw Hlt]].
      set (chunk := firstn count w) in *.
      assert (Hcl : length chunk = count) by (unfold chunk; rewrite firstn_length; lia).
      clearbody chunk.
      destruct (Hblk chunk Hcl) as [t1 [id [Er|Er]]]; [|destruct (m_realloc t line (ll + N.of_nat count + 1)) as [x| | |]; [exfalso; eapply Er; reflexivity|discriminate|discriminate|discriminate]].
      rewrite Er in H. cbn [bind b_data b_id] in H.
      destruct (append_chunk acc chunk _ eq_refl) as [m1 [Em1 Em2]].
      rewrite Hll in H. rewrite Em1 in H. cbn [bind] in H. rewrite Hcl in Em2. rewrite Em2 in H. cbn [bind] in H.
      (* the specification on acc ++ s *)
      replace (S (length (acc ++ s))) with (S (length (acc ++ s))) by reflexivity.
      cbn [lines_spec]. assert (Hne : acc ++ s <> []) by (unfold s; destruct acc; discriminate).
      destruct (acc ++ s) as [|x xs] eqn:Eas; [congruence|]. rewrite <- Eas.
      rewrite (cut_nl_app acc s Hacc), Hcut. rewrite <- Hfw.
      fold (cr_cut ((acc ++ chunk) ++ [0]) (N.of_nat (length acc) + N.of_nat count)) in H.
      replace (N.of_nat (length (acc ++ chunk))) with (N.of_nat (length acc) + N.of_nat count) by (rewrite app_length; lia).
      destruct (cr_cut ((acc ++ chunk) ++ [0]) (N.of_nat (length acc) + N.of_nat count)) as [r2| | |]; cbn [bind] in H |- *; try discriminate.
      destruct (trim_flags r2) as [[m4 l]| | |]; cbn [bind] in H |- *; try discriminate.
      destruct (0 <? l) eqn:El.
      * unfold gl_finish, m_realloc in H. simpl b_id in H. simpl b_data in H.
        destruct (r_free t1 id) as [t2| | |]; cbn [bind] in H; try discriminate.
        destruct (r_alloc t2) as [t3 aa]. cbn [bind] in H. inversion H; subst. reflexivity.
      * destruct (r_free t1 id) as [t2| | |]; cbn [bind] in H; try discriminate.
        apply N.ltb_ge in El. assert (l = 0) by lia. subst l.
        pose proof (IH win t2 (skipn (S count) s) None 0 (ln + 1) [] ltac:(rewrite skipn_length; unfold s in *; simpl length in *; lia)
                       (conj eq_refl eq_refl) ltac:(constructor) _ _ _ _ H) as Hr.
        cbn [app] in Hr. rewrite <- Hr. apply lines_spec_fuel; [|lia].
        rewrite Eas. rewrite <- Eas. rewrite app_length, skipn_length. unfold s. simpl length. lia.
    + (* no newline in the window *)
      destruct Hsc as [Hcnt Hnl]. subst count.
      destruct (Hblk w eq_refl) as [t1 [id [Er|Er]]]; [|destruct (m_realloc t line (ll + N.of_nat (length w) + 1)) as [x| | |]; [exfalso; eapply Er; reflexivity|discriminate|discriminate|discriminate]].
      rewrite Er in H. cbn [bind b_data b_id] in H.
      rewrite firstn_all in H.
      destruct (append_chunk acc w _ eq_refl) as [m1 [Em1 Em2]].
      rewrite Hll in H. rewrite Em1 in H. cbn [bind] in H. rewrite Em2 in H. cbn [bind] in H.
      assert (Hsplit : w ++ skipn (length w) s = s) by (unfold w, window; apply firstn_skipn_len).
      pose proof (IH win t1 (skipn (length w) s) (Some (mkBlk id ((acc ++ w) ++ [0]))) (N.of_nat (length acc) + N.of_nat (length w)) ln (acc ++ w)
                     ltac:(rewrite skipn_length; unfold s in *; simpl length in *; lia)) as Hr.
      replace ((acc ++ w) ++ skipn (length w) s) with (acc ++ s) in Hr by (rewrite <- app_assoc, Hsplit; reflexivity).
      refine (Hr _ _ _ _ _ _ H).
      * simpl. split; [rewrite <- app_assoc; reflexivity|]. split; [rewrite app_length; lia|].
        destruct w; [simpl in Hw1; lia|]. destruct acc; discriminate.
      * apply Forall_app. split; assumption.
Qed.

Lemma get_line_spec_l win t s ln t' o s' ln' : get_line win t s ln = Ok (t', o, s', ln') ->
  lines_spec (S (length s)) s ln = Ok (content o, s', ln').
Proof.
  intro H. unfold get_line in H.
  apply (get_line_go_spec (S (length s)) win t s None 0 ln [] ltac:(lia) (conj eq_refl eq_refl) ltac:(constructor) _ _ _ _ H).
Qed.

(* ================================================================== *)
(* one line                                                            *)
(* ================================================================== *)
Lemma step_refines t lb map t' map' ret : xattr_step false t lb map = Ok (t', map', ret) ->
  step_spec (b_data lb) (payload_of map) = Ok (payload_of map', ret).
Proof.
  unfold xattr_step, step_spec. intro H.
  destruct (r_use t (b_id lb)); cbn [bind] in H; try discriminate.
  destruct (strncmp_eq k_newfile (b_data lb) 0) as [isnew| | |]; cbn [bind] in H |- *; try discriminate.
  destruct isnew.
  - unfold parse_file_name in H.
    destruct (cstr_at (b_data lb) 8) as [nm| | |]; cbn [bind] in H |- *; try discriminate.
    destruct (r_alloc t) as [t1 fid]. destruct (r_alloc t1) as [t2 pid].
    destruct (r_use t2 (m_id map)); cbn [bind] in H; try discriminate.
    destruct (r_use t2 fid); cbn [bind] in H; try discriminate. simpl b_data in H.
    destruct (cstr_at (nm ++ [0]) 0) as [name| | |]; cbn [bind] in H |- *; try discriminate.
    destruct (canon_result name) as [r|].
    + destruct (r_use t2 pid); cbn [bind] in H; try discriminate. inversion H; subst. reflexivity.
    + destruct (r_free t2 pid) as [t3| | |]; cbn [bind] in H; try discriminate.
      destruct (r_free t3 fid) as [t4| | |]; cbn [bind] in H; try discriminate. inversion H; subst. reflexivity.
  - destruct (bfrom (b_data lb) 0) as [s| | |]; cbn [bind] in H |- *; try discriminate.
    destruct (strchr_go s 61 0) as [e| | |]; cbn [bind] in H |- *; try discriminate.
    destruct e as [p|].
    + destruct (bset (b_data lb) p 0) as [m1| | |]; cbn [bind] in H |- *; try discriminate.
      unfold parse_xattr in H.
      destruct (r_use t (m_id map)); cbn [bind] in H; try discriminate.
      destruct map as [mid pats]. unfold payload_of. simpl m_pats in *. simpl m_id in *.
      destruct pats as [|cur rest]; [inversion H; subst; reflexivity|]. cbn [map].
      destruct (bfrom m1 (p + 1)) as [vs| | |]; cbn [bind] in H |- *; try discriminate.
      unfold decode_alloc in H. destruct (r_alloc t) as [t1 va].
      destruct (xattr_decode vs) as [v|e| |]; cbn [bind] in H |- *; try discriminate.
      * destruct (cstr_at m1 0) as [key| | |]; cbn [bind] in H |- *; try discriminate. simpl b_id in H. simpl b_data in H.
        destruct (r_use t1 va); cbn [bind] in H; try discriminate.
        destruct (r_alloc t1) as [t2 eid].
        destruct (r_free t2 va) as [t3| | |]; cbn [bind] in H; try discriminate.
        destruct (r_use t3 (p_id cur)); cbn [bind] in H; try discriminate.
        inversion H; subst. reflexivity.
      * destruct (r_free t1 va) as [t2| | |]; cbn [bind] in H; try discriminate. inversion H; subst. reflexivity.
    + destruct (bget (b_data lb) 0) as [c0| | |]; cbn [bind] in H |- *; try discriminate.
      destruct (c0 =? 35); inversion H; subst; reflexivity.
Qed.

(* ================================================================== *)
(* the whole file                                                      *)
(* ================================================================== *)
Lemma open_loop_spec : forall fuel win t file s map ln r,
  open_loop fuel false win t file s map ln = Ok r ->
  file_spec fuel s (payload_of map) ln = Ok (erase r).
Proof.
  induction fuel as [|f IH]; intros win t file s map ln r H; [discriminate|].
  cbn [open_loop] in H. cbn [file_spec].
  destruct (r_use t file); cbn [bind] in H; try discriminate.
  destruct (get_line win t s ln) as [[[[t1 o] s1] ln1]| | |] eqn:Eg; cbn [bind] in H; try discriminate.
  rewrite (get_line_spec_l _ _ _ _ _ _ _ _ Eg). cbn [bind].
  destruct o as [lb|]; cbn [content].
  - destruct (xattr_step false t1 lb map) as [[[t2 map2] ret]| | |] eqn:Es; cbn [bind] in H; try discriminate.
    rewrite (step_refines _ _ _ _ _ _ Es). cbn [bind].
    destruct (r_free t2 (b_id lb)) as [t3| | |]; cbn [bind] in H; try discriminate.
    destruct ret as [e|].
    + destruct (xattr_close_map_file t3 map2) as [t4| | |]; cbn [bind] in H; try discriminate.
      destruct (r_free t4 file) as [t5| | |]; cbn [bind] in H; try discriminate. inversion H; subst. reflexivity.
    + apply (IH _ _ _ _ _ _ _ H).
  - destruct (r_free t1 file) as [t2| | |]; cbn [bind] in H; try discriminate. inversion H; subst. reflexivity.
Qed.

Lemma xattr_open_spec_l win s r : xattr_open_map_file win s = Ok r -> xattr_file_spec s = Ok (erase r).
Proof.
  unfold xattr_open_map_file, xattr_open_gen, xattr_file_spec.
  destruct (r_alloc r_empty) as [t0 file]. destruct (r_alloc t0) as [t1 mid]. intro H.
  apply (open_loop_spec _ _ _ _ _ _ _ _ H).
Qed.

(* for every file: the run returns, and what it returns is the specification's answer *)
Lemma xattr_open_is_spec_l win s : exists r, xattr_open_map_file win s = Ok r /\ xattr_file_spec s = Ok (erase r).
Proof. destruct (xattr_open_ok win s) as [r [E _]]. exists r. split; [exact E|apply (xattr_open_spec_l win); exact E]. Qed.

(* ... hence verdict, refusal code and line, and the decoded map do not depend on the stream windows *)
Lemma xattr_window_independent_l win1 win2 s r1 r2 :
  xattr_open_map_file win1 s = Ok r1 -> xattr_open_map_file win2 s = Ok r2 -> erase r1 = erase r2.
Proof.
  intros H1 H2. apply xattr_open_spec_l in H1. apply xattr_open_spec_l in H2. rewrite H1 in H2. inversion H2. reflexivity.
Qed.
