(* C07 (3) — safety and termination of the text parsers (TextModel.v): for EVERY NUL-terminated line
   split_line / trim / the three decoders of a sort file line / the getfattr value decoder / the line
   dispatch of the xattr map file neither leave the line buffer (Crash) nor run out of their budget
   (OutOfFuel).
   The invariant that carries everything: the memory keeps its length L + 1 and its last byte stays NUL
   ([buf_ok m L]).  Every scan stops at a NUL at the latest, every store goes to an index at or before a
   position a scan has reached, and a store to the last index stores a NUL. *)
From Coq Require Import List NArith ZArith Bool Lia ZifyBool ZifyNat ZifyN.
From SqfsV Require Import C07.Res C07.ResLemmas C07.GenC07 C07.NumModel C07.NumProofs C07.TextModel C18.CanonModel.
Import ListNotations.
Local Open Scope N_scope.
Ltac Zify.zify_post_hook ::= Z.div_mod_to_equations.

Ltac done_graceful := split; discriminate.

(* "returns normally or refuses" *)
Definition oe {A} (r : res A) : Prop := (exists v, r = Ok v) \/ (exists e, r = Err e).
Lemma oe_graceful {A} (r : res A) : oe r -> graceful r.
Proof. intros [[v E]|[e E]]; rewrite E; done_graceful. Qed.
Lemma graceful_oe {A} (r : res A) : graceful r -> oe r.
Proof. intros [H1 H2]. destruct r; [left|right| |]; eauto; congruence. Qed.

(* ================================================================== *)
(* the line buffer                                                     *)
(* ================================================================== *)
Definition blen (l : list N) : N := N.of_nat (length l).

Definition buf_ok (m : list N) (L : N) : Prop := blen m = L + 1 /\ bget m L = Ok 0.

Lemma buf_get m L i : buf_ok m L -> i <= L -> exists c, bget m i = Ok c.
Proof. intros [Hl _] Hi. apply bget_lt. unfold blen in Hl. lia. Qed.

(* a byte that is not NUL is not the last one *)
Lemma buf_nonzero_lt m L i c : buf_ok m L -> i <= L -> bget m i = Ok c -> c <> 0 -> i < L.
Proof.
  intros [_ Hz] Hi Hc Hn. destruct (N.eq_dec i L) as [E|E]; [|lia].
  subst i. rewrite Hz in Hc. inversion Hc. congruence.
Qed.

Lemma buf_set m L i v : buf_ok m L -> i <= L -> (i = L -> v = 0) ->
  exists m', bset m i v = Ok m' /\ buf_ok m' L.
Proof.
  intros [Hl Hz] Hi Hv.
  destruct (bset_lt m i v) as [m' [E Hl']]; [unfold blen in Hl; lia|].
  exists m'. split; [exact E|]. split; [unfold blen in *; lia|].
  destruct (N.eq_dec i L) as [El|El].
  - subst i. rewrite (Hv eq_refl) in E. eapply bset_get_same; eauto.
  - rewrite (bset_get_other _ _ _ _ _ E); [exact Hz|exact El].
Qed.

Lemma buf_suffix m L i : buf_ok m L -> i <= L ->
  bfrom m i = Ok (skipn (N.to_nat i) m) /\ In 0 (skipn (N.to_nat i) m) /\
  length (skipn (N.to_nat i) m) = N.to_nat (L + 1 - i).
Proof.
  intros [Hl Hz] Hi. split; [apply bfrom_le; unfold blen in Hl; lia|].
  split; [eapply In_skipn_of_bget; eauto|].
  rewrite skipn_length. unfold blen in Hl. lia.
Qed.

Lemma buf_skipn m L i : buf_ok m L -> i <= L -> buf_ok (skipn (N.to_nat i) m) (L - i).
Proof.
  intros [Hl Hz] Hi. split.
  - unfold blen in *. rewrite skipn_length. lia.
  - unfold bget in *. apply lget_ok_iff. rewrite nth_error_skipn'.
    replace (N.to_nat i + N.to_nat (L - i))%nat with (N.to_nat L) by lia.
    apply lget_ok_iff. exact Hz.
Qed.

Lemma buf_app_nul l : buf_ok (l ++ [0]) (blen l).
Proof.
  split; [unfold blen; rewrite app_length; simpl; lia|].
  unfold bget, blen. rewrite Nat2N.id. apply lget_app_last.
Qed.

(* a scan over a suffix of the buffer stays inside it *)
Lemma buf_span p m L i : p 0 = false -> buf_ok m L -> i <= L ->
  exists n, span_count p (skipn (N.to_nat i) m) = Ok n /\ i + n <= L.
Proof.
  intros Hp Hb Hi. destruct (buf_suffix m L i Hb Hi) as [_ [Hin Hlen]].
  destruct (span_count_safe p Hp _ Hin) as [n [E [Hn _]]].
  exists n. split; [exact E|lia].
Qed.

Lemma buf_strlen m L i : buf_ok m L -> i <= L -> exists l, strlen_at m i = Ok l /\ i + l <= L.
Proof.
  intros Hb Hi. unfold strlen_at. destruct (buf_suffix m L i Hb Hi) as [E _]. rewrite E; cbn [bind].
  apply (buf_span (fun c => negb (c =? 0)) m L i eq_refl Hb Hi).
Qed.

Lemma buf_cstr m L i : buf_ok m L -> i <= L -> exists t, cstr_at m i = Ok t.
Proof.
  intros Hb Hi. unfold cstr_at. destruct (buf_suffix m L i Hb Hi) as [E [Hin _]]. rewrite E; cbn [bind].
  destruct (cstr_safe _ Hin) as [t [Et _]]. eauto.
Qed.

(* memmove to a lower address *)
Lemma move_down_ok : forall n m L dst src, buf_ok m L -> dst <= src -> src + N.of_nat n <= L + 1 ->
  exists m', move_down n m dst src = Ok m' /\ buf_ok m' L.
Proof.
  induction n as [|n IH]; intros m L dst src Hb Hd Hs; [exists m; split; [reflexivity|exact Hb]|].
  cbn [move_down].
  destruct (buf_get m L src Hb ltac:(lia)) as [c Ec]. rewrite Ec; cbn [bind].
  destruct (buf_set m L dst c Hb ltac:(lia)) as [m1 [E1 Hb1]].
  { intro E. assert (src = L) by lia. subst. destruct Hb as [_ Hz]. rewrite Hz in Ec. inversion Ec. reflexivity. }
  rewrite E1; cbn [bind]. apply IH; [exact Hb1|lia|lia].
Qed.

(* ================================================================== *)
(* split_line                                                          *)
(* ================================================================== *)
(* the byte at src (if there is one left) does not start a run of separators *)
Definition at_arg (m sep : list N) (src len : N) : Prop :=
  len = 0 \/ exists c, bget m src = Ok c /\ is_sep sep c = false.

Lemma skip_seps_ok : forall fuel m sep L src len, buf_ok m L -> src + len <= L -> (N.to_nat len < fuel)%nat ->
  exists src' len', skip_seps fuel m sep src len = Ok (src', len') /\ src' + len' = src + len /\ src <= src' /\
    at_arg m sep src' len'.
Proof.
  induction fuel as [|f IH]; intros m sep L src len Hb Hs Hf; [lia|].
  cbn [skip_seps]. destruct (len =? 0) eqn:E0.
  { apply N.eqb_eq in E0. exists src, len. repeat split; try lia. left; exact E0. }
  apply N.eqb_neq in E0.
  destruct (buf_get m L src Hb ltac:(lia)) as [c Ec]. rewrite Ec; cbn [bind].
  destruct (is_sep sep c) eqn:Es.
  - destruct (IH m sep L (src + 1) (len - 1) Hb ltac:(lia) ltac:(lia)) as [s' [l' [E [H1 [H2 H3]]]]].
    exists s', l'. repeat split; auto; lia.
  - exists src, len. repeat split; try lia. right. exists c. auto.
Qed.

(* result of one of the two argument loops *)
Definition arg_post (L src dst len : N) (r : res (list N * N * N * N)) : Prop :=
  (exists e, r = Err e) \/
  (exists m' src' dst' len', r = Ok (m', src', dst', len') /\ buf_ok m' L /\
     src' + len' = src + len /\ src <= src' /\ dst' <= src' /\ dst <= dst').

Lemma quoted_loop_ok : forall fuel m L src dst len, buf_ok m L -> dst <= src -> src + len <= L ->
  (N.to_nat len < fuel)%nat -> arg_post L src dst len (quoted_loop fuel m src dst len).
Proof.
  induction fuel as [|f IH]; intros m L src dst len Hb Hd Hs Hf; [lia|].
  cbn [quoted_loop]. destruct (len =? 0) eqn:E0.
  { right. exists m, src, dst, len. repeat split; auto; try lia; apply Hb. }
  apply N.eqb_neq in E0.
  destruct (buf_get m L src Hb ltac:(lia)) as [c Ec]. rewrite Ec; cbn [bind].
  destruct ((c =? 0) || (c =? 34)).
  { right. exists m, src, dst, len. repeat split; auto; try lia; apply Hb. }
  destruct (c =? 92).
  - destruct (len <? 2) eqn:E2; [left; eauto|]. apply N.ltb_ge in E2.
    destruct (buf_get m L (src + 1) Hb ltac:(lia)) as [c1 Ec1]. rewrite Ec1; cbn [bind].
    destruct (negb (c1 =? 34) && negb (c1 =? 92)); [left; eauto|].
    destruct (buf_set m L dst c1 Hb ltac:(lia) ltac:(lia)) as [m1 [E1 Hb1]]. rewrite E1; cbn [bind].
    destruct (IH m1 L (src + 2) (dst + 1) (len - 2) Hb1 ltac:(lia) ltac:(lia) ltac:(lia))
      as [[e E]|[m' [s' [d' [l' [E [H1 [H2 [H3 [H4 H5]]]]]]]]]]; [left; eauto|right].
    exists m', s', d', l'. repeat split; auto; try lia; apply H1.
  - destruct (buf_set m L dst c Hb ltac:(lia) ltac:(lia)) as [m1 [E1 Hb1]]. rewrite E1; cbn [bind].
    destruct (IH m1 L (src + 1) (dst + 1) (len - 1) Hb1 ltac:(lia) ltac:(lia) ltac:(lia))
      as [[e E]|[m' [s' [d' [l' [E [H1 [H2 [H3 [H4 H5]]]]]]]]]]; [left; eauto|right].
    exists m', s', d', l'. repeat split; auto; try lia; apply H1.
Qed.

Lemma plain_loop_ok : forall fuel m sep L src dst len, buf_ok m L -> dst <= src -> src + len <= L ->
  (N.to_nat len < fuel)%nat -> arg_post L src dst len (plain_loop fuel m sep src dst len).
Proof.
  induction fuel as [|f IH]; intros m sep L src dst len Hb Hd Hs Hf; [lia|].
  cbn [plain_loop]. destruct (len =? 0) eqn:E0.
  { right. exists m, src, dst, len. repeat split; auto; try lia; apply Hb. }
  apply N.eqb_neq in E0.
  destruct (buf_get m L src Hb ltac:(lia)) as [c Ec]. rewrite Ec; cbn [bind].
  destruct (is_sep sep c || (c =? 0)).
  { right. exists m, src, dst, len. repeat split; auto; try lia; apply Hb. }
  destruct (buf_set m L dst c Hb ltac:(lia) ltac:(lia)) as [m1 [E1 Hb1]]. rewrite E1; cbn [bind].
  destruct (IH m1 sep L (src + 1) (dst + 1) (len - 1) Hb1 ltac:(lia) ltac:(lia) ltac:(lia))
    as [[e E]|[m' [s' [d' [l' [E [H1 [H2 [H3 [H4 H5]]]]]]]]]]; [left; eauto|right].
  exists m', s', d', l'. repeat split; auto; try lia; apply H1.
Qed.

(* an unquoted argument that starts at a byte which is neither NUL nor a separator consumes it *)
Lemma plain_loop_progress fuel m sep L src dst len c :
  buf_ok m L -> dst <= src -> src + len <= L -> (N.to_nat len < fuel)%nat -> len <> 0 ->
  bget m src = Ok c -> c <> 0 -> is_sep sep c = false ->
  (exists e, plain_loop fuel m sep src dst len = Err e) \/
  (exists m' src' dst' len', plain_loop fuel m sep src dst len = Ok (m', src', dst', len') /\ buf_ok m' L /\
     src' + len' = src + len /\ src < src' /\ dst' <= src').
Proof.
  intros Hb Hd Hs Hf Hl Hc Hnz Hns. destruct fuel as [|f]; [lia|].
  cbn [plain_loop]. apply N.eqb_neq in Hl. rewrite Hl. apply N.eqb_neq in Hl. rewrite Hc; cbn [bind].
  rewrite Hns. apply N.eqb_neq in Hnz. rewrite Hnz. cbn [orb].
  destruct (buf_set m L dst c Hb ltac:(lia) ltac:(lia)) as [m1 [E1 Hb1]]. rewrite E1; cbn [bind].
  destruct (plain_loop_ok f m1 sep L (src + 1) (dst + 1) (len - 1) Hb1 ltac:(lia) ltac:(lia) ltac:(lia))
    as [[e E]|[m' [s' [d' [l' [E [H1 [H2 [H3 [H4 H5]]]]]]]]]]; [left; eauto|right].
  exists m', s', d', l'. repeat split; auto; try lia; apply H1.
Qed.

Definition args_ok (L : N) (args : list N) : Prop := Forall (fun a => a <= L) args.

(* what the outer loop needs at its head: nothing left, or the terminator, or the first byte of an
   argument (not a separator) with the write position not ahead of the read position *)
Definition head_ok (m sep : list N) (src dst len : N) : Prop :=
  len = 0 \/ exists c, bget m src = Ok c /\ (c = 0 \/ (is_sep sep c = false /\ dst <= src)).

Lemma split_outer_ok : forall fuel m sep L src dst len args,
  buf_ok m L -> src + len <= L -> (N.to_nat len < fuel)%nat ->
  head_ok m sep src dst len -> args_ok L args ->
  (exists e, split_outer fuel m sep src dst len args = Err e) \/
  (exists m' args', split_outer fuel m sep src dst len args = Ok (m', args') /\ buf_ok m' L /\ args_ok L args').
Proof.
  induction fuel as [|f IH]; intros m sep L src dst len args Hb Hs Hf Ha Hargs; [lia|].
  cbn [split_outer]. destruct (len =? 0) eqn:E0; [right; exists m, args; auto|].
  apply N.eqb_neq in E0.
  destruct Ha as [Ha|[c [Ec Hc]]]; [congruence|]. rewrite Ec; cbn [bind].
  destruct (c =? 0) eqn:Ez; [right; exists m, args; auto|]. apply N.eqb_neq in Ez.
  destruct Hc as [Hc|[Hns Hd]]; [congruence|].
  assert (Hargs1 : args_ok L (args ++ [dst])).
  { apply Forall_app. split; [exact Hargs|]. constructor; [lia|constructor]. }
  (* the argument: Err, or strictly consumed input *)
  assert (Harg :
    (exists e, (if c =? 34 then
         do q <- quoted_loop (S (N.to_nat len)) m (src + 1) dst (len - 1);
         let '(m1, src1, dst1, len1) := q in
         if len1 =? 0 then Err e_quote else
         do c1 <- bget m1 src1;
         if negb (c1 =? 34) then Err e_quote else Ok (m1, src1 + 1, dst1, len1 - 1)
       else plain_loop (S (N.to_nat len)) m sep src dst len) = Err e) \/
    (exists m2 src2 dst2 len2, (if c =? 34 then
         do q <- quoted_loop (S (N.to_nat len)) m (src + 1) dst (len - 1);
         let '(m1, src1, dst1, len1) := q in
         if len1 =? 0 then Err e_quote else
         do c1 <- bget m1 src1;
         if negb (c1 =? 34) then Err e_quote else Ok (m1, src1 + 1, dst1, len1 - 1)
       else plain_loop (S (N.to_nat len)) m sep src dst len) = Ok (m2, src2, dst2, len2) /\
      buf_ok m2 L /\ src2 + len2 = src + len /\ src < src2 /\ dst2 <= src2)).
  { destruct (c =? 34).
    - destruct (quoted_loop_ok (S (N.to_nat len)) m L (src + 1) dst (len - 1) Hb ltac:(lia) ltac:(lia) ltac:(lia))
        as [[e E]|[m1 [s1 [d1 [l1 [E [H1 [H2 [H3 [H4 H5]]]]]]]]]]; rewrite E; cbn [bind]; [left; eauto|].
      destruct (l1 =? 0) eqn:El; [left; eauto|]. apply N.eqb_neq in El.
      destruct (buf_get m1 L s1 H1 ltac:(lia)) as [c1 Ec1]. rewrite Ec1; cbn [bind].
      destruct (negb (c1 =? 34)); [left; eauto|right].
      exists m1, (s1 + 1), d1, (l1 - 1). split; [reflexivity|]. split; [exact H1|]. lia.
    - apply (plain_loop_progress _ m sep L src dst len c); auto; lia. }
  destruct Harg as [[e E]|[m2 [src2 [dst2 [len2 [E [Hb2 [H1 [H2 H3]]]]]]]]]; rewrite E; cbn [bind]; [left; eauto|].
  destruct (skip_seps_ok (S (N.to_nat len2)) m2 sep L src2 len2 Hb2 ltac:(lia) ltac:(lia))
    as [src3 [len3 [Es [H4 [H5 Ha3]]]]]. rewrite Es; cbn [bind].
  destruct (buf_set m2 L dst2 0 Hb2 ltac:(lia) ltac:(auto)) as [m3 [E3 Hb3]]. rewrite E3; cbn [bind].
  apply (IH m3 sep L src3 (dst2 + 1) len3 (args ++ [dst]) Hb3); [lia|lia| |exact Hargs1].
  (* the store of the terminator: either it hits the next byte (then the loop stops there) or it is
     strictly before it *)
  destruct Ha3 as [Hz|[c3 [Ec3 Hns3]]]; [left; exact Hz|right].
  destruct (N.eq_dec dst2 src3) as [Eq|Ne].
  - subst. exists 0. split; [eapply bset_get_same; eauto|]. left; reflexivity.
  - exists c3. split; [rewrite (bset_get_other _ _ _ _ _ E3); auto|]. right. split; [exact Hns3|lia].
Qed.

(* split_line(line + base, len, sep, &out) on a buffer that has (at least) one more byte behind the len bytes *)
Lemma split_line_ok m sep L base len : buf_ok m L -> base + len <= L ->
  (exists e, split_line m sep base len = Err e) \/
  (exists m' args, split_line m sep base len = Ok (m', args) /\ buf_ok m' L /\ args_ok L args).
Proof.
  intros Hb Hs. unfold split_line.
  destruct (skip_seps_ok (S (N.to_nat len)) m sep L base len Hb Hs ltac:(lia)) as [src [len1 [E [H1 [H2 Ha]]]]].
  rewrite E; cbn [bind].
  apply (split_outer_ok _ m sep L src base len1 [] Hb); [lia|lia| |constructor].
  destruct Ha as [Hz|[c [Ec Hns]]]; [left; exact Hz|right]. exists c. split; [exact Ec|]. right. split; [exact Hns|exact H2].
Qed.

(* ================================================================== *)
(* trim                                                                *)
(* ================================================================== *)
Lemma ltrim_ok m L base : buf_ok m L -> base <= L -> exists m', ltrim m base = Ok m' /\ buf_ok m' L.
Proof.
  intros Hb Hi. unfold ltrim. destruct (buf_suffix m L base Hb Hi) as [E _]. rewrite E; cbn [bind].
  destruct (buf_span c_isspace m L base isspace_0 Hb Hi) as [i [Ei Hi2]]. rewrite Ei; cbn [bind].
  destruct (i =? 0); [exists m; auto|].
  destruct (buf_strlen m L (base + i) Hb Hi2) as [l [El Hl]]. rewrite El; cbn [bind].
  apply move_down_ok; auto; lia.
Qed.

Lemma rtrim_go_ok : forall fuel m L base i, buf_ok m L -> base + i <= L -> (N.to_nat i < fuel)%nat ->
  exists j, rtrim_go fuel m base i = Ok j /\ j <= i.
Proof.
  induction fuel as [|f IH]; intros m L base i Hb Hi Hf; [lia|].
  cbn [rtrim_go]. destruct (i =? 0) eqn:E0; [exists 0; split; [reflexivity|lia]|]. apply N.eqb_neq in E0.
  destruct (buf_get m L (base + i - 1) Hb ltac:(lia)) as [c Ec]. rewrite Ec; cbn [bind].
  destruct (c_isspace c); [|exists i; split; [reflexivity|lia]].
  destruct (IH m L base (i - 1) Hb ltac:(lia) ltac:(lia)) as [j [E Hj]]. exists j. split; [exact E|lia].
Qed.

Lemma rtrim_ok m L base : buf_ok m L -> base <= L -> exists m', rtrim m base = Ok m' /\ buf_ok m' L.
Proof.
  intros Hb Hi. unfold rtrim. destruct (buf_strlen m L base Hb Hi) as [l [El Hl]]. rewrite El; cbn [bind].
  destruct (rtrim_go_ok (S (N.to_nat l)) m L base l Hb Hl ltac:(lia)) as [j [Ej Hj]]. rewrite Ej; cbn [bind].
  apply buf_set; auto; lia.
Qed.

Lemma trim_ok m L base : buf_ok m L -> base <= L -> exists m', trim m base = Ok m' /\ buf_ok m' L.
Proof.
  intros Hb Hi. unfold trim. destruct (ltrim_ok m L base Hb Hi) as [m1 [E1 Hb1]]. rewrite E1; cbn [bind].
  apply rtrim_ok; auto.
Qed.

(* ================================================================== *)
(* sort file lines                                                     *)
(* ================================================================== *)
Lemma parse_int_safe s len whole : In 0 s ->
  (exists v d, parse_int s len whole = Ok (v, d) /\ (N.to_nat d < length s)%nat) \/
  (exists e, parse_int s len whole = Err e).
Proof.
  intro Hin. unfold parse_int.
  destruct s as [|c r]; [destruct Hin|].
  assert (Hng : exists ng, (if len =? 0 then Ok false else Ok (c =? 45)) = Ok ng /\ (ng = true -> c = 45)).
  { destruct (len =? 0); [exists false; split; [reflexivity|discriminate]|].
    exists (c =? 45). split; [reflexivity|]. intro E. apply N.eqb_eq. exact E. }
  destruct Hng as [ng [E Hc]]. rewrite E; cbn [bind].
  assert (Hin1 : In 0 (if ng then tl (c :: r) else c :: r)).
  { destruct ng; [|exact Hin]. simpl. destruct Hin as [E0|Hr]; [|exact Hr].
    rewrite (Hc eq_refl) in E0. discriminate. }
  unfold parse_uint.
  destruct (parse_safe _ (if ng then len - 1 else len) whole 10 0 0 Hin1) as [[v [d [Ep [_ Hd]]]]|[e Ep]];
    rewrite Ep; cbn [bind]; [|right; eauto].
  destruct (9223372036854775807 <=? v); [right; eauto|].
  destruct ng; left; eexists; eexists; (split; [reflexivity|]); simpl in *; lia.
Qed.

Lemma decode_priority_ok m L : buf_ok m L ->
  (exists e, decode_priority m = Err e) \/ (exists m' p, decode_priority m = Ok (m', p) /\ buf_ok m' L).
Proof.
  intro Hb. unfold decode_priority.
  destruct (buf_strlen m L 0 Hb ltac:(lia)) as [l [El _]]. rewrite El; cbn [bind].
  destruct (buf_suffix m L 0 Hb ltac:(lia)) as [_ [Hin Hlen]]. change (N.to_nat 0) with 0%nat in *. rewrite skipn_O in *.
  destruct (parse_int_safe m l false Hin) as [[prio [i [E Hi]]]|[e E]]; rewrite E; [|left; eauto].
  assert (Hi' : i <= L) by lia.
  destruct (buf_get m L i Hb Hi') as [c Ec]. rewrite Ec; cbn [bind].
  destruct (negb (c_isspace c)); [left; eauto|].
  destruct (buf_suffix m L i Hb Hi') as [Es _]. rewrite Es; cbn [bind].
  destruct (buf_span c_isspace m L i isspace_0 Hb Hi') as [k [Ek Hk]]. rewrite Ek; cbn [bind].
  destruct (buf_get m L (i + k) Hb Hk) as [c2 Ec2]. rewrite Ec2; cbn [bind].
  destruct (c2 =? 0); [left; eauto|].
  destruct (buf_strlen m L (i + k) Hb Hk) as [l2 [El2 Hl2]]. rewrite El2; cbn [bind].
  destruct (move_down_ok (N.to_nat (l2 + 1)) m L 0 (i + k) Hb ltac:(lia) ltac:(lia)) as [m1 [E1 Hb1]].
  rewrite E1; cbn [bind]. right. eauto.
Qed.

Lemma flags_loop_ok : forall args m L acc, buf_ok m L -> args_ok L args ->
  (exists e, flags_loop m args acc = Err e) \/ (exists m' fl, flags_loop m args acc = Ok (m', fl) /\ buf_ok m' L).
Proof.
  induction args as [|a r IH]; intros m L acc Hb Ha; [right; simpl; eauto|].
  cbn [flags_loop]. inversion Ha as [|x y Hx Hr]; subst.
  destruct (trim_ok m L a Hb Hx) as [m1 [E1 Hb1]]. rewrite E1; cbn [bind].
  destruct (buf_cstr m1 L a Hb1 Hx) as [w Ew]. rewrite Ew; cbn [bind].
  destruct (flag_of w); [|left; eauto]. apply IH; auto.
Qed.

(* strchr on a suffix that holds a NUL *)
Lemma strchr_go_ok : forall s c i, In 0 s ->
  exists r, strchr_go s c i = Ok r /\
    match r with
    | Some p => i <= p /\ (N.to_nat (p - i) < length s)%nat /\ nth_error s (N.to_nat (p - i)) = Some c
    | None => True
    end.
Proof.
  induction s as [|x s IH]; intros c i Hin; [destruct Hin|].
  cbn [strchr_go]. destruct (x =? c) eqn:Ex.
  { apply N.eqb_eq in Ex. subst x. exists (Some i). split; [reflexivity|].
    replace (i - i) with 0 by lia. simpl. repeat split; lia. }
  destruct (x =? 0) eqn:Ez; [exists None; auto|]. apply N.eqb_neq in Ez.
  destruct Hin as [E0|Hr]; [congruence|].
  destruct (IH c (i + 1) Hr) as [r [E Hp]]. exists r. split; [exact E|].
  destruct r as [p|]; [|exact I]. destruct Hp as [H1 [H2 H3]].
  replace (N.to_nat (p - i)) with (S (N.to_nat (p - (i + 1)))) by lia. simpl. repeat split; auto; lia.
Qed.

(* the position found by strchr(m + i, c), c <> 0, is a valid index before the terminator *)
Lemma buf_strchr m L i c : buf_ok m L -> i <= L -> c <> 0 ->
  exists r, strchr_go (skipn (N.to_nat i) m) c i = Ok r /\
    match r with Some p => i <= p /\ p < L /\ bget m p = Ok c | None => True end.
Proof.
  intros Hb Hi Hc. destruct (buf_suffix m L i Hb Hi) as [_ [Hin Hlen]].
  destruct (strchr_go_ok _ c i Hin) as [r [E Hp]]. exists r. split; [exact E|].
  destruct r as [p|]; [|exact I]. destruct Hp as [H1 [H2 H3]].
  rewrite nth_error_skipn' in H3. replace (N.to_nat i + N.to_nat (p - i))%nat with (N.to_nat p) in H3 by lia.
  assert (Hg : bget m p = Ok c) by (unfold bget; apply lget_ok_iff; exact H3).
  repeat split; auto. apply (buf_nonzero_lt m L p c); auto. lia.
Qed.

Lemma decode_flags_ok m L : buf_ok m L ->
  (exists e, decode_flags m = Err e) \/ (exists m' fl, decode_flags m = Ok (m', fl) /\ buf_ok m' L).
Proof.
  intro Hb. unfold decode_flags.
  destruct (buf_get m L 0 Hb ltac:(lia)) as [c0 Ec0]. rewrite Ec0; cbn [bind].
  destruct (negb (c0 =? 91)) eqn:E91; [right; eauto|].
  apply negb_false_iff in E91. apply N.eqb_eq in E91. subst c0.
  assert (H0 : 0 < L) by (apply (buf_nonzero_lt m L 0 91); auto; lia).
  destruct (buf_suffix m L 1 Hb ltac:(lia)) as [Es _]. rewrite Es; cbn [bind].
  destruct (buf_strchr m L 1 93 Hb ltac:(lia) ltac:(discriminate)) as [r [Er Hp]]. rewrite Er; cbn [bind].
  destruct r as [endp|]; [|left; eauto]. destruct Hp as [H1 [H2 H3]].
  destruct (split_line_ok m [44] L 1 (endp - 1) Hb ltac:(lia)) as [[e E]|[m1 [args [E [Hb1 Ha]]]]]; rewrite E;
    [left; eauto|].
  destruct (buf_get m1 L (endp + 1) Hb1 ltac:(lia)) as [c1 Ec1]. rewrite Ec1; cbn [bind].
  destruct (negb (c_isspace c1)); [left; eauto|].
  destruct (buf_suffix m1 L (endp + 1) Hb1 ltac:(lia)) as [Es1 _]. rewrite Es1; cbn [bind].
  destruct (buf_span c_isspace m1 L (endp + 1) isspace_0 Hb1 ltac:(lia)) as [k [Ek Hk]]. rewrite Ek; cbn [bind].
  destruct (flags_loop_ok args m1 L [] Hb1 Ha) as [[e E2]|[m2 [fl [E2 Hb2]]]]; rewrite E2; cbn [bind]; [left; eauto|].
  destruct (buf_strlen m2 L (endp + 1 + k) Hb2 Hk) as [l [El Hl]]. rewrite El; cbn [bind].
  destruct (move_down_ok (N.to_nat (l + 1)) m2 L 0 (endp + 1 + k) Hb2 ltac:(lia) ltac:(lia)) as [m3 [E3 Hb3]].
  rewrite E3; cbn [bind]. right; eauto.
Qed.

Lemma unquote_go_ok : forall fuel m L src dst, buf_ok m L -> dst < src -> src <= L ->
  (N.to_nat (L + 1 - src) < fuel)%nat ->
  (exists e, unquote_go fuel m src dst = Err e) \/
  (exists m' src' dst', unquote_go fuel m src dst = Ok (m', src', dst') /\ buf_ok m' L /\ src' <= L /\ dst' < src').
Proof.
  induction fuel as [|f IH]; intros m L src dst Hb Hd Hs Hf; [lia|].
  cbn [unquote_go].
  destruct (buf_get m L src Hb Hs) as [c Ec]. rewrite Ec; cbn [bind].
  destruct (c =? 0) eqn:Ez; [left; eauto|]. apply N.eqb_neq in Ez.
  assert (Hlt : src < L) by (apply (buf_nonzero_lt m L src c); auto).
  destruct (c =? 34); [right; exists m, (src + 1), dst; repeat split; try lia; apply Hb|].
  destruct (c =? 92).
  - destruct (buf_get m L (src + 1) Hb ltac:(lia)) as [c1 Ec1]. rewrite Ec1; cbn [bind].
    destruct ((c1 =? 92) || (c1 =? 34)) eqn:Eq; [|left; eauto].
    assert (Hnz : c1 <> 0).
    { intro; subst c1. discriminate. }
    assert (Hlt1 : src + 1 < L) by (apply (buf_nonzero_lt m L (src + 1) c1); auto; lia).
    destruct (buf_set m L dst c1 Hb ltac:(lia) ltac:(lia)) as [m1 [E1 Hb1]]. rewrite E1; cbn [bind].
    apply IH; auto; lia.
  - destruct (buf_set m L dst c Hb ltac:(lia) ltac:(lia)) as [m1 [E1 Hb1]]. rewrite E1; cbn [bind].
    apply IH; auto; lia.
Qed.

Lemma decode_filename_ok m L : buf_ok m L -> oe (decode_filename m).
Proof.
  intro Hb. unfold decode_filename.
  destruct (buf_get m L 0 Hb ltac:(lia)) as [c0 Ec0]. rewrite Ec0; cbn [bind].
  assert (Hm1 : (exists e, (if c0 =? 34 then
       do r <- unquote_go (S (length m)) m 1 0;
       let '(m1, src, dst) := r in
       do c <- bget m1 src;
       if negb (c =? 0) then Err e_sort else bset m1 dst 0
     else Ok m) = Err e) \/
     (exists m1, (if c0 =? 34 then
       do r <- unquote_go (S (length m)) m 1 0;
       let '(m1, src, dst) := r in
       do c <- bget m1 src;
       if negb (c =? 0) then Err e_sort else bset m1 dst 0
     else Ok m) = Ok m1 /\ buf_ok m1 L)).
  { destruct (c0 =? 34) eqn:E34; [|right; eauto].
    apply N.eqb_eq in E34. subst c0.
    assert (H0 : 0 < L) by (apply (buf_nonzero_lt m L 0 34); auto; lia).
    destruct (unquote_go_ok (S (length m)) m L 1 0 Hb ltac:(lia) ltac:(lia)) as [[e E]|[m1 [src [dst [E [Hb1 [H1 H2]]]]]]].
    { destruct Hb as [Hl _]. unfold blen in Hl. lia. }
    { rewrite E; cbn [bind]. left; eauto. }
    rewrite E; cbn [bind].
    destruct (buf_get m1 L src Hb1 H1) as [c Ec]. rewrite Ec; cbn [bind].
    destruct (negb (c =? 0)); [left; eauto|].
    destruct (buf_set m1 L dst 0 Hb1 ltac:(lia) ltac:(auto)) as [m2 [E2 Hb2]]. rewrite E2. right; eauto. }
  destruct Hm1 as [[e E]|[m1 [E Hb1]]]; rewrite E; cbn [bind]; [right; eauto|].
  destruct (buf_cstr m1 L 0 Hb1 ltac:(lia)) as [name En]. rewrite En; cbn [bind].
  destruct (canon_result name); [left|right]; eauto.
Qed.

Lemma sort_line_ok m L : buf_ok m L -> oe (sort_line m).
Proof.
  intro Hb. unfold sort_line.
  destruct (decode_priority_ok m L Hb) as [[e E]|[m1 [prio [E Hb1]]]]; rewrite E; cbn [bind]; [right; eauto|].
  destruct (decode_flags_ok m1 L Hb1) as [[e E2]|[m2 [fl [E2 Hb2]]]]; rewrite E2; cbn [bind]; [right; eauto|].
  destruct (decode_filename_ok m2 L Hb2) as [[n E3]|[e E3]]; rewrite E3; cbn [bind]; [left|right]; eauto.
Qed.

(* ================================================================== *)
(* xattr map file                                                      *)
(* ================================================================== *)
Lemma xesc_go_ok : forall fuel m L v endp out cap, buf_ok m L -> endp <= L ->
  N.of_nat (length out) + (endp - v) < cap -> (N.to_nat (endp - v) < fuel)%nat ->
  exists o, xesc_go fuel m v endp out cap = Ok o.
Proof.
  induction fuel as [|f IH]; intros m L v endp out cap Hb He Hc Hf; [lia|].
  cbn [xesc_go]. destruct (endp <=? v) eqn:Ev; [eauto|]. apply N.leb_gt in Ev.
  assert (Hcap : (cap <=? N.of_nat (length out)) = false) by (apply N.leb_gt; lia).
  (* one byte is pushed and the scan goes on at v' > v *)
  assert (Hpush : forall c v', v < v' ->
    exists o, (if cap <=? N.of_nat (length out) then Crash else xesc_go f m v' endp (out ++ [c mod 256]) cap) = Ok o).
  { intros c v' Hv. rewrite Hcap. apply (IH m L); auto; [|lia]. rewrite app_length. simpl. lia. }
  destruct (buf_get m L v Hb ltac:(lia)) as [c Ec]. rewrite Ec; cbn [bind].
  destruct (c =? 92); [|apply Hpush; lia].
  destruct (buf_get m L (v + 1) Hb ltac:(lia)) as [c1 Ec1]. rewrite Ec1; cbn [bind].
  destruct ((c1 =? 92) || (c1 =? 34)); [apply Hpush; lia|].
  destruct ((48 <=? c1) && (c1 <=? 55)) eqn:Ed1; [|apply Hpush; lia].
  assert (H1 : v + 1 < L) by (apply (buf_nonzero_lt m L (v + 1) c1); auto; lia).
  destruct (buf_get m L (v + 2) Hb ltac:(lia)) as [c2 Ec2]. rewrite Ec2; cbn [bind].
  destruct ((48 <=? c2) && (c2 <=? 55)) eqn:Ed2; [|apply Hpush; lia].
  assert (H2 : v + 2 < L) by (apply (buf_nonzero_lt m L (v + 2) c2); auto; lia).
  destruct (buf_get m L (v + 3) Hb ltac:(lia)) as [c3 Ec3]. rewrite Ec3; cbn [bind].
  destruct ((48 <=? c3) && (c3 <=? 55)); apply Hpush; lia.
Qed.

Lemma xattr_decode_ok m L : buf_ok m L -> oe (xattr_decode m).
Proof.
  intro Hb. unfold xattr_decode.
  destruct (buf_strlen m L 0 Hb ltac:(lia)) as [size [Esz Hsz]]. rewrite Esz; cbn [bind].
  destruct (size =? 0) eqn:E0; [left; eauto|]. apply N.eqb_neq in E0.
  destruct (buf_get m L 0 Hb ltac:(lia)) as [v0 Ev0]. rewrite Ev0; cbn [bind].
  destruct (buf_get m L 1 Hb ltac:(lia)) as [v1 Ev1]. rewrite Ev1; cbn [bind].
  assert (Hlen : N.of_nat (length m) = L + 1) by apply Hb.
  (* a second byte that is 'x', 'X', 's' or 'S' is not the terminator *)
  assert (H2L : forall a b, (v0 =? 48) && ((v1 =? a) || (v1 =? b)) = true -> a <> 0 -> b <> 0 -> 2 <= L).
  { intros a b H Ha Hb'. apply andb_true_iff in H. destruct H as [_ H]. apply orb_true_iff in H.
    assert (v1 <> 0) by (destruct H as [H|H]; apply N.eqb_eq in H; congruence).
    assert (1 < L) by (apply (buf_nonzero_lt m L 1 v1); auto; lia). lia. }
  destruct ((v0 =? 48) && ((v1 =? 120) || (v1 =? 88))) eqn:Ehex.
  { specialize (H2L _ _ Ehex ltac:(discriminate) ltac:(discriminate)).
    destruct (buf_suffix m L 2 Hb ltac:(lia)) as [Es [_ Hl2]]. rewrite Es; cbn [bind].
    destruct (graceful_oe _ (hex_decode_graceful (skipn (N.to_nat 2) m) ((size - 2) / 2 * 2) ((size - 2) / 2) ltac:(lia)))
      as [[[bytes ok] E]|[e E]]; rewrite E; cbn [bind]; [|right; eauto].
    destruct ok; [left|right]; eauto. }
  destruct ((v0 =? 48) && ((v1 =? 115) || (v1 =? 83))) eqn:Eb64.
  { specialize (H2L _ _ Eb64 ltac:(discriminate) ltac:(discriminate)).
    set (cap := (size - 2) / 4 * 3).
    set (mm := m ++ repeat 0 (N.to_nat (cap + 1))).
    assert (Hmm : N.of_nat (length mm) = L + 1 + cap + 1).
    { unfold mm. rewrite app_length, repeat_length. lia. }
    destruct (base64_decode_safe mm 2 (size - 2) (N.of_nat (length m)) cap ltac:(lia) ltac:(lia))
      as [m1 [oc [E [Hl1 [Hoc _]]]]]. rewrite E; cbn [bind].
    destruct oc as [cnt|]; [|right; eauto].
    unfold bslice_m. assert (Hle : (N.of_nat (length m) + cnt <=? N.of_nat (length m1)) = true) by (apply N.leb_le; lia).
    rewrite Hle. left; eauto. }
  destruct (buf_get m L (size - 1) Hb ltac:(lia)) as [cl Ecl]. rewrite Ecl; cbn [bind].
  set (quoted := (1 <? size) && (v0 =? 34) && (cl =? 34)).
  assert (Hq : quoted = true -> 1 < size).
  { unfold quoted. intro H. apply andb_true_iff in H. destruct H as [H _]. apply andb_true_iff in H. destruct H as [H _].
    apply N.ltb_lt. exact H. }
  destruct (xesc_go_ok (S (N.to_nat size)) m L (if quoted then 1 else 0) (if quoted then size - 1 else size) [] (size + 1) Hb)
    as [o Eo]; [destruct quoted; lia|destruct quoted; simpl; lia|destruct quoted; lia|].
  rewrite Eo. left; eauto.
Qed.

Lemma strncmp_eq_ok : forall p m L i, buf_ok m L -> i <= L -> Forall (fun x => x <> 0) p ->
  exists b, strncmp_eq p m i = Ok b /\ (b = true -> i + N.of_nat (length p) <= L).
Proof.
  induction p as [|x p IH]; intros m L i Hb Hi Hp; [exists true; split; [reflexivity|simpl; lia]|].
  cbn [strncmp_eq]. inversion Hp as [|y q Hx Hq]; subst.
  destruct (buf_get m L i Hb Hi) as [c Ec]. rewrite Ec; cbn [bind].
  destruct (c =? x) eqn:Ex; [|exists false; split; [reflexivity|discriminate]].
  apply N.eqb_eq in Ex. subst c.
  assert (Hlt : i < L) by (apply (buf_nonzero_lt m L i x); auto).
  destruct (IH m L (i + 1) Hb ltac:(lia) Hq) as [b [E Hb']]. exists b. split; [exact E|].
  intro H. specialize (Hb' H). simpl length. lia.
Qed.

Lemma xattr_line_ok m L have_file : buf_ok m L -> oe (xattr_line m have_file).
Proof.
  intro Hb. unfold xattr_line.
  destruct (strncmp_eq_ok k_newfile m L 0 Hb ltac:(lia)) as [isnew [E Hn]].
  { unfold k_newfile. repeat constructor; discriminate. }
  rewrite E; cbn [bind]. destruct isnew.
  - specialize (Hn eq_refl). change (N.of_nat (length k_newfile)) with 8 in Hn.
    destruct (buf_cstr m L 8 Hb ltac:(lia)) as [name En]. rewrite En; cbn [bind].
    destruct (canon_result name); [left|right]; eauto.
  - destruct (buf_suffix m L 0 Hb ltac:(lia)) as [Es _]. rewrite Es; cbn [bind].
    destruct (buf_strchr m L 0 61 Hb ltac:(lia) ltac:(discriminate)) as [r [Er Hp]]. rewrite Er; cbn [bind].
    destruct r as [p|].
    + destruct Hp as [_ [H2 _]].
      destruct (buf_set m L p 0 Hb ltac:(lia) ltac:(auto)) as [m1 [E1 Hb1]]. rewrite E1; cbn [bind].
      destruct (negb have_file); [right; eauto|].
      destruct (buf_cstr m1 L 0 Hb1 ltac:(lia)) as [key Ek]. rewrite Ek; cbn [bind].
      destruct (buf_suffix m1 L (p + 1) Hb1 ltac:(lia)) as [Es1 _]. rewrite Es1; cbn [bind].
      destruct (xattr_decode_ok _ _ (buf_skipn m1 L (p + 1) Hb1 ltac:(lia))) as [[v Ev]|[e Ev]]; rewrite Ev; cbn [bind];
        [left|right]; eauto.
    + destruct (buf_get m L 0 Hb ltac:(lia)) as [c0 Ec0]. rewrite Ec0; cbn [bind].
      destruct (c0 =? 35); [left|right]; eauto.
Qed.

(* ================================================================== *)
(* the statements used by Properties_C07.v: every line is l ++ [0]     *)
(* ================================================================== *)
Lemma split_line_graceful_l l sep len : len <= blen l -> graceful (split_line (l ++ [0]) sep 0 len).
Proof.
  intro H. destruct (split_line_ok (l ++ [0]) sep (blen l) 0 len (buf_app_nul l) ltac:(lia)) as [[e E]|[m' [a [E _]]]];
    rewrite E; done_graceful.
Qed.

Lemma trim_graceful_l l : graceful (trim (l ++ [0]) 0).
Proof.
  destruct (trim_ok (l ++ [0]) (blen l) 0 (buf_app_nul l) ltac:(lia)) as [m' [E _]]. rewrite E. done_graceful.
Qed.

Lemma sort_line_graceful_l l : graceful (sort_line (l ++ [0])).
Proof. apply oe_graceful. apply (sort_line_ok _ (blen l)). apply buf_app_nul. Qed.

Lemma xattr_decode_graceful_l l : graceful (xattr_decode (l ++ [0])).
Proof. apply oe_graceful. apply (xattr_decode_ok _ (blen l)). apply buf_app_nul. Qed.

Lemma xattr_line_graceful_l l have_file : graceful (xattr_line (l ++ [0]) have_file).
Proof. apply oe_graceful. apply (xattr_line_ok _ (blen l)). apply buf_app_nul. Qed.

(* the contract of split_line is needed: with no byte behind the len bytes the terminator of the last
   argument is stored outside the buffer *)
Lemma split_line_contract_needed : split_line [97] [32] 0 1 = Crash.
Proof. vm_compute. reflexivity. Qed.
