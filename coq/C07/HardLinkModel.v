(* C07 (1) — hard-link resolution: lib/fstree/src/hardlink.c (resolve_link,
   fstree_resolve_hard_links) and the part of lib/fstree/src/fstree.c that builds the tree
   (fstree_init, child_by_name, insert_sorted, mknode, fstree_get_node_by_path, fstree_add_generic).

   The heap of tree_node_t objects is a [list node]; a pointer is an index into it; the root is
   pointer 0.  Every dereference goes through [deref] (= Res.lget): a pointer outside the heap is
   [Crash].  The per-directory linked list (children / next) and the list of unresolved links
   (links_unresolved / next_by_type) are finite [list ptr]s in the order of the C lists.

   The union [data] of tree_node_t is the sum type [nkind]:
     KDir ch     S_ISDIR(mode), data.children = ch
     KLinkU t    S_ISLNK(mode) && FLAG_LINK_IS_HARD, FLAG_LINK_RESOVED clear, data.target = t
     KLinkR p    the same with FLAG_LINK_RESOVED set, data.target_node = p
     KOther      anything else (regular file, symlink, device, fifo, socket)

   [resolve_link] takes [mh : option N]:
     Some m   the code as it is now (fix F11, props/C07/fixes/F11-hardlink-cycle.patch, is in /repo):
              the walk gives up with EMLINK once it has followed m links
     None     the code as it was before F11 (no bound; only "node == start" is tested); kept for
              hardlink_cycle_refuted
   Definitions only; proofs are in HardLinkProofs.v. *)
From Coq Require Import List NArith Bool.
From SqfsV Require Import C07.Res C07.GenC07 C18.CanonModel.
Import ListNotations.
Local Open Scope N_scope.

Definition ptr := nat.

Inductive nkind :=
| KDir (children : list ptr)
| KLinkU (target : list N)
| KLinkR (tgt : ptr)
| KOther.

Record node := mkNode {
  n_name : list N;
  n_kind : nkind;
  n_links : N;          (* link_count *)
  n_implicit : bool     (* FLAG_DIR_CREATED_IMPLICITLY *)
}.

Record fstree := mkFs {
  heap : list node;
  unresolved : list ptr   (* fs->links_unresolved, head first *)
}.

Definition deref (h : list node) (p : ptr) : res node := lget h p.

Definition set_kind (n : node) (k : nkind) : node := mkNode (n_name n) k (n_links n) (n_implicit n).
Definition set_links (n : node) (l : N) : node := mkNode (n_name n) (n_kind n) l (n_implicit n).

Definition link_max : N := 4294967295.   (* 0xFFFFFFFF in mknode / resolve_link *)

(* ------------------------------------------------------------------ *)
(* child_by_name: first child whose name is exactly [name]             *)
(* ------------------------------------------------------------------ *)
Fixpoint child_by_name (h : list node) (ch : list ptr) (name : list N) : res (option ptr) :=
  match ch with
  | [] => Ok None
  | c :: r =>
    do n <- deref h c;
    if bytes_eqb (n_name n) name then Ok (Some c) else child_by_name h r name
  end.

(* "while ( *path == '/') ++path" *)
Fixpoint skip_slashes (p : list N) : list N :=
  match p with
  | c :: r => if c =? slash then skip_slashes r else p
  | [] => []
  end.

(* ------------------------------------------------------------------ *)
(* fstree_get_node_by_path(fs, root, path, false, false)               *)
(* ------------------------------------------------------------------ *)
Fixpoint lookup (fuel : nat) (h : list node) (cur : ptr) (path : list N) : res ptr :=
  match fuel with
  | O => OutOfFuel
  | S f =>
    match path with
    | [] => Ok cur
    | _ :: _ =>
      let p1 := skip_slashes path in
      do n <- deref h cur;
      match n_kind n with
      | KDir ch =>
        let (comp, rest) := copy_comp p1 in          (* strchr(path,'/') / strlen *)
        do c <- child_by_name h ch comp;
        match c with
        | None => Err c_ENOENT
        | Some c' => lookup f h c' rest
        end
      | _ => Err c_ENOTDIR
      end
    end
  end.

Definition lookup_path (h : list node) (path : list N) : res ptr :=
  lookup (S (length path)) h 0%nat path.

(* ------------------------------------------------------------------ *)
(* resolve_link                                                        *)
(* ------------------------------------------------------------------ *)
Definition hops_exhausted (mh : option N) (hops : N) : bool :=
  match mh with
  | Some m => m <=? hops          (* "if (hops++ >= max_hops)" of the repaired code *)
  | None => false                 (* unpatched code: no such test *)
  end.

(* the for(;;) loop: returns the node the walk stops at *)
Fixpoint rl_walk (fuel : nat) (h : list node) (start cur : ptr) (hops : N) (mh : option N) : res ptr :=
  match fuel with
  | O => OutOfFuel
  | S f =>
    do n <- deref h cur;
    match n_kind n with
    | KLinkU t =>
      if hops_exhausted mh hops then Err c_EMLINK else
      do nx <- lookup_path h t;
      if Nat.eqb nx start then Err c_EMLINK else rl_walk f h start nx (hops + 1) mh
    | KLinkR p =>
      if hops_exhausted mh hops then Err c_EMLINK else
      if Nat.eqb p start then Err c_EMLINK else rl_walk f h start p (hops + 1) mh
    | _ => Ok cur
    end
  end.

(* the part after the loop *)
Definition rl_commit (h : list node) (start tgt : ptr) : res (list node) :=
  do t <- deref h tgt;
  match n_kind t with
  | KDir _ => Err c_EPERM
  | _ =>
    if n_links t =? link_max then Err c_EMLINK else
    do s <- deref h start;
    (* start->flags |= FLAG_LINK_RESOVED; start->data.target_node = node;
       for a node that is not a hard link (never the case for a list built by mknode) the mode
       stays what it was, so the node is still "not a hard link" for every later test *)
    let s' := match n_kind s with
              | KLinkU _ | KLinkR _ => set_kind s (KLinkR tgt)
              | _ => s
              end in
    do h1 <- lset h start s';
    do t1 <- deref h1 tgt;
    lset h1 tgt (set_links t1 (n_links t1 + 1))
  end.

Definition resolve_link (fuel : nat) (h : list node) (start : ptr) (mh : option N) : res (list node) :=
  do tgt <- rl_walk fuel h start start 0 mh;
  rl_commit h start tgt.

(* ------------------------------------------------------------------ *)
(* fstree_resolve_hard_links                                           *)
(* ------------------------------------------------------------------ *)
Fixpoint resolve_loop (fuel : nat) (h : list node) (l : list ptr) (mh : option N) : res (list node) :=
  match l with
  | [] => Ok h
  | n :: r => do h' <- resolve_link fuel h n mh; resolve_loop fuel h' r mh
  end.

(* repaired code: max_hops = 1 + length of links_unresolved, counted once.
   Fuel of every walk: max_hops + 1 loop iterations (max_hops follows + the final test). *)
Definition max_hops_of (fs : fstree) : N := N.of_nat (length (unresolved fs)) + 1.

Definition resolve_all (fs : fstree) : res (list node) :=
  let m := max_hops_of fs in
  resolve_loop (S (N.to_nat m)) (heap fs) (unresolved fs) (Some m).

(* the unpatched code, with an arbitrary loop budget per walk *)
Definition resolve_all_old (fuel : nat) (fs : fstree) : res (list node) :=
  resolve_loop fuel (heap fs) (unresolved fs) None.

(* ------------------------------------------------------------------ *)
(* building the tree: fstree_init / fstree_add_generic                 *)
(* ------------------------------------------------------------------ *)
Inductive ekind :=
| EDir                       (* S_ISDIR(ent->mode) *)
| EHard (target : list N)    (* SQFS_DIR_ENTRY_FLAG_HARD_LINK, extra = target *)
| EOther.                    (* file / symlink / device / ... (extra irrelevant here) *)

Record entry := mkEntry { e_name : list N; e_kind : ekind }.

Definition fs_init : fstree :=
  mkFs [mkNode [] (KDir []) 2 true] [].

(* insert_sorted: before the first child whose name is not strcmp-smaller *)
Fixpoint insert_sorted (h : list node) (ch : list ptr) (name : list N) (p : ptr) : res (list ptr) :=
  match ch with
  | [] => Ok [p]
  | c :: r =>
    do n <- deref h c;
    if bytes_ltb (n_name n) name then do r' <- insert_sorted h r name p; Ok (c :: r')
    else Ok (p :: ch)
  end.

(* mknode(fs, parent, name, len, extra, ent) *)
Definition mknode (fs : fstree) (parent : ptr) (name : list N) (k : ekind) (implicit : bool) : res (fstree * ptr) :=
  do kind <- match k with
             | EDir => Ok (KDir [])
             | EHard t => match canon_result t with
                          | Some t' => Ok (KLinkU t')
                          | None => Err c_EINVAL
                          end
             | EOther => Ok KOther
             end;
  do pn <- deref (heap fs) parent;
  if n_links pn =? link_max then Err c_EMLINK else
  match n_kind pn with
  | KDir ch =>
    let p := length (heap fs) in
    let nn := mkNode name kind (match k with EDir => 2 | _ => 1 end) implicit in
    let h1 := heap fs ++ [nn] in
    do ch' <- insert_sorted h1 ch name p;
    do h2 <- lset h1 parent (mkNode (n_name pn) (KDir ch') (n_links pn + 1) (n_implicit pn));
    Ok (mkFs h2 (match k with EHard _ => p :: unresolved fs | _ => unresolved fs end), p)
  | _ => Crash   (* insert_sorted on a non-directory: type confusion on the data union *)
  end.

(* strchr(path,'/') != NULL is CanonModel.has_slash *)

(* fstree_get_node_by_path(fs, root, path, true, true): returns the (would-be) parent *)
Fixpoint get_parent (fuel : nat) (fs : fstree) (cur : ptr) (path : list N) : res (fstree * ptr) :=
  match fuel with
  | O => OutOfFuel
  | S f =>
    match path with
    | [] => Ok (fs, cur)
    | _ :: _ =>
      let p1 := skip_slashes path in
      do n <- deref (heap fs) cur;
      match n_kind n with
      | KDir ch =>
        if negb (has_slash p1) then Ok (fs, cur)        (* end == NULL && stop_at_parent: break *)
        else
          let (comp, rest) := copy_comp p1 in
          do c <- child_by_name (heap fs) ch comp;
          match c with
          | Some c' => get_parent f fs c' rest
          | None =>
            do r <- mknode fs cur comp EDir true;
            let (fs', c') := r in get_parent f fs' c' rest
          end
      | _ => Err c_ENOTDIR
      end
    end
  end.

(* strrchr(name,'/') + 1, or the whole name *)
Fixpoint last_comp_go (p acc : list N) : list N :=
  match p with
  | [] => acc
  | c :: r => if c =? slash then last_comp_go r [] else last_comp_go r (acc ++ [c])
  end.
Definition last_comp (p : list N) : list N := last_comp_go p [].

Definition add_generic (fs : fstree) (e : entry) : res fstree :=
  let existing (fs : fstree) (child : ptr) : res fstree :=
    do cn <- deref (heap fs) child;
    match n_kind cn, e_kind e with
    | KDir ch, EDir =>
      if n_implicit cn then
        do h' <- lset (heap fs) child (mkNode (n_name cn) (KDir ch) (n_links cn) false);
        Ok (mkFs h' (unresolved fs))
      else Err c_EEXIST
    | _, _ => Err c_EEXIST
    end in
  match e_name e with
  | [] => existing fs 0%nat
  | _ :: _ =>
    do r <- get_parent (S (length (e_name e))) fs 0%nat (e_name e);
    let (fs1, parent) := r in
    let name := last_comp (e_name e) in
    do pn <- deref (heap fs1) parent;
    match n_kind pn with
    | KDir ch =>
      do c <- child_by_name (heap fs1) ch name;
      match c with
      | Some child => existing fs1 child
      | None => do r2 <- mknode fs1 parent name (e_kind e) false; Ok (fst r2)
      end
    | _ => Crash   (* child_by_name reads data.children of a non-directory *)
    end
  end.

Fixpoint build_from (fs : fstree) (es : list entry) : res fstree :=
  match es with
  | [] => Ok fs
  | e :: r => do fs' <- add_generic fs e; build_from fs' r
  end.

Definition build (es : list entry) : res fstree := build_from fs_init es.

(* tar2sqfs / gensquashfs as far as the tree is concerned: add every entry, then post-process *)
Definition build_and_resolve (es : list entry) : res (list node) :=
  do fs <- build es; resolve_all fs.
