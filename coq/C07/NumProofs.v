(* C07 — safety / termination of the small decoders of NumModel.v.
   The recurring hypothesis [In 0 s]: the suffix the C pointer walks over contains a NUL (the
   terminator the callers guarantee); every scanning loop stops there at the latest. *)
From Coq Require Import List NArith ZArith Bool Lia ZifyBool ZifyNat ZifyN.
From SqfsV Require Import C07.Res C07.ResLemmas C07.NumModel.
Import ListNotations.
Local Open Scope N_scope.
Ltac Zify.zify_post_hook ::= Z.div_mod_to_equations.

Lemma isdigit_0 : c_isdigit 0 = false. Proof. reflexivity. Qed.
Lemma isspace_0 : c_isspace 0 = false. Proof. reflexivity. Qed.
Lemma isxdigit_0 : c_isxdigit 0 = false. Proof. reflexivity. Qed.

(* ---------------- number.c ---------------- *)
Lemma octal_go_shape s acc : (exists v, octal_go s acc = Ok v) \/ (exists e, octal_go s acc = Err e).
Proof.
  revert acc; induction s as [|c r IH]; intro acc; simpl; [left; eauto|].
  destruct ((48 <=? c) && (c <=? 55)); [|left; eauto].
  destruct (2305843009213693951 <? acc); [right; eauto|apply IH].
Qed.

Lemma binary_go_shape s acc : (exists v, binary_go s acc = Ok v) \/ (exists e, binary_go s acc = Err e).
Proof.
  revert acc; induction s as [|c r IH]; intro acc; simpl; [left; eauto|].
  destruct (((acc / 72057594037927936) mod 256 =? 0) || ((acc / 72057594037927936) mod 256 =? 255));
    [apply IH|right; eauto].
Qed.

Lemma read_number_shape f : f <> [] ->
  (exists v, read_number f = Ok v) \/ (exists e, read_number f = Err e).
Proof.
  destruct f as [|c r]; [congruence|]. intros _. unfold read_number.
  destruct (128 <=? c).
  - unfold read_binary. destruct (c =? 255); [apply binary_go_shape|].
    destruct ((7 <? N.of_nat (length r)) && negb (c mod 128 =? 0)); [right; eauto|apply binary_go_shape].
  - unfold read_octal. apply octal_go_shape.
Qed.

Lemma read_number_graceful f : f <> [] -> graceful (read_number f).
Proof.
  intro H. destruct (read_number_shape f H) as [[v E]|[e E]]; rewrite E; split; discriminate.
Qed.

(* ---------------- parse_int.c ---------------- *)
(* what a successful scan leaves behind: the rest is a suffix that still holds the NUL *)
Lemma parse_go_safe : forall s len base acc diff,
  In 0 s ->
  (exists v d rest len', parse_go s len base acc diff = Ok (v, d, rest, len') /\
     In 0 rest /\ rest = skipn (N.to_nat (d - diff)) s /\ diff <= d /\ (N.to_nat (d - diff) < length s)%nat) \/
  (exists e, parse_go s len base acc diff = Err e).
Proof.
  induction s as [|c r IH]; intros len base acc diff Hin; [destruct Hin|].
  assert (Hstop : exists v d rest len', Ok (acc, diff, c :: r, len) = Ok (v, d, rest, len') /\
            In 0 rest /\ rest = skipn (N.to_nat (d - diff)) (c :: r) /\ diff <= d /\
            (N.to_nat (d - diff) < length (c :: r))%nat).
  { exists acc, diff, (c :: r), len. rewrite N.sub_diag. simpl. repeat split; auto; lia. }
  cbn [parse_go]. destruct (len =? 0); [left; exact Hstop|].
  destruct (c_isdigit c) eqn:Ed; [|left; exact Hstop].
  destruct (base <=? c - 48); [left; exact Hstop|].
  destruct (u64max / base <=? acc); [right; eauto|].
  destruct (u64max - (c - 48) <? acc * base); [right; eauto|].
  assert (Hin' : In 0 r).
  { destruct Hin as [E|Hr]; [subst c; rewrite isdigit_0 in Ed; discriminate|exact Hr]. }
  destruct (IH (len - 1) base (acc * base + (c - 48)) (diff + 1) Hin')
    as [[v [d [rest [len' [E [H1 [H2 [H3 H4]]]]]]]]|[e E]]; [left|right; eauto].
  exists v, d, rest, len'. split; [exact E|]. split; [exact H1|].
  replace (N.to_nat (d - diff)) with (S (N.to_nat (d - (diff + 1)))) by lia.
  simpl. repeat split; auto; lia.
Qed.

Lemma parse_safe s len whole base vmin vmax :
  In 0 s ->
  (exists v d, parse s len whole base vmin vmax = Ok (v, d) /\ In 0 (skipn (N.to_nat d) s) /\
               (N.to_nat d < length s)%nat) \/
  (exists e, parse s len whole base vmin vmax = Err e).
Proof.
  intro Hin. unfold parse. destruct (len =? 0); [right; eauto|].
  destruct s as [|c r]; [destruct Hin|].
  destruct (c_isdigit c); cbn [negb]; [|right; eauto].
  destruct (parse_go_safe (c :: r) len base 0 0 Hin)
    as [[v [d [rest [len' [E [H1 [H2 [H3 H4]]]]]]]]|[e E]]; rewrite E; cbn [bind]; [|right; eauto].
  rewrite N.sub_0_r in H2, H4.
  destruct ((vmin <? vmax) && ((v <? vmin) || (vmax <? v))); [right; eauto|].
  destruct (whole && negb (len' =? 0)).
  - destruct rest as [|c' r']; [destruct H1|].
    destruct (c' =? 0); [left|right; eauto].
    exists v, d. rewrite <- H2. auto.
  - left. exists v, d. rewrite <- H2. auto.
Qed.

Lemma parse_graceful s len whole base vmin vmax : In 0 s -> graceful (parse s len whole base vmin vmax).
Proof.
  intro H. destruct (parse_safe s len whole base vmin vmax H) as [[v [d [E _]]]|[e E]];
    rewrite E; split; discriminate.
Qed.

Lemma parse_int_graceful s len whole : In 0 s -> graceful (parse_int s len whole).
Proof.
  intro Hin. unfold parse_int.
  destruct s as [|c r]; [destruct Hin|].
  assert (Hng : exists ng, (if len =? 0 then Ok false else Ok (c =? 45)) = Ok ng /\ (ng = true -> c = 45)).
  { destruct (len =? 0); [exists false; split; [reflexivity|discriminate]|].
    exists (c =? 45). split; [reflexivity|]. intro E. apply N.eqb_eq. exact E. }
  destruct Hng as [ng [E Hc]]. rewrite E; cbn [bind].
  assert (Hin1 : In 0 (if ng then tl (c :: r) else c :: r)).
  { destruct ng; [|exact Hin]. simpl. destruct Hin as [E0|Hr]; [|exact Hr].
    rewrite (Hc eq_refl) in E0. discriminate. }
  unfold parse_uint.
  destruct (parse_safe _ (if ng then len - 1 else len) whole 10 0 0 Hin1) as [[v [d [Ep _]]]|[e Ep]];
    rewrite Ep; cbn [bind]; [|split; discriminate].
  destruct (9223372036854775807 <=? v); [split; discriminate|].
  destruct ng; split; discriminate.
Qed.

(* ---------------- span_count / strtol ---------------- *)
Lemma span_count_safe p : p 0 = false -> forall s, In 0 s ->
  exists n, span_count p s = Ok n /\ (N.to_nat n < length s)%nat /\ In 0 (skipn (N.to_nat n) s) /\
            (forall c, lget s (N.to_nat n) = Ok c -> p c = false).
Proof.
  intros Hp s; induction s as [|c r IH]; intro Hin; [destruct Hin|].
  simpl. destruct (p c) eqn:Ec.
  - assert (Hr : In 0 r) by (destruct Hin as [E|Hr]; [subst c; congruence|exact Hr]).
    destruct (IH Hr) as [n [E [H1 [H2 H3]]]]. rewrite E; cbn [bind].
    exists (n + 1). replace (N.to_nat (n + 1)) with (S (N.to_nat n)) by lia. simpl.
    repeat split; auto; lia.
  - exists 0. simpl. repeat split; auto; try lia. intros c' H; inversion H; subst; exact Ec.
Qed.

Lemma strtol10_safe s : In 0 s ->
  exists v consumed, strtol10 s = Ok (v, consumed) /\ (N.to_nat consumed < length s)%nat.
Proof.
  intro Hin. unfold strtol10.
  destruct (span_count_safe c_isspace isspace_0 s Hin) as [nsp [E [H1 [H2 H3]]]].
  rewrite E; cbn [bind].
  remember (skipn (N.to_nat nsp) s) as s1 eqn:Es1.
  assert (Hlen1 : (length s1 = length s - N.to_nat nsp)%nat) by (subst s1; apply skipn_length).
  destruct s1 as [|c r]; [destruct H2|].
  set (sign := (c =? 45) || (c =? 43)).
  assert (Hin2 : In 0 (if sign then r else c :: r)).
  { destruct sign eqn:Esg; [|exact H2].
    destruct H2 as [E0|Hr]; [|exact Hr]. subst c. discriminate. }
  destruct (span_count_safe c_isdigit isdigit_0 _ Hin2) as [nd [E2 [H4 _]]].
  rewrite E2; cbn [bind].
  destruct (nd =? 0); [exists 0%Z, 0; split; [reflexivity|]; change (N.to_nat 0) with 0%nat; lia|].
  assert (Hlen2 : (N.to_nat (nsp + (if sign then 1 else 0) + nd) < length s)%nat).
  { destruct sign; simpl in H4, Hlen1; lia. }
  destruct (c =? 45); eexists; eexists; split; try reflexivity; exact Hlen2.
Qed.

(* ---------------- hex_decode ---------------- *)
Lemma hex_go_graceful : forall fuel s in_sz out_sz acc,
  in_sz <= N.of_nat (length s) -> (N.to_nat (in_sz / 2) < fuel)%nat ->
  exists l ok, hex_go fuel s in_sz out_sz acc = Ok (l, ok).
Proof.
  induction fuel as [|f IH]; intros s in_sz out_sz acc Hlen Hf; [lia|].
  cbn [hex_go]. destruct ((0 <? out_sz) && (2 <=? in_sz)) eqn:Ec; [|eauto].
  apply andb_true_iff in Ec. destruct Ec as [_ E2]. apply N.leb_le in E2.
  destruct s as [|a s1]; [simpl in Hlen; lia|].
  destruct (c_isxdigit a); [|eauto].
  destruct s1 as [|b s2]; [simpl in Hlen; lia|].
  destruct (c_isxdigit b); [|eauto].
  apply IH.
  - simpl in Hlen. lia.
  - assert (in_sz / 2 = (in_sz - 2) / 2 + 1).
    { replace in_sz with ((in_sz - 2) + 1 * 2) at 1 by lia. rewrite N.div_add by discriminate. reflexivity. }
    lia.
Qed.

Lemma hex_decode_graceful s in_sz out_sz : in_sz <= N.of_nat (length s) -> graceful (hex_decode s in_sz out_sz).
Proof.
  intro H. unfold hex_decode.
  destruct (hex_go_graceful (S (N.to_nat (in_sz / 2))) s in_sz out_sz [] H ltac:(lia)) as [l [ok E]].
  rewrite E. split; discriminate.
Qed.

(* ---------------- bget / bset on N indices ---------------- *)
Lemma bget_lt b i : i < N.of_nat (length b) -> exists x, bget b i = Ok x.
Proof. intro H. unfold bget. apply lget_lt. lia. Qed.

Lemma bset_lt b i v : i < N.of_nat (length b) -> exists b', bset b i v = Ok b' /\ length b' = length b.
Proof.
  intro H. unfold bset. destruct (lset_lt b (N.to_nat i) v ltac:(lia)) as [b' E].
  exists b'. split; [exact E|]. apply (lset_ok_length _ _ _ _ E).
Qed.

Lemma bset_get_same b i v b' : bset b i v = Ok b' -> bget b' i = Ok v.
Proof. unfold bset, bget. apply lset_get_same. Qed.

Lemma bset_get_other b i j v b' : bset b i v = Ok b' -> i <> j -> bget b' j = bget b j.
Proof. unfold bset, bget. intros H Hij. eapply lset_get_other; eauto. lia. Qed.

(* ---------------- base64_decode ---------------- *)
(* every access stays inside [ip, ip+in_len) resp. [op, op+cap): memory of constant length,
   nothing outside the output window changes *)
Definition b64_post (m : list N) (ip in_len op cap count : N)
  (r : list N * option N * N * N) : Prop :=
  let '(m', oc, ip', len') := r in
  length m' = length m /\ ip' + len' = ip + in_len /\ len' <= in_len /\
  (match oc with Some c => (c <= cap \/ c = count) /\ len' < 4 | None => True end) /\
  (forall j, j < op \/ op + cap <= j -> bget m' j = bget m j).

Lemma b64_go_safe : forall fuel m ip in_len op cap count,
  ip + in_len <= N.of_nat (length m) -> op + cap <= N.of_nat (length m) ->
  (N.to_nat (in_len / 4) < fuel)%nat ->
  exists r, b64_go fuel m ip in_len op cap count = Ok r /\ b64_post m ip in_len op cap count r.
Proof.
  induction fuel as [|f IH]; intros m ip in_len op cap count Hi Ho Hf; [lia|].
  cbn [b64_go]. destruct (4 <=? in_len) eqn:E4.
  2:{ apply N.leb_gt in E4. exists (m, Some count, ip, in_len). split; [reflexivity|].
      unfold b64_post. repeat split; auto; lia. }
  apply N.leb_le in E4.
  destruct (bget_lt m ip ltac:(lia)) as [c1 E1]. rewrite E1; cbn [bind].
  destruct (bget_lt m (ip + 1) ltac:(lia)) as [c2 E2]. rewrite E2; cbn [bind].
  destruct (bget_lt m (ip + 2) ltac:(lia)) as [c3 E3]. rewrite E3; cbn [bind].
  destruct (bget_lt m (ip + 3) ltac:(lia)) as [c4 E5]. rewrite E5; cbn [bind].
  assert (Hfail : forall mm : list N, length mm = length m ->
     (forall j, j < op \/ op + cap <= j -> bget mm j = bget m j) ->
     exists r, Ok (mm, @None N, ip + 4, in_len - 4) = Ok r /\ b64_post m ip in_len op cap count r).
  { intros mm Hm Hfr. exists (mm, None, ip + 4, in_len - 4). split; [reflexivity|].
    unfold b64_post. repeat split; auto; lia. }
  destruct (base64_digit c1) as [i1|]; [|apply Hfail; auto].
  destruct (base64_digit c2) as [i2|]; [|apply Hfail; auto].
  destruct (cap <=? count) eqn:Ec0; [apply Hfail; auto|]. apply N.leb_gt in Ec0.
  destruct (bset_lt m (op + count) ((i1 * 4 + i2 / 16) mod 256) ltac:(lia)) as [m1 [Em1 Hl1]].
  rewrite Em1; cbn [bind].
  assert (Hfr1 : forall j, j < op \/ op + cap <= j -> bget m1 j = bget m j).
  { intros j Hj. apply (bset_get_other _ _ _ _ _ Em1). lia. }
  destruct (is_pad c3).
  { destruct (negb (is_pad c4) || (0 <? in_len - 4)) eqn:Ep; [apply Hfail; auto|].
    apply orb_false_iff in Ep. destruct Ep as [_ Ep]. apply N.ltb_ge in Ep.
    exists (m1, Some (count + 1), ip + 4, in_len - 4). split; [reflexivity|].
    unfold b64_post. repeat split; auto; try lia; try (left; lia). }
  destruct (base64_digit c3) as [i3|]; [|apply Hfail; auto].
  destruct (cap <=? count + 1) eqn:Ec1; [apply Hfail; auto|]. apply N.leb_gt in Ec1.
  destruct (bset_lt m1 (op + (count + 1)) (((i2 mod 16) * 16 + i3 / 4) mod 256) ltac:(lia)) as [m2 [Em2 Hl2]].
  rewrite Em2; cbn [bind].
  assert (Hfr2 : forall j, j < op \/ op + cap <= j -> bget m2 j = bget m j).
  { intros j Hj. rewrite (bset_get_other _ _ _ _ _ Em2); [auto|lia]. }
  destruct (is_pad c4).
  { destruct (0 <? in_len - 4) eqn:Ep; [apply Hfail; auto; lia|]. apply N.ltb_ge in Ep.
    exists (m2, Some (count + 1 + 1), ip + 4, in_len - 4). split; [reflexivity|].
    unfold b64_post. repeat split; auto; try lia; try (left; lia). }
  destruct (base64_digit c4) as [i4|]; [|apply Hfail; auto; lia].
  destruct (cap <=? count + 1 + 1) eqn:Ec2; [apply Hfail; auto; lia|]. apply N.leb_gt in Ec2.
  destruct (bset_lt m2 (op + (count + 1 + 1)) (((i3 mod 4) * 64 + i4) mod 256) ltac:(lia)) as [m3 [Em3 Hl3]].
  rewrite Em3; cbn [bind].
  assert (Hfr3 : forall j, j < op \/ op + cap <= j -> bget m3 j = bget m j).
  { intros j Hj. rewrite (bset_get_other _ _ _ _ _ Em3); [auto|lia]. }
  destruct (IH m3 (ip + 4) (in_len - 4) op cap (count + 1 + 1 + 1)) as [[[[m' oc] ip'] len'] [E HP]].
  - lia.
  - lia.
  - assert (in_len / 4 = (in_len - 4) / 4 + 1).
    { replace in_len with ((in_len - 4) + 1 * 4) at 1 by lia. rewrite N.div_add by discriminate. reflexivity. }
    lia.
  - exists (m', oc, ip', len'). split; [exact E|].
    unfold b64_post in *. destruct HP as [H1 [H2 [H3 [H4 H5]]]].
    repeat split; try lia.
    + destruct oc as [c|]; [|exact I]. destruct H4 as [[Hc|Hc] Hl]; split; auto; left; lia.
    + intros j Hj. rewrite (H5 j Hj). auto.
Qed.

Lemma base64_decode_safe m ip in_len op cap :
  ip + in_len <= N.of_nat (length m) -> op + cap <= N.of_nat (length m) ->
  exists m' oc, base64_decode m ip in_len op cap = Ok (m', oc) /\ length m' = length m /\
    (match oc with Some c => c <= cap | None => True end) /\
    (forall j, j < op \/ op + cap <= j -> bget m' j = bget m j).
Proof.
  intros Hi Ho. unfold base64_decode.
  destruct (b64_go_safe (S (N.to_nat (in_len / 4))) m ip in_len op cap 0 Hi Ho ltac:(lia))
    as [[[[m1 oc] ip1] len1] [E HP]].
  rewrite E; cbn [bind]. unfold b64_post in HP. destruct HP as [Hl [Hs [Hle [Hoc Hfr]]]].
  destruct oc as [count|]; [|exists m1, None; auto].
  destruct Hoc as [Hc Hl4].
  assert (Hcount : count <= cap) by (destruct Hc; lia).
  destruct (0 <? len1) eqn:E0; [|exists m1, (Some count); auto].
  apply N.ltb_lt in E0.
  destruct (len1 =? 1) eqn:E1; [exists m1, None; auto|]. apply N.eqb_neq in E1.
  destruct (bget_lt m1 ip1 ltac:(lia)) as [c1 G1]. rewrite G1; cbn [bind].
  destruct (bget_lt m1 (ip1 + 1) ltac:(lia)) as [c2 G2]. rewrite G2; cbn [bind].
  destruct (base64_digit c1) as [i1|]; [|exists m1, None; auto].
  destruct (base64_digit c2) as [i2|]; [|exists m1, None; auto].
  destruct (cap <=? count) eqn:Ec0; [exists m1, None; auto|]. apply N.leb_gt in Ec0.
  destruct (bset_lt m1 (op + count) ((i1 * 4 + i2 / 16) mod 256) ltac:(lia)) as [m2 [Em2 Hl2]].
  rewrite Em2; cbn [bind].
  assert (Hfr2 : forall j, j < op \/ op + cap <= j -> bget m2 j = bget m j).
  { intros j Hj. rewrite (bset_get_other _ _ _ _ _ Em2); [auto|lia]. }
  destruct (0 <? len1 - 2) eqn:E2; [|exists m2, (Some (count + 1)); repeat split; auto; lia].
  apply N.ltb_lt in E2.
  destruct (bget_lt m2 (ip1 + 2) ltac:(lia)) as [c3 G3]. rewrite G3; cbn [bind].
  destruct (is_pad c3); [exists m2, (Some (count + 1)); repeat split; auto; lia|].
  destruct (base64_digit c3) as [i3|]; [|exists m2, None; repeat split; auto; lia].
  destruct (cap <=? count + 1) eqn:Ec1; [exists m2, None; repeat split; auto; lia|]. apply N.leb_gt in Ec1.
  destruct (bset_lt m2 (op + count + 1) (((i2 mod 16) * 16 + i3 / 4) mod 256) ltac:(lia)) as [m3 [Em3 Hl3]].
  rewrite Em3; cbn [bind].
  exists m3, (Some (count + 2)). repeat split; auto; try lia.
  intros j Hj. rewrite (bset_get_other _ _ _ _ _ Em3); [auto|lia].
Qed.

Lemma base64_decode_graceful m ip in_len op cap :
  ip + in_len <= N.of_nat (length m) -> op + cap <= N.of_nat (length m) ->
  graceful (base64_decode m ip in_len op cap).
Proof.
  intros Hi Ho. destruct (base64_decode_safe m ip in_len op cap Hi Ho) as [m' [oc [E _]]].
  rewrite E. split; discriminate.
Qed.

(* ---------------- urldecode ---------------- *)
Lemma url_go_safe : forall fuel m ip op z,
  op <= ip -> ip <= z -> z < N.of_nat (length m) -> bget m z = Ok 0 ->
  (N.to_nat (z - ip) < fuel)%nat ->
  exists m', url_go fuel m ip op = Ok m' /\ length m' = length m.
Proof.
  induction fuel as [|f IH]; intros m ip op z Hop Hip Hz Hz0 Hf; [lia|].
  cbn [url_go].
  destruct (bget_lt m ip ltac:(lia)) as [x Ex]. rewrite Ex; cbn [bind].
  destruct (x =? 0) eqn:Ex0.
  { destruct (bset_lt m op 0 ltac:(lia)) as [m' [Em Hl]]. exists m'. auto. }
  apply N.eqb_neq in Ex0.
  assert (Hz1 : ip + 1 <= z).
  { destruct (N.eq_dec z ip) as [E|E]; [subst z; rewrite Ex in Hz0; inversion Hz0; congruence|lia]. }
  (* the plain copy step *)
  assert (Hcopy : exists m', (do m1 <- bset m op x; url_go f m1 (ip + 1) (op + 1)) = Ok m' /\ length m' = length m).
  { destruct (bset_lt m op x ltac:(lia)) as [m1 [Em1 Hl1]]. rewrite Em1; cbn [bind].
    destruct (IH m1 (ip + 1) (op + 1) z) as [m' [E Hl]]; try lia.
    - rewrite (bset_get_other _ _ _ _ _ Em1); [exact Hz0|lia].
    - exists m'. split; [exact E|lia]. }
  destruct (x =? 37); [|exact Hcopy].
  destruct (bget_lt m (ip + 1) ltac:(lia)) as [a Ea]. rewrite Ea; cbn [bind].
  destruct (c_isxdigit a) eqn:Exa; [|exact Hcopy].
  assert (Hz2 : ip + 2 <= z).
  { destruct (N.eq_dec z (ip + 1)) as [E|E]; [|lia].
    subst z. rewrite Ea in Hz0. inversion Hz0; subst a. rewrite isxdigit_0 in Exa. discriminate. }
  destruct (bget_lt m (ip + 2) ltac:(lia)) as [b Eb]. rewrite Eb; cbn [bind].
  destruct (c_isxdigit b) eqn:Exb; [|exact Hcopy].
  assert (Hz3 : ip + 3 <= z).
  { destruct (N.eq_dec z (ip + 2)) as [E|E]; [|lia].
    subst z. rewrite Eb in Hz0. inversion Hz0; subst b. rewrite isxdigit_0 in Exb. discriminate. }
  destruct (bset_lt m op ((xdigit a * 16 + xdigit b) mod 256) ltac:(lia)) as [m1 [Em1 Hl1]].
  rewrite Em1; cbn [bind].
  destruct (IH m1 (ip + 3) (op + 1) z) as [m' [E Hl]]; try lia.
  - rewrite (bset_get_other _ _ _ _ _ Em1); [exact Hz0|lia].
  - exists m'. split; [exact E|lia].
Qed.

Lemma urldecode_safe m base z :
  base <= z -> z < N.of_nat (length m) -> bget m z = Ok 0 ->
  exists m', urldecode m base = Ok m' /\ length m' = length m.
Proof.
  intros H1 H2 H3. unfold urldecode. apply (url_go_safe _ m base base z); auto; lia.
Qed.

Lemma bset_In b i v b' : bset b i v = Ok b' -> In v b'.
Proof.
  intro H. pose proof (bset_get_same _ _ _ _ H) as G. unfold bget in G.
  apply lget_ok_iff in G. eapply nth_error_In; eauto.
Qed.

Lemma cstr_safe s : In 0 s -> exists t, cstr s = Ok t /\ (length t < length s)%nat.
Proof.
  induction s as [|c r IH]; intro Hin; [destruct Hin|]. simpl.
  destruct (c =? 0) eqn:E; [exists []; simpl; split; [reflexivity|lia]|].
  apply N.eqb_neq in E. destruct Hin as [E0|Hr]; [congruence|].
  destruct (IH Hr) as [t [Et Hl]]. rewrite Et; cbn [bind]. exists (c :: t). simpl. split; [reflexivity|lia].
Qed.

Lemma bfrom_le b i : i <= N.of_nat (length b) -> bfrom b i = Ok (skipn (N.to_nat i) b).
Proof. intro H. unfold bfrom. replace (N.of_nat (length b) <? i) with false; [reflexivity|]. symmetry. apply N.ltb_ge. exact H. Qed.

(* a NUL at index z is in every suffix that starts at or before z *)
Lemma In_skipn_of_bget b i z : bget b z = Ok 0 -> i <= z -> In 0 (skipn (N.to_nat i) b).
Proof.
  unfold bget. intros H Hi. apply lget_ok_iff in H.
  assert (Hn : nth_error (skipn (N.to_nat i) b) (N.to_nat z - N.to_nat i) = Some 0).
  { rewrite nth_error_skipn'. replace (N.to_nat i + (N.to_nat z - N.to_nat i))%nat with (N.to_nat z) by lia. exact H. }
  eapply nth_error_In; eauto.
Qed.
