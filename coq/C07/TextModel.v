(* C07 (3) — the text side with bounds accounting:
     lib/util/src/split_line.c     split_line (in place: dst <= src)
     lib/util/src/get_line.c       ltrim / rtrim / trim
     bin/gensquashfs/src/sort_by_file.c  decode_priority, decode_flags, decode_filename
     bin/gensquashfs/src/filemap_xattr.c decode (getfattr dump values), the line dispatch
   A line is a memory [list N]: the bytes of the malloc'ed line INCLUDING its terminating NUL
   (istream_get_line always NUL-terminates).  C pointers are indices; every access is bget/bset.
   canonicalize_name (C18) is used through its proved model.
   decode_filename follows the repaired code (the unquoted name is re-terminated: "*dst = 0"). *)
From Coq Require Import List NArith ZArith Bool.
From SqfsV Require Import C07.Res C07.GenC07 C07.NumModel C18.CanonModel.
Import ListNotations.
Local Open Scope N_scope.

Definition e_quote : N := 202.      (* SPLIT_LINE_UNMATCHED_QUOTE *)
Definition e_escape : N := 203.     (* SPLIT_LINE_ESCAPE *)
Definition e_sort : N := 210.
Definition e_xattr : N := 220.

Fixpoint mem_N (c : N) (l : list N) : bool :=
  match l with [] => false | x :: r => (x =? c) || mem_N c r end.

(* is_sep(sep, c): strchr(sep, c) != NULL && c != '\0' *)
Definition is_sep (sep : list N) (c : N) : bool := mem_N c sep && negb (c =? 0).

(* ------------------------------------------------------------------ *)
(* split_line                                                          *)
(* ------------------------------------------------------------------ *)
(* "while (len > 0 && is_sep(sep, *src)) { ++src; --len; }" *)
Fixpoint skip_seps (fuel : nat) (m sep : list N) (src len : N) : res (N * N) :=
  match fuel with
  | O => OutOfFuel
  | S f =>
    if len =? 0 then Ok (src, len) else
    do c <- bget m src;
    if is_sep sep c then skip_seps f m sep (src + 1) (len - 1) else Ok (src, len)
  end.

(* the loop inside a quoted argument; returns memory, src, dst, len *)
Fixpoint quoted_loop (fuel : nat) (m : list N) (src dst len : N) : res (list N * N * N * N) :=
  match fuel with
  | O => OutOfFuel
  | S f =>
    if len =? 0 then Ok (m, src, dst, len) else
    do c <- bget m src;
    if (c =? 0) || (c =? 34) then Ok (m, src, dst, len) else
    if c =? 92 then
      if len <? 2 then Err e_escape else
      do c1 <- bget m (src + 1);
      if negb (c1 =? 34) && negb (c1 =? 92) then Err e_escape else
      do m1 <- bset m dst c1;
      quoted_loop f m1 (src + 2) (dst + 1) (len - 2)
    else
      do m1 <- bset m dst c;
      quoted_loop f m1 (src + 1) (dst + 1) (len - 1)
  end.

(* the loop of an unquoted argument *)
Fixpoint plain_loop (fuel : nat) (m sep : list N) (src dst len : N) : res (list N * N * N * N) :=
  match fuel with
  | O => OutOfFuel
  | S f =>
    if len =? 0 then Ok (m, src, dst, len) else
    do c <- bget m src;
    if is_sep sep c || (c =? 0) then Ok (m, src, dst, len) else
    do m1 <- bset m dst c;
    plain_loop f m1 sep (src + 1) (dst + 1) (len - 1)
  end.

(* the outer loop; args = offsets of the arguments (args[i] - line), in order *)
Fixpoint split_outer (fuel : nat) (m sep : list N) (src dst len : N) (args : list N) : res (list N * list N) :=
  match fuel with
  | O => OutOfFuel
  | S f =>
    if len =? 0 then Ok (m, args) else
    do c <- bget m src;
    if c =? 0 then Ok (m, args) else
    let args1 := args ++ [dst] in
    do r <-
      (if c =? 34 then
         do q <- quoted_loop (S (N.to_nat len)) m (src + 1) dst (len - 1);
         let '(m1, src1, dst1, len1) := q in
         if len1 =? 0 then Err e_quote else
         do c1 <- bget m1 src1;
         if negb (c1 =? 34) then Err e_quote else Ok (m1, src1 + 1, dst1, len1 - 1)
       else plain_loop (S (N.to_nat len)) m sep src dst len);
    let '(m2, src2, dst2, len2) := r in
    do sk <- skip_seps (S (N.to_nat len2)) m2 sep src2 len2;
    let (src3, len3) := sk in
    do m3 <- bset m2 dst2 0;
    split_outer f m3 sep src3 (dst2 + 1) len3 args1
  end.

(* split_line(line + base, len, sep, &out) *)
Definition split_line (m sep : list N) (base len : N) : res (list N * list N) :=
  do sk <- skip_seps (S (N.to_nat len)) m sep base len;
  let (src, len1) := sk in
  split_outer (S (N.to_nat len1)) m sep src base len1 [].

(* ------------------------------------------------------------------ *)
(* trim (get_line.c), on the string at m + base                        *)
(* ------------------------------------------------------------------ *)
(* strlen: number of bytes before the NUL; Crash when the scan leaves the memory *)
Definition strlen_at (m : list N) (base : N) : res N :=
  do s <- bfrom m base; span_count (fun c => negb (c =? 0)) s.

(* memmove(m + dst, m + src, n) for dst <= src (forward copy is exact) *)
Fixpoint move_down (n : nat) (m : list N) (dst src : N) : res (list N) :=
  match n with
  | O => Ok m
  | S n' => do c <- bget m src; do m1 <- bset m dst c; move_down n' m1 (dst + 1) (src + 1)
  end.

Definition ltrim (m : list N) (base : N) : res (list N) :=
  do s <- bfrom m base;
  do i <- span_count c_isspace s;
  if i =? 0 then Ok m else
  do l <- strlen_at m (base + i);
  move_down (N.to_nat (l + 1)) m base (base + i).

(* "while (i > 0 && isspace(buffer[i - 1])) --i" *)
Fixpoint rtrim_go (fuel : nat) (m : list N) (base i : N) : res N :=
  match fuel with
  | O => OutOfFuel
  | S f =>
    if i =? 0 then Ok 0 else
    do c <- bget m (base + i - 1);
    if c_isspace c then rtrim_go f m base (i - 1) else Ok i
  end.

Definition rtrim (m : list N) (base : N) : res (list N) :=
  do l <- strlen_at m base;
  do i <- rtrim_go (S (N.to_nat l)) m base l;
  bset m (base + i) 0.

Definition trim (m : list N) (base : N) : res (list N) :=
  do m1 <- ltrim m base; rtrim m1 base.

(* ------------------------------------------------------------------ *)
(* sort file lines                                                     *)
(* ------------------------------------------------------------------ *)
(* decode_priority: parse_int(line, strlen(line), &i, 0, 0, &prio), then skip the white space
   and memmove the rest to the front *)
Definition decode_priority (m : list N) : res (list N * Z) :=
  do l <- strlen_at m 0;
  match parse_int m l false with
  | Err e => Err e_sort
  | Crash => Crash
  | OutOfFuel => OutOfFuel
  | Ok (prio, i) =>
    do c <- bget m i;
    if negb (c_isspace c) then Err e_sort else
    do s <- bfrom m i;
    do k <- span_count c_isspace s;
    do c2 <- bget m (i + k);
    if c2 =? 0 then Err e_sort else
    do l2 <- strlen_at m (i + k);
    do m1 <- move_down (N.to_nat (l2 + 1)) m 0 (i + k);
    Ok (m1, prio)
  end.

(* flag words of decode_flags *)
Inductive sflag := F_glob_no_path | F_glob | F_dont_fragment | F_dont_compress | F_dont_deduplicate | F_nosparse.

Definition flag_of (w : list N) : option sflag :=
  if bytes_eqb w [103;108;111;98;95;110;111;95;112;97;116;104] then Some F_glob_no_path
  else if bytes_eqb w [103;108;111;98] then Some F_glob
  else if bytes_eqb w [100;111;110;116;95;102;114;97;103;109;101;110;116] then Some F_dont_fragment
  else if bytes_eqb w [100;111;110;116;95;99;111;109;112;114;101;115;115] then Some F_dont_compress
  else if bytes_eqb w [100;111;110;116;95;100;101;100;117;112;108;105;99;97;116;101] then Some F_dont_deduplicate
  else if bytes_eqb w [110;111;115;112;97;114;115;101] then Some F_nosparse
  else None.

Fixpoint flags_loop (m : list N) (args : list N) (acc : list sflag) : res (list N * list sflag) :=
  match args with
  | [] => Ok (m, acc)
  | a :: r =>
    do m1 <- trim m a;
    do w <- cstr_at m1 a;
    match flag_of w with
    | Some fl => flags_loop m1 r (acc ++ [fl])
    | None => Err e_sort
    end
  end.

(* position of the first c in the string (strchr), None if the NUL comes first *)
Fixpoint strchr_go (s : list N) (c : N) (i : N) : res (option N) :=
  match s with
  | [] => Crash
  | x :: r => if x =? c then Ok (Some i) else if x =? 0 then Ok None else strchr_go r c (i + 1)
  end.

Definition decode_flags (m : list N) : res (list N * list sflag) :=
  do c0 <- bget m 0;
  if negb (c0 =? 91) then Ok (m, []) else
  do s <- bfrom m 1;
  do e <- strchr_go s 93 1;
  match e with
  | None => Err e_sort
  | Some endp =>
    match split_line m [44] 1 (endp - 1) with
    | Err _ => Err e_sort
    | Crash => Crash
    | OutOfFuel => OutOfFuel
    | Ok (m1, args) =>
      do c1 <- bget m1 (endp + 1);
      if negb (c_isspace c1) then Err e_sort else
      do s2 <- bfrom m1 (endp + 1);
      do k <- span_count c_isspace s2;
      let endq := endp + 1 + k in
      do r <- flags_loop m1 args [];
      let (m2, fl) := r in
      do l <- strlen_at m2 endq;
      do m3 <- move_down (N.to_nat (l + 1)) m2 0 endq;
      Ok (m3, fl)
    end
  end.

(* decode_filename: the in-place unquoting; returns the memory, src behind the closing quote, dst *)
Fixpoint unquote_go (fuel : nat) (m : list N) (src dst : N) : res (list N * N * N) :=
  match fuel with
  | O => OutOfFuel
  | S f =>
    do c <- bget m src;
    if c =? 0 then Err e_sort else
    if c =? 34 then Ok (m, src + 1, dst) else
    if c =? 92 then
      do c1 <- bget m (src + 1);
      if (c1 =? 92) || (c1 =? 34) then
        do m1 <- bset m dst c1; unquote_go f m1 (src + 2) (dst + 1)
      else Err e_sort
    else do m1 <- bset m dst c; unquote_go f m1 (src + 1) (dst + 1)
  end.

Definition decode_filename (m : list N) : res (list N) :=
  do c0 <- bget m 0;
  do m1 <-
    (if c0 =? 34 then
       do r <- unquote_go (S (length m)) m 1 0;
       let '(m1, src, dst) := r in
       do c <- bget m1 src;
       if negb (c =? 0) then Err e_sort else
       bset m1 dst 0                      (* "*dst = '\0'" *)
     else Ok m);
  do name <- cstr_at m1 0;
  match canon_result name with
  | Some r => Ok r
  | None => Err e_sort
  end.

(* one (already trimmed, non-comment) line of the sort file: priority, flags, canonical name *)
Definition sort_line (m : list N) : res (Z * list sflag * list N) :=
  do r1 <- decode_priority m;
  let (m1, prio) := r1 in
  do r2 <- decode_flags m1;
  let (m2, fl) := r2 in
  do name <- decode_filename m2;
  Ok (prio, fl, name).

(* ------------------------------------------------------------------ *)
(* filemap_xattr.c: decode                                             *)
(* ------------------------------------------------------------------ *)
(* the escape loop of the text encoding: v, end are indices into m (value + NUL); out is the
   decoded buffer (calloc(size + 1)): a store beyond it is a Crash *)
Fixpoint xesc_go (fuel : nat) (m : list N) (v endp : N) (out : list N) (cap : N) : res (list N) :=
  match fuel with
  | O => OutOfFuel
  | S f =>
    if endp <=? v then Ok out else
    let push (c : N) (k : list N -> res (list N)) : res (list N) :=
      if cap <=? N.of_nat (length out) then Crash else k (out ++ [c mod 256]) in
    do c <- bget m v;
    if c =? 92 then
      do c1 <- bget m (v + 1);
      if (c1 =? 92) || (c1 =? 34) then push c1 (fun o => xesc_go f m (v + 2) endp o cap)
      else if (48 <=? c1) && (c1 <=? 55) then
        let d1 := c1 - 48 in
        do c2 <- bget m (v + 2);
        if (48 <=? c2) && (c2 <=? 55) then
          let d2 := d1 * 8 + (c2 - 48) in
          do c3 <- bget m (v + 3);
          if (48 <=? c3) && (c3 <=? 55) then
            push (d2 * 8 + (c3 - 48)) (fun o => xesc_go f m (v + 4) endp o cap)
          else push d2 (fun o => xesc_go f m (v + 3) endp o cap)
        else push d1 (fun o => xesc_go f m (v + 2) endp o cap)
      else push c (fun o => xesc_go f m (v + 1) endp o cap)
    else push c (fun o => xesc_go f m (v + 1) endp o cap)
  end.

Definition bslice_m (m : list N) (off len : N) : res (list N) :=
  if off + len <=? N.of_nat (length m) then Ok (firstn (N.to_nat len) (skipn (N.to_nat off) m)) else Crash.

(* decode(filename, line_num, value, &size) with size = strlen(value); m = value bytes + NUL *)
Definition xattr_decode (m : list N) : res (list N) :=
  do size <- strlen_at m 0;
  if size =? 0 then Ok [] else
  do v0 <- bget m 0;
  do v1 <- bget m 1;
  if (v0 =? 48) && ((v1 =? 120) || (v1 =? 88)) then
    let n := (size - 2) / 2 in
    do s <- bfrom m 2;
    do r <- hex_decode s (n * 2) n;
    let (bytes, ok) := r in
    if ok then Ok bytes else Err e_encoding
  else if (v0 =? 48) && ((v1 =? 115) || (v1 =? 83)) then
    let input_len := size - 2 in
    let cap := (input_len / 4) * 3 in
    (* one memory: the value, then the calloc'ed output of cap + 1 bytes *)
    let mm := m ++ repeat 0 (N.to_nat (cap + 1)) in
    do r <- base64_decode mm 2 input_len (N.of_nat (length m)) cap;
    let (m1, oc) := r in
    match oc with
    | None => Err e_encoding
    | Some cnt => bslice_m m1 (N.of_nat (length m)) cnt
    end
  else
    do cl <- bget m (size - 1);
    let quoted := (1 <? size) && (v0 =? 34) && (cl =? 34) in
    let v := if quoted then 1 else 0 in
    let endp := if quoted then size - 1 else size in
    xesc_go (S (N.to_nat size)) m v endp [] (size + 1).

(* the line dispatch of xattr_open_map_file (line already trimmed, NUL-terminated) *)
Inductive xline :=
| XL_file (path : list N)                  (* "# file: " + canonical path *)
| XL_attr (key value : list N)
| XL_comment.

Definition k_newfile : list N := [35; 32; 102; 105; 108; 101; 58; 32].   (* "# file: " *)

Fixpoint strncmp_eq (p : list N) (m : list N) (i : N) : res bool :=
  (* strncmp(p, m + i, strlen p) == 0; stops at the first difference, so never reads behind a NUL of m *)
  match p with
  | [] => Ok true
  | x :: r => do c <- bget m i; if c =? x then strncmp_eq r m (i + 1) else Ok false
  end.

Definition xattr_line (m : list N) (have_file : bool) : res xline :=
  do isnew <- strncmp_eq k_newfile m 0;
  if isnew then
    do name <- cstr_at m 8;
    match canon_result name with
    | Some r => Ok (XL_file r)
    | None => Err e_xattr
    end
  else
    do s <- bfrom m 0;
    do e <- strchr_go s 61 0;
    match e with
    | Some p =>
      do m1 <- bset m p 0;
      if negb have_file then Err e_xattr else
      do key <- cstr_at m1 0;
      do vs <- bfrom m1 (p + 1);
      do v <- xattr_decode vs;
      Ok (XL_attr key v)
    | None =>
      do c0 <- bget m 0;
      if c0 =? 35 then Ok XL_comment else Err e_xattr
    end.
