(* C07 (4) — the xattr map file reader as a whole (XattrFileModel.v): for EVERY byte string offered as the
   file and EVERY way the stream cuts it into windows
     - no Crash: no access outside a block, no free of something not allocated (double free), no use of a
       released object, nothing released that is still linked;
     - no OutOfFuel: one loop iteration per input byte suffices;
     - the reader answers a map that owns exactly the allocations still outstanding, or it refuses with every
       allocation released; releasing the map (xattr_close_map_file) releases the rest.
   The carrier is [owns t l]: the resource list of t holds exactly the ids l, without repetition.  The ids a map
   is responsible for ([map_ids]) are listed in the order in which xattr_close_map_file frees them, so that
   every allocation of the parser conses onto that list and every free takes its head. *)
From Coq Require Import List NArith ZArith Bool Arith Lia Permutation ZifyBool ZifyNat ZifyN.
From SqfsV Require Import C07.Res C07.ResLemmas C07.GenC07 C07.NumModel C07.NumProofs C07.TextModel C07.TextProofs.
From SqfsV Require Import C18.CanonModel C07.XattrFileModel.
Import ListNotations.
Local Open Scope N_scope.

(* ================================================================== *)
(* the resource list                                                   *)
(* ================================================================== *)
Definition owns (t : rtab) (l : list nat) : Prop :=
  NoDup l /\ (forall x, In x (r_live t) <-> In x l) /\ (forall x, In x l -> (x < r_next t)%nat).

Lemma is_live_iff t a : is_live t a = true <-> In a (r_live t).
Proof.
  unfold is_live. rewrite existsb_exists. split.
  - intros [x [Hin E]]. apply Nat.eqb_eq in E. subst. exact Hin.
  - intro H. exists a. split; [exact H|apply Nat.eqb_refl].
Qed.

Lemma owns_empty : owns r_empty [].
Proof. split; [constructor|]. split; [intro x; simpl; tauto|intros x []]. Qed.

Lemma owns_nil_live t : owns t [] -> r_live t = [].
Proof.
  intros [_ [H _]]. destruct (r_live t) as [|a l]; [reflexivity|].
  exfalso. apply (proj1 (H a)). left; reflexivity.
Qed.

Lemma owns_alloc t l : owns t l -> owns (fst (r_alloc t)) (snd (r_alloc t) :: l).
Proof.
  intros [Hnd [Hiff Hlt]]. simpl. split.
  - constructor; [|exact Hnd]. intro Hin. specialize (Hlt _ Hin). lia.
  - split.
    + intro x. simpl. rewrite Hiff. tauto.
    + intros x [E|Hin]; [subst; simpl; lia|]. specialize (Hlt _ Hin). simpl. lia.
Qed.

Lemma owns_use t l a : owns t l -> In a l -> r_use t a = Ok tt.
Proof.
  intros [_ [Hiff _]] Hin. unfold r_use.
  replace (is_live t a) with true; [reflexivity|]. symmetry. apply is_live_iff. apply Hiff. exact Hin.
Qed.

Lemma owns_free t a l : owns t (a :: l) -> exists t', r_free t a = Ok t' /\ owns t' l.
Proof.
  intros [Hnd [Hiff Hlt]]. unfold r_free.
  replace (is_live t a) with true by (symmetry; apply is_live_iff; apply Hiff; left; reflexivity).
  eexists. split; [reflexivity|]. inversion Hnd as [|x l' Hni Hnd']; subst. split; [exact Hnd'|]. split.
  - intro x. simpl. split.
    + intro H. apply in_remove in H. destruct H as [H Hne]. apply Hiff in H. destruct H as [E|H]; [congruence|exact H].
    + intro H. apply in_in_remove; [intro E; subst; contradiction|]. apply Hiff. right. exact H.
  - intros x Hin. simpl. apply Hlt. right. exact Hin.
Qed.

Lemma owns_perm t l l' : owns t l -> Permutation l l' -> owns t l'.
Proof.
  intros [Hnd [Hiff Hlt]] Hp. split; [eapply Permutation_NoDup; eauto|]. split.
  - intro x. rewrite Hiff. split; intro H; [eapply Permutation_in; eauto|eapply Permutation_in; [apply Permutation_sym|]; eauto].
  - intros x Hin. apply Hlt. eapply Permutation_in; [apply Permutation_sym|]; eauto.
Qed.

(* free of an id anywhere in the list *)
Lemma owns_free_mid t a l1 l2 : owns t (l1 ++ a :: l2) -> exists t', r_free t a = Ok t' /\ owns t' (l1 ++ l2).
Proof.
  intro H. apply owns_free. eapply owns_perm; [exact H|]. apply Permutation_sym. apply Permutation_middle.
Qed.

(* ================================================================== *)
(* the ids a map is responsible for, in the order of their release     *)
(* ================================================================== *)
Definition oid (o : option blk) : list nat := match o with None => [] | Some b => [b_id b] end.
Definition pat_ids (p : xpat) : list nat := map e_id (p_ents p) ++ oid (p_path p) ++ [p_id p].
Definition map_ids (m : xmap) : list nat := flat_map pat_ids (m_pats m) ++ [m_id m].

(* every pattern of the map has a NUL-terminated path *)
Definition pat_wf (p : xpat) : Prop := exists b, p_path p = Some b /\ In 0 (b_data b).
Definition map_wf (m : xmap) : Prop := Forall pat_wf (m_pats m).

Lemma free_ents_ok : forall es t F, owns t (map e_id es ++ F) -> exists t', free_ents t es = Ok t' /\ owns t' F.
Proof.
  induction es as [|e r IH]; intros t F H; [exists t; split; [reflexivity|exact H]|].
  simpl in H. cbn [free_ents]. destruct (owns_free _ _ _ H) as [t1 [E1 H1]]. rewrite E1; cbn [bind].
  apply IH. exact H1.
Qed.

Lemma close_pats_ok : forall ps t F, owns t (flat_map pat_ids ps ++ F) -> exists t', close_pats t ps = Ok t' /\ owns t' F.
Proof.
  induction ps as [|p r IH]; intros t F H; [exists t; split; [reflexivity|exact H]|].
  cbn [close_pats]. simpl flat_map in H. unfold pat_ids in H. rewrite <- !app_assoc in H.
  rewrite (owns_use _ _ (p_id p) H); [|apply in_or_app; right; apply in_or_app; right; left; reflexivity].
  cbn [bind].
  destruct (free_ents_ok _ _ _ H) as [t1 [E1 H1]]. rewrite E1; cbn [bind].
  assert (H2 : exists t2, free_opt t1 (p_path p) = Ok t2 /\ owns t2 (p_id p :: flat_map pat_ids r ++ F)).
  { destruct (p_path p) as [b|]; simpl in *; [apply owns_free; exact H1|exists t1; split; [reflexivity|exact H1]]. }
  destruct H2 as [t2 [E2 H2]]. rewrite E2; cbn [bind].
  destruct (owns_free _ _ _ H2) as [t3 [E3 H3]]. rewrite E3; cbn [bind].
  apply IH. exact H3.
Qed.

Lemma close_ok t map F : owns t (map_ids map ++ F) -> exists t', xattr_close_map_file t map = Ok t' /\ owns t' F.
Proof.
  intro H. unfold xattr_close_map_file. unfold map_ids in H. rewrite <- app_assoc in H.
  rewrite (owns_use _ _ (m_id map) H); [|apply in_or_app; right; left; reflexivity]. cbn [bind].
  destruct (close_pats_ok _ _ _ H) as [t1 [E1 H1]]. rewrite E1; cbn [bind].
  simpl in H1. apply owns_free. exact H1.
Qed.

(* ================================================================== *)
(* istream_get_line                                                    *)
(* ================================================================== *)
Lemma scan_nl_spec w : let (i, f) := scan_nl w in
  if f then (i < length w)%nat else i = length w.
Proof.
  induction w as [|c r IH]; [reflexivity|]. simpl. destruct (c =? 10); [lia|].
  destruct (scan_nl r) as [i f]. destruct f; simpl; lia.
Qed.

Lemma resize_length d n : length (resize d n) = n.
Proof. unfold resize. rewrite app_length, firstn_length, repeat_length. lia. Qed.

Lemma bwrite_ok src m off : off + N.of_nat (length src) <= N.of_nat (length m) ->
  exists m', bwrite m off src = Ok m' /\ length m' = length m.
Proof.
  intro H. unfold bwrite. replace (off + N.of_nat (length src) <=? N.of_nat (length m)) with true by (symmetry; apply N.leb_le; exact H).
  eexists. split; [reflexivity|]. rewrite !app_length, firstn_length, skipn_length. lia.
Qed.

(* strlen finds a NUL *)
Lemma span_nz_nul : forall s n, span_count (fun c => negb (c =? 0)) s = Ok n -> nth_error s (N.to_nat n) = Some 0.
Proof.
  induction s as [|c r IH]; intros n H; [discriminate|]. simpl in H.
  destruct (c =? 0) eqn:E; simpl in H.
  - inversion H; subst. apply N.eqb_eq in E. subst. reflexivity.
  - destruct (span_count (fun c => negb (c =? 0)) r) as [k| | |] eqn:Ek; simpl in H; try discriminate.
    inversion H; subst. replace (N.to_nat (k + 1)) with (S (N.to_nat k)) by lia. simpl. apply IH. reflexivity.
Qed.

Lemma strlen_nul m l : strlen_at m 0 = Ok l -> bget m l = Ok 0.
Proof.
  unfold strlen_at, bfrom. destruct (N.of_nat (length m) <? 0); [discriminate|]. cbn [bind]. simpl skipn.
  intro H. apply span_nz_nul in H. unfold bget. apply lget_ok_iff. exact H.
Qed.

Lemma nth_error_firstn' {A} : forall (l : list A) n k, (k < n)%nat -> nth_error (firstn n l) k = nth_error l k.
Proof.
  induction l as [|x l IH]; intros n k H; [rewrite firstn_nil; reflexivity|].
  destruct n; [lia|]. destruct k; [reflexivity|]. simpl. apply IH. lia.
Qed.

Lemma trim_flags_ok m L : buf_ok m L ->
  exists m' l, trim_flags m = Ok (m', l) /\ buf_ok m' L /\ l <= L /\ bget m' l = Ok 0.
Proof.
  intro Hb. unfold trim_flags.
  destruct (ltrim_ok m L 0 Hb ltac:(lia)) as [m1 [E1 Hb1]]. rewrite E1; cbn [bind].
  destruct (rtrim_ok m1 L 0 Hb1 ltac:(lia)) as [m2 [E2 Hb2]]. rewrite E2; cbn [bind].
  destruct (buf_strlen m2 L 0 Hb2 ltac:(lia)) as [l [El Hl]]. rewrite El; cbn [bind].
  exists m2, l. split; [reflexivity|]. split; [exact Hb2|]. split; [lia|]. apply strlen_nul. exact El.
Qed.

(* the shrinking realloc behind the loop hands out a block of exactly strlen + 1 bytes *)
Lemma gl_finish_ok t b l L s ln F : owns t (b_id b :: F) -> buf_ok (b_data b) L -> l <= L -> bget (b_data b) l = Ok 0 ->
  exists t' b', gl_finish t b l s ln = Ok (t', GL_line b', s, ln) /\ owns t' (b_id b' :: F) /\ buf_ok (b_data b') l.
Proof.
  intros Ho Hb Hl Hz. unfold gl_finish, m_realloc.
  destruct (owns_free _ _ _ Ho) as [t1 [E1 H1]]. rewrite E1; cbn [bind].
  pose proof (owns_alloc _ _ H1) as H2. destruct (r_alloc t1) as [t2 a] eqn:Ea. simpl in H2. cbn [bind].
  eexists; eexists. split; [reflexivity|]. split; [exact H2|]. simpl.
  destruct Hb as [Hlen _]. unfold TextProofs.blen in Hlen.
  assert (Hr : resize (b_data b) (N.to_nat (l + 1)) = firstn (N.to_nat (l + 1)) (b_data b)).
  { unfold resize. replace (N.to_nat (l + 1) - length (b_data b))%nat with 0%nat by lia. simpl. apply app_nil_r. }
  rewrite Hr. split.
  - unfold TextProofs.blen. rewrite firstn_length. lia.
  - unfold bget in *. apply lget_ok_iff. rewrite nth_error_firstn'; [|lia]. apply lget_ok_iff. exact Hz.
Qed.

(* the line under construction: NULL with line_len = 0, or a block of line_len + 1 bytes ending in NUL *)
Definition line_inv (line : option blk) (ll : N) : Prop :=
  match line with None => ll = 0 | Some b => buf_ok (b_data b) ll end.

Definition gl_post (F : list nat) (s : list N) (fresh : bool) (r : rtab * gl_out * list N * N) : Prop :=
  let '(t', o, s', _) := r in
  (length s' <= length s)%nat /\
  match o with
  | GL_eof => owns t' F
  | GL_line b => owns t' (b_id b :: F) /\ (exists L, buf_ok (b_data b) L) /\ (fresh = true -> (length s' < length s)%nat)
  end.

Lemma get_line_go_ok : forall fuel win t s line ll ln F,
  (length s < fuel)%nat -> owns t (oid line ++ F) -> line_inv line ll ->
  exists r, get_line_go fuel win t s line ll ln = Ok r /\
            gl_post F s (match line with None => true | Some _ => false end) r.
Proof.
  induction fuel as [|f IH]; intros win t s line ll ln F Hf Ho Hinv; [lia|].
  cbn [get_line_go]. destruct s as [|c0 s0].
  - (* end of the stream *)
    destruct (ll =? 0) eqn:E0.
    + assert (Hfo : exists t1, free_opt t line = Ok t1 /\ owns t1 F).
      { destruct line as [b|]; simpl in *; [apply owns_free; exact Ho|exists t; split; [reflexivity|exact Ho]]. }
      destruct Hfo as [t1 [E1 H1]]. rewrite E1; cbn [bind]. eexists. split; [reflexivity|].
      cbv beta iota delta [gl_post]. split; [simpl; lia|exact H1].
    + apply N.eqb_neq in E0. destruct line as [b|]; [|simpl in Hinv; congruence].
      simpl in Ho, Hinv. rewrite (owns_use _ _ (b_id b) Ho); [|left; reflexivity]. cbn [bind].
      destruct (trim_flags_ok _ _ Hinv) as [m [l [Et [Hb [Hl Hz]]]]]. rewrite Et; cbn [bind].
      destruct (0 <? l) eqn:El.
      * destruct (gl_finish_ok t (mkBlk (b_id b) m) l ll [] ln F Ho Hb Hl Hz) as [t' [b' [E [H1 H2]]]].
        rewrite E. eexists. split; [reflexivity|]. cbv beta iota delta [gl_post]. split; [lia|]. split; [exact H1|]. split; [eauto|discriminate].
      * destruct (owns_free _ _ _ Ho) as [t1 [E1 H1]]. rewrite E1; cbn [bind]. eexists. split; [reflexivity|].
        cbv beta iota delta [gl_post]. split; [simpl; lia|exact H1].
  - (* a window of at least one byte *)
    set (s := c0 :: s0) in *.
    set (w := window win s).
    assert (Hw : (1 <= length w <= length s)%nat).
    { unfold w, window. rewrite firstn_length. unfold s. simpl length. lia. }
    clearbody s.
    pose proof (scan_nl_spec w) as Hscan. destruct (scan_nl w) as [count have_line].
    set (n := ll + N.of_nat count + 1).
    (* realloc *)
    assert (Hre : exists t1 b1, m_realloc t line n = Ok (t1, b1) /\ owns t1 (b_id b1 :: F) /\
                  length (b_data b1) = N.to_nat n).
    { unfold m_realloc. destruct line as [b|]; simpl in Ho.
      - destruct (owns_free _ _ _ Ho) as [t1 [E1 H1]]. rewrite E1; cbn [bind].
        pose proof (owns_alloc _ _ H1) as H2. destruct (r_alloc t1) as [t2 a]. simpl in H2.
        eexists; eexists. split; [reflexivity|]. split; [exact H2|]. simpl. apply resize_length.
      - pose proof (owns_alloc _ _ Ho) as H2. destruct (r_alloc t) as [t2 a]. simpl in H2.
        eexists; eexists. split; [reflexivity|]. split; [exact H2|]. simpl. apply repeat_length. }
    destruct Hre as [t1 [b1 [Ere [Ho1 Hlen1]]]]. rewrite Ere; cbn [bind].
    assert (Hcnt : (count <= length w)%nat) by (destruct have_line; lia).
    assert (Hfl : length (firstn count w) = count) by (rewrite firstn_length; lia).
    destruct (bwrite_ok (firstn count w) (b_data b1) ll) as [m1 [Em1 Lm1]]; [rewrite Hfl, Hlen1; unfold n; lia|].
    rewrite Em1; cbn [bind].
    destruct (bset_lt m1 (ll + N.of_nat count) 0) as [m2 [Em2 Lm2]]; [rewrite Lm1, Hlen1; unfold n; lia|].
    rewrite Em2; cbn [bind].
    assert (Hb2 : buf_ok m2 (ll + N.of_nat count)).
    { split; [unfold TextProofs.blen; rewrite Lm2, Lm1, Hlen1; unfold n; lia|eapply bset_get_same; eauto]. }
    destruct have_line.
    + (* a complete line *)
      set (len1 := ll + N.of_nat count) in *.
      assert (Hcr : exists r2, (if 0 <? len1 then do c <- bget m2 (len1 - 1);
                                  if c =? 13 then do m3 <- bset m2 (len1 - 1) 0; Ok m3 else Ok m2 else Ok m2) = Ok r2 /\
                               buf_ok r2 len1).
      { destruct (0 <? len1) eqn:E0; [|exists m2; split; [reflexivity|exact Hb2]]. apply N.ltb_lt in E0.
        destruct (buf_get m2 len1 (len1 - 1) Hb2 ltac:(lia)) as [c Ec]. rewrite Ec; cbn [bind].
        destruct (c =? 13); [|exists m2; split; [reflexivity|exact Hb2]].
        destruct (buf_set m2 len1 (len1 - 1) 0 Hb2 ltac:(lia) ltac:(auto)) as [m3 [E3 Hb3]]. rewrite E3; cbn [bind].
        exists m3. split; [reflexivity|exact Hb3]. }
      destruct Hcr as [r2 [Er2 Hbr2]]. rewrite Er2; cbn [bind].
      destruct (trim_flags_ok _ _ Hbr2) as [m4 [l [Et [Hb4 [Hl Hz]]]]]. rewrite Et; cbn [bind].
      assert (Hsk : (length (skipn (S count) s) < length s)%nat) by (rewrite skipn_length; lia).
      destruct (0 <? l) eqn:El.
      * destruct (gl_finish_ok t1 (mkBlk (b_id b1) m4) l len1 (skipn (S count) s) ln F Ho1 Hb4 Hl Hz) as [t' [b' [E [H1 H2]]]].
        rewrite E. eexists. split; [reflexivity|]. cbv beta iota delta [gl_post]. split; [lia|]. split; [exact H1|]. split; [eauto|intros _; exact Hsk].
      * apply N.ltb_ge in El. assert (l = 0) by lia. subst l.
        destruct (owns_free _ _ _ Ho1) as [t2 [E2 H2]]. rewrite E2; cbn [bind].
        destruct (IH win t2 (skipn (S count) s) None 0 (ln + 1) F ltac:(lia) H2 eq_refl) as [r [Er Hp]].
        rewrite Er. exists r. split; [reflexivity|].
        destruct r as [[[t' o] s'] ln']. cbv beta iota delta [gl_post] in Hp |- *. destruct Hp as [Hle Hp]. split; [lia|].
        destruct o as [b|]; [|exact Hp]. destruct Hp as [Hp1 [Hp2 Hp3]]. split; [exact Hp1|]. split; [exact Hp2|].
        intros _. specialize (Hp3 eq_refl). lia.
    + (* no newline in the window: keep collecting *)
      subst count.
      assert (Hsk : (length (skipn (length w) s) < length s)%nat) by (rewrite skipn_length; lia).
      destruct (IH win t1 (skipn (length w) s) (Some (mkBlk (b_id b1) m2)) (ll + N.of_nat (length w)) ln F
                  ltac:(lia) Ho1 Hb2) as [r [Er Hp]].
      rewrite Er. exists r. split; [reflexivity|].
      destruct r as [[[t' o] s'] ln']. cbv beta iota delta [gl_post] in Hp |- *. destruct Hp as [Hle Hp]. split; [lia|].
      destruct o as [b|]; [|exact Hp]. destruct Hp as [Hp1 [Hp2 _]]. split; [exact Hp1|]. split; [exact Hp2|].
      intros _. lia.
Qed.

Lemma get_line_ok win t s ln F : owns t F ->
  exists r, get_line win t s ln = Ok r /\ gl_post F s true r.
Proof. intro H. unfold get_line. apply (get_line_go_ok _ win t s None 0 ln F); [lia|exact H|reflexivity]. Qed.

(* ================================================================== *)
(* one line of the file                                                *)
(* ================================================================== *)
Lemma parse_file_name_ok t m L map F : owns t (map_ids map ++ F) -> buf_ok m L -> 8 <= L -> map_wf map ->
  exists t' map' ret, parse_file_name false t m map = Ok (t', map', ret) /\ owns t' (map_ids map' ++ F) /\ map_wf map'.
Proof.
  intros Ho Hb H8 Hwf. unfold parse_file_name.
  destruct (buf_cstr m L 8 Hb H8) as [nm En]. rewrite En; cbn [bind].
  pose proof (owns_alloc _ _ Ho) as H1. destruct (r_alloc t) as [t1 fid]. simpl in H1.
  pose proof (owns_alloc _ _ H1) as H2. destruct (r_alloc t1) as [t2 pid]. simpl in H2.
  rewrite (owns_use _ _ (m_id map) H2); [|right; right; apply in_or_app; left; unfold map_ids; apply in_or_app; right; left; reflexivity].
  cbn [bind]. rewrite (owns_use _ _ fid H2); [|right; left; reflexivity]. cbn [bind]. simpl b_data.
  destruct (buf_cstr (nm ++ [0]) (TextProofs.blen nm) 0 (buf_app_nul nm) ltac:(lia)) as [name Ename]. rewrite Ename; cbn [bind].
  destruct (canon_result name) as [r|].
  - rewrite (owns_use _ _ pid H2); [|left; reflexivity]. cbn [bind].
    eexists; eexists; eexists. split; [reflexivity|]. split.
    + unfold map_ids at 1. simpl. eapply owns_perm; [exact H2|]. apply perm_swap.
    + constructor; [|exact Hwf]. eexists. split; [reflexivity|]. simpl. unfold canon_block.
      apply in_or_app. right. left. reflexivity.
  - destruct (owns_free _ _ _ H2) as [t3 [E3 H3]]. rewrite E3; cbn [bind].
    destruct (owns_free _ _ _ H3) as [t4 [E4 H4]]. rewrite E4; cbn [bind].
    eexists; eexists; eexists. split; [reflexivity|]. split; [exact H4|exact Hwf].
Qed.

Lemma parse_xattr_ok t m L p map F : owns t (map_ids map ++ F) -> buf_ok m L -> p < L -> map_wf map ->
  exists t' map' ret, parse_xattr t m p map = Ok (t', map', ret) /\ owns t' (map_ids map' ++ F) /\ map_wf map'.
Proof.
  intros Ho Hb Hp Hwf. unfold parse_xattr.
  rewrite (owns_use _ _ (m_id map) Ho); [|apply in_or_app; left; unfold map_ids; apply in_or_app; right; left; reflexivity].
  cbn [bind]. destruct map as [mid pats]. simpl m_pats. simpl m_id.
  destruct pats as [|cur rest]; [eexists; eexists; eexists; split; [reflexivity|split; [exact Ho|exact Hwf]]|].
  destruct (buf_suffix m L (p + 1) Hb ltac:(lia)) as [Es _]. rewrite Es; cbn [bind].
  pose proof (buf_skipn m L (p + 1) Hb ltac:(lia)) as Hbv.
  unfold decode_alloc.
  pose proof (owns_alloc _ _ Ho) as H1. destruct (r_alloc t) as [t1 a]. simpl in H1.
  destruct (xattr_decode_ok _ _ Hbv) as [[v Ev]|[e Ev]]; rewrite Ev.
  - cbn [bind]. destruct (buf_cstr m L 0 Hb ltac:(lia)) as [key Ek]. rewrite Ek; cbn [bind]. simpl b_id.
    rewrite (owns_use _ _ a H1); [|left; reflexivity]. cbn [bind].
    pose proof (owns_alloc _ _ H1) as H2. destruct (r_alloc t1) as [t2 eid]. simpl in H2.
    assert (H2' : owns t2 (a :: eid :: map_ids (mkMap mid (cur :: rest)) ++ F)) by (eapply owns_perm; [exact H2|apply perm_swap]).
    destruct (owns_free _ _ _ H2') as [t3 [E3 H3]]. rewrite E3; cbn [bind].
    rewrite (owns_use _ _ (p_id cur) H3).
    2:{ right. apply in_or_app. left. unfold map_ids. simpl. apply in_or_app. left. apply in_or_app. left.
        unfold pat_ids. apply in_or_app. right. apply in_or_app. right. left. reflexivity. }
    cbn [bind]. eexists; eexists; eexists. split; [reflexivity|]. split.
    + unfold map_ids in *. simpl in *. unfold pat_ids in *. simpl. exact H3.
    + inversion Hwf as [|x y Hc Hr]; subst. constructor; [|exact Hr]. exact Hc.
  - destruct (owns_free _ _ _ H1) as [t2 [E2 H2]]. rewrite E2; cbn [bind].
    eexists; eexists; eexists. split; [reflexivity|]. split; [exact H2|exact Hwf].
Qed.

Lemma k_newfile_nz : Forall (fun x => x <> 0) k_newfile.
Proof. unfold k_newfile. repeat constructor; discriminate. Qed.

Lemma xattr_step_ok t lb L map F : owns t (map_ids map ++ F) -> In (b_id lb) F -> buf_ok (b_data lb) L -> map_wf map ->
  exists t' map' ret, xattr_step false t lb map = Ok (t', map', ret) /\ owns t' (map_ids map' ++ F) /\ map_wf map'.
Proof.
  intros Ho Hin Hb Hwf. unfold xattr_step.
  rewrite (owns_use _ _ (b_id lb) Ho); [|apply in_or_app; right; exact Hin]. cbn [bind].
  destruct (strncmp_eq_ok k_newfile (b_data lb) L 0 Hb ltac:(lia) k_newfile_nz) as [isnew [E Hn]].
  rewrite E; cbn [bind]. destruct isnew.
  - specialize (Hn eq_refl). change (N.of_nat (length k_newfile)) with 8 in Hn.
    apply (parse_file_name_ok t _ L map F); auto.
  - destruct (buf_suffix _ L 0 Hb ltac:(lia)) as [Es _]. rewrite Es; cbn [bind].
    destruct (buf_strchr _ L 0 61 Hb ltac:(lia) ltac:(discriminate)) as [r [Er Hp]]. rewrite Er; cbn [bind].
    destruct r as [p|].
    + destruct Hp as [_ [H2 _]].
      destruct (buf_set _ L p 0 Hb ltac:(lia) ltac:(auto)) as [m1 [E1 Hb1]]. rewrite E1; cbn [bind].
      apply (parse_xattr_ok t m1 L p map F); auto.
    + destruct (buf_get _ L 0 Hb ltac:(lia)) as [c0 Ec0]. rewrite Ec0; cbn [bind].
      destruct (c0 =? 35); eexists; eexists; eexists; (split; [reflexivity|split; [exact Ho|exact Hwf]]).
Qed.

(* ================================================================== *)
(* the whole file                                                      *)
(* ================================================================== *)
Definition xopen_post (r : xopen) : Prop :=
  match r with
  | X_map t map => owns t (map_ids map) /\ map_wf map
  | X_refused t _ _ => owns t []
  end.

Lemma open_loop_ok : forall fuel win t file s map ln,
  (length s < fuel)%nat -> owns t (map_ids map ++ [file]) -> map_wf map ->
  exists r, open_loop fuel false win t file s map ln = Ok r /\ xopen_post r.
Proof.
  induction fuel as [|f IH]; intros win t file s map ln Hf Ho Hwf; [lia|].
  cbn [open_loop].
  rewrite (owns_use _ _ file Ho); [|apply in_or_app; right; left; reflexivity]. cbn [bind].
  destruct (get_line_ok win t s ln _ Ho) as [[[[t1 o] s1] ln1] [Eg Hp]]. rewrite Eg; cbn [bind].
  simpl in Hp. destruct Hp as [Hle Hp]. destruct o as [lb|].
  - destruct Hp as [Ho1 [[L Hb] Hlt]]. specialize (Hlt eq_refl).
    assert (Ho1' : owns t1 (map_ids map ++ [b_id lb; file])) by (eapply owns_perm; [exact Ho1|apply Permutation_middle]).
    destruct (xattr_step_ok t1 lb L map _ Ho1' ltac:(left; reflexivity) Hb Hwf) as [t2 [map2 [ret [Es [Ho2 Hwf2]]]]].
    rewrite Es; cbn [bind].
    destruct (owns_free_mid _ _ _ _ Ho2) as [t3 [E3 Ho3]]. rewrite E3; cbn [bind].
    destruct ret as [e|].
    + destruct (close_ok _ _ _ Ho3) as [t4 [E4 Ho4]]. rewrite E4; cbn [bind].
      destruct (owns_free _ _ _ Ho4) as [t5 [E5 Ho5]]. rewrite E5; cbn [bind].
      eexists. split; [reflexivity|exact Ho5].
    + apply IH; auto. lia.
  - assert (Ho1' : owns t1 (file :: map_ids map)).
    { eapply owns_perm; [exact Hp|]. apply Permutation_sym. apply Permutation_cons_append. }
    destruct (owns_free _ _ _ Ho1') as [t2 [E2 Ho2]]. rewrite E2; cbn [bind].
    eexists. split; [reflexivity|]. split; [exact Ho2|exact Hwf].
Qed.

Lemma xattr_open_ok win s : exists r, xattr_open_map_file win s = Ok r /\ xopen_post r.
Proof.
  unfold xattr_open_map_file, xattr_open_gen.
  pose proof (owns_alloc _ _ owns_empty) as H0. destruct (r_alloc r_empty) as [t0 file]. simpl in H0.
  pose proof (owns_alloc _ _ H0) as H1. destruct (r_alloc t0) as [t1 mid]. simpl in H1.
  apply open_loop_ok; [lia|exact H1|constructor].
Qed.

(* ---- the statements of Properties_C07.v ---- *)
Lemma xattr_file_safe_l win s : xattr_open_map_file win s <> Crash.
Proof. destruct (xattr_open_ok win s) as [r [E _]]. rewrite E. discriminate. Qed.

Lemma xattr_file_total_l win s : xattr_open_map_file win s <> OutOfFuel.
Proof. destruct (xattr_open_ok win s) as [r [E _]]. rewrite E. discriminate. Qed.

Lemma xattr_file_graceful_l win s :
  (exists t map, xattr_open_map_file win s = Ok (X_map t map) /\ owns t (map_ids map) /\ map_wf map) \/
  (exists t e ln, xattr_open_map_file win s = Ok (X_refused t e ln) /\ r_live t = []).
Proof.
  destruct (xattr_open_ok win s) as [[t map|t e ln] [E H]].
  - left. exists t, map. split; [exact E|exact H].
  - right. exists t, e, ln. split; [exact E|]. apply owns_nil_live. exact H.
Qed.

Lemma xattr_verdict_graceful_l win s : oe (xattr_open_verdict win s).
Proof.
  unfold xattr_open_verdict. destruct (xattr_open_ok win s) as [[t map|t e ln] [E _]]; rewrite E; cbn [bind]; [left|right]; eauto.
Qed.

Lemma xattr_close_releases_l t map : owns t (map_ids map) -> exists t', xattr_close_map_file t map = Ok t' /\ r_live t' = [].
Proof.
  intro H. rewrite <- (app_nil_r (map_ids map)) in H. destruct (close_ok _ _ _ H) as [t' [E H']].
  exists t'. split; [exact E|apply owns_nil_live; exact H'].
Qed.

Lemma xattr_open_close_clean_l win s : exists t, xattr_open_close false win s = Ok t /\ r_live t = [].
Proof.
  unfold xattr_open_close. fold xattr_open_map_file.
  destruct (xattr_file_graceful_l win s) as [[t [map [E [Ho _]]]]|[t [e [ln [E Hl]]]]]; rewrite E; cbn [bind].
  - apply xattr_close_releases_l. exact Ho.
  - exists t. split; [reflexivity|exact Hl].
Qed.

(* the line the reader hands to the parser is a NUL-terminated block, and taking it consumed input *)
Lemma get_line_block_l win t F s ln t' b s' ln' : owns t F ->
  get_line win t s ln = Ok (t', GL_line b, s', ln') ->
  (exists L, buf_ok (b_data b) L) /\ (length s' < length s)%nat /\ owns t' (b_id b :: F).
Proof.
  intros Ho E. destruct (get_line_ok win t s ln F Ho) as [r [Er Hp]]. rewrite E in Er. inversion Er; subst r.
  simpl in Hp. destruct Hp as [_ [Ho' [Hb Hlt]]]. split; [exact Hb|]. split; [apply Hlt; reflexivity|exact Ho'].
Qed.
