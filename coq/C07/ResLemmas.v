(* C07 — lemmas about the checked accessors of Res.v *)
From Coq Require Import List NArith ZArith Bool Lia.
From SqfsV Require Import C07.Res.
Import ListNotations.
Local Open Scope N_scope.

Lemma bind_ok {A B} (r : res A) (f : A -> res B) b :
  bind r f = Ok b -> exists a, r = Ok a /\ f a = Ok b.
Proof. destruct r; simpl; intro H; try discriminate. eauto. Qed.

Lemma bind_not_crash {A B} (r : res A) (f : A -> res B) :
  r <> Crash -> (forall a, r = Ok a -> f a <> Crash) -> bind r f <> Crash.
Proof. destruct r; simpl; intros H1 H2; try congruence. apply H2; reflexivity. Qed.

Lemma bind_not_fuel {A B} (r : res A) (f : A -> res B) :
  r <> OutOfFuel -> (forall a, r = Ok a -> f a <> OutOfFuel) -> bind r f <> OutOfFuel.
Proof. destruct r; simpl; intros H1 H2; try congruence. apply H2; reflexivity. Qed.

(* ---- lget ---- *)
Lemma lget_ok_iff {A} (l : list A) i x : lget l i = Ok x <-> nth_error l i = Some x.
Proof.
  revert i; induction l as [|y l IH]; intro i; destruct i; simpl; split; intro H; try discriminate;
    try (inversion H; reflexivity).
  - apply IH; exact H.
  - apply IH; exact H.
Qed.

Lemma lget_lt {A} (l : list A) i : (i < length l)%nat -> exists x, lget l i = Ok x.
Proof.
  revert i; induction l as [|y l IH]; intros i H; simpl in *; [lia|].
  destruct i; [eauto|]. apply IH. lia.
Qed.

Lemma lget_crash_iff {A} (l : list A) i : lget l i = Crash <-> (length l <= i)%nat.
Proof.
  revert i; induction l as [|y l IH]; intro i; simpl.
  - split; intros; [lia|reflexivity].
  - destruct i; simpl.
    + split; [discriminate|lia].
    + rewrite IH. lia.
Qed.

Lemma lget_cases {A} (l : list A) i :
  (exists x, lget l i = Ok x /\ (i < length l)%nat) \/ (lget l i = Crash /\ (length l <= i)%nat).
Proof.
  destruct (Nat.lt_ge_cases i (length l)) as [H|H].
  - left. destruct (lget_lt l i H) as [x Hx]. eauto.
  - right. split; [apply lget_crash_iff|]; assumption.
Qed.

Lemma lget_ok_lt {A} (l : list A) i x : lget l i = Ok x -> (i < length l)%nat.
Proof. intro H. apply lget_ok_iff in H. apply nth_error_Some. congruence. Qed.

Lemma lget_not_err {A} (l : list A) i e : lget l i <> Err e.
Proof. destruct (lget_cases l i) as [[x [H _]]|[H _]]; rewrite H; discriminate. Qed.

Lemma lget_not_fuel {A} (l : list A) i : lget l i <> OutOfFuel.
Proof. destruct (lget_cases l i) as [[x [H _]]|[H _]]; rewrite H; discriminate. Qed.

(* ---- lset ---- *)
Lemma lset_lt {A} (l : list A) i v : (i < length l)%nat -> exists l', lset l i v = Ok l'.
Proof.
  revert i; induction l as [|y l IH]; intros i H; simpl in *; [lia|].
  destruct i; [eauto|]. destruct (IH i ltac:(lia)) as [l' Hl]. rewrite Hl. eauto.
Qed.

Lemma lset_ok_length {A} (l : list A) i v l' : lset l i v = Ok l' -> length l' = length l /\ (i < length l)%nat.
Proof.
  revert i l'; induction l as [|y l IH]; intros i l' H; simpl in *; [discriminate|].
  destruct i.
  - inversion H; subst. simpl. split; [reflexivity|lia].
  - destruct (lset l i v) eqn:E; try discriminate. inversion H; subst.
    destruct (IH _ _ E) as [H1 H2]. simpl. split; lia.
Qed.

Lemma lset_crash_iff {A} (l : list A) i v : lset l i v = Crash <-> (length l <= i)%nat.
Proof.
  revert i; induction l as [|y l IH]; intro i; simpl.
  - split; intros; [lia|reflexivity].
  - destruct i; simpl.
    + split; [discriminate|lia].
    + specialize (IH i). destruct (lset l i v); split; intro H; try discriminate.
      * exfalso. assert (Ok a = Crash) by (apply IH; lia). discriminate.
      * exfalso. assert (@Err (list A) e = Crash) by (apply IH; lia). discriminate.
      * assert (length l <= i)%nat by (apply IH; reflexivity). lia.
      * reflexivity.
      * exfalso. assert (@OutOfFuel (list A) = Crash) by (apply IH; lia). discriminate.
Qed.

Lemma lset_cases {A} (l : list A) i v :
  (exists l', lset l i v = Ok l' /\ (i < length l)%nat) \/ (lset l i v = Crash /\ (length l <= i)%nat).
Proof.
  destruct (Nat.lt_ge_cases i (length l)) as [H|H].
  - left. destruct (lset_lt l i v H) as [x Hx]. eauto.
  - right. split; [apply lset_crash_iff|]; assumption.
Qed.

Lemma lset_get_same {A} (l : list A) i v l' : lset l i v = Ok l' -> lget l' i = Ok v.
Proof.
  revert i l'; induction l as [|y l IH]; intros i l' H; simpl in *; [discriminate|].
  destruct i.
  - inversion H; reflexivity.
  - destruct (lset l i v) eqn:E; try discriminate. inversion H; subst. simpl. eapply IH; eauto.
Qed.

Lemma lset_get_other {A} (l : list A) i j v l' : lset l i v = Ok l' -> i <> j -> lget l' j = lget l j.
Proof.
  revert i j l'; induction l as [|y l IH]; intros i j l' H Hij; simpl in *; [discriminate|].
  destruct i.
  - inversion H; subst. destruct j; [congruence|reflexivity].
  - destruct (lset l i v) eqn:E; try discriminate. inversion H; subst.
    destruct j; [reflexivity|]. simpl. eapply IH; eauto.
Qed.

Lemma lget_app_l {A} (l r : list A) i : (i < length l)%nat -> lget (l ++ r) i = lget l i.
Proof.
  revert i; induction l as [|y l IH]; intros i H; simpl in *; [lia|].
  destruct i; [reflexivity|]. apply IH. lia.
Qed.

Lemma lget_app_last {A} (l : list A) x : lget (l ++ [x]) (length l) = Ok x.
Proof. induction l; simpl; auto. Qed.

Lemma nth_error_skipn' {A} (l : list A) : forall n k, nth_error (skipn n l) k = nth_error l (n + k).
Proof.
  induction l as [|x l IH]; intros n k.
  - rewrite skipn_nil. destruct k; destruct (n + _)%nat; reflexivity.
  - destruct n; [reflexivity|]. simpl. apply IH.
Qed.

Lemma skipn_skipn' {A} (l : list A) : forall a b, skipn a (skipn b l) = skipn (b + a) l.
Proof.
  induction l as [|x l IH]; intros a b.
  - rewrite !skipn_nil. reflexivity.
  - destruct b; [reflexivity|]. simpl. apply IH.
Qed.
