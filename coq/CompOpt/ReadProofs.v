(* CompOpt -- read_options on arbitrary bytes: buffer safety, verdicts, accepted blocks and create, refusal of out-of-range values, witnesses *)
From Coq Require Import List NArith ZArith Bool Lia.
From SqfsV Require Import Gen.Constants Base.Bytes C05.RBase C05.BaseProofs C05.Super C05.SuperProofs CompOpt.GenCompOpt
  CompOpt.Model CompOpt.BaseLemmas CompOpt.CreateProofs CompOpt.RoundTrip.
Import ListNotations.
Local Open Scope N_scope.

(* ---- the generic reader touches its 64 byte buffer only inside ---- *)
Lemma generic_read_post img size : size < opt_buffer_size - opt_header_size ->
  post False (generic_read_options img size) (fun d => lenN d = size).
Proof.
  intros H. unfold generic_read_options. unfold opt_buffer_size, opt_header_size in *.
  destruct (64 - 2 <=? size) eqn:E; [apply N.leb_le in E; lia|].
  eapply post_bind; [apply put_check_post; lia|]. intros _ _.
  eapply post_bind; [apply read_at_post|]. intros buf [Hl _]. cbv beta.
  eapply post_bind; [apply slice_post; lia|]. intros h Hh. cbv beta.
  destruct (negb (rd 2 h =? N.lor 32768 size)); [exact I|].
  apply slice_post. lia.
Qed.

Definition verdict_ok (r : res unit) : Prop :=
  r = Ok tt \/ exists e, r = Err e /\ In e [E_IO; E_OOB; E_CORRUPTED; E_UNSUPPORTED].

Lemma generic_read_verdict img size : size < opt_buffer_size - opt_header_size ->
  match generic_read_options img size with
  | Ok d => lenN d = size
  | Err e => In e [E_IO; E_OOB; E_CORRUPTED]
  | _ => False
  end.
Proof.
  intros H. unfold generic_read_options. unfold opt_buffer_size, opt_header_size in *.
  destruct (64 - 2 <=? size) eqn:E; [apply N.leb_le in E; lia|].
  unfold put_check. destruct (0 + (2 + size) <=? 64) eqn:E1; [|apply N.leb_gt in E1; lia]. cbn [bind].
  pose proof (read_at_post False img sizeof_sqfs_super_t (2 + size)) as P.
  unfold read_at in *. destruct (2 + size =? 0) eqn:E0; [apply N.eqb_eq in E0; lia|].
  destruct (two63 <=? sizeof_sqfs_super_t + (2 + size)); [cbn; auto|].
  destruct (sizeof_sqfs_super_t + (2 + size) <=? lenN img); [|cbn; auto].
  cbn [bind]. cbn [post] in P. destruct P as [Hl _].
  unfold slice at 1. destruct (0 + 2 <=? lenN _) eqn:E2; [|apply N.leb_gt in E2; lia]. cbn [bind].
  destruct (negb (rd 2 _ =? N.lor 32768 size)); [cbn; auto|].
  unfold slice. destruct (2 + size <=? lenN _) eqn:E3; [|apply N.leb_gt in E3; lia].
  apply lenN_firstn_skipn. lia.
Qed.

Lemma read_options_verdict fx st img : verdict_ok (fst (read_options fx st img)).
Proof.
  unfold verdict_ok.
  destruct st as [s|s|s|s|s]; cbn [read_options].
  - pose proof (generic_read_verdict img co_sizeof_gzip_options_t ltac:(reflexivity)) as G.
    destruct (generic_read_options img co_sizeof_gzip_options_t) as [d|e| |]; try contradiction.
    + repeat match goal with |- context [if ?b then _ else _] => destruct b end; cbn [fst]; auto;
        right; eexists; (split; [reflexivity|]); cbn; auto.
    + cbn [fst]. right. exists e. split; [reflexivity|]. cbn in G |- *. tauto.
  - pose proof (generic_read_verdict img co_sizeof_xz_options_t ltac:(reflexivity)) as G.
    destruct (generic_read_options img co_sizeof_xz_options_t) as [d|e| |]; try contradiction.
    + repeat match goal with |- context [if ?b then _ else _] => destruct b end; cbn [fst]; auto;
        right; eexists; (split; [reflexivity|]); cbn; auto.
    + cbn [fst]. right. exists e. split; [reflexivity|]. cbn in G |- *. tauto.
  - cbn [fst]. right. eexists. split; [reflexivity|]. cbn; auto.
  - pose proof (generic_read_verdict img co_sizeof_lz4_options ltac:(reflexivity)) as G.
    destruct (generic_read_options img co_sizeof_lz4_options) as [d|e| |]; try contradiction.
    + repeat match goal with |- context [if ?b then _ else _] => destruct b end; cbn [fst]; auto;
        right; eexists; (split; [reflexivity|]); cbn; auto.
    + cbn [fst]. right. exists e. split; [reflexivity|]. cbn in G |- *. tauto.
  - pose proof (generic_read_verdict img co_sizeof_zstd_options_t ltac:(reflexivity)) as G.
    destruct (generic_read_options img co_sizeof_zstd_options_t) as [d|e| |]; try contradiction.
    + cbn [fst]; auto.
    + cbn [fst]. right. exists e. split; [reflexivity|]. cbn in G |- *. tauto.
Qed.

Lemma comp_read_options_safe_l : forall fx st img,
  fst (read_options fx st img) <> Crash /\ fst (read_options fx st img) <> OutOfFuel.
Proof.
  intros fx st img. destruct (read_options_verdict fx st img) as [H|(e & H & _)]; rewrite H; split; discriminate.
Qed.

Lemma xz_flags_facts f uncomp :
  N.ldiff f co_SQFS_COMP_FLAG_XZ_ALL = 0 ->
  let fl := trunc co_width_sqfs_compressor_config_t_flags f in
  let fl := if uncomp : bool then N.lor fl F_UNCOMPRESS else fl in
  N.ldiff fl (N.lor F_GENERIC_ALL co_SQFS_COMP_FLAG_XZ_ALL) = 0.
Proof.
  intros H. assert (Hf : f < N.of_nat 512).
  { apply N.ldiff_le in H. assert (co_SQFS_COMP_FLAG_XZ_ALL < N.of_nat 512) by reflexivity. lia. }
  pose proof (forallb_below (fun f => implb (N.ldiff f co_SQFS_COMP_FLAG_XZ_ALL =? 0)
     (forallb (fun fl => N.ldiff fl (N.lor F_GENERIC_ALL co_SQFS_COMP_FLAG_XZ_ALL) =? 0)
              [trunc co_width_sqfs_compressor_config_t_flags f;
               N.lor (trunc co_width_sqfs_compressor_config_t_flags f) F_UNCOMPRESS])) 512 ltac:(vm_compute; reflexivity) _ Hf) as P.
  cbv beta in P. rewrite H, N.eqb_refl in P. cbn [implb forallb] in P. bdestr.
  cbv zeta. destruct uncomp; assumption.
Qed.

Lemma xz_recreate_gen fx avail s :
  avail ID_XZ = true ->
  is_dict_size_valid fx (xz_dictsz s) = true ->
  co_SQFS_XZ_MIN_DICT_SIZE <= xz_dictsz s <= co_SQFS_XZ_MAX_DICT_SIZE ->
  xz_lcv s + xz_lpv s <= 4 -> xz_pbv s <= co_SQFS_XZ_MAX_PB -> xz_level s <= co_SQFS_XZ_MAX_LEVEL ->
  N.ldiff (xz_flags s) co_SQFS_COMP_FLAG_XZ_ALL = 0 ->
  exists s2, compressor_create fx avail (xz_get_configuration s) = Ok (SXz s2).
Proof.
  intros Ha Hv Hd Hlc Hpb Hlv Hf.
  pose proof (xz_flags_facts (xz_flags s) (xz_uncomp s) Hf) as F1. cbv zeta in F1.
  unfold xz_get_configuration.
  set (fl := if xz_uncomp s then N.lor (trunc co_width_sqfs_compressor_config_t_flags (xz_flags s)) F_UNCOMPRESS
             else trunc co_width_sqfs_compressor_config_t_flags (xz_flags s)) in *.
  unfold set_xz_pb, set_xz_lp, set_xz_lc, set_xz_dict, with_opt. cbn [c_id c_flags c_bs c_level c_opt].
  rewrite zero_opt_ox, setd_ox, setlc_ox, setlp_ox, setpb_ox.
  rewrite create_xz_eq; [|reflexivity|exact Ha|apply pad_ox].
  assert (B1 : co_SQFS_XZ_MAX_DICT_SIZE < 4294967296) by reflexivity.
  assert (B2 : co_SQFS_XZ_MAX_PB < 256) by reflexivity.
  assert (B3 : co_SQFS_XZ_MAX_LEVEL < 256 ^ co_width_sqfs_compressor_config_t_level) by reflexivity.
  unfold xz_create, xz_dict, xz_lc, xz_lp, xz_pb. cbn [c_id c_flags c_bs c_level c_opt].
  rewrite getd_ox, getlc_ox, getlp_ox, getpb_ox, F1. cbn [N.eqb negb].
  rewrite (N.mod_small (xz_dictsz s)) by lia.
  rewrite !N.mod_mod by discriminate.
  rewrite (N.mod_small (xz_lcv s)), (N.mod_small (xz_lpv s)), (N.mod_small (xz_pbv s)) by lia.
  rewrite (trunc_small co_width_sqfs_compressor_config_t_level) by lia.
  rewrite Hv. cbn [negb].
  destruct (4 <? xz_lcv s + xz_lpv s) eqn:E3; [bdestr; lia|].
  destruct (co_SQFS_XZ_MAX_PB <? xz_pbv s) eqn:E4; [bdestr; lia|].
  destruct (co_SQFS_XZ_MAX_LEVEL <? xz_level s) eqn:E5; [bdestr; lia|].
  destruct (xz_dictsz s <? co_SQFS_XZ_MIN_DICT_SIZE) eqn:E6; [bdestr; lia|].
  destruct (co_SQFS_XZ_MAX_DICT_SIZE <? xz_dictsz s) eqn:E7; [bdestr; lia|].
  eexists. reflexivity.
Qed.

Lemma lz4_recreate fx avail s : avail ID_LZ4 = true ->
  exists st2, compressor_create fx avail (lz4_get_configuration s) = Ok st2.
Proof.
  intros Ha. rewrite create_lz4_eq; [|reflexivity|exact Ha|apply pad_zero_opt].
  destruct s as [[|] bs [|]]; eexists; reflexivity.
Qed.

Lemma zstd_recreate fx avail s : avail ID_ZSTD = true -> 1 <= zs_level s <= co_ZSTD_maxCLevel ->
  exists st2, compressor_create fx avail (zstd_get_configuration s) = Ok st2.
Proof.
  intros Ha Hl. rewrite create_zstd_eq; [|reflexivity|exact Ha|apply pad_zero_opt].
  unfold zstd_create, zstd_get_configuration. cbn [c_id c_flags c_bs c_level c_opt].
  assert (co_ZSTD_maxCLevel < 256 ^ co_width_sqfs_compressor_config_t_level) by reflexivity.
  rewrite (trunc_small co_width_sqfs_compressor_config_t_level) by lia.
  assert (F : negb (N.ldiff (if zs_uncomp s then F_UNCOMPRESS else 0) F_GENERIC_ALL =? 0) = false)
    by (destruct (zs_uncomp s); reflexivity).
  rewrite F.
  destruct ((zs_level s <? 1) || (co_ZSTD_maxCLevel <? zs_level s)) eqn:E;
    [apply orb_true_iff in E; destruct E; bdestr; lia|].
  eexists. reflexivity.
Qed.

(* ---- an options block that read_options accepts leaves a configuration create accepts -- except that xz.c does
   not apply create's range test to the dictionary size (see xz_read_accepts_create_rejects_refuted) ---- *)
Lemma comp_read_accepts_valid_l : forall fx avail c st img st',
  compressor_create fx avail c = Ok st -> read_options fx st img = (Ok tt, st') ->
  (forall s, st' = SXz s -> co_SQFS_XZ_MIN_DICT_SIZE <= xz_dictsz s <= co_SQFS_XZ_MAX_DICT_SIZE) ->
  exists st2, compressor_create fx avail (get_configuration st') = Ok st2.
Proof.
  intros fx avail c st img st' Hc Hr Hx.
  destruct (create_inv _ _ _ _ Hc) as [Ha [(Hi & _ & Hb)|[(Hi & _ & Hb)|[(Hi & _ & Hb)|[(Hi & _ & Hb)|(Hi & _ & Hb)]]]]];
    rewrite Hi in *.
  - destruct (gzip_create_inv _ _ Hb) as (_ & _ & _ & ->). cbn [read_options] in Hr.
    destruct (generic_read_options img co_sizeof_gzip_options_t) as [d|e| |]; try discriminate.
    set (l := getk co_width_gzip_options_t_level co_off_gzip_options_t_level d) in *.
    set (w := getk co_width_gzip_options_t_window co_off_gzip_options_t_window d) in *.
    set (t := getk co_width_gzip_options_t_strategies co_off_gzip_options_t_strategies d) in *.
    destruct ((l <? 1) || (9 <? l)) eqn:E1; [discriminate|].
    destruct ((w <? 8) || (15 <? w)) eqn:E2; [discriminate|].
    destruct (negb (N.ldiff t co_SQFS_COMP_FLAG_GZIP_ALL =? 0)) eqn:E3; [discriminate|].
    injection Hr as <-. bdestr.
    assert (M1 : co_SQFS_GZIP_MIN_LEVEL <= 1) by cle. assert (M2 : 9 <= co_SQFS_GZIP_MAX_LEVEL) by cle.
    assert (M3 : co_SQFS_GZIP_MIN_WINDOW <= 8) by cle. assert (M4 : 15 <= co_SQFS_GZIP_MAX_WINDOW) by cle.
    match goal with |- exists st2, compressor_create _ _ (get_configuration (SGzip ?s1)) = _ =>
      destruct (gzip_recreate fx avail s1 Ha) as (s2 & C2 & _) end; cbn [gz_level gz_window gz_strategies]; try lia; try assumption.
    eexists. exact C2.
  - destruct (xz_create_inv _ _ _ Hb) as (_ & _ & Hlc & Hpb & Hlv & _ & ->). cbn [read_options] in Hr.
    destruct (generic_read_options img co_sizeof_xz_options_t) as [d|e| |]; try discriminate.
    set (dd := getk co_width_xz_options_t_dict_size co_off_xz_options_t_dict_size d) in *.
    set (ff := getk co_width_xz_options_t_flags co_off_xz_options_t_flags d) in *.
    destruct (negb (is_dict_size_valid fx dd)) eqn:E1; [discriminate|].
    destruct (negb (N.ldiff ff co_SQFS_COMP_FLAG_XZ_ALL =? 0)) eqn:E2; [discriminate|].
    injection Hr as <-. bdestr. cbn [xz_uncomp xz_bs xz_level xz_lcv xz_lpv xz_pbv] in *.
    specialize (Hx _ eq_refl). cbn [xz_dictsz] in Hx.
    match goal with |- exists st2, compressor_create _ _ (get_configuration (SXz ?s1)) = _ =>
      destruct (xz_recreate_gen fx avail s1 Ha) as (s2 & C2) end;
      cbn [xz_dictsz xz_lcv xz_lpv xz_pbv xz_level xz_flags]; try assumption.
    eexists. exact C2.
  - destruct (lzma_create_inv _ _ Hb) as (_ & _ & _ & _ & _ & s & -> & _). cbn [read_options] in Hr. discriminate.
  - destruct (lz4_create_inv _ _ Hb) as (_ & _ & ->). cbn [read_options] in Hr.
    destruct (generic_read_options img co_sizeof_lz4_options) as [d|e| |]; try discriminate.
    destruct (negb _); [discriminate|]. injection Hr as <-.
    cbn [get_configuration]. apply lz4_recreate. exact Ha.
  - destruct (zstd_create_inv _ _ Hb) as (_ & Hl & ->). cbn [read_options] in Hr.
    destruct (generic_read_options img co_sizeof_zstd_options_t) as [d|e| |]; try discriminate.
    injection Hr as <-.
    cbn [get_configuration]. apply zstd_recreate; [exact Ha|exact Hl].
Qed.

(* ---- opening an image: nothing on the way can leave a buffer ---- *)
Definition opened_ok (o : opened) : Prop :=
  match o with
  | OSuperErr r | OCreateErr r => exists e, r = Err e
  | ONoOptions _ => True
  | OOptions r _ => verdict_ok r
  end.

Lemma comp_open_image_safe_l : forall fx avail img, opened_ok (open_image fx avail img).
Proof.
  intros fx avail img. unfold open_image.
  pose proof (super_read_facts False img) as P.
  destruct (super_read img) as [s|e| |]; cbn [post] in P; try contradiction; [|cbn; eexists; reflexivity].
  set (c := snd _).
  assert (C : compressor_create fx avail c <> Crash /\ compressor_create fx avail c <> OutOfFuel).
  { unfold compressor_create.
    repeat match goal with |- context [if ?b then _ else _] => destruct b end; try (split; discriminate);
    unfold gzip_create, xz_create, lzma_create, lz4_create, zstd_create;
    repeat match goal with |- context [if ?b then _ else _] => destruct b end; split; discriminate. }
  destruct (compressor_create fx avail c) as [st|e| |] eqn:Ec.
  - destruct (has (s_flags s) c_SQFS_FLAG_COMPRESSOR_OPTIONS); cbn [opened_ok]; [apply read_options_verdict|exact I].
  - cbn. eexists. reflexivity.
  - destruct C as [A _]. congruence.
  - destruct C as [_ A]. congruence.
Qed.

(* ---- the ranges of the format (doc/format.adoc, literal) ---- *)
Definition cfg_in_range (c : cfg) : Prop :=
  (c_id c = 1 /\ 1 <= c_level c <= 9 /\ 8 <= cfg_window c <= 15 /\ N.ldiff (c_flags c) (N.lor 31 32768) = 0) \/
  (c_id c = 4 /\ c_level c <= 9 /\ 8192 <= xz_dict c <= 1048576 /\ xz_lc c + xz_lp c <= 4 /\ xz_pb c <= 4 /\
   N.ldiff (c_flags c) (N.lor 32768 319) = 0) \/
  (c_id c = 2 /\ c_level c <= 9 /\ 8192 <= lzma_dict c <= 1048576 /\ lzma_lc c + lzma_lp c <= 4 /\ lzma_pb c <= 4 /\
   N.ldiff (c_flags c) (N.lor 32768 1) = 0) \/
  (c_id c = 5 /\ c_level c = 0 /\ N.ldiff (c_flags c) (N.lor 1 32768) = 0) \/
  (c_id c = 6 /\ 1 <= c_level c <= co_ZSTD_maxCLevel /\ N.ldiff (c_flags c) 32768 = 0).

(* whatever create accepts lies inside the ranges; so a value outside is refused *)
Lemma comp_refuses_out_of_range_l : forall fx avail c st,
  compressor_create fx avail c = Ok st -> cfg_in_range c.
Proof.
  intros fx avail c st Hc. unfold cfg_in_range.
  destruct (create_inv _ _ _ _ Hc) as [Ha [(Hi & _ & Hb)|[(Hi & _ & Hb)|[(Hi & _ & Hb)|[(Hi & _ & Hb)|(Hi & _ & Hb)]]]]].
  - left. destruct (gzip_create_inv _ _ Hb) as (Hf & Hl & Hw & _).
    assert (1 <= co_SQFS_GZIP_MIN_LEVEL) by cle. assert (co_SQFS_GZIP_MAX_LEVEL <= 9) by cle.
    assert (8 <= co_SQFS_GZIP_MIN_WINDOW) by cle. assert (co_SQFS_GZIP_MAX_WINDOW <= 15) by cle.
    repeat split; try lia; [exact Hi|exact Hf].
  - right; left. destruct (xz_create_inv _ _ _ Hb) as (Hf & _ & Hlc & Hpb & Hlv & Hd & _).
    assert (co_SQFS_XZ_MAX_LEVEL <= 9) by cle. assert (co_SQFS_XZ_MAX_PB <= 4) by cle.
    assert (8192 <= co_SQFS_XZ_MIN_DICT_SIZE) by cle. assert (co_SQFS_XZ_MAX_DICT_SIZE <= 1048576) by cle.
    repeat split; try lia; [exact Hi|exact Hf].
  - right; right; left. destruct (lzma_create_inv _ _ Hb) as (Hf & Hlv & Hlc & Hpb & Hd & _).
    assert (co_SQFS_LZMA_MAX_LEVEL <= 9) by cle. assert (co_SQFS_LZMA_MAX_PB <= 4) by cle.
    assert (8192 <= co_SQFS_LZMA_MIN_DICT_SIZE) by cle. assert (co_SQFS_LZMA_MAX_DICT_SIZE <= 1048576) by cle.
    repeat split; try lia; [exact Hi|exact Hf].
  - right; right; right; left. destruct (lz4_create_inv _ _ Hb) as (Hf & Hl & _). repeat split; assumption.
  - right; right; right; right. destruct (zstd_create_inv _ _ Hb) as (Hf & Hl & _). repeat split; try lia; assumption.
Qed.

(* read_options refuses blocks whose fields are outside the format's ranges *)
Lemma gzip_read_refuses_l : forall fx s img s',
  read_options fx (SGzip s) img = (Ok tt, SGzip s') ->
  1 <= gz_level s' <= 9 /\ 8 <= gz_window s' <= 15 /\ N.ldiff (gz_strategies s') 31 = 0.
Proof.
  intros fx s img s' Hr. cbn [read_options] in Hr.
  destruct (generic_read_options img co_sizeof_gzip_options_t) as [d|e| |]; try discriminate.
  match type of Hr with context [if (?l <? 1) || _ then _ else _] => set (lv := l) in * end.
  match type of Hr with context [if (?l <? 8) || _ then _ else _] => set (w := l) in * end.
  destruct ((lv <? 1) || (9 <? lv)) eqn:E1; [discriminate|].
  destruct ((w <? 8) || (15 <? w)) eqn:E2; [discriminate|].
  destruct (negb (N.ldiff _ co_SQFS_COMP_FLAG_GZIP_ALL =? 0)) eqn:E3; [discriminate|].
  injection Hr as <-. bdestr. cbn [gz_level gz_window gz_strategies]. repeat split; try lia. exact E3.
Qed.

Lemma xz_read_refuses_l : forall fx s img s',
  read_options fx (SXz s) img = (Ok tt, SXz s') ->
  is_dict_size_valid fx (xz_dictsz s') = true /\ xz_dictsz s' < two32 /\ N.ldiff (xz_flags s') 319 = 0.
Proof.
  intros fx s img s' Hr. cbn [read_options] in Hr.
  destruct (generic_read_options img co_sizeof_xz_options_t) as [d|e| |]; try discriminate.
  destruct (negb (is_dict_size_valid fx _)) eqn:E1; [discriminate|].
  destruct (negb (N.ldiff _ co_SQFS_COMP_FLAG_XZ_ALL =? 0)) eqn:E2; [discriminate|].
  injection Hr as <-. bdestr. cbn [xz_dictsz xz_flags]. repeat split; try assumption.
  apply (getk_lt co_width_xz_options_t_dict_size).
Qed.

(* ---- F26: the dictionary size test of xz.c ---- *)
Definition w26_cfg : cfg := MkCfg ID_XZ 0 131072 6 (ox 14336 3 0 2).
Lemma xz_dict_shape_refuted_l :
  exists st, compressor_create as_found build_avail w26_cfg = Ok st /\
             write_options st = Ok (fmt_block (fmt_xz 14336 0)) /\ dict_shape_ok (xz_dict w26_cfg) = false.
Proof. eexists. split; [vm_compute; reflexivity|]. split; vm_compute; reflexivity. Qed.

Lemma xz_dict_shape_fixed_l : forall fx avail c st,
  fx_shape fx = true -> compressor_create fx avail c = Ok st -> c_id c = ID_XZ -> dict_shape_ok (xz_dict c) = true.
Proof.
  intros fx avail c st Hfx Hc Hi.
  destruct (create_inv _ _ _ _ Hc) as [Ha [(Hj & _)|[(_ & _ & Hb)|[(Hj & _)|[(Hj & _)|(Hj & _)]]]]];
    try (rewrite Hi in Hj; discriminate Hj).
  destruct (xz_create_inv _ _ _ Hb) as (_ & Hv & _ & _ & _ & Hd & _).
  apply (dict_valid_repaired_shape fx); [exact Hfx| | |exact Hv].
  - assert (0 < co_SQFS_XZ_MIN_DICT_SIZE) by reflexivity. lia.
  - assert (co_SQFS_XZ_MAX_DICT_SIZE < two64) by reflexivity. lia.
Qed.

Lemma xz_read_shape_fixed_l : forall fx s img s',
  fx_shape fx = true -> read_options fx (SXz s) img = (Ok tt, SXz s') ->
  xz_dictsz s' = 0 \/ dict_shape_ok (xz_dictsz s') = true.
Proof.
  intros fx s img s' Hfx Hr. destruct (xz_read_refuses_l _ _ _ _ Hr) as (Hv & Hl & _).
  destruct (N.eq_dec (xz_dictsz s') 0) as [E|E]; [left; exact E|right].
  apply (dict_valid_repaired_shape fx); [exact Hfx|exact E| |exact Hv]. unfold two32, two64 in *. lia.
Qed.

(* ---- read_options of xz.c does not apply create's range test ---- *)
Definition w_xz_zero_img : list N := zeros 96 ++ fmt_block (fmt_xz 0 0).
Definition w_xz_zero_check (fx : fixes) : bool :=
  match reader_default fx build_avail ID_XZ 131072 with
  | Ok st0 =>
    match read_options fx st0 w_xz_zero_img with
    | (Ok tt, st1) =>
      match compressor_create fx build_avail (get_configuration st1) with
      | Err e => (e =? E_UNSUPPORTED)%Z
      | _ => false
      end
    | _ => false
    end
  | _ => false
  end.
Lemma xz_read_accepts_create_rejects_refuted_l : forall fx,
  exists st0 st1, reader_default fx build_avail ID_XZ 131072 = Ok st0 /\
    read_options fx st0 w_xz_zero_img = (Ok tt, st1) /\
    compressor_create fx build_avail (get_configuration st1) = Err E_UNSUPPORTED.
Proof.
  intros fx. assert (H : w_xz_zero_check fx = true) by (destruct fx as [[|] a b]; vm_compute; reflexivity).
  unfold w_xz_zero_check in H.
  destruct (reader_default fx build_avail ID_XZ 131072) as [st0| | |]; try discriminate.
  destruct (read_options fx st0 w_xz_zero_img) as [[[]| | |] st1] eqn:R; try discriminate.
  destruct (compressor_create fx build_avail (get_configuration st1)) as [|e| |] eqn:C; try discriminate.
  apply Z.eqb_eq in H. subst e. exists st0, st1. auto.
Qed.
