(* CompOpt — compressor configuration and the on-disk compressor options (C05 / C01 / C03 glue).

   Executable model, statement by statement, of
     lib/sqfs/src/comp/compressor.c   sqfs_compressor_config_init, sqfs_generic_write_options,
                                      sqfs_generic_read_options, sqfs_compressor_create
     lib/sqfs/src/comp/gzip.c         gzip_compressor_create, gzip_write_options, gzip_read_options, gzip_get_configuration
     lib/sqfs/src/comp/xz.c           is_dict_size_valid, xz_compressor_create, xz_write_options, xz_read_options, xz_get_configuration
     lib/sqfs/src/comp/lzma.c         lzma_compressor_create, lzma_write_options, lzma_read_options, lzma_get_configuration
     lib/sqfs/src/comp/lz4.c          lz4_compressor_create, lz4_write_options, lz4_read_options, lz4_get_configuration
     lib/sqfs/src/comp/zstd.c         zstd_compressor_create, zstd_write_options, zstd_read_options, zstd_get_configuration
   and of the way bin/sqfsdiff opens an image (super block, compressor, options block).

   A configuration is the C struct: id / flags / block_size / level plus the 16 bytes of the [opt] union, which the
   back ends read through the member the id selects (offsets and widths: GenCompOpt.v, generated from the headers).
   Every constant of the code comes from Gen/Constants.v or CompOpt/GenCompOpt.v; the only literals are the ones the
   C code writes as literals (64 byte option buffer, the 1/9/8/15 of gzip_read_options, lc + lp > 4).

   [fixes] selects the code as found ([as_found]) or the code with the proposed repairs ([repaired]):
     fx_shape  props/C05/fixes/F26-xz-dict-size-shape.patch      (xz.c is_dict_size_valid)
     fx_pct    props/C05/fixes/F27-parse-size-percent-suffix.patch (parse_size.c, see Parse.v)
     fx_num    props/C05/fixes/F28-comp-opt-strict-numbers.patch  (comp_opt.c, see Parse.v)
   The check (props/C05/compopt.py) finds out which variant the working tree implements and ties that one.

   Oracles (trusted, exercised by the tie): calloc, deflateInit2 / inflateInit for level 1..9 and window 8..15,
   ZSTD_createCCtx succeed; ZSTD_maxCLevel() is the value the generator read from the library. *)
From Coq Require Import List NArith ZArith Bool.
From SqfsV Require Import Gen.Constants Base.Bytes C05.RBase C05.Super CompOpt.GenCompOpt.
Import ListNotations.
Local Open Scope N_scope.

Record fixes := MkFx { fx_shape : bool; fx_pct : bool; fx_num : bool }.
Definition as_found : fixes := MkFx false false false.
Definition repaired : fixes := MkFx true true true.

Definition E_INTERNAL := c_SQFS_ERROR_INTERNAL.

Definition ID_GZIP := c_SQFS_COMP_GZIP.
Definition ID_LZMA := c_SQFS_COMP_LZMA.
Definition ID_LZO := c_SQFS_COMP_LZO.
Definition ID_XZ := c_SQFS_COMP_XZ.
Definition ID_LZ4 := c_SQFS_COMP_LZ4.
Definition ID_ZSTD := c_SQFS_COMP_ZSTD.

Definition F_UNCOMPRESS := co_SQFS_COMP_FLAG_UNCOMPRESS.
Definition F_GENERIC_ALL := co_SQFS_COMP_FLAG_GENERIC_ALL.

(* value stored into a C object of [w] bytes *)
Definition trunc (w : N) (v : N) : N := v mod 256 ^ w.

(* ------------------------------------------------------------------ *)
(* sqfs_compressor_config_t                                            *)
(* ------------------------------------------------------------------ *)
Record cfg := MkCfg { c_id : N; c_flags : N; c_bs : N; c_level : N; c_opt : list N }.

Definition zero_opt : list N := zeros (nN co_sizeof_opt).
Definition cfg_zero : cfg := MkCfg 0 0 0 0 zero_opt.        (* memset(cfg, 0, sizeof cfg[0]) *)

(* member of [w] bytes at offset [off] of the union *)
Definition getk (w off : N) (o : list N) : N := fld (nN w) off o.
Definition setk (w off : N) (v : N) (o : list N) : list N :=
  firstn (nN off) o ++ le (nN w) v ++ skipn (nN off + nN w) o.
(* memcmp(member, zeros, len) == 0 *)
Definition pad_zero (off len : N) (o : list N) : bool :=
  forallb (N.eqb 0) (firstn (nN len) (skipn (nN off) o)).

Definition with_level (c : cfg) (v : N) := MkCfg (c_id c) (c_flags c) (c_bs c) v (c_opt c).
Definition with_flags (c : cfg) (v : N) := MkCfg (c_id c) v (c_bs c) (c_level c) (c_opt c).
Definition with_opt (c : cfg) (o : list N) := MkCfg (c_id c) (c_flags c) (c_bs c) (c_level c) o.

Definition cfg_window (c : cfg) := getk co_sizeof_opt_gzip_window_size co_off_opt_gzip_window_size (c_opt c).
Definition set_gz_window (c : cfg) v :=
  with_opt c (setk co_sizeof_opt_gzip_window_size co_off_opt_gzip_window_size v (c_opt c)).
Definition lzo_alg (c : cfg) := getk co_sizeof_opt_lzo_algorithm co_off_opt_lzo_algorithm (c_opt c).
Definition set_lzo_alg (c : cfg) v :=
  with_opt c (setk co_sizeof_opt_lzo_algorithm co_off_opt_lzo_algorithm v (c_opt c)).
Definition xz_dict (c : cfg) := getk co_sizeof_opt_xz_dict_size co_off_opt_xz_dict_size (c_opt c).
Definition xz_lc (c : cfg) := getk co_sizeof_opt_xz_lc co_off_opt_xz_lc (c_opt c).
Definition xz_lp (c : cfg) := getk co_sizeof_opt_xz_lp co_off_opt_xz_lp (c_opt c).
Definition xz_pb (c : cfg) := getk co_sizeof_opt_xz_pb co_off_opt_xz_pb (c_opt c).
Definition set_xz_dict (c : cfg) v := with_opt c (setk co_sizeof_opt_xz_dict_size co_off_opt_xz_dict_size v (c_opt c)).
Definition set_xz_lc (c : cfg) v := with_opt c (setk co_sizeof_opt_xz_lc co_off_opt_xz_lc v (c_opt c)).
Definition set_xz_lp (c : cfg) v := with_opt c (setk co_sizeof_opt_xz_lp co_off_opt_xz_lp v (c_opt c)).
Definition set_xz_pb (c : cfg) v := with_opt c (setk co_sizeof_opt_xz_pb co_off_opt_xz_pb v (c_opt c)).
Definition lzma_dict (c : cfg) := getk co_sizeof_opt_lzma_dict_size co_off_opt_lzma_dict_size (c_opt c).
Definition lzma_lc (c : cfg) := getk co_sizeof_opt_lzma_lc co_off_opt_lzma_lc (c_opt c).
Definition lzma_lp (c : cfg) := getk co_sizeof_opt_lzma_lp co_off_opt_lzma_lp (c_opt c).
Definition lzma_pb (c : cfg) := getk co_sizeof_opt_lzma_pb co_off_opt_lzma_pb (c_opt c).
Definition set_lzma_dict (c : cfg) v := with_opt c (setk co_sizeof_opt_lzma_dict_size co_off_opt_lzma_dict_size v (c_opt c)).
Definition set_lzma_lc (c : cfg) v := with_opt c (setk co_sizeof_opt_lzma_lc co_off_opt_lzma_lc v (c_opt c)).
Definition set_lzma_lp (c : cfg) v := with_opt c (setk co_sizeof_opt_lzma_lp co_off_opt_lzma_lp v (c_opt c)).
Definition set_lzma_pb (c : cfg) v := with_opt c (setk co_sizeof_opt_lzma_pb co_off_opt_lzma_pb v (c_opt c)).

(* ------------------------------------------------------------------ *)
(* sqfs_compressor_config_init(cfg, id, block_size, flags)              *)
(*   block_size is a size_t, flags a sqfs_u16; returns (rc, *cfg)        *)
(* ------------------------------------------------------------------ *)
Definition config_init (id block_size flags0 : N) : Z * cfg :=
  let flags := trunc 2 flags0 in
  let z := cfg_zero in
  let sel : option (N * cfg) :=          (* flag_mask and *cfg after the switch; None = default: *)
    if id =? ID_GZIP then
      Some (N.lor F_GENERIC_ALL co_SQFS_COMP_FLAG_GZIP_ALL,
            set_gz_window (with_level z co_SQFS_GZIP_DEFAULT_LEVEL) co_SQFS_GZIP_DEFAULT_WINDOW)
    else if id =? ID_LZO then
      Some (F_GENERIC_ALL, with_level (set_lzo_alg z co_SQFS_LZO_DEFAULT_ALG) co_SQFS_LZO_DEFAULT_LEVEL)
    else if id =? ID_ZSTD then
      Some (F_GENERIC_ALL, with_level z co_SQFS_ZSTD_DEFAULT_LEVEL)
    else if id =? ID_XZ then
      let c1 := with_level z co_SQFS_XZ_DEFAULT_LEVEL in
      let c2 := set_xz_dict c1 block_size in
      let c3 := set_xz_lc c2 co_SQFS_XZ_DEFAULT_LC in
      let c4 := set_xz_lp c3 co_SQFS_XZ_DEFAULT_LP in
      let c5 := set_xz_pb c4 co_SQFS_XZ_DEFAULT_PB in
      Some (N.lor F_GENERIC_ALL co_SQFS_COMP_FLAG_XZ_ALL,
            if block_size <? co_SQFS_XZ_MIN_DICT_SIZE then set_xz_dict c5 co_SQFS_XZ_MIN_DICT_SIZE else c5)
    else if id =? ID_LZMA then
      let c1 := with_level z co_SQFS_LZMA_DEFAULT_LEVEL in
      let c2 := set_lzma_dict c1 block_size in
      let c3 := set_lzma_lc c2 co_SQFS_LZMA_DEFAULT_LC in
      let c4 := set_lzma_lp c3 co_SQFS_LZMA_DEFAULT_LP in
      let c5 := set_lzma_pb c4 co_SQFS_LZMA_DEFAULT_PB in
      Some (N.lor F_GENERIC_ALL co_SQFS_COMP_FLAG_LZMA_ALL,
            if block_size <? co_SQFS_LZMA_MIN_DICT_SIZE then set_lzma_dict c5 co_SQFS_LZMA_MIN_DICT_SIZE else c5)
    else if id =? ID_LZ4 then
      Some (N.lor F_GENERIC_ALL co_SQFS_COMP_FLAG_LZ4_ALL, z)
    else None in
  match sel with
  | None => (E_UNSUPPORTED, z)
  | Some (mask, c) =>
    if negb (N.ldiff flags mask =? 0) then (E_UNSUPPORTED, cfg_zero)
    else (0%Z, MkCfg (trunc co_width_sqfs_compressor_config_t_id id) flags
                     (trunc co_width_sqfs_compressor_config_t_block_size block_size) (c_level c) (c_opt c))
  end.

(* ------------------------------------------------------------------ *)
(* compressor objects                                                   *)
(* ------------------------------------------------------------------ *)
Record gzip_st := MkGz { gz_compress : bool; gz_bs : N; gz_level : N; gz_window : N; gz_strategies : N }.
Record xz_st := MkXz { xz_uncomp : bool; xz_bs : N; xz_dictsz : N; xz_level : N; xz_lcv : N; xz_lpv : N; xz_pbv : N;
                       xz_flags : N }.
Record lzma_st := MkLzma { lzma_uncomp : bool; lzma_bs : N; lzma_dictsz : N; lzma_flags : N; lzma_level : N;
                           lzma_lcv : N; lzma_lpv : N; lzma_pbv : N }.
Record lz4_st := MkLz4 { lz4_uncomp : bool; lz4_bs : N; lz4_hc : bool }.
Record zstd_st := MkZstd { zs_uncomp : bool; zs_bs : N; zs_level : N }.

Inductive cstate :=
| SGzip (s : gzip_st)
| SXz (s : xz_st)
| SLzma (s : lzma_st)
| SLz4 (s : lz4_st)
| SZstd (s : zstd_st).

Definition has (flags bit : N) : bool := negb (N.land flags bit =? 0).

(* ---- gzip.c ---- *)
Definition gzip_create (c : cfg) : res cstate :=
  if negb (N.ldiff (c_flags c) (N.lor co_SQFS_COMP_FLAG_GZIP_ALL F_GENERIC_ALL) =? 0) then Err E_UNSUPPORTED
  else if (c_level c <? co_SQFS_GZIP_MIN_LEVEL) || (co_SQFS_GZIP_MAX_LEVEL <? c_level c) then Err E_UNSUPPORTED
  else if (cfg_window c <? co_SQFS_GZIP_MIN_WINDOW) || (co_SQFS_GZIP_MAX_WINDOW <? cfg_window c) then Err E_UNSUPPORTED
  else Ok (SGzip (MkGz (negb (has (c_flags c) F_UNCOMPRESS)) (c_bs c)
                       (trunc co_width_gzip_options_t_level (c_level c))
                       (trunc co_width_gzip_options_t_window (cfg_window c))
                       (trunc co_width_gzip_options_t_strategies (N.land (c_flags c) co_SQFS_COMP_FLAG_GZIP_ALL)))).

Definition gzip_get_configuration (s : gzip_st) : cfg :=
  let fl := if gz_compress s then gz_strategies s else N.lor (gz_strategies s) F_UNCOMPRESS in
  set_gz_window (MkCfg ID_GZIP (trunc co_width_sqfs_compressor_config_t_flags fl)
                       (trunc co_width_sqfs_compressor_config_t_block_size (gz_bs s))
                       (trunc co_width_sqfs_compressor_config_t_level (gz_level s)) zero_opt)
                (gz_window s).

(* ---- xz.c ---- *)
(* is_dict_size_valid(size_t size) *)
Definition is_dict_size_valid (fx : fixes) (size : N) : bool :=
  let x := N.land size (sub64 size 1) in
  if x =? 0 then true
  else if fx_shape fx && negb (N.land x (sub64 x 1) =? 0) then false      (* F26: more than two bits set *)
  else size =? N.lor x (x / 2).

Definition xz_create (fx : fixes) (c : cfg) : res cstate :=
  if negb (N.ldiff (c_flags c) (N.lor F_GENERIC_ALL co_SQFS_COMP_FLAG_XZ_ALL) =? 0) then Err E_UNSUPPORTED
  else if negb (is_dict_size_valid fx (xz_dict c)) then Err E_UNSUPPORTED
  else if 4 <? xz_lc c + xz_lp c then Err E_UNSUPPORTED
  else if co_SQFS_XZ_MAX_PB <? xz_pb c then Err E_UNSUPPORTED
  else if co_SQFS_XZ_MAX_LEVEL <? c_level c then Err E_UNSUPPORTED
  else if xz_dict c <? co_SQFS_XZ_MIN_DICT_SIZE then Err E_UNSUPPORTED
  else if co_SQFS_XZ_MAX_DICT_SIZE <? xz_dict c then Err E_UNSUPPORTED
  else Ok (SXz (MkXz (has (c_flags c) F_UNCOMPRESS) (c_bs c) (xz_dict c)
                     (trunc co_width_xz_compressor_t_level (c_level c)) (trunc co_width_xz_compressor_t_lc (xz_lc c))
                     (trunc co_width_xz_compressor_t_lp (xz_lp c)) (trunc co_width_xz_compressor_t_pb (xz_pb c))
                     (c_flags c))).

Definition xz_get_configuration (s : xz_st) : cfg :=
  let fl := trunc co_width_sqfs_compressor_config_t_flags (xz_flags s) in
  let fl := if xz_uncomp s then N.lor fl F_UNCOMPRESS else fl in
  let c0 := MkCfg ID_XZ fl (trunc co_width_sqfs_compressor_config_t_block_size (xz_bs s))
                  (trunc co_width_sqfs_compressor_config_t_level (xz_level s)) zero_opt in
  set_xz_pb (set_xz_lp (set_xz_lc (set_xz_dict c0 (xz_dictsz s)) (xz_lcv s)) (xz_lpv s)) (xz_pbv s).

(* ---- lzma.c ---- *)
Definition lzma_create (c : cfg) : res cstate :=
  let d := lzma_dict c in
  if negb (N.ldiff (c_flags c) (N.lor F_GENERIC_ALL co_SQFS_COMP_FLAG_LZMA_ALL) =? 0) then Err E_UNSUPPORTED
  else if co_SQFS_LZMA_MAX_LEVEL <? c_level c then Err E_UNSUPPORTED
  else if co_SQFS_LZMA_MAX_LC <? lzma_lc c then Err E_UNSUPPORTED
  else if co_SQFS_LZMA_MAX_LP <? lzma_lp c then Err E_UNSUPPORTED
  else if co_SQFS_LZMA_MAX_PB <? lzma_pb c then Err E_UNSUPPORTED
  else if 4 <? lzma_lc c + lzma_lp c then Err E_UNSUPPORTED
  else if d =? 0 then Err E_UNSUPPORTED
  else if d <? co_SQFS_LZMA_MIN_DICT_SIZE then Err E_UNSUPPORTED
  else if co_SQFS_LZMA_MAX_DICT_SIZE <? d then Err E_UNSUPPORTED
  else
    let mask := N.land d (u32 (d + two32 - 1)) in                  (* sqfs_u32 mask = d; mask &= mask - 1; *)
    if negb (mask =? 0) && negb (N.land mask (u32 (mask + two32 - 1)) =? 0) then Err E_UNSUPPORTED
    else if negb (mask =? 0) && negb (d =? N.lor mask (mask / 2)) then Err E_UNSUPPORTED
    else Ok (SLzma (MkLzma (has (c_flags c) F_UNCOMPRESS) (c_bs c) d
                           (trunc co_width_lzma_compressor_t_flags (c_flags c))
                           (trunc co_width_lzma_compressor_t_level (c_level c))
                           (trunc co_width_lzma_compressor_t_lc (lzma_lc c))
                           (trunc co_width_lzma_compressor_t_lp (lzma_lp c))
                           (trunc co_width_lzma_compressor_t_pb (lzma_pb c)))).

Definition lzma_get_configuration (s : lzma_st) : cfg :=
  let c0 := MkCfg ID_LZMA (trunc co_width_sqfs_compressor_config_t_flags (lzma_flags s))
                  (trunc co_width_sqfs_compressor_config_t_block_size (lzma_bs s))
                  (trunc co_width_sqfs_compressor_config_t_level (lzma_level s)) zero_opt in
  set_lzma_pb (set_lzma_lp (set_lzma_lc (set_lzma_dict c0 (lzma_dictsz s)) (lzma_lcv s)) (lzma_lpv s)) (lzma_pbv s).

(* ---- lz4.c ---- *)
Definition lz4_create (c : cfg) : res cstate :=
  if negb (N.ldiff (c_flags c) (N.lor co_SQFS_COMP_FLAG_LZ4_ALL F_GENERIC_ALL) =? 0) then Err E_UNSUPPORTED
  else if negb (c_level c =? 0) then Err E_UNSUPPORTED
  else Ok (SLz4 (MkLz4 (has (c_flags c) F_UNCOMPRESS) (c_bs c) (has (c_flags c) co_SQFS_COMP_FLAG_LZ4_HC))).

Definition lz4_get_configuration (s : lz4_st) : cfg :=
  let f1 := if lz4_hc s then co_SQFS_COMP_FLAG_LZ4_HC else 0 in
  let f2 := if lz4_uncomp s then N.lor f1 F_UNCOMPRESS else f1 in
  MkCfg ID_LZ4 f2 (trunc co_width_sqfs_compressor_config_t_block_size (lz4_bs s)) 0 zero_opt.

(* ---- zstd.c ---- *)
Definition zstd_create (c : cfg) : res cstate :=
  if negb (N.ldiff (c_flags c) F_GENERIC_ALL =? 0) then Err E_UNSUPPORTED
  else if (c_level c <? 1) || (co_ZSTD_maxCLevel <? c_level c) then Err E_UNSUPPORTED
  else Ok (SZstd (MkZstd (has (c_flags c) F_UNCOMPRESS) (c_bs c) (c_level c))).

Definition zstd_get_configuration (s : zstd_st) : cfg :=
  MkCfg ID_ZSTD (if zs_uncomp s then F_UNCOMPRESS else 0)
        (trunc co_width_sqfs_compressor_config_t_block_size (zs_bs s))
        (trunc co_width_sqfs_compressor_config_t_level (zs_level s)) zero_opt.

Definition get_configuration (st : cstate) : cfg :=
  match st with
  | SGzip s => gzip_get_configuration s
  | SXz s => xz_get_configuration s
  | SLzma s => lzma_get_configuration s
  | SLz4 s => lz4_get_configuration s
  | SZstd s => zstd_get_configuration s
  end.

(* ---- compressor.c: sqfs_compressor_create ---- *)
(* compressors[id] != NULL: the back ends of the build (config.h WITH_*; lzo is never in the table) *)
Definition build_avail (id : N) : bool :=
  if id =? ID_GZIP then co_with_gzip
  else if (id =? ID_XZ) || (id =? ID_LZMA) then co_with_xz
  else if id =? ID_LZ4 then co_with_lz4
  else if id =? ID_ZSTD then co_with_zstd
  else false.

Definition compressor_create (fx : fixes) (avail : N -> bool) (c : cfg) : res cstate :=
  if (c_id c <? c_SQFS_COMP_MIN) || (c_SQFS_COMP_MAX <? c_id c) then Err E_UNSUPPORTED
  else if negb (avail (c_id c)) then Err E_UNSUPPORTED
  else
    let padok :=
      if c_id c =? ID_XZ then pad_zero co_off_opt_xz_padd0 co_sizeof_opt_xz_padd0 (c_opt c)
      else if c_id c =? ID_LZMA then pad_zero co_off_opt_lzma_padd0 co_sizeof_opt_lzma_padd0 (c_opt c)
      else if c_id c =? ID_LZO then pad_zero co_off_opt_lzo_padd0 co_sizeof_opt_lzo_padd0 (c_opt c)
      else if c_id c =? ID_GZIP then pad_zero co_off_opt_gzip_padd0 co_sizeof_opt_gzip_padd0 (c_opt c)
      else pad_zero 0 co_sizeof_opt_padd0 (c_opt c) in
    if negb padok then Err E_ARG_INVALID
    else if c_id c =? ID_GZIP then gzip_create c
    else if c_id c =? ID_XZ then xz_create fx c
    else if c_id c =? ID_LZMA then lzma_create c
    else if c_id c =? ID_LZ4 then lz4_create c
    else if c_id c =? ID_ZSTD then zstd_create c
    else Err E_UNSUPPORTED.                        (* unreachable for a table that only has the five back ends *)

(* ------------------------------------------------------------------ *)
(* the options block                                                    *)
(* ------------------------------------------------------------------ *)
Definition opt_buffer_size : N := 64.              (* sqfs_u8 buffer[64] of the two generic functions *)
Definition opt_header_size : N := 2.               (* sizeof(sqfs_u16 header) *)

(* a local option struct of [sz] bytes with the listed members (offset, width, value) assigned *)
Definition mk_struct (sz : N) (members : list (N * N * N)) : list N :=
  fold_left (fun o m => match m with (off, w, v) => setk w off v o end) members (zeros (nN sz)).

(* sqfs_generic_write_options(file, data, size): the bytes written at offset sizeof(sqfs_super_t)
   (return value = their number; file->write_at is assumed to succeed) *)
Definition generic_write_options (data : list N) : res (list N) :=
  let size := lenN data in
  if opt_buffer_size - opt_header_size <=? size then Err E_INTERNAL
  else
    do _ <- put_check opt_buffer_size 0 opt_header_size;
    do _ <- put_check opt_buffer_size opt_header_size size;
    Ok (le 2 (N.lor 32768 size) ++ data).

(* sqfs_generic_read_options(file, data, size) on the image [img] *)
Definition generic_read_options (img : list N) (size : N) : res (list N) :=
  if opt_buffer_size - opt_header_size <=? size then Err E_INTERNAL
  else
    do _ <- put_check opt_buffer_size 0 (opt_header_size + size);
    do buf <- read_at img sizeof_sqfs_super_t (opt_header_size + size);
    do h <- slice buf 0 opt_header_size;
    if negb (rd 2 h =? N.lor 32768 size) then Err E_CORRUPTED
    else slice buf opt_header_size size.

(* cmp->write_options: Ok [] = "return 0" (nothing written, super block flag stays clear) *)
Definition write_options (st : cstate) : res (list N) :=
  match st with
  | SGzip s =>
    if (gz_level s =? co_SQFS_GZIP_DEFAULT_LEVEL) && (gz_window s =? co_SQFS_GZIP_DEFAULT_WINDOW)
       && (gz_strategies s =? 0) then Ok []
    else generic_write_options
           (mk_struct co_sizeof_gzip_options_t
              [(co_off_gzip_options_t_level, co_width_gzip_options_t_level, gz_level s);
               (co_off_gzip_options_t_window, co_width_gzip_options_t_window, gz_window s);
               (co_off_gzip_options_t_strategies, co_width_gzip_options_t_strategies, gz_strategies s)])
  | SXz s =>
    if (xz_flags s =? 0) && (xz_dictsz s =? xz_bs s) then Ok []
    else
      let flags := N.ldiff (N.land (xz_flags s) co_SQFS_COMP_FLAG_XZ_ALL) co_SQFS_COMP_FLAG_XZ_EXTREME in
      generic_write_options
        (mk_struct co_sizeof_xz_options_t
           [(co_off_xz_options_t_dict_size, co_width_xz_options_t_dict_size, xz_dictsz s);
            (co_off_xz_options_t_flags, co_width_xz_options_t_flags, flags)])
  | SLzma _ => Ok []
  | SLz4 s =>
    generic_write_options
      (mk_struct co_sizeof_lz4_options
         [(co_off_lz4_options_version, co_width_lz4_options_version, co_LZ4LEGACY);
          (co_off_lz4_options_flags, co_width_lz4_options_flags,
           if lz4_hc s then co_SQFS_COMP_FLAG_LZ4_HC else 0)])
  | SZstd s =>
    if zs_level s =? co_SQFS_ZSTD_DEFAULT_LEVEL then Ok []
    else generic_write_options
           (mk_struct co_sizeof_zstd_options_t
              [(co_off_zstd_options_t_level, co_width_zstd_options_t_level, zs_level s)])
  end.

(* cmp->read_options(cmp, file): the return value and the object afterwards (gzip.c stores the decoded
   fields before it validates them) *)
Definition read_options (fx : fixes) (st : cstate) (img : list N) : res unit * cstate :=
  match st with
  | SGzip s =>
    match generic_read_options img co_sizeof_gzip_options_t with
    | Ok data =>
      let level := getk co_width_gzip_options_t_level co_off_gzip_options_t_level data in
      let window := getk co_width_gzip_options_t_window co_off_gzip_options_t_window data in
      let strat := getk co_width_gzip_options_t_strategies co_off_gzip_options_t_strategies data in
      let s' := MkGz (gz_compress s) (gz_bs s) level window strat in
      if (level <? 1) || (9 <? level) then (Err E_UNSUPPORTED, SGzip s')
      else if (window <? 8) || (15 <? window) then (Err E_UNSUPPORTED, SGzip s')
      else if negb (N.ldiff strat co_SQFS_COMP_FLAG_GZIP_ALL =? 0) then (Err E_UNSUPPORTED, SGzip s')
      else (Ok tt, SGzip s')
    | Err e => (Err e, st) | Crash => (Crash, st) | OutOfFuel => (OutOfFuel, st)
    end
  | SXz s =>
    match generic_read_options img co_sizeof_xz_options_t with
    | Ok data =>
      let dict := getk co_width_xz_options_t_dict_size co_off_xz_options_t_dict_size data in
      let flags := getk co_width_xz_options_t_flags co_off_xz_options_t_flags data in
      if negb (is_dict_size_valid fx dict) then (Err E_CORRUPTED, st)
      else if negb (N.ldiff flags co_SQFS_COMP_FLAG_XZ_ALL =? 0) then (Err E_UNSUPPORTED, st)
      else (Ok tt, SXz (MkXz (xz_uncomp s) (xz_bs s) dict (xz_level s) (xz_lcv s) (xz_lpv s) (xz_pbv s) flags))
    | Err e => (Err e, st) | Crash => (Crash, st) | OutOfFuel => (OutOfFuel, st)
    end
  | SLzma _ => (Err E_UNSUPPORTED, st)
  | SLz4 s =>
    match generic_read_options img co_sizeof_lz4_options with
    | Ok data =>
      let version := getk co_width_lz4_options_version co_off_lz4_options_version data in
      if negb (version =? co_LZ4LEGACY) then (Err E_UNSUPPORTED, st) else (Ok tt, st)
    | Err e => (Err e, st) | Crash => (Crash, st) | OutOfFuel => (OutOfFuel, st)
    end
  | SZstd s =>
    match generic_read_options img co_sizeof_zstd_options_t with
    | Ok _ => (Ok tt, st)
    | Err e => (Err e, st) | Crash => (Crash, st) | OutOfFuel => (OutOfFuel, st)
    end
  end.

(* ------------------------------------------------------------------ *)
(* opening an image the way bin/sqfsdiff/src/sqfsdiff.c does: super block, default uncompressor for the id and    *)
(* block size of the super block (the return value of config_init is not looked at), options block if the flag is  *)
(* set                                                     *)
(* ------------------------------------------------------------------ *)
Inductive opened :=
| OSuperErr (r : res unit)                  (* sqfs_super_read failed *)
| OCreateErr (r : res unit)                 (* sqfs_compressor_create failed *)
| ONoOptions (st : cstate)                  (* flag clear: read_options is not called *)
| OOptions (r : res unit) (st : cstate).    (* return value of read_options and the object afterwards *)

Definition open_image (fx : fixes) (avail : N -> bool) (img : list N) : opened :=
  match super_read img with
  | Ok s =>
    let c := snd (config_init (s_comp s) (s_block_size s) F_UNCOMPRESS) in
    match compressor_create fx avail c with
    | Ok st =>
      if has (s_flags s) c_SQFS_FLAG_COMPRESSOR_OPTIONS then
        OOptions (fst (read_options fx st img)) (snd (read_options fx st img))
      else ONoOptions st
    | Err e => OCreateErr (Err e) | Crash => OCreateErr Crash | OutOfFuel => OCreateErr OutOfFuel
    end
  | Err e => OSuperErr (Err e) | Crash => OSuperErr Crash | OutOfFuel => OSuperErr OutOfFuel
  end.

(* ------------------------------------------------------------------ *)
(* the format (doc/format.adoc, "Compression Options"; Linux fs/squashfs/{xz,lz4,zstd}_wrapper.c): the payload of  *)
(* the options block, independent of the C structs                                                                 *)
(* ------------------------------------------------------------------ *)
(* dictionary size "must be either a power of 2, or the sum of two consecutive powers of 2" *)
Definition dict_shape_ok (d : N) : bool :=
  existsb (fun n => (d =? 2 ^ N.of_nat n) || (d =? 2 ^ N.of_nat n + 2 ^ N.of_nat (S n))) (seq 0 64).

Definition fmt_gzip (level window strategies : N) : list N := le 4 level ++ le 2 window ++ le 2 strategies.
Definition fmt_xz (dict filters : N) : list N := le 4 dict ++ le 4 filters.
Definition fmt_lz4 (version flags : N) : list N := le 4 version ++ le 4 flags.
Definition fmt_zstd (level : N) : list N := le 4 level.
(* a metadata block that is stored uncompressed: 16 bit header with the MSB set, then the payload *)
Definition fmt_block (payload : list N) : list N := le 2 (32768 + lenN payload) ++ payload.
