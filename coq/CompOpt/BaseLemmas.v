(* CompOpt -- byte list facts, the canonical contents of the opt union, reading a block placed behind the super block, the C option structs have the layout of the format *)
From Coq Require Import List NArith ZArith Bool Lia.
From SqfsV Require Import Gen.Constants Base.Bytes C05.RBase C05.BaseProofs C05.Super C05.SuperProofs CompOpt.GenCompOpt
  CompOpt.Model.
Import ListNotations.
Local Open Scope N_scope.

(* ---- byte list facts ---- *)
Lemma skipn_le_app k v r : skipn k (le k v ++ r) = r.
Proof.
  rewrite skipn_app, le_length, Nat.sub_diag, skipn_O.
  rewrite skipn_all2 by (rewrite le_length; lia). reflexivity.
Qed.

Lemma firstn_le_app k v r : firstn k (le k v ++ r) = le k v.
Proof.
  rewrite firstn_app, le_length, Nat.sub_diag, firstn_O, app_nil_r.
  apply firstn_all2. rewrite le_length. lia.
Qed.

Lemma rdk_le_app k v r : rdk k (le k v ++ r) = v mod 256 ^ N.of_nat k.
Proof.
  unfold rdk. rewrite rd_le_mod. apply N.mod_mod. apply N.pow_nonzero. discriminate.
Qed.

Lemma skipn_add_le_app k j v r : skipn (k + j) (le k v ++ r) = skipn j r.
Proof.
  rewrite skipn_app, le_length. replace (k + j - k)%nat with j by lia.
  rewrite skipn_all2 by (rewrite le_length; lia). reflexivity.
Qed.

Lemma trunc_small w v : v < 256 ^ w -> trunc w v = v.
Proof. intros H. unfold trunc. apply N.mod_small. exact H. Qed.

Lemma trunc_idem w v : trunc w (trunc w v) = trunc w v.
Proof. unfold trunc. apply N.mod_mod. apply N.pow_nonzero. discriminate. Qed.

Lemma trunc_lt w v : trunc w v < 256 ^ w.
Proof. unfold trunc. apply N.mod_lt. apply N.pow_nonzero. discriminate. Qed.

(* ---- canonical contents of the opt union ---- *)
Definition og (w : N) : list N := le 2 w ++ zeros 14.                        (* gzip.window_size / lzo.algorithm *)
Definition ox (d lc lp pb : N) : list N := le 4 d ++ [lc; lp; pb] ++ zeros 9.   (* xz / lzma *)

Lemma zero_opt_og : zero_opt = og 0.
Proof. reflexivity. Qed.
Lemma zero_opt_ox : zero_opt = ox 0 0 0 0.
Proof. reflexivity. Qed.

Lemma getw_og w : getk co_sizeof_opt_gzip_window_size co_off_opt_gzip_window_size (og w) = w mod 65536.
Proof. unfold getk, fld, og. change (nN co_off_opt_gzip_window_size) with 0%nat. rewrite skipn_O.
  change (nN co_sizeof_opt_gzip_window_size) with 2%nat. apply rdk_le_app. Qed.
Lemma setw_og w v : setk co_sizeof_opt_gzip_window_size co_off_opt_gzip_window_size v (og w) = og v.
Proof. unfold setk, og. change (nN co_off_opt_gzip_window_size) with 0%nat.
  change (nN co_sizeof_opt_gzip_window_size) with 2%nat. rewrite firstn_O. cbn [app plus].
  rewrite skipn_le_app. reflexivity. Qed.
Lemma geta_og w : getk co_sizeof_opt_lzo_algorithm co_off_opt_lzo_algorithm (og w) = w mod 65536.
Proof. exact (getw_og w). Qed.
Lemma seta_og w v : setk co_sizeof_opt_lzo_algorithm co_off_opt_lzo_algorithm v (og w) = og v.
Proof. exact (setw_og w v). Qed.
Lemma pad_og w : pad_zero co_off_opt_gzip_padd0 co_sizeof_opt_gzip_padd0 (og w) = true.
Proof. unfold pad_zero, og. change (nN co_off_opt_gzip_padd0) with 2%nat. rewrite skipn_le_app. reflexivity. Qed.
Lemma pad_og_lzo w : pad_zero co_off_opt_lzo_padd0 co_sizeof_opt_lzo_padd0 (og w) = true.
Proof. exact (pad_og w). Qed.

Lemma getd_ox d lc lp pb : getk co_sizeof_opt_xz_dict_size co_off_opt_xz_dict_size (ox d lc lp pb) = d mod 4294967296.
Proof. unfold getk, fld, ox. change (nN co_off_opt_xz_dict_size) with 0%nat. rewrite skipn_O.
  change (nN co_sizeof_opt_xz_dict_size) with 4%nat. apply rdk_le_app. Qed.
Lemma getlc_ox d lc lp pb : getk co_sizeof_opt_xz_lc co_off_opt_xz_lc (ox d lc lp pb) = lc mod 256.
Proof. unfold getk, fld, ox. change (nN co_off_opt_xz_lc) with (4 + 0)%nat. rewrite skipn_add_le_app.
  cbn [skipn app]. change (nN co_sizeof_opt_xz_lc) with 1%nat. unfold rdk. cbn [rd]. rewrite N.mul_0_r, N.add_0_r. reflexivity. Qed.
Lemma getlp_ox d lc lp pb : getk co_sizeof_opt_xz_lp co_off_opt_xz_lp (ox d lc lp pb) = lp mod 256.
Proof. unfold getk, fld, ox. change (nN co_off_opt_xz_lp) with (4 + 1)%nat. rewrite skipn_add_le_app.
  cbn [skipn app]. change (nN co_sizeof_opt_xz_lp) with 1%nat. unfold rdk. cbn [rd]. rewrite N.mul_0_r, N.add_0_r. reflexivity. Qed.
Lemma getpb_ox d lc lp pb : getk co_sizeof_opt_xz_pb co_off_opt_xz_pb (ox d lc lp pb) = pb mod 256.
Proof. unfold getk, fld, ox. change (nN co_off_opt_xz_pb) with (4 + 2)%nat. rewrite skipn_add_le_app.
  cbn [skipn app]. change (nN co_sizeof_opt_xz_pb) with 1%nat. unfold rdk. cbn [rd]. rewrite N.mul_0_r, N.add_0_r. reflexivity. Qed.
Lemma setd_ox d lc lp pb v : setk co_sizeof_opt_xz_dict_size co_off_opt_xz_dict_size v (ox d lc lp pb) = ox v lc lp pb.
Proof. unfold setk, ox. change (nN co_off_opt_xz_dict_size) with 0%nat. change (nN co_sizeof_opt_xz_dict_size) with 4%nat.
  rewrite firstn_O. cbn [plus]. rewrite skipn_le_app. reflexivity. Qed.
Lemma setlc_ox d lc lp pb v : setk co_sizeof_opt_xz_lc co_off_opt_xz_lc v (ox d lc lp pb) = ox d (v mod 256) lp pb.
Proof. unfold setk, ox. change (nN co_off_opt_xz_lc) with 4%nat. change (nN co_sizeof_opt_xz_lc) with 1%nat.
  rewrite firstn_le_app. change (4 + 1)%nat with (4 + 1)%nat. rewrite skipn_add_le_app. reflexivity. Qed.
Lemma setlp_ox d lc lp pb v : setk co_sizeof_opt_xz_lp co_off_opt_xz_lp v (ox d lc lp pb) = ox d lc (v mod 256) pb.
Proof. unfold setk, ox. change (nN co_off_opt_xz_lp) with (4 + 1)%nat. change (nN co_sizeof_opt_xz_lp) with 1%nat.
  rewrite firstn_app, le_length, firstn_all2 by (rewrite le_length; lia).
  replace (4 + 1 + 1)%nat with (4 + 2)%nat by reflexivity. rewrite skipn_add_le_app. reflexivity. Qed.
Lemma setpb_ox d lc lp pb v : setk co_sizeof_opt_xz_pb co_off_opt_xz_pb v (ox d lc lp pb) = ox d lc lp (v mod 256).
Proof. unfold setk, ox. change (nN co_off_opt_xz_pb) with (4 + 2)%nat. change (nN co_sizeof_opt_xz_pb) with 1%nat.
  rewrite firstn_app, le_length, firstn_all2 by (rewrite le_length; lia).
  replace (4 + 2 + 1)%nat with (4 + 3)%nat by reflexivity. rewrite skipn_add_le_app. reflexivity. Qed.
Lemma pad_ox d lc lp pb : pad_zero co_off_opt_xz_padd0 co_sizeof_opt_xz_padd0 (ox d lc lp pb) = true.
Proof. unfold pad_zero, ox. change (nN co_off_opt_xz_padd0) with (4 + 3)%nat. rewrite skipn_add_le_app. reflexivity. Qed.
Lemma pad_zero_opt : pad_zero 0 co_sizeof_opt_padd0 zero_opt = true.
Proof. reflexivity. Qed.

(* ---- bounded universal statements by computation ---- *)
Fixpoint below (n : nat) : list N := match n with O => [] | S k => N.of_nat k :: below k end.
Lemma below_in n v : v < N.of_nat n -> In v (below n).
Proof.
  induction n as [|n IH]; intros H; [lia|]. cbn [below].
  destruct (N.eq_dec v (N.of_nat n)) as [->|Hne]; [left; reflexivity|right; apply IH; lia].
Qed.
Lemma forallb_below (P : N -> bool) n : forallb P (below n) = true -> forall v, v < N.of_nat n -> P v = true.
Proof. intros H v Hv. rewrite forallb_forall in H. apply H. apply below_in. exact Hv. Qed.

Lemma has_false_land f b : has f b = false -> N.land f b = 0.
Proof. unfold has. intros H. apply negb_false_iff in H. apply N.eqb_eq in H. exact H. Qed.

(* ---- reading a block placed behind the super block area ---- *)
Lemma read_at_mid pre blk tail :
  lenN pre = sizeof_sqfs_super_t -> blk <> [] -> lenN blk < 65536 ->
  read_at (pre ++ blk ++ tail) sizeof_sqfs_super_t (lenN blk) = Ok blk.
Proof.
  intros Hp Hn Hl. unfold read_at.
  destruct (lenN blk =? 0) eqn:E0.
  { apply N.eqb_eq in E0. unfold lenN in E0. destruct blk; [contradiction|discriminate]. }
  assert (Hs : sizeof_sqfs_super_t = 96) by reflexivity.
  destruct (two63 <=? sizeof_sqfs_super_t + lenN blk) eqn:E1.
  { apply N.leb_le in E1. unfold two63 in E1. lia. }
  destruct (sizeof_sqfs_super_t + lenN blk <=? lenN (pre ++ blk ++ tail)) eqn:E2.
  - f_equal. unfold nN. rewrite <- Hp. unfold lenN. rewrite !Nat2N.id.
    rewrite skipn_app, Nat.sub_diag, skipn_O, skipn_all. cbn [app].
    rewrite firstn_app, Nat.sub_diag, firstn_O, app_nil_r. apply firstn_all.
  - apply N.leb_gt in E2. unfold lenN in *. rewrite !app_length in E2. lia.
Qed.

Lemma slice_front a b : slice (a ++ b) 0 (lenN a) = Ok a.
Proof.
  unfold slice. destruct (0 + lenN a <=? lenN (a ++ b)) eqn:E.
  - f_equal. change (nN 0) with 0%nat. rewrite skipn_O. unfold nN, lenN. rewrite Nat2N.id.
    rewrite firstn_app, Nat.sub_diag, firstn_O, app_nil_r. apply firstn_all.
  - apply N.leb_gt in E. unfold lenN in E. rewrite app_length in E. lia.
Qed.
Lemma slice_back a b : slice (a ++ b) (lenN a) (lenN b) = Ok b.
Proof.
  unfold slice. destruct (lenN a + lenN b <=? lenN (a ++ b)) eqn:E.
  - f_equal. unfold nN, lenN. rewrite !Nat2N.id. rewrite skipn_app, Nat.sub_diag, skipn_O, skipn_all. cbn [app].
    apply firstn_all.
  - apply N.leb_gt in E. unfold lenN in E. rewrite app_length in E. lia.
Qed.

(* a block in the format's shape is read back as its payload *)
Lemma generic_read_fmt_block pre payload tail :
  lenN pre = sizeof_sqfs_super_t -> lenN payload < 62 ->
  generic_read_options (pre ++ fmt_block payload ++ tail) (lenN payload) = Ok payload.
Proof.
  intros Hp Hl. unfold generic_read_options, opt_buffer_size, opt_header_size.
  destruct (64 - 2 <=? lenN payload) eqn:E; [apply N.leb_le in E; lia|].
  unfold put_check. destruct (0 + (2 + lenN payload) <=? 64) eqn:E1; [|apply N.leb_gt in E1; lia].
  cbn [bind].
  assert (Hb : lenN (fmt_block payload) = 2 + lenN payload).
  { unfold fmt_block, lenN. rewrite app_length, le_length. lia. }
  rewrite <- Hb. rewrite read_at_mid; [|exact Hp| |lia].
  2:{ unfold fmt_block. destruct (le 2 (32768 + lenN payload)) eqn:El; [|discriminate].
      pose proof (le_length 2 (32768 + lenN payload)) as L. rewrite El in L. discriminate. }
  cbn [bind]. unfold fmt_block at 1.
  change 2 with (lenN (le 2 (32768 + lenN payload))) at 1. rewrite slice_front. cbn [bind].
  assert (Hh : rd 2 (le 2 (32768 + lenN payload)) = N.lor 32768 (lenN payload)).
  { rewrite <- (app_nil_r (le 2 _)), rd_le by (change (256 ^ N.of_nat 2) with 65536; lia).
    symmetry. apply N.eqb_eq.
    apply (forallb_below (fun s => N.lor 32768 s =? 32768 + s) 62); [vm_compute; reflexivity|].
    change (N.of_nat 62) with 62. exact Hl. }
  rewrite Hh, N.eqb_refl. cbn [negb].
  unfold fmt_block. change 2 with (lenN (le 2 (32768 + lenN payload))). apply slice_back.
Qed.

Lemma generic_write_fmt_block data : lenN data < 62 -> generic_write_options data = Ok (fmt_block data).
Proof.
  intros Hl. unfold generic_write_options, opt_buffer_size, opt_header_size, put_check.
  destruct (64 - 2 <=? lenN data) eqn:E; [apply N.leb_le in E; lia|].
  destruct (0 + 2 <=? 64) eqn:E1; [|discriminate]. cbn [bind].
  destruct (2 + lenN data <=? 64) eqn:E2; [|apply N.leb_gt in E2; lia]. cbn [bind].
  unfold fmt_block. f_equal. f_equal. f_equal.
  apply N.eqb_eq.
  apply (forallb_below (fun s => N.lor 32768 s =? 32768 + s) 62); [vm_compute; reflexivity|].
  change (N.of_nat 62) with 62. exact Hl.
Qed.

(* ---- the C option structs have the format's layout ---- *)
Lemma struct_gzip a b c :
  mk_struct co_sizeof_gzip_options_t
    [(co_off_gzip_options_t_level, co_width_gzip_options_t_level, a);
     (co_off_gzip_options_t_window, co_width_gzip_options_t_window, b);
     (co_off_gzip_options_t_strategies, co_width_gzip_options_t_strategies, c)] = fmt_gzip a b c.
Proof. cbv -[N.modulo N.div]. reflexivity. Qed.
Lemma struct_xz a b :
  mk_struct co_sizeof_xz_options_t
    [(co_off_xz_options_t_dict_size, co_width_xz_options_t_dict_size, a);
     (co_off_xz_options_t_flags, co_width_xz_options_t_flags, b)] = fmt_xz a b.
Proof. cbv -[N.modulo N.div]. reflexivity. Qed.
Lemma struct_lz4 a b :
  mk_struct co_sizeof_lz4_options
    [(co_off_lz4_options_version, co_width_lz4_options_version, a);
     (co_off_lz4_options_flags, co_width_lz4_options_flags, b)] = fmt_lz4 a b.
Proof. cbv -[N.modulo N.div]. reflexivity. Qed.
Lemma struct_zstd a :
  mk_struct co_sizeof_zstd_options_t [(co_off_zstd_options_t_level, co_width_zstd_options_t_level, a)] = fmt_zstd a.
Proof. cbv -[N.modulo N.div]. reflexivity. Qed.

Lemma len_fmt_gzip a b c : lenN (fmt_gzip a b c) = co_sizeof_gzip_options_t.
Proof. unfold fmt_gzip, lenN. rewrite !app_length, !le_length. reflexivity. Qed.
Lemma len_fmt_xz a b : lenN (fmt_xz a b) = co_sizeof_xz_options_t.
Proof. unfold fmt_xz, lenN. rewrite !app_length, !le_length. reflexivity. Qed.
Lemma len_fmt_lz4 a b : lenN (fmt_lz4 a b) = co_sizeof_lz4_options.
Proof. unfold fmt_lz4, lenN. rewrite !app_length, !le_length. reflexivity. Qed.
Lemma len_fmt_zstd a : lenN (fmt_zstd a) = co_sizeof_zstd_options_t.
Proof. unfold fmt_zstd, lenN. rewrite le_length. reflexivity. Qed.

(* decoding the payloads *)
Lemma dec_gzip a b c :
  getk co_width_gzip_options_t_level co_off_gzip_options_t_level (fmt_gzip a b c) = a mod 4294967296 /\
  getk co_width_gzip_options_t_window co_off_gzip_options_t_window (fmt_gzip a b c) = b mod 65536 /\
  getk co_width_gzip_options_t_strategies co_off_gzip_options_t_strategies (fmt_gzip a b c) = c mod 65536.
Proof.
  unfold getk, fld, fmt_gzip. repeat split.
  - change (nN co_off_gzip_options_t_level) with 0%nat. rewrite skipn_O. apply (rdk_le_app 4).
  - change (nN co_off_gzip_options_t_window) with (4 + 0)%nat. rewrite skipn_add_le_app, skipn_O. apply (rdk_le_app 2).
  - change (nN co_off_gzip_options_t_strategies) with (4 + 2)%nat. rewrite skipn_add_le_app.
    change 2%nat with (2 + 0)%nat at 1. rewrite skipn_add_le_app, skipn_O.
    rewrite <- (app_nil_r (le 2 c)). apply (rdk_le_app 2).
Qed.
Lemma dec_xz a b :
  getk co_width_xz_options_t_dict_size co_off_xz_options_t_dict_size (fmt_xz a b) = a mod 4294967296 /\
  getk co_width_xz_options_t_flags co_off_xz_options_t_flags (fmt_xz a b) = b mod 4294967296.
Proof.
  unfold getk, fld, fmt_xz. split.
  - change (nN co_off_xz_options_t_dict_size) with 0%nat. rewrite skipn_O. apply (rdk_le_app 4).
  - change (nN co_off_xz_options_t_flags) with (4 + 0)%nat. rewrite skipn_add_le_app, skipn_O.
    rewrite <- (app_nil_r (le 4 b)). apply (rdk_le_app 4).
Qed.
Lemma dec_lz4 a b :
  getk co_width_lz4_options_version co_off_lz4_options_version (fmt_lz4 a b) = a mod 4294967296.
Proof.
  unfold getk, fld, fmt_lz4. change (nN co_off_lz4_options_version) with 0%nat. rewrite skipn_O. apply (rdk_le_app 4).
Qed.
