(* CompOpt -- create on the configuration a valid object reports, the reading side default object, comp_options_rt *)
From Coq Require Import List NArith ZArith Bool Lia.
From SqfsV Require Import Gen.Constants Base.Bytes C05.RBase C05.BaseProofs C05.Super C05.SuperProofs CompOpt.GenCompOpt
  CompOpt.Model CompOpt.BaseLemmas CompOpt.CreateProofs.
Import ListNotations.
Local Open Scope N_scope.

Lemma getk_lt w off o : getk w off o < 256 ^ N.of_nat (nN w).
Proof. unfold getk, fld, rdk. apply N.mod_lt. apply N.pow_nonzero. discriminate. Qed.

(* ---- create on the configuration a (valid) object reports ---- *)
Lemma gzip_recreate fx avail s :
  avail ID_GZIP = true ->
  co_SQFS_GZIP_MIN_LEVEL <= gz_level s <= co_SQFS_GZIP_MAX_LEVEL ->
  co_SQFS_GZIP_MIN_WINDOW <= gz_window s <= co_SQFS_GZIP_MAX_WINDOW ->
  N.ldiff (gz_strategies s) co_SQFS_COMP_FLAG_GZIP_ALL = 0 ->
  exists s2, compressor_create fx avail (gzip_get_configuration s) = Ok (SGzip s2) /\
             gz_level s2 = gz_level s /\ gz_window s2 = gz_window s /\ gz_strategies s2 = gz_strategies s.
Proof.
  intros Ha Hl Hw Ht.
  assert (Ht' : gz_strategies s < N.of_nat 32).
  { apply N.ldiff_le in Ht. assert (co_SQFS_COMP_FLAG_GZIP_ALL < N.of_nat 32) by reflexivity. lia. }
  set (fl := if gz_compress s then gz_strategies s else N.lor (gz_strategies s) F_UNCOMPRESS).
  assert (F : N.ldiff (trunc co_width_sqfs_compressor_config_t_flags fl) (N.lor co_SQFS_COMP_FLAG_GZIP_ALL F_GENERIC_ALL) = 0 /\
              N.land (trunc co_width_sqfs_compressor_config_t_flags fl) co_SQFS_COMP_FLAG_GZIP_ALL = gz_strategies s).
  { pose proof (forallb_below (fun t => implb (N.ldiff t co_SQFS_COMP_FLAG_GZIP_ALL =? 0)
        (forallb (fun f => (N.ldiff (trunc co_width_sqfs_compressor_config_t_flags f) (N.lor co_SQFS_COMP_FLAG_GZIP_ALL F_GENERIC_ALL) =? 0)
                           && (N.land (trunc co_width_sqfs_compressor_config_t_flags f) co_SQFS_COMP_FLAG_GZIP_ALL =? t))
                 [t; N.lor t F_UNCOMPRESS])) 32 ltac:(vm_compute; reflexivity) _ Ht') as P.
    cbv beta in P. rewrite Ht, N.eqb_refl in P. cbn [implb forallb] in P.
    unfold fl. destruct (gz_compress s); bdestr; split; assumption. }
  destruct F as [F1 F2].
  unfold gzip_get_configuration. fold fl.
  unfold set_gz_window, with_opt. cbn [c_id c_flags c_bs c_level c_opt]. rewrite zero_opt_og, setw_og.
  rewrite create_gzip_eq; [|reflexivity|exact Ha|apply pad_og].
  unfold gzip_create, cfg_window. cbn [c_id c_flags c_bs c_level c_opt]. rewrite getw_og, F1. cbn [N.eqb negb].
  assert (co_SQFS_GZIP_MAX_LEVEL < 256 ^ co_width_sqfs_compressor_config_t_level) by reflexivity.
  assert (co_SQFS_GZIP_MAX_WINDOW < 65536) by reflexivity.
  assert (co_SQFS_GZIP_MAX_LEVEL < 256 ^ co_width_gzip_options_t_level) by reflexivity.
  assert (co_SQFS_GZIP_MAX_WINDOW < 256 ^ co_width_gzip_options_t_window) by reflexivity.
  assert (co_SQFS_COMP_FLAG_GZIP_ALL < 256 ^ co_width_gzip_options_t_strategies) by reflexivity.
  rewrite (trunc_small co_width_sqfs_compressor_config_t_level) by lia. rewrite (N.mod_small (gz_window s)) by lia.
  destruct ((gz_level s <? co_SQFS_GZIP_MIN_LEVEL) || (co_SQFS_GZIP_MAX_LEVEL <? gz_level s)) eqn:E1;
    [apply orb_true_iff in E1; destruct E1; bdestr; lia|].
  destruct ((gz_window s <? co_SQFS_GZIP_MIN_WINDOW) || (co_SQFS_GZIP_MAX_WINDOW <? gz_window s)) eqn:E2;
    [apply orb_true_iff in E2; destruct E2; bdestr; lia|].
  eexists. split; [reflexivity|]. cbn [gz_level gz_window gz_strategies].
  rewrite F2. apply N.ldiff_le in Ht. rewrite !trunc_small by lia. auto.
Qed.

Definition xz_filter_mask : N := N.ldiff co_SQFS_COMP_FLAG_XZ_ALL co_SQFS_COMP_FLAG_XZ_EXTREME.

Lemma xz_filters_sub s : N.ldiff (xz_filters s) xz_filter_mask = 0.
Proof.
  unfold xz_filters, xz_filter_mask. apply N.bits_inj. intros i.
  rewrite !N.ldiff_spec, N.land_spec, N.bits_0.
  destruct (N.testbit (xz_flags s) i), (N.testbit co_SQFS_COMP_FLAG_XZ_ALL i), (N.testbit co_SQFS_COMP_FLAG_XZ_EXTREME i); reflexivity.
Qed.

Lemma xz_filters_facts f uncomp :
  N.ldiff f xz_filter_mask = 0 ->
  let fl := trunc co_width_sqfs_compressor_config_t_flags f in
  let fl := if uncomp : bool then N.lor fl F_UNCOMPRESS else fl in
  N.ldiff f co_SQFS_COMP_FLAG_XZ_ALL = 0 /\
  N.ldiff fl (N.lor F_GENERIC_ALL co_SQFS_COMP_FLAG_XZ_ALL) = 0 /\
  N.ldiff (N.land fl co_SQFS_COMP_FLAG_XZ_ALL) co_SQFS_COMP_FLAG_XZ_EXTREME = f /\
  N.ldiff (N.land f co_SQFS_COMP_FLAG_XZ_ALL) co_SQFS_COMP_FLAG_XZ_EXTREME = f.
Proof.
  intros H. assert (Hf : f < N.of_nat 64).
  { apply N.ldiff_le in H. assert (xz_filter_mask < N.of_nat 64) by reflexivity. lia. }
  pose proof (forallb_below (fun f => implb (N.ldiff f xz_filter_mask =? 0)
     ((N.ldiff f co_SQFS_COMP_FLAG_XZ_ALL =? 0) &&
      (N.ldiff (N.land f co_SQFS_COMP_FLAG_XZ_ALL) co_SQFS_COMP_FLAG_XZ_EXTREME =? f) &&
      forallb (fun fl => (N.ldiff fl (N.lor F_GENERIC_ALL co_SQFS_COMP_FLAG_XZ_ALL) =? 0) &&
                         (N.ldiff (N.land fl co_SQFS_COMP_FLAG_XZ_ALL) co_SQFS_COMP_FLAG_XZ_EXTREME =? f))
              [trunc co_width_sqfs_compressor_config_t_flags f;
               N.lor (trunc co_width_sqfs_compressor_config_t_flags f) F_UNCOMPRESS])) 64 ltac:(vm_compute; reflexivity) _ Hf) as P.
  cbv beta in P. rewrite H, N.eqb_refl in P. cbn [implb forallb] in P. bdestr.
  cbv zeta. destruct uncomp; repeat split; assumption.
Qed.

Lemma xz_recreate fx avail s :
  avail ID_XZ = true ->
  is_dict_size_valid fx (xz_dictsz s) = true ->
  co_SQFS_XZ_MIN_DICT_SIZE <= xz_dictsz s <= co_SQFS_XZ_MAX_DICT_SIZE ->
  xz_lcv s + xz_lpv s <= 4 -> xz_pbv s <= co_SQFS_XZ_MAX_PB -> xz_level s <= co_SQFS_XZ_MAX_LEVEL ->
  N.ldiff (xz_flags s) xz_filter_mask = 0 ->
  exists s2, compressor_create fx avail (xz_get_configuration s) = Ok (SXz s2) /\
             xz_dictsz s2 = xz_dictsz s /\ xz_filters s2 = xz_flags s.
Proof.
  intros Ha Hv Hd Hlc Hpb Hlv Hf.
  destruct (xz_filters_facts (xz_flags s) (xz_uncomp s) Hf) as (F0 & F1 & F2 & _). cbv zeta in F1, F2.
  unfold xz_get_configuration.
  set (fl := if xz_uncomp s then N.lor (trunc co_width_sqfs_compressor_config_t_flags (xz_flags s)) F_UNCOMPRESS
             else trunc co_width_sqfs_compressor_config_t_flags (xz_flags s)) in *.
  unfold set_xz_pb, set_xz_lp, set_xz_lc, set_xz_dict, with_opt. cbn [c_id c_flags c_bs c_level c_opt].
  rewrite zero_opt_ox, setd_ox, setlc_ox, setlp_ox, setpb_ox.
  rewrite create_xz_eq; [|reflexivity|exact Ha|apply pad_ox].
  assert (B1 : co_SQFS_XZ_MAX_DICT_SIZE < 4294967296) by reflexivity.
  assert (B2 : co_SQFS_XZ_MAX_PB < 256) by reflexivity.
  assert (B3 : co_SQFS_XZ_MAX_LEVEL < 256 ^ co_width_sqfs_compressor_config_t_level) by reflexivity.
  unfold xz_create, xz_dict, xz_lc, xz_lp, xz_pb. cbn [c_id c_flags c_bs c_level c_opt].
  rewrite getd_ox, getlc_ox, getlp_ox, getpb_ox, F1. cbn [N.eqb negb].
  rewrite (N.mod_small (xz_dictsz s)) by lia.
  rewrite !N.mod_mod by discriminate.
  rewrite (N.mod_small (xz_lcv s)), (N.mod_small (xz_lpv s)), (N.mod_small (xz_pbv s)) by lia.
  rewrite (trunc_small co_width_sqfs_compressor_config_t_level) by lia.
  rewrite Hv. cbn [negb].
  destruct (4 <? xz_lcv s + xz_lpv s) eqn:E3; [bdestr; lia|].
  destruct (co_SQFS_XZ_MAX_PB <? xz_pbv s) eqn:E4; [bdestr; lia|].
  destruct (co_SQFS_XZ_MAX_LEVEL <? xz_level s) eqn:E5; [bdestr; lia|].
  destruct (xz_dictsz s <? co_SQFS_XZ_MIN_DICT_SIZE) eqn:E6; [bdestr; lia|].
  destruct (co_SQFS_XZ_MAX_DICT_SIZE <? xz_dictsz s) eqn:E7; [bdestr; lia|].
  eexists. split; [reflexivity|]. unfold xz_filters. cbn [xz_dictsz xz_flags]. split; [reflexivity|exact F2].
Qed.

(* ---- the reading side's default compressor object ---- *)
Definition reader_default (fx : fixes) (avail : N -> bool) (id bs : N) : res cstate :=
  compressor_create fx avail (snd (config_init id bs F_UNCOMPRESS)).

Lemma reader_default_gzip fx avail bs : avail ID_GZIP = true ->
  reader_default fx avail ID_GZIP bs =
  Ok (SGzip (MkGz false (trunc co_width_sqfs_compressor_config_t_block_size bs) co_SQFS_GZIP_DEFAULT_LEVEL
                  co_SQFS_GZIP_DEFAULT_WINDOW 0)).
Proof.
  intros Ha. unfold reader_default. rewrite config_init_gzip by reflexivity. cbn [snd].
  rewrite create_gzip_eq; [|reflexivity|exact Ha|apply pad_og].
  unfold gzip_create, cfg_window. cbn [c_id c_flags c_bs c_level c_opt]. rewrite getw_og. reflexivity.
Qed.

Lemma reader_default_xz fx avail bs : avail ID_XZ = true -> In bs block_sizes ->
  reader_default fx avail ID_XZ bs =
  Ok (SXz (MkXz true bs (xz_default_dict bs) co_SQFS_XZ_DEFAULT_LEVEL co_SQFS_XZ_DEFAULT_LC co_SQFS_XZ_DEFAULT_LP
                co_SQFS_XZ_DEFAULT_PB F_UNCOMPRESS)).
Proof.
  intros Ha Hb. destruct (default_dict_valid fx bs Hb) as (V & R & L & _ & T).
  unfold reader_default. rewrite config_init_xz by reflexivity. cbn [snd].
  rewrite create_xz_eq; [|reflexivity|exact Ha|apply pad_ox].
  unfold xz_create, xz_dict, xz_lc, xz_lp, xz_pb. cbn [c_id c_flags c_bs c_level c_opt].
  rewrite getd_ox, getlc_ox, getlp_ox, getpb_ox, T.
  unfold two32 in L. rewrite (N.mod_small (xz_default_dict bs)) by exact L. rewrite V.
  destruct (xz_default_dict bs <? co_SQFS_XZ_MIN_DICT_SIZE) eqn:E6; [bdestr; lia|].
  destruct (co_SQFS_XZ_MAX_DICT_SIZE <? xz_default_dict bs) eqn:E7; [bdestr; lia|].
  reflexivity.
Qed.

Lemma reader_default_lz4 fx avail bs : avail ID_LZ4 = true ->
  reader_default fx avail ID_LZ4 bs = Ok (SLz4 (MkLz4 true (trunc co_width_sqfs_compressor_config_t_block_size bs) false)).
Proof.
  intros Ha. unfold reader_default. rewrite config_init_lz4 by reflexivity. cbn [snd].
  rewrite create_lz4_eq; [|reflexivity|exact Ha|apply pad_zero_opt]. reflexivity.
Qed.

Lemma reader_default_zstd fx avail bs : avail ID_ZSTD = true -> co_SQFS_ZSTD_DEFAULT_LEVEL <= co_ZSTD_maxCLevel ->
  reader_default fx avail ID_ZSTD bs =
  Ok (SZstd (MkZstd true (trunc co_width_sqfs_compressor_config_t_block_size bs) co_SQFS_ZSTD_DEFAULT_LEVEL)).
Proof.
  intros Ha Hm. unfold reader_default. rewrite config_init_zstd by reflexivity. cbn [snd].
  rewrite create_zstd_eq; [|reflexivity|exact Ha|apply pad_zero_opt].
  unfold zstd_create. cbn [c_id c_flags c_bs c_level c_opt].
  change (negb (N.ldiff (trunc 2 F_UNCOMPRESS) F_GENERIC_ALL =? 0)) with false. cbv iota.
  destruct ((co_SQFS_ZSTD_DEFAULT_LEVEL <? 1) || (co_ZSTD_maxCLevel <? co_SQFS_ZSTD_DEFAULT_LEVEL)) eqn:E.
  - apply orb_true_iff in E. destruct E as [E|E]; [discriminate E|bdestr; lia].
  - reflexivity.
Qed.

Lemma reader_default_lzma fx avail bs : avail ID_LZMA = true -> In bs block_sizes ->
  exists s, reader_default fx avail ID_LZMA bs = Ok (SLzma s).
Proof.
  intros Ha Hb. unfold reader_default. rewrite config_init_lzma by reflexivity. cbn [snd].
  rewrite create_lzma_eq; [|reflexivity|exact Ha|apply pad_ox].
  unfold block_sizes in Hb.
  repeat (destruct Hb as [<-|Hb]; [eexists; vm_compute; reflexivity|]). destruct Hb.
Qed.

(* ---- comp_options_rt ---- *)
Lemma comp_options_rt_l : forall fx avail c st pre tail,
  compressor_create fx avail c = Ok st -> In (c_bs c) block_sizes -> lenN pre = sizeof_sqfs_super_t ->
  exists st0, reader_default fx avail (c_id c) (c_bs c) = Ok st0 /\
    write_options st = Ok (if is_default st then [] else fmt_block (fmt_payload st)) /\
    (if is_default st then kept st0 = kept st
     else exists st1, read_options fx st0 (pre ++ fmt_block (fmt_payload st) ++ tail) = (Ok tt, st1) /\
          kept st1 = kept st /\
          exists st2, compressor_create fx avail (get_configuration st1) = Ok st2 /\ kept st2 = kept st).
Proof.
  intros fx avail c st pre tail Hc Hbs Hp.
  destruct (create_inv _ _ _ _ Hc) as [Ha [(Hi & _ & Hb)|[(Hi & _ & Hb)|[(Hi & _ & Hb)|[(Hi & _ & Hb)|(Hi & _ & Hb)]]]]];
    rewrite Hi in *.
  - (* gzip *)
    destruct (gzip_create_inv _ _ Hb) as (Hf & Hl & Hw & ->).
    eexists. split; [apply reader_default_gzip; exact Ha|]. split; [apply write_options_spec|].
    set (s := MkGz _ _ _ _ _).
    assert (Hs : N.ldiff (gz_strategies s) co_SQFS_COMP_FLAG_GZIP_ALL = 0).
    { unfold s. cbn [gz_strategies]. apply N.bits_inj. intros i. rewrite N.ldiff_spec, N.land_spec, N.bits_0.
      destruct (N.testbit (c_flags c) i), (N.testbit co_SQFS_COMP_FLAG_GZIP_ALL i); reflexivity. }
    destruct (is_default (SGzip s)) eqn:Ed.
    + cbn [is_default] in Ed. bdestr. cbn [kept gz_level gz_window gz_strategies] in *. congruence.
    + assert (M1 : 1 <= co_SQFS_GZIP_MIN_LEVEL) by cle. assert (M2 : co_SQFS_GZIP_MAX_LEVEL <= 9) by cle.
      assert (M3 : 8 <= co_SQFS_GZIP_MIN_WINDOW) by cle. assert (M4 : co_SQFS_GZIP_MAX_WINDOW <= 15) by cle.
      eexists. split.
      { cbn [fmt_payload]. apply gzip_read_block; [exact Hp| | |exact Hs]; unfold s; cbn [gz_level gz_window]; lia. }
      split; [reflexivity|].
      match goal with |- exists st2, compressor_create _ _ (get_configuration (SGzip ?s1)) = _ /\ _ =>
        destruct (gzip_recreate fx avail s1 Ha) as (s2 & C2 & E1 & E2 & E3); [exact Hl|exact Hw|exact Hs|] end.
      exists (SGzip s2). split; [exact C2|]. cbn [kept]. rewrite E1, E2, E3. reflexivity.
  - (* xz *)
    destruct (xz_create_inv _ _ _ Hb) as (Hf & Hv & Hlc & Hpb & Hlv & Hd & ->).
    eexists. split; [apply reader_default_xz; assumption|]. split; [apply write_options_spec|].
    set (s := MkXz _ _ _ _ _ _ _ _).
    destruct (default_dict_valid fx (c_bs c) Hbs) as (_ & _ & _ & Dd & _).
    destruct (is_default (SXz s)) eqn:Ed.
    + cbn [is_default] in Ed. unfold s in Ed. cbn [xz_flags xz_dictsz xz_bs] in Ed. bdestr.
      cbn [kept]. unfold xz_filters, s. cbn [xz_dictsz xz_flags].
      rewrite Dd by lia. rewrite H, H0. reflexivity.
    + pose proof (xz_filters_sub s) as Fs.
      destruct (xz_filters_facts (xz_filters s) true Fs) as (F0 & _ & _ & F3).
      eexists. split.
      { cbn [fmt_payload]. apply xz_read_block; [exact Hp| |exact Hv|exact F0].
        unfold s. cbn [xz_dictsz]. apply (getk_lt co_sizeof_opt_xz_dict_size). }
      split. { cbn [kept xz_dictsz]. f_equal. f_equal. unfold xz_filters at 1. cbn [xz_flags]. exact F3. }
      match goal with |- exists st2, compressor_create _ _ (get_configuration (SXz ?s1)) = _ /\ _ =>
        destruct (xz_recreate fx avail s1 Ha) as (s2 & C2 & E1 & E2) end;
        [exact Hv|exact Hd|cle|cle|cle|exact Fs|].
      exists (SXz s2). split; [exact C2|]. cbn [kept]. rewrite E1, E2. reflexivity.
  - (* lzma: never an options block *)
    destruct (lzma_create_inv _ _ Hb) as (_ & _ & _ & _ & _ & s & -> & _).
    destruct (reader_default_lzma fx avail (c_bs c) Ha Hbs) as (s0 & R).
    exists (SLzma s0). split; [exact R|]. split; [apply write_options_spec|]. reflexivity.
  - (* lz4: always an options block *)
    destruct (lz4_create_inv _ _ Hb) as (_ & _ & ->).
    eexists. split; [apply reader_default_lz4; exact Ha|]. split; [apply write_options_spec|].
    cbn [is_default]. eexists. split; [cbn [fmt_payload]; apply lz4_read_block; exact Hp|].
    split; [reflexivity|].
    eexists. split.
    { cbn [get_configuration]. rewrite create_lz4_eq; [|reflexivity|exact Ha|apply pad_zero_opt]. reflexivity. }
    reflexivity.
  - (* zstd *)
    destruct (zstd_create_inv _ _ Hb) as (_ & Hl & ->).
    assert (Hm : co_SQFS_ZSTD_DEFAULT_LEVEL <= co_ZSTD_maxCLevel) by cle.
    eexists. split; [apply reader_default_zstd; assumption|]. split; [apply write_options_spec|].
    destruct (is_default _); [reflexivity|].
    eexists. split; [cbn [fmt_payload]; apply zstd_read_block; exact Hp|]. split; [reflexivity|].
    eexists. split; [|shelve].
    cbn [get_configuration]. rewrite create_zstd_eq; [|reflexivity|exact Ha|apply pad_zero_opt].
    unfold zstd_create, zstd_get_configuration. cbn [c_id c_flags c_bs c_level c_opt zs_uncomp zs_level].
    change (negb (N.ldiff F_UNCOMPRESS F_GENERIC_ALL =? 0)) with false. cbv iota.
    assert (co_SQFS_ZSTD_DEFAULT_LEVEL < 256 ^ co_width_sqfs_compressor_config_t_level) by reflexivity.
    rewrite trunc_small by exact H.
    destruct ((co_SQFS_ZSTD_DEFAULT_LEVEL <? 1) || (co_ZSTD_maxCLevel <? co_SQFS_ZSTD_DEFAULT_LEVEL)) eqn:E.
    + apply orb_true_iff in E. destruct E as [E|E]; [discriminate E|bdestr; lia].
    + reflexivity.
    Unshelve. reflexivity.
Qed.
