(* CompOpt -- the option string parser: termination, documented ranges, create verdict, witnesses of F27 / F28 *)
From Coq Require Import List NArith ZArith Bool Lia.
From SqfsV Require Import Gen.Constants Base.Bytes C05.RBase C05.BaseProofs C05.Super C05.SuperProofs CompOpt.GenCompOpt
  CompOpt.Model CompOpt.Parse CompOpt.BaseLemmas CompOpt.CreateProofs CompOpt.RoundTrip CompOpt.ReadProofs.
Import ListNotations.
Local Open Scope N_scope.

Lemma find_idx_bound {A} (p : A -> bool) l : forall i j, find_idx p l i = Some j -> i <= j < i + lenN l.
Proof.
  induction l as [|a r IH]; intros i j H; cbn [find_idx] in H; [discriminate|].
  rewrite lenN_cons. destruct (p a).
  - injection H as <-. lia.
  - apply IH in H. lia.
Qed.

Lemma split_at_rest ch s r : snd (split_at ch s) = Some r -> (length r < length s)%nat.
Proof.
  revert r. induction s as [|c t IH]; intros r H; cbn [split_at] in H; [discriminate|].
  destruct (c =? ch).
  - cbn in H. injection H as <-. cbn. lia.
  - cbn [snd] in H. apply IH in H. cbn. lia.
Qed.

Lemma getsubopt_rest tokens s o v rest : s <> [] -> getsubopt tokens s = (o, v, rest) -> (length rest < length s)%nat.
Proof.
  intros Hs H. unfold getsubopt in H.
  assert (R : (length (match snd (split_at 44 s) with Some r => r | None => [] end) < length s)%nat).
  { destruct (snd (split_at 44 s)) eqn:E; [apply split_at_rest in E; exact E|].
    destruct s; [contradiction|cbn; lia]. }
  destruct (find_idx (list_eqb (fst (split_at 61 (fst (split_at 44 s))))) tokens 0) in H; injection H as _ _ <-; exact R.
Qed.

(* the loop never runs out of the fuel compressor_cfg_init_options gives it *)
Lemma opt_loop_fuel fx : forall fuel c s, (length s < fuel)%nat -> opt_loop fx fuel c s <> PFuel.
Proof.
  induction fuel as [|f IH]; intros c s Hl; [lia|]. destruct s as [|a t]; [discriminate|].
  cbn [opt_loop]. destruct (getsubopt co_tokens (a :: t)) as [[o v] rest] eqn:G.
  destruct (step fx c o v); [discriminate|]. apply IH.
  apply getsubopt_rest in G; [|discriminate]. lia.
Qed.

Lemma comp_opt_string_total_l : forall fx id bs o, cfg_init_options fx id bs o <> PFuel.
Proof.
  intros fx id bs o. unfold cfg_init_options. destruct (negb _); [discriminate|]. destruct o as [s|]; [|discriminate].
  pose proof (opt_loop_fuel fx (S (length s)) (snd (config_init id bs 0)) s ltac:(lia)) as H.
  destruct (opt_loop fx (S (length s)) (snd (config_init id bs 0)) s); try congruence.
  destruct (_ && _); discriminate.
Qed.

(* what a successful round of the loop did *)
Lemma step_inv fx c o v c' : step fx c o v = inr c' ->
  (o = None /\ exists name, v = Some name /\ set_flag c name = Some c') \/
  (exists name, o = Some co_OPT_ALG /\ opt_avail (c_id c) co_OPT_ALG = true /\ v = Some name /\ find_lzo_alg c name = Some c') \/
  (exists i ival, o = Some i /\ i <> co_OPT_ALG /\ opt_avail (c_id c) i = true /\
     (fst (range_of (c_id c) i) <= ival <= snd (range_of (c_id c) i))%Z /\ c' = assign c i ival).
Proof.
  unfold step. intros H. destruct o as [i|].
  - destruct (negb (opt_avail (c_id c) i)) eqn:Ea; [discriminate|]. apply negb_false_iff in Ea.
    destruct v as [val|]; [|discriminate].
    destruct (i =? co_OPT_ALG) eqn:Ei.
    + apply N.eqb_eq in Ei. subst i. right; left. destruct (find_lzo_alg c val) eqn:F; [|discriminate].
      injection H as <-. exists val. auto.
    + apply N.eqb_neq in Ei. right; right.
      match type of H with match ?iv with inl _ => _ | inr _ => _ end = _ => destruct iv as [d|ival]; [discriminate|] end.
      destruct (ival <? fst (range_of (c_id c) i))%Z eqn:E1; [discriminate|].
      destruct (snd (range_of (c_id c) i) <? ival)%Z eqn:E2; [discriminate|].
      injection H as <-. exists i, ival. apply Z.ltb_ge in E1, E2. repeat split; auto.
  - left. split; [reflexivity|]. destruct v as [name|]; [|discriminate].
    destruct (set_flag c name) eqn:F; [|discriminate]. injection H as <-. exists name. auto.
Qed.

(* ---- what the option parser guarantees about the configuration it returns: the documented ranges
   (doc of -X in gensquashfs(1) / compressor_print_help; literals of the documentation, not of the tables) ---- *)
Definition dict_dom (bs d : N) : Prop := d = xz_default_dict bs mod 4294967296 \/ 8192 <= d <= 1048576.

Definition opts_in_range (id bs : N) (c : cfg) : Prop :=
  c_id c = id /\ c_bs c = trunc co_width_sqfs_compressor_config_t_block_size bs /\
  ((id = ID_GZIP /\ exists w, c_opt c = og w /\ 8 <= w <= 15 /\ 1 <= c_level c <= 9 /\ N.ldiff (c_flags c) 31 = 0) \/
   (id = ID_XZ /\ exists d lc lp pb, c_opt c = ox d lc lp pb /\ dict_dom bs d /\ lc <= 4 /\ lp <= 4 /\ pb <= 4 /\
                 c_level c <= 9 /\ N.ldiff (c_flags c) 319 = 0) \/
   (id = ID_LZMA /\ exists d lc lp pb, c_opt c = ox d lc lp pb /\ dict_dom bs d /\ lc <= 4 /\ lp <= 4 /\ pb <= 4 /\
                   c_level c <= 9 /\ N.ldiff (c_flags c) 1 = 0) \/
   (id = ID_LZO /\ exists a, c_opt c = og a /\ a <= 4 /\ c_level c <= 9 /\ c_flags c = 0) \/
   (id = ID_LZ4 /\ c_opt c = zero_opt /\ c_level c = 0 /\ N.ldiff (c_flags c) 1 = 0) \/
   (id = ID_ZSTD /\ c_opt c = zero_opt /\ 1 <= c_level c <= 22 /\ c_flags c = 0)).

Lemma le_mod k : forall v, le k (v mod 256 ^ N.of_nat k) = le k v.
Proof.
  induction k as [|k IH]; intros v; [reflexivity|]. cbn [le].
  rewrite Nat2N.inj_succ, N.pow_succ_r'.
  assert (P : 256 ^ N.of_nat k <> 0) by (apply N.pow_nonzero; discriminate).
  rewrite N.mod_mul_r by (try discriminate; exact P).
  set (x := (v / 256) mod 256 ^ N.of_nat k).
  assert (E1 : (v mod 256 + 256 * x) mod 256 = v mod 256).
  { rewrite (N.mul_comm 256), N.mod_add by discriminate. apply N.mod_mod. discriminate. }
  assert (E2 : (v mod 256 + 256 * x) / 256 = x).
  { rewrite (N.mul_comm 256), N.div_add by discriminate. rewrite N.div_small by (apply N.mod_lt; discriminate). reflexivity. }
  rewrite E1, E2. unfold x. rewrite IH. reflexivity.
Qed.
Lemma ox_mod d lc lp pb : ox (d mod 4294967296) lc lp pb = ox d lc lp pb.
Proof. unfold ox. change 4294967296 with (256 ^ N.of_nat 4). rewrite le_mod. reflexivity. Qed.
Lemma og_mod w : og (w mod 65536) = og w.
Proof. unfold og. change 65536 with (256 ^ N.of_nat 2). rewrite le_mod. reflexivity. Qed.

Lemma config_init_ids id bs fl c : config_init id bs fl = (0%Z, c) ->
  id = ID_GZIP \/ id = ID_XZ \/ id = ID_LZMA \/ id = ID_LZO \/ id = ID_LZ4 \/ id = ID_ZSTD.
Proof.
  unfold config_init. intros H.
  destruct (id =? ID_GZIP) eqn:E1; [apply N.eqb_eq in E1; auto|].
  destruct (id =? ID_LZO) eqn:E2; [apply N.eqb_eq in E2; auto 6|].
  destruct (id =? ID_ZSTD) eqn:E3; [apply N.eqb_eq in E3; auto 7|].
  destruct (id =? ID_XZ) eqn:E4; [apply N.eqb_eq in E4; auto|].
  destruct (id =? ID_LZMA) eqn:E5; [apply N.eqb_eq in E5; auto|].
  destruct (id =? ID_LZ4) eqn:E6; [apply N.eqb_eq in E6; auto 6|].
  discriminate.
Qed.

Lemma init_in_range id bs c : config_init id bs 0 = (0%Z, c) -> opts_in_range id bs c.
Proof.
  intros H. destruct (config_init_ids _ _ _ _ H) as [-> | [-> | [-> | [-> | [-> | ->]]]]].
  - rewrite config_init_gzip in H by reflexivity. injection H as <-. split; [reflexivity|]. split; [reflexivity|].
    left. split; [reflexivity|]. exists co_SQFS_GZIP_DEFAULT_WINDOW. cbn [c_opt c_level c_flags].
    repeat split; try cle.
  - rewrite config_init_xz in H by reflexivity. injection H as <-. split; [reflexivity|]. split; [reflexivity|].
    right; left. split; [reflexivity|]. do 4 eexists. cbn [c_opt c_level c_flags].
    split; [symmetry; apply ox_mod|].
    split; [left; reflexivity|]. repeat split; try cle.
  - rewrite config_init_lzma in H by reflexivity. injection H as <-. split; [reflexivity|]. split; [reflexivity|].
    right; right; left. split; [reflexivity|]. do 4 eexists. cbn [c_opt c_level c_flags].
    split; [symmetry; apply ox_mod|].
    split; [left; reflexivity|]. repeat split; try cle.
  - rewrite config_init_lzo in H by reflexivity. injection H as <-. split; [reflexivity|]. split; [reflexivity|].
    right; right; right; left. split; [reflexivity|]. eexists. cbn [c_opt c_level c_flags].
    split; [reflexivity|]. repeat split; try cle.
  - rewrite config_init_lz4 in H by reflexivity. injection H as <-. split; [reflexivity|]. split; [reflexivity|].
    right; right; right; right; left. repeat split.
  - rewrite config_init_zstd in H by reflexivity. injection H as <-. split; [reflexivity|]. split; [reflexivity|].
    right; right; right; right; right. cbn [c_opt c_level c_flags]. repeat split; try cle.
Qed.

(* ---- one accepted round keeps the ranges ---- *)
Lemma zconv_small w z : (0 <= z < Z.of_N (256 ^ w))%Z -> zconv w z = Z.to_N z.
Proof. intros H. unfold zconv. rewrite Z.mod_small by exact H. reflexivity. Qed.

Lemma ldiff_lor_sub a f m : N.ldiff a m = 0 -> N.ldiff f m = 0 -> N.ldiff (N.lor a f) m = 0.
Proof.
  intros Ha Hf. apply N.bits_inj. intros i. rewrite N.ldiff_spec, N.lor_spec, N.bits_0.
  assert (A := f_equal (fun x => N.testbit x i) Ha). assert (F := f_equal (fun x => N.testbit x i) Hf).
  cbv beta in A, F. rewrite N.ldiff_spec, N.bits_0 in A, F.
  destruct (N.testbit a i), (N.testbit f i), (N.testbit m i); cbn in *; congruence.
Qed.

Lemma set_flag_range id bs c name c' : opts_in_range id bs c -> set_flag c name = Some c' -> opts_in_range id bs c'.
Proof.
  intros (Hi & Hb & H) Hs. unfold set_flag in Hs.
  destruct (find _ (nth (nN (c_id c)) co_comp_flags [])) as [p|] eqn:F; [|discriminate]. injection Hs as <-.
  apply find_some in F. destruct F as [Fin _].
  assert (K : forall m, m < 65536 -> N.ldiff (c_flags c) m = 0 -> N.ldiff (snd p) m = 0 ->
              N.ldiff (trunc co_width_sqfs_compressor_config_t_flags (N.lor (c_flags c) (snd p))) m = 0).
  { intros m Hm A B. pose proof (ldiff_lor_sub _ _ _ A B) as L. pose proof (N.ldiff_le _ _ L).
    rewrite trunc_small; [exact L|]. change (256 ^ co_width_sqfs_compressor_config_t_flags) with 65536. lia. }
  assert (T : forall k m, forallb (fun q : list N * N => N.ldiff (snd q) m =? 0) (nth k co_comp_flags []) = true ->
              nN (c_id c) = k -> N.ldiff (snd p) m = 0).
  { intros k m A E. rewrite E in Fin. rewrite forallb_forall in A. apply N.eqb_eq. apply (A p Fin). }
  split; [exact Hi|]. split; [exact Hb|].
  destruct H as [(E & w & Ho & Hw & Hl & Hf)|[(E & d & lc & lp & pb & Ho & Hd & H1 & H2 & H3 & Hl & Hf)|
                [(E & d & lc & lp & pb & Ho & Hd & H1 & H2 & H3 & Hl & Hf)|[(E & a & Ho & Ha & Hl & Hf)|
                [(E & Ho & Hl & Hf)|(E & Ho & Hl & Hf)]]]]]; rewrite E in Hi |- *; clear E.
  - left. split; [reflexivity|]. exists w. cbn [with_flags c_opt c_level c_flags]. repeat split; try assumption; try lia.
    apply K; [reflexivity|exact Hf|]. apply (T 1%nat); [vm_compute; reflexivity|rewrite Hi; reflexivity].
  - right; left. split; [reflexivity|]. exists d, lc, lp, pb. cbn [with_flags c_opt c_level c_flags].
    repeat split; try assumption.
    apply K; [reflexivity|exact Hf|]. apply (T 4%nat); [vm_compute; reflexivity|rewrite Hi; reflexivity].
  - right; right; left. split; [reflexivity|]. exists d, lc, lp, pb. cbn [with_flags c_opt c_level c_flags].
    repeat split; try assumption.
    apply K; [reflexivity|exact Hf|]. apply (T 2%nat); [vm_compute; reflexivity|rewrite Hi; reflexivity].
  - exfalso. rewrite Hi in Fin. change (nth (nN ID_LZO) co_comp_flags []) with (@nil (list N * N)) in Fin. exact Fin.
  - right; right; right; right; left. cbn [with_flags c_opt c_level c_flags]. repeat split; try assumption.
    apply K; [reflexivity|exact Hf|]. apply (T 5%nat); [vm_compute; reflexivity|rewrite Hi; reflexivity].
  - exfalso. rewrite Hi in Fin. change (nth (nN ID_ZSTD) co_comp_flags []) with (@nil (list N * N)) in Fin. exact Fin.
Qed.

Lemma lzo_alg_range id bs c name c' : opts_in_range id bs c -> opt_avail (c_id c) co_OPT_ALG = true ->
  find_lzo_alg c name = Some c' -> opts_in_range id bs c'.
Proof.
  intros (Hi & Hb & H) Ha Hs. unfold find_lzo_alg in Hs.
  destruct (find_idx _ co_lzo_algs 0) as [k|] eqn:F; [|discriminate]. injection Hs as <-.
  apply find_idx_bound in F. change (lenN co_lzo_algs) with 5 in F.
  split; [exact Hi|]. split; [exact Hb|].
  destruct H as [(E & _)|[(E & _)|[(E & _)|[(E & a & Ho & Ha' & Hl & Hf)|[(E & _)|(E & _)]]]]];
    rewrite E in Hi; rewrite Hi in Ha; try discriminate Ha.
  right; right; right; left. split; [exact E|]. exists k. unfold set_lzo_alg, with_opt. cbn [c_opt c_level c_flags].
  rewrite Ho, seta_og. repeat split; try assumption; lia.
Qed.

Lemma assign_range id bs c i ival : opts_in_range id bs c -> i <> co_OPT_ALG -> opt_avail (c_id c) i = true ->
  (fst (range_of (c_id c) i) <= ival <= snd (range_of (c_id c) i))%Z -> opts_in_range id bs (assign c i ival).
Proof.
  intros (Hi & Hb & H) Hne Ha Hr.
  assert (Hi7 : i < 7).
  { destruct (N.lt_ge_cases i 7) as [L|G]; [exact L|exfalso]. unfold opt_avail in Ha.
    assert (B : forall a, In a co_opt_available -> a < 2 ^ 7).
    { intros a Hin. unfold co_opt_available in Hin. repeat (destruct Hin as [<-|Hin]; [reflexivity|]). destruct Hin. }
    assert (A : nth (nN (c_id c)) co_opt_available 0 < 2 ^ 7).
    { destruct (nth_in_or_default (nN (c_id c)) co_opt_available 0) as [Hin|Hd]; [apply B; exact Hin|rewrite Hd; reflexivity]. }
    destruct (nth (nN (c_id c)) co_opt_available 0) as [|p] eqn:En; [rewrite N.bits_0 in Ha; discriminate|].
    rewrite N.bits_above_log2 in Ha; [discriminate|].
    apply N.lt_le_trans with 7; [|exact G]. apply N.log2_lt_pow2; [lia|exact A]. }
  assert (Hcases : i = 0 \/ i = 1 \/ i = 2 \/ i = 3 \/ i = 4 \/ i = 5 \/ i = 6) by lia.
  split; [destruct Hcases as [E0|[E0|[E0|[E0|[E0|[E0|E0]]]]]]; subst i; exact Hi|].
  split; [destruct Hcases as [E0|[E0|[E0|[E0|[E0|[E0|E0]]]]]]; subst i; exact Hb|].
  destruct H as [(E & w & Ho & Hw & Hl & Hf)|[(E & d & lc & lp & pb & Ho & Hd & H1 & H2 & H3 & Hl & Hf)|
                [(E & d & lc & lp & pb & Ho & Hd & H1 & H2 & H3 & Hl & Hf)|[(E & a & Ho & Ha' & Hl & Hf)|
                [(E & Ho & Hl & Hf)|(E & Ho & Hl & Hf)]]]]]; rewrite E in Hi; rewrite Hi in Ha, Hr;
  destruct Hcases as [E0|[E0|[E0|[E0|[E0|[E0|E0]]]]]]; subst i; vm_compute in Ha; try discriminate Ha;
  try (exfalso; apply Hne; reflexivity);
  match type of Hr with context [range_of ?a ?b] =>
    let r := eval vm_compute in (range_of a b) in change (range_of a b) with r in Hr end;
  cbn [fst snd] in Hr; destruct Hr as [R1 R2].
  - (* gzip window *) left. split; [exact E|]. exists (Z.to_N ival). unfold assign, set_gz_window, with_opt.
    cbn [N.eqb Pos.eqb co_OPT_LEVEL co_OPT_LC co_OPT_LP co_OPT_PB co_OPT_WINDOW c_opt c_level c_flags].
    rewrite Ho, setw_og. rewrite zconv_small by (change (Z.of_N (256 ^ co_sizeof_opt_gzip_window_size)) with 65536%Z; lia).
    repeat split; try assumption; lia.
  - (* gzip level *) left. split; [exact E|]. exists w. unfold assign, with_level.
    cbn [N.eqb Pos.eqb co_OPT_LEVEL c_opt c_level c_flags].
    rewrite zconv_small by (change (Z.of_N (256 ^ co_width_sqfs_compressor_config_t_level)) with 4294967296%Z; lia).
    repeat split; try assumption; lia.
  - (* xz level *) right; left. split; [exact E|]. exists d, lc, lp, pb. unfold assign, with_level.
    cbn [N.eqb Pos.eqb co_OPT_LEVEL c_opt c_level c_flags].
    rewrite zconv_small by (change (Z.of_N (256 ^ co_width_sqfs_compressor_config_t_level)) with 4294967296%Z; lia).
    repeat split; try assumption; lia.
  - (* xz dictsize *) right; left. split; [exact E|]. exists (Z.to_N ival), lc, lp, pb. unfold assign, set_xz_dict, with_opt.
    cbn [N.eqb Pos.eqb co_OPT_LEVEL co_OPT_LC co_OPT_LP co_OPT_PB co_OPT_WINDOW co_OPT_DICT c_opt c_level c_flags].
    rewrite Ho, setd_ox. rewrite zconv_small by (change (Z.of_N (256 ^ co_sizeof_opt_xz_dict_size)) with 4294967296%Z; lia).
    repeat split; try assumption. right. lia.
  - (* xz lc *) right; left. split; [exact E|]. exists d, (Z.to_N ival), lp, pb. unfold assign, set_xz_lc, with_opt.
    cbn [N.eqb Pos.eqb co_OPT_LEVEL co_OPT_LC c_opt c_level c_flags].
    rewrite Ho, setlc_ox. rewrite zconv_small by (change (Z.of_N (256 ^ co_sizeof_opt_xz_lc)) with 256%Z; lia).
    rewrite N.mod_small by lia. repeat split; try assumption; lia.
  - (* xz lp *) right; left. split; [exact E|]. exists d, lc, (Z.to_N ival), pb. unfold assign, set_xz_lp, with_opt.
    cbn [N.eqb Pos.eqb co_OPT_LEVEL co_OPT_LC co_OPT_LP c_opt c_level c_flags].
    rewrite Ho, setlp_ox. rewrite zconv_small by (change (Z.of_N (256 ^ co_sizeof_opt_xz_lp)) with 256%Z; lia).
    rewrite N.mod_small by lia. repeat split; try assumption; lia.
  - (* xz pb *) right; left. split; [exact E|]. exists d, lc, lp, (Z.to_N ival). unfold assign, set_xz_pb, with_opt.
    cbn [N.eqb Pos.eqb co_OPT_LEVEL co_OPT_LC co_OPT_LP co_OPT_PB c_opt c_level c_flags].
    rewrite Ho, setpb_ox. rewrite zconv_small by (change (Z.of_N (256 ^ co_sizeof_opt_xz_pb)) with 256%Z; lia).
    rewrite N.mod_small by lia. repeat split; try assumption; lia.
  - (* lzma level *) right; right; left. split; [exact E|]. exists d, lc, lp, pb. unfold assign, with_level.
    cbn [N.eqb Pos.eqb co_OPT_LEVEL c_opt c_level c_flags].
    rewrite zconv_small by (change (Z.of_N (256 ^ co_width_sqfs_compressor_config_t_level)) with 4294967296%Z; lia).
    repeat split; try assumption; lia.
  - (* lzma dictsize *) right; right; left. split; [exact E|]. exists (Z.to_N ival), lc, lp, pb. unfold assign, set_xz_dict, with_opt.
    cbn [N.eqb Pos.eqb co_OPT_LEVEL co_OPT_LC co_OPT_LP co_OPT_PB co_OPT_WINDOW co_OPT_DICT c_opt c_level c_flags].
    rewrite Ho, setd_ox. rewrite zconv_small by (change (Z.of_N (256 ^ co_sizeof_opt_xz_dict_size)) with 4294967296%Z; lia).
    repeat split; try assumption. right. lia.
  - right; right; left. split; [exact E|]. exists d, (Z.to_N ival), lp, pb. unfold assign, set_xz_lc, with_opt.
    cbn [N.eqb Pos.eqb co_OPT_LEVEL co_OPT_LC c_opt c_level c_flags].
    rewrite Ho, setlc_ox. rewrite zconv_small by (change (Z.of_N (256 ^ co_sizeof_opt_xz_lc)) with 256%Z; lia).
    rewrite N.mod_small by lia. repeat split; try assumption; lia.
  - right; right; left. split; [exact E|]. exists d, lc, (Z.to_N ival), pb. unfold assign, set_xz_lp, with_opt.
    cbn [N.eqb Pos.eqb co_OPT_LEVEL co_OPT_LC co_OPT_LP c_opt c_level c_flags].
    rewrite Ho, setlp_ox. rewrite zconv_small by (change (Z.of_N (256 ^ co_sizeof_opt_xz_lp)) with 256%Z; lia).
    rewrite N.mod_small by lia. repeat split; try assumption; lia.
  - right; right; left. split; [exact E|]. exists d, lc, lp, (Z.to_N ival). unfold assign, set_xz_pb, with_opt.
    cbn [N.eqb Pos.eqb co_OPT_LEVEL co_OPT_LC co_OPT_LP co_OPT_PB c_opt c_level c_flags].
    rewrite Ho, setpb_ox. rewrite zconv_small by (change (Z.of_N (256 ^ co_sizeof_opt_xz_pb)) with 256%Z; lia).
    rewrite N.mod_small by lia. repeat split; try assumption; lia.
  - (* lzo level *) right; right; right; left. split; [exact E|]. exists a. unfold assign, with_level.
    cbn [N.eqb Pos.eqb co_OPT_LEVEL c_opt c_level c_flags].
    rewrite zconv_small by (change (Z.of_N (256 ^ co_width_sqfs_compressor_config_t_level)) with 4294967296%Z; lia).
    repeat split; try assumption; lia.
  - (* zstd level *) right; right; right; right; right. split; [exact E|]. unfold assign, with_level.
    cbn [N.eqb Pos.eqb co_OPT_LEVEL c_opt c_level c_flags].
    rewrite zconv_small by (change (Z.of_N (256 ^ co_width_sqfs_compressor_config_t_level)) with 4294967296%Z; lia).
    repeat split; try assumption; lia.
Qed.

Lemma step_range fx id bs c o v c' : opts_in_range id bs c -> step fx c o v = inr c' -> opts_in_range id bs c'.
Proof.
  intros Hinv Hs. destruct (step_inv _ _ _ _ _ Hs) as [(_ & name & _ & F)|[(name & _ & Ha & _ & F)|(i & ival & _ & Hne & Ha & Hr & ->)]].
  - eapply set_flag_range; eassumption.
  - eapply lzo_alg_range; eassumption.
  - apply assign_range; assumption.
Qed.

Lemma opt_loop_range fx id bs : forall fuel c s c', opts_in_range id bs c -> opt_loop fx fuel c s = POk c' -> opts_in_range id bs c'.
Proof.
  induction fuel as [|f IH]; intros c s c' Hinv H.
  - destruct s; cbn [opt_loop] in H; [injection H as <-; exact Hinv|discriminate].
  - destruct s as [|a t]; cbn [opt_loop] in H; [injection H as <-; exact Hinv|].
    destruct (getsubopt co_tokens (a :: t)) as [[o v] rest].
    destruct (step fx c o v) as [d|c1] eqn:S; [discriminate|].
    eapply IH; [eapply step_range; eassumption|exact H].
Qed.

(* whatever option string: a diagnostic, or a configuration inside the documented ranges with lc + lp <= 4 *)
Lemma comp_opt_string_ranges_l : forall fx id bs o c,
  cfg_init_options fx id bs o = POk c ->
  opts_in_range id bs c /\ ((id = ID_XZ \/ id = ID_LZMA) -> xz_lc c + xz_lp c <= 4).
Proof.
  intros fx id bs o c H. unfold cfg_init_options in H.
  destruct (config_init id bs 0) as [rc c0] eqn:I. cbn [fst snd] in H.
  destruct (negb (rc =? 0)%Z) eqn:Er; [discriminate|]. apply negb_false_iff, Z.eqb_eq in Er. subst rc.
  pose proof (init_in_range _ _ _ I) as H0.
  destruct o as [s|].
  - destruct (opt_loop fx (S (length s)) c0 s) as [c1|d|] eqn:L; try discriminate.
    pose proof (opt_loop_range _ _ _ _ _ _ _ H0 L) as H1.
    destruct (((c_id c1 =? ID_XZ) || (c_id c1 =? ID_LZMA)) && (4 <? xz_lp c1 + xz_lc c1)) eqn:E; [discriminate|].
    injection H as <-. split; [exact H1|]. intros Hid. destruct H1 as (Hi & _).
    apply andb_false_iff in E. destruct E as [E|E].
    + apply orb_false_iff in E. destruct E as [E1 E2]. apply N.eqb_neq in E1, E2. rewrite Hi in *. tauto.
    + apply N.ltb_ge in E. lia.
  - injection H as <-. split; [exact H0|]. intros Hid.
    destruct Hid as [->| ->].
    + rewrite config_init_xz in I by reflexivity. injection I as <-. unfold xz_lc, xz_lp. cbn [c_opt].
      rewrite getlc_ox, getlp_ox. cle.
    + rewrite config_init_lzma in I by reflexivity. injection I as <-. unfold xz_lc, xz_lp. cbn [c_opt].
      rewrite getlc_ox, getlp_ox. cle.
Qed.

(* ---- ... and create accepts it, unless the dictionary size is one create refuses or the back end is not built ---- *)
Lemma sub_ldiff_le a m m' : N.ldiff a m = 0 -> N.ldiff m m' = 0 -> N.ldiff a m' = 0.
Proof.
  intros A M. apply N.bits_inj. intros i. rewrite N.ldiff_spec, N.bits_0.
  assert (A' := f_equal (fun x => N.testbit x i) A). assert (M' := f_equal (fun x => N.testbit x i) M).
  cbv beta in A', M'. rewrite N.ldiff_spec, N.bits_0 in A', M'.
  destruct (N.testbit a i), (N.testbit m i), (N.testbit m' i); cbn in *; congruence.
Qed.

Lemma lzma_shape_test d : 0 < d < two32 -> dict_shape_ok d = true ->
  let mask := N.land d (u32 (d + two32 - 1)) in
  (negb (mask =? 0) && negb (N.land mask (u32 (mask + two32 - 1)) =? 0) = false) /\
  (negb (mask =? 0) && negb (d =? N.lor mask (mask / 2)) = false).
Proof.
  intros Hd Hs. cbv zeta.
  pose proof (dict_shape_valid repaired d ltac:(lia) Hs) as V. unfold is_dict_size_valid in V. cbn [fx_shape repaired andb] in V.
  assert (S1 : sub64 d 1 = d - 1) by (unfold sub64; destruct (1 <=? d) eqn:E; [reflexivity|apply N.leb_gt in E; lia]).
  assert (U1 : u32 (d + two32 - 1) = d - 1).
  { unfold u32. replace (d + two32 - 1) with (d - 1 + 1 * two32) by lia. rewrite N.mod_add by discriminate.
    apply N.mod_small. lia. }
  rewrite S1 in V. rewrite U1. set (x := N.land d (d - 1)) in *.
  destruct (x =? 0) eqn:Ex; [split; reflexivity|]. apply N.eqb_neq in Ex.
  assert (Hx : x <= d) by (unfold x; apply N.ldiff_le; apply N.bits_inj; intros i;
      rewrite N.ldiff_spec, N.land_spec, N.bits_0; destruct (N.testbit d i), (N.testbit (d - 1) i); reflexivity).
  assert (S2 : sub64 x 1 = x - 1) by (unfold sub64; destruct (1 <=? x) eqn:E; [reflexivity|apply N.leb_gt in E; lia]).
  assert (U2 : u32 (x + two32 - 1) = x - 1).
  { unfold u32. replace (x + two32 - 1) with (x - 1 + 1 * two32) by lia. rewrite N.mod_add by discriminate.
    apply N.mod_small. lia. }
  rewrite S2 in V. rewrite U2. cbn [negb andb].
  destruct (negb (N.land x (x - 1) =? 0)) eqn:E2; [discriminate|].
  rewrite V. split; reflexivity.
Qed.

Definition dict_range_ok (d : N) : Prop := 8192 <= d <= 1048576.

Lemma comp_opt_string_sound_l : forall fx avail id bs o c,
  cfg_init_options fx id bs o = POk c ->
  opts_in_range id bs c /\
  (avail id = true ->
   (id = ID_GZIP \/ id = ID_LZ4 \/ id = ID_ZSTD \/
    (id = ID_XZ /\ is_dict_size_valid fx (xz_dict c) = true /\ dict_range_ok (xz_dict c)) \/
    (id = ID_LZMA /\ dict_shape_ok (xz_dict c) = true /\ dict_range_ok (xz_dict c))) ->
   exists st, compressor_create fx avail c = Ok st).
Proof.
  intros fx avail id bs o c H. destruct (comp_opt_string_ranges_l _ _ _ _ _ H) as (Hr & Hsum).
  split; [exact Hr|]. intros Ha Hid.
  destruct Hr as (Hi & Hb & Hr).
  destruct Hr as [(E & w & Ho & Hw & Hl & Hf)|[(E & d & lc & lp & pb & Ho & Hd & H1 & H2 & H3 & Hl & Hf)|
                [(E & d & lc & lp & pb & Ho & Hd & H1 & H2 & H3 & Hl & Hf)|[(E & a & Ho & Ha' & Hl & Hf)|
                [(E & Ho & Hl & Hf)|(E & Ho & Hl & Hf)]]]]]; subst id; rewrite E in *.
  - (* gzip *)
    rewrite create_gzip_eq; [|exact E|exact Ha|rewrite Ho; apply pad_og].
    unfold gzip_create, cfg_window. rewrite Ho, getw_og, (N.mod_small w) by lia.
    rewrite (sub_ldiff_le _ _ _ Hf) by reflexivity. cbn [N.eqb negb].
    assert (co_SQFS_GZIP_MIN_LEVEL <= 1) by cle. assert (9 <= co_SQFS_GZIP_MAX_LEVEL) by cle.
    assert (co_SQFS_GZIP_MIN_WINDOW <= 8) by cle. assert (15 <= co_SQFS_GZIP_MAX_WINDOW) by cle.
    destruct ((c_level c <? co_SQFS_GZIP_MIN_LEVEL) || (co_SQFS_GZIP_MAX_LEVEL <? c_level c)) eqn:E1;
      [apply orb_true_iff in E1; destruct E1; bdestr; lia|].
    destruct ((w <? co_SQFS_GZIP_MIN_WINDOW) || (co_SQFS_GZIP_MAX_WINDOW <? w)) eqn:E2;
      [apply orb_true_iff in E2; destruct E2; bdestr; lia|].
    eexists. reflexivity.
  - (* xz *)
    destruct Hid as [Hx|[Hx|[Hx|[(_ & Hv & Hrg)|(Hx & _)]]]]; try discriminate Hx.
    specialize (Hsum (or_introl eq_refl)).
    rewrite create_xz_eq; [|exact E|exact Ha|rewrite Ho; apply pad_ox].
    unfold xz_create. rewrite Hv. unfold dict_range_ok in Hrg.
    rewrite (sub_ldiff_le _ _ _ Hf) by reflexivity. cbn [N.eqb negb].
    assert (Hpb : xz_pb c = pb) by (unfold xz_pb; rewrite Ho, getpb_ox; apply N.mod_small; lia).
    assert (4 <= co_SQFS_XZ_MAX_PB) by cle. assert (9 <= co_SQFS_XZ_MAX_LEVEL) by cle.
    assert (co_SQFS_XZ_MIN_DICT_SIZE <= 8192) by cle. assert (1048576 <= co_SQFS_XZ_MAX_DICT_SIZE) by cle.
    destruct (4 <? xz_lc c + xz_lp c) eqn:E3; [bdestr; lia|].
    destruct (co_SQFS_XZ_MAX_PB <? xz_pb c) eqn:E4; [bdestr; lia|].
    destruct (co_SQFS_XZ_MAX_LEVEL <? c_level c) eqn:E5; [bdestr; lia|].
    destruct (xz_dict c <? co_SQFS_XZ_MIN_DICT_SIZE) eqn:E6; [bdestr; lia|].
    destruct (co_SQFS_XZ_MAX_DICT_SIZE <? xz_dict c) eqn:E7; [bdestr; lia|].
    eexists. reflexivity.
  - (* lzma *)
    destruct Hid as [Hx|[Hx|[Hx|[(Hx & _)|(_ & Hv & Hrg)]]]]; try discriminate Hx.
    specialize (Hsum (or_intror eq_refl)).
    rewrite create_lzma_eq; [|exact E|exact Ha|rewrite Ho; apply pad_ox].
    unfold lzma_create. unfold dict_range_ok in Hrg.
    change (lzma_dict c) with (xz_dict c). change (lzma_lc c) with (xz_lc c). change (lzma_lp c) with (xz_lp c).
    change (lzma_pb c) with (xz_pb c).
    rewrite (sub_ldiff_le _ _ _ Hf) by reflexivity. cbn [N.eqb negb].
    assert (Hpb : xz_pb c = pb) by (unfold xz_pb; rewrite Ho, getpb_ox; apply N.mod_small; lia).
    assert (Hlc : xz_lc c = lc) by (unfold xz_lc; rewrite Ho, getlc_ox; apply N.mod_small; lia).
    assert (Hlp : xz_lp c = lp) by (unfold xz_lp; rewrite Ho, getlp_ox; apply N.mod_small; lia).
    assert (4 <= co_SQFS_LZMA_MAX_PB) by cle. assert (9 <= co_SQFS_LZMA_MAX_LEVEL) by cle.
    assert (4 <= co_SQFS_LZMA_MAX_LC) by cle. assert (4 <= co_SQFS_LZMA_MAX_LP) by cle.
    assert (co_SQFS_LZMA_MIN_DICT_SIZE <= 8192) by cle. assert (1048576 <= co_SQFS_LZMA_MAX_DICT_SIZE) by cle.
    destruct (co_SQFS_LZMA_MAX_LEVEL <? c_level c) eqn:E2; [bdestr; lia|].
    destruct (co_SQFS_LZMA_MAX_LC <? xz_lc c) eqn:E3; [bdestr; lia|].
    destruct (co_SQFS_LZMA_MAX_LP <? xz_lp c) eqn:E4; [bdestr; lia|].
    destruct (co_SQFS_LZMA_MAX_PB <? xz_pb c) eqn:E5; [bdestr; lia|].
    destruct (4 <? xz_lc c + xz_lp c) eqn:E6; [bdestr; lia|].
    destruct (xz_dict c =? 0) eqn:E7; [bdestr; lia|].
    destruct (xz_dict c <? co_SQFS_LZMA_MIN_DICT_SIZE) eqn:E8; [bdestr; lia|].
    destruct (co_SQFS_LZMA_MAX_DICT_SIZE <? xz_dict c) eqn:E9; [bdestr; lia|].
    destruct (lzma_shape_test (xz_dict c)) as [T1 T2]; [unfold two32; lia|exact Hv|]. cbv zeta in T1, T2 |- *.
    rewrite T1, T2. eexists. reflexivity.
  - (* lzo: never in the table *) destruct Hid as [Hx|[Hx|[Hx|[(Hx & _)|(Hx & _)]]]]; discriminate Hx.
  - (* lz4 *)
    rewrite create_lz4_eq; [|exact E|exact Ha|rewrite Ho; apply pad_zero_opt].
    unfold lz4_create. rewrite (sub_ldiff_le _ _ _ Hf) by reflexivity. rewrite Hl. eexists. reflexivity.
  - (* zstd *)
    rewrite create_zstd_eq; [|exact E|exact Ha|rewrite Ho; apply pad_zero_opt].
    unfold zstd_create. rewrite Hf. cbn [N.eqb N.ldiff negb].
    assert (22 <= co_ZSTD_maxCLevel) by cle.
    destruct ((c_level c <? 1) || (co_ZSTD_maxCLevel <? c_level c)) eqn:E1;
      [apply orb_true_iff in E1; destruct E1; bdestr; lia|].
    eexists. reflexivity.
Qed.

(* ---- example option strings (ASCII) ---- *)
Definition s_level_wrap : list N := [108; 101; 118; 101; 108; 61; 52; 50; 57; 52; 57; 54; 55; 51; 48; 53].      (* level=4294967305 *)
Definition s_dict_wrap : list N := [100; 105; 99; 116; 115; 105; 122; 101; 61; 52; 50; 57; 52; 57; 55; 53; 52; 56; 56]. (* dictsize=4294975488 *)
Definition s_dict_pct : list N := [100; 105; 99; 116; 115; 105; 122; 101; 61; 53; 48; 37].                      (* dictsize=50% *)
Definition s_pct : list N := [53; 48; 37].                                                                       (* 50% *)
Definition s_level_junk : list N := [108; 101; 118; 101; 108; 61; 57; 120].                                     (* level=9x *)
Definition s_gzip_good : list N :=
  [108; 101; 118; 101; 108; 61; 51; 44; 119; 105; 110; 100; 111; 119; 61; 49; 48; 44; 114; 108; 101].           (* level=3,window=10,rle *)
Definition s_dict_3bits : list N := [100; 105; 99; 116; 115; 105; 122; 101; 61; 49; 52; 51; 51; 54].            (* dictsize=14336 *)
Definition s_level_10 : list N := [108; 101; 118; 101; 108; 61; 49; 48].                                        (* level=10 *)
Definition s_window_16 : list N := [119; 105; 110; 100; 111; 119; 61; 49; 54].                                  (* window=16 *)
Definition s_xz_good : list N :=
  [100; 105; 99; 116; 115; 105; 122; 101; 61; 54; 52; 75; 44; 108; 99; 61; 49; 44; 108; 112; 61; 50; 44; 120; 56; 54; 44;
   101; 120; 116; 114; 101; 109; 101].                                                                           (* dictsize=64K,lc=1,lp=2,x86,extreme *)

(* ---- the digit loop of parse(): what it consumed are digits, what it returns is the rest ---- *)
Lemma parse_loop_split base : forall s acc diff v d rest,
  parse_loop base s acc diff = inr (v, d, rest) ->
  exists pre, s = pre ++ rest /\ Forall (fun c => c_isdigit c = true) pre /\ d = diff + lenN pre.
Proof.
  induction s as [|c r IH]; intros acc diff v d rest H; cbn [parse_loop] in H.
  - injection H as <- <- <-. exists []. repeat split; [constructor|rewrite lenN_nil; lia].
  - destruct (c_isdigit c) eqn:Ed.
    + destruct (base <=? c - 48); [injection H as <- <- <-; exists []; repeat split; [constructor|rewrite lenN_nil; lia]|].
      destruct (max64 / base <=? acc); [discriminate|].
      destruct (max64 - (c - 48) <? acc * base); [discriminate|].
      apply IH in H. destruct H as (pre & -> & Hf & ->). exists (c :: pre). repeat split.
      * constructor; assumption.
      * rewrite lenN_cons. lia.
    + injection H as <- <- <-. exists []. repeat split; [constructor|rewrite lenN_nil; lia].
Qed.

(* F27: as found, no string with a percent sign is ever accepted by parse_size (the documented "dictsize=50%") *)
Lemma parse_size_percent_refuted_l : forall fx s reference,
  fx_pct fx = false -> In 37 s -> exists d, parse_size fx s reference = inl d.
Proof.
  intros fx s reference Hfx Hin. unfold parse_size.
  destruct (parse_num s false 10 0 max64) as [e|[v d]] eqn:P; [destruct (e =? E_OVERFLOW)%Z; eexists; reflexivity|].
  unfold parse_num in P. destruct s as [|c0 s0]; [discriminate|].
  destruct (negb (c_isdigit c0)); [discriminate|].
  destruct (parse_loop 10 (c0 :: s0) 0 0) as [e|[[v' d'] rest]] eqn:L; [discriminate|].
  destruct ((0 <? max64) && ((v' <? 0) || (max64 <? v'))); [discriminate|]. cbn [andb] in P. injection P as <- <-.
  apply parse_loop_split in L. destruct L as (pre & Es & Hd & ->). rewrite Es.
  assert (Hr : In 37 rest).
  { rewrite Es in Hin. apply in_app_or in Hin. destruct Hin as [Hp|Hr]; [|exact Hr].
    rewrite Forall_forall in Hd. apply Hd in Hp. discriminate Hp. }
  replace (nN (0 + lenN pre)) with (length pre) by (unfold nN, lenN; lia).
  rewrite skipn_app, skipn_all, Nat.sub_diag, skipn_O. cbn [app].
  destruct rest as [|c r]; [destruct Hr|].
  assert (Hnil : c <> 37 -> is_nil r = false).
  { intros Hc. destruct Hr as [E|Hr]; [congruence|]. destruct r; [destruct Hr|reflexivity]. }
  assert (Sc : forall k, c <> 37 -> exists dg, match sz_mul_ov v' k with None => inl DSizeOv
             | Some v'' => if is_nil r then inr v'' else inl DSizeSuffix end = @inl diag N dg).
  { intros k Hc. rewrite (Hnil Hc). destruct (sz_mul_ov v' k); eexists; reflexivity. }
  destruct ((c =? 107) || (c =? 75)) eqn:E1.
  { apply Sc. intros ->. discriminate E1. }
  destruct ((c =? 109) || (c =? 77)) eqn:E2.
  { apply Sc. intros ->. discriminate E2. }
  destruct ((c =? 103) || (c =? 71)) eqn:E3.
  { apply Sc. intros ->. discriminate E3. }
  destruct (c =? 37); [|eexists; reflexivity].
  destruct (reference =? 0); [eexists; reflexivity|].
  destruct (sz_mul_ov v' reference); [|eexists; reflexivity]. rewrite Hfx. eexists. reflexivity.
Qed.

(* with the repair the documented form works *)
Lemma parse_size_percent_fixed_l : parse_size repaired s_pct 131072 = inr 65536.
Proof. vm_compute. reflexivity. Qed.

(* F28: numbers are silently altered (strtol result and size_t stored into an int; trailing text ignored) *)
Lemma comp_opt_number_altered_refuted_l :
  (exists c, cfg_init_options as_found ID_XZ 131072 (Some s_level_wrap) = POk c /\ c_level c = 9) /\
  (exists c, cfg_init_options as_found ID_XZ 131072 (Some s_dict_wrap) = POk c /\ xz_dict c = 8192) /\
  (exists c, cfg_init_options as_found ID_XZ 131072 (Some s_level_junk) = POk c /\ c_level c = 9).
Proof. repeat split; eexists; split; vm_compute; reflexivity. Qed.

Lemma comp_opt_number_altered_fixed_l :
  cfg_init_options repaired ID_XZ 131072 (Some s_level_wrap) = PFail (DRange co_OPT_LEVEL 0 9) /\
  cfg_init_options repaired ID_XZ 131072 (Some s_dict_wrap) = PFail (DRange co_OPT_DICT 8192 1048576) /\
  cfg_init_options repaired ID_XZ 131072 (Some s_level_junk) = PFail (DRange co_OPT_LEVEL 0 9).
Proof. repeat split; vm_compute; reflexivity. Qed.

(* ---- with the F28 repair a number reaches the configuration unaltered, or the string is refused ---- *)
Lemma parse_loop_value : forall s acc diff v d rest,
  parse_loop 10 s acc diff = inr (v, d, rest) ->
  (rest = [] \/ exists c r, rest = c :: r /\ c_isdigit c = false) -> dec_prefix s acc = v.
Proof.
  induction s as [|c r IH]; intros acc diff v d rest H Hr; cbn [parse_loop dec_prefix] in *.
  - injection H as <- _ _. reflexivity.
  - destruct (c_isdigit c) eqn:Ed.
    + assert (Hx : (10 <=? c - 48) = false).
      { unfold c_isdigit in Ed. apply andb_true_iff in Ed. destruct Ed as [A B].
        apply N.leb_le in A, B. apply N.leb_gt. lia. }
      rewrite Hx in H.
      destruct (max64 / 10 <=? acc); [discriminate|].
      destruct (max64 - (c - 48) <? acc * 10); [discriminate|].
      eapply IH; eassumption.
    + injection H as <- _ _. reflexivity.
Qed.

Lemma parse_int_exact : forall v mn mx z, parse_int v true mn mx = inr z ->
  exists (neg : bool) ds, v = (if neg then [45] else []) ++ ds /\ ds <> [] /\
    Forall (fun c => c_isdigit c = true) ds /\
    z = (if neg then - Z.of_N (dec_prefix ds 0) else Z.of_N (dec_prefix ds 0))%Z /\
    ((mn <? mx)%Z = true -> (mn <= z <= mx)%Z).
Proof.
  intros v mn mx z H. unfold parse_int in H.
  set (ns := match v with 45 :: r => (true, r) | _ => (false, v) end) in *.
  assert (Hv : v = (if fst ns then [45] else []) ++ snd ns).
  { unfold ns. destruct v as [|c r]; [reflexivity|].
    destruct (N.eq_dec c 45) as [->|Hc]; [reflexivity|].
    destruct c as [|p]; [reflexivity|].
    repeat (destruct p as [p|p|]; try reflexivity); congruence. }
  destruct (parse_num (snd ns) true 10 0 0) as [e|[t d]] eqn:P; [discriminate|].
  destruct (9223372036854775807 <=? t); [discriminate|].
  set (out := if fst ns then (- Z.of_N t)%Z else Z.of_N t) in *.
  destruct ((mn <? mx)%Z && ((out <? mn)%Z || (mx <? out)%Z)) eqn:Er; [discriminate|]. injection H as <-.
  unfold parse_num in P. destruct (snd ns) as [|c0 s0] eqn:Es; [discriminate|].
  destruct (negb (c_isdigit c0)); [discriminate|].
  destruct (parse_loop 10 (c0 :: s0) 0 0) as [e|[[v' d'] rest]] eqn:L; [discriminate|].
  change ((0 <? 0) && ((v' <? 0) || (0 <? v'))) with false in P. cbv iota in P.
  destruct rest as [|rc rr]; [|discriminate]. cbn in P. injection P as <- <-.
  pose proof (parse_loop_value _ _ _ _ _ _ L (or_introl eq_refl)) as Hval.
  apply parse_loop_split in L. destruct L as (pre & Hs & Hd & _). rewrite app_nil_r in Hs. subst pre.
  exists (fst ns), (c0 :: s0). split; [exact Hv|]. split; [discriminate|]. split; [exact Hd|].
  split; [unfold out; rewrite Hval; reflexivity|].
  intros Hlt. rewrite Hlt in Er. cbn [andb] in Er. apply orb_false_iff in Er. destruct Er as [A B].
  apply Z.ltb_ge in A, B. lia.
Qed.

(* every row of the range table fits an int, and the rows of available numeric options are proper intervals *)
Lemma range_table_facts : forall id o, id < 7 -> o < 7 ->
  (-2147483648 <= fst (range_of id o) /\ snd (range_of id o) <= 2147483647)%Z /\
  (opt_avail id o = true -> o <> co_OPT_ALG -> (fst (range_of id o) <? snd (range_of id o))%Z = true).
Proof.
  intros id o Hi Ho.
  assert (A : forallb (fun i => forallb (fun k =>
              (-2147483648 <=? fst (range_of i k))%Z && (snd (range_of i k) <=? 2147483647)%Z &&
              implb (opt_avail i k && negb (k =? co_OPT_ALG)) (fst (range_of i k) <? snd (range_of i k))%Z)
            (below 7)) (below 7) = true) by (vm_compute; reflexivity).
  rewrite forallb_forall in A. specialize (A id (below_in 7 id Hi)).
  rewrite forallb_forall in A. specialize (A o (below_in 7 o Ho)).
  apply andb_true_iff in A. destruct A as [A C]. apply andb_true_iff in A. destruct A as [A B].
  apply Z.leb_le in A, B. split; [split; assumption|].
  intros Ha Hn. rewrite Ha in C. apply N.eqb_neq in Hn. rewrite Hn in C. exact C.
Qed.

Lemma to_int_id z : (-2147483648 <= z <= 2147483647)%Z -> to_int z = z.
Proof. intros H. unfold to_int. rewrite Z.mod_small by lia. lia. Qed.

Lemma comp_opt_number_faithful_fixed_l : forall fx c o v c',
  fx_num fx = true -> c_id c < 7 -> step fx c (Some o) (Some v) = inr c' -> o <> co_OPT_ALG -> o <> co_OPT_DICT ->
  exists (neg : bool) ds, v = (if neg then [45] else []) ++ ds /\ ds <> [] /\ Forall (fun ch => c_isdigit ch = true) ds /\
    let z := (if neg then - Z.of_N (dec_prefix ds 0) else Z.of_N (dec_prefix ds 0))%Z in
    (fst (range_of (c_id c) o) <= z <= snd (range_of (c_id c) o))%Z /\ c' = assign c o z.
Proof.
  intros fx c o v c' Hfx Hid H Hna Hnd. unfold step in H.
  destruct (negb (opt_avail (c_id c) o)) eqn:Ea; [discriminate|]. apply negb_false_iff in Ea.
  apply N.eqb_neq in Hna, Hnd. rewrite Hna, Hnd, Hfx in H. cbn [andb] in H.
  assert (Ho : o < 7).
  { destruct (N.lt_ge_cases o 7) as [L|G]; [exact L|exfalso]. unfold opt_avail in Ea.
    assert (A : nth (nN (c_id c)) co_opt_available 0 < 2 ^ 7).
    { assert (B : forall a, In a co_opt_available -> a < 2 ^ 7).
      { intros a Hin. unfold co_opt_available in Hin. repeat (destruct Hin as [<-|Hin]; [reflexivity|]). destruct Hin. }
      destruct (nth_in_or_default (nN (c_id c)) co_opt_available 0) as [Hin|Hd]; [apply B; exact Hin|rewrite Hd; reflexivity]. }
    destruct (nth (nN (c_id c)) co_opt_available 0) as [|p] eqn:En; [rewrite N.bits_0 in Ea; discriminate|].
    rewrite N.bits_above_log2 in Ea; [discriminate|].
    apply N.lt_le_trans with 7; [|exact G]. apply N.log2_lt_pow2; [lia|exact A]. }
  apply N.eqb_neq in Hna.
  destruct (range_table_facts (c_id c) o Hid Ho) as ((R1 & R2) & R3). specialize (R3 Ea Hna).
  destruct (parse_int v true (fst (range_of (c_id c) o)) (snd (range_of (c_id c) o))) as [e|z] eqn:P; [discriminate|].
  destruct (parse_int_exact _ _ _ _ P) as (neg & ds & Hv & Hne & Hd & Hz & Hr). specialize (Hr R3).
  rewrite to_int_id in H by lia.
  destruct (z <? fst (range_of (c_id c) o))%Z eqn:E1; [discriminate|].
  destruct (snd (range_of (c_id c) o) <? z)%Z eqn:E2; [discriminate|].
  injection H as <-. exists neg, ds. cbv zeta. rewrite <- Hz. repeat split; try assumption; lia.
Qed.
