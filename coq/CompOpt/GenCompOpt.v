(* GENERATED from the working tree by props/C05/compopt/gen_*.c -- do not edit *)
From Coq Require Import NArith ZArith List.
Import ListNotations.
Local Open Scope N_scope.
Definition co_sizeof_sqfs_compressor_config_t : N := 32.
Definition co_width_sqfs_compressor_config_t_id : N := 2.
Definition co_width_sqfs_compressor_config_t_flags : N := 2.
Definition co_width_sqfs_compressor_config_t_block_size : N := 4.
Definition co_width_sqfs_compressor_config_t_level : N := 4.
Definition co_sizeof_opt_padd0 : N := 16.
Definition co_sizeof_opt : N := 16.
Definition co_off_opt_gzip_window_size : N := 0.
Definition co_sizeof_opt_gzip_window_size : N := 2.
Definition co_off_opt_gzip_padd0 : N := 2.
Definition co_sizeof_opt_gzip_padd0 : N := 14.
Definition co_off_opt_lzo_algorithm : N := 0.
Definition co_sizeof_opt_lzo_algorithm : N := 2.
Definition co_off_opt_lzo_padd0 : N := 2.
Definition co_sizeof_opt_lzo_padd0 : N := 14.
Definition co_off_opt_xz_dict_size : N := 0.
Definition co_sizeof_opt_xz_dict_size : N := 4.
Definition co_off_opt_xz_lc : N := 4.
Definition co_sizeof_opt_xz_lc : N := 1.
Definition co_off_opt_xz_lp : N := 5.
Definition co_sizeof_opt_xz_lp : N := 1.
Definition co_off_opt_xz_pb : N := 6.
Definition co_sizeof_opt_xz_pb : N := 1.
Definition co_off_opt_xz_padd0 : N := 7.
Definition co_sizeof_opt_xz_padd0 : N := 9.
Definition co_off_opt_lzma_dict_size : N := 0.
Definition co_sizeof_opt_lzma_dict_size : N := 4.
Definition co_off_opt_lzma_lc : N := 4.
Definition co_sizeof_opt_lzma_lc : N := 1.
Definition co_off_opt_lzma_lp : N := 5.
Definition co_sizeof_opt_lzma_lp : N := 1.
Definition co_off_opt_lzma_pb : N := 6.
Definition co_sizeof_opt_lzma_pb : N := 1.
Definition co_off_opt_lzma_padd0 : N := 7.
Definition co_sizeof_opt_lzma_padd0 : N := 9.
Definition co_SQFS_COMP_FLAG_LZ4_HC : N := 1.
Definition co_SQFS_COMP_FLAG_LZ4_ALL : N := 1.
Definition co_SQFS_COMP_FLAG_LZMA_EXTREME : N := 1.
Definition co_SQFS_COMP_FLAG_LZMA_ALL : N := 1.
Definition co_SQFS_COMP_FLAG_XZ_X86 : N := 1.
Definition co_SQFS_COMP_FLAG_XZ_POWERPC : N := 2.
Definition co_SQFS_COMP_FLAG_XZ_IA64 : N := 4.
Definition co_SQFS_COMP_FLAG_XZ_ARM : N := 8.
Definition co_SQFS_COMP_FLAG_XZ_ARMTHUMB : N := 16.
Definition co_SQFS_COMP_FLAG_XZ_SPARC : N := 32.
Definition co_SQFS_COMP_FLAG_XZ_EXTREME : N := 256.
Definition co_SQFS_COMP_FLAG_XZ_ALL : N := 319.
Definition co_SQFS_COMP_FLAG_GZIP_DEFAULT : N := 1.
Definition co_SQFS_COMP_FLAG_GZIP_FILTERED : N := 2.
Definition co_SQFS_COMP_FLAG_GZIP_HUFFMAN : N := 4.
Definition co_SQFS_COMP_FLAG_GZIP_RLE : N := 8.
Definition co_SQFS_COMP_FLAG_GZIP_FIXED : N := 16.
Definition co_SQFS_COMP_FLAG_GZIP_ALL : N := 31.
Definition co_SQFS_COMP_FLAG_UNCOMPRESS : N := 32768.
Definition co_SQFS_COMP_FLAG_GENERIC_ALL : N := 32768.
Definition co_SQFS_LZO1X_1 : N := 0.
Definition co_SQFS_LZO1X_999 : N := 4.
Definition co_SQFS_LZO_DEFAULT_ALG : N := 4.
Definition co_SQFS_LZO_DEFAULT_LEVEL : N := 8.
Definition co_SQFS_LZO_MIN_LEVEL : N := 0.
Definition co_SQFS_LZO_MAX_LEVEL : N := 9.
Definition co_SQFS_GZIP_DEFAULT_LEVEL : N := 9.
Definition co_SQFS_GZIP_DEFAULT_WINDOW : N := 15.
Definition co_SQFS_GZIP_MIN_LEVEL : N := 1.
Definition co_SQFS_GZIP_MAX_LEVEL : N := 9.
Definition co_SQFS_GZIP_MIN_WINDOW : N := 8.
Definition co_SQFS_GZIP_MAX_WINDOW : N := 15.
Definition co_SQFS_ZSTD_DEFAULT_LEVEL : N := 15.
Definition co_SQFS_ZSTD_MIN_LEVEL : N := 1.
Definition co_SQFS_ZSTD_MAX_LEVEL : N := 22.
Definition co_SQFS_XZ_MIN_LEVEL : N := 0.
Definition co_SQFS_XZ_MAX_LEVEL : N := 9.
Definition co_SQFS_XZ_DEFAULT_LEVEL : N := 6.
Definition co_SQFS_XZ_MIN_LC : N := 0.
Definition co_SQFS_XZ_MAX_LC : N := 4.
Definition co_SQFS_XZ_DEFAULT_LC : N := 3.
Definition co_SQFS_XZ_MIN_LP : N := 0.
Definition co_SQFS_XZ_MAX_LP : N := 4.
Definition co_SQFS_XZ_DEFAULT_LP : N := 0.
Definition co_SQFS_XZ_MIN_PB : N := 0.
Definition co_SQFS_XZ_MAX_PB : N := 4.
Definition co_SQFS_XZ_DEFAULT_PB : N := 2.
Definition co_SQFS_XZ_MIN_DICT_SIZE : N := 8192.
Definition co_SQFS_XZ_MAX_DICT_SIZE : N := 1048576.
Definition co_SQFS_LZMA_MIN_LEVEL : N := 0.
Definition co_SQFS_LZMA_MAX_LEVEL : N := 9.
Definition co_SQFS_LZMA_DEFAULT_LEVEL : N := 5.
Definition co_SQFS_LZMA_MIN_LC : N := 0.
Definition co_SQFS_LZMA_MAX_LC : N := 4.
Definition co_SQFS_LZMA_DEFAULT_LC : N := 3.
Definition co_SQFS_LZMA_MIN_LP : N := 0.
Definition co_SQFS_LZMA_MAX_LP : N := 4.
Definition co_SQFS_LZMA_DEFAULT_LP : N := 0.
Definition co_SQFS_LZMA_MIN_PB : N := 0.
Definition co_SQFS_LZMA_MAX_PB : N := 4.
Definition co_SQFS_LZMA_DEFAULT_PB : N := 2.
Definition co_SQFS_LZMA_MIN_DICT_SIZE : N := 8192.
Definition co_SQFS_LZMA_MAX_DICT_SIZE : N := 1048576.
Definition co_with_gzip : bool := true.
Definition co_with_xz : bool := true.
Definition co_with_lz4 : bool := true.
Definition co_with_zstd : bool := true.
Definition co_sizeof_gzip_options_t : N := 8.
Definition co_off_gzip_options_t_level : N := 0.
Definition co_off_gzip_options_t_window : N := 4.
Definition co_off_gzip_options_t_strategies : N := 6.
Definition co_width_gzip_options_t_level : N := 4.
Definition co_width_gzip_options_t_window : N := 2.
Definition co_width_gzip_options_t_strategies : N := 2.
Definition co_sizeof_xz_options_t : N := 8.
Definition co_off_xz_options_t_dict_size : N := 0.
Definition co_off_xz_options_t_flags : N := 4.
Definition co_width_xz_options_t_dict_size : N := 4.
Definition co_width_xz_options_t_flags : N := 4.
Definition co_width_xz_compressor_t_level : N := 1.
Definition co_width_xz_compressor_t_lc : N := 1.
Definition co_width_xz_compressor_t_lp : N := 1.
Definition co_width_xz_compressor_t_pb : N := 1.
Definition co_width_lzma_compressor_t_level : N := 1.
Definition co_width_lzma_compressor_t_lc : N := 1.
Definition co_width_lzma_compressor_t_lp : N := 1.
Definition co_width_lzma_compressor_t_pb : N := 1.
Definition co_width_lzma_compressor_t_flags : N := 4.
Definition co_sizeof_lz4_options : N := 8.
Definition co_off_lz4_options_version : N := 0.
Definition co_off_lz4_options_flags : N := 4.
Definition co_width_lz4_options_version : N := 4.
Definition co_width_lz4_options_flags : N := 4.
Definition co_LZ4LEGACY : N := 1.
Definition co_sizeof_zstd_options_t : N := 4.
Definition co_off_zstd_options_t_level : N := 0.
Definition co_width_zstd_options_t_level : N := 4.
Definition co_ZSTD_maxCLevel : N := 22.
Definition co_OPT_WINDOW : N := 0.
Definition co_OPT_LEVEL : N := 1.
Definition co_OPT_ALG : N := 2.
Definition co_OPT_DICT : N := 3.
Definition co_OPT_LC : N := 4.
Definition co_OPT_LP : N := 5.
Definition co_OPT_PB : N := 6.
Definition co_OPT_COUNT : N := 7.
Definition co_tokens : list (list N) := [[119; 105; 110; 100; 111; 119]; [108; 101; 118; 101; 108]; [97; 108; 103; 111; 114; 105; 116; 104; 109]; [100; 105; 99; 116; 115; 105; 122; 101]; [108; 99]; [108; 112]; [112; 98]].
Definition co_opt_available : list N := [0; 3; 122; 6; 122; 0; 2].
Definition co_value_range : list (list (Z * Z)) := [
  [((0)%Z, (0)%Z); ((0)%Z, (0)%Z); ((0)%Z, (0)%Z); ((0)%Z, (0)%Z); ((0)%Z, (0)%Z); ((0)%Z, (0)%Z); ((0)%Z, (0)%Z)];
  [((8)%Z, (15)%Z); ((1)%Z, (9)%Z); ((0)%Z, (0)%Z); ((0)%Z, (0)%Z); ((0)%Z, (0)%Z); ((0)%Z, (0)%Z); ((0)%Z, (0)%Z)];
  [((0)%Z, (0)%Z); ((0)%Z, (9)%Z); ((0)%Z, (0)%Z); ((8192)%Z, (1048576)%Z); ((0)%Z, (4)%Z); ((0)%Z, (4)%Z); ((0)%Z, (4)%Z)];
  [((0)%Z, (0)%Z); ((0)%Z, (9)%Z); ((0)%Z, (0)%Z); ((0)%Z, (0)%Z); ((0)%Z, (0)%Z); ((0)%Z, (0)%Z); ((0)%Z, (0)%Z)];
  [((0)%Z, (0)%Z); ((0)%Z, (9)%Z); ((0)%Z, (0)%Z); ((8192)%Z, (1048576)%Z); ((0)%Z, (4)%Z); ((0)%Z, (4)%Z); ((0)%Z, (4)%Z)];
  [((0)%Z, (0)%Z); ((0)%Z, (0)%Z); ((0)%Z, (0)%Z); ((0)%Z, (0)%Z); ((0)%Z, (0)%Z); ((0)%Z, (0)%Z); ((0)%Z, (0)%Z)];
  [((0)%Z, (0)%Z); ((1)%Z, (22)%Z); ((0)%Z, (0)%Z); ((0)%Z, (0)%Z); ((0)%Z, (0)%Z); ((0)%Z, (0)%Z); ((0)%Z, (0)%Z)]
].
Definition co_comp_flags : list (list (list N * N)) := [
  [];
  [([100; 101; 102; 97; 117; 108; 116], 1); ([102; 105; 108; 116; 101; 114; 101; 100], 2); ([104; 117; 102; 102; 109; 97; 110], 4); ([114; 108; 101], 8); ([102; 105; 120; 101; 100], 16)];
  [([101; 120; 116; 114; 101; 109; 101], 1)];
  [];
  [([120; 56; 54], 1); ([112; 111; 119; 101; 114; 112; 99], 2); ([105; 97; 54; 52], 4); ([97; 114; 109], 8); ([97; 114; 109; 116; 104; 117; 109; 98], 16); ([115; 112; 97; 114; 99], 32); ([101; 120; 116; 114; 101; 109; 101], 256)];
  [([104; 99], 1)];
  []
].
Definition co_lzo_algs : list (list N) := [[108; 122; 111; 49; 120; 95; 49]; [108; 122; 111; 49; 120; 95; 49; 95; 49; 49]; [108; 122; 111; 49; 120; 95; 49; 95; 49; 50]; [108; 122; 111; 49; 120; 95; 49; 95; 49; 53]; [108; 122; 111; 49; 120; 95; 57; 57; 57]].
