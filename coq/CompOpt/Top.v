(* CompOpt -- remaining statements of the CompOpt section of Properties_C05.v and the data of its examples. *)
From Coq Require Import List NArith ZArith Bool Lia.
From SqfsV Require Import Gen.Constants Base.Bytes C05.RBase C05.BaseProofs C05.Super C05.SuperProofs C05.Run C05.RunProofs C05.Top
  CompOpt.GenCompOpt CompOpt.Model CompOpt.Parse CompOpt.BaseLemmas CompOpt.CreateProofs CompOpt.RoundTrip
  CompOpt.ReadProofs CompOpt.ParseProofs.
Import ListNotations.
Local Open Scope N_scope.

(* write_options writes nothing exactly for the defaults *)
Lemma comp_write_none_iff_l : forall st, write_options st = Ok [] <-> is_default st = true.
Proof.
  intros st. rewrite write_options_spec. destruct (is_default st); split; intros H; try reflexivity; try discriminate.
Qed.

Lemma config_init_shape id bs fl :
  (exists c, config_init id bs fl = (0%Z, c) /\ c_id c = id) \/ config_init id bs fl = (E_UNSUPPORTED, cfg_zero).
Proof.
  unfold config_init.
  destruct (id =? ID_GZIP) eqn:E1; [apply N.eqb_eq in E1; subst id; destruct (negb _); [right|left; eexists; split]; reflexivity|].
  destruct (id =? ID_LZO) eqn:E2; [apply N.eqb_eq in E2; subst id; destruct (negb _); [right|left; eexists; split]; reflexivity|].
  destruct (id =? ID_ZSTD) eqn:E3; [apply N.eqb_eq in E3; subst id; destruct (negb _); [right|left; eexists; split]; reflexivity|].
  destruct (id =? ID_XZ) eqn:E4; [apply N.eqb_eq in E4; subst id; cbv zeta; destruct (negb _); [right|left; eexists; split]; reflexivity|].
  destruct (id =? ID_LZMA) eqn:E5; [apply N.eqb_eq in E5; subst id; cbv zeta; destruct (negb _); [right|left; eexists; split]; reflexivity|].
  destruct (id =? ID_LZ4) eqn:E6; [apply N.eqb_eq in E6; subst id; destruct (negb _); [right|left; eexists; split]; reflexivity|].
  right. reflexivity.
Qed.

(* the configuration sqfs_compressor_config_init produces is the one for which nothing is written -- for every
   compressor except lz4 (always written) and xz below the minimal dictionary size (block size 4096: the default
   dictionary is 8192 <> block size, an options block is written although nothing was asked for) *)
Lemma comp_default_writes_nothing_l : forall fx avail id bs st,
  In bs block_sizes -> id <> ID_LZ4 -> (id = ID_XZ -> co_SQFS_XZ_MIN_DICT_SIZE <= bs) ->
  compressor_create fx avail (snd (config_init id bs 0)) = Ok st -> write_options st = Ok [].
Proof.
  intros fx avail id bs st Hb Hn4 Hx Hc. apply comp_write_none_iff_l.
  destruct (config_init_shape id bs 0) as [(c0 & I & Hid)|I]; rewrite I in Hc; cbn [snd] in Hc; [|discriminate Hc].
  destruct (create_inv _ _ _ _ Hc) as [Ha [(Hi & _ & Hk)|[(Hi & _ & Hk)|[(Hi & _ & Hk)|[(Hi & _ & Hk)|(Hi & _ & Hk)]]]]];
    rewrite Hid in Hi; clear Hid; subst id.
  - rewrite config_init_gzip in I by reflexivity. injection I as <-.
    destruct (gzip_create_inv _ _ Hk) as (_ & _ & _ & ->). cbn [is_default gz_level gz_window gz_strategies c_level c_flags].
    unfold cfg_window. cbn [c_opt]. rewrite getw_og. reflexivity.
  - rewrite config_init_xz in I by reflexivity. injection I as <-.
    destruct (xz_create_inv _ _ _ Hk) as (_ & _ & _ & _ & _ & _ & ->).
    cbn [is_default xz_flags xz_dictsz xz_bs c_flags c_bs]. unfold xz_dict. cbn [c_opt]. rewrite getd_ox.
    destruct (default_dict_valid fx bs Hb) as (_ & _ & L & D & T). rewrite ?T, (D (Hx eq_refl)).
    unfold two32 in L. rewrite D in L by (apply Hx; reflexivity). rewrite N.mod_small by exact L.
    rewrite !N.eqb_refl. reflexivity.
  - destruct (lzma_create_inv _ _ Hk) as (_ & _ & _ & _ & _ & s & -> & _). reflexivity.
  - exfalso. apply Hn4. reflexivity.
  - rewrite config_init_zstd in I by reflexivity. injection I as <-.
    destruct (zstd_create_inv _ _ Hk) as (_ & _ & ->). cbn [is_default zs_level c_level]. apply N.eqb_refl.
Qed.

(* ---- C05: the reader of an untrusted image, with the options block ---- *)
(* the transcript of C05's reader model together with what opening the compressor and its options does *)
Lemma reader_with_options_safe_l :
  forall fx avail codec depth efuel fuel img q, codecs_ok codec ->
  Forall (fun i => item_crash i = false) (run_reader_build avail codec depth efuel fuel img q) /\
  opened_ok (open_image fx avail img).
Proof.
  intros. split; [apply reader_build_safe_l; assumption|apply comp_open_image_safe_l].
Qed.

(* the gate of C05's run_reader_build and open_image agree on "the back end is not built" *)
Lemma open_image_unavailable_l : forall fx avail img s,
  super_read img = Ok s -> avail (s_comp s) = false -> open_image fx avail img = OCreateErr (Err E_UNSUPPORTED).
Proof.
  intros fx avail img s Hs Ha. unfold open_image. rewrite Hs.
  unfold compressor_create.
  destruct (config_init_shape (s_comp s) (s_block_size s) F_UNCOMPRESS) as [(c0 & I & Hid)|I]; rewrite I; cbn [snd].
  - rewrite Hid. destruct ((s_comp s <? c_SQFS_COMP_MIN) || (c_SQFS_COMP_MAX <? s_comp s)); [reflexivity|]. rewrite Ha. reflexivity.
  - reflexivity.
Qed.

(* ---- example data ---- *)
Definition ex_cfg_gzip : cfg := MkCfg ID_GZIP 8 131072 3 (og 10).                 (* level=3,window=10,rle *)
Definition ex_cfg_xz : cfg := MkCfg ID_XZ 257 131072 6 (ox 65536 1 2 2).           (* dictsize=64K,lc=1,lp=2,x86,extreme *)
Definition ex_super_area : list N := zeros 96.
(* a super block: magic, block size 128 KiB, gzip, flag "compressor options", version 4.0, one id *)
Definition ex_super (comp flags : N) : list N :=
  le 4 c_SQFS_MAGIC ++ le 4 1 ++ le 4 0 ++ le 4 131072 ++ le 4 0 ++ le 2 comp ++ le 2 17 ++ le 2 flags ++ le 2 1 ++
  le 2 4 ++ le 2 0 ++ le 8 0 ++ le 8 96 ++ le 8 96 ++ le 8 max64 ++ le 8 96 ++ le 8 96 ++ le 8 max64 ++ le 8 max64.
Definition ex_img_gzip_opts : list N := ex_super ID_GZIP 1024 ++ fmt_block (fmt_gzip 3 10 8).
Definition ex_img_gzip_hostile : list N := ex_super ID_GZIP 1024 ++ fmt_block (fmt_gzip 0 16 8).
Definition ex_img_truncated : list N := ex_super ID_XZ 1024 ++ [8; 128; 0; 0].
