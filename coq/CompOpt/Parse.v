(* CompOpt — the command line side: lib/common/src/comp_opt.c compressor_cfg_init_options (the -X option string),
   lib/common/src/parse_size.c parse_size, lib/util/src/parse_int.c parse / parse_uint / parse_int, and the libc
   functions they use: getsubopt(3) (glibc semantics), strtol(3) base 10 in the C locale, isdigit, isspace.

   A C string is a byte list without NUL; the end of the list is the terminator.  The static tables of comp_opt.c
   (token[], opt_available[], value_range[][], the flag name tables, lzo_algs[]) are generated (GenCompOpt.v).
   [int] conversions of out-of-range values wrap (gcc); sizes are 64 bit. *)
From Coq Require Import List NArith ZArith Bool.
From SqfsV Require Import Gen.Constants Base.Bytes C05.RBase CompOpt.GenCompOpt CompOpt.Model.
Import ListNotations.
Local Open Scope N_scope.

Definition c_isspace (c : N) : bool := ((9 <=? c) && (c <=? 13)) || (c =? 32).
Definition c_isdigit (c : N) : bool := (48 <=? c) && (c <=? 57).
Definition is_nil {A} (l : list A) : bool := match l with [] => true | _ => false end.

Fixpoint list_eqb (a b : list N) : bool :=
  match a, b with
  | [], [] => true
  | x :: a', y :: b' => (x =? y) && list_eqb a' b'
  | _, _ => false
  end.

Fixpoint find_idx {A} (p : A -> bool) (l : list A) (i : N) : option N :=
  match l with
  | [] => None
  | a :: r => if p a then Some i else find_idx p r (i + 1)
  end.

(* ------------------------------------------------------------------ *)
(* strtol(s, NULL, 10)                                                   *)
(* ------------------------------------------------------------------ *)
Fixpoint skip_ws (s : list N) : list N :=
  match s with
  | c :: r => if c_isspace c then skip_ws r else s
  | [] => []
  end.
(* value of the leading decimal digits (exact; strtol saturates afterwards) *)
Fixpoint dec_prefix (s : list N) (acc : N) : N :=
  match s with
  | c :: r => if c_isdigit c then dec_prefix r (acc * 10 + (c - 48)) else acc
  | [] => acc
  end.
Definition long_max : Z := 9223372036854775807.
Definition long_min : Z := (-9223372036854775808)%Z.
Definition strtol10 (s : list N) : Z :=
  let s1 := skip_ws s in
  let ns := match s1 with
            | 45 :: r => (true, r)
            | 43 :: r => (false, r)
            | _ => (false, s1)
            end in
  let v := Z.of_N (dec_prefix (snd ns) 0) in
  if fst ns then Z.max long_min (- v) else Z.min long_max v.

(* conversion of a long / size_t value to int *)
Definition to_int (z : Z) : Z := ((z + 2147483648) mod 4294967296 - 2147483648)%Z.
(* conversion of an int to an unsigned object of w bytes *)
Definition zconv (w : N) (z : Z) : N := Z.to_N (z mod Z.of_N (256 ^ w)).

(* ------------------------------------------------------------------ *)
(* lib/util/src/parse_int.c                                              *)
(* ------------------------------------------------------------------ *)
(* the digit loop of parse(): error, or (value, diff, the unread rest) *)
Fixpoint parse_loop (base : N) (s : list N) (acc diff : N) : Z + (N * N * list N) :=
  match s with
  | c :: r =>
    if c_isdigit c then
      let x := c - 48 in
      if base <=? x then inr (acc, diff, s)
      else if max64 / base <=? acc then inl E_OVERFLOW
      else
        let acc1 := acc * base in
        if max64 - x <? acc1 then inl E_OVERFLOW
        else parse_loop base r (acc1 + x) (diff + 1)
    else inr (acc, diff, s)
  | [] => inr (acc, diff, [])
  end.

(* parse(in, len, diff, base, vmin, vmax, out) with len = the length of the string (or -1);
   [whole] = (diff == NULL): the entire string must have been consumed *)
Definition parse_num (s : list N) (whole : bool) (base vmin vmax : N) : Z + (N * N) :=
  match s with
  | [] => inl E_CORRUPTED
  | c :: _ =>
    if negb (c_isdigit c) then inl E_CORRUPTED
    else
      match parse_loop base s 0 0 with
      | inl e => inl e
      | inr (v, d, rest) =>
        if (vmin <? vmax) && ((v <? vmin) || (vmax <? v)) then inl E_OOB
        else if whole && negb (is_nil rest) then inl E_CORRUPTED
        else inr (v, d)
      end
  end.

(* parse_int(in, strlen(in), NULL / diff, vmin, vmax, out) *)
Definition parse_int (s : list N) (whole : bool) (vmin vmax : Z) : Z + Z :=
  let ns := match s with
            | 45 :: r => (true, r)
            | _ => (false, s)
            end in
  match parse_num (snd ns) whole 10 0 0 with
  | inl e => inl e
  | inr (t, _) =>
    if 9223372036854775807 <=? t then inl E_OVERFLOW
    else
      let out := if fst ns then (- Z.of_N t)%Z else Z.of_N t in
      if (vmin <? vmax)%Z && ((out <? vmin)%Z || (vmax <? out)%Z) then inl E_OOB else inr out
  end.

(* ------------------------------------------------------------------ *)
(* diagnostics of compressor_cfg_init_options / parse_size (every failure path prints one, except DInit)          *)
(* ------------------------------------------------------------------ *)
Inductive diag :=
| DInit                               (* sqfs_compressor_config_init failed: return -1, no message *)
| DSum                                (* "Sum of XZ lc + lp must not exceed 4." *)
| DLzoAlg                             (* "Unknown lzo variant '%s'." *)
| DRange (opt : N) (mn mx : Z)        (* "`%s` must be a number between %d and %d." *)
| DOpt                                (* "Unknown compressor option '%s'." *)
| DValue (opt : N)                    (* "Missing value for compressor option '%s'." *)
| DSizeNan                            (* "...: '%s' is not a number." *)
| DSizeOv                             (* "...: numeric overflow parsing '%s'." *)
| DSizeSuffix.                        (* "...: unknown suffix in '%s'." *)

(* ------------------------------------------------------------------ *)
(* lib/common/src/parse_size.c                                           *)
(* ------------------------------------------------------------------ *)
Definition parse_size (fx : fixes) (s : list N) (reference : N) : diag + N :=
  match parse_num s false 10 0 max64 with
  | inl e => if (e =? E_OVERFLOW)%Z then inl DSizeOv else inl DSizeNan
  | inr (v, d) =>
    let scaled (k : N) (r : list N) : diag + N :=      (* SZ_MUL_OV, ++diff, then str[diff] must be NUL *)
      match sz_mul_ov v k with
      | None => inl DSizeOv
      | Some v' => if is_nil r then inr v' else inl DSizeSuffix
      end in
    match skipn (nN d) s with
    | [] => inr v
    | c :: r =>
      if (c =? 107) || (c =? 75) then scaled 1024 r
      else if (c =? 109) || (c =? 77) then scaled 1048576 r
      else if (c =? 103) || (c =? 71) then scaled 1073741824 r
      else if c =? 37 then
        if reference =? 0 then inl DSizeSuffix
        else
          match sz_mul_ov v reference with
          | None => inl DSizeOv
          | Some v' =>
            (* as found the '%' is not stepped over, so the final "str[diff] != NUL" test always fails (F27) *)
            if fx_pct fx && is_nil r then inr (v' / 100) else inl DSizeSuffix
          end
      else inl DSizeSuffix
    end
  end.

(* ------------------------------------------------------------------ *)
(* getsubopt(&subopts, token, &value) of glibc: (index, value (None = NULL), the new subopts)                     *)
(* ------------------------------------------------------------------ *)
(* the part before the first [ch], and what follows it if there is one *)
Fixpoint split_at (ch : N) (s : list N) : list N * option (list N) :=
  match s with
  | [] => ([], None)
  | c :: r => if c =? ch then ([], Some r) else let p := split_at ch r in (c :: fst p, snd p)
  end.

Definition getsubopt (tokens : list (list N)) (s : list N) : option N * option (list N) * list N :=
  let p := split_at 44 s in
  let sub := fst p in
  let rest := match snd p with Some r => r | None => [] end in
  let q := split_at 61 sub in
  match find_idx (list_eqb (fst q)) tokens 0 with
  | Some i => (Some i, snd q, rest)
  | None => (None, Some sub, rest)
  end.

(* ------------------------------------------------------------------ *)
(* lib/common/src/comp_opt.c                                             *)
(* ------------------------------------------------------------------ *)
Definition opt_avail (id opt : N) : bool := N.testbit (nth (nN id) co_opt_available 0) opt.
Definition range_of (id opt : N) : Z * Z := nth (nN opt) (nth (nN id) co_value_range []) (0%Z, 0%Z).

Definition set_flag (c : cfg) (name : list N) : option cfg :=
  match find (fun p : list N * N => list_eqb (fst p) name) (nth (nN (c_id c)) co_comp_flags []) with
  | Some p => Some (with_flags c (trunc co_width_sqfs_compressor_config_t_flags (N.lor (c_flags c) (snd p))))
  | None => None
  end.

Definition find_lzo_alg (c : cfg) (name : list N) : option cfg :=
  match find_idx (fun a => list_eqb a name) co_lzo_algs 0 with
  | Some i => Some (set_lzo_alg c i)
  | None => None
  end.

(* the switch at the end of the loop body *)
Definition assign (c : cfg) (opt : N) (ival : Z) : cfg :=
  if opt =? co_OPT_LEVEL then with_level c (zconv co_width_sqfs_compressor_config_t_level ival)
  else if opt =? co_OPT_LC then set_xz_lc c (zconv co_sizeof_opt_xz_lc ival)
  else if opt =? co_OPT_LP then set_xz_lp c (zconv co_sizeof_opt_xz_lp ival)
  else if opt =? co_OPT_PB then set_xz_pb c (zconv co_sizeof_opt_xz_pb ival)
  else if opt =? co_OPT_WINDOW then set_gz_window c (zconv co_sizeof_opt_gzip_window_size ival)
  else if opt =? co_OPT_DICT then set_xz_dict c (zconv co_sizeof_opt_xz_dict_size ival)
  else c.

(* one round of the while loop, after getsubopt *)
Definition step (fx : fixes) (c : cfg) (opt : option N) (value : option (list N)) : diag + cfg :=
  match opt with
  | None =>
    match value with
    | Some v => match set_flag c v with Some c' => inr c' | None => inl DOpt end
    | None => inl DOpt
    end
  | Some o =>
    if negb (opt_avail (c_id c) o) then inl DOpt
    else
      match value with
      | None => inl (DValue o)
      | Some v =>
        if o =? co_OPT_ALG then
          match find_lzo_alg c v with Some c' => inr c' | None => inl DLzoAlg end
        else
          let mn := fst (range_of (c_id c) o) in
          let mx := snd (range_of (c_id c) o) in
          let iv : diag + Z :=
            if o =? co_OPT_DICT then
              match parse_size fx v (c_bs c) with
              | inl d => inl d
              | inr sz =>
                if fx_num fx && (mx <? Z.of_N sz)%Z then inl (DRange o mn mx)          (* F28 *)
                else inr (to_int (Z.of_N sz))                                          (* ival = szval *)
              end
            else if fx_num fx then                                                     (* F28: parse_int *)
              match parse_int v true mn mx with
              | inl _ => inl (DRange o mn mx)
              | inr z => inr (to_int z)
              end
            else inr (to_int (strtol10 v)) in                                          (* ival = strtol(...) *)
          match iv with
          | inl d => inl d
          | inr ival =>
            if (ival <? mn)%Z then inl (DRange o mn mx)
            else if (mx <? ival)%Z then inl (DRange o mn mx)
            else inr (assign c o ival)
          end
      end
  end.

Inductive pres :=
| POk (c : cfg)
| PFail (d : diag)
| PFuel.

(* while ( *subopts != 0 ) *)
Fixpoint opt_loop (fx : fixes) (fuel : nat) (c : cfg) (s : list N) : pres :=
  match s with
  | [] => POk c
  | _ :: _ =>
    match fuel with
    | O => PFuel
    | S f =>
      match getsubopt co_tokens s with
      | (o, v, rest) =>
        match step fx c o v with
        | inl d => PFail d
        | inr c' => opt_loop fx f c' rest
        end
      end
    end
  end.

(* compressor_cfg_init_options(cfg, id, block_size, options); options = None is the NULL pointer *)
Definition cfg_init_options (fx : fixes) (id block_size : N) (options : option (list N)) : pres :=
  let ic := config_init id block_size 0 in
  if negb (fst ic =? 0)%Z then PFail DInit
  else
    match options with
    | None => POk (snd ic)
    | Some s =>
      match opt_loop fx (S (length s)) (snd ic) s with
      | POk c =>
        if ((c_id c =? ID_XZ) || (c_id c =? ID_LZMA)) && (4 <? xz_lp c + xz_lc c) then PFail DSum else POk c
      | r => r
      end
    end.
