(* CompOpt -- inversion of sqfs_compressor_create and the back end constructors, write_options = the block of the format, read_options on such a block, sqfs_compressor_config_init per compressor, is_dict_size_valid *)
From Coq Require Import List NArith ZArith Bool Lia.
From SqfsV Require Import Gen.Constants Base.Bytes C05.RBase C05.BaseProofs C05.Super C05.SuperProofs CompOpt.GenCompOpt
  CompOpt.Model CompOpt.BaseLemmas.
Import ListNotations.
Local Open Scope N_scope.

Ltac bdestr :=
  repeat match goal with
  | H : _ || _ = false |- _ => apply orb_false_iff in H; destruct H
  | H : _ && _ = true |- _ => apply andb_true_iff in H; destruct H
  | H : negb _ = false |- _ => apply negb_false_iff in H
  | H : negb _ = true |- _ => apply negb_true_iff in H
  | H : (_ =? _) = true |- _ => apply N.eqb_eq in H
  | H : (_ =? _) = false |- _ => apply N.eqb_neq in H
  | H : (_ <? _) = true |- _ => apply N.ltb_lt in H
  | H : (_ <? _) = false |- _ => apply N.ltb_ge in H
  | H : (_ <=? _) = true |- _ => apply N.leb_le in H
  | H : (_ <=? _) = false |- _ => apply N.leb_gt in H
  end.

(* ---- inversion of the back end constructors ---- *)
Lemma gzip_create_inv c st : gzip_create c = Ok st ->
  N.ldiff (c_flags c) (N.lor co_SQFS_COMP_FLAG_GZIP_ALL F_GENERIC_ALL) = 0 /\
  co_SQFS_GZIP_MIN_LEVEL <= c_level c <= co_SQFS_GZIP_MAX_LEVEL /\
  co_SQFS_GZIP_MIN_WINDOW <= cfg_window c <= co_SQFS_GZIP_MAX_WINDOW /\
  st = SGzip (MkGz (negb (has (c_flags c) F_UNCOMPRESS)) (c_bs c) (c_level c) (cfg_window c)
                   (N.land (c_flags c) co_SQFS_COMP_FLAG_GZIP_ALL)).
Proof.
  unfold gzip_create. intros H.
  destruct (negb (N.ldiff (c_flags c) (N.lor co_SQFS_COMP_FLAG_GZIP_ALL F_GENERIC_ALL) =? 0)) eqn:E1; [discriminate|].
  destruct ((c_level c <? co_SQFS_GZIP_MIN_LEVEL) || (co_SQFS_GZIP_MAX_LEVEL <? c_level c)) eqn:E2; [discriminate|].
  destruct ((cfg_window c <? co_SQFS_GZIP_MIN_WINDOW) || (co_SQFS_GZIP_MAX_WINDOW <? cfg_window c)) eqn:E3; [discriminate|].
  bdestr. injection H as <-. repeat split; try assumption.
  rewrite !trunc_small; [reflexivity| | |].
  - assert (N.land (c_flags c) co_SQFS_COMP_FLAG_GZIP_ALL <= co_SQFS_COMP_FLAG_GZIP_ALL).
    { apply N.ldiff_le. apply N.bits_inj. intros i. rewrite N.ldiff_spec, N.land_spec, N.bits_0.
      destruct (N.testbit (c_flags c) i), (N.testbit co_SQFS_COMP_FLAG_GZIP_ALL i); reflexivity. }
    assert (co_SQFS_COMP_FLAG_GZIP_ALL < 256 ^ co_width_gzip_options_t_strategies) by reflexivity. lia.
  - assert (co_SQFS_GZIP_MAX_WINDOW < 256 ^ co_width_gzip_options_t_window) by reflexivity. lia.
  - assert (co_SQFS_GZIP_MAX_LEVEL < 256 ^ co_width_gzip_options_t_level) by reflexivity. lia.
Qed.

Lemma land_le_mask a m : N.land a m <= m.
Proof.
  apply N.ldiff_le. apply N.bits_inj. intros i. rewrite N.ldiff_spec, N.land_spec, N.bits_0.
  destruct (N.testbit a i), (N.testbit m i); reflexivity.
Qed.

Lemma xz_create_inv fx c st : xz_create fx c = Ok st ->
  N.ldiff (c_flags c) (N.lor F_GENERIC_ALL co_SQFS_COMP_FLAG_XZ_ALL) = 0 /\
  is_dict_size_valid fx (xz_dict c) = true /\ xz_lc c + xz_lp c <= 4 /\ xz_pb c <= co_SQFS_XZ_MAX_PB /\
  c_level c <= co_SQFS_XZ_MAX_LEVEL /\ co_SQFS_XZ_MIN_DICT_SIZE <= xz_dict c <= co_SQFS_XZ_MAX_DICT_SIZE /\
  st = SXz (MkXz (has (c_flags c) F_UNCOMPRESS) (c_bs c) (xz_dict c) (c_level c) (xz_lc c) (xz_lp c) (xz_pb c) (c_flags c)).
Proof.
  unfold xz_create. intros H.
  destruct (negb (N.ldiff (c_flags c) (N.lor F_GENERIC_ALL co_SQFS_COMP_FLAG_XZ_ALL) =? 0)) eqn:E1; [discriminate|].
  destruct (negb (is_dict_size_valid fx (xz_dict c))) eqn:E2; [discriminate|].
  destruct (4 <? xz_lc c + xz_lp c) eqn:E3; [discriminate|].
  destruct (co_SQFS_XZ_MAX_PB <? xz_pb c) eqn:E4; [discriminate|].
  destruct (co_SQFS_XZ_MAX_LEVEL <? c_level c) eqn:E5; [discriminate|].
  destruct (xz_dict c <? co_SQFS_XZ_MIN_DICT_SIZE) eqn:E6; [discriminate|].
  destruct (co_SQFS_XZ_MAX_DICT_SIZE <? xz_dict c) eqn:E7; [discriminate|].
  bdestr. injection H as <-. repeat split; try assumption.
  assert (co_SQFS_XZ_MAX_LEVEL < 256 ^ co_width_xz_compressor_t_level) by reflexivity.
  assert (co_SQFS_XZ_MAX_PB < 256 ^ co_width_xz_compressor_t_pb) by reflexivity.
  assert (4 < 256 ^ co_width_xz_compressor_t_lc) by reflexivity.
  assert (4 < 256 ^ co_width_xz_compressor_t_lp) by reflexivity.
  rewrite !trunc_small by lia. reflexivity.
Qed.

Lemma lz4_create_inv c st : lz4_create c = Ok st ->
  N.ldiff (c_flags c) (N.lor co_SQFS_COMP_FLAG_LZ4_ALL F_GENERIC_ALL) = 0 /\ c_level c = 0 /\
  st = SLz4 (MkLz4 (has (c_flags c) F_UNCOMPRESS) (c_bs c) (has (c_flags c) co_SQFS_COMP_FLAG_LZ4_HC)).
Proof.
  unfold lz4_create. intros H.
  destruct (negb (N.ldiff (c_flags c) (N.lor co_SQFS_COMP_FLAG_LZ4_ALL F_GENERIC_ALL) =? 0)) eqn:E1; [discriminate|].
  destruct (negb (c_level c =? 0)) eqn:E2; [discriminate|].
  bdestr. injection H as <-. repeat split; assumption.
Qed.

Lemma zstd_create_inv c st : zstd_create c = Ok st ->
  N.ldiff (c_flags c) F_GENERIC_ALL = 0 /\ 1 <= c_level c <= co_ZSTD_maxCLevel /\
  st = SZstd (MkZstd (has (c_flags c) F_UNCOMPRESS) (c_bs c) (c_level c)).
Proof.
  unfold zstd_create. intros H.
  destruct (negb (N.ldiff (c_flags c) F_GENERIC_ALL =? 0)) eqn:E1; [discriminate|].
  destruct ((c_level c <? 1) || (co_ZSTD_maxCLevel <? c_level c)) eqn:E2; [discriminate|].
  bdestr. injection H as <-. repeat split; assumption.
Qed.

Lemma lzma_create_inv c st : lzma_create c = Ok st ->
  N.ldiff (c_flags c) (N.lor F_GENERIC_ALL co_SQFS_COMP_FLAG_LZMA_ALL) = 0 /\
  c_level c <= co_SQFS_LZMA_MAX_LEVEL /\ lzma_lc c + lzma_lp c <= 4 /\ lzma_pb c <= co_SQFS_LZMA_MAX_PB /\
  co_SQFS_LZMA_MIN_DICT_SIZE <= lzma_dict c <= co_SQFS_LZMA_MAX_DICT_SIZE /\
  exists s, st = SLzma s /\ lzma_dictsz s = lzma_dict c /\ lzma_bs s = c_bs c.
Proof.
  unfold lzma_create. intros H.
  destruct (negb (N.ldiff (c_flags c) (N.lor F_GENERIC_ALL co_SQFS_COMP_FLAG_LZMA_ALL) =? 0)) eqn:E1; [discriminate|].
  destruct (co_SQFS_LZMA_MAX_LEVEL <? c_level c) eqn:E2; [discriminate|].
  destruct (co_SQFS_LZMA_MAX_LC <? lzma_lc c) eqn:E3; [discriminate|].
  destruct (co_SQFS_LZMA_MAX_LP <? lzma_lp c) eqn:E4; [discriminate|].
  destruct (co_SQFS_LZMA_MAX_PB <? lzma_pb c) eqn:E5; [discriminate|].
  destruct (4 <? lzma_lc c + lzma_lp c) eqn:E6; [discriminate|].
  destruct (lzma_dict c =? 0) eqn:E7; [discriminate|].
  destruct (lzma_dict c <? co_SQFS_LZMA_MIN_DICT_SIZE) eqn:E8; [discriminate|].
  destruct (co_SQFS_LZMA_MAX_DICT_SIZE <? lzma_dict c) eqn:E9; [discriminate|].
  cbv zeta in H.
  match type of H with (if ?b then _ else _) = _ => destruct b eqn:E10; [discriminate|] end.
  match type of H with (if ?b then _ else _) = _ => destruct b eqn:E11; [discriminate|] end.
  bdestr. injection H as <-. repeat split; try assumption.
  eexists. split; [reflexivity|]. split; reflexivity.
Qed.

(* ---- the dispatcher ---- *)
Lemma create_inv fx avail c st : compressor_create fx avail c = Ok st ->
  avail (c_id c) = true /\
  ((c_id c = ID_GZIP /\ pad_zero co_off_opt_gzip_padd0 co_sizeof_opt_gzip_padd0 (c_opt c) = true /\ gzip_create c = Ok st) \/
   (c_id c = ID_XZ /\ pad_zero co_off_opt_xz_padd0 co_sizeof_opt_xz_padd0 (c_opt c) = true /\ xz_create fx c = Ok st) \/
   (c_id c = ID_LZMA /\ pad_zero co_off_opt_lzma_padd0 co_sizeof_opt_lzma_padd0 (c_opt c) = true /\ lzma_create c = Ok st) \/
   (c_id c = ID_LZ4 /\ pad_zero 0 co_sizeof_opt_padd0 (c_opt c) = true /\ lz4_create c = Ok st) \/
   (c_id c = ID_ZSTD /\ pad_zero 0 co_sizeof_opt_padd0 (c_opt c) = true /\ zstd_create c = Ok st)).
Proof.
  unfold compressor_create. intros H.
  destruct ((c_id c <? c_SQFS_COMP_MIN) || (c_SQFS_COMP_MAX <? c_id c)) eqn:E0; [discriminate|].
  destruct (avail (c_id c)) eqn:Ea; [|discriminate]. cbn [negb] in H. split; [reflexivity|].
  destruct (c_id c =? ID_XZ) eqn:Ex.
  { apply N.eqb_eq in Ex. rewrite Ex in H. cbn -[pad_zero xz_create gzip_create lzma_create lz4_create zstd_create] in H. right; left. rewrite Ex.
    destruct (pad_zero co_off_opt_xz_padd0 co_sizeof_opt_xz_padd0 (c_opt c)); [|discriminate]. auto. }
  destruct (c_id c =? ID_LZMA) eqn:El.
  { apply N.eqb_eq in El. rewrite El in H. cbn -[pad_zero xz_create gzip_create lzma_create lz4_create zstd_create] in H. right; right; left. rewrite El.
    destruct (pad_zero co_off_opt_lzma_padd0 co_sizeof_opt_lzma_padd0 (c_opt c)); [|discriminate]. auto. }
  destruct (c_id c =? ID_LZO) eqn:Eo.
  { apply N.eqb_eq in Eo. rewrite Eo in H. cbn -[pad_zero xz_create gzip_create lzma_create lz4_create zstd_create] in H.
    destruct (pad_zero co_off_opt_lzo_padd0 co_sizeof_opt_lzo_padd0 (c_opt c)); discriminate. }
  destruct (c_id c =? ID_GZIP) eqn:Eg.
  { apply N.eqb_eq in Eg. left. rewrite Eg.
    destruct (pad_zero co_off_opt_gzip_padd0 co_sizeof_opt_gzip_padd0 (c_opt c)); [|discriminate]. auto. }
  destruct (pad_zero 0 co_sizeof_opt_padd0 (c_opt c)); [|discriminate]. cbn [negb] in H.
  destruct (c_id c =? ID_LZ4) eqn:E4.
  { apply N.eqb_eq in E4. right; right; right; left. auto. }
  destruct (c_id c =? ID_ZSTD) eqn:Ez; [|discriminate].
  apply N.eqb_eq in Ez. right; right; right; right. auto.
Qed.

Ltac cle := vm_compute; intro; discriminate.

(* ---- what the format stores for a compressor object, and what a reader recovers ---- *)
Definition xz_filters (s : xz_st) : N :=
  N.ldiff (N.land (xz_flags s) co_SQFS_COMP_FLAG_XZ_ALL) co_SQFS_COMP_FLAG_XZ_EXTREME.

Definition fmt_payload (st : cstate) : list N :=
  match st with
  | SGzip s => fmt_gzip (gz_level s) (gz_window s) (gz_strategies s)
  | SXz s => fmt_xz (xz_dictsz s) (xz_filters s)
  | SLzma _ => []
  | SLz4 s => fmt_lz4 1 (if lz4_hc s then 1 else 0)
  | SZstd s => fmt_zstd (zs_level s)
  end.

(* the option fields of the object that the options block carries to a reader *)
Definition kept (st : cstate) : list N :=
  match st with
  | SGzip s => [gz_level s; gz_window s; gz_strategies s]
  | SXz s => [xz_dictsz s; xz_filters s]
  | _ => []
  end.

Definition is_default (st : cstate) : bool :=
  match st with
  | SGzip s => (gz_level s =? co_SQFS_GZIP_DEFAULT_LEVEL) && (gz_window s =? co_SQFS_GZIP_DEFAULT_WINDOW) && (gz_strategies s =? 0)
  | SXz s => (xz_flags s =? 0) && (xz_dictsz s =? xz_bs s)
  | SLzma _ => true
  | SLz4 _ => false
  | SZstd s => zs_level s =? co_SQFS_ZSTD_DEFAULT_LEVEL
  end.

(* write_options: nothing for the defaults, else exactly the block the format describes *)
Lemma write_options_spec st :
  write_options st = Ok (if is_default st then [] else fmt_block (fmt_payload st)).
Proof.
  destruct st as [s|s|s|s|s]; cbn [write_options is_default fmt_payload].
  - destruct ((gz_level s =? co_SQFS_GZIP_DEFAULT_LEVEL) && (gz_window s =? co_SQFS_GZIP_DEFAULT_WINDOW) && (gz_strategies s =? 0));
      [reflexivity|].
    rewrite struct_gzip. apply generic_write_fmt_block. rewrite len_fmt_gzip. reflexivity.
  - destruct ((xz_flags s =? 0) && (xz_dictsz s =? xz_bs s)); [reflexivity|].
    rewrite struct_xz. apply generic_write_fmt_block. rewrite len_fmt_xz. reflexivity.
  - reflexivity.
  - rewrite struct_lz4.
    change co_LZ4LEGACY with 1.
    replace (if lz4_hc s then co_SQFS_COMP_FLAG_LZ4_HC else 0) with (if lz4_hc s then 1 else 0) by (destruct (lz4_hc s); reflexivity).
    apply generic_write_fmt_block. rewrite len_fmt_lz4. reflexivity.
  - destruct (zs_level s =? co_SQFS_ZSTD_DEFAULT_LEVEL); [reflexivity|].
    rewrite struct_zstd. apply generic_write_fmt_block. rewrite len_fmt_zstd. reflexivity.
Qed.

(* ---- reading back ---- *)
Lemma gzip_read_block fx s0 l w t pre tail :
  lenN pre = sizeof_sqfs_super_t -> 1 <= l <= 9 -> 8 <= w <= 15 -> N.ldiff t co_SQFS_COMP_FLAG_GZIP_ALL = 0 ->
  read_options fx (SGzip s0) (pre ++ fmt_block (fmt_gzip l w t) ++ tail) =
  (Ok tt, SGzip (MkGz (gz_compress s0) (gz_bs s0) l w t)).
Proof.
  intros Hp Hl Hw Ht. cbn [read_options].
  rewrite <- (len_fmt_gzip l w t). rewrite generic_read_fmt_block; [|exact Hp|rewrite len_fmt_gzip; reflexivity].
  destruct (dec_gzip l w t) as (A & B & C). rewrite A, B, C.
  assert (Ht' : t <= co_SQFS_COMP_FLAG_GZIP_ALL) by (apply N.ldiff_le; exact Ht).
  assert (co_SQFS_COMP_FLAG_GZIP_ALL < 65536) by reflexivity.
  rewrite (N.mod_small l), (N.mod_small w), (N.mod_small t) by lia.
  destruct ((l <? 1) || (9 <? l)) eqn:E1; [apply orb_true_iff in E1; destruct E1; bdestr; lia|].
  destruct ((w <? 8) || (15 <? w)) eqn:E2; [apply orb_true_iff in E2; destruct E2; bdestr; lia|].
  rewrite Ht. reflexivity.
Qed.

Lemma xz_read_block fx s0 d f pre tail :
  lenN pre = sizeof_sqfs_super_t -> d < 4294967296 -> is_dict_size_valid fx d = true ->
  N.ldiff f co_SQFS_COMP_FLAG_XZ_ALL = 0 ->
  read_options fx (SXz s0) (pre ++ fmt_block (fmt_xz d f) ++ tail) =
  (Ok tt, SXz (MkXz (xz_uncomp s0) (xz_bs s0) d (xz_level s0) (xz_lcv s0) (xz_lpv s0) (xz_pbv s0) f)).
Proof.
  intros Hp Hd Hv Hf. cbn [read_options].
  rewrite <- (len_fmt_xz d f). rewrite generic_read_fmt_block; [|exact Hp|rewrite len_fmt_xz; reflexivity].
  destruct (dec_xz d f) as (A & B). rewrite A, B.
  assert (Hf' : f <= co_SQFS_COMP_FLAG_XZ_ALL) by (apply N.ldiff_le; exact Hf).
  assert (co_SQFS_COMP_FLAG_XZ_ALL < 4294967296) by reflexivity.
  rewrite (N.mod_small d), (N.mod_small f) by lia.
  rewrite Hv, Hf. reflexivity.
Qed.

Lemma lz4_read_block fx s0 fl pre tail :
  lenN pre = sizeof_sqfs_super_t ->
  read_options fx (SLz4 s0) (pre ++ fmt_block (fmt_lz4 1 fl) ++ tail) = (Ok tt, SLz4 s0).
Proof.
  intros Hp. cbn [read_options].
  rewrite <- (len_fmt_lz4 1 fl). rewrite generic_read_fmt_block; [|exact Hp|rewrite len_fmt_lz4; reflexivity].
  rewrite dec_lz4. reflexivity.
Qed.

Lemma zstd_read_block fx s0 lv pre tail :
  lenN pre = sizeof_sqfs_super_t ->
  read_options fx (SZstd s0) (pre ++ fmt_block (fmt_zstd lv) ++ tail) = (Ok tt, SZstd s0).
Proof.
  intros Hp. cbn [read_options].
  rewrite <- (len_fmt_zstd lv). rewrite generic_read_fmt_block; [|exact Hp|rewrite len_fmt_zstd; reflexivity].
  reflexivity.
Qed.

Ltac cbn_create H := cbn -[pad_zero xz_create gzip_create lzma_create lz4_create zstd_create] in H.
Ltac cbn_create_goal := cbn -[pad_zero xz_create gzip_create lzma_create lz4_create zstd_create].

Lemma create_gzip_eq fx avail c : c_id c = ID_GZIP -> avail ID_GZIP = true ->
  pad_zero co_off_opt_gzip_padd0 co_sizeof_opt_gzip_padd0 (c_opt c) = true -> compressor_create fx avail c = gzip_create c.
Proof. intros Hi Ha Hp. unfold compressor_create. rewrite Hi. cbn_create_goal. rewrite Ha, Hp. reflexivity. Qed.
Lemma create_xz_eq fx avail c : c_id c = ID_XZ -> avail ID_XZ = true ->
  pad_zero co_off_opt_xz_padd0 co_sizeof_opt_xz_padd0 (c_opt c) = true -> compressor_create fx avail c = xz_create fx c.
Proof. intros Hi Ha Hp. unfold compressor_create. rewrite Hi. cbn_create_goal. rewrite Ha, Hp. reflexivity. Qed.
Lemma create_lzma_eq fx avail c : c_id c = ID_LZMA -> avail ID_LZMA = true ->
  pad_zero co_off_opt_lzma_padd0 co_sizeof_opt_lzma_padd0 (c_opt c) = true -> compressor_create fx avail c = lzma_create c.
Proof. intros Hi Ha Hp. unfold compressor_create. rewrite Hi. cbn_create_goal. rewrite Ha, Hp. reflexivity. Qed.
Lemma create_lz4_eq fx avail c : c_id c = ID_LZ4 -> avail ID_LZ4 = true ->
  pad_zero 0 co_sizeof_opt_padd0 (c_opt c) = true -> compressor_create fx avail c = lz4_create c.
Proof. intros Hi Ha Hp. unfold compressor_create. rewrite Hi. cbn_create_goal. rewrite Ha, Hp. reflexivity. Qed.
Lemma create_zstd_eq fx avail c : c_id c = ID_ZSTD -> avail ID_ZSTD = true ->
  pad_zero 0 co_sizeof_opt_padd0 (c_opt c) = true -> compressor_create fx avail c = zstd_create c.
Proof. intros Hi Ha Hp. unfold compressor_create. rewrite Hi. cbn_create_goal. rewrite Ha, Hp. reflexivity. Qed.
Lemma create_lzo fx avail c : c_id c = ID_LZO -> exists e, compressor_create fx avail c = Err e.
Proof.
  intros Hi. unfold compressor_create. rewrite Hi. cbn_create_goal.
  destruct (avail ID_LZO); cbn [negb]; [|eexists; reflexivity].
  destruct (pad_zero co_off_opt_lzo_padd0 co_sizeof_opt_lzo_padd0 (c_opt c)); cbn [negb]; eexists; reflexivity.
Qed.

(* ---- sqfs_compressor_config_init, per compressor ---- *)
Definition xz_default_dict (bs : N) : N := if bs <? co_SQFS_XZ_MIN_DICT_SIZE then co_SQFS_XZ_MIN_DICT_SIZE else bs.

Lemma config_init_gzip bs fl :
  N.ldiff (trunc 2 fl) (N.lor F_GENERIC_ALL co_SQFS_COMP_FLAG_GZIP_ALL) = 0 ->
  config_init ID_GZIP bs fl =
  (0%Z, MkCfg ID_GZIP (trunc 2 fl) (trunc co_width_sqfs_compressor_config_t_block_size bs) co_SQFS_GZIP_DEFAULT_LEVEL
              (og co_SQFS_GZIP_DEFAULT_WINDOW)).
Proof.
  intros H. unfold config_init. change (ID_GZIP =? ID_GZIP) with true. cbv iota. rewrite H. cbn [N.eqb negb].
  unfold set_gz_window, with_level, with_opt. cbn [c_opt c_level cfg_zero]. rewrite zero_opt_og, setw_og. reflexivity.
Qed.

Lemma config_init_xz bs fl :
  N.ldiff (trunc 2 fl) (N.lor F_GENERIC_ALL co_SQFS_COMP_FLAG_XZ_ALL) = 0 ->
  config_init ID_XZ bs fl =
  (0%Z, MkCfg ID_XZ (trunc 2 fl) (trunc co_width_sqfs_compressor_config_t_block_size bs) co_SQFS_XZ_DEFAULT_LEVEL
              (ox (xz_default_dict bs) co_SQFS_XZ_DEFAULT_LC co_SQFS_XZ_DEFAULT_LP co_SQFS_XZ_DEFAULT_PB)).
Proof.
  intros H. unfold config_init.
  change (ID_XZ =? ID_GZIP) with false. change (ID_XZ =? ID_LZO) with false. change (ID_XZ =? ID_ZSTD) with false.
  change (ID_XZ =? ID_XZ) with true. cbv iota. cbv zeta.
  unfold set_xz_dict, set_xz_lc, set_xz_lp, set_xz_pb, with_level, with_opt. cbn [c_opt c_level c_id c_flags c_bs cfg_zero].
  rewrite zero_opt_ox, !setd_ox, setlc_ox, setlp_ox, setpb_ox.
  unfold xz_default_dict. destruct (bs <? co_SQFS_XZ_MIN_DICT_SIZE); cbn [c_opt c_level]; rewrite ?setd_ox, H; reflexivity.
Qed.

Lemma config_init_lzma bs fl :
  N.ldiff (trunc 2 fl) (N.lor F_GENERIC_ALL co_SQFS_COMP_FLAG_LZMA_ALL) = 0 ->
  config_init ID_LZMA bs fl =
  (0%Z, MkCfg ID_LZMA (trunc 2 fl) (trunc co_width_sqfs_compressor_config_t_block_size bs) co_SQFS_LZMA_DEFAULT_LEVEL
              (ox (xz_default_dict bs) co_SQFS_LZMA_DEFAULT_LC co_SQFS_LZMA_DEFAULT_LP co_SQFS_LZMA_DEFAULT_PB)).
Proof.
  intros H. unfold config_init.
  change (ID_LZMA =? ID_GZIP) with false. change (ID_LZMA =? ID_LZO) with false. change (ID_LZMA =? ID_ZSTD) with false.
  change (ID_LZMA =? ID_XZ) with false. change (ID_LZMA =? ID_LZMA) with true. cbv iota. cbv zeta.
  unfold set_lzma_dict, set_lzma_lc, set_lzma_lp, set_lzma_pb, with_level, with_opt. cbn [c_opt c_level c_id c_flags c_bs cfg_zero].
  rewrite zero_opt_ox.
  change co_sizeof_opt_lzma_dict_size with co_sizeof_opt_xz_dict_size. change co_off_opt_lzma_dict_size with co_off_opt_xz_dict_size.
  change co_sizeof_opt_lzma_lc with co_sizeof_opt_xz_lc. change co_off_opt_lzma_lc with co_off_opt_xz_lc.
  change co_sizeof_opt_lzma_lp with co_sizeof_opt_xz_lp. change co_off_opt_lzma_lp with co_off_opt_xz_lp.
  change co_sizeof_opt_lzma_pb with co_sizeof_opt_xz_pb. change co_off_opt_lzma_pb with co_off_opt_xz_pb.
  rewrite !setd_ox, setlc_ox, setlp_ox, setpb_ox.
  unfold xz_default_dict. change co_SQFS_LZMA_MIN_DICT_SIZE with co_SQFS_XZ_MIN_DICT_SIZE.
  destruct (bs <? co_SQFS_XZ_MIN_DICT_SIZE); cbn [c_opt c_level]; rewrite ?setd_ox, H; reflexivity.
Qed.

Lemma config_init_lz4 bs fl :
  N.ldiff (trunc 2 fl) (N.lor F_GENERIC_ALL co_SQFS_COMP_FLAG_LZ4_ALL) = 0 ->
  config_init ID_LZ4 bs fl =
  (0%Z, MkCfg ID_LZ4 (trunc 2 fl) (trunc co_width_sqfs_compressor_config_t_block_size bs) 0 zero_opt).
Proof.
  intros H. unfold config_init.
  change (ID_LZ4 =? ID_GZIP) with false. change (ID_LZ4 =? ID_LZO) with false. change (ID_LZ4 =? ID_ZSTD) with false.
  change (ID_LZ4 =? ID_XZ) with false. change (ID_LZ4 =? ID_LZMA) with false. change (ID_LZ4 =? ID_LZ4) with true.
  cbv iota. rewrite H. reflexivity.
Qed.

Lemma config_init_zstd bs fl :
  N.ldiff (trunc 2 fl) F_GENERIC_ALL = 0 ->
  config_init ID_ZSTD bs fl =
  (0%Z, MkCfg ID_ZSTD (trunc 2 fl) (trunc co_width_sqfs_compressor_config_t_block_size bs) co_SQFS_ZSTD_DEFAULT_LEVEL zero_opt).
Proof.
  intros H. unfold config_init.
  change (ID_ZSTD =? ID_GZIP) with false. change (ID_ZSTD =? ID_LZO) with false. change (ID_ZSTD =? ID_ZSTD) with true.
  cbv iota. rewrite H. reflexivity.
Qed.

Lemma config_init_lzo bs fl :
  N.ldiff (trunc 2 fl) F_GENERIC_ALL = 0 ->
  config_init ID_LZO bs fl =
  (0%Z, MkCfg ID_LZO (trunc 2 fl) (trunc co_width_sqfs_compressor_config_t_block_size bs) co_SQFS_LZO_DEFAULT_LEVEL
              (og co_SQFS_LZO_DEFAULT_ALG)).
Proof.
  intros H. unfold config_init. change (ID_LZO =? ID_GZIP) with false. change (ID_LZO =? ID_LZO) with true. cbv iota.
  rewrite H. cbn [N.eqb negb].
  unfold set_lzo_alg, with_level, with_opt. cbn [c_opt c_level cfg_zero]. rewrite zero_opt_og, seta_og. reflexivity.
Qed.

(* ---- is_dict_size_valid ---- *)
Lemma land_pred_pow2 a : a <> 0 -> N.land a (a - 1) = 0 -> a = 2 ^ N.log2 a.
Proof.
  intros Ha H. destruct (N.log2_spec a) as [L U]; [lia|].
  destruct (N.eq_dec a (2 ^ N.log2 a)) as [E|E]; [exact E|exfalso].
  assert (Hl : N.log2 (a - 1) = N.log2 a).
  { rewrite N.pow_succ_r' in U.
    apply (N.log2_unique' (a - 1) (N.log2 a) (a - 1 - 2 ^ N.log2 a)); lia. }
  assert (B1 : N.testbit a (N.log2 a) = true) by (apply N.bit_log2; exact Ha).
  assert (B2 : N.testbit (a - 1) (N.log2 a) = true).
  { rewrite <- Hl. apply N.bit_log2. lia. }
  assert (B : N.testbit (N.land a (a - 1)) (N.log2 a) = true) by (rewrite N.land_spec, B1, B2; reflexivity).
  rewrite H, N.bits_0 in B. discriminate.
Qed.

Lemma lor_pow2_half n : N.lor (2 ^ (n + 1)) (2 ^ (n + 1) / 2) = 2 ^ n + 2 ^ (n + 1).
Proof.
  assert (E : 2 ^ (n + 1) / 2 = 2 ^ n).
  { rewrite N.add_1_r, N.pow_succ_r', N.mul_comm. apply N.div_mul. discriminate. }
  rewrite E. rewrite <- N.lxor_lor.
  - rewrite <- N.add_nocarry_lxor; [lia|].
    apply N.bits_inj. intros i. rewrite N.land_spec, !N.pow2_bits_eqb, N.bits_0.
    destruct (N.eqb_spec (n + 1) i), (N.eqb_spec n i); try reflexivity. lia.
  - apply N.bits_inj. intros i. rewrite N.land_spec, !N.pow2_bits_eqb, N.bits_0.
    destruct (N.eqb_spec (n + 1) i), (N.eqb_spec n i); try reflexivity. lia.
Qed.

Lemma shape_ok_pow2 k : k < 64 -> dict_shape_ok (2 ^ k) = true.
Proof.
  intros Hk. unfold dict_shape_ok. apply existsb_exists. exists (N.to_nat k). split.
  - apply in_seq. lia.
  - rewrite N2Nat.id, N.eqb_refl. reflexivity.
Qed.
Lemma shape_ok_pow2_sum k : k < 64 -> dict_shape_ok (2 ^ k + 2 ^ (k + 1)) = true.
Proof.
  intros Hk. unfold dict_shape_ok. apply existsb_exists. exists (N.to_nat k). split.
  - apply in_seq. lia.
  - rewrite Nat2N.inj_succ, N2Nat.id, <- N.add_1_r, N.eqb_refl. apply orb_true_r.
Qed.

(* the repaired test admits exactly the format's shapes (and 0, which the range test of create excludes) *)
Lemma dict_valid_repaired_shape fx d :
  fx_shape fx = true -> d <> 0 -> d < two64 -> is_dict_size_valid fx d = true -> dict_shape_ok d = true.
Proof.
  intros Hfx Hd Hlt H. unfold is_dict_size_valid in H. rewrite Hfx in H. cbn [andb] in H.
  assert (S1 : sub64 d 1 = d - 1) by (unfold sub64; destruct (1 <=? d) eqn:E; [reflexivity|apply N.leb_gt in E; lia]).
  rewrite S1 in H. set (x := N.land d (d - 1)) in *.
  assert (Hlog : forall a, a <> 0 -> a < two64 -> N.log2 a < 64).
  { intros a Ha Hb. apply N.log2_lt_pow2; [lia|exact Hb]. }
  destruct (x =? 0) eqn:Ex.
  - apply N.eqb_eq in Ex. rewrite (land_pred_pow2 d Hd Ex). apply shape_ok_pow2. apply Hlog; assumption.
  - apply N.eqb_neq in Ex.
    assert (S2 : sub64 x 1 = x - 1) by (unfold sub64; destruct (1 <=? x) eqn:E; [reflexivity|apply N.leb_gt in E; lia]).
    rewrite S2 in H.
    destruct (negb (N.land x (x - 1) =? 0)) eqn:E2; [discriminate|].
    apply negb_false_iff, N.eqb_eq in E2. apply N.eqb_eq in H.
    pose proof (land_pred_pow2 x Ex E2) as Px.
    assert (Hx : x <= d) by (unfold x; apply N.ldiff_le; apply N.bits_inj; intros i;
      rewrite N.ldiff_spec, N.land_spec, N.bits_0; destruct (N.testbit d i), (N.testbit (d - 1) i); reflexivity).
    destruct (N.log2 x) as [|p] eqn:El.
    + (* x = 1: d = 1 | 0 = 1 *) rewrite Px in H. cbn in H. subst d. reflexivity.
    + assert (En : N.pos p = (N.pos p - 1) + 1) by lia.
      rewrite Px, En, lor_pow2_half in H. rewrite H. apply shape_ok_pow2_sum.
      assert (N.log2 x < 64) by (apply Hlog; [exact Ex|lia]). lia.
Qed.

(* ... and every shape of the format that fits 32 bits is admitted, by both variants *)
Lemma dict_shape_valid fx d : d < two32 -> dict_shape_ok d = true -> is_dict_size_valid fx d = true.
Proof.
  intros Hd H. unfold dict_shape_ok in H. apply existsb_exists in H. destruct H as (n & Hin & Hn).
  apply in_seq in Hin.
  assert (Hn32 : (n < 33)%nat).
  { destruct (Nat.lt_ge_cases n 33) as [L|G]; [exact L|exfalso].
    assert (2 ^ 33 <= 2 ^ N.of_nat n) by (apply N.pow_le_mono_r; lia).
    unfold two32 in Hd. change (2 ^ 33) with 8589934592 in H.
    apply orb_true_iff in Hn. destruct Hn as [E|E]; apply N.eqb_eq in E; lia. }
  assert (A : forallb (fun n => is_dict_size_valid fx (2 ^ N.of_nat n) &&
                                is_dict_size_valid fx (2 ^ N.of_nat n + 2 ^ N.of_nat (S n))) (seq 0 33) = true).
  { destruct fx as [[|] a b]; vm_compute; reflexivity. }
  rewrite forallb_forall in A. specialize (A n). rewrite in_seq in A. specialize (A ltac:(lia)).
  apply andb_true_iff in A. destruct A as [A1 A2].
  apply orb_true_iff in Hn. destruct Hn as [E|E]; apply N.eqb_eq in E; subst d; assumption.
Qed.

(* the block sizes a super block can have *)
Definition block_sizes : list N := [4096; 8192; 16384; 32768; 65536; 131072; 262144; 524288; 1048576].
Lemma default_dict_valid fx bs : In bs block_sizes ->
  is_dict_size_valid fx (xz_default_dict bs) = true /\
  co_SQFS_XZ_MIN_DICT_SIZE <= xz_default_dict bs <= co_SQFS_XZ_MAX_DICT_SIZE /\
  xz_default_dict bs < two32 /\ (co_SQFS_XZ_MIN_DICT_SIZE <= bs -> xz_default_dict bs = bs) /\
  trunc co_width_sqfs_compressor_config_t_block_size bs = bs.
Proof.
  intros H. unfold block_sizes in H. destruct fx as [[|] a b];
  repeat (destruct H as [<-|H]; [vm_compute; repeat split; intros; congruence|]); destruct H.
Qed.
